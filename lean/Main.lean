/-
  nutsdriver — reads a trace (`suite <name>`, `case <n>`, `<op> … => <impl result>`) on stdin and
  prints one verdict per operation line:

    <lineno> <M|m> <S|s|-> <tag> <cell> [| model=<…> spec=<…> impl=<…> cmd=<…>]

  `M` = implementation result equals the model's, `m` = differs; `S` = acceptable to the spec,
  `s` = not acceptable, `-` = the spec does not speak about this operation. Details are printed
  only for lines that are not `M S`/`M -`.
-/
import Nuts.Driver.Common
import Nuts.Driver.ListDS
import Nuts.Driver.DB
import Nuts.Driver.Codec
import Nuts.Driver.Modes
import Nuts.Driver.Fuzz
import Nuts.Driver.Sparse
import Nuts.Driver.BPT
import Nuts.Driver.ZSetDS
open Nuts Nuts.Driver

inductive SuiteSt where
  | none
  | listDS (s : ListSuite.St)
  | db (s : DBSuite.St)
  | codec
  | modes (s : ModesSuite.St)
  | fuzz
  | sparse (s : SparseSuite.St)
  | bpt (s : BPTSuite.St)
  | zset (s : ZSetSuite.St)

def freshSuite (name : String) : SuiteSt :=
  match name with
  | "list-ds" => .listDS {}
  | "codec" => .codec
  | "modes" => .modes {}
  | "api-fuzz" => .fuzz
  | "db-sparse" => .sparse {}
  | "bpt-ds" => .bpt {}
  | "zset-ds" => .zset {}
  | _ => if name.startsWith "db" then .db {} else .none

def stepSuite (s : SuiteSt) (cmd impl : String) : SuiteSt × Verdict :=
  match s with
  | .none => (s, { model := "no-suite", specOk := none })
  | .listDS st => let (st', v) := ListSuite.step st cmd impl; (.listDS st', v)
  | .db st => let (st', v) := DBSuite.step st cmd impl; (.db st', v)
  | .codec => (s, (CodecSuite.step () cmd impl).2)
  | .modes st => let (st', v) := ModesSuite.step st cmd impl; (.modes st', v)
  | .fuzz => (s, FuzzSuite.step cmd impl)
  | .sparse st => let (st', v) := SparseSuite.step st cmd impl; (.sparse st', v)
  | .bpt st => let (st', v) := BPTSuite.step st cmd impl; (.bpt st', v)
  | .zset st => let (st', v) := ZSetSuite.step st cmd impl; (.zset st', v)

def renderVerdict (lineno : Nat) (cmd impl : String) (v : Verdict) : String :=
  let m := if v.model == impl then "M" else "m"
  let s := match v.specOk with | some true => "S" | some false => "s" | none => "-"
  let head := s!"{lineno} {m} {s} {v.tag} {v.cell}"
  if m == "M" && s != "s" then head
  else head ++ s!" | model={v.model} | spec={v.spec} | impl={impl} | cmd={cmd}"

partial def loop (h : IO.FS.Stream) (out : IO.FS.Stream) (suite : String) (st : SuiteSt) (lineno : Nat) : IO Unit := do
  let line ← h.getLine
  if line.isEmpty then return ()
  let line := (line.trimAscii).toString
  let lineno := lineno + 1
  if line == "" || line.startsWith "#" then
    loop h out suite st lineno
  else if line.startsWith "suite " then
    let name := (line.drop 6).toString
    loop h out name (freshSuite name) lineno
  else if line.startsWith "case " then
    out.putStrLn s!"{lineno} case"
    loop h out suite (freshSuite suite) lineno
  else
    let (cmd, impl) := splitLine line
    let (st', v) := stepSuite st cmd impl
    out.putStrLn (renderVerdict lineno cmd impl v)
    loop h out suite st' lineno

def main : IO Unit := do
  let stdin ← IO.getStdin
  let stdout ← IO.getStdout
  loop stdin stdout "" .none 0
