import Nuts.Basic
import Nuts.Kernel
import Nuts.Model.ListDS
import Nuts.Model.SetDS
import Nuts.Model.ZSetA
import Nuts.Model.DB
import Nuts.Model.Tx
import Nuts.Spec.RList
