import Nuts.Basic
import Nuts.Kernel
import Nuts.Model.ListDS
import Nuts.Spec.RList
