import NutsGen.Kernels
import NutsGen.Facts
