/-
  Nuts.Model.ListDS — `ds/list` as coded (Go: `type List struct{ Items map[string][][]byte }`).

  Index normalisation and bounds tests are NOT written here: `lrange` and `lset` call the kernels
  that `tools/extract` regenerates from the Go SSA of `List.LRange` / `List.LSet` on every run, and
  bind the kernels' inputs (`size`, "key missing") to the model state. The loops of
  `LPush`/`LRem`/`LRemNum` are structural recursions following the Go text.
-/
import Nuts.Basic
import Nuts.Kernel
import NutsGen.Kernels
namespace Nuts.Model.ListDS
open Nuts

/-- The `Items` map: key ↦ slice. A key may be present with an empty slice. -/
abbrev St := List (Bytes × List Bytes)

def get? (s : St) (k : Bytes) : Option (List Bytes) :=
  match s with
  | [] => none
  | (k', v) :: rest => if k' = k then some v else get? rest k

def put (s : St) (k : Bytes) (v : List Bytes) : St :=
  match s with
  | [] => [(k, v)]
  | (k', v') :: rest => if k' = k then (k, v) :: rest else (k', v') :: put rest k v

/-- `x[lo:hi]` on a slice whose length and capacity are `l.length` (panics like Go). -/
def sliceOf {α} (l : List α) (lo hi : Int) : Outcome (List α) :=
  if 0 ≤ lo ∧ lo ≤ hi ∧ hi ≤ l.length then .ok ((l.drop lo.toNat).take (hi - lo).toNat) else .panic

def size (s : St) (k : Bytes) : Outcome Nat :=
  match get? s k with
  | none => .err
  | some l => .ok l.length

def rpush (s : St) (k : Bytes) (vs : List Bytes) : St × Outcome Nat :=
  let s' := if vs.isEmpty then s else put s k ((get? s k).getD [] ++ vs)
  (s', size s' k)

def lpush (s : St) (k : Bytes) (vs : List Bytes) : St × Outcome Nat :=
  let new := vs.reverse ++ (get? s k).getD []
  (put s k new, .ok new.length)

def lpeek (s : St) (k : Bytes) : Outcome Bytes :=
  match get? s k with
  | some (x :: _) => .ok x
  | _ => .err

def rpeek (s : St) (k : Bytes) : Outcome Bytes :=
  match get? s k with
  | none => .err
  | some l => match l.getLast? with
    | some x => .ok x
    | none => .err

def lpop (s : St) (k : Bytes) : St × Outcome Bytes :=
  match get? s k with
  | some (x :: xs) => (put s k xs, .ok x)
  | _ => (s, .err)

def rpop (s : St) (k : Bytes) : St × Outcome Bytes :=
  match get? s k with
  | none => (s, .err)
  | some l => match l.getLast? with
    | some x => (put s k l.dropLast, .ok x)
    | none => (s, .err)

/-- `LRange` on the slice `l` (`missing` = the key is absent): the generated kernel computes the
slice bounds; an empty event list is one of the two error returns. -/
def lrangeL (l : List Bytes) (missing : Bool) (start stop : Int) : Outcome (List Bytes) :=
  let o := NutsGen.K.list_LRange.run start stop (l.length : Int) missing
  match o.events with
  | [] => .err
  | [.slice _ (some lo) (some hi)] => sliceOf l lo hi
  | _ => .panic

def lrange (s : St) (k : Bytes) (start stop : Int) : Outcome (List Bytes) :=
  match get? s k with
  | none => lrangeL [] true start stop
  | some l => lrangeL l false start stop

def ltrim (s : St) (k : Bytes) (start stop : Int) : St × Outcome Unit :=
  match get? s k with
  | none => (s, .err)
  | some l =>
    match lrangeL l false start stop with
    | .ok r => (put s k r, .ok ())
    | .err => (s, .err)
    | .panic => (s, .panic)

/-- `LSet`: bounds test from the generated kernel; an `index` event is the store. -/
def lset (s : St) (k : Bytes) (idx : Int) (v : Bytes) : St × Outcome Unit :=
  let l := (get? s k).getD []
  let o := NutsGen.K.list_LSet.run idx (get? s k).isSome (l.length : Int)
  match o.events with
  | [] => (s, .err)
  | [.index _ i] => if 0 ≤ i ∧ i < l.length then (put s k (l.set i.toNat v), .ok ()) else (s, .panic)
  | _ => (s, .panic)

/-- number of elements equal to `v`, stopping at `cap` when `cap > 0` (the loop of `LRemNum`). -/
def countCapped (l : List Bytes) (v : Bytes) (cap : Int) (acc : Nat := 0) : Nat :=
  match l with
  | [] => acc
  | x :: xs =>
    if cap > 0 ∧ (acc : Int) = cap then acc
    else countCapped xs v cap (if x = v then acc + 1 else acc)

def lremNumL (l : List Bytes) (count : Int) (v : Bytes) : Outcome Nat :=
  if count > l.length then .err
  else
    -- a count below -size is clamped to -size
    let count := if count < -(l.length : Int) then -(l.length : Int) else count
    let c := if count < 0 then wrap64 (-count) else count
    .ok (countCapped l v c)

def lremNum (s : St) (k : Bytes) (count : Int) (v : Bytes) : Outcome Nat :=
  match get? s k with
  | none => .err
  | some l => lremNumL l count v

/-- the `count > 0` loop of `LRem`: drop elements equal to `v` while fewer than `n` were dropped. -/
def removeFirst (l : List Bytes) (v : Bytes) (n : Int) (removed : Nat := 0) : List Bytes × Nat :=
  match l with
  | [] => ([], removed)
  | x :: xs =>
    if (removed : Int) < n ∧ x = v then removeFirst xs v n (removed + 1)
    else
      let (r, m) := removeFirst xs v n removed
      (x :: r, m)

/-- `LRem` on a slice: new slice and `realRemovedNum`; `panic` when the copy loop runs past the
allocated length (cannot happen since counts below `-size` are clamped; kept as an outcome). -/
def lremL (l : List Bytes) (count : Int) (v : Bytes) : Outcome (List Bytes × Nat) :=
  let count := if count < -(l.length : Int) then -(l.length : Int) else count
  match lremNumL l count v with
  | .err => .err
  | .panic => .panic
  | .ok need =>
    if need = 0 then .ok (l, 0)
    else
      let count1 : Int := if count = 0 then need else count
      if count1 > 0 then
        let (r, m) := removeFirst l v count1
        if r.length ≤ l.length - need then .ok (r ++ List.replicate (l.length - need - r.length) [], m) else .panic
      else
        let c := wrap64 (-count1)
        let (r, m) := removeFirst l.reverse v c
        if r.length ≤ l.length - need then .ok ((r ++ List.replicate (l.length - need - r.length) []).reverse, m)
        else .panic

def lrem (s : St) (k : Bytes) (count : Int) (v : Bytes) : St × Outcome Nat :=
  match get? s k with
  | none => (s, .err)
  | some l =>
    match lremL l count v with
    | .ok (r, m) => (put s k r, .ok m)
    | .err => (s, .err)
    | .panic => (s, .panic)

end Nuts.Model.ListDS
