/-
  Nuts.Model.Dir — the database directory at listing level, for the index-mode compatibility check of
  `Open` (db.go: `Open`, `checkEntryIdxMode`).

  `checkEntryIdxMode` scans the directory for a file with suffix `.dat` (`hasDataFlag`) and an entry named
  `bpt` (`hasBptDirFlag`) and refuses:  RAM mode ∧ data ∧ bpt  — or —  sparse mode ∧ data ∧ ¬bpt
  (the two conditions are regenerated from the source as `NutsGen.F.modeRefusals`; `NutsGen.F.openOrder`
  records that the check precedes the creation of `bpt/`, `meta/` and of the active data file).
-/
import Nuts.Basic
namespace Nuts.Model.Dir
open Nuts

/-- what the check looks at: which data files exist, and whether `bpt/` exists -/
structure Dir where
  dats : List Nat := []
  bpt : Bool := false
  deriving Repr, DecidableEq, Inhabited

def hasDat (d : Dir) : Bool := !d.dats.isEmpty

/-- index modes: 0 = key+value in RAM, 1 = key only in RAM, 2 = sparse B+ tree -/
def isSparse (mode : Nat) : Bool := mode == 2

/-- the refusal decision of `checkEntryIdxMode` -/
def refuses (mode : Nat) (d : Dir) : Bool :=
  (!isSparse mode && hasDat d && d.bpt) || (isSparse mode && !d.bpt && hasDat d)

/-- `Open` at listing level: refused ⇒ error and the directory as it was (the check runs before anything
is created); accepted ⇒ sparse mode makes `bpt/` (and `meta/`), then the active data file exists. -/
def openDir (mode : Nat) (d : Dir) : Bool × Dir :=
  if refuses mode d then (false, d)
  else (true, { dats := if d.dats.isEmpty then [0] else d.dats, bpt := d.bpt || isSparse mode })

/-- the single listing mutations the library performs on a directory it uses in the RAM modes:
a data file appears (first `Open`, rotation, Merge's rewrite file) or disappears (Merge). Each is one
`open(O_CREATE)` / `unlink`, so the set of reachable listings is closed under crashes. -/
inductive RamStep : Dir → Dir → Prop
  | mkDat (d : Dir) (fid : Nat) : RamStep d { d with dats := fid :: d.dats }
  | rmDat (d : Dir) (fid : Nat) : RamStep d { d with dats := d.dats.filter (· != fid) }

inductive RamReach : Dir → Prop
  | empty : RamReach {}
  | step {d d' : Dir} : RamReach d → RamStep d d' → RamReach d'

/-- … and in sparse mode: `bpt/` is made by `Open` once the check has passed, and data files appear only
afterwards (`Open` creates the index directories before `buildIndexes` creates the active file; nothing
in sparse mode removes a data file — Merge refuses the mode). -/
inductive SparseStep : Dir → Dir → Prop
  | mkBpt (d : Dir) (h : refuses 2 d = false) : SparseStep d { d with bpt := true }
  | mkDat (d : Dir) (fid : Nat) (h : d.bpt = true) : SparseStep d { d with dats := fid :: d.dats }

inductive SparseReach : Dir → Prop
  | empty : SparseReach {}
  | step {d d' : Dir} : SparseReach d → SparseStep d d' → SparseReach d'

end Nuts.Model.Dir
