/-
  Nuts.Model.BPTree — the in-memory B+ tree of bptree.go (order 8: at most 7 keys per node, 8 children per
  inner node), as a purely functional tree: `Insert` with the Go split rules (a full leaf of 7 + the new key
  splits 4 / 4 and the first key of the right half goes up; a full inner node of 7 keys + the pushed-up key
  splits into 4 keys / the 5th key goes up / 3 keys), `Find` by the `FindLeaf` descent (`key ≥ separator`
  goes right), and the leaf chain as the in-order sequence of the leaves.

  An inner node is its first child plus a list of (separator, child) pairs; the list is its own inductive
  type (`Rest`) so that every function below is structurally recursive.
-/
import Nuts.Basic
namespace Nuts.Model.BPTree
open Nuts

mutual
inductive Node (α : Type) where
  | leaf (kvs : List (Bytes × α))
  | inner (c0 : Node α) (rest : Rest α)
inductive Rest (α : Type) where
  | nil
  | cons (sep : Bytes) (child : Node α) (tl : Rest α)
end

/-- result of an insertion below a node: the node itself, or a split with the key that goes up -/
inductive Ins (α : Type) where
  | one (n : Node α)
  | split (l : Node α) (sep : Bytes) (r : Node α)

variable {α : Type}

/-- maximum number of keys in a node (`order - 1`) -/
def maxKeys : Nat := 7

mutual
/-- in-order contents = the leaf chain from the leftmost leaf -/
def Node.toList : Node α → List (Bytes × α)
  | .leaf kvs => kvs
  | .inner c0 rest => c0.toList ++ rest.toList
def Rest.toList : Rest α → List (Bytes × α)
  | .nil => []
  | .cons _ child tl => child.toList ++ tl.toList
end

def Rest.toPairs : Rest α → List (Bytes × Node α)
  | .nil => []
  | .cons sep child tl => (sep, child) :: tl.toPairs

def Rest.ofPairs : List (Bytes × Node α) → Rest α
  | [] => .nil
  | (sep, child) :: tl => .cons sep child (Rest.ofPairs tl)

def Rest.length : Rest α → Nat
  | .nil => 0
  | .cons _ _ tl => tl.length + 1

/-! ### Find -/

mutual
/-- `Find`: descend as `FindLeaf` does, then look the key up in the leaf -/
def Node.find : Node α → Bytes → Option α
  | .leaf kvs, k => (kvs.find? fun p => bcmp k p.1 == .eq).map (·.2)
  | .inner c0 rest, k =>
    match rest.find k with
    | some r => r
    | none => c0.find k
/-- `none`: the key is smaller than the first separator (the search belongs to the child on the left) -/
def Rest.find : Rest α → Bytes → Option (Option α)
  | .nil, _ => none
  | .cons sep child tl, k =>
    if bcmp k sep == .lt then none
    else match tl.find k with
      | some r => some r
      | none => some (child.find k)
end

/-! ### Insert -/

/-- `insertIntoLeaf`: before the first key that is not smaller -/
def leafInsert (kvs : List (Bytes × α)) (k : Bytes) (v : α) : List (Bytes × α) :=
  match kvs with
  | [] => [(k, v)]
  | p :: rest => if bcmp k p.1 == .gt then p :: leafInsert rest k v else (k, v) :: p :: rest

/-- a leaf after an insertion: split 4 / 4 when it holds 8 entries (`getSplitIndex(order) = 4`) -/
def mkLeaf (kvs : List (Bytes × α)) : Ins α :=
  if kvs.length ≤ maxKeys then .one (.leaf kvs)
  else
    let l := kvs.take 4
    let r := kvs.drop 4
    match r with
    | [] => .one (.leaf kvs)
    | p :: _ => .split (.leaf l) p.1 (.leaf r)

/-- an inner node after one of its children split: split when it holds 8 keys
(`getSplitIndex(order-1) = 4`: 4 keys stay, the 5th goes up, 3 go right) -/
def mkInner (c0 : Node α) (rest : Rest α) : Ins α :=
  if rest.length ≤ maxKeys then .one (.inner c0 rest)
  else
    let ps := rest.toPairs
    match ps.drop 4 with
    | [] => .one (.inner c0 rest)
    | (up, rc0) :: rrest => .split (.inner c0 (Rest.ofPairs (ps.take 4))) up (.inner rc0 (Rest.ofPairs rrest))

mutual
/-- insert a key that is not in the tree -/
def Node.ins : Node α → Bytes → α → Ins α
  | .leaf kvs, k, v => mkLeaf (leafInsert kvs k v)
  | .inner c0 rest, k, v =>
    match rest.ins k v with
    | some rest' => mkInner c0 rest'
    | none =>
      match c0.ins k v with
      | .one c' => .one (.inner c' rest)
      | .split l s r => mkInner l (.cons s r rest)
/-- `none`: the key belongs to the child on the left of this list -/
def Rest.ins : Rest α → Bytes → α → Option (Rest α)
  | .nil, _, _ => none
  | .cons sep child tl, k, v =>
    if bcmp k sep == .lt then none
    else match tl.ins k v with
      | some tl' => some (.cons sep child tl')
      | none =>
        match child.ins k v with
        | .one c' => some (.cons sep c' tl)
        | .split l s r => some (.cons sep l (.cons s r tl))
end

mutual
/-- overwrite the value of a key that is in the tree (`Record.UpdateRecord`): no structural change -/
def Node.update : Node α → Bytes → α → Node α
  | .leaf kvs, k, v => .leaf (kvs.map fun p => if bcmp k p.1 == .eq then (p.1, v) else p)
  | .inner c0 rest, k, v =>
    match rest.update k v with
    | some rest' => .inner c0 rest'
    | none => .inner (c0.update k v) rest
def Rest.update : Rest α → Bytes → α → Option (Rest α)
  | .nil, _, _ => none
  | .cons sep child tl, k, v =>
    if bcmp k sep == .lt then none
    else match tl.update k v with
      | some tl' => some (.cons sep child tl')
      | none => some (.cons sep (child.update k v) tl)
end

/-- a B+ tree: `none` = nil root -/
abbrev Tree (α : Type) := Option (Node α)

def Tree.toList (t : Tree α) : List (Bytes × α) := match t with | none => [] | some n => n.toList
def Tree.find (t : Tree α) (k : Bytes) : Option α := match t with | none => none | some n => n.find k

/-- `BPTree.Insert`: overwrite when the key is found, else insert (a root split makes a new root) -/
def Tree.insert (t : Tree α) (k : Bytes) (v : α) : Tree α :=
  match t with
  | none => some (.leaf [(k, v)])
  | some n =>
    if (n.find k).isSome then some (n.update k v)
    else match n.ins k v with
      | .one n' => some n'
      | .split l s r => some (.inner l (.cons s r .nil))

/-! ### the leaf chain from `FindLeaf(key)` on (start of every scan): that leaf, and what follows it -/

mutual
def Node.leavesFrom : Node α → Bytes → List (Bytes × α) × List (Bytes × α)
  | .leaf kvs, _ => (kvs, [])
  | .inner c0 rest, k =>
    match rest.leavesFrom k with
    | some l => l
    | none => let (a, b) := c0.leavesFrom k; (a, b ++ rest.toList)
def Rest.leavesFrom : Rest α → Bytes → Option (List (Bytes × α) × List (Bytes × α))
  | .nil, _ => none
  | .cons sep child tl, k =>
    if bcmp k sep == .lt then none
    else match tl.leavesFrom k with
      | some l => some l
      | none => let (a, b) := child.leavesFrom k; some (a, b ++ tl.toList)
end

def Tree.leavesFrom (t : Tree α) (k : Bytes) : List (Bytes × α) × List (Bytes × α) :=
  match t with | none => ([], []) | some n => n.leavesFrom k

/-- `findRange`: skip the keys below `start` in the first leaf only, then collect along the chain while
the key is not above `end` -/
def Tree.range (t : Tree α) (st en : Bytes) : List (Bytes × α) :=
  let (a, b) := t.leavesFrom st
  ((a.dropWhile fun p => bcmp p.1 st == .lt) ++ b).takeWhile fun p => bcmp p.1 en != .gt

/-- `PrefixScan` / `PrefixSearchScan`: skip the keys below the prefix in the first leaf, stop at the first
key without the prefix, apply offset, then the match, then the limit -/
def Tree.prefixScan (t : Tree α) (pre : Bytes) (off lim : Int) (mt : Bytes → Bool := fun _ => true) : List (Bytes × α) × Int :=
  let (a, b) := t.leavesFrom pre
  let block := ((a.dropWhile fun p => bcmp p.1 pre == .lt) ++ b).takeWhile fun p => hasPrefix p.1 pre
  let rec go (l : List (Bytes × α)) (coff : Int) (acc : List (Bytes × α)) : List (Bytes × α) × Int :=
    match l with
    | [] => (acc, coff)
    | p :: rest =>
      if coff < off then go rest (coff + 1) acc
      else if !mt p.1 then go rest coff acc
      else
        let acc := acc ++ [p]
        if lim > 0 ∧ (acc.length : Int) = lim then (acc, coff) else go rest coff acc
  go block 0 []

/-! ### well-formedness (the invariant; proved to be preserved in NutsProofs.Lemmas.BPTree) -/

mutual
/-- every key of a subtree: the keys in its leaves and its separators -/
def Node.keys : Node α → List Bytes
  | .leaf kvs => kvs.map (·.1)
  | .inner c0 rest => c0.keys ++ rest.keys
def Rest.keys : Rest α → List Bytes
  | .nil => []
  | .cons sep child tl => sep :: (child.keys ++ tl.keys)
end

def AllGe (lo : Bytes) (ks : List Bytes) : Prop := ∀ x ∈ ks, bcmp x lo ≠ .lt
def AllLt (hi : Bytes) (ks : List Bytes) : Prop := ∀ x ∈ ks, bcmp x hi = .lt

def Rest.firstSep : Rest α → Option Bytes
  | .nil => none
  | .cons s _ _ => some s

mutual
/-- leaves non-empty and strictly sorted; every separator bounds its neighbours: all keys on its left are
smaller, all keys of its own child are not smaller, separators ascend -/
def Node.WF : Node α → Prop
  | .leaf kvs => kvs ≠ [] ∧ kvs.Pairwise (fun a b => bcmp a.1 b.1 = .lt)
  | .inner c0 rest => c0.WF ∧ rest.WF ∧ (∀ s, Rest.firstSep rest = some s → AllLt s c0.keys)
def Rest.WF : Rest α → Prop
  | .nil => True
  | .cons sep child tl =>
    child.WF ∧ AllGe sep child.keys ∧ tl.WF ∧ (∀ s, Rest.firstSep tl = some s → AllLt s child.keys ∧ bcmp sep s = .lt)
end

/-! ### results of an insertion: leaf chain, keys, well-formedness -/

def Ins.toList : Ins α → List (Bytes × α)
  | .one n => n.toList
  | .split l _ r => l.toList ++ r.toList

def Ins.keys : Ins α → List Bytes
  | .one n => n.keys
  | .split l s r => l.keys ++ s :: r.keys

def Ins.WF : Ins α → Prop
  | .one n => n.WF
  | .split l s r => l.WF ∧ r.WF ∧ AllLt s l.keys ∧ AllGe s r.keys

/-! ### shape (for the correspondence with `BPTree.VerifDump`) -/

mutual
def Node.shape : Node α → String
  | .leaf kvs => "L[" ++ ",".intercalate (kvs.map fun p => hexOfBytes p.1) ++ "]"
  | .inner c0 rest => "I(" ++ c0.shape ++ rest.shape ++ ")"
def Rest.shape : Rest α → String
  | .nil => ""
  | .cons sep child tl => "|" ++ hexOfBytes sep ++ "|" ++ child.shape ++ tl.shape
end

def Tree.shape (t : Tree α) : String := match t with | none => "nil" | some n => n.shape

end Nuts.Model.BPTree
