/-
  Nuts.Model.Tx — the transactional API (tx.go, tx_bptree.go, tx_list.go, tx_set.go, tx_zset.go) as coded:
  every mutating call validates against the *committed* indexes and appends records to
  `pendingWrites`; reads never look at `pendingWrites`; `SMove*` mutates the committed index in place.
-/
import Nuts.Model.DB
namespace Nuts.Model.DB
open Nuts

structure Tx where
  id : Nat
  writable : Bool
  pending : List Rec := []
  closed : Bool := false
  deriving Inhabited

/-- `tx.put` -/
def txPut (t : Tx) (r : Rec) : Tx × Outcome Unit :=
  if t.closed then (t, .err)
  else if !t.writable then (t, .err)
  else if r.key.isEmpty then (t, .err)
  else ({ t with pending := t.pending ++ [{ r with txid := t.id, status := 0 }] }, .ok ())

/-- `tx.push` / `tx.sPut`: one record per value, stopping at the first error -/
def txPutAll (t : Tx) (mk : Bytes → Rec) (vals : List Bytes) : Tx × Outcome Unit :=
  match vals with
  | [] => (t, .ok ())
  | v :: rest =>
    match txPut t (mk v) with
    | (t', .ok _) => txPutAll t' mk rest
    | (t', o) => (t', o)

def hasSep (b : Bytes) : Bool := b.contains sepByte

def mkRec (b k v : Bytes) (flag ds : Nat) (ts : Nat := 0) (ttl : Nat := 0) (score : Int := 0) : Rec :=
  { bucket := b, key := k, value := v, ts := ts, ttl := ttl, flag := flag, ds := ds, txid := 0, score := score }

/-! ### lists -/

def listOf (s : State) (b : Bytes) : Option ListDS.St := aget? s.lists b

def txRPush (t : Tx) (b k : Bytes) (vs : List Bytes) (ts : Nat) (left : Bool) : Tx × Outcome Unit :=
  if t.closed then (t, .err)
  else if hasSep k then (t, .err)
  else txPutAll t (fun v => mkRec b k v (if left then flagLPush else flagRPush) dsList ts) vs

def txPeek (s : State) (t : Tx) (b k : Bytes) (left : Bool) : Outcome Bytes :=
  if t.closed then .err
  else match listOf s b with
    | none => .err
    | some l => if left then ListDS.lpeek l k else ListDS.rpeek l k

/-- `LPop`/`RPop`: the peeked element of the committed list; an error of `push` (read-only
transaction, empty key) is reported as the call's error. -/
def txPop (s : State) (t : Tx) (b k : Bytes) (ts : Nat) (left : Bool) : Tx × Outcome Bytes :=
  match txPeek s t b k left with
  | .ok item =>
    match txPut t (mkRec b k item (if left then flagLPop else flagRPop) dsList ts) with
    | (t', .ok _) => (t', .ok item)
    | (t', _) => (t', .err)
  | o => (t, o)

def txLSize (s : State) (t : Tx) (b k : Bytes) : Outcome Nat :=
  if t.closed then .err
  else match listOf s b with
    | none => .err
    | some l => ListDS.size l k

def txLRange (s : State) (t : Tx) (b k : Bytes) (st en : Int) : Outcome (List Bytes) :=
  if t.closed then .err
  else match listOf s b with
    | none => .err
    | some l => ListDS.lrange l k st en

/-- `Tx.LRem`: the count guard is the regenerated kernel `tx_LRem` (a `slice` event is emitted only
after both guards passed). -/
def txLRem (s : State) (t : Tx) (b k : Bytes) (count : Int) (v : Bytes) (ts : Nat) : Tx × Outcome Nat :=
  match txLSize s t b k with
  | .ok size =>
    let o := NutsGen.K.tx_LRem.run count size false false 0
    if o.events.isEmpty then (t, .err)
    else
      match txPut t (mkRec b k (itoa count ++ [sepByte] ++ v) flagLRem dsList ts) with
      | (t', .ok _) =>
        match listOf s b with
        | some l => (t', ListDS.lremNum l k count v)
        | none => (t', .panic)
      | (t', _) => (t', .err)
  | _ => (t, .err)

def txLSet (s : State) (t : Tx) (b k : Bytes) (idx : Int) (v : Bytes) (ts : Nat) : Tx × Outcome Unit :=
  if t.closed then (t, .err)
  else match listOf s b with
    | none => (t, .err)
    | some l =>
      match ListDS.get? l k with
      | none => (t, .err)
      | some items =>
        let o := NutsGen.K.tx_LSet.run idx false true true items.length
        if o.events.isEmpty then (t, .err)
        else txPut t (mkRec b (k ++ [sepByte] ++ itoa idx) v flagLSet dsList ts)

def txLTrim (s : State) (t : Tx) (b k : Bytes) (st en : Int) (ts : Nat) : Tx × Outcome Unit :=
  if t.closed then (t, .err)
  else match listOf s b with
    | none => (t, .err)
    | some l =>
      match ListDS.get? l k with
      | none => (t, .err)
      | some _ =>
        match ListDS.lrange l k st en with
        | .ok _ => txPut t (mkRec b (k ++ [sepByte] ++ itoa st) (itoa en) flagLTrim dsList ts)
        | .err => (t, .err)
        | .panic => (t, .panic)

/-! ### sets -/

def setOf (s : State) (b : Bytes) : Option SetDS.St := aget? s.sets b

def txSAdd (t : Tx) (b k : Bytes) (items : List Bytes) (ts : Nat) (del : Bool) : Tx × Outcome Unit :=
  txPutAll t (fun v => mkRec b k v (if del then flagDelete else flagSet) dsSet ts) items

/-- `SPop`: `pick` is the member Go's map iteration chose (`none`: empty or missing set) -/
def txSPop (s : State) (t : Tx) (b k : Bytes) (pick : Option Bytes) (ts : Nat) : Tx × Outcome Bytes :=
  if t.closed then (t, .err)
  else match setOf s b, pick with
    | some m, some x =>
      if SetDS.sismember m k x then
        match txPut t (mkRec b k x flagDelete dsSet ts) with
        | (t', .ok _) => (t', .ok x)
        | (t', _) => (t', .err)
      else (t, .panic)  -- the implementation returned something that is not a member
    | _, _ => (t, .err)

def txSMove1 (s : State) (t : Tx) (b k1 k2 x : Bytes) : State × Outcome Bool :=
  if t.closed then (s, .err)
  else match setOf s b with
    | none => (s, .err)
    | some m => let (m', o) := SetDS.smove m k1 k2 x; ({ s with sets := aput s.sets b m' }, o)

def txSMove2 (s : State) (t : Tx) (b1 k1 b2 k2 x : Bytes) : State × Outcome Bool :=
  if t.closed then (s, .err)
  else match setOf s b1, setOf s b2 with
    | some m1, some m2 =>
      if !SetDS.shaskey m1 k1 || !SetDS.shaskey m2 k2 then (s, .err)
      else
        -- set2.SAdd unless present, then set1.SRem (on the possibly updated structure when b1 = b2)
        let m2' := if SetDS.sismember m2 k2 x then m2 else SetDS.sadd m2 k2 [x]
        let s1 := { s with sets := aput s.sets b2 m2' }
        let m1' := (aget? s1.sets b1).getD []
        ({ s1 with sets := aput s1.sets b1 (SetDS.srem m1' k1 [x]).1 }, .ok true)
    | _, _ => (s, .err)

/-! ### sorted sets -/

def zsetOf (s : State) (b : Bytes) : Option ZSetA.St := aget? s.zsets b

def txZAdd (t : Tx) (b k : Bytes) (score : Int) (scoreStr v : Bytes) (ts : Nat) : Tx × Outcome Unit :=
  if hasSep k then (t, .err)
  else txPut t (mkRec b (k ++ [sepByte] ++ scoreStr) v flagZAdd dsZSet ts 0 score)

def txZPop (s : State) (t : Tx) (b : Bytes) (ts : Nat) (isMax : Bool) : Tx × Outcome (Option ZSetA.Node) :=
  if t.closed then (t, .err)
  else match zsetOf s b with
    | none => (t, .err)
    | some z =>
      let item := if isMax then z.getLast? else z.head?
      match txPut t (mkRec b [32] [] (if isMax then flagZPopMax else flagZPopMin) dsZSet ts) with
      | (t', .ok _) => (t', .ok item)
      | (t', _) => (t', .err)

def txZRem (s : State) (t : Tx) (b k : Bytes) (ts : Nat) : Tx × Outcome Unit :=
  if t.closed then (t, .err)
  else match zsetOf s b with
    | none => (t, .err)
    | some _ => txPut t (mkRec b k [] flagZRem dsZSet ts)

def txZRemRangeByRank (s : State) (t : Tx) (b : Bytes) (a e : Int) (ts : Nat) : Tx × Outcome Unit :=
  if t.closed then (t, .err)
  else match zsetOf s b with
    | none => (t, .err)
    | some _ => txPut t (mkRec b (itoa a) (itoa e) flagZRemRangeByRank dsZSet ts)

/-! ### Merge (db.go), RAM modes -/

/-- `isFilterEntry`: flags that are never rewritten, or an expired record -/
def isFilter (r : Rec) (now : Nat) : Bool :=
  r.flag == flagDelete || r.flag == flagRPop || r.flag == flagLPop || r.flag == flagLRem ||
  r.flag == flagLTrim || r.flag == flagZRem || r.flag == flagZRemRangeByRank || r.flag == flagZPopMax ||
  r.flag == flagZPopMin || isExpired r.ttl r.ts now

/-- `getPendingMergeEntries`: is the record still "present" in its index? `panic`: nil map entry -/
def pendingMerge (s : State) (r : Rec) : Outcome Bool :=
  if r.ds == dsKV then
    match aget? s.kv r.bucket with
    | none => .panic                       -- db.BPTreeIdx[bucket].Find on a nil tree
    | some m => match aget? m r.key with
      | some i => .ok (i.r.flag == flagSet)
      | none => .ok false
  else if r.ds == dsSet then
    match aget? s.sets r.bucket with
    | none => .panic
    | some m => .ok (SetDS.sismember m r.key r.value)
  else if r.ds == dsZSet then
    match splitSep r.key with
    | [k, _] =>
      match aget? s.zsets r.bucket with
      | none => .panic
      | some z => .ok (ZSetA.find? z k).isSome
    | _ => .ok false
  else if r.ds == dsList then
    match aget? s.lists r.bucket with
    | none => .panic
    | some l =>
      if r.flag == flagRPush || r.flag == flagLPush then
        match ListDS.lrange l r.key 0 (-1) with
        | .ok items => .ok (items.contains r.value)
        | .err => .ok false
        | .panic => .panic
      else .ok false
  else .ok false

/-- the records of one file that Merge rewrites -/
def mergeSelect (s : State) (f : File) (now : Nat) : Outcome (List Rec) :=
  let rec go (l : List (Nat × Rec)) (acc : List Rec) : Outcome (List Rec) :=
    match l with
    | [] => .ok acc
    | (off, r) :: rest =>
      let skip0 := isFilter r now
      -- a newer record with the same bucket and key in the KV index (consulted for every structure)
      let skip := skip0 || (match (aget? s.kv r.bucket).bind (aget? · r.key) with
        | some i => decide (i.fid > f.fid) || (decide (i.fid = f.fid) && decide (i.pos > off))
        | none => false)
      if skip then go rest acc
      else match pendingMerge s r with
        | .ok true => go rest (acc ++ [r])
        | .ok false => go rest acc
        | .err => .err
        | .panic => .panic
  go f.recs []

/-- `reWriteData`: a write transaction (id `txid`) into a fresh file `MaxFileID+1`, which becomes the
active file (hints created by this commit carry its id). -/
def rewrite (s : State) (recs : List Rec) (txid : Nat) : State × Outcome Unit :=
  if recs.isEmpty then (s, .ok ())
  else
    let nf := s.activeFid + 1
    let s0 := { s with activeFid := nf, hintFid := nf, writeOff := 0, actualSize := 0, files := fileEnsure s.files nf, activeUnlinked := false }
    -- `tx.Commit()`'s result is discarded by reWriteData
    let (s1, o) := commit s0 (recs.map fun r => { r with txid := txid, status := 0 })
    (s1, if o.isPanic then .panic else .ok ())

/-- `DB.Merge` over the data files present when it starts; `txids` are the ids of the rewrite
transactions in order (an input: they come from the clock). -/
def merge (s : State) (now : Nat) (txids : List Nat) : State × Outcome Unit :=
  if s.files.length < 2 then (s, .err)
  else
    let rec go (s : State) (fids : List Nat) (txids : List Nat) : State × Outcome Unit :=
      match fids with
      | [] => (s, .ok ())
      | fid :: rest =>
        match fileGet? s.files fid with
        | none => go s rest txids
        | some f =>
          match mergeSelect s f now with
          | .panic => (s, .panic)
          | .err => (s, .err)
          | .ok recs =>
            let (s1, o) := rewrite s recs (txids.headD 0)
            if o.isPanic then (s1, .panic)
            else
              -- removing the file that is still `db.ActiveFile` leaves the handle on an unlinked file
              let s2 := { s1 with files := s1.files.filter (·.fid != fid), activeUnlinked := s1.activeUnlinked || fid == s1.activeFid }
              go s2 rest (if recs.isEmpty then txids else txids.drop 1)
    go s (s.files.map (·.fid)) txids

end Nuts.Model.DB
