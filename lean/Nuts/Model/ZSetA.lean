/-
  Nuts.Model.ZSetA — the sorted set at the level the database sees it: the node list ordered by
  (score, key). Scores are integers here (the harness uses finite scores k/4; the order and equality of
  such floats are those of k). The skiplist itself (levels, spans, every search loop) is
  Nuts.Model.Skiplist; this file carries the behaviours of `sortedset.go` that are visible through
  the API.
-/
import Nuts.Basic
import Nuts.Kernel
import NutsGen.Kernels
namespace Nuts.Model.ZSetA
open Nuts

structure Node where
  key : Bytes
  score : Int
  value : Bytes
  deriving Repr, DecidableEq, Inhabited

abbrev St := List Node

/-- (score, key) order of `insertNode` -/
def nlt (a b : Node) : Bool := decide (a.score < b.score) || (decide (a.score = b.score) && blt a.key b.key)

def find? (s : St) (k : Bytes) : Option Node := s.find? (·.key = k)

def insertSorted (s : St) (n : Node) : St :=
  match s with
  | [] => [n]
  | x :: xs => if nlt n x then n :: x :: xs else x :: insertSorted xs n

def remove (s : St) (k : Bytes) : St := s.filter (·.key ≠ k)

/-- `Put`: same score ⇒ value updated in place; otherwise delete and re-insert. -/
def put (s : St) (k : Bytes) (score : Int) (v : Bytes) : St :=
  match find? s k with
  | some n => if n.score = score then s.map (fun x => if x.key = k then { x with value := v } else x)
              else insertSorted (remove s k) ⟨k, score, v⟩
  | none => insertSorted s ⟨k, score, v⟩

/-- `sanitizeIndexes` through the regenerated kernel. -/
def sanitize (len : Nat) (a b : Int) : Int × Int :=
  match (NutsGen.K.zset_sanitizeIndexes.run a b len len).vals with
  | [x, y] => (x, y)
  | _ => (1, 1)

/-- `GetByRankRange(start, end, remove)`: returned nodes (in the order Go returns them) and the new state. -/
def getByRankRange (s : St) (a b : Int) (rm : Bool) : List Node × St :=
  let (a', b') := sanitize s.length a b
  let rev := decide (a' > b')
  let (lo, hi) := if rev then (b', a') else (a', b')
  -- nodes with 1-based rank in [lo, hi]
  let sel := (s.drop (lo - 1).toNat).take (hi - lo + 1).toNat
  let rest := if rm then s.take (lo - 1).toNat ++ s.drop ((lo - 1).toNat + sel.length) else s
  (if rev then sel.reverse else sel, rest)

def popMin (s : St) : Option Node × St :=
  match s with
  | [] => (none, [])
  | x :: xs => (some x, xs)

def popMax (s : St) : Option Node × St :=
  match s.getLast? with
  | none => (none, s)
  | some x => (some x, s.dropLast)

/-- the header sentinel of the skiplist, as `searchReverse` can return it -/
def header : Node := ⟨[], 0, []⟩

/-- `GetByScoreRange(start, end, options)`; `limit ≤ 0` means no limit. -/
def getByScoreRange (s : St) (a b : Int) (limit : Int) (exA exB : Bool) : List Node :=
  let lim : Nat := if limit > 0 then limit.toNat else 2147483647
  let rev := decide (a > b)
  let (lo, hi, exLo, exHi) := if rev then (b, a, exB, exA) else (a, b, exA, exB)
  if s.isEmpty then []
  else if !rev then
    -- forward: skip nodes below the start, take while within the end
    let from_ := s.dropWhile fun n => if exLo then decide (n.score ≤ lo) else decide (n.score < lo)
    (from_.takeWhile fun n => if exHi then decide (n.score < hi) else decide (n.score ≤ hi)).take lim
  else
    -- reverse: x = last node with score ≤ / < end; walk backward
    let upto := s.takeWhile fun n => if exHi then decide (n.score < hi) else decide (n.score ≤ hi)
    let chain := upto.reverse    -- no member at or below the end: nothing (the header is not a member)
    (chain.takeWhile fun n => if exLo then decide (n.score > lo) else decide (n.score ≥ lo)).take lim

/-- 1-based rank of `k`, 0 when absent (the layout-independent answer). -/
def rankOf (s : St) (k : Bytes) : Nat :=
  match s.findIdx? (·.key = k) with
  | some i => i + 1
  | none => 0

end Nuts.Model.ZSetA
