/-
  Nuts.Model.Skiplist — the skiplist of ds/zset/sortedset.go: towers with one span per level, the header as
  the first tower (32 levels), `ss.level`, `ss.length`, and every loop of the file as a function: the search
  loops (`walk`: one `for x.level[i].forward != nil && …` loop, with the span accumulation), `insertNode`
  (rank[] / update[] descent, span arithmetic, new levels), `deleteNode` / `delete` (span arithmetic, level
  shrinking), `GetByRankRange` (the span-guided descent with its early `break`, the collecting loop, removal
  with one `update` array for the whole range), `FindRank`, `searchForward` / `searchReverse`, `Put`,
  `Remove`, `PopMin`, `PopMax`.

  What is *derived* rather than stored: the forward pointer of a tower at level `i` is the next tower that
  has a level `i` (`nextAt`), the backward pointer is the previous tower, `tail` the last one, `Dict` the
  lookup by key. `VerifDump` (build tag verif) prints the pointers the code really holds, and the
  correspondence compares them with the derived ones after every operation of suite `zset-ds`. The random
  level of a new node is an input (the harness reads it off the implementation).

  Scores are integers (quarter units), as in Nuts.Model.ZSetA, whose sorted list is the specification this
  file is proved to refine (NutsProofs.Lemmas.Skiplist*).
-/
import Nuts.Basic
import Nuts.Model.ZSetA
namespace Nuts.Model.Skiplist
open Nuts
open Nuts.Model.ZSetA (Node nlt)

def maxLevel : Nat := 32

structure Tower where
  node : Node
  /-- `level[i].span`, one per level of the node -/
  spans : List Int
  deriving Repr, Inhabited, DecidableEq

structure SL where
  /-- `ss.level` -/
  level : Nat := 1
  /-- `ss.length` -/
  length : Int := 0
  /-- the header, then the nodes in level-0 order -/
  all : List Tower := [⟨ZSetA.header, List.replicate maxLevel 0⟩]
  deriving Repr, Inhabited

def empty : SL := {}

/-- the members, in level-0 order -/
def nodes (s : SL) : List Node := s.all.tail.map (·.node)

def spanOf (all : List Tower) (p i : Nat) : Int := ((all[p]?).map (·.spans.getD i 0)).getD 0
def nodeOf (all : List Tower) (p : Nat) : Node := ((all[p]?).map (·.node)).getD ZSetA.header
def heightOf (all : List Tower) (p : Nat) : Nat := ((all[p]?).map (·.spans.length)).getD 0

/-- distance (≥ 1) to the first tower of `l` that has a level `i`: `level[i].forward`, `none` = nil -/
def nextAt (i : Nat) : List Tower → Option Nat
  | [] => none
  | t :: ts => if i < t.spans.length then some 1 else (nextAt i ts).map (· + 1)

/-- `x.level[i].forward` as a position -/
def fwd (all : List Tower) (x i : Nat) : Option Nat := (nextAt i (all.drop (x + 1))).map (· + x)

/-- one search loop at level `i`: `for x.level[i].forward != nil && cont(…) { r += x.level[i].span; x = forward }`;
`cont` sees the rank the step would reach and the forward node -/
def walk (all : List Tower) (i : Nat) (cont : Int → Node → Bool) : Nat → Nat → Int → Nat × Int
  | 0, x, r => (x, r)
  | fuel + 1, x, r =>
    match fwd all x i with
    | none => (x, r)
    | some q =>
      let r' := r + spanOf all x i
      if cont r' (nodeOf all q) then walk all i cont fuel q r' else (x, r)

/-- the descent of `insertNode` / `delete`: levels `i-1 … 0`; entry `j` of the result is (update[j], rank[j]) -/
def descend (all : List Tower) (cont : Int → Node → Bool) : Nat → Nat → Int → List (Nat × Int)
  | 0, _, _ => []
  | i + 1, x, r =>
    let (x', r') := walk all i cont all.length x r
    descend all cont i x' r' ++ [(x', r')]

/-- rewrite spans in place: slot (position `p`, level `i`) holding `sp` gets `f p i sp` -/
def mapSpans (all : List Tower) (f : Nat → Nat → Int → Int) : List Tower :=
  all.mapIdx fun p t => { t with spans := t.spans.mapIdx fun i sp => f p i sp }

/-! ### insertNode -/

def insertNode (s : SL) (n : Node) (lvl : Nat) : SL :=
  let d0 := descend s.all (fun _ f => nlt f n) s.level 0 0
  -- `if level > ss.level`: rank[i] = 0, update[i] = header, header.level[i].span = ss.length
  let d := d0 ++ List.replicate (lvl - s.level) (0, 0)
  let all1 := mapSpans s.all fun p i sp => if p = 0 ∧ s.level ≤ i ∧ i < lvl then s.length else sp
  let level' := max s.level lvl
  let r0 := (d.getD 0 (0, 0)).2
  let upd (i : Nat) : Nat := (d.getD i (0, 0)).1
  let rnk (i : Nat) : Int := (d.getD i (0, 0)).2
  -- x.level[i].span = update[i].level[i].span - (rank[0] - rank[i])
  let newSpans := (List.range lvl).map fun i => spanOf all1 (upd i) i - (r0 - rnk i)
  -- update[i].level[i].span = (rank[0] - rank[i]) + 1   (i < level);   update[i].level[i].span++   (level ≤ i < ss.level)
  let all2 := mapSpans all1 fun p i sp =>
    if p = upd i then (if i < lvl then (r0 - rnk i) + 1 else if i < level' then sp + 1 else sp) else sp
  { level := level', length := s.length + 1, all := all2.insertIdx (upd 0 + 1) ⟨n, newSpans⟩ }

/-! ### deleteNode, delete -/

/-- `for ss.level > 1 && ss.header.level[ss.level-1].forward == nil { ss.level-- }` -/
def shrinkLevel (all : List Tower) : Nat → Nat
  | 0 => 0
  | l + 1 => if l ≥ 1 ∧ fwd all 0 l = none then shrinkLevel all l else l + 1

/-- `deleteNode(x, update)`, `x` at position `xp` -/
def deleteNode (s : SL) (xp : Nat) (upd : List Nat) : SL :=
  let all1 := mapSpans s.all fun p i sp =>
    if i < s.level ∧ p = upd.getD i 0 then
      (if fwd s.all p i = some xp then sp + (spanOf s.all xp i - 1) else sp - 1)
    else sp
  let all2 := all1.eraseIdx xp
  { level := shrinkLevel all2 s.level, length := s.length - 1, all := all2 }

def delete (s : SL) (score : Int) (key : Bytes) : SL × Bool :=
  let target : Node := ⟨key, score, []⟩
  let d := descend s.all (fun _ f => nlt f target) s.level 0 0
  match fwd s.all (d.getD 0 (0, 0)).1 0 with
  | some xp =>
    let x := nodeOf s.all xp
    if x.score = score ∧ x.key = key then (deleteNode s xp (d.map (·.1)), true) else (s, false)
  | none => (s, false)

/-! ### Dict, Put, Remove, pops, peeks -/

/-- `ss.Dict[key]` -/
def find? (s : SL) (k : Bytes) : Option Node := (s.all.tail.find? (·.node.key = k)).map (·.node)

def put (s : SL) (k : Bytes) (score : Int) (v : Bytes) (lvl : Nat) : SL :=
  match find? s k with
  | some n =>
    if n.score = score then
      { s with all := match s.all with
          | [] => []
          | h :: ts => h :: ts.map fun t => if t.node.key = k then { t with node := { t.node with value := v } } else t }
    else insertNode (delete s n.score n.key).1 ⟨k, score, v⟩ lvl
  | none => insertNode s ⟨k, score, v⟩ lvl

def remove (s : SL) (k : Bytes) : SL × Option Node :=
  match find? s k with
  | some n => ((delete s n.score n.key).1, some n)
  | none => (s, none)

def peekMin (s : SL) : Option Node := (fwd s.all 0 0).map (nodeOf s.all)
/-- `ss.tail` -/
def peekMax (s : SL) : Option Node := (s.all.tail.getLast?).map (·.node)

def popMin (s : SL) : SL × Option Node :=
  match peekMin s with
  | some x => ((remove s x.key).1, some x)
  | none => (s, none)

def popMax (s : SL) : SL × Option Node :=
  match peekMax s with
  | some x => ((remove s x.key).1, some x)
  | none => (s, none)

/-! ### GetByRankRange -/

/-- the span-guided descent: `traversed + span < start`; without `remove` it leaves the level loop as soon as
`traversed + 1 == start`. Returns the node reached, `traversed`, and `update` (level order). -/
def rankDescend (all : List Tower) (start : Int) (rm : Bool) : Nat → Nat → Int → List Nat → Nat × Int × List Nat
  | 0, x, t, upd => (x, t, upd)
  | i + 1, x, t, upd =>
    let (x', t') := walk all i (fun t2 _ => decide (t2 < start)) all.length x t
    if rm then rankDescend all start rm i x' t' (x' :: upd)
    else if t' + 1 = start then (x', t', upd) else rankDescend all start rm i x' t' upd

/-- `for x != nil && traversed <= end { next := x.level[0].forward; append; if remove { deleteNode }; traversed++; x = next }` -/
def collect (rm : Bool) (upd : List Nat) (en : Int) : Nat → SL → Nat → Int → List Node → SL × List Node
  | 0, s, _, _, acc => (s, acc)
  | fuel + 1, s, cur, t, acc =>
    if cur < s.all.length ∧ t ≤ en then
      let x := nodeOf s.all cur
      if rm then collect rm upd en fuel (deleteNode s cur upd) cur (t + 1) (acc ++ [x])
      else collect rm upd en fuel s (cur + 1) (t + 1) (acc ++ [x])
    else (s, acc)

def getByRankRange (s : SL) (a b : Int) (rm : Bool) : SL × List Node :=
  let (a', b') := ZSetA.sanitize s.length.toNat a b
  let rev := decide (a' > b')
  let (lo, hi) := if rev then (b', a') else (a', b')
  let (x, t, upd) := rankDescend s.all lo rm s.level 0 0 []
  let (s', ns) := collect rm upd hi s.all.length s (x + 1) (t + 1) []
  (s', if rev then ns.reverse else ns)

/-! ### FindRank -/

def findRankLoop (all : List Tower) (n : Node) (k : Bytes) : Nat → Nat → Int → Int
  | 0, _, _ => 0
  | i + 1, x, r =>
    let (x', r') := walk all i (fun _ f => decide (f.score < n.score) || (decide (f.score = n.score) && ble f.key n.key)) all.length x r
    if x' ≠ 0 ∧ (nodeOf all x').key = k then r' else findRankLoop all n k i x' r'

def findRank (s : SL) (k : Bytes) : Int :=
  match find? s k with
  | some n => findRankLoop s.all n k s.level 0 0
  | none => 0

def findRevRank (s : SL) (k : Bytes) : Int :=
  if s.length = 0 then 0
  else match find? s k with
    | none => 0
    | some _ => s.length - findRank s k + 1

/-! ### GetByScoreRange -/

/-- a descent that only moves (`searchForward` / `searchReverse`) -/
def plainDescend (all : List Tower) (cont : Node → Bool) : Nat → Nat → Nat
  | 0, x => x
  | i + 1, x => plainDescend all cont i (walk all i (fun _ f => cont f) all.length x 0).1

def forwardLoop (all : List Tower) (stop : Node → Bool) : Nat → Nat → Nat → List Node → List Node
  | 0, _, _, acc => acc
  | fuel + 1, cur, limit, acc =>
    if cur < all.length ∧ limit > 0 then
      let x := nodeOf all cur
      if stop x then acc else forwardLoop all stop fuel (cur + 1) (limit - 1) (acc ++ [x])
    else acc

/-- walks `backward` pointers: the previous tower, nil at the first node -/
def backwardLoop (all : List Tower) (stop : Node → Bool) : Nat → Nat → Nat → List Node → List Node
  | 0, _, _, acc => acc
  | fuel + 1, cur, limit, acc =>
    if cur ≥ 1 ∧ limit > 0 then
      let x := nodeOf all cur
      if stop x then acc else backwardLoop all stop fuel (cur - 1) (limit - 1) (acc ++ [x])
    else acc

def getByScoreRange (s : SL) (a b : Int) (limit : Int) (exA exB : Bool) : List Node :=
  let lim : Nat := if limit > 0 then limit.toNat else 2147483647
  let rev := decide (a > b)
  let (lo, hi, exLo, exHi) := if rev then (b, a, exB, exA) else (a, b, exA, exB)
  if s.length = 0 then []
  else if !rev then
    let x := plainDescend s.all (fun f => if exLo then decide (f.score ≤ lo) else decide (f.score < lo)) s.level 0
    forwardLoop s.all (fun n => if exHi then decide (n.score ≥ hi) else decide (n.score > hi)) s.all.length (x + 1) lim []
  else
    let x := plainDescend s.all (fun f => if exHi then decide (f.score < hi) else decide (f.score ≤ hi)) s.level 0
    if x = 0 then []
    else backwardLoop s.all (fun n => if exLo then decide (n.score ≤ lo) else decide (n.score < lo)) s.all.length x lim []

/-! ### the dump compared with `VerifDump` -/

def showNodeKey (all : List Tower) (q : Option Nat) : String :=
  match q with
  | none => "nil"
  | some p => hexOfBytes (nodeOf all p).key

/-- header: its first `level` levels (the spans above are stale by design); nodes: every level -/
def dump (s : SL) : String :=
  let showT (p : Nat) (t : Tower) (h : Nat) : String :=
    let lv := (List.range h).map fun i => s!"{t.spans.getD i 0}>{showNodeKey s.all (fwd s.all p i)}"
    let back := if p ≤ 1 then "nil" else hexOfBytes (nodeOf s.all (p - 1)).key
    s!"{hexOfBytes t.node.key}:{t.node.score}:{hexOfBytes t.node.value}:[{",".intercalate lv}]<{back}"
  let body := s.all.zipIdx.map fun (t, p) => showT p t (if p = 0 then s.level else t.spans.length)
  let tail := match s.all.tail.getLast? with | none => "nil" | some t => hexOfBytes t.node.key
  s!"level={s.level} len={s.length} tail={tail} " ++ " ".intercalate body

end Nuts.Model.Skiplist
