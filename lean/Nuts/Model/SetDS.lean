/-
  Nuts.Model.SetDS — `ds/set` as coded (Go: `map[string]map[string]struct{}`).
  A Go map is a duplicate-free association list; iteration order is never guessed: everything
  observable is compared after sorting, and the element `SPop` removes is an input of the step.
-/
import Nuts.Basic
namespace Nuts.Model.SetDS
open Nuts

abbrev St := List (Bytes × List Bytes)

def get? (s : St) (k : Bytes) : Option (List Bytes) :=
  match s with
  | [] => none
  | (k', v) :: rest => if k' = k then some v else get? rest k

def put (s : St) (k : Bytes) (v : List Bytes) : St :=
  match s with
  | [] => [(k, v)]
  | (k', v') :: rest => if k' = k then (k, v) :: rest else (k', v') :: put rest k v

def insert (m : List Bytes) (x : Bytes) : List Bytes := if m.contains x then m else m ++ [x]

def sadd (s : St) (k : Bytes) (items : List Bytes) : St :=
  put s k (items.foldl insert ((get? s k).getD []))

/-- `SRem`: error when the key is missing or the first item is empty; panics on an empty argument list
(`items[0]`), which the transactional API never produces. -/
def srem (s : St) (k : Bytes) (items : List Bytes) : St × Outcome Unit :=
  match get? s k with
  | none => (s, .err)
  | some m =>
    match items with
    | [] => (s, .panic)
    | i0 :: _ =>
      if i0.isEmpty then (s, .err)
      else (put s k (m.filter fun x => !items.contains x), .ok ())

def shaskey (s : St) (k : Bytes) : Bool := (get? s k).isSome

def scard (s : St) (k : Bytes) : Nat := ((get? s k).getD []).length

def sismember (s : St) (k : Bytes) (x : Bytes) : Bool := ((get? s k).getD []).contains x

def saremembers (s : St) (k : Bytes) (items : List Bytes) : Outcome Bool :=
  match get? s k with
  | none => .err
  | some m => if items.all m.contains then .ok true else .err

def smembers (s : St) (k : Bytes) : Outcome (List Bytes) :=
  match get? s k with
  | none => .err
  | some m => .ok m

/-- `SPop` removes the member `pick` chosen by Go's map iteration (an input); `none` on an empty set. -/
def spop (s : St) (k : Bytes) (pick : Option Bytes) : St × Option Bytes :=
  match get? s k, pick with
  | some m, some x => if m.contains x then (put s k (m.filter (· ≠ x)), some x) else (s, none)
  | _, _ => (s, none)

def sdiff (s : St) (k1 k2 : Bytes) : Outcome (List Bytes) :=
  match get? s k1, get? s k2 with
  | some a, some b => .ok (a.filter fun x => !b.contains x)
  | _, _ => .err

def sinter (s : St) (k1 k2 : Bytes) : Outcome (List Bytes) :=
  match get? s k1, get? s k2 with
  | some a, some b => .ok (a.filter fun x => b.contains x)
  | _, _ => .err

def sunion (s : St) (k1 k2 : Bytes) : Outcome (List Bytes) :=
  match get? s k1, get? s k2 with
  | some a, some b => .ok (a ++ b.filter fun x => !a.contains x)
  | _, _ => .err

/-- `SMove` (one structure): add to `k2` unless present, then `SRem` from `k1` (whose error — empty
item — is ignored). -/
def smove (s : St) (k1 k2 : Bytes) (x : Bytes) : St × Outcome Bool :=
  if !shaskey s k1 || !shaskey s k2 then (s, .err)
  else
    let s1 := if sismember s k2 x then s else sadd s k2 [x]
    ((srem s1 k1 [x]).1, .ok true)

end Nuts.Model.SetDS
