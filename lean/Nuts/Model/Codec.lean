/-
  Nuts.Model.Codec — the three record codecs of nutsdb (entry.go / datafile.go, bucket_meta.go,
  bptree_root_idx.go) at byte level, *defined from the header layouts that tools/extract regenerates
  from the encoder and decoder statements of /repo* (NutsGen.F.entryEnc …), the IEEE CRC-32 as a
  bitwise shift register, and the two `ReadAt` behaviours (FileIO: short read = EOF error; MMap:
  `off ≥ len` = error, short copies silently zero-padded).

  Core-only (linked into the driver, which compares every encoding and every decoding of generated and
  corrupted records with the Go code).
-/
import Nuts.Basic
import NutsGen.Facts
namespace Nuts.Model.Codec
open Nuts

/-! ### little-endian integers (`binary.LittleEndian.PutUintN` / `UintN`) -/

def leBytes : Nat → Nat → Bytes
  | 0, _ => []
  | w + 1, v => UInt8.ofNat (v % 256) :: leBytes w (v / 256)

def leVal : Bytes → Nat
  | [] => 0
  | b :: r => b.toNat + 256 * leVal r

/-! ### CRC-32 (IEEE 802.3, reflected, polynomial 0xEDB88320), as `hash/crc32` computes it -/

def poly : BitVec 32 := 0xEDB88320#32

/-- one step of the reflected shift register -/
def bitStep (s : BitVec 32) : BitVec 32 :=
  if s.getLsbD 0 then (s >>> 1) ^^^ poly else s >>> 1

def byteStep (s : BitVec 32) (b : UInt8) : BitVec 32 :=
  bitStep (bitStep (bitStep (bitStep (bitStep (bitStep (bitStep (bitStep (s ^^^ BitVec.ofNat 32 b.toNat))))))))

/-- the register after feeding `data` -/
def crcFeed (s : BitVec 32) (data : Bytes) : BitVec 32 := data.foldl byteStep s

/-- `crc32.ChecksumIEEE` -/
def crc32 (data : Bytes) : BitVec 32 := ~~~ crcFeed 0xFFFFFFFF#32 data

/-- `crc32.Update(crc, crc32.IEEETable, p)` -/
def crcUpdate (crc : BitVec 32) (p : Bytes) : BitVec 32 := ~~~ crcFeed (~~~ crc) p

/-! ### header layouts -/

/-- (field, lo, hi, width) as regenerated in `NutsGen.F` -/
abbrev Layout := List (String × Nat × Nat × Nat)

/-- `copy(buf[lo:], data)` for `lo + len data ≤ len buf` -/
def writeAt (buf : Bytes) (lo : Nat) (data : Bytes) : Bytes :=
  buf.take lo ++ data ++ buf.drop (lo + data.length)

/-- `buf[lo:hi]` -/
def slice (buf : Bytes) (lo hi : Nat) : Bytes := (buf.drop lo).take (hi - lo)

abbrev Vals := List (String × Nat)

def valOf (vals : Vals) (n : String) : Nat := ((vals.find? (·.1 == n)).map (·.2)).getD 0

/-- the `PutUintN(buf[lo:hi], x.f)` statements of an encoder, in order -/
def putFields (L : Layout) (vals : Vals) (buf : Bytes) : Bytes :=
  L.foldl (fun b f => writeAt b f.2.1 (leBytes f.2.2.2 (valOf vals f.1))) buf

/-- the `UintN(buf[lo:hi])` expressions of a decoder -/
def getFields (L : Layout) (hdr : Bytes) : Vals := L.map fun f => (f.1, leVal (slice hdr f.2.1 f.2.2.1))

/-- a record before encoding: header field values (sizes included) and the payload parts in storage order -/
structure Raw where
  vals : Vals
  payload : List Bytes
  deriving Repr, DecidableEq, Inhabited

/-- `Encode()` of all three codecs: allocate `Size()` zero bytes, write the header fields, copy the
payload parts behind the header, checksum everything after the crc field and store the checksum in the
field named `crcName`. (The payload is copied at the lengths of the parts; the callers build records
whose size fields equal those lengths.) -/
def encodeRaw (L : Layout) (hsz : Nat) (crcName : String) (r : Raw) : Bytes :=
  let body := r.payload.flatten
  let buf0 : Bytes := List.replicate (hsz + body.length) 0
  let buf1 := putFields (L.filter (·.1 != crcName)) r.vals buf0
  let buf2 := writeAt buf1 hsz body
  let c := crc32 (buf2.drop 4)
  putFields (L.filter (·.1 == crcName)) [(crcName, c.toNat)] buf2

/-! ### reading from a file -/

/-- `RWManager.ReadAt(make([]byte, n), off)` on a file with content `file`. FileIO (`os.File.ReadAt`):
an empty buffer reads nothing successfully, a short read is `io.EOF`. MMap (as coded): nothing at the
very end is fine, `off ≥ len` is `ErrIndexOutOfBound`, otherwise `copy` moves what is there and the
rest of the fresh buffer stays zero. -/
def readN (mmap : Bool) (file : Bytes) (off n : Nat) : Option Bytes :=
  if mmap then
    if n = 0 ∧ off = file.length then some []
    else if off ≥ file.length then none
    else
      let got := (file.drop off).take n
      some (got ++ List.replicate (n - got.length) 0)
  else
    if n = 0 then some []
    else if off + n ≤ file.length then some ((file.drop off).take n) else none

/-- a decoded data entry -/
structure Entry where
  bucket : Bytes
  key : Bytes
  value : Bytes
  ts : Nat
  ttl : Nat
  flag : Nat
  status : Nat
  ds : Nat
  txid : Nat
  deriving Repr, DecidableEq, Inhabited

def Entry.vals (e : Entry) : Vals :=
  [("timestamp", e.ts), ("keySize", e.key.length), ("valueSize", e.value.length), ("Flag", e.flag), ("TTL", e.ttl),
   ("bucketSize", e.bucket.length), ("status", e.status), ("ds", e.ds), ("txID", e.txid)]

def Entry.raw (e : Entry) : Raw := { vals := e.vals, payload := [e.bucket, e.key, e.value] }

def entryHeaderSize : Nat := 42

/-- `Entry.Encode` -/
def encodeEntry (e : Entry) : Bytes := encodeRaw NutsGen.F.entryEnc entryHeaderSize "c32" e.raw

/-- `GetCrc(buf)`: checksum of the header after the crc field, updated with each payload part -/
def getCrc (hdr : Bytes) (parts : List Bytes) : BitVec 32 :=
  parts.foldl crcUpdate (crc32 (hdr.drop 4))

/-- `DataFile.ReadAt(off)`: `ok none` = zero header (end of data), `err` = read error or crc mismatch -/
def readEntry (mmap : Bool) (file : Bytes) (off : Nat) : Outcome (Option Entry) :=
  match readN mmap file off entryHeaderSize with
  | none => .err
  | some hdr =>
    let v := getFields NutsGen.F.entryDec hdr
    let crc := valOf v "crc"
    let ksz := valOf v "keySize"
    let vsz := valOf v "valueSize"
    let bsz := valOf v "bucketSize"
    let ts := valOf v "timestamp"
    if crc = 0 ∧ ksz = 0 ∧ vsz = 0 ∧ ts = 0 then .ok none
    else
      match readN mmap file (off + entryHeaderSize) bsz with
      | none => .err
      | some bucket =>
        match readN mmap file (off + entryHeaderSize + bsz) ksz with
        | none => .err
        | some key =>
          match readN mmap file (off + entryHeaderSize + bsz + ksz) vsz with
          | none => .err
          | some value =>
            if (getCrc hdr [bucket, key, value]).toNat ≠ crc then .err
            else .ok (some { bucket := bucket, key := key, value := value, ts := ts, ttl := valOf v "TTL",
                             flag := valOf v "Flag", status := valOf v "status", ds := valOf v "ds", txid := valOf v "txID" })

/-! ### bucket meta (sparse mode): `start`/`end` key range of a bucket -/

structure Meta where
  start : Bytes
  stop : Bytes
  deriving Repr, DecidableEq, Inhabited

def metaHeaderSize : Nat := 12

def Meta.raw (m : Meta) : Raw :=
  { vals := [("startSize", m.start.length), ("endSize", m.stop.length)], payload := [m.start, m.stop] }

def encodeMeta (m : Meta) : Bytes := encodeRaw NutsGen.F.metaEnc metaHeaderSize "c32" m.raw

/-- `ReadBucketMeta` (always through `os.File.ReadAt`, at offset 0; no zero test) -/
def readMeta (file : Bytes) : Outcome Meta :=
  match readN false file 0 metaHeaderSize with
  | none => .err
  | some hdr =>
    let v := getFields NutsGen.F.metaDec hdr
    let ssz := valOf v "startSize"
    let esz := valOf v "endSize"
    match readN false file metaHeaderSize ssz with
    | none => .err
    | some st =>
      match readN false file (metaHeaderSize + ssz) esz with
      | none => .err
      | some en =>
        if (getCrc hdr [st, en]).toNat ≠ valOf v "crc" then .err else .ok { start := st, stop := en }

/-! ### root index record (sparse mode) -/

structure Root where
  fid : Nat
  rootOff : Nat
  start : Bytes
  stop : Bytes
  deriving Repr, DecidableEq, Inhabited

def rootHeaderSize : Nat := 28

def Root.raw (r : Root) : Raw :=
  { vals := [("fID", r.fid), ("rootOff", r.rootOff), ("startSize", r.start.length), ("endSize", r.stop.length)],
    payload := [r.start, r.stop] }

def encodeRoot (r : Root) : Bytes := encodeRaw NutsGen.F.rootEnc rootHeaderSize "c32" r.raw

/-- `ReadBPTreeRootIdxAt(fd, off)`; the zero test looks at the stored crc, which is still 0 in the
struct when `IsZero` runs (the field is assigned afterwards), so it is the four other fields that decide -/
def readRoot (file : Bytes) (off : Nat) : Outcome (Option Root) :=
  match readN false file off rootHeaderSize with
  | none => .err
  | some hdr =>
    let v := getFields NutsGen.F.rootDec hdr
    let fid := valOf v "fID"
    let ro := valOf v "rootOff"
    let ssz := valOf v "startSize"
    let esz := valOf v "endSize"
    if ro = 0 ∧ fid = 0 ∧ ssz = 0 ∧ esz = 0 then .ok none
    else
      match readN false file (off + rootHeaderSize) ssz with
      | none => .err
      | some st =>
        match readN false file (off + rootHeaderSize + ssz) esz with
        | none => .err
        | some en =>
          if (getCrc hdr [st, en]).toNat ≠ valOf v "crc" then .err
          else .ok (some { fid := fid, rootOff := ro, start := st, stop := en })

end Nuts.Model.Codec
