/-
  Nuts.Model.Sparse — the database in HintBPTSparseIdxMode (key/value operations), at segment-content
  level, following tx.go / tx_bptree.go / db.go construct by construct, mistakes included.

  * one B+ tree for the *active* segment, keyed by `bucket ++ key` (no separator); it is sealed at rotation
    into a `Seg`: its content (in key order, each entry with the offset of the latest write of that key in
    the segment), the smallest and largest composite key ever inserted, and the ids of the transactions
    committed while the segment was active (plus those of transactions that were in flight across its
    rotation);
  * `Get`: the active tree first (an entry whose transaction is not committed is skipped, a tombstone or
    expired entry ends the search), then the sealed segments by descending file id, restricted to those
    whose key range contains the composite key; first hit decides;
  * `RangeScan`: active entries in range, then every sealed segment selected by the *as-coded* overlap
    predicate, newest first; then first occurrence per key wins, sorted, dead ones dropped;
  * `GetAll`: `RangeScan` over the key range persisted in the bucket's meta file;
  * `PrefixScan` / `PrefixSearchScan`: offset and limit applied to the active tree, the remainder of the
    limit to each sealed segment in turn (offset again per segment); a result that fills the limit from
    the active tree alone is returned unfiltered;
  * `Open`: the active tree is rebuilt from the last data file only; sealed segments, their transaction ids
    and the bucket metas are what rotation and commit persisted.

  The on-disk node files (`.bptidx` with data offsets as keys) are not modelled node by node: a sealed
  segment is its content. That abstraction is validated by the correspondence only.
-/
import Nuts.Model.DB
namespace Nuts.Model.Sparse
open Nuts Nuts.Model.DB

structure Seg where
  fid : Nat
  content : Assoc Idx
  first : Bytes
  last : Bytes
  txids : List Nat
  deriving Repr, Inhabited

structure SState where
  seg : Nat := 8388608
  files : List File := []
  activeFid : Nat := 0
  writeOff : Nat := 0
  actualSize : Nat := 0
  active : Assoc Idx := []
  first : Bytes := []
  last : Bytes := []
  activeTx : List Nat := []
  sealed : List Seg := []
  /-- bucket ↦ (start, end): the persisted key range (the meta file) -/
  metas : Assoc (Bytes × Bytes) := []
  opened : Bool := false
  closed : Bool := false
  deriving Inhabited

def newKey (r : Rec) : Bytes := r.bucket ++ r.key

/-- `BPTree.Insert` on the active tree: FirstKey / LastKey bookkeeping and insert-or-overwrite -/
def treeInsert (s : SState) (k : Bytes) (i : Idx) : SState :=
  { s with first := if s.first.isEmpty then k else (if bcmp k s.first == .lt then k else s.first),
           last := if bcmp k s.last == .gt then k else s.last,
           active := upsert s.active k i }

/-! ### Commit -/

/-- transaction-local state of `Commit` in sparse mode -/
structure CommitSt where
  s : SState
  /-- segments sealed during this commit (`ReservedStoreTxIDIdxes`) -/
  reserved : List Nat := []
  /-- `bucketMetaTemp`: smallest and largest *key* of the records written so far (whatever their bucket) -/
  tmp : Option (Bytes × Bytes) := none

/-- `rotateActiveFile`, sparse part: seal the active tree (`none` = the tree is empty: nil dereference) -/
def rotate (c : CommitSt) : Option CommitSt :=
  let s := c.s
  if s.active.isEmpty then none
  else
    let sg : Seg := { fid := s.activeFid, content := s.active, first := s.first, last := s.last, txids := s.activeTx }
    let nf := s.activeFid + 1
    some { c with s := { s with sealed := s.sealed ++ [sg], active := [], first := [], last := [], activeTx := [],
                                 activeFid := nf, writeOff := 0, actualSize := 0, files := fileEnsure s.files nf },
                  reserved := c.reserved ++ [s.activeFid] }

def tmpUpdate (t : Option (Bytes × Bytes)) (k : Bytes) : Option (Bytes × Bytes) :=
  match t with
  | none => some (k, k)
  | some (a, b) => some (if bcmp a k == .gt then k else a, if bcmp b k == .lt then k else b)

/-- `Tx.buildBucketMetaIdx(bucket, key, temp)`: widen the bucket's persisted range -/
def metaUpdate (m : Assoc (Bytes × Bytes)) (b : Bytes) (t : Bytes × Bytes) : Assoc (Bytes × Bytes) :=
  match aget? m b with
  | none => aput m b t
  | some (st, en) => aput m b (if bcmp st t.1 == .gt then t.1 else st, if bcmp en t.2 == .lt then t.2 else en)

/-- one iteration of the write loop; `none` = panic (rotation with an empty tree) -/
def writeRec (c : CommitSt) (r : Rec) (last : Bool) : Option CommitSt :=
  let c1? := if c.s.actualSize + r.size > c.s.seg then rotate c else some c
  match c1? with
  | none => none
  | some c1 =>
    let s := c1.s
    let r1 := markLast r last
    let off := s.writeOff
    let s2 := { s with files := fileAppend s.files s.activeFid off r1, actualSize := s.actualSize + r1.size, writeOff := s.writeOff + r1.size }
    let tmp := tmpUpdate c1.tmp r1.key
    let s3 :=
      if last then
        -- buildTxIDRootIdx: the id goes into the active set and into every segment sealed by this commit;
        -- buildBucketMetaIdx: only the bucket of the last record, with the range of *all* keys written
        let s' := { s2 with activeTx := if s2.activeTx.contains r1.txid then s2.activeTx else s2.activeTx ++ [r1.txid],
                            sealed := s2.sealed.map fun g => if c1.reserved.contains g.fid && !g.txids.contains r1.txid then { g with txids := g.txids ++ [r1.txid] } else g }
        match tmp with
        | some t => { s' with metas := metaUpdate s'.metas r1.bucket t }
        | none => s'
      else s2
    let s4 := if r1.ds == dsKV then treeInsert s3 (newKey r1) ⟨r1, s.activeFid, off⟩ else s3
    some { c1 with s := s4, tmp := tmp }

def commitLoop (c : CommitSt) (recs : List Rec) : Option (CommitSt × Bool) :=
  match recs with
  | [] => some (c, true)
  | r :: rest =>
    if r.size > c.s.seg then some (c, false)
    else match writeRec c r rest.isEmpty with
      | none => none
      | some c' => commitLoop c' rest

/-- `Tx.Commit` of a write transaction in sparse mode (key/value records) -/
def commit (s : SState) (recs : List Rec) : SState × Outcome Unit :=
  if recs.isEmpty then (s, .ok ())
  else match commitLoop { s := s } recs with
    | none => (s, .panic)
    | some (c, true) => (c.s, .ok ())
    | some (c, false) => (c.s, .err)

/-! ### reads -/

def readRec (s : SState) (i : Idx) : Outcome (Option Rec) := readAt s.files s.seg i.fid i.pos

def segsDesc (s : SState) : List Seg :=
  -- SortFID by descending file id (the sealed list is ascending)
  s.sealed.reverse

def inRange (k lo hi : Bytes) : Bool := bcmp k lo != .lt && bcmp k hi != .gt

/-- `getByHintBPTSparseIdxOnDisk` -/
def getOnDisk (s : SState) (nk : Bytes) (now : Nat) : List Seg → Outcome (Option Rec)
  | [] => .err
  | g :: rest =>
    if inRange nk g.first g.last then
      match aget? g.content nk with
      | some i =>
        match readAt s.files s.seg g.fid i.pos with
        | .ok (some r) =>
          if dead r now then .err
          else if s.activeTx.contains r.txid then .ok (some r)
          else if g.txids.contains r.txid then .ok (some r)
          else .err
        | _ => getOnDisk s nk now rest
      | none => getOnDisk s nk now rest
    else getOnDisk s nk now rest

def get (s : SState) (b k : Bytes) (now : Nat) : Outcome (Option Rec) :=
  let nk := b ++ k
  let inMem : Option (Outcome (Option Rec)) :=
    match aget? s.active nk with
    | some i =>
      if s.activeTx.contains i.r.txid then
        match readRec s i with
        | .ok (some r) => some (if dead r now then .err else .ok (some r))
        | _ => none
      else none
    | none => none
  match inMem with
  | some o => o
  | none => getOnDisk s nk now (segsDesc s)

/-- `processEntriesScanOnDisk`: first occurrence per *key* wins, sorted by key, dead ones dropped -/
def processEntries (es : List Rec) (now : Nat) : List Rec :=
  let firsts := es.foldl (fun acc r => if acc.any (·.key == r.key) then acc else acc ++ [r]) []
  let sorted := firsts.foldr (fun r acc =>
    let rec ins (x : Rec) : List Rec → List Rec
      | [] => [x]
      | y :: ys => if bcmp x.key y.key == .lt then x :: y :: ys else y :: ins x ys
    ins r acc) []
  sorted.filter fun r => !dead r now

/-- read the entries of a list of index records; `none` = a read failed -/
def readAll (s : SState) (l : List Idx) : Option (List Rec) :=
  l.foldl (fun acc i => match acc with
    | none => none
    | some rs => match readRec s i with
      | .ok (some r) => some (rs ++ [r])
      | _ => none) (some [])

/-- the overlap test of `rangeScanOnDisk`, as coded -/
def rangeSelects (ns ne : Bytes) (g : Seg) : Bool :=
  (bcmp ns g.first != .gt && bcmp g.first ne != .gt) || (bcmp ns g.last != .gt && bcmp g.last ne != .gt)

/-- `findRangeOnDisk`: the entries of a sealed segment from the first composite key ≥ ns while ≤ ne -/
def segRange (s : SState) (g : Seg) (ns ne : Bytes) : Option (List Rec) :=
  let from_ := g.content.dropWhile fun p => bcmp p.1 ns == .lt
  -- each entry is read before its key is compared with the end
  let rec go (l : List (Bytes × Idx)) (acc : List Rec) : Option (List Rec) :=
    match l with
    | [] => some acc
    | p :: rest =>
      match readAt s.files s.seg g.fid p.2.pos with
      | .ok (some r) => if bcmp (newKey r) ne == .gt then some acc else go rest (acc ++ [r])
      | _ => none
  go from_ []

def rangeScan (s : SState) (b st en : Bytes) (now : Nat) : Outcome (List Rec) :=
  let ns := b ++ st
  let ne := b ++ en
  let act : Option (List Rec) :=
    if bcmp ns ne == .gt then some []
    else readAll s ((s.active.filter fun p => inRange p.1 ns ne).map (·.2))
  match act with
  | none => .err
  | some es0 =>
    let disk := (segsDesc s).foldl (fun acc g => match acc with
      | none => none
      | some rs => if rangeSelects ns ne g then (match segRange s g ns ne with | some x => some (rs ++ x) | none => none) else some rs) (some [])
    match disk with
    | none => .err
    | some es1 =>
      let es := es0 ++ es1
      if es.isEmpty then .err else .ok (processEntries es now)

def getAll (s : SState) (b : Bytes) (now : Nat) : Outcome (List Rec) :=
  match aget? s.metas b with
  | none => .err
  | some (st, en) => rangeScan s b st en now

/-- `findPrefixOnDisk` / `findPrefixSearchOnDisk` on one sealed segment: entries and the offset consumed -/
def segPrefix (s : SState) (g : Seg) (b p np : Bytes) (off lim : Int) (mt : Option (Bytes → Bool)) : Option (List Rec × Int) :=
  let from_ := g.content.dropWhile fun x => bcmp x.1 np == .lt
  let rec go (l : List (Bytes × Idx)) (coff : Int) (acc : List Rec) : Option (List Rec × Int) :=
    match l with
    | [] => some (acc, coff)
    | x :: rest =>
      if coff < off then go rest (coff + 1) acc
      else match readAt s.files s.seg g.fid x.2.pos with
        | .ok (some r) =>
          if !hasPrefix r.key p || r.bucket != b then some (acc, coff)
          else if (match mt with | some m => !m (r.key.drop p.length) | none => false) then go rest coff acc
          else
            let acc := acc ++ [r]
            if lim > 0 ∧ (acc.length : Int) = lim then some (acc, coff) else go rest coff acc
        | _ => none
  go from_ 0 []

/-- `prefixScanOnDisk`: segments newest first, selected by `np ≤ first ∨ np ≤ last`, each given what is
left of the limit (and the full offset again) -/
def prefixOnDisk (s : SState) (b p : Bytes) (off lim : Int) (mt : Option (Bytes → Bool)) : Option (List Rec) :=
  let np := b ++ p
  let rec go (gs : List Seg) (left : Int) (acc : List Rec) : Option (List Rec) :=
    match gs with
    | [] => some acc
    | g :: rest =>
      if bcmp np g.first != .gt || bcmp np g.last != .gt then
        match segPrefix s g b p np off left mt with
        | none => none
        | some (es, _) =>
          let acc := acc ++ es
          if (acc.length : Int) = lim then some acc else go rest (left - es.length) acc
      else go rest left acc
  go (segsDesc s) lim []

def prefixScan (s : SState) (b p : Bytes) (off lim : Int) (now : Nat) (mt : Option (Bytes → Bool) := none) : Outcome (List Rec) :=
  let np := b ++ p
  -- the tree walk matches the regular expression against the composite key without the composite prefix
  let walk := prefixWalk s.active np off lim (match mt with | some m => fun k => m (k.drop np.length) | none => fun _ => true)
  match readAll s walk.1 with
  | none => .err
  | some es0 =>
    -- filled from the active tree alone: returned as is (no dead-entry filter, no sorting)
    if !es0.isEmpty ∧ (es0.length : Int) = lim then .ok es0
    else
      let left := lim - es0.length
      let disk : Option (List Rec) := if left > 0 then prefixOnDisk s b p off left mt else some []
      match disk with
      | none => .err
      | some es1 =>
        let es := es0 ++ es1
        if es.isEmpty then .err else .ok (processEntries es now)

/-! ### Open -/

/-- `Open` in sparse mode on the data files, with what rotation and commit persisted next to them
(sealed segments with their transaction ids, bucket metas). Only the last data file is parsed. -/
def openDB (seg : Nat) (fs : List File) (sealed : List Seg) (metas : Assoc (Bytes × Bytes)) : SState × Outcome Unit :=
  let maxFid := (fs.map (·.fid)).foldl max 0
  let fs' := fileEnsure fs maxFid
  let act := (fileGet? fs' maxFid).getD { fid := maxFid, recs := [] }
  let s0 : SState := { seg := seg, files := fs', activeFid := maxFid, writeOff := fileEnd act, actualSize := fileEnd act,
                       sealed := sealed.filter (·.fid < maxFid), metas := metas, opened := true }
  if act.torn then (s0, .err)
  else
    let ids := (act.recs.filter fun x => x.2.status == 1).map fun x => x.2.txid
    let s1 := act.recs.foldl (fun s x =>
      if ids.contains x.2.txid && x.2.ds == dsKV then treeInsert s (newKey x.2) ⟨{ x.2 with status := 1 }, maxFid, x.1⟩ else s) { s0 with activeTx := ids.eraseDups }
    (s1, .ok ())

end Nuts.Model.Sparse
