/-
  Nuts.Model.Conc — the locking protocol of nutsdb transactions (tx.go: `Begin` → `tx.lock()`:
  `db.mu.Lock()` for a writable transaction, `db.mu.RLock()` otherwise; `Commit`/`Rollback` → `tx.unlock()`)
  as a small-step system over an abstract database state, for any number of threads and any schedule.

  A thread runs one transaction: it waits for the lock, then performs the steps of its program one at a
  time — any other thread may be scheduled between two of them — and releases the lock. A step is a
  function of the database state (returning the new state and an observation); steps of read-mode
  programs are required not to change the state (`ReadPure`: discharged for the code by the regenerated
  effect facts). `s0` is a ghost field: the state at the moment the lock was acquired.
-/
namespace Nuts.Model.Conc

inductive Mode where
  | r
  | w
  deriving DecidableEq, Repr

/-- a transaction program over database states `S` with observations `O` -/
structure TxProg (S O : Type) where
  mode : Mode
  steps : List (S → S × O)

/-- read-mode programs do not change the state -/
def TxProg.ReadPure {S O} (p : TxProg S O) : Prop := p.mode = .r → ∀ f ∈ p.steps, ∀ s, (f s).1 = s

inductive Phase where
  | idle
  | body (pc : Nat)
  | done
  deriving DecidableEq, Repr

structure Thread (S O : Type) where
  prog : TxProg S O
  phase : Phase := .idle
  obs : List O := []
  /-- ghost: database state when the lock was acquired -/
  s0 : S

structure Sys (S O : Type) where
  st : S
  threads : List (Thread S O)
  /-- ghost: thread indexes in lock-acquisition order, each with the database state it found -/
  log : List (Nat × S) := []

/-- run a list of steps from a state: final state and observations in order -/
def run {S O} (steps : List (S → S × O)) (s : S) : S × List O :=
  match steps with
  | [] => (s, [])
  | f :: rest => let (s1, o) := f s; let (s2, os) := run rest s1; (s2, o :: os)

def inBody {S O} (t : Thread S O) : Bool := match t.phase with | .body _ => true | _ => false

def writerIn {S O} (sys : Sys S O) : Bool := sys.threads.any fun t => inBody t && t.prog.mode == .w
def anyIn {S O} (sys : Sys S O) : Bool := sys.threads.any inBody

/-- the RWMutex: a writer needs the lock free, a reader needs no writer inside -/
def canAcquire {S O} (sys : Sys S O) (m : Mode) : Bool :=
  match m with
  | .w => !anyIn sys
  | .r => !writerIn sys

/-- one scheduling step of thread `i` -/
inductive Step {S O} : Sys S O → Sys S O → Prop
  | acquire (sys : Sys S O) (i : Nat) (t : Thread S O) (hi : sys.threads[i]? = some t) (hp : t.phase = .idle)
      (hc : canAcquire sys t.prog.mode = true) :
      Step sys { sys with threads := sys.threads.set i { t with phase := .body 0, s0 := sys.st, obs := [] },
                          log := sys.log ++ [(i, sys.st)] }
  | step (sys : Sys S O) (i : Nat) (t : Thread S O) (pc : Nat) (f : S → S × O) (hi : sys.threads[i]? = some t)
      (hp : t.phase = .body pc) (hf : t.prog.steps[pc]? = some f) :
      Step sys { sys with st := (f sys.st).1,
                          threads := sys.threads.set i { t with phase := .body (pc + 1), obs := t.obs ++ [(f sys.st).2] } }
  | release (sys : Sys S O) (i : Nat) (t : Thread S O) (pc : Nat) (hi : sys.threads[i]? = some t)
      (hp : t.phase = .body pc) (hend : pc = t.prog.steps.length) :
      Step sys { sys with threads := sys.threads.set i { t with phase := .done } }

/-- any number of scheduling steps: an execution under an arbitrary schedule -/
inductive Reach {S O} : Sys S O → Sys S O → Prop
  | refl (a : Sys S O) : Reach a a
  | tail {a b c : Sys S O} : Reach a b → Step b c → Reach a c

/-- the initial system: every thread idle -/
def initSys {S O} (s : S) (progs : List (TxProg S O)) : Sys S O :=
  { st := s, threads := progs.map fun p => { prog := p, s0 := s }, log := [] }

/-- serial execution of programs one after another: final state and the observations of each -/
def runSerial {S O} (s : S) (progs : List (TxProg S O)) : S × List (List O) :=
  match progs with
  | [] => (s, [])
  | p :: rest => let (s1, os) := run p.steps s; let (s2, oss) := runSerial s1 rest; (s2, os :: oss)

end Nuts.Model.Conc
