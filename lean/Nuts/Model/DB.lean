/-
  Nuts.Model.DB — the database in the RAM index modes (HintKeyValAndRAMIdxMode = 0,
  HintKeyAndRAMIdxMode = 1), following db.go / tx.go / tx_*.go construct by construct.

  * the log: data files `fid ↦ [(offset, record)]`, fixed `SegmentSize`, rotation when the next
    record does not fit, hints `(fid, offset)`;
  * `Commit` as coded: size test per record, rotation, commit marker on the last record only,
    KV records indexed inside the write loop (before the commit point), list/set/zset records
    applied after it, errors of the structure operations ignored;
  * `Open` as coded: scan every file, collect ids of transactions with a committed record, replay
    the records of those transactions in file order through the *second* set of appliers, which
    abort on the errors that commit ignored;
  * reads as coded (committed-id test only in `Get`; tombstone/expiry filtering after offset/limit);
  * `Merge` as coded.

  The per-bucket KV index is the sorted association list that the B+ tree is shown to implement
  (Nuts.Model.BPTree, suite `bpt-ds`); the list / set / sorted-set indexes are the structure models.
-/
import Nuts.Basic
import Nuts.Kernel
import NutsGen.Kernels
import Nuts.Model.ListDS
import Nuts.Model.SetDS
import Nuts.Model.ZSetA
namespace Nuts.Model.DB
open Nuts

/-! ### constants (checked against NutsGen.Facts in NutsProofs.Facts) -/
def flagDelete := 0
def flagSet := 1
def flagLPush := 2
def flagRPush := 3
def flagLRem := 4
def flagLPop := 5
def flagRPop := 6
def flagLSet := 7
def flagLTrim := 8
def flagZAdd := 9
def flagZRem := 10
def flagZRemRangeByRank := 11
def flagZPopMax := 12
def flagZPopMin := 13
def dsSet := 0
def dsZSet := 1
def dsKV := 2
def dsList := 3
def headerSize := 42

structure Opts where
  mode : Nat := 0      -- 0 key+value in RAM, 1 key only, 2 sparse
  rw : Nat := 0        -- 0 FileIO, 1 MMap
  startRw : Nat := 1
  sync : Bool := true
  seg : Nat := 8388608
  deriving Repr, DecidableEq, Inhabited

/-- what the model keeps of the options: index mode and segment size. `RWMode`, `StartFileLoadingMode`
and `SyncEnable` are dropped when a database is opened — nothing after `Open` can depend on them (C19);
that the implementation behaves like this one model under every combination of them is what the
correspondence suites `db-opts*` check. -/
def Opts.core (o : Opts) : Opts := { mode := o.mode, seg := o.seg, rw := 0, startRw := 0, sync := false }

structure Rec where
  bucket : Bytes
  key : Bytes
  value : Bytes
  ts : Nat
  ttl : Nat
  flag : Nat
  ds : Nat
  txid : Nat
  status : Nat := 0
  /-- sorted-set score carried by a ZAdd record (the text after `|` in the key, as a number) -/
  score : Int := 0
  deriving Repr, DecidableEq, Inhabited

def Rec.size (r : Rec) : Nat := headerSize + r.bucket.length + r.key.length + r.value.length

/-- an index record of the KV index: the record and its hint -/
structure Idx where
  r : Rec
  fid : Nat
  pos : Nat
  deriving Repr, DecidableEq, Inhabited

abbrev Assoc (α : Type) := List (Bytes × α)

def aget? {α} (m : Assoc α) (k : Bytes) : Option α :=
  match m with
  | [] => none
  | (k', v) :: rest => if k' = k then some v else aget? rest k

def aput {α} (m : Assoc α) (k : Bytes) (v : α) : Assoc α :=
  match m with
  | [] => [(k, v)]
  | (k', v') :: rest => if k' = k then (k, v) :: rest else (k', v') :: aput rest k v

/-- sorted insert / overwrite (what `BPTree.Insert` does to the in-order key sequence) -/
def upsert {α} (m : Assoc α) (k : Bytes) (v : α) : Assoc α :=
  match m with
  | [] => [(k, v)]
  | (k', v') :: rest =>
    match bcmp k k' with
    | .lt => (k, v) :: (k', v') :: rest
    | .eq => (k, v) :: rest
    | .gt => (k', v') :: upsert rest k v

structure File where
  fid : Nat
  recs : List (Nat × Rec)     -- (offset, record) in write order
  /-- bytes that do not decode follow the last record (a write that was cut short by a crash) -/
  torn : Bool := false
  deriving Repr, Inhabited

structure State where
  opt : Opts := {}
  files : List File := []               -- ascending fid
  activeFid : Nat := 0
  /-- `ActiveFile.fileID`, the file id written into hints; set wherever a file becomes active (`Open`,
  rotation, `reWriteData` — the last one since fix 'reWriteData sets the file id', before which it stayed 0) -/
  hintFid : Nat := 0
  writeOff : Nat := 0
  actualSize : Nat := 0
  /-- `db.ActiveFile` is a file that `Merge` has removed from the directory (it found nothing to
  rewrite): records are written into the unlinked file and never show in `files`; a file of the same
  name re-created by a key-only read is a different file. Cleared when a new file becomes active. -/
  activeUnlinked : Bool := false
  kv : Assoc (Assoc Idx) := []
  lists : Assoc ListDS.St := []
  sets : Assoc SetDS.St := []
  zsets : Assoc ZSetA.St := []
  committed : List Nat := []
  closed : Bool := false
  opened : Bool := false
  deriving Inhabited

/-! ### time -/

/-- `IsExpired(ttl, timestamp)` through the regenerated kernel; `now` is `time.Now().Unix()`. -/
def isExpired (ttl ts now : Nat) : Bool :=
  (NutsGen.K.isExpired.run ttl ts now).vals == [1]

def dead (r : Rec) (now : Nat) : Bool := r.flag == flagDelete || isExpired r.ttl r.ts now

/-! ### files -/

def fileGet? (fs : List File) (fid : Nat) : Option File := fs.find? (·.fid == fid)

/-- a record written at `off` of file `fid`. `fs` is the *directory*: when the file is not in it — the
active file was removed by a `Merge` that found nothing to rewrite, while `db.ActiveFile` still holds
it open — the write goes to the unlinked file and never shows in the directory (such a record is lost
at the next `Open`). Every other writer (`rotate`, `openDB`, `rewrite`) has ensured the file first. -/
def fileAppend (fs : List File) (fid off : Nat) (r : Rec) : List File :=
  if fs.any (·.fid == fid) then fs.map fun f => if f.fid == fid then { f with recs := f.recs ++ [(off, r)] } else f
  else fs

def fileEnsure (fs : List File) (fid : Nat) : List File :=
  if fs.any (·.fid == fid) then fs
  else let (lo, hi) := fs.partition (·.fid < fid); lo ++ [{ fid := fid, recs := [] }] ++ hi

def fileEnd (f : File) : Nat :=
  match f.recs.getLast? with
  | some (o, r) => o + r.size
  | none => 0

/-- `DataFile.ReadAt(off)`: the record starting there; `none` = zero header (end of data);
`err` = inside a record or beyond the segment. -/
def readAt (fs : List File) (seg : Nat) (fid off : Nat) : Outcome (Option Rec) :=
  match fileGet? fs fid with
  | none => .ok none                     -- NewDataFile creates an all-zero file
  | some f =>
    match f.recs.find? (·.1 == off) with
    | some (_, r) => .ok (some r)
    | none => if off ≥ fileEnd f ∧ off + headerSize ≤ seg then .ok none else .err

/-! ### applying records to the in-memory indexes -/

def applyKV (s : State) (r : Rec) (fid pos : Nat) : State :=
  let b := (aget? s.kv r.bucket).getD []
  { s with kv := aput s.kv r.bucket (upsert b r.key ⟨r, fid, pos⟩) }

/-- split at the first separator byte (`strings.Split(x, "|")[0]` and `[1]`; `[1]` panics when absent) -/
def splitSep (b : Bytes) : List Bytes :=
  let rec go (cur : Bytes) (rest : Bytes) (acc : List Bytes) : List Bytes :=
    match rest with
    | [] => acc ++ [cur]
    | x :: xs => if x == sepByte then go [] xs (acc ++ [cur]) else go (cur ++ [x]) xs acc
  go [] b []

/-- `strings.SplitN(x, "|", 2)`: the text before the first separator and everything after it -/
def splitSep2 (b : Bytes) : Option (Bytes × Bytes) :=
  if b.contains sepByte then some (b.takeWhile (· != sepByte), (b.dropWhile (· != sepByte)).drop 1) else none

def digitsToNat (b : Bytes) : Option Nat :=
  if b.isEmpty then none
  else b.foldl (fun acc c => match acc with
    | none => none
    | some n => if 48 ≤ c.toNat ∧ c.toNat ≤ 57 then some (n * 10 + (c.toNat - 48)) else none) (some 0)

/-- `strconv.Atoi` with the error ignored (0 on a syntax error, clamped on a range error). -/
def atoi (b : Bytes) : Int :=
  let (neg, body) := match b with
    | 45 :: rest => (true, rest)
    | 43 :: rest => (false, rest)
    | _ => (false, b)
  match digitsToNat body with
  | none => 0
  | some n =>
    let v : Int := if neg then -(n : Int) else n
    if v > maxInt64 then maxInt64 else if v < minInt64 then minInt64 else v

def itoa (i : Int) : Bytes := bytesOfString (toString i)

/-- outcome of applying one list record (`tx.buildListIdx` / `db.buildListIdx`): new structure and
whether the underlying call reported an error (ignored at commit, fatal on open) or panicked. -/
def applyList (l : ListDS.St) (r : Rec) : ListDS.St × Outcome Unit :=
  if r.flag == flagLPush then ((ListDS.lpush l r.key [r.value]).1, .ok ())
  else if r.flag == flagRPush then ((ListDS.rpush l r.key [r.value]).1, .ok ())
  else if r.flag == flagLRem then
    match splitSep2 r.value with
    | some (c, v) => let (l', o) := ListDS.lrem l r.key (atoi c) v; (l', o.map fun _ => ())
    | none => (l, .panic)
  else if r.flag == flagLPop then let (l', o) := ListDS.lpop l r.key; (l', o.map fun _ => ())
  else if r.flag == flagRPop then let (l', o) := ListDS.rpop l r.key; (l', o.map fun _ => ())
  else if r.flag == flagLSet then
    match splitSep r.key with
    | k :: i :: _ => ListDS.lset l k (atoi i) r.value
    | _ => (l, .panic)
  else if r.flag == flagLTrim then
    match splitSep r.key with
    | k :: st :: _ => ListDS.ltrim l k (atoi st) (atoi r.value)
    | _ => (l, .panic)
  else (l, .ok ())

def applySet (m : SetDS.St) (r : Rec) : SetDS.St × Outcome Unit :=
  if r.flag == flagDelete then SetDS.srem m r.key [r.value]
  else if r.flag == flagSet then (SetDS.sadd m r.key [r.value], .ok ())
  else (m, .ok ())

/-- sorted-set record. `atCommit`: `tx.buildSortedSetIdx` indexes `keyAndScore[1]` unconditionally
(panics when the key has no separator); `db.buildSortedSetIdx` requires exactly two parts. -/
def applyZSet (z : ZSetA.St) (r : Rec) (atCommit : Bool) : ZSetA.St × Outcome Unit :=
  if r.flag == flagZAdd then
    match splitSep r.key with
    | [k, _] => (ZSetA.put z k r.score r.value, .ok ())
    | k :: _ :: _ => if atCommit then (ZSetA.put z k r.score r.value, .ok ()) else (z, .ok ())
    | _ => if atCommit then (z, .panic) else (z, .ok ())
  else if r.flag == flagZRem then (ZSetA.remove z r.key, .ok ())
  else if r.flag == flagZRemRangeByRank then ((ZSetA.getByRankRange z (atoi r.key) (atoi r.value) true).2, .ok ())
  else if r.flag == flagZPopMax then ((ZSetA.popMax z).2, .ok ())
  else if r.flag == flagZPopMin then ((ZSetA.popMin z).2, .ok ())
  else (z, .ok ())

/-- apply a non-KV record to its structure index; the bucket's structure is created first (as both
appliers do). Returns the outcome of the underlying structure call. -/
def applyOther (s : State) (r : Rec) (atCommit : Bool) : State × Outcome Unit :=
  if r.ds == dsSet then
    let (m, o) := applySet ((aget? s.sets r.bucket).getD []) r
    ({ s with sets := aput s.sets r.bucket m }, o)
  else if r.ds == dsZSet then
    let (z, o) := applyZSet ((aget? s.zsets r.bucket).getD []) r atCommit
    ({ s with zsets := aput s.zsets r.bucket z }, o)
  else if r.ds == dsList then
    let (l, o) := applyList ((aget? s.lists r.bucket).getD []) r
    ({ s with lists := aput s.lists r.bucket l }, o)
  else (s, .ok ())

/-! ### Commit -/

/-- `rotateActiveFile` (RAM modes): next file id, fresh offsets. -/
def rotate (s : State) : State :=
  let nf := s.activeFid + 1
  { s with activeFid := nf, hintFid := nf, writeOff := 0, actualSize := 0, files := fileEnsure s.files nf, activeUnlinked := false }

def preRotate (s : State) (r : Rec) : State := if s.actualSize + r.size > s.opt.seg then rotate s else s

/-- only the last record of a transaction carries status `Committed` -/
def markLast (r : Rec) (last : Bool) : Rec := if last then { r with status := 1 } else r

def appendRec (s : State) (r : Rec) : State :=
  { s with files := if s.activeUnlinked then s.files else fileAppend s.files s.activeFid s.writeOff r,
           actualSize := s.actualSize + r.size, writeOff := s.writeOff + r.size }

def noteCommitted (s : State) (id : Nat) : State :=
  { s with committed := if s.committed.contains id then s.committed else id :: s.committed }

/-- one iteration of the write loop of `Tx.Commit` (after the size test): rotate when the record does
not fit, mark the last record committed, write it, record the transaction id after the last write,
index a KV record at once. -/
def writeRec (s : State) (r : Rec) (last : Bool) : State :=
  let s1 := preRotate s r
  let r1 := markLast r last
  let s2 := appendRec s1 r1
  let s3 := if last then noteCommitted s2 r1.txid else s2
  if r1.ds == dsKV then applyKV s3 r1 s1.hintFid s1.writeOff else s3

/-- the write loop of `Tx.Commit`; `false` = `ErrKeyAndValSize` at some record (state keeps what was
written and indexed before it). -/
def commitLoop (s : State) (recs : List Rec) : State × Bool :=
  match recs with
  | [] => (s, true)
  | r :: rest =>
    if r.size > s.opt.seg then (s, false)
    else commitLoop (writeRec s r rest.isEmpty) rest

/-- `buildIdxes`: list/set/zset records applied after the loop, errors ignored, panics propagate. -/
def buildIdxes (s : State) (recs : List Rec) : State × Bool :=
  match recs with
  | [] => (s, false)
  | r :: rest =>
    let (s', o) := applyOther s r true
    if o.isPanic then (s', true) else buildIdxes s' rest

/-- `Tx.Commit` for a write transaction with pending records `recs`. -/
def commit (s : State) (recs : List Rec) : State × Outcome Unit :=
  if recs.isEmpty then (s, .ok ())
  else
    let (s1, fine) := commitLoop s recs
    if !fine then (s1, .err)
    else
      let (s2, panicked) := buildIdxes s1 recs
      if panicked then (s2, .panic) else (s2, .ok ())

/-! ### Commit with an injected write error

`failAt = some i`: the `WriteAt` of the record with index `i` returns an error before anything reaches
the file (the FS hook of the harness vetoes the write). The loop returns at once: the rotation that
preceded the write has happened, the offsets have not advanced, records `0 … i-1` stay written and —
KV records — indexed. -/

def commitLoopF (s : State) (recs : List Rec) (failAt : Option Nat) : State × Bool :=
  match recs with
  | [] => (s, true)
  | r :: rest =>
    if r.size > s.opt.seg then (s, false)
    else if failAt == some 0 then (preRotate s r, false)
    else commitLoopF (writeRec s r rest.isEmpty) rest (failAt.map (· - 1))

def commitF (s : State) (recs : List Rec) (failAt : Option Nat) : State × Outcome Unit :=
  if recs.isEmpty then (s, .ok ())
  else
    let (s1, fine) := commitLoopF s recs failAt
    if !fine then (s1, .err)
    else
      let (s2, panicked) := buildIdxes s1 recs
      if panicked then (s2, .panic) else (s2, .ok ())

/-! ### Commit with an injected `Sync` error

`failAt = i`: the `Sync` that follows the write of the record with index `i` fails (`SyncEnable`; the FS hook
of the harness vetoes the sync). The loop returns at once: record `i` is in the file at the write offset, the
offsets have not advanced, the record is not indexed and — when it was the last — the transaction id is not
noted. The sync of the last record is never failed (neither here nor by the harness): the property leaves that
outcome in doubt. (The next write would land on top of record `i`; the harness closes and reopens before any.) -/

def commitLoopS (s : State) (recs : List Rec) (failAt : Nat) : State × Bool :=
  match recs with
  | [] => (s, true)
  | r :: rest =>
    if r.size > s.opt.seg then (s, false)
    else if failAt == 0 && !rest.isEmpty then
      let s1 := preRotate s r
      let r1 := markLast r false
      ({ s1 with files := if s1.activeUnlinked then s1.files else fileAppend s1.files s1.activeFid s1.writeOff r1 }, false)
    else commitLoopS (writeRec s r rest.isEmpty) rest (failAt - 1)

def commitS (s : State) (recs : List Rec) (failAt : Nat) : State × Outcome Unit :=
  if recs.isEmpty then (s, .ok ())
  else
    let (s1, fine) := commitLoopS s recs failAt
    if !fine then (s1, .err)
    else
      let (s2, panicked) := buildIdxes s1 recs
      if panicked then (s2, .panic) else (s2, .ok ())

/-! ### Open (recovery) -/

def allRecs (fs : List File) : List (Rec × Nat × Nat) :=
  fs.flatMap fun f => f.recs.map fun (o, r) => (r, f.fid, o)

def committedIds (rs : List (Rec × Nat × Nat)) : List Nat :=
  (rs.filter fun x => x.1.status == 1).map fun x => x.1.txid

/-- replay through `db.build*Idx`: structure errors are ignored as at commit time; in key-only mode a
structure record has no entry (`ErrEntryIdxModeOpt`). -/
def replay (s : State) (rs : List (Rec × Nat × Nat)) (ids : List Nat) : State × Outcome Unit :=
  match rs with
  | [] => (s, .ok ())
  | (r, fid, pos) :: rest =>
    if !ids.contains r.txid then replay s rest ids
    else if r.ds == dsKV then replay (applyKV s { r with status := 1 } fid pos) rest ids
    else if s.opt.mode != 0 then (s, .err)   -- no entry in key-only mode (ErrEntryIdxModeOpt / nil entry)
    else
      let (s', o) := applyOther s r false
      match o with
      | .panic => (s', .panic)
      | _ => replay s' rest ids     -- errors are ignored exactly as at commit time

/-- `Open` on the files `fs`. -/
def openDB (opt : Opts) (fs : List File) : State × Outcome Unit :=
  let maxFid := (fs.map (·.fid)).foldl max 0
  let fs' := fileEnsure fs maxFid
  let act := (fileGet? fs' maxFid).getD { fid := maxFid, recs := [] }
  let s : State := { opt := opt.core, files := fs', activeFid := maxFid, hintFid := maxFid, writeOff := fileEnd act,
                     actualSize := fileEnd act, opened := true }
  if fs.isEmpty then (s, .ok ())
  -- a record that does not read back (crc error) is fatal in getActiveFileWriteOff / parseDataFiles
  else if fs'.any (·.torn) then (s, .err)
  else
    let rs := allRecs fs'
    let ids := committedIds rs
    replay { s with committed := ids.eraseDups } rs ids

/-! ### KV reads -/

def bucketIdx (s : State) (b : Bytes) : Option (Assoc Idx) := aget? s.kv b

/-- what a scan returns for an index record: the entry in RAM, or (key-only mode) the record read
back from the hint position. -/
def fetch (s : State) (i : Idx) : Outcome (Option Rec) :=
  if s.opt.mode == 0 then .ok (some i.r) else readAt s.files s.opt.seg i.fid i.pos

def get (s : State) (b k : Bytes) (now : Nat) : Outcome (Option Rec) :=
  match bucketIdx s b with
  | none => .err
  | some m =>
    match aget? m k with
    | none => .err
    | some i =>
      if !s.committed.contains i.r.txid then .err
      else if dead i.r now then .err
      else fetch s i

/-- `getHintIdxDataItemsWrapper`: drop dead records, then keep at most `limit` (`limit = -1`: all). -/
def wrapper (s : State) (recs : List Idx) (limit : Int) (now : Nat) (acc : List (Option Rec) := []) : Outcome (List (Option Rec)) :=
  match recs with
  | [] => .ok acc
  | i :: rest =>
    if dead i.r now then wrapper s rest limit now acc
    else if (limit > 0 ∧ (acc.length : Int) < limit) ∨ limit = -1 then
      match fetch s i with
      | .ok e => wrapper s rest limit now (acc ++ [e])
      | _ => .err
    else wrapper s rest limit now acc

def nonEmptyOrErr {α} (o : Outcome (List α)) : Outcome (List α) :=
  match o with
  | .ok [] => .err
  | x => x

def getAll (s : State) (b : Bytes) (now : Nat) : Outcome (List (Option Rec)) :=
  match bucketIdx s b with
  | none => .err
  | some m => if m.isEmpty then .err else nonEmptyOrErr (wrapper s (m.map (·.2)) (-1) now)

def rangeScan (s : State) (b st en : Bytes) (now : Nat) : Outcome (List (Option Rec)) :=
  match bucketIdx s b with
  | none => .err
  | some m =>
    if bcmp st en == .gt then .err
    else
      let sel := m.filter fun p => ble st p.1 && ble p.1 en
      if sel.isEmpty then .err else nonEmptyOrErr (wrapper s (sel.map (·.2)) (-1) now)

/-- the walk of `BPTree.PrefixScan` / `PrefixSearchScan` over the in-order records: skip keys below the
prefix, stop at the first key without the prefix, apply offset then (search: match) then limit. -/
def prefixWalk (recs : List (Bytes × Idx)) (pre : Bytes) (off lim : Int) (mt : Bytes → Bool) : List Idx × Int :=
  let from_ := recs.dropWhile fun p => blt p.1 pre
  let block := from_.takeWhile fun p => hasPrefix p.1 pre
  let rec go (l : List (Bytes × Idx)) (coff : Int) (acc : List Idx) : List Idx × Int :=
    match l with
    | [] => (acc, coff)
    | p :: rest =>
      if coff < off then go rest (coff + 1) acc
      else if !mt p.1 then go rest coff acc
      else
        let acc := acc ++ [p.2]
        if lim > 0 ∧ (acc.length : Int) = lim then (acc, coff) else go rest coff acc
  go block 0 []

def prefixScan (s : State) (b pre : Bytes) (off lim : Int) (now : Nat) (mt : Bytes → Bool := fun _ => true) :
    Outcome (List (Option Rec)) :=
  match bucketIdx s b with
  | none => .err
  | some m =>
    let (recs, _) := prefixWalk m pre off lim mt
    if recs.isEmpty then .err else nonEmptyOrErr (wrapper s recs lim now)


/-! ### key-only mode: a read re-creates a missing data file

`NewDataFile` opens with `O_CREATE` and truncates to the segment size: reading the value of an index
record whose file is not in the directory (only possible after a `Merge` removed the active file)
leaves an empty file of that name behind. The reads stay pure; the driver applies `afterRead` with the
records the read fetched. -/

/-- the index records `wrapper` reads back, in order (a failing read is the last one) -/
def wrapperFetched (s : State) (recs : List Idx) (limit : Int) (now : Nat) (n : Nat := 0) : List Idx :=
  match recs with
  | [] => []
  | i :: rest =>
    if dead i.r now then wrapperFetched s rest limit now n
    else if (limit > 0 ∧ (n : Int) < limit) ∨ limit = -1 then
      match fetch s i with
      | .ok _ => i :: wrapperFetched s rest limit now (n + 1)
      | _ => [i]
    else wrapperFetched s rest limit now n

def getFetched (s : State) (b k : Bytes) (now : Nat) : List Idx :=
  match (bucketIdx s b).bind (aget? · k) with
  | none => []
  | some i => if !s.committed.contains i.r.txid || dead i.r now then [] else [i]

def getAllFetched (s : State) (b : Bytes) (now : Nat) : List Idx :=
  match bucketIdx s b with
  | none => []
  | some m => wrapperFetched s (m.map (·.2)) (-1) now

def rangeFetched (s : State) (b st en : Bytes) (now : Nat) : List Idx :=
  match bucketIdx s b with
  | none => []
  | some m => if bcmp st en == .gt then [] else wrapperFetched s ((m.filter fun p => ble st p.1 && ble p.1 en).map (·.2)) (-1) now

def prefixFetched (s : State) (b pre : Bytes) (off lim : Int) (now : Nat) (mt : Bytes → Bool := fun _ => true) : List Idx :=
  match bucketIdx s b with
  | none => []
  | some m => wrapperFetched s (prefixWalk m pre off lim mt).1 lim now

/-- the directory after a read that fetched `idxs` -/
def afterRead (s : State) (idxs : List Idx) : State :=
  if s.opt.mode == 0 then s else { s with files := idxs.foldl (fun fs i => fileEnsure fs i.fid) s.files }

end Nuts.Model.DB
