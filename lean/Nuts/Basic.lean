/-
  Nuts.Basic — shared vocabulary of the nutsdb model.
  Core-only (no Mathlib): everything here is linked into the driver executable.
-/
namespace Nuts

/-- Byte strings. Go `[]byte` / `string` values are modelled as lists of bytes. -/
abbrev Bytes := List UInt8

/-- Result of an API call, by class only: the error *text* is never compared. -/
inductive Outcome (α : Type) where
  | ok (a : α)
  | err
  | panic
  deriving Repr, DecidableEq, Inhabited

namespace Outcome
def map {α β} (f : α → β) : Outcome α → Outcome β
  | ok a => ok (f a)
  | err => err
  | panic => panic

def isOk {α} : Outcome α → Bool
  | ok _ => true
  | _ => false

def isPanic {α} : Outcome α → Bool
  | panic => true
  | _ => false
end Outcome

/-- Two's-complement wrap to 64 bits (Go `int`, `int64`). -/
def wrap64 (x : Int) : Int := (x + 9223372036854775808) % 18446744073709551616 - 9223372036854775808

/-- Wrap to unsigned 64 bits (Go `uint64`). -/
def wrapU64 (x : Int) : Int := x % 18446744073709551616

def wrapU32 (x : Int) : Int := x % 4294967296

def inRange64 (x : Int) : Prop := -9223372036854775808 ≤ x ∧ x ≤ 9223372036854775807

instance (x : Int) : Decidable (inRange64 x) := by unfold inRange64; exact inferInstance

def minInt64 : Int := -9223372036854775808
def maxInt64 : Int := 9223372036854775807

/-! ### Lexicographic order on byte strings (= Go `bytes.Compare`) -/

/-- `bytes.Compare a b` as an `Ordering`. -/
def bcmp : Bytes → Bytes → Ordering
  | [], [] => .eq
  | [], _ :: _ => .lt
  | _ :: _, [] => .gt
  | a :: as, b :: bs =>
    if a < b then .lt else if b < a then .gt else bcmp as bs

/-- `bytes.Compare a b` as the Go integer -1/0/1. -/
def bcmpInt (a b : Bytes) : Int :=
  match bcmp a b with
  | .lt => -1
  | .eq => 0
  | .gt => 1

def blt (a b : Bytes) : Bool := bcmp a b == .lt
def ble (a b : Bytes) : Bool := bcmp a b != .gt

/-- `bytes.HasPrefix s p`. -/
def hasPrefix : Bytes → Bytes → Bool
  | _, [] => true
  | [], _ :: _ => false
  | a :: as, b :: bs => a == b && hasPrefix as bs

/-! ### Hex codec for the line protocol (`-` is the empty string) -/

def hexDigit (n : Nat) : Char :=
  if n < 10 then Char.ofNat (48 + n) else Char.ofNat (87 + n)

def hexOfBytes (b : Bytes) : String :=
  if b.isEmpty then "-" else
  String.ofList (b.flatMap fun x => [hexDigit (x.toNat / 16), hexDigit (x.toNat % 16)])

def hexVal (c : Char) : Option Nat :=
  if '0' ≤ c ∧ c ≤ '9' then some (c.toNat - 48)
  else if 'a' ≤ c ∧ c ≤ 'f' then some (c.toNat - 87)
  else none

def bytesOfHexAux : List Char → Option Bytes
  | [] => some []
  | [_] => none
  | a :: b :: rest => do
    let x ← hexVal a
    let y ← hexVal b
    let r ← bytesOfHexAux rest
    pure (UInt8.ofNat (16 * x + y) :: r)

def bytesOfHex (s : String) : Option Bytes :=
  if s == "-" then some [] else bytesOfHexAux s.toList

/-- Decimal rendering of a byte string that is ASCII (used for `strconv` packing). -/
def bytesOfString (s : String) : Bytes := s.toList.map fun c => UInt8.ofNat c.toNat

def showInt (i : Int) : String := toString i

/-- The separator byte `|` used to pack arguments into keys/values. -/
def sepByte : UInt8 := 124

end Nuts
