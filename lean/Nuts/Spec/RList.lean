/-
  Nuts.Spec.RList — Redis list semantics on `List α` with `Int` indexes (the oracle of C05).
-/
import Nuts.Basic
namespace Nuts.Spec.RList
open Nuts

/-- Redis index normalisation: negative indexes count from the tail. -/
def norm (n : Nat) (i : Int) : Int := if i < 0 then n + i else i

/-- normalised, clamped start index -/
def startIdx (n : Nat) (s : Int) : Int := if norm n s < 0 then 0 else norm n s
/-- normalised, clamped stop index -/
def stopIdx (n : Nat) (e : Int) : Int := if norm n e ≥ n then (n : Int) - 1 else norm n e

/-- `LRANGE`: normalise, clamp, empty when the range is empty. -/
def lrange {α} (l : List α) (s e : Int) : List α :=
  if startIdx l.length s > stopIdx l.length e then []
  else (l.drop (startIdx l.length s).toNat).take (stopIdx l.length e - startIdx l.length s + 1).toNat

/-- remove the first `n` elements equal to `v` (head to tail) -/
def removeN {α} [DecidableEq α] (l : List α) (v : α) (n : Nat) : List α :=
  match l, n with
  | [], _ => []
  | l, 0 => l
  | x :: xs, n + 1 => if x = v then removeN xs v n else x :: removeN xs v (n + 1)

def occurrences {α} [DecidableEq α] (l : List α) (v : α) : Nat := (l.filter (· = v)).length

/-- `LREM`: result list and number removed. -/
def lrem {α} [DecidableEq α] (l : List α) (count : Int) (v : α) : List α × Nat :=
  let occ := occurrences l v
  if count = 0 then (l.filter (· ≠ v), occ)
  else if count > 0 then (removeN l v count.toNat, min count.toNat occ)
  else ((removeN l.reverse v (-count).toNat).reverse, min (-count).toNat occ)

/-- `LSET` (in-range index only; Redis also errors when out of range). -/
def lset {α} (l : List α) (i : Int) (v : α) : Option (List α) :=
  let j := norm l.length i
  if 0 ≤ j ∧ j < l.length then some (l.set j.toNat v) else none

/-- The acceptance relation of C05: an implementation outcome is acceptable when it is the Redis
result, or an error in a case where the statement allows one (`errOk`), never a panic. -/
def Acceptable {α} (spec : α) (errOk : Bool) : Outcome α → Prop
  | .ok a => a = spec
  | .err => errOk = true
  | .panic => False

instance {α} [DecidableEq α] (spec : α) (errOk : Bool) (o : Outcome α) : Decidable (Acceptable spec errOk o) := by
  cases o <;> unfold Acceptable <;> exact inferInstance

end Nuts.Spec.RList
