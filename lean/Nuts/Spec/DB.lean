/-
  Nuts.Spec.DB — what the API means, as simply as possible (the oracle of C01–C08, C12, C13, C15):

  * a bucket of key/value pairs is a finite map key ↦ (value, timestamp, ttl); a pair is live when
    `ttl = 0 ∨ now < timestamp + ttl`; reads return the live pairs in ascending key order; paging
    skips / limits *live* pairs;
  * a list is a Redis list, a set a duplicate-free collection, a sorted set a list ordered by
    (score, key);
  * a write transaction applies its operations one after another to a working copy that its own
    reads see; Commit installs the copy, anything else discards it; read-only transactions and
    finished transactions change nothing;
  * Close/Open and Merge are the identity.

  Every operation yields an `Expect`: the exact result wanted, whether an error is also acceptable
  (where the statement allows errors: empty results, missing structures, out-of-range arguments),
  and alternative acceptable renderings.
-/
import Nuts.Basic
import Nuts.Model.DB
import Nuts.Spec.RList
namespace Nuts.Spec.DB
open Nuts
open Nuts.Model
open Nuts.Model.DB (Assoc aget? aput upsert)

structure SKV where
  value : Bytes
  ts : Nat
  ttl : Nat
  deriving Repr, DecidableEq, Inhabited

structure SpecDB where
  kv : Assoc (Assoc SKV) := []
  lists : Assoc (Assoc (List Bytes)) := []
  sets : Assoc (Assoc (List Bytes)) := []
  zsets : Assoc ZSetA.St := []
  deriving Inhabited

structure Expect where
  want : String
  errOk : Bool := false
  alts : List String := []
  deriving Inhabited

def Expect.accepts (e : Expect) (impl : String) : Bool :=
  impl == e.want || (impl == "err" && e.errOk) || e.alts.contains impl

def live (now : Nat) (e : SKV) : Bool := e.ttl == 0 || decide (now < e.ts + e.ttl)

def erase {α} (m : Assoc α) (k : Bytes) : Assoc α := m.filter (·.1 ≠ k)

/-! ### key/value -/

def kvPut (s : SpecDB) (b k v : Bytes) (ts ttl : Nat) : SpecDB :=
  { s with kv := aput s.kv b (upsert ((aget? s.kv b).getD []) k ⟨v, ts, ttl⟩) }

def kvDel (s : SpecDB) (b k : Bytes) : SpecDB :=
  { s with kv := aput s.kv b (erase ((aget? s.kv b).getD []) k) }

def liveOf (s : SpecDB) (b : Bytes) (now : Nat) : List (Bytes × Bytes) :=
  (((aget? s.kv b).getD []).filter fun p => live now p.2).map fun p => (p.1, p.2.value)

def kvGet (s : SpecDB) (b k : Bytes) (now : Nat) : Option Bytes :=
  ((liveOf s b now).find? (·.1 = k)).map (·.2)

/-- page through a list: skip `off`, then at most `lim` when `lim > 0` -/
def page {α} (l : List α) (off lim : Int) : List α :=
  let l := l.drop off.toNat
  if lim > 0 then l.take lim.toNat else l

/-! ### lists -/

def listGet (s : SpecDB) (b k : Bytes) : List Bytes := ((aget? s.lists b).bind (aget? · k)).getD []

def listPut (s : SpecDB) (b k : Bytes) (l : List Bytes) : SpecDB :=
  { s with lists := aput s.lists b (aput ((aget? s.lists b).getD []) k l) }

/-! ### sets -/

def setGet (s : SpecDB) (b k : Bytes) : List Bytes := ((aget? s.sets b).bind (aget? · k)).getD []

def setPut (s : SpecDB) (b k : Bytes) (m : List Bytes) : SpecDB :=
  { s with sets := aput s.sets b (aput ((aget? s.sets b).getD []) k m) }

def setInsert (m : List Bytes) (x : Bytes) : List Bytes := if m.contains x then m else m ++ [x]

/-! ### sorted sets -/

def zGet (s : SpecDB) (b : Bytes) : ZSetA.St := (aget? s.zsets b).getD []

def zPut (s : SpecDB) (b : Bytes) (z : ZSetA.St) : SpecDB := { s with zsets := aput s.zsets b z }

/-- score range without the header-sentinel quirk: members only -/
def zByScore (z : ZSetA.St) (a b : Int) (limit : Int) (exA exB : Bool) : List ZSetA.Node :=
  let lim : Nat := if limit > 0 then limit.toNat else 2147483647
  let rev := decide (a > b)
  let (lo, hi, exLo, exHi) := if rev then (b, a, exB, exA) else (a, b, exA, exB)
  let inR (n : ZSetA.Node) : Bool :=
    (if exLo then decide (n.score > lo) else decide (n.score ≥ lo)) &&
    (if exHi then decide (n.score < hi) else decide (n.score ≤ hi))
  let sel := z.filter inR
  ((if rev then sel.reverse else sel).take lim)

/-- rank range (1-based, negative from the end, clamped), in the order Redis returns it -/
def zByRank (z : ZSetA.St) (a b : Int) : List ZSetA.Node :=
  let n : Int := z.length
  let fix (x : Int) : Int := let y := if x < 0 then n + x + 1 else x; if y ≤ 0 then 1 else y
  let a' := fix a
  let b' := fix b
  let (lo, hi) := if a' > b' then (b', a') else (a', b')
  let sel := (z.drop (lo - 1).toNat).take (hi - lo + 1).toNat
  if a' > b' then sel.reverse else sel

end Nuts.Spec.DB
