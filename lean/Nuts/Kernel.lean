/-
  Nuts.Kernel — result type of the kernels that `tools/extract` generates from Go SSA.
-/
import Nuts.Basic
namespace Nuts

/-- Events recorded while a generated kernel runs: the operations that can panic in Go. -/
inductive KEv where
  | slice (site : Nat) (lo hi : Option Int)   -- `x[lo:hi]`
  | index (site : Nat) (i : Int)              -- `x[i]`
  | make (site : Nat) (len : Option Int)      -- `make([]T, len)`
  | div (site : Nat) (divisor : Int)          -- integer division / remainder
  | explicitPanic
  deriving Repr, DecidableEq, Inhabited

/-- Outcome of a kernel run: the events in execution order, the index of the basic block that
returned, and the integer / boolean results (booleans as 0/1; opaque results: 0 if the constant
`nil`, 1 otherwise). -/
structure KOut where
  events : List KEv
  ret : Nat
  vals : List Int
  deriving Repr, DecidableEq, Inhabited

def wrapU16 (x : Int) : Int := x % 65536
def wrapU8 (x : Int) : Int := x % 256
def wrap32 (x : Int) : Int := (x + 2147483648) % 4294967296 - 2147483648
def wrap16 (x : Int) : Int := (x + 32768) % 65536 - 32768
def wrap8 (x : Int) : Int := (x + 128) % 256 - 128

end Nuts
