/-
  Driver for suite `bpt-ds`: model = Nuts.Model.BPTree (insert with the Go split rules, Find, the scans
  along the leaf chain, the shape); spec = the sorted association list (upsert / lookup / filter).
-/
import Nuts.Driver.Common
import Nuts.Driver.DB
import Nuts.Model.BPTree
namespace Nuts.Driver.BPTSuite
open Nuts Nuts.Driver Nuts.Model.BPTree

structure St where
  t : Tree Bytes := none
  /-- the spec: sorted association list -/
  m : Nuts.Model.DB.Assoc Bytes := []

def showKVs (l : List (Bytes × Bytes)) : String := "ok [" ++ ",".intercalate (l.map fun p => hexOfBytes p.1 ++ "=" ++ hexOfBytes p.2) ++ "]"

def step (st : St) (cmd : String) (impl : String) : St × Verdict :=
  let f := words cmd
  let B (i : Nat) : Bytes := parseBytes (f.getD i "-")
  let I (i : Nat) : Int := parseInt (f.getD i "0")
  match f.headD "" with
  | "ins" =>
    ({ t := st.t.insert (B 1) (B 2), m := Nuts.Model.DB.upsert st.m (B 1) (B 2) }, { model := "ok", specOk := some (impl == "ok"), spec := "ok", cell := "ins" })
  | "find" =>
    let m := match st.t.find (B 1) with | some v => "ok " ++ hexOfBytes v | none => "err"
    let w := match Nuts.Model.DB.aget? st.m (B 1) with | some v => "ok " ++ hexOfBytes v | none => "err"
    (st, { model := m, specOk := some (impl == w), spec := w, cell := "find/" ++ resClass impl })
  | "range" =>
    let st0 := B 1; let en := B 2
    let m := if bcmp st0 en == .gt then "err" else (let l := st.t.range st0 en; if l.isEmpty then "err" else showKVs l)
    let wl := st.m.filter fun p => ble st0 p.1 && ble p.1 en
    let w := if bcmp st0 en == .gt || wl.isEmpty then "err" else showKVs wl
    (st, { model := m, specOk := some (impl == w), spec := w, cell := "range/" ++ resClass impl })
  | "all" =>
    let l := st.t.toList
    let m := if l.isEmpty then "err" else showKVs l
    let w := if st.m.isEmpty then "err" else showKVs st.m
    (st, { model := m, specOk := some (impl == w), spec := w, cell := "all/" ++ resClass impl })
  | "prefix" =>
    let (l, off) := st.t.prefixScan (B 1) (I 2) (I 3)
    let m := (if l.isEmpty then "err" else showKVs l) ++ s!" off={off}"
    -- spec: the keys with the prefix, in order, after skipping `offset` of them, at most `limit`
    let block := st.m.filter fun p => hasPrefix p.1 (B 1)
    let dropped := block.drop (I 2).toNat
    let wl := if I 3 > 0 then dropped.take (I 3).toNat else dropped
    let w := (if wl.isEmpty then "err" else showKVs wl)
    (st, { model := m, specOk := some ((impl.splitOn " off=").headD "" == w), spec := w, cell := "prefix/" ++ resClass ((impl.splitOn " off=").headD "") })
  | "psearch" =>
    let pre := B 1
    let rx := (f.getD 2 "0").toNat?.getD 0
    if DBSuite.rxBad rx then (st, { model := "err off=0", specOk := some (impl == "err off=0"), spec := "err", cell := "psearch/badrx" })
    else
      let (l, off) := st.t.prefixScan pre (I 3) (I 4) (fun k => DBSuite.rxMatch rx (k.drop pre.length))
      let m := (if l.isEmpty then "err" else showKVs l) ++ s!" off={off}"
      (st, { model := m, specOk := none, cell := "psearch/" ++ resClass ((impl.splitOn " off=").headD "") })
  | "shape" => (st, { model := st.t.shape, specOk := none, cell := "shape" })
  | _ => (st, { model := "bad-op", specOk := none })

end Nuts.Driver.BPTSuite
