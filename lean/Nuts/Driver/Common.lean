/-
  Nuts.Driver.Common — line protocol helpers shared by the suites of the driver executable.
  A trace line is `<op> <args…> => <implementation result>`; the driver prints one verdict line
  per trace line (see `Verdict.render`).
-/
import Nuts.Basic
namespace Nuts.Driver
open Nuts

/-- Verdict on one trace line. -/
structure Verdict where
  /-- canonical result of the model ("as coded") -/
  model : String
  /-- is the implementation's result acceptable to the spec?  `none` = the spec does not speak -/
  specOk : Option Bool
  /-- what the spec wanted (for messages) -/
  spec : String := ""
  /-- guard status: `in-guard` or `finding:<id>` -/
  tag : String := "in-guard"
  /-- coverage cell for the evidence (op kind / outcome class / branch) -/
  cell : String := ""

def splitLine (line : String) : String × String :=
  match line.splitOn " => " with
  | [a, b] => (a, b)
  | [a] => (a, "")
  | a :: rest => (a, " => ".intercalate rest)
  | [] => ("", "")

def words (s : String) : List String := (s.splitOn " ").filter (· ≠ "")

def parseBytes (s : String) : Bytes := (bytesOfHex s).getD []

def stripBrackets (s : String) (l r : Char) : String :=
  let cs := s.toList
  let cs := match cs with
    | c :: rest => if c == l then rest else cs
    | [] => []
  let cs := match cs.reverse with
    | c :: rest => if c == r then rest.reverse else cs
    | [] => []
  String.ofList cs

def parseList (s : String) : List Bytes :=
  let inner := stripBrackets s '[' ']'
  if inner == "" then [] else (inner.splitOn ",").map parseBytes

def showList (l : List Bytes) : String := "[" ++ ",".intercalate (l.map hexOfBytes) ++ "]"

def parseInt (s : String) : Int := s.toInt?.getD 0

def showOutcome {α} (f : α → String) : Outcome α → String
  | .ok a => let s := f a; if s == "" then "ok" else "ok " ++ s
  | .err => "err"
  | .panic => "panic"

/-- the outcome class of an implementation result string -/
def resClass (r : String) : String :=
  if r == "ok" || r.startsWith "ok " then "ok" else r

def resPayload (r : String) : String :=
  if r.startsWith "ok " then (r.drop 3).toString else ""

/-- insertion sort by key (canonical order for dumps) -/
def insertSorted {α} (lt : α → α → Bool) (x : α) : List α → List α
  | [] => [x]
  | y :: ys => if lt x y then x :: y :: ys else y :: insertSorted lt x ys

def sortBy {α} (lt : α → α → Bool) (l : List α) : List α := l.foldr (insertSorted lt) []

end Nuts.Driver
