/-
  Driver for suite `db` (RAM index modes): model = Nuts.Model.DB/Tx. Rendering of results is the
  canonical form that tools/harness/suite_db.go prints for the implementation.
-/
import Nuts.Driver.Common
import Nuts.Model.Tx
import Nuts.Driver.DBSpec
namespace Nuts.Driver.DBSuite
open Nuts Nuts.Driver
open Nuts.Model Nuts.Model.DB

structure St where
  db : State := {}
  tx : Option Tx := none
  sp : DBSpec.SpecSt := {}
  /-- armed write fault for the next commit: index of the record whose write fails -/
  fault : Option Nat := none
  /-- armed sync fault for the next commit: index of the record after whose write `Sync` fails -/
  sfault : Option Nat := none
  /-- `SyncEnable` of the last `open` line (the database model forgets it: C19) -/
  syncOn : Bool := false
  /-- `backup <n>`: the data files and the spec state at that moment (the copy is opened later) -/
  backups : List (Nat × List File × Nuts.Spec.DB.SpecDB) := []
  deriving Inhabited

def showRec (o : Option Rec) : String :=
  match o with
  | none => "nil"
  | some r => hexOfBytes r.key ++ "=" ++ hexOfBytes r.value

/-- timestamp and TTL of the record a `Get` returns -/
def showMeta (o : Option Rec) : String :=
  match o with
  | none => "nil"
  | some r => toString r.ts ++ "/" ++ toString r.ttl

def showRecs (l : List (Option Rec)) : String := "[" ++ ",".intercalate (l.map showRec) ++ "]"

def sortBytes (l : List Bytes) : List Bytes := sortBy blt l

def showSorted (l : List Bytes) : String := showList (sortBytes l)

def showNode (n : ZSetA.Node) : String := hexOfBytes n.key ++ ":" ++ toString n.score ++ ":" ++ hexOfBytes n.value

def showNodes (l : List ZSetA.Node) : String := "[" ++ ",".intercalate (l.map showNode) ++ "]"

def showONode (o : Option ZSetA.Node) : String := match o with | none => "nil" | some n => showNode n

/-- the fixed universe of the full observation -/
def obsBuckets : List Bytes := [[97], [97, 98], [98], [], [97, 124, 98]]
def obsKeys : List Bytes := [[97], [97, 98], [97, 98, 99], [98], [98, 97], [107], [255]]

/-- `needle` occurs in `l` as a contiguous block -/
def hasInfix (l needle : List UInt8) : Bool :=
  match l with
  | [] => needle.isEmpty
  | _ :: t => needle.isPrefixOf l || hasInfix t needle

/-- the invalid expression of the fixed set -/
def rxBad (i : Nat) : Bool := i == 4 || i ≥ 10

/-- regular expressions of the fixed set (index ↦ matcher on the key remainder); 4 is invalid -/
def rxMatch (i : Nat) (rem : Bytes) : Bool :=
  match i with
  | 0 => true                               -- ".*"
  | 1 => rem.head? == some 98               -- "^b"
  | 2 => rem.getLast? == some 99            -- "c$"
  | 3 => rem.isEmpty                        -- "^$"
  | 5 => rem == [98]                        -- "^b$"
  | 6 => rem == [97, 98]                    -- "^ab$"
  | 7 => rem.contains 98                    -- "b"
  | 8 => hasInfix rem [97, 98]              -- "ab"
  | 9 => rem.head? == some 97 && rem.getLast? == some 99 && rem.length ≥ 2 && !rem.contains 10  -- "^a.*c$"
  | _ => false

def obs (s : State) (now : Nat) : String :=
  let kv := obsBuckets.map fun b => hexOfBytes b ++ ":" ++ showOutcome showRecs (getAll s b now)
  let ls := obsBuckets.flatMap fun b => obsKeys.filterMap fun k =>
    match aget? s.lists b with
    | none => none
    | some l => match ListDS.get? l k with
      | none => none
      | some items => some (hexOfBytes b ++ "/" ++ hexOfBytes k ++ ":" ++ showList items)
  let ss := obsBuckets.flatMap fun b => obsKeys.filterMap fun k =>
    match aget? s.sets b with
    | none => none
    | some m => match SetDS.get? m k with
      | none => none
      | some items => some (hexOfBytes b ++ "/" ++ hexOfBytes k ++ ":" ++ showSorted items)
  let zs := obsBuckets.filterMap fun b =>
    match aget? s.zsets b with
    | none => none
    | some z => some (hexOfBytes b ++ ":" ++ showNodes z)
  "kv{" ++ ";".intercalate kv ++ "} list{" ++ ";".intercalate ls ++ "} set{" ++ ";".intercalate ss ++ "} zset{" ++ ";".intercalate zs ++ "}"

def parseNat (s : String) : Nat := s.toNat?.getD 0

/-- score text (`strconv.FormatFloat(x,'f',-1,64)` of a multiple of 1/4) to quarter units -/
def parseScoreQ (b : Bytes) : Int :=
  let str := String.ofList (b.map fun x => Char.ofNat x.toNat)
  let (neg, body) := if str.startsWith "-" then (true, (str.drop 1).toString) else (false, str)
  let parts := body.splitOn "."
  let whole := (parts.headD "0").toNat?.getD 0
  let frac := match parts.getD 1 "" with
    | "25" => 1 | "5" => 2 | "75" => 3 | _ => 0
  let q : Int := (whole * 4 + frac : Nat)
  if neg then -q else q

/-- parse `off:flag:ds:status:txid:ts:ttl:bucket/key=value` -/
def parseRecLine (t : String) : Option (Nat × Rec) :=
  match t.splitOn ":" with
  | [o, fl, ds, st, tx, ts, ttl, rest] =>
    match rest.splitOn "/" with
    | [b, kv] =>
      match kv.splitOn "=" with
      | [k, vv] =>
        let key := parseBytes k
        let flag := parseNat fl
        let score := if flag == flagZAdd then (match splitSep key with | _ :: sc :: _ => parseScoreQ sc | _ => 0) else 0
        some (parseNat o, { bucket := parseBytes b, key := key, value := parseBytes vv, ts := parseNat ts, ttl := parseNat ttl, flag := flag,
                            ds := parseNat ds, txid := parseNat tx, status := parseNat st, score := score })
      | _ => none
    | _ => none
  | _ => none

/-- parse a file listing `fid{rec,rec,…};fid{…}`; an item `off:readerr` marks a torn tail -/
def parseFiles (t : String) : List File :=
  if t == "" then [] else
  (t.splitOn ";").filterMap fun f =>
    match f.splitOn "{" with
    | [fid, body] =>
      let body := (body.dropEnd 1).toString
      let items := if body == "" then [] else body.splitOn ","
      some { fid := parseNat fid, recs := items.filterMap parseRecLine, torn := items.any fun i => i.endsWith "readerr" }
    | _ => none

def v (model : String) (cell : String) (tag : String := "in-guard") : Verdict :=
  { model := model, specOk := none, cell := cell, tag := tag }

def unitOut (o : Outcome Unit) : String := showOutcome (fun _ => "") o

/-- result class used in coverage cells -/
def cls (s : String) : String := resClass s

def stepModel (st : St) (cmd : String) (impl : String) : St × Verdict :=
  let f := words cmd
  let op := f.headD ""
  let a (i : Nat) : String := f.getD i "-"
  let B (i : Nat) : Bytes := parseBytes (a i)
  let I (i : Nat) : Int := parseInt (a i)
  let N (i : Nat) : Nat := parseNat (a i)
  let s := st.db
  let c := cls impl
  -- the transaction the call is made on (a closed dummy when none is open)
  let t : Tx := st.tx.getD { id := 0, writable := false, closed := true }
  let setTx (t' : Tx) : St := { st with tx := if st.tx.isSome then some t' else none }
  -- key-only mode: a read leaves an empty file behind for every fetched record whose file is missing
  let rd (idxs : List Idx) : St := { st with db := afterRead s idxs }
  match op with
  | "open" =>
    let opt : Opts := { mode := N 1, rw := N 2, startRw := N 3, sync := N 4 == 1, seg := N 5 }
    let (s', o) := openDB opt s.files
    match o with
    | .ok _ => ({ st with db := s', tx := none, syncOn := opt.sync }, v "ok" s!"open/{c}")
    | _ => ({ st with db := { s with opt := opt, opened := false }, tx := none, syncOn := opt.sync }, v (unitOut o) s!"open/{c}")
  | "begin" =>
    if s.closed || !s.opened then (st, v "err" s!"begin/{c}")
    else
      -- the transaction id is an input (clock-derived): taken from the implementation's answer
      let id := parseNat (resPayload impl)
      ({ st with tx := some { id := id, writable := a 1 == "w" } }, v impl s!"begin/{a 1}")
  | "commit" =>
    match st.tx with
    | none => (st, v "err" s!"commit/none")
    | some t =>
      if t.closed then (st, v "err" "commit/closed")
      else
        let (s', o) := if !t.writable then (s, .ok ())
          else match st.sfault with
            | some k => if st.syncOn then commitS s t.pending k else commitF s t.pending st.fault
            | none => commitF s t.pending st.fault
        ({ st with db := s', tx := some { t with closed := true, pending := [] }, fault := none, sfault := none },
          v (unitOut o) (s!"commit/{c}/{t.pending.length}" ++ (if st.fault.isSome then "/fault" else "") ++ (if st.sfault.isSome then "/sfault" else "")))
  | "rollback" =>
    match st.tx with
    | none => (st, v "err" "rollback/none")
    | some t =>
      if t.closed then (st, v "err" "rollback/closed")
      else ({ st with tx := some { t with closed := true, pending := [] } }, v "ok" "rollback/ok")
  | "close" =>
    if s.closed || !s.opened then (st, v "err" "close/err")
    else ({ st with db := { s with closed := true, kv := [] } }, v "ok" "close/ok")
  | "merge" =>
    let idsStr := match impl.splitOn "txids=" with | [_, x] => x | _ => "[]"
    let txids := (parseList idsStr).map fun b => (String.ofList (b.map fun x => Char.ofNat x.toNat)).toNat?.getD 0
    let (s', o) := merge s (N 1) txids
    let m := (match o with | .ok _ => "ok" | .err => "err" | .panic => "panic") ++ " txids=" ++ idsStr
    ({ st with db := s' }, v m s!"merge/{(impl.splitOn " ").headD ""}")
  | "obs" => (rd (obsBuckets.flatMap fun b => getAllFetched s b (N 1)), v ("ok " ++ obs s (N 1)) "obs")
  | "capture" => (st, v "ok" "capture")
  | "fault" => ({ st with fault := some (N 1) }, v "ok" "fault")
  | "sfault" => ({ st with sfault := some (N 1) }, v "ok" "sfault")
  | "concmerge" => (st, v "ok" "concmerge")
  | "image" =>
    -- the crash image is an input (its record listing comes from the implementation's own reader);
    -- the model predicts what Open does with it and what is observed afterwards
    let payload := resPayload impl
    let field (name : String) : String := match payload.splitOn (name ++ "=") with
      | _ :: x :: _ => (x.splitOn " ").headD ""
      | _ => ""
    let fsL := parseFiles (field "files")
    let (s', o) := openDB s.opt fsL
    let now := N 2
    let pred := match o with
      | .ok _ => "open=ok obs=" ++ obs s' now
      | .err => "open=err"
      | .panic => "open=panic"
    let head := match payload.splitOn " open=" with | h :: _ => h | [] => ""
    (st, v ("ok " ++ head ++ " " ++ pred) s!"image/{field "event"}/{field "open"}")
  | "backup" =>
    if s.closed || !s.opened then (st, v "err" "backup/err")
    else ({ st with backups := (N 1, s.files, st.sp.committed) :: st.backups }, v "ok" "backup/ok")
  | "backupobs" =>
    -- the copy made by Backup (at `backup <n>`, or — concurrent runs — at this point of the serial order):
    -- it must open and show the state of that moment
    let files := match st.backups.find? (·.1 == N 1) with | some b => b.2.1 | none => s.files
    let (s', o) := openDB s.opt files
    let pred := match o with
      | .ok _ => "open=ok obs=" ++ obs s' (N 2)
      | .err => "open=err"
      | .panic => "open=panic"
    (st, v ("ok " ++ pred) "backupobs")
  | "files" =>
    let showF (f : File) : String := toString f.fid ++ "{" ++ ",".intercalate (f.recs.map fun (o, r) =>
      s!"{o}:{r.flag}:{r.ds}:{r.status}:{r.txid}:{r.ts}:{r.ttl}:" ++ hexOfBytes r.bucket ++ "/" ++ hexOfBytes r.key ++ "=" ++ hexOfBytes r.value) ++ "}"
    (st, v ("ok " ++ ";".intercalate (s.files.map showF)) "files")
  -- ---------------- KV
  | "put" =>
    let (t', o) := if t.closed then (t, Outcome.err) else txPut t (mkRec (B 1) (B 2) (B 3) flagSet dsKV (N 5) (N 4))
    (setTx t', v (unitOut o) s!"put/{c}")
  | "del" =>
    let (t', o) := if t.closed then (t, Outcome.err) else txPut t (mkRec (B 1) (B 2) [] flagDelete dsKV (N 3) 0)
    (setTx t', v (unitOut o) s!"del/{c}")
  | "get" =>
    let o := if t.closed then Outcome.err else get s (B 1) (B 2) (N 3)
    (rd (if t.closed then [] else getFetched s (B 1) (B 2) (N 3)), v (showOutcome showRec o) s!"get/{c}")
  | "getmeta" =>
    let o := if t.closed then Outcome.err else get s (B 1) (B 2) (N 3)
    (rd (if t.closed then [] else getFetched s (B 1) (B 2) (N 3)), v (showOutcome showMeta o) s!"getmeta/{c}")
  | "getall" =>
    let o := if t.closed then Outcome.err else getAll s (B 1) (N 2)
    (rd (if t.closed then [] else getAllFetched s (B 1) (N 2)), v (showOutcome showRecs o) s!"getall/{c}")
  | "range" =>
    let o := if t.closed then Outcome.err else rangeScan s (B 1) (B 2) (B 3) (N 4)
    (rd (if t.closed then [] else rangeFetched s (B 1) (B 2) (B 3) (N 4)), v (showOutcome showRecs o) s!"range/{c}")
  | "prefix" =>
    let o := if t.closed then Outcome.err else prefixScan s (B 1) (B 2) (I 3) (I 4) (N 5)
    (rd (if t.closed then [] else prefixFetched s (B 1) (B 2) (I 3) (I 4) (N 5)), v (showOutcome showRecs o) s!"prefix/{c}")
  | "psearch" =>
    let pre := B 2
    let rx := N 3
    let o := if t.closed then Outcome.err
      else if rxBad rx then Outcome.err
      else prefixScan s (B 1) pre (I 4) (I 5) (N 6) (fun k => rxMatch rx (k.drop pre.length))
    (rd (if t.closed || rxBad rx then [] else prefixFetched s (B 1) pre (I 4) (I 5) (N 6) (fun k => rxMatch rx (k.drop pre.length))),
      v (showOutcome showRecs o) s!"psearch/{c}/{rx}")
  -- ---------------- lists
  | "rpush" => let (t', o) := txRPush t (B 1) (B 2) (parseList (a 3)) (N 4) false; (setTx t', v (unitOut o) s!"rpush/{c}")
  | "lpush" => let (t', o) := txRPush t (B 1) (B 2) (parseList (a 3)) (N 4) true; (setTx t', v (unitOut o) s!"lpush/{c}")
  | "lpop" => let (t', o) := txPop s t (B 1) (B 2) (N 3) true; (setTx t', v (showOutcome hexOfBytes o) s!"lpop/{c}")
  | "rpop" => let (t', o) := txPop s t (B 1) (B 2) (N 3) false; (setTx t', v (showOutcome hexOfBytes o) s!"rpop/{c}")
  | "lpeek" => (st, v (showOutcome hexOfBytes (txPeek s t (B 1) (B 2) true)) s!"lpeek/{c}")
  | "rpeek" => (st, v (showOutcome hexOfBytes (txPeek s t (B 1) (B 2) false)) s!"rpeek/{c}")
  | "lsize" => (st, v (showOutcome toString (txLSize s t (B 1) (B 2))) s!"lsize/{c}")
  | "lrange" => (st, v (showOutcome showList (txLRange s t (B 1) (B 2) (I 3) (I 4))) s!"lrange/{c}")
  | "lrem" => let (t', o) := txLRem s t (B 1) (B 2) (I 3) (B 4) (N 5); (setTx t', v (showOutcome toString o) s!"lrem/{c}")
  | "lset" => let (t', o) := txLSet s t (B 1) (B 2) (I 3) (B 4) (N 5); (setTx t', v (unitOut o) s!"lset/{c}")
  | "ltrim" => let (t', o) := txLTrim s t (B 1) (B 2) (I 3) (I 4) (N 5); (setTx t', v (unitOut o) s!"ltrim/{c}")
  -- ---------------- sets
  | "sadd" => let (t', o) := txSAdd t (B 1) (B 2) (parseList (a 3)) (N 4) false; (setTx t', v (unitOut o) s!"sadd/{c}")
  | "srem" => let (t', o) := txSAdd t (B 1) (B 2) (parseList (a 3)) (N 4) true; (setTx t', v (unitOut o) s!"srem/{c}")
  | "spop" =>
    let pick := if c == "ok" then some (parseBytes (resPayload impl)) else
      -- an error from a read-only transaction still reveals nothing about the pick: use any member
      ((setOf s (B 1)).bind fun m => (SetDS.get? m (B 2)).bind fun l => l.head?)
    let (t', o) := txSPop s t (B 1) (B 2) pick (N 3)
    (setTx t', v (showOutcome hexOfBytes o) s!"spop/{c}")
  | "sismember" =>
    let o : Outcome Bool := if t.closed then .err else match setOf s (B 1) with
      | none => .err
      | some m => if SetDS.sismember m (B 2) (B 3) then .ok true else .err
    (st, v (showOutcome toString o) s!"sismember/{c}")
  | "saremembers" =>
    let o : Outcome Bool := if t.closed then .err else match setOf s (B 1) with
      | none => .err
      | some m => SetDS.saremembers m (B 2) (parseList (a 3))
    (st, v (showOutcome toString o) s!"saremembers/{c}")
  | "smembers" =>
    let o : Outcome (List Bytes) := if t.closed then .err else match setOf s (B 1) with
      | none => .err
      | some m => SetDS.smembers m (B 2)
    (st, v (showOutcome showSorted o) s!"smembers/{c}")
  | "scard" =>
    let o : Outcome Nat := if t.closed then .err else match setOf s (B 1) with
      | none => .err
      | some m => .ok (SetDS.scard m (B 2))
    (st, v (showOutcome toString o) s!"scard/{c}")
  | "shaskey" =>
    let o : Outcome Bool := if t.closed then .err else match setOf s (B 1) with
      | none => .err
      | some m => .ok (SetDS.shaskey m (B 2))
    (st, v (showOutcome toString o) s!"shaskey/{c}")
  | "sdiff1" =>
    let o : Outcome (List Bytes) := if t.closed then .err else match setOf s (B 1) with
      | none => .err
      | some m => SetDS.sdiff m (B 2) (B 3)
    (st, v (showOutcome showSorted o) s!"sdiff1/{c}")
  | "sunion1" =>
    let o : Outcome (List Bytes) := if t.closed then .err else match setOf s (B 1) with
      | none => .err
      | some m => SetDS.sunion m (B 2) (B 3)
    (st, v (showOutcome showSorted o) s!"sunion1/{c}")
  | "sdiff2" =>
    -- SDiffByTwoBuckets does not test that the keys exist: missing keys are empty sets
    let o : Outcome (List Bytes) := if t.closed then .err else match setOf s (B 1), setOf s (B 3) with
      | some m1, some m2 =>
        let x := (SetDS.get? m1 (B 2)).getD []
        let y := (SetDS.get? m2 (B 4)).getD []
        .ok (x.filter fun e => !y.contains e)
      | _, _ => .err
    (st, v (showOutcome showSorted o) s!"sdiff2/{c}")
  | "sunion2" =>
    let o : Outcome (List Bytes) := if t.closed then .err else match setOf s (B 1), setOf s (B 3) with
      | some m1, some m2 =>
        match SetDS.get? m1 (B 2), SetDS.get? m2 (B 4) with
        | some x, some y => .ok (x ++ y.filter fun e => !x.contains e)
        | _, _ => .err
      | _, _ => .err
    (st, v (showOutcome showSorted o) s!"sunion2/{c}")
  | "smove1" =>
    let (s', o) := txSMove1 s t (B 1) (B 2) (B 3) (B 4)
    ({ st with db := s' }, v (showOutcome toString o) s!"smove1/{c}")
  | "smove2" =>
    let (s', o) := txSMove2 s t (B 1) (B 2) (B 3) (B 4) (B 5)
    ({ st with db := s' }, v (showOutcome toString o) s!"smove2/{c}")
  -- ---------------- sorted sets
  | "zadd" => let (t', o) := txZAdd t (B 1) (B 2) (I 3) (B 4) (B 5) (N 6); (setTx t', v (unitOut o) s!"zadd/{c}")
  | "zrem" => let (t', o) := txZRem s t (B 1) (B 2) (N 3); (setTx t', v (unitOut o) s!"zrem/{c}")
  | "zremrank" => let (t', o) := txZRemRangeByRank s t (B 1) (I 2) (I 3) (N 4); (setTx t', v (unitOut o) s!"zremrank/{c}")
  | "zpopmax" => let (t', o) := txZPop s t (B 1) (N 2) true; (setTx t', v (showOutcome showONode o) s!"zpopmax/{c}")
  | "zpopmin" => let (t', o) := txZPop s t (B 1) (N 2) false; (setTx t', v (showOutcome showONode o) s!"zpopmin/{c}")
  | "zpeekmax" =>
    let o : Outcome (Option ZSetA.Node) := if t.closed then .err else match zsetOf s (B 1) with
      | none => .err
      | some z => .ok z.getLast?
    (st, v (showOutcome showONode o) s!"zpeekmax/{c}")
  | "zpeekmin" =>
    let o : Outcome (Option ZSetA.Node) := if t.closed then .err else match zsetOf s (B 1) with
      | none => .err
      | some z => .ok z.head?
    (st, v (showOutcome showONode o) s!"zpeekmin/{c}")
  | "zmembers" =>
    let o : Outcome (List ZSetA.Node) := if t.closed then .err else match zsetOf s (B 1) with
      | none => .err
      | some z => .ok (sortBy (fun x y => blt x.key y.key) z)
    (st, v (showOutcome showNodes o) s!"zmembers/{c}")
  | "zcard" =>
    let o : Outcome Nat := if t.closed then .err else match zsetOf s (B 1) with
      | none => .err
      | some z => .ok z.length
    (st, v (showOutcome toString o) s!"zcard/{c}")
  | "zrangebyscore" | "zcount" =>
    -- args: bucket start end opts(0/1) limit exStart exEnd
    let hasOpts := N 4 == 1
    let o : Outcome (List ZSetA.Node) := if t.closed then .err else match zsetOf s (B 1) with
      | none => .err
      | some z => .ok (ZSetA.getByScoreRange z (I 2) (I 3) (if hasOpts then I 5 else 0) (hasOpts && N 6 == 1) (hasOpts && N 7 == 1))
    if op == "zcount" then (st, v (showOutcome (fun l => toString l.length) o) s!"zcount/{c}")
    else (st, v (showOutcome showNodes o) s!"zrangebyscore/{c}")
  | "zrangebyrank" =>
    let o : Outcome (List ZSetA.Node) := if t.closed then .err else match zsetOf s (B 1) with
      | none => .err
      | some z => .ok (ZSetA.getByRankRange z (I 2) (I 3) false).1
    (st, v (showOutcome showNodes o) s!"zrangebyrank/{c}")
  | "zrank" | "zrevrank" =>
    let k := B 2
    match (if t.closed then none else zsetOf s (B 1)) with
    | none => (st, v "err" s!"{op}/{c}")
    | some z =>
      let r := ZSetA.rankOf z k
      let want := if op == "zrank" then r else (if z.isEmpty || r == 0 then 0 else z.length - r + 1)
      (st, v s!"ok {want}" s!"{op}/{c}")
  | "zscore" =>
    let o : Outcome Int := if t.closed then .err else match zsetOf s (B 1) with
      | none => .err
      | some z => match ZSetA.find? z (B 2) with
        | some n => .ok n.score
        | none => .err
    (st, v (showOutcome toString o) s!"zscore/{c}")
  | "zgetbykey" =>
    let o : Outcome ZSetA.Node := if t.closed then .err else match zsetOf s (B 1) with
      | none => .err
      | some z => match ZSetA.find? z (B 2) with
        | some n => .ok n
        | none => .err
    (st, v (showOutcome showNode o) s!"zgetbykey/{c}")
  | _ => (st, v "bad-op" "bad-op")

/-- model step, then the spec's judgement of the implementation's answer and the guard tag -/
def step (st : St) (cmd : String) (impl : String) : St × Verdict :=
  let (st1, vm) := stepModel st cmd impl
  let out := DBSpec.step st.sp st.db cmd impl
  let taints := match out.taint with
    | some t => if out.st.taints.contains t || !out.sticky then out.st.taints else t :: out.st.taints
    | none => out.st.taints
  let sp1 := { out.st with taints := taints }
  let specOk := out.expect.map fun e => e.accepts impl
  -- a tag set by the model side (layout-dependent answers) is kept
  let tag := if vm.tag != "in-guard" then vm.tag
    else match out.taint with
      | some t => "finding:" ++ t
      | none => if specOk == some false then (match taints with | t :: _ => "finding:" ++ t | [] => "in-guard") else "in-guard"
  -- after an explained divergence the spec continues from the abstraction of the model state
  let op := (words cmd).headD ""
  let resync := specOk == some false && tag != "in-guard" && vm.model == impl &&
    (op == "obs" || op == "open" || op == "commit" || op == "rollback" || op == "merge")
  let sp2 := if resync then { sp1 with committed := DBSpec.abs st1.db } else sp1
  -- Merge running concurrently (C17): a KV read that shows a stale, previously committed value is the
  -- known finding D-MERGE-NOLOCK; the model cannot predict it, so the answer is taken as an input
  let a1 := parseBytes ((words cmd).getD 1 "-")
  let want := (out.expect.map (·.want)).getD ""
  let staleRead := sp1.concMerge && specOk == some false && vm.model != impl &&
    (op == "get" || op == "getall" || op == "range" || op == "prefix" || op == "psearch") &&
    DBSpec.staleExplains sp1.hist a1 (DBSpec.parsePairs (if op == "get" then "[" ++ resPayload impl ++ "]" else resPayload impl))
      (DBSpec.parsePairs (if op == "get" then "[" ++ resPayload want ++ "]" else resPayload want))
      (DBSpec.parsePairs (if op == "get" then "[" ++ resPayload vm.model ++ "]" else resPayload vm.model))
  -- the converse: the implementation's answer is what the spec demands and the sequential model (which
  -- has to place the unlocked Merge somewhere in the lock-acquisition order) differs: the spec is the judge
  let modelOff := sp1.concMerge && specOk == some true && vm.model != impl &&
    (op == "get" || op == "getall" || op == "range" || op == "prefix" || op == "psearch")
  if modelOff then
    ({ st1 with sp := sp2 }, { vm with model := impl, specOk := specOk, spec := want, tag := tag })
  else
  if staleRead || (sp1.concMerge && op == "obs") then
    ({ st1 with sp := sp2 }, { vm with model := impl, specOk := if op == "obs" then none else specOk, spec := want, tag := "finding:D-MERGE-NOLOCK" })
  else
  ({ st1 with sp := sp2 }, { vm with specOk := specOk, spec := want, tag := tag })

end Nuts.Driver.DBSuite
