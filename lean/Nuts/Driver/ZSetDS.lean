/-
  Driver for suite `zset-ds`: model = Nuts.Model.Skiplist (the skiplist of ds/zset with its spans, fed the
  random level of each new node by the harness), spec = Nuts.Model.ZSetA (the list ordered by (score, key)).
  After every mutation the harness asks for a dump: the model's levels, spans and derived pointers against
  `VerifDump`, and the members in order against the spec.
-/
import Nuts.Driver.Common
import Nuts.Model.Skiplist
namespace Nuts.Driver.ZSetSuite
open Nuts Nuts.Driver Nuts.Model

structure St where
  sl : Skiplist.SL := {}
  z : ZSetA.St := []

def showNode (n : ZSetA.Node) : String := s!"{hexOfBytes n.key}:{n.score}:{hexOfBytes n.value}"
def showONode : Option ZSetA.Node → String
  | none => "nil"
  | some n => showNode n
def showNodes (l : List ZSetA.Node) : String := "[" ++ ",".intercalate (l.map showNode) ++ "]"

/-- the height the implementation drew for the node it just created: `ok h=<n>` (`h=0`: no node was created) -/
def parseH (impl : String) : Option Nat :=
  match impl.splitOn "h=" with
  | [_, n] => n.toNat?
  | _ => none

def step (st : St) (cmd : String) (impl : String) : St × Verdict :=
  let f := words cmd
  let B (i : Nat) : Bytes := parseBytes (f.getD i "-")
  let I (i : Nat) : Int := parseInt (f.getD i "0")
  let both (m w : String) (cell : String) : Verdict := { model := m, specOk := some (impl == w), spec := w, cell := cell }
  match f.headD "" with
  | "put" =>
    match parseH impl with
    | none => (st, { model := "bad-h", specOk := none, cell := "put/bad" })
    | some h =>
      let fresh := match Skiplist.find? st.sl (B 1) with | some n => decide (n.score ≠ I 2) | none => true
      -- a node is created exactly when the key is new or its score changes
      if fresh && (h == 0 || h > 32) then (st, { model := "ok h=1..32", specOk := none, cell := "put/bad-h" })
      else if !fresh && h != 0 then (st, { model := "ok h=0", specOk := none, cell := "put/bad-h" })
      else
        ({ sl := Skiplist.put st.sl (B 1) (I 2) (B 3) h, z := ZSetA.put st.z (B 1) (I 2) (B 3) },
         { model := impl, specOk := some true, cell := s!"put/h{h}" })
  | "rem" =>
    let (sl', o) := Skiplist.remove st.sl (B 1)
    let w := showONode (ZSetA.find? st.z (B 1))
    ({ sl := sl', z := ZSetA.remove st.z (B 1) }, both (showONode o) w s!"rem/{if o.isSome then "hit" else "miss"}")
  | "popmin" =>
    let (sl', o) := Skiplist.popMin st.sl
    let (w, z') := ZSetA.popMin st.z
    ({ sl := sl', z := z' }, both (showONode o) (showONode w) "popmin")
  | "popmax" =>
    let (sl', o) := Skiplist.popMax st.sl
    let (w, z') := ZSetA.popMax st.z
    ({ sl := sl', z := z' }, both (showONode o) (showONode w) "popmax")
  | "peekmin" => (st, both (showONode (Skiplist.peekMin st.sl)) (showONode st.z.head?) "peekmin")
  | "peekmax" => (st, both (showONode (Skiplist.peekMax st.sl)) (showONode st.z.getLast?) "peekmax")
  | "rankrange" =>
    let rm := f.getD 3 "0" == "1"
    let (sl', ns) := Skiplist.getByRankRange st.sl (I 1) (I 2) rm
    let (ws, z') := ZSetA.getByRankRange st.z (I 1) (I 2) rm
    ({ sl := sl', z := z' }, both (showNodes ns) (showNodes ws) s!"rankrange/{if rm then "rm" else "ro"}/{if ns.isEmpty then "empty" else "some"}")
  | "scorerange" =>
    let exA := f.getD 4 "0" == "1"
    let exB := f.getD 5 "0" == "1"
    let ns := Skiplist.getByScoreRange st.sl (I 1) (I 2) (I 3) exA exB
    let ws := ZSetA.getByScoreRange st.z (I 1) (I 2) (I 3) exA exB
    (st, both (showNodes ns) (showNodes ws) s!"scorerange/{if I 1 > I 2 then "rev" else "fwd"}/{if ns.isEmpty then "empty" else "some"}")
  | "rank" =>
    (st, both (toString (Skiplist.findRank st.sl (B 1))) (toString (ZSetA.rankOf st.z (B 1))) "rank")
  | "revrank" =>
    let r := ZSetA.rankOf st.z (B 1)
    let w := if st.z.isEmpty || r == 0 then 0 else st.z.length - r + 1
    (st, both (toString (Skiplist.findRevRank st.sl (B 1))) (toString w) "revrank")
  | "get" => (st, both (showONode (Skiplist.find? st.sl (B 1))) (showONode (ZSetA.find? st.z (B 1))) "get")
  | "size" => (st, both (toString st.sl.length) (toString st.z.length) "size")
  | "dump" =>
    let m := Skiplist.dump st.sl ++ " | " ++ showNodes (Skiplist.nodes st.sl)
    let members := ((impl.splitOn " | ").getD 1 "")
    (st, { model := m, specOk := some (members == showNodes st.z), spec := showNodes st.z, cell := s!"dump/level{st.sl.level}" })
  | _ => (st, { model := "bad-op", specOk := none })

end Nuts.Driver.ZSetSuite
