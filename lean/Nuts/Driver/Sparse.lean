/-
  Driver for suite `sp-kv` (HintBPTSparseIdxMode, key/value operations): model = Nuts.Model.Sparse, spec =
  the same map-of-buckets spec as the RAM modes (Nuts.Driver.DBSpec).
-/
import Nuts.Driver.Common
import Nuts.Driver.DB
import Nuts.Model.Sparse
namespace Nuts.Driver.SparseSuite
open Nuts Nuts.Driver
open Nuts.Model Nuts.Model.DB

structure St where
  db : Sparse.SState := {}
  tx : Option Tx := none
  sp : DBSpec.SpecSt := {}
  /-- every bucket name a put or delete has named so far in this case -/
  buckets : List Bytes := []
  deriving Inhabited

def showRecS (r : Rec) : String := hexOfBytes r.key ++ "=" ++ hexOfBytes r.value
def showRecsS (l : List Rec) : String := "[" ++ ",".intercalate (l.map showRecS) ++ "]"

def obs (s : Sparse.SState) (now : Nat) : String :=
  let kv := DBSuite.obsBuckets.map fun b => hexOfBytes b ++ ":" ++ showOutcome showRecsS (Sparse.getAll s b now)
  "kv{" ++ ";".intercalate kv ++ "} list{} set{} zset{}"

/-- signature of the sparse-mode findings, decided on the model state and the call:
  * D-SPARSE-CONCAT — composite keys `bucket ++ key` are ambiguous: two buckets in use where one name is
    a prefix of the other (their composite keys interleave in every tree and range);
  * D-SPARSE-RANGE — `RangeScan`/`GetAll` with a sealed segment whose key range strictly contains the
    scanned range (the overlap test of `rangeScanOnDisk` misses exactly those);
  * D-SPARSE-PAGE — `PrefixScan`/`PrefixSearchScan` once a sealed segment exists (offset and limit are
    applied per segment; no limit means the sealed segments are not searched at all; a page filled from the
    active tree alone is returned unfiltered);
  * D-SPARSE-META — `GetAll` of a bucket whose records were written by transactions that also wrote other
    buckets (only the last record's bucket gets its meta range widened, with the keys of all records). -/
def bucketsInUse (s : Sparse.SState) : List Bytes :=
  ((s.active.map fun p => p.2.r.bucket) ++ (s.sealed.flatMap fun g => g.content.map fun p => p.2.r.bucket)).eraseDups

/-- `named`: the buckets named so far by writes, and the bucket the current call names (a read of bucket
`a`, never written, finds the records of bucket `ab`: their composite keys lie inside `a`'s ranges) -/
def concatAmbiguous (s : Sparse.SState) (named : List Bytes) : Bool :=
  let bs := (bucketsInUse s ++ named).eraseDups
  bs.any fun a => bs.any fun b => a != b && hasPrefix b a

/-- some bucket holds a key that its persisted meta range does not cover (or has no meta at all):
`GetAll`, which scans exactly that range, cannot see it -/
def metaIncomplete (s : Sparse.SState) : Bool :=
  let recs := (s.active.map (·.2.r)) ++ (s.sealed.flatMap fun g => g.content.map (·.2.r))
  recs.any fun r => match aget? s.metas r.bucket with
    | none => true
    | some (st, en) => bcmp r.key st == .lt || bcmp r.key en == .gt

/-- the overlap test of `rangeScanOnDisk` misses exactly the sealed segments whose key range strictly
contains the scanned range -/
def rangeMiss (s : Sparse.SState) (ns ne : Bytes) : Bool :=
  s.sealed.any fun g => bcmp g.first ns == .lt && bcmp ne g.last == .lt

def getAllMiss (s : Sparse.SState) (b : Bytes) : Bool :=
  match aget? s.metas b with
  | none => false
  | some (st, en) => rangeMiss s (b ++ st) (b ++ en)

def step (st : St) (cmd : String) (impl : String) : St × Verdict :=
  let f := words cmd
  let op := f.headD ""
  let a (i : Nat) : String := f.getD i "-"
  let B (i : Nat) : Bytes := parseBytes (a i)
  let I (i : Nat) : Int := parseInt (a i)
  let N (i : Nat) : Nat := DBSuite.parseNat (a i)
  let s := st.db
  let c := resClass impl
  let t : Tx := st.tx.getD { id := 0, writable := false, closed := true }
  let setTx (t' : Tx) : St := { st with tx := if st.tx.isSome then some t' else none }
  let v (model cell : String) : Verdict := { model := model, specOk := none, cell := cell }
  let unitOut (o : Outcome Unit) : String := showOutcome (fun _ => "") o
  let (st1, vm) : St × Verdict :=
    match op with
    | "open" =>
      let (s', o) := Sparse.openDB (N 5) s.files s.sealed s.metas
      (match o with
       | .ok _ => ({ st with db := s', tx := none }, v "ok" s!"open/{c}")
       | _ => ({ st with tx := none }, v (unitOut o) s!"open/{c}"))
    | "begin" =>
      if s.closed || !s.opened then (st, v "err" s!"begin/{c}")
      else ({ st with tx := some { id := DBSuite.parseNat (resPayload impl), writable := a 1 == "w" } }, v impl s!"begin/{a 1}")
    | "commit" =>
      (match st.tx with
       | none => (st, v "err" "commit/none")
       | some t =>
         if t.closed then (st, v "err" "commit/closed")
         else
           let (s', o) := if t.writable then Sparse.commit s t.pending else (s, .ok ())
           ({ st with db := s', tx := some { t with closed := true, pending := [] } }, v (unitOut o) s!"commit/{c}/{t.pending.length}"))
    | "rollback" =>
      (match st.tx with
       | none => (st, v "err" "rollback/none")
       | some t => if t.closed then (st, v "err" "rollback/closed") else ({ st with tx := some { t with closed := true, pending := [] } }, v "ok" "rollback/ok"))
    | "close" =>
      if s.closed || !s.opened then (st, v "err" "close/err")
      else ({ st with db := { s with closed := true, opened := false } }, v "ok" "close/ok")
    | "obs" => (st, v ("ok " ++ obs s (N 1)) "obs")
    | "put" =>
      let (t', o) := if t.closed then (t, Outcome.err) else txPut t (mkRec (B 1) (B 2) (B 3) flagSet dsKV (N 5) (N 4))
      ({ (setTx t') with buckets := if st.buckets.contains (B 1) then st.buckets else B 1 :: st.buckets }, v (unitOut o) s!"put/{c}")
    | "del" =>
      let (t', o) := if t.closed then (t, Outcome.err) else txPut t (mkRec (B 1) (B 2) [] flagDelete dsKV (N 3) 0)
      ({ (setTx t') with buckets := if st.buckets.contains (B 1) then st.buckets else B 1 :: st.buckets }, v (unitOut o) s!"del/{c}")
    | "get" =>
      let o := if t.closed then Outcome.err else Sparse.get s (B 1) (B 2) (N 3)
      (st, v (showOutcome DBSuite.showRec o) s!"get/{c}")
    | "getall" =>
      let o := if t.closed then Outcome.err else Sparse.getAll s (B 1) (N 2)
      (st, v (showOutcome showRecsS o) s!"getall/{c}")
    | "range" =>
      let o := if t.closed then Outcome.err else Sparse.rangeScan s (B 1) (B 2) (B 3) (N 4)
      (st, v (showOutcome showRecsS o) s!"range/{c}")
    | "prefix" =>
      let o := if t.closed then Outcome.err else Sparse.prefixScan s (B 1) (B 2) (I 3) (I 4) (N 5)
      (st, v (showOutcome showRecsS o) s!"prefix/{c}")
    | "psearch" =>
      let rx := N 3
      let o := if t.closed then Outcome.err else if DBSuite.rxBad rx then Outcome.err
        else Sparse.prefixScan s (B 1) (B 2) (I 4) (I 5) (N 6) (some fun rem => DBSuite.rxMatch rx rem)
      (st, v (showOutcome showRecsS o) s!"psearch/{c}/{rx}")
    | _ => (st, v "bad-op" "bad-op")
  -- the spec (mode-agnostic) and the finding signatures
  let out := DBSpec.step st.sp {} cmd impl
  -- an empty result reported as an empty list instead of an error is acceptable: nothing wrong is shown
  let specOk := out.expect.map fun e => e.accepts impl || (e.want == "err" && impl == "ok []") ||
    (op == "obs" && e.accepts (impl.replace ":ok []" ":err"))
  let sealedAny := !s.sealed.isEmpty
  let sig : Option String :=
    if op == "range" || op == "getall" || op == "obs" then
      (if concatAmbiguous s (B 1 :: st.buckets) then some "D-SPARSE-CONCAT"
       else if (op == "getall" || op == "obs") && metaIncomplete s then some "D-SPARSE-META"
       else if (op == "range" && rangeMiss s (B 1 ++ B 2) (B 1 ++ B 3)) || (op == "getall" && getAllMiss s (B 1)) ||
               (op == "obs" && DBSuite.obsBuckets.any (getAllMiss s)) then some "D-SPARSE-RANGE" else out.taint)
    else if op == "prefix" || op == "psearch" then
      -- limit > 0: a page filled from the active tree alone is returned unfiltered (tombstones served)
      -- offset > 0: tombstones / expired records of the active tree consume the offset, as in the RAM modes
      (let lim := if op == "prefix" then I 4 else I 5
       let off := if op == "prefix" then I 3 else I 4
       let now := if op == "prefix" then N 5 else N 6
       let hasDead := s.active.any fun p => p.2.r.bucket == B 1 && hasPrefix p.2.r.key (B 2) && dead p.2.r now
       if concatAmbiguous s (B 1 :: st.buckets) then some "D-SPARSE-CONCAT" else if sealedAny || lim > 0 then some "D-SPARSE-PAGE"
       else if hasDead && off > 0 then some "D-SCAN-DEAD" else out.taint)
    else if op == "get" then (if concatAmbiguous s (B 1 :: st.buckets) then some "D-SPARSE-CONCAT" else out.taint)
    else out.taint
  let taints := match out.taint with
    | some t => if out.st.taints.contains t || !out.sticky then out.st.taints else t :: out.st.taints
    | none => out.st.taints
  let sp1 := { out.st with taints := taints }
  let tag := match sig with
    | some t => "finding:" ++ t
    | none => if specOk == some false then (match taints with | t :: _ => "finding:" ++ t | [] => "in-guard") else "in-guard"
  (if op == "open" || op == "close" || op == "begin" || op == "commit" || op == "rollback" || op == "put" || op == "del" then
      ({ st1 with sp := sp1 }, { vm with specOk := specOk, spec := (out.expect.map (·.want)).getD "", tag := tag })
   else ({ st1 with sp := sp1 }, { vm with specOk := specOk, spec := (out.expect.map (·.want)).getD "", tag := tag }))

end Nuts.Driver.SparseSuite
