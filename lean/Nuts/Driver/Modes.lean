/-
  Driver for suite `modes` (C22): model = Nuts.Model.Dir.openDir on the listing flags the harness
  measured; spec = the property (cross-mode opens of a directory that holds data are refused and leave it
  unchanged; the creating mode and the other RAM mode are accepted; RAM ↔ RAM shows the same contents).
-/
import Nuts.Driver.Common
import Nuts.Model.Dir
namespace Nuts.Driver.ModesSuite
open Nuts Nuts.Driver Nuts.Model.Dir

structure St where
  created : Nat := 0
  state : String := ""
  d : Dir := {}
  mkObs : String := "-"
  /-- contents shown by the first accepted RAM-mode reopen of this directory -/
  ramObs : Option String := none
  deriving Inhabited

def field (payload name : String) : String :=
  match payload.splitOn (name ++ "=") with
  | _ :: x :: _ => (x.splitOn " ").headD ""
  | _ => ""

def parseDats (t : String) : List Nat :=
  let inner := stripBrackets t '[' ']'
  if inner == "" then [] else (inner.splitOn ",").map fun x => x.toNat?.getD 0

def step (st : St) (cmd : String) (impl : String) : St × Verdict :=
  let f := words cmd
  match f.headD "" with
  | "mk" =>
    let created := (f.getD 1 "0").toNat?.getD 0
    let d : Dir := { dats := parseDats (field impl "dats"), bpt := field impl "bpt" == "1" }
    -- the listing invariants of what each mode produces (theorems ram_never_bpt, sparse_dat_implies_bpt)
    let inv := if isSparse created then (!hasDat d || d.bpt) else !d.bpt
    let cleanState := f.getD 2 "" == "fresh" || f.getD 2 "" == "written"
    let inv2 := !cleanState || hasDat d
    ({ created := created, state := f.getD 2 "", d := d, mkObs := field impl "obs" },
     { model := if inv && inv2 then impl else "ok listing-invariant-broken", specOk := some (inv && inv2), spec := "listing invariant of the creating mode",
       cell := s!"mk/{created}/{f.getD 2 ""}/{hasDat d}/{d.bpt}" })
  | "reopen" =>
    let mode := (f.getD 1 "0").toNat?.getD 0
    let (accepted, _) := openDir mode st.d
    let isOk := impl.startsWith "ok"
    let isRefused := impl.startsWith "refused"
    -- the listing-level model decides the mode check only; what the rest of `Open` does with an accepted
    -- directory is the business of the database model (suites db-*), so it is echoed here
    let model := if accepted then (if isRefused then "accepted" else impl) else "refused unchanged=true"
    let cross := hasDat st.d && (isSparse st.created != isSparse mode)
    let ramram := !isSparse st.created && !isSparse mode
    let obs := field impl "obs"
    let clean := st.state == "fresh" || st.state == "written" || st.state == "empty"
    -- `lit`: the options are a literal naming the directory and the mode only (zero segment size, node
    -- number, …): the mode check must decide as ever; what the rest of `Open` makes of such options is not
    -- the property's business
    let lit := f.getD 2 "" == "lit"
    let specOk :=
      if cross then impl == "refused unchanged=true"
      else if isRefused then false
      else if lit then true
      else if ramram then
        isOk && (if st.state == "fresh" || st.state == "written" then obs == st.mkObs else true) &&
          (match st.ramObs with | some o => o == obs | none => true)
      else
        -- sparse on sparse: must not be refused; that it opens is required after a clean close (after a
        -- crash it is property C09 in sparse mode, which is not claimed)
        (if clean then isOk else true)
    let want := if cross then "refused unchanged=true" else "ok" ++ (if ramram && (st.state == "fresh" || st.state == "written") then " obs=" ++ st.mkObs else "")
    let st' := if ramram && isOk && !lit && st.ramObs.isNone then { st with ramObs := some obs } else st
    (st', { model := model, specOk := some specOk, spec := want,
            cell := s!"reopen{if lit then "-lit" else ""}/{st.created}->{mode}/{st.state}/{hasDat st.d}/{(words impl).headD ""}" })
  | _ => (st, { model := "bad-op", specOk := none })

end Nuts.Driver.ModesSuite
