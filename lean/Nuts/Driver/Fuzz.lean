/-
  Driver for suite `api-fuzz` (the search part of C20). No model: a line is acceptable iff the call did
  not panic. Lines carrying the signature of a listed panic are tagged with the finding and echo the
  implementation's answer (so that a listed panic is reported as KNOWN-FINDING, anything else as a
  violation).
-/
import Nuts.Driver.Common
namespace Nuts.Driver.FuzzSuite
open Nuts Nuts.Driver

def step (cmd : String) (impl : String) : Verdict :=
  let f := words cmd
  let mode := f.getD 1 ""
  let db := f.getD 2 ""
  let tx := f.getD 3 ""
  let api := f.getD 4 ""
  let tag :=
    -- Merge on a closed database dereferences the released indexes
    if api == "Merge" && db == "closed" then "finding:D-PANIC-MERGE-CLOSED"
    -- sparse index mode: a rotation while the active segment holds no key/value record writes an empty tree
    else if mode == "2" && api == "Commit" && tx.endsWith "+s" then "finding:D-PANIC-SPARSE-EMPTYTREE"
    -- Merge rewrites records of transactions that never committed; their bucket may have no index
    else if api == "Merge" && db == "open-dirty" then "finding:D-MERGE-UNCOMMITTED"
    else "in-guard"
  let model := if tag != "in-guard" then impl else if impl == "panic" then "no-panic" else impl
  { model := model, specOk := some (impl != "panic"), spec := "ok | err", tag := tag, cell := s!"{api}/{mode}/{db}/{tx}/{impl}" }

end Nuts.Driver.FuzzSuite
