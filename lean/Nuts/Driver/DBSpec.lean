/-
  Spec side of suite `db`: runs Nuts.Spec.DB next to the model, decides whether the implementation's
  answer is acceptable, and recognises the *signatures* of the known findings (guards of the partial
  theorems): a line is tagged `finding:<id>` when a signature has been triggered earlier in the case
  (a "taint") or by the line itself.
-/
import Nuts.Driver.Common
import Nuts.Model.Tx
import Nuts.Spec.DB
namespace Nuts.Driver.DBSpec
open Nuts Nuts.Driver
open Nuts.Model Nuts.Model.DB
open Nuts.Spec.DB

structure SpecSt where
  committed : SpecDB := {}
  work : SpecDB := {}
  txOpen : Bool := false
  txW : Bool := false
  txClosed : Bool := true
  writeSet : List String := []
  taints : List String := []
  txids : List Nat := []
  opened : Bool := false
  /-- committed state before the last Commit / Merge, and the id of that transaction (crash images) -/
  prev : SpecDB := {}
  lastTx : Nat := 0
  /-- Merge runs concurrently with the transactions of this trace (C17) -/
  concMerge : Bool := false
  /-- every value ever committed per bucket and key (to recognise a stale value resurrected by an
  unlocked Merge: finding D-MERGE-NOLOCK) -/
  hist : Assoc (Assoc (List Bytes)) := []
  /-- committed state at each `backup <n>` -/
  backups : List (Nat × SpecDB) := []
  /-- under a concurrent Merge: the (bucket, key, value) of every put this transaction has queued — all of
  them reach the data file when it commits (also the ones a later put of the same transaction overwrites,
  and, by finding D-COMMIT-PARTIAL, the ones before the record that makes the commit fail), and the unlocked
  Merge can write any of them back -/
  txPuts : List (Bytes × Bytes × Bytes) := []
  /-- a finding that explains divergences at the crash points of the last Merge only (never its completed
  result): set by `merge`, cleared by `capture` -/
  mergeCrashTaint : Option String := none
  deriving Inhabited

/-- abstraction of a model state: what the indexes say, structure by structure -/
def abs (s : State) : SpecDB :=
  { kv := s.kv.map fun (b, m) => (b, (m.filter fun p => p.2.r.flag == flagSet).map fun p => (p.1, ⟨p.2.r.value, p.2.r.ts, p.2.r.ttl⟩)),
    lists := s.lists, sets := s.sets, zsets := s.zsets }

def showPair (p : Bytes × Bytes) : String := hexOfBytes p.1 ++ "=" ++ hexOfBytes p.2
def showPairs (l : List (Bytes × Bytes)) : String := "[" ++ ",".intercalate (l.map showPair) ++ "]"
def showSorted (l : List Bytes) : String := showList (sortBy blt l)
def showNode (n : ZSetA.Node) : String := hexOfBytes n.key ++ ":" ++ toString n.score ++ ":" ++ hexOfBytes n.value
def showNodes (l : List ZSetA.Node) : String := "[" ++ ",".intercalate (l.map showNode) ++ "]"

def obsBuckets : List Bytes := [[97], [97, 98], [98], [], [97, 124, 98]]
def obsKeys : List Bytes := [[97], [97, 98], [97, 98, 99], [98], [98, 97], [107], [255]]

/-- the observation as the spec sees it. Structures that hold nothing are indistinguishable from
absent ones at this level, so both sides are compared after dropping empty structures. -/
def obs (s : SpecDB) (now : Nat) : String :=
  let kv := obsBuckets.map fun b => hexOfBytes b ++ ":" ++ (let l := liveOf s b now; if l.isEmpty then "err" else "ok " ++ showPairs l)
  let ls := obsBuckets.flatMap fun b => obsKeys.filterMap fun k =>
    let l := listGet s b k; if l.isEmpty then none else some (hexOfBytes b ++ "/" ++ hexOfBytes k ++ ":" ++ showList l)
  let ss := obsBuckets.flatMap fun b => obsKeys.filterMap fun k =>
    let l := setGet s b k; if l.isEmpty then none else some (hexOfBytes b ++ "/" ++ hexOfBytes k ++ ":" ++ showSorted l)
  let zs := obsBuckets.filterMap fun b =>
    let z := zGet s b; if z.isEmpty then none else some (hexOfBytes b ++ ":" ++ showNodes z)
  "kv{" ++ ";".intercalate kv ++ "} list{" ++ ";".intercalate ls ++ "} set{" ++ ";".intercalate ss ++ "} zset{" ++ ";".intercalate zs ++ "}"

/-- drop `x:[]` items from the list/set/zset groups of an implementation observation -/
def dropEmpties (o : String) : String :=
  if !o.endsWith "}" then o else
  let o := (o.dropEnd 1).toString
  let groups := o.splitOn "} "
  let fix (g : String) : String :=
    match g.splitOn "{" with
    | [name, body] =>
      if name == "kv" || name == "ok kv" then g
      else name ++ "{" ++ ";".intercalate ((body.splitOn ";").filter fun it => !(it.endsWith ":[]") && it != "")
    | _ => g
  "} ".intercalate (groups.map fix) ++ "}"

def parseNat (s : String) : Nat := s.toNat?.getD 0

def ex (want : String) (errOk : Bool := false) (alts : List String := []) : Expect := { want := want, errOk := errOk, alts := alts }

/-- `needle` occurs in `l` as a contiguous block -/
def hasInfix (l needle : List UInt8) : Bool :=
  match l with
  | [] => needle.isEmpty
  | _ :: t => needle.isPrefixOf l || hasInfix t needle

/-- the invalid expression of the fixed set -/
def rxBad (i : Nat) : Bool := i == 4 || i ≥ 10

def rxMatch (i : Nat) (rem : Bytes) : Bool :=
  match i with
  | 0 => true
  | 1 => rem.head? == some 98
  | 2 => rem.getLast? == some 99
  | 3 => rem.isEmpty                        -- "^$"
  | 5 => rem == [98]                        -- "^b$"
  | 6 => rem == [97, 98]                    -- "^ab$"
  | 7 => rem.contains 98                    -- "b"
  | 8 => hasInfix rem [97, 98]              -- "ab"
  | 9 => rem.head? == some 97 && rem.getLast? == some 99 && rem.length ≥ 2 && !rem.contains 10  -- "^a.*c$"
  | _ => false

/-- parse `[k=v,k=v]` -/
def parsePairs (t : String) : List (Bytes × Bytes) :=
  let inner := stripBrackets t '[' ']'
  if inner == "" then [] else (inner.splitOn ",").filterMap fun kv =>
    match kv.splitOn "=" with
    | [k, v] => some (parseBytes k, parseBytes v)
    | _ => none

/-- signature of D-MERGE-NOLOCK on a KV read of bucket `b`: per key, what the implementation shows is the
wanted pair, the pair the sequential model shows, or a value that was committed for that key earlier (a
stale value written back by the unlocked Merge); a key may be missing only if the spec or the model does
not have it either. -/
def staleExplains (hist : Assoc (Assoc (List Bytes))) (b : Bytes) (impl want model : List (Bytes × Bytes)) : Bool :=
  impl.all (fun p => want.contains p || model.contains p || (((aget? hist b).bind (aget? · p.1)).getD []).contains p.2) &&
  want.all (fun p => impl.any (·.1 == p.1) || !model.any (·.1 == p.1))

/-- result of a spec step: new state, expectation (`none`: the spec does not speak), a finding
signature triggered by this line, and whether the line is only acceptable as an error because the
transaction is read-only or finished. -/
structure SpecOut where
  st : SpecSt
  expect : Option Expect
  taint : Option String := none
  /-- does the signature explain later divergences of the case too (state damage), or this line only? -/
  sticky : Bool := true

/-- Which of the recorded Merge defects can this Merge call run into? Decided on the state Merge starts
from; `none` = none of them: the call is inside the guard of the C15/C16 theorems and must leave every
observation unchanged, at every crash point too.
  * D-MERGE-LIST: a list record is in some data file (pushes are re-applied, pops/LSet/LTrim/LRem dropped);
  * D-MERGE-UNCOMMITTED: a record of a transaction that never committed is in some data file;
  * D-MERGE-XSTRUCT: a set / sorted-set record whose bucket and key are also in the KV index;
  * D-MERGE-ACTIVE: nothing is live in any file (the active file is removed while still open).
At crash points inside Merge only (`mergeCrashSignature`):
  * D-MERGE-ZSET-STALE: two ZAdd records of the same bucket and member are in the data files (the older one
    is rewritten into a newer file: at a crash before the newer one is rewritten too, replay applies it last);
  * D-MERGE-ZPOS: a rank-based removal record (ZPopMax / ZPopMin / ZRemRangeByRank) of a bucket lies in a later
    file than a ZAdd record of that bucket (Merge drops or moves the ZAdd records of the earlier file first: at a
    crash before the file with the removal record is handled, replay applies the removal to a different
    sequence of members and removes another one). -/
def zaddMember (r : Rec) : Option (Bytes × Bytes) :=
  if r.ds == dsZSet && r.flag == flagZAdd then
    match splitSep r.key with
    | [k, _] => some (r.bucket, k)
    | _ => none
  else none

def hasDupZAdd (recs : List (Rec × Nat × Nat)) : Bool :=
  let ms := recs.filterMap fun x => zaddMember x.1
  ms.length != ms.eraseDups.length

def mergeSignature (s : State) (now : Nat) : Option String :=
  let recs := allRecs s.files
  if recs.any (fun x => x.1.ds == dsList) then some "D-MERGE-LIST"
  else if recs.any (fun x => !s.committed.contains x.1.txid) then some "D-MERGE-UNCOMMITTED"
  else if recs.any (fun x => x.1.ds != dsKV && ((aget? s.kv x.1.bucket).bind (aget? · x.1.key)).isSome) then some "D-MERGE-XSTRUCT"
  else if (merge s now []).1.activeUnlinked then some "D-MERGE-ACTIVE"
  else none

def isZPositional (r : Rec) : Bool :=
  r.ds == dsZSet && (r.flag == flagZRemRangeByRank || r.flag == flagZPopMax || r.flag == flagZPopMin)

def hasZPosAfterZAdd (recs : List (Rec × Nat × Nat)) : Bool :=
  recs.any fun x => isZPositional x.1 &&
    recs.any fun y => y.1.ds == dsZSet && y.1.flag == flagZAdd && y.1.bucket == x.1.bucket && y.2.1 < x.2.1

/-- the defects that show at crash points inside Merge only -/
def mergeCrashSignature (s : State) : Option String :=
  if hasDupZAdd (allRecs s.files) then some "D-MERGE-ZSET-STALE"
  else if hasZPosAfterZAdd (allRecs s.files) then some "D-MERGE-ZPOS" else none

def step (sp : SpecSt) (model : State) (cmd : String) (impl : String) : SpecOut :=
  let f := words cmd
  let op := f.headD ""
  let a (i : Nat) : String := f.getD i "-"
  let B (i : Nat) : Bytes := parseBytes (a i)
  let I (i : Nat) : Int := parseInt (a i)
  let N (i : Nat) : Nat := parseNat (a i)
  let cls := resClass impl
  -- state the call reads: the working copy inside a write transaction, else the committed state
  let cur : SpecDB := if sp.txOpen && sp.txW then sp.work else sp.committed
  let canWrite := sp.txOpen && sp.txW && !sp.txClosed
  let canRead := sp.txOpen && !sp.txClosed
  let conflict (tag : String) : Bool := sp.txOpen && sp.txW && sp.writeSet.contains tag
  -- a read: expectation `e` when a transaction is open, plain error otherwise
  let rd (tag : String) (e : Expect) (taint : Option String := none) : SpecOut :=
    if !canRead then { st := sp, expect := some (ex "err") }
    else { st := sp, expect := some e, taint := if conflict tag then some "D-NO-RYW" else taint, sticky := false }
  -- a mutation: applies `w'` to the working copy when the implementation accepted the call
  let wr (tag : String) (w' : SpecDB) (e : Expect) (taint : Option String := none) (reads : Bool := false) : SpecOut :=
    if !canWrite then { st := sp, expect := some (ex "err") }
    else
      let t := if reads && conflict tag then some "D-NO-RYW" else taint
      let applied := cls == "ok"
      { st := { sp with work := if applied then w' else sp.work, writeSet := if applied then tag :: sp.writeSet else sp.writeSet },
        expect := some e, taint := t }
  match op with
  | "open" =>
    { st := { sp with opened := cls == "ok", txOpen := false, txClosed := true }, expect := some (ex "ok") }
  | "close" => { st := { sp with opened := false }, expect := some (if sp.opened then ex "ok" else ex "err") }
  | "begin" =>
    if !sp.opened then { st := sp, expect := some (ex "err") }
    else
      let id := parseNat (resPayload impl)
      { st := { sp with txOpen := true, txW := a 1 == "w", txClosed := false, work := sp.committed, writeSet := [], txPuts := [], txids := id :: sp.txids },
        expect := some (ex impl), taint := if sp.txids.contains id then some "D-TXID" else none }
  | "commit" =>
    if !sp.txOpen || sp.txClosed then { st := sp, expect := some (ex "err") }
    else
      let installed := sp.txW && cls == "ok"
      -- a failing commit of a write transaction is legitimate (oversized entry); it must change nothing
      let hist0 := if installed && sp.concMerge then
          sp.work.kv.foldl (fun h (b, m) => m.foldl (fun h (k, e) =>
            let hb := (aget? h b).getD []
            let hk := (aget? hb k).getD []
            if hk.contains e.value then h else aput h b (aput hb k (e.value :: hk))) h) sp.hist
        else sp.hist
      -- every value the commit loop wrote to the file, whether or not it is the transaction's final one
      let hist' := if sp.txW && sp.concMerge then
          sp.txPuts.foldl (fun h (b, k, v) =>
            let hb := (aget? h b).getD []
            let hk := (aget? hb k).getD []
            if hk.contains v then h else aput h b (aput hb k (v :: hk))) hist0
        else hist0
      { st := { sp with committed := if installed then sp.work else sp.committed, txClosed := true, writeSet := [],
                        prev := sp.committed, lastTx := sp.txids.headD 0, hist := hist', txPuts := [] },
        expect := some (ex "ok" (errOk := sp.txW)),
        taint := if sp.txW && cls != "ok" && sp.writeSet.length ≥ 2 then some "D-COMMIT-PARTIAL" else none }
  | "rollback" =>
    if !sp.txOpen || sp.txClosed then { st := sp, expect := some (ex "err") }
    else { st := { sp with txClosed := true, writeSet := [] }, expect := some (ex "ok") }
  | "capture" => { st := { sp with mergeCrashTaint := none }, expect := none }
  | "fault" | "sfault" => { st := sp, expect := none }
  | "concmerge" => { st := { sp with concMerge := true }, expect := none }
  | "backup" => { st := { sp with backups := (N 1, sp.committed) :: sp.backups }, expect := some (ex (if sp.opened then "ok" else "err")) }
  | "backupobs" =>
    let at_ := match sp.backups.find? (·.1 == N 1) with | some b => b.2 | none => sp.committed
    let want := "ok open=ok obs=" ++ obs at_ (N 2)
    let implNorm := match (resPayload impl).splitOn " obs=" with
      | [h, o] => "ok " ++ h ++ " obs=" ++ (dropEmpties ("ok " ++ o)).drop 3
      | _ => impl
    { st := sp, expect := some (ex want (alts := if implNorm == want then [impl] else [])) }
  | "image" =>
    -- a crash at any file-mutation point: Open must succeed and show the state before the
    -- transaction, or — once its last record (the commit marker) is completely written — after it
    let payload := resPayload impl
    let field (name : String) : String := match payload.splitOn (name ++ "=") with
      | _ :: x :: _ => (x.splitOn " ").headD ""
      | _ => ""
    let marker := (((field "files").replace ";" ",").splitOn ",").any fun it => (it.splitOn ":").getD 3 "" == "1" && (it.splitOn ":").getD 4 "" == toString sp.lastTx
    -- after the call has returned (`end`) the transaction must be there, also after a power loss
    let isEnd := field "event" == "end" || field "event" == "pl-end"
    let wantSt := if marker || isEnd then sp.committed else sp.prev
    let head := match payload.splitOn " open=" with | h :: _ => h | [] => ""
    let want := "ok " ++ head ++ " open=ok obs=" ++ obs wantSt (N 2)
    let implNorm := "ok " ++ head ++ " open=" ++ field "open" ++ " obs=" ++ (dropEmpties ("ok " ++ (match payload.splitOn " obs=" with | [_, o] => o | _ => ""))).drop 3
    { st := sp, expect := some (ex want (alts := if implNorm == want then [impl] else [])),
      taint := if field "event" == "write-torn" then some "D-TORN-CRC" else sp.mergeCrashTaint, sticky := false }
  | "merge" =>
    -- `Merge` may refuse (fewer than two data files): an error that changes nothing is acceptable
    let tail := (impl.drop ((words impl).headD "").length).toString
    { st := { sp with prev := sp.committed, lastTx := 0, mergeCrashTaint := mergeCrashSignature model },
      expect := some (ex ("ok" ++ tail) (alts := ["err" ++ tail])),
      taint := mergeSignature model (N 1) }
  | "obs" =>
    let want := "ok " ++ obs sp.committed (N 1)
    { st := sp, expect := some (ex want (alts := if dropEmpties impl == want then [impl] else [])) }
  | "files" => { st := sp, expect := none }
  -- ---------------- KV
  | "put" =>
    if (B 2).isEmpty then { st := sp, expect := some (ex "err") }
    else
      let o := wr ("k:" ++ a 1) (kvPut cur (B 1) (B 2) (B 3) (N 5) (N 4)) (ex "ok")
      if sp.concMerge && canWrite && cls == "ok" then { o with st := { o.st with txPuts := (B 1, B 2, B 3) :: sp.txPuts } } else o
  | "del" =>
    if (B 2).isEmpty then { st := sp, expect := some (ex "err") }
    else wr ("k:" ++ a 1) (kvDel cur (B 1) (B 2)) (ex "ok")
  | "get" =>
    rd ("k:" ++ a 1) (match kvGet cur (B 1) (B 2) (N 3) with
      | some val => ex ("ok " ++ showPair (B 2, val))
      | none => ex "err")
  | "getmeta" =>
    rd ("k:" ++ a 1) (match ((aget? cur.kv (B 1)).getD []).find? (·.1 = B 2) with
      | some p => if live (N 3) p.2 then ex s!"ok {p.2.ts}/{p.2.ttl}" else ex "err"
      | none => ex "err")
  | "getall" =>
    let l := liveOf cur (B 1) (N 2)
    rd ("k:" ++ a 1) (if l.isEmpty then ex "err" else ex ("ok " ++ showPairs l))
  | "range" =>
    let l := (liveOf cur (B 1) (N 4)).filter fun p => ble (B 2) p.1 && ble p.1 (B 3)
    rd ("k:" ++ a 1) (if l.isEmpty then ex "err" else ex ("ok " ++ showPairs l))
  | "prefix" =>
    -- the property speaks of `limit > 0` and of "no limit" (`ScanNoLimit` = -1): other limits are outside it
    -- (the implementation answers "not found"; the model says so too and is what the line is compared with)
    if !(I 4 > 0 || I 4 == -1) then (if !canRead then { st := sp, expect := some (ex "err") } else { st := sp, expect := none }) else
    let l := page ((liveOf cur (B 1) (N 5)).filter fun p => hasPrefix p.1 (B 2)) (I 3) (I 4)
    let hasDead := ((aget? model.kv (B 1)).getD []).any fun p => hasPrefix p.1 (B 2) && dead p.2.r (N 5)
    rd ("k:" ++ a 1) (if l.isEmpty then ex "err" else ex ("ok " ++ showPairs l))
      (if hasDead && (I 3 > 0 || I 4 > 0) then some "D-SCAN-DEAD" else none)
  | "psearch" =>
    if rxBad (N 3) then { st := sp, expect := some (ex "err") } else
    if !(I 5 > 0 || I 5 == -1) then (if !canRead then { st := sp, expect := some (ex "err") } else { st := sp, expect := none }) else
    let pre := B 2
    let l := page ((liveOf cur (B 1) (N 6)).filter fun p => hasPrefix p.1 pre && rxMatch (N 3) (p.1.drop pre.length)) (I 4) (I 5)
    let hasDead := ((aget? model.kv (B 1)).getD []).any fun p => hasPrefix p.1 pre && dead p.2.r (N 6)
    rd ("k:" ++ a 1) (if l.isEmpty then ex "err" else ex ("ok " ++ showPairs l))
      (if hasDead && I 5 > 0 then some "D-SCAN-DEAD" else none)
  -- ---------------- lists
  | "rpush" | "lpush" =>
    let k := B 2
    let vs := parseList (a 3)
    if vs.isEmpty then { st := sp, expect := some (ex "ok" (errOk := true)) }   -- nothing to do: either answer
    else if k.isEmpty || k.contains sepByte then { st := sp, expect := some (ex "err") }
    else
      let old := listGet cur (B 1) k
      wr ("l:" ++ a 1) (listPut cur (B 1) k (if op == "rpush" then old ++ vs else vs.reverse ++ old)) (ex "ok")
  | "lpop" | "rpop" =>
    let old := listGet cur (B 1) (B 2)
    let item := if op == "lpop" then old.head? else old.getLast?
    match item with
    | some x => wr ("l:" ++ a 1) (listPut cur (B 1) (B 2) (if op == "lpop" then old.drop 1 else old.dropLast)) (ex ("ok " ++ hexOfBytes x)) none true
    | none => if !canWrite && canRead then rd ("l:" ++ a 1) (ex "err") else wr ("l:" ++ a 1) cur (ex "err") none true
  | "lpeek" | "rpeek" =>
    let old := listGet cur (B 1) (B 2)
    rd ("l:" ++ a 1) (match (if op == "lpeek" then old.head? else old.getLast?) with
      | some x => ex ("ok " ++ hexOfBytes x)
      | none => ex "err")
  | "lsize" =>
    let n := (listGet cur (B 1) (B 2)).length
    rd ("l:" ++ a 1) (ex s!"ok {n}" (errOk := n == 0))
  | "lrange" =>
    let old := listGet cur (B 1) (B 2)
    let r := Spec.RList.lrange old (I 3) (I 4)
    rd ("l:" ++ a 1) (ex ("ok " ++ showList r) (errOk := r.isEmpty))
  | "lrem" =>
    let old := listGet cur (B 1) (B 2)
    let (r, cnt) := Spec.RList.lrem old (I 3) (B 4)
    wr ("l:" ++ a 1) (listPut cur (B 1) (B 2) r) (ex s!"ok {cnt}" (errOk := (I 3).natAbs > old.length || old.isEmpty)) none true
  | "lset" =>
    let old := listGet cur (B 1) (B 2)
    let inR := decide (0 ≤ I 3) && decide (I 3 < old.length)
    wr ("l:" ++ a 1) (if inR then listPut cur (B 1) (B 2) (old.set (I 3).toNat (B 4)) else cur) (if inR then ex "ok" else ex "err") none true
  | "ltrim" =>
    let old := listGet cur (B 1) (B 2)
    let r := Spec.RList.lrange old (I 3) (I 4)
    wr ("l:" ++ a 1) (listPut cur (B 1) (B 2) r) (ex "ok" (errOk := r.isEmpty || old.isEmpty)) none true
  -- ---------------- sets
  | "sadd" =>
    if (parseList (a 3)).isEmpty then { st := sp, expect := some (ex "ok" (errOk := true)) }
    else if (B 2).isEmpty then { st := sp, expect := some (if (parseList (a 3)).isEmpty && canWrite then ex "ok" else ex "err") }
    else wr ("s:" ++ a 1) (setPut cur (B 1) (B 2) ((parseList (a 3)).foldl setInsert (setGet cur (B 1) (B 2)))) (ex "ok")
  | "srem" =>
    let items := parseList (a 3)
    if items.isEmpty then { st := sp, expect := some (ex "ok" (errOk := true)) }
    else if (B 2).isEmpty then { st := sp, expect := some (if items.isEmpty && canWrite then ex "ok" else ex "err") }
    else
      let old := setGet cur (B 1) (B 2)
      wr ("s:" ++ a 1) (setPut cur (B 1) (B 2) (old.filter fun x => !items.contains x)) (ex "ok")
        (if items.any (·.isEmpty) then some "D-SREM-EMPTY" else none)
  | "spop" =>
    let old := setGet cur (B 1) (B 2)
    if old.isEmpty then (if canWrite then wr ("s:" ++ a 1) cur (ex "err") none true else rd ("s:" ++ a 1) (ex "err"))
    else
      let x := parseBytes (resPayload impl)
      if cls == "ok" && old.contains x then
        wr ("s:" ++ a 1) (setPut cur (B 1) (B 2) (old.filter (· ≠ x))) (ex impl) (if x.isEmpty then some "D-SREM-EMPTY" else none) true
      else wr ("s:" ++ a 1) cur (ex "ok <a member>") none true
  | "sismember" =>
    let m := (setGet cur (B 1) (B 2)).contains (B 3)
    rd ("s:" ++ a 1) (if m then ex "ok true" else ex "ok false" (errOk := true))
  | "saremembers" =>
    let old := setGet cur (B 1) (B 2)
    let m := (parseList (a 3)).all old.contains
    rd ("s:" ++ a 1) (if m then ex "ok true" (errOk := old.isEmpty) else ex "ok false" (errOk := true))
  | "smembers" =>
    let old := setGet cur (B 1) (B 2)
    rd ("s:" ++ a 1) (ex ("ok " ++ showSorted old) (errOk := old.isEmpty))
  | "scard" =>
    let n := (setGet cur (B 1) (B 2)).length
    rd ("s:" ++ a 1) (ex s!"ok {n}" (errOk := n == 0))
  | "shaskey" =>
    let n := (setGet cur (B 1) (B 2)).length
    rd ("s:" ++ a 1) (if n > 0 then ex "ok true" else ex "ok false" (errOk := true) (alts := ["ok true"]))
  | "sdiff1" | "sdiff2" | "sunion1" | "sunion2" =>
    let two := op == "sdiff2" || op == "sunion2"
    let x := setGet cur (B 1) (B 2)
    let y := if two then setGet cur (B 3) (B 4) else setGet cur (B 1) (B 3)
    let r := if op == "sdiff1" || op == "sdiff2" then x.filter fun e => !y.contains e else x ++ y.filter fun e => !x.contains e
    let o := rd ("s:" ++ a 1) (ex ("ok " ++ showSorted r) (errOk := x.isEmpty || y.isEmpty))
    if two && conflict ("s:" ++ a 3) then { o with taint := some "D-NO-RYW" } else o
  | "smove1" | "smove2" =>
    let two := op == "smove2"
    let (b2, k1, k2, x) := if two then (B 3, B 2, B 4, B 5) else (B 1, B 2, B 3, B 4)
    let src := setGet cur (B 1) k1
    let isM := src.contains x
    let s1 := setPut cur (B 1) k1 (src.filter (· ≠ x))
    let s2 := setPut s1 b2 k2 (setInsert (setGet s1 b2 k2) x)
    let w' := if isM then s2 else cur
    -- SMove is a mutation: acceptable only inside a write transaction
    if !canWrite then { st := sp, expect := some (ex "err"), taint := some "D-SMOVE" }
    else
      let o := wr ("s:" ++ a 1) w' (if isM then ex "ok true" (errOk := (setGet cur b2 k2).isEmpty) else ex "ok false" (errOk := true)) (some "D-SMOVE") true
      { o with st := { o.st with work := if cls == "ok" then w' else sp.work, writeSet := ("s:" ++ hexOfBytes b2) :: o.st.writeSet } }
  -- ---------------- sorted sets
  | "zadd" =>
    if (B 2).contains sepByte then { st := sp, expect := some (ex "err") }
    else wr ("z:" ++ a 1) (zPut cur (B 1) (ZSetA.put (zGet cur (B 1)) (B 2) (I 3) (B 5))) (ex "ok")
  | "zrem" =>
    let z := zGet cur (B 1)
    if (B 2).isEmpty then wr ("z:" ++ a 1) cur (ex "err") none true
    else wr ("z:" ++ a 1) (zPut cur (B 1) (ZSetA.remove z (B 2))) (ex "ok" (errOk := z.isEmpty)) none true
  | "zremrank" =>
    let z := zGet cur (B 1)
    let sel := zByRank z (I 2) (I 3)
    wr ("z:" ++ a 1) (zPut cur (B 1) (z.filter fun n => !sel.contains n)) (ex "ok" (errOk := z.isEmpty)) none true
  | "zpopmax" | "zpopmin" =>
    let z := zGet cur (B 1)
    let item := if op == "zpopmax" then z.getLast? else z.head?
    match item with
    | some n => wr ("z:" ++ a 1) (zPut cur (B 1) (ZSetA.remove z n.key)) (ex ("ok " ++ showNode n)) none true
    | none => if canWrite then wr ("z:" ++ a 1) cur (ex "ok nil" (errOk := true)) none true else rd ("z:" ++ a 1) (ex "err")
  | "zpeekmax" | "zpeekmin" =>
    let z := zGet cur (B 1)
    rd ("z:" ++ a 1) (match (if op == "zpeekmax" then z.getLast? else z.head?) with
      | some n => ex ("ok " ++ showNode n)
      | none => ex "ok nil" (errOk := true))
  | "zmembers" =>
    let z := zGet cur (B 1)
    rd ("z:" ++ a 1) (ex ("ok " ++ showNodes (sortBy (fun x y => blt x.key y.key) z)) (errOk := z.isEmpty))
  | "zcard" =>
    let z := zGet cur (B 1)
    rd ("z:" ++ a 1) (ex s!"ok {z.length}" (errOk := z.isEmpty))
  | "zrangebyscore" | "zcount" =>
    let z := zGet cur (B 1)
    let hasOpts := N 4 == 1
    let r := zByScore z (I 2) (I 3) (if hasOpts then I 5 else 0) (hasOpts && N 6 == 1) (hasOpts && N 7 == 1)
    rd ("z:" ++ a 1) (ex (if op == "zcount" then s!"ok {r.length}" else "ok " ++ showNodes r) (errOk := z.isEmpty))

  | "zrangebyrank" =>
    let z := zGet cur (B 1)
    rd ("z:" ++ a 1) (ex ("ok " ++ showNodes (zByRank z (I 2) (I 3))) (errOk := z.isEmpty))
  | "zrank" | "zrevrank" =>
    let z := zGet cur (B 1)
    let r := ZSetA.rankOf z (B 2)
    let want := if op == "zrank" then r else (if r == 0 then 0 else z.length - r + 1)
    rd ("z:" ++ a 1) (ex s!"ok {want}" (errOk := z.isEmpty))
  | "zscore" =>
    rd ("z:" ++ a 1) (match ZSetA.find? (zGet cur (B 1)) (B 2) with
      | some n => ex s!"ok {n.score}"
      | none => ex "err")
  | "zgetbykey" =>
    rd ("z:" ++ a 1) (match ZSetA.find? (zGet cur (B 1)) (B 2) with
      | some n => ex ("ok " ++ showNode n)
      | none => ex "err")
  | _ => { st := sp, expect := none }

end Nuts.Driver.DBSpec
