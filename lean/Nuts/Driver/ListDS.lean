/-
  Driver for suite `list-ds`: model = Nuts.Model.ListDS, spec = Nuts.Spec.RList.
-/
import Nuts.Driver.Common
import Nuts.Model.ListDS
import Nuts.Spec.RList
namespace Nuts.Driver.ListSuite
open Nuts Nuts.Driver
open Nuts.Model

/-- spec state: key ↦ Redis list (absent = empty) -/
abbrev SpecSt := List (Bytes × List Bytes)

structure St where
  m : ListDS.St := []
  s : SpecSt := []

def sget (s : SpecSt) (k : Bytes) : List Bytes := (ListDS.get? s k).getD []

def showDump (m : List (Bytes × List Bytes)) : String :=
  let sorted := sortBy (fun a b => blt a.1 b.1) m
  "{" ++ ";".intercalate (sorted.map fun p => hexOfBytes p.1 ++ "=" ++ showList p.2) ++ "}"

def nonEmpty (m : List (Bytes × List Bytes)) : List (Bytes × List Bytes) := m.filter (fun p => !p.2.isEmpty)

def specAccept (want : String) (errOk : Bool) (impl : String) : Bool :=
  if impl == "err" then errOk else impl == want

def step (st : St) (cmd : String) (impl : String) : St × Verdict :=
  let f := words cmd
  let op := f.headD ""
  let k := parseBytes (f.getD 1 "-")
  let old := sget st.s k
  let n := old.length
  let cls := resClass impl
  match op with
  | "rpush" =>
    let vs := parseList (f.getD 2 "[]")
    let (m', o) := ListDS.rpush st.m k vs
    let new := old ++ vs
    let want := s!"ok {new.length}"
    let okk := specAccept want (vs.isEmpty && n == 0) impl
    ({ m := m', s := ListDS.put st.s k new }, { model := showOutcome toString o, specOk := some okk, spec := want, cell := s!"rpush/{cls}/{vs.length}" })
  | "lpush" =>
    let vs := parseList (f.getD 2 "[]")
    let (m', o) := ListDS.lpush st.m k vs
    let new := vs.reverse ++ old
    let want := s!"ok {new.length}"
    ({ m := m', s := ListDS.put st.s k new }, { model := showOutcome toString o, specOk := some (specAccept want false impl), spec := want, cell := s!"lpush/{cls}/{vs.length}" })
  | "lpop" =>
    let (m', o) := ListDS.lpop st.m k
    match old with
    | x :: xs =>
      let want := "ok " ++ hexOfBytes x
      ({ m := m', s := ListDS.put st.s k xs }, { model := showOutcome hexOfBytes o, specOk := some (impl == want), spec := want, cell := s!"lpop/{cls}" })
    | [] => ({ st with m := m' }, { model := showOutcome hexOfBytes o, specOk := some (impl == "err"), spec := "err", cell := s!"lpop/{cls}" })
  | "rpop" =>
    let (m', o) := ListDS.rpop st.m k
    match old.getLast? with
    | some x =>
      let want := "ok " ++ hexOfBytes x
      ({ m := m', s := ListDS.put st.s k old.dropLast }, { model := showOutcome hexOfBytes o, specOk := some (impl == want), spec := want, cell := s!"rpop/{cls}" })
    | none => ({ st with m := m' }, { model := showOutcome hexOfBytes o, specOk := some (impl == "err"), spec := "err", cell := s!"rpop/{cls}" })
  | "lpeek" =>
    let o := ListDS.lpeek st.m k
    let want := match old with | x :: _ => "ok " ++ hexOfBytes x | [] => "err"
    (st, { model := showOutcome hexOfBytes o, specOk := some (impl == want), spec := want, cell := s!"lpeek/{cls}" })
  | "rpeek" =>
    let o := ListDS.rpeek st.m k
    let want := match old.getLast? with | some x => "ok " ++ hexOfBytes x | none => "err"
    (st, { model := showOutcome hexOfBytes o, specOk := some (impl == want), spec := want, cell := s!"rpeek/{cls}" })
  | "size" =>
    let o := ListDS.size st.m k
    let want := s!"ok {n}"
    (st, { model := showOutcome toString o, specOk := some (specAccept want (n == 0) impl), spec := want, cell := s!"size/{cls}" })
  | "lrange" =>
    let s := parseInt (f.getD 2 "0"); let e := parseInt (f.getD 3 "0")
    let o := ListDS.lrange st.m k s e
    let r := Spec.RList.lrange old s e
    let want := "ok " ++ showList r
    let tg := "in-guard"
    (st, { model := showOutcome showList o, specOk := some (specAccept want r.isEmpty impl), spec := want, tag := tg,
           cell := "lrange/" ++ cls ++ "/" ++ toString (decide (s < 0)) ++ "/" ++ toString (decide (e < 0)) ++ "/" ++ toString r.isEmpty })
  | "ltrim" =>
    let s := parseInt (f.getD 2 "0"); let e := parseInt (f.getD 3 "0")
    let (m', o) := ListDS.ltrim st.m k s e
    let r := Spec.RList.lrange old s e
    let tg := "in-guard"
    let okk := specAccept "ok" (r.isEmpty || n == 0) impl
    let s' := if impl == "ok" then ListDS.put st.s k r else st.s
    ({ m := m', s := s' }, { model := showOutcome (fun _ => "") o, specOk := some okk, spec := "ok", tag := tg, cell := s!"ltrim/{cls}/{r.isEmpty}" })
  | "lrem" =>
    let c := parseInt (f.getD 2 "0"); let v := parseBytes (f.getD 3 "-")
    let (m', o) := ListDS.lrem st.m k c v
    let (r, cnt) := Spec.RList.lrem old c v
    let want := s!"ok {cnt}"
    let tg := "in-guard"
    let okk := specAccept want (c.natAbs > n || n == 0) impl
    let s' := if cls == "ok" then ListDS.put st.s k r else st.s
    ({ m := m', s := s' }, { model := showOutcome toString o, specOk := some okk, spec := want, tag := tg, cell := "lrem/" ++ cls ++ "/" ++ toString (decide (c < 0)) ++ "/" ++ toString (decide (c = 0)) ++ "/" ++ toString cnt })
  | "lremnum" =>
    let c := parseInt (f.getD 2 "0"); let v := parseBytes (f.getD 3 "-")
    let o := ListDS.lremNum st.m k c v
    (st, { model := showOutcome toString o, specOk := none, cell := s!"lremnum/{cls}" })
  | "lset" =>
    let i := parseInt (f.getD 2 "0"); let v := parseBytes (f.getD 3 "-")
    let (m', o) := ListDS.lset st.m k i v
    let inRange := decide (0 ≤ i) && decide (i < n)
    let okk := if inRange then impl == "ok" else impl == "err"
    let s' := if inRange then ListDS.put st.s k (old.set i.toNat v) else st.s
    ({ m := m', s := s' }, { model := showOutcome (fun _ => "") o, specOk := some okk, spec := if inRange then "ok" else "err", cell := s!"lset/{cls}" })
  | "dump" =>
    -- model: exact map; spec: the non-empty lists must agree
    let want := showDump st.m
    let implMap : List (Bytes × List Bytes) :=
      let inner := stripBrackets (resPayload impl) '{' '}'
      if inner == "" then [] else (inner.splitOn ";").map fun kv =>
        match kv.splitOn "=" with
        | [a, b] => (parseBytes a, parseList b)
        | _ => ([], [])
    let okk := showDump (nonEmpty implMap) == showDump (nonEmpty st.s)
    (st, { model := "ok " ++ want, specOk := some okk, spec := "ok " ++ showDump (nonEmpty st.s), cell := "dump" })
  | _ => (st, { model := "bad-op", specOk := none })

end Nuts.Driver.ListSuite
