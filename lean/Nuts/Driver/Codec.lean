/-
  Driver for suite `codec`: model = Nuts.Model.Codec; spec = property C21 (round trip; a corrupted or
  truncated record yields an error, "absent", or exactly the record that was written).
-/
import Nuts.Driver.Common
import Nuts.Model.Codec
namespace Nuts.Driver.CodecSuite
open Nuts Nuts.Driver Nuts.Model.Codec

def nat (s : String) : Nat := s.toNat?.getD 0

def entryOf (f : List String) : Entry :=
  { bucket := parseBytes (f.getD 0 "-"), key := parseBytes (f.getD 1 "-"), value := parseBytes (f.getD 2 "-"),
    ts := nat (f.getD 3 "0"), ttl := nat (f.getD 4 "0"), flag := nat (f.getD 5 "0"), status := nat (f.getD 6 "0"),
    ds := nat (f.getD 7 "0"), txid := nat (f.getD 8 "0") }

def showEntry (e : Entry) : String :=
  s!"{hexOfBytes e.bucket} {hexOfBytes e.key} {hexOfBytes e.value} {e.ts} {e.ttl} {e.flag} {e.status} {e.ds} {e.txid}"

def showEntryRes : Outcome (Option Entry) → String
  | .ok (some e) => "ok " ++ showEntry e
  | .ok none => "ok nil"
  | .err => "err"
  | .panic => "panic"

def showMetaRes : Outcome Meta → String
  | .ok m => s!"ok {hexOfBytes m.start} {hexOfBytes m.stop}"
  | .err => "err"
  | .panic => "panic"

def showRootRes : Outcome (Option Root) → String
  | .ok (some r) => s!"ok {r.fid} {r.rootOff} {hexOfBytes r.start} {hexOfBytes r.stop}"
  | .ok none => "ok nil"
  | .err => "err"
  | .panic => "panic"

def flipAt (enc : Bytes) (pos mask : Nat) : Bytes :=
  enc.mapIdx fun i b => if i == pos then b ^^^ UInt8.ofNat mask else b

/-- corruption must never be served as data: an error, "absent", or exactly what was written -/
def corruptOk (impl want : String) : Bool := impl == "err" || impl == "ok nil" || impl == want

def region (pos hdr : Nat) (sizeFields : List (Nat × Nat)) : String :=
  if pos < 4 then "crc" else if sizeFields.any (fun (a, b) => a ≤ pos && pos < b) then "size"
  else if pos < hdr then "hdr" else "payload"

def step (st : Unit) (cmd : String) (impl : String) : Unit × Verdict :=
  let f := words cmd
  let op := f.headD ""
  let cls := (words impl).headD ""
  let v : Verdict :=
    match op with
    | "crc" =>
      let m := toString (crc32 (parseBytes (f.getD 1 "-"))).toNat
      { model := m, specOk := some (impl == m), spec := m, cell := "crc" }
    | "enc-entry" =>
      let m := hexOfBytes (encodeEntry (entryOf (f.drop 1)))
      { model := m, specOk := none, cell := "enc-entry" }
    | "rt-entry" =>
      let pre := parseBytes (f.getD 2 "-"); let post := parseBytes (f.getD 3 "-")
      let e := entryOf (f.drop 4)
      let m := showEntryRes (readEntry (f.getD 1 "0" == "1") (pre ++ encodeEntry e ++ post) pre.length)
      let want := "ok " ++ showEntry e
      { model := m, specOk := some (impl == want), spec := want, cell := s!"rt-entry/{f.getD 1 "0"}/{cls}" }
    | "cor-entry" =>
      let pre := parseBytes (f.getD 2 "-"); let post := parseBytes (f.getD 3 "-")
      let pos := nat (f.getD 4 "0")
      let e := entryOf (f.drop 6)
      let m := showEntryRes (readEntry (f.getD 1 "0" == "1") (pre ++ flipAt (encodeEntry e) pos (nat (f.getD 5 "0")) ++ post) pre.length)
      let want := "ok " ++ showEntry e
      { model := m, specOk := some (corruptOk impl want), spec := "err | ok nil",
        cell := s!"cor-entry/{f.getD 1 "0"}/{region pos 42 [(12, 20), (26, 30)]}/{impl == "err"}" }
    | "cut-entry" =>
      let pre := parseBytes (f.getD 2 "-")
      let e := entryOf (f.drop 4)
      let m := showEntryRes (readEntry (f.getD 1 "0" == "1") (pre ++ (encodeEntry e).take (nat (f.getD 3 "0"))) pre.length)
      let want := "ok " ++ showEntry e
      { model := m, specOk := some (corruptOk impl want), spec := "err | ok nil", cell := s!"cut-entry/{f.getD 1 "0"}/{impl == "err"}" }
    | "enc-meta" =>
      { model := hexOfBytes (encodeMeta { start := parseBytes (f.getD 1 "-"), stop := parseBytes (f.getD 2 "-") }), specOk := none, cell := "enc-meta" }
    | "rt-meta" =>
      let mt : Meta := { start := parseBytes (f.getD 2 "-"), stop := parseBytes (f.getD 3 "-") }
      let m := showMetaRes (readMeta (encodeMeta mt ++ parseBytes (f.getD 1 "-")))
      let want := showMetaRes (.ok mt)
      { model := m, specOk := some (impl == want), spec := want, cell := s!"rt-meta/{cls}" }
    | "cor-meta" =>
      let mt : Meta := { start := parseBytes (f.getD 4 "-"), stop := parseBytes (f.getD 5 "-") }
      let pos := nat (f.getD 2 "0")
      let m := showMetaRes (readMeta (flipAt (encodeMeta mt) pos (nat (f.getD 3 "0")) ++ parseBytes (f.getD 1 "-")))
      { model := m, specOk := some (corruptOk impl (showMetaRes (.ok mt))), spec := "err", cell := s!"cor-meta/{region pos 12 [(4, 12)]}/{impl == "err"}" }
    | "cut-meta" =>
      let mt : Meta := { start := parseBytes (f.getD 2 "-"), stop := parseBytes (f.getD 3 "-") }
      let m := showMetaRes (readMeta ((encodeMeta mt).take (nat (f.getD 1 "0"))))
      { model := m, specOk := some (corruptOk impl (showMetaRes (.ok mt))), spec := "err", cell := s!"cut-meta/{impl == "err"}" }
    | "enc-root" =>
      { model := hexOfBytes (encodeRoot { fid := nat (f.getD 1 "0"), rootOff := nat (f.getD 2 "0"), start := parseBytes (f.getD 3 "-"), stop := parseBytes (f.getD 4 "-") }),
        specOk := none, cell := "enc-root" }
    | "rt-root" =>
      let pre := parseBytes (f.getD 1 "-"); let post := parseBytes (f.getD 2 "-")
      let r : Root := { fid := nat (f.getD 3 "0"), rootOff := nat (f.getD 4 "0"), start := parseBytes (f.getD 5 "-"), stop := parseBytes (f.getD 6 "-") }
      let m := showRootRes (readRoot (pre ++ encodeRoot r ++ post) pre.length)
      -- a record whose four numeric fields are all zero is the reader's end marker
      let zero := r.fid == 0 && r.rootOff == 0 && r.start.isEmpty && r.stop.isEmpty
      let want := if zero then "ok nil" else showRootRes (.ok (some r))
      { model := m, specOk := some (impl == want), spec := want, cell := s!"rt-root/{cls}/{zero}" }
    | "cor-root" =>
      let pre := parseBytes (f.getD 1 "-"); let post := parseBytes (f.getD 2 "-")
      let pos := nat (f.getD 3 "0")
      let r : Root := { fid := nat (f.getD 5 "0"), rootOff := nat (f.getD 6 "0"), start := parseBytes (f.getD 7 "-"), stop := parseBytes (f.getD 8 "-") }
      let m := showRootRes (readRoot (pre ++ flipAt (encodeRoot r) pos (nat (f.getD 4 "0")) ++ post) pre.length)
      { model := m, specOk := some (corruptOk impl (showRootRes (.ok (some r)))), spec := "err | ok nil",
        cell := s!"cor-root/{region pos 28 [(20, 28)]}/{impl == "err"}" }
    | "cut-root" =>
      let pre := parseBytes (f.getD 1 "-")
      let r : Root := { fid := nat (f.getD 3 "0"), rootOff := nat (f.getD 4 "0"), start := parseBytes (f.getD 5 "-"), stop := parseBytes (f.getD 6 "-") }
      let m := showRootRes (readRoot (pre ++ (encodeRoot r).take (nat (f.getD 2 "0"))) pre.length)
      { model := m, specOk := some (corruptOk impl (showRootRes (.ok (some r)))), spec := "err | ok nil", cell := s!"cut-root/{impl == "err"}" }
    | _ => { model := "bad-op", specOk := none }
  (st, v)

end Nuts.Driver.CodecSuite
