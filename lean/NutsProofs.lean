import NutsProofs.Props.C05
