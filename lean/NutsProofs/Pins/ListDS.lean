/-
  NutsProofs.Pins.ListDS — ds/list/list.go
  (One module per pinned piece of source, so that a change to that piece breaks the obligations of the
  properties that rest on it and no others.)
-/
import NutsGen.Facts
namespace NutsProofs.Facts
open NutsGen.F

/-- ds/list/list.go, every function: what `Nuts.Model.ListDS` renders outside the regenerated integer kernels -/
def expectedListStmts : List (String × String × String) := [
  ("list.go:RPop", "call", "l.RPeek(key)"),
  ("list.go:RPop", "call", "append(l.Items[key][:0:0], l.Items[key][0:size-1]...)"),
  ("list.go:RPeek", "if", "!ok"),
  ("list.go:RPeek", "call", "l.Size(key)"),
  ("list.go:RPeek", "if", "size > 0"),
  ("list.go:RPush", "range", "values"),
  ("list.go:RPush", "call", "append(l.Items[key], value)"),
  ("list.go:RPush", "return", "l.Size(key)"),
  ("list.go:LPush", "call", "l.Size(key)"),
  ("list.go:LPush", "for", "i = 1; i <= size; i++"),
  ("list.go:LPush", "if", "i-1 < size"),
  ("list.go:LPush", "for", "i = valueLen - 1; i >= 0; i--"),
  ("list.go:LPop", "call", "l.LPeek(key)"),
  ("list.go:LPop", "if", "l.Items[key] != nil"),
  ("list.go:LPop", "call", "append(l.Items[key][:0:0], l.Items[key][1:]...)"),
  ("list.go:LPop", "return", "errors.New(\"list is empty\")"),
  ("list.go:LPeek", "if", "!ok"),
  ("list.go:LPeek", "if", "size > 0"),
  ("list.go:LPeek", "call", "l.Size(key)"),
  ("list.go:Size", "if", "!ok"),
  ("list.go:Size", "return", "len(l.Items[key])"),
  ("list.go:LRange", "call", "l.Size(key)"),
  ("list.go:LRange", "if", "start >= 0 && end < 0"),
  ("list.go:LRange", "if", "start < 0 && end >= 0"),
  ("list.go:LRange", "if", "start < 0 && end < 0"),
  ("list.go:LRange", "if", "start < 0"),
  ("list.go:LRange", "if", "end >= size"),
  ("list.go:LRange", "if", "start > end"),
  ("list.go:LRange", "return", "errors.New(\"start or end error\")"),
  ("list.go:LRem", "if", "!ok"),
  ("list.go:LRem", "call", "l.Size(key)"),
  ("list.go:LRem", "if", "count < -size"),
  ("list.go:LRem", "call", "l.LRemNum(key, count, value)"),
  ("list.go:LRem", "if", "needRemovedNum == 0"),
  ("list.go:LRem", "if", "count == 0"),
  ("list.go:LRem", "if", "count > 0"),
  ("list.go:LRem", "range", "tempVal"),
  ("list.go:LRem", "if", "realRemovedNum < count && bytes.Equal(v, value)"),
  ("list.go:LRem", "if", "count < 0"),
  ("list.go:LRem", "for", "i := size - 1; i >= 0; i--"),
  ("list.go:LRem", "if", "realRemovedNum < count && bytes.Equal(v, value)"),
  ("list.go:LRem", "for", "i := 0; i < newTempValLen/2; i++"),
  ("list.go:LRemNum", "if", "!ok"),
  ("list.go:LRemNum", "call", "l.Size(key)"),
  ("list.go:LRemNum", "if", "count > size"),
  ("list.go:LRemNum", "if", "count < -size"),
  ("list.go:LRemNum", "if", "count < 0"),
  ("list.go:LRemNum", "range", "tempVal"),
  ("list.go:LRemNum", "if", "count > 0 && (removedNum == count)"),
  ("list.go:LRemNum", "if", "bytes.Equal(v, value)"),
  ("list.go:LSet", "if", "!ok"),
  ("list.go:LSet", "call", "l.Size(key)"),
  ("list.go:LSet", "if", "index >= size || index < 0"),
  ("list.go:Ltrim", "if", "!ok"),
  ("list.go:Ltrim", "call", "l.LRange(key, start, end)"),
  ("list.go:Ltrim", "call", "append(l.Items[key][:0:0], newItems...)")]

theorem list_stmts_ok : listStmts = expectedListStmts := by decide +kernel

end NutsProofs.Facts
