/-
  NutsProofs.Pins.ReadPath — tx_bptree.go: the key/value read path
  (One module per pinned piece of source, so that a change to that piece breaks the obligations of the
  properties that rest on it and no others.)
-/
import NutsGen.Facts
namespace NutsProofs.Facts
open NutsGen.F

/-- the conditions and loop headers of the key/value read path of tx_bptree.go that the models of the RAM modes
(`Nuts.Model.DB`: `get`, `getAll`, `rangeScan`, `prefixScan`, `wrapper`) and of the sparse mode
(`Nuts.Model.Sparse`: `get`, `getOnDisk`, `rangeSelects`, `processEntries`, …) were written from -/
def expectedReadPathStmts : List (String × String × String) := [
  ("getByHintBPTSparseIdxInMem", "if", "err == nil && r != nil"),
  ("getByHintBPTSparseIdxOnDisk", "range", "tx.db.BPTreeRootIdxes"),
  ("getByHintBPTSparseIdxOnDisk", "sort", "SortFID(bptSparseIdxGroup, func(p, q *BPTreeRootIdx) bool { return p.fID > q.fID })"),
  ("getByHintBPTSparseIdxOnDisk", "range", "bptSparseIdxGroup"),
  ("getByHintBPTSparseIdxOnDisk", "if", "compare(newKey, bptSparse.start) >= 0 && compare(newKey, bptSparse.end) <= 0"),
  ("getByHintBPTSparseIdxOnDisk", "if", "err == nil && e != nil"),
  ("getByHintBPTSparseIdxOnDisk", "if", "e.Meta.Flag == DataDeleteFlag || IsExpired(e.Meta.TTL, e.Meta.timestamp)"),
  ("getByHintBPTSparseIdxOnDisk", "if", "!ok"),
  ("getByHintBPTSparseIdx", "if", "entry != nil && err == nil"),
  ("getByHintBPTSparseIdx", "if", "entry.Meta.Flag == DataDeleteFlag || IsExpired(entry.Meta.TTL, entry.Meta.timestamp)"),
  ("getByHintBPTSparseIdx", "if", "entry != nil && err == nil"),
  ("Get", "if", "idxMode == HintBPTSparseIdxMode"),
  ("Get", "if", "idxMode == HintKeyValAndRAMIdxMode || idxMode == HintKeyAndRAMIdxMode"),
  ("Get", "if", "ok"),
  ("Get", "if", "!ok"),
  ("Get", "if", "r.H.meta.Flag == DataDeleteFlag || r.IsExpired()"),
  ("Get", "if", "idxMode == HintKeyValAndRAMIdxMode"),
  ("Get", "if", "idxMode == HintKeyAndRAMIdxMode"),
  ("GetAll", "if", "idxMode == HintBPTSparseIdxMode"),
  ("GetAll", "if", "idxMode == HintKeyValAndRAMIdxMode || idxMode == HintKeyAndRAMIdxMode"),
  ("GetAll", "if", "ok"),
  ("GetAll", "if", "len(entries) == 0"),
  ("RangeScan", "if", "tx.db.opt.EntryIdxMode == HintBPTSparseIdxMode"),
  ("RangeScan", "if", "err == nil && records != nil"),
  ("RangeScan", "range", "records"),
  ("RangeScan", "if", "len(es) == 0"),
  ("RangeScan", "if", "ok"),
  ("RangeScan", "if", "len(es) == 0"),
  ("rangeScanOnDisk", "sort", "SortFID(bptSparseIdxGroup, func(p, q *BPTreeRootIdx) bool { return p.fID > q.fID })"),
  ("rangeScanOnDisk", "range", "bptSparseIdxGroup"),
  ("rangeScanOnDisk", "if", "compare(newStart, bptSparseIdx.start) <= 0 && compare(bptSparseIdx.start, newEnd) <= 0 || compare(newStart, bptSparseIdx.end) <= 0 && compare(bptSparseIdx.end, newEnd) <= 0"),
  ("prefixScanOnDisk", "sort", "SortFID(bptSparseIdxGroup, func(p, q *BPTreeRootIdx) bool { return p.fID > q.fID })"),
  ("prefixScanOnDisk", "range", "bptSparseIdxGroup"),
  ("prefixScanOnDisk", "if", "compare(newPrefix, bptSparseIdx.start) <= 0 || compare(newPrefix, bptSparseIdx.end) <= 0"),
  ("prefixScanOnDisk", "if", "len(result) == limitNum"),
  ("prefixSearchScanOnDisk", "sort", "SortFID(bptSparseIdxGroup, func(p, q *BPTreeRootIdx) bool { return p.fID > q.fID })"),
  ("prefixSearchScanOnDisk", "range", "bptSparseIdxGroup"),
  ("prefixSearchScanOnDisk", "if", "compare(newPrefix, bptSparseIdx.start) <= 0 || compare(newPrefix, bptSparseIdx.end) <= 0"),
  ("prefixSearchScanOnDisk", "if", "len(result) == limitNum"),
  ("processEntriesScanOnDisk", "range", "entriesTemp"),
  ("processEntriesScanOnDisk", "if", "!ok"),
  ("processEntriesScanOnDisk", "range", "keys"),
  ("processEntriesScanOnDisk", "if", "!IsExpired(es[key].Meta.TTL, es[key].Meta.timestamp) && es[key].Meta.Flag != DataDeleteFlag"),
  ("prefixScanByHintBPTSparseIdx", "if", "err == nil && records != nil"),
  ("prefixScanByHintBPTSparseIdx", "range", "records"),
  ("prefixScanByHintBPTSparseIdx", "if", "len(es) == limitNum"),
  ("prefixScanByHintBPTSparseIdx", "if", "leftNum > 0"),
  ("prefixScanByHintBPTSparseIdx", "if", "len(es) == 0"),
  ("prefixSearchScanByHintBPTSparseIdx", "if", "err == nil && records != nil"),
  ("prefixSearchScanByHintBPTSparseIdx", "range", "records"),
  ("prefixSearchScanByHintBPTSparseIdx", "if", "len(es) == limitNum"),
  ("prefixSearchScanByHintBPTSparseIdx", "if", "leftNum > 0"),
  ("prefixSearchScanByHintBPTSparseIdx", "if", "len(es) == 0"),
  ("PrefixScan", "if", "tx.db.opt.EntryIdxMode == HintBPTSparseIdxMode"),
  ("PrefixScan", "if", "ok"),
  ("PrefixScan", "if", "len(es) == 0"),
  ("PrefixSearchScan", "if", "tx.db.opt.EntryIdxMode == HintBPTSparseIdxMode"),
  ("PrefixSearchScan", "if", "ok"),
  ("PrefixSearchScan", "if", "len(es) == 0"),
  ("getHintIdxDataItemsWrapper", "range", "records"),
  ("getHintIdxDataItemsWrapper", "if", "r.H.meta.Flag == DataDeleteFlag || r.IsExpired()"),
  ("getHintIdxDataItemsWrapper", "if", "limitNum > 0 && len(es) < limitNum || limitNum == ScanNoLimit"),
  ("getHintIdxDataItemsWrapper", "if", "idxMode == HintKeyAndRAMIdxMode"),
  ("getHintIdxDataItemsWrapper", "if", "idxMode == HintKeyValAndRAMIdxMode")]

/-- **the read path, regenerated**: dead-record tests, mode dispatch, segment-selection tests, newest-first order,
limit tests — the lines listed above are the ones in the tree now. -/
theorem read_path_ok : readPathStmts = expectedReadPathStmts := by decide +kernel

end NutsProofs.Facts
