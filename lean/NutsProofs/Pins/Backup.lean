/-
  NutsProofs.Pins.Backup — db.go: the shape of Backup
  (One module per pinned piece of source, so that a change to that piece breaks the obligations of the
  properties that rest on it and no others.)
-/
import NutsGen.Facts
namespace NutsProofs.Facts
open NutsGen.F

/-- **`Backup` is one read transaction.** Regenerated from db.go: the body of `DB.Backup` outside the function
literal does nothing but call `db.View` (no file-system call, no other nutsdb call, no field of `*DB`), and the
literal handed to `View` calls `filesystem.CopyDir` and nothing else — so every byte Backup reads from the
directory is read while the read lock of the transaction is held. -/
theorem backup_under_read_lock : backupShape = (["DB.View"], [], ["filesystem.CopyDir"]) := by decide

end NutsProofs.Facts
