/-
  NutsProofs.Pins.TxApiList — the transactional API: tx_list.go
  (One module per pinned piece of source, so that a change to that piece breaks the obligations of the
  properties that rest on it and no others.)
-/
import NutsGen.Facts
namespace NutsProofs.Facts
open NutsGen.F

/-- the statements of the named files among `txApiStmts` -/
def txApiOfList : List (String × String × String) :=
  txApiStmts.filter (fun s => (s.1.toList.takeWhile (· != ':') == "tx_list.go".toList))

/-- the lines of tx_list.go that `Nuts.Model.Tx` was written from: what each call validates against the committed
state and which record it queues -/
def expectedTxApiList : List (String × String × String) := [
  ("tx_list.go:RPop", "call", "tx.RPeek(bucket, key)"),
  ("tx_list.go:RPop", "return", "tx.push(bucket, key, DataRPopFlag, item)"),
  ("tx_list.go:RPeek", "call", "tx.checkTxIsClosed()"),
  ("tx_list.go:RPeek", "if", "!ok"),
  ("tx_list.go:RPeek", "call", "tx.db.ListIdx[bucket].RPeek(string(key))"),
  ("tx_list.go:push", "range", "values"),
  ("tx_list.go:push", "call", "tx.put(bucket, key, value, Persistent, flag, uint64(time.Now().Unix()), DataStructureList)"),
  ("tx_list.go:RPush", "call", "tx.checkTxIsClosed()"),
  ("tx_list.go:RPush", "if", "strings.Contains(string(key), SeparatorForListKey)"),
  ("tx_list.go:RPush", "return", "ErrSeparatorForListKey()"),
  ("tx_list.go:RPush", "return", "tx.push(bucket, key, DataRPushFlag, values...)"),
  ("tx_list.go:LPush", "call", "tx.checkTxIsClosed()"),
  ("tx_list.go:LPush", "if", "strings.Contains(string(key), SeparatorForListKey)"),
  ("tx_list.go:LPush", "return", "ErrSeparatorForListKey()"),
  ("tx_list.go:LPush", "return", "tx.push(bucket, key, DataLPushFlag, values...)"),
  ("tx_list.go:LPop", "call", "tx.LPeek(bucket, key)"),
  ("tx_list.go:LPop", "return", "tx.push(bucket, key, DataLPopFlag, item)"),
  ("tx_list.go:LPeek", "call", "tx.checkTxIsClosed()"),
  ("tx_list.go:LPeek", "if", "!ok"),
  ("tx_list.go:LPeek", "call", "tx.db.ListIdx[bucket].LPeek(string(key))"),
  ("tx_list.go:LSize", "call", "tx.checkTxIsClosed()"),
  ("tx_list.go:LSize", "if", "!ok"),
  ("tx_list.go:LSize", "return", "tx.db.ListIdx[bucket].Size(string(key))"),
  ("tx_list.go:LRange", "call", "tx.checkTxIsClosed()"),
  ("tx_list.go:LRange", "if", "!ok"),
  ("tx_list.go:LRange", "return", "tx.db.ListIdx[bucket].LRange(string(key), start, end)"),
  ("tx_list.go:LRem", "call", "tx.LSize(bucket, key)"),
  ("tx_list.go:LRem", "if", "count > size || count < -size"),
  ("tx_list.go:LRem", "call", "buffer.Write([]byte(strconv2.IntToStr(count)))"),
  ("tx_list.go:LRem", "call", "buffer.Write([]byte(SeparatorForListKey))"),
  ("tx_list.go:LRem", "call", "buffer.Write(value)"),
  ("tx_list.go:LRem", "call", "buffer.Bytes()"),
  ("tx_list.go:LRem", "call", "tx.push(bucket, key, DataLRemFlag, newValue)"),
  ("tx_list.go:LRem", "call", "tx.db.ListIdx[bucket].LRemNum(string(key), count, value)"),
  ("tx_list.go:LSet", "call", "tx.checkTxIsClosed()"),
  ("tx_list.go:LSet", "if", "!ok"),
  ("tx_list.go:LSet", "if", "!ok"),
  ("tx_list.go:LSet", "call", "tx.LSize(bucket, key)"),
  ("tx_list.go:LSet", "if", "index < 0 || index >= size"),
  ("tx_list.go:LSet", "call", "buffer.Write(key)"),
  ("tx_list.go:LSet", "call", "buffer.Write([]byte(SeparatorForListKey))"),
  ("tx_list.go:LSet", "call", "[]byte(strconv2.IntToStr(index))"),
  ("tx_list.go:LSet", "call", "buffer.Write(indexBytes)"),
  ("tx_list.go:LSet", "call", "buffer.Bytes()"),
  ("tx_list.go:LSet", "return", "tx.push(bucket, newKey, DataLSetFlag, value)"),
  ("tx_list.go:LTrim", "call", "tx.checkTxIsClosed()"),
  ("tx_list.go:LTrim", "if", "!ok"),
  ("tx_list.go:LTrim", "if", "!ok"),
  ("tx_list.go:LTrim", "call", "tx.LRange(bucket, key, start, end)"),
  ("tx_list.go:LTrim", "call", "buffer.Write(key)"),
  ("tx_list.go:LTrim", "call", "buffer.Write([]byte(SeparatorForListKey))"),
  ("tx_list.go:LTrim", "call", "buffer.Write([]byte(strconv2.IntToStr(start)))"),
  ("tx_list.go:LTrim", "call", "buffer.Bytes()"),
  ("tx_list.go:LTrim", "return", "tx.push(bucket, newKey, DataLTrimFlag, []byte(strconv2.IntToStr(end)))"),
  ("tx_list.go:ErrSeparatorForListKey", "return", "errors.New(\"contain separator (\" + SeparatorForListKey + \") for List key\")")
]

theorem tx_api_list_ok : txApiOfList = expectedTxApiList := by decide +kernel

end NutsProofs.Facts
