/-
  NutsProofs.Pins.Commit — the structure of the write loop of `Tx.Commit` (C10, C11, C12, and the recovery lemmas)
-/
import NutsGen.Facts
namespace NutsProofs.Facts
open NutsGen.F

/-! ### Commit structure (C10, C11, C12) -/

def items (k : String) : List (String × String × String) := commitLoop.filter (·.1 == k)

/-- the commit marker is assigned in exactly one place, under `i == lastIndex`, before the write -/
theorem commit_marker_last_only :
    items "status" = [("status", "i == lastIndex", "entry.Meta.status = Committed")] ∧
    (commitLoop.findIdx? (·.1 == "status")).isSome ∧
    (commitLoop.findIdx? (·.1 == "status")).getD 99 < (commitLoop.findIdx? (·.1 == "write")).getD 0 := by
  decide

/-- one unconditional write per record; the next step that is not its error return is the sync,
guarded by exactly `SyncEnable`; offsets advance only afterwards -/
theorem commit_sync_follows_write :
    items "write" = [("write", "", "tx.db.ActiveFile.WriteAt(entry.Encode(), tx.db.ActiveFile.writeOff)")] ∧
    items "sync" = [("sync", "tx.db.opt.SyncEnable", "tx.db.ActiveFile.rwManager.Sync()")] ∧
    (((commitLoop.dropWhile (·.1 != "write")).map (·.1)).take 4) = ["write", "return", "sync", "return"] ∧
    (commitLoop.findIdx? (·.1 == "sync")).getD 99 < (commitLoop.findIdx? (·.1 == "advance")).getD 0 := by
  decide

/-- the transaction id is recorded as committed only for the last record and only after its write -/
theorem commit_ids_after_last_write :
    items "committedIds" = [("committedIds", "i == lastIndex && !(tx.db.opt.EntryIdxMode == HintBPTSparseIdxMode)", "tx.db.committedTxIds[txID]")] ∧
    (commitLoop.findIdx? (·.1 == "write")).getD 99 < (commitLoop.findIdx? (·.1 == "committedIds")).getD 0 := by
  decide

/-- the size tests: an entry larger than the segment is refused before anything else happens to it;
rotation exactly when the record does not fit in the active file -/
theorem commit_size_tests :
    commitLoop.head? = some ("return", "entrySize > tx.db.opt.SegmentSize", "return ErrKeyAndValSize") ∧
    items "rotate" = [("rotate", "tx.db.ActiveFile.ActualSize+entrySize > tx.db.opt.SegmentSize", "tx.rotateActiveFile()")] := by
  decide

/-- KV records are indexed inside the loop (this is what makes finding D-COMMIT-PARTIAL possible) -/
theorem commit_indexes_kv_in_loop :
    items "indexKV" = [("indexKV", "entry.Meta.ds == DataStructureBPTree", "tx.buildBPTreeIdx(bucket, entry, e, off, countFlag)")] := by
  decide

end NutsProofs.Facts
