/-
  NutsProofs.Pins.Locks — the regenerated lock protocol and effect facts (C14, C17): which exported methods take
  and release `db.mu`, which may write shared locations, what Merge's body and its rewrite transaction touch.
  (Its own module: the effect sets change with almost any change to a `Tx` method, and only the concurrency
  properties rest on them.)
-/
import NutsGen.Facts
namespace NutsProofs.Facts
open NutsGen.F

/-! ### Locks and effects (C14, C17, C18) -/

def eff (r m : String) : List String × List String :=
  ((effects.find? fun p => p.1 == r && p.2.1 == m).map (·.2.2)).getD (["<missing>"], ["<missing>"])
def lck (r m : String) : List String × List String :=
  ((lockOps.find? fun p => p.1 == r && p.2.1 == m).map (·.2.2)).getD (["<missing>"], ["<missing>"])

/-- the lock of a transaction is `db.mu`, taken by `Tx.lock` (write or read side) and released by
`Tx.unlock`; among the exported methods only `DB.Begin` (and what calls it) acquires, only `Commit` and
`Rollback` release; no other `Tx` method touches a mutex -/
theorem lock_protocol_ok :
    lockPrims = [("Tx.lock", ["DB.mu.Lock", "DB.mu.RLock"]), ("Tx.unlock", ["DB.mu.RUnlock", "DB.mu.Unlock"])] ∧
    lck "Tx" "Commit" = (["DB.mu.RUnlock", "DB.mu.Unlock"], []) ∧ lck "Tx" "Rollback" = (["DB.mu.RUnlock", "DB.mu.Unlock"], []) ∧
    (lockOps.filter fun p => p.1 == "Tx" && !(p.2.2.1.isEmpty && p.2.2.2.isEmpty)).map (·.2.1) = ["Commit", "Rollback"] ∧
    (lck "DB" "Begin").1 = ["DB.mu.Lock", "DB.mu.RLock", "DB.mu.RUnlock", "DB.mu.Unlock"] := by
  decide

/-- methods of `Tx` other than Commit/Rollback that may write a shared location, with what they may write.
Everything else — every read, and every mutating call, which only appends to the transaction's own
pending list — writes nothing shared (**ReadPure**). The listed ones:
  * (until fix 797db8f the sparse-mode scans were listed too: they sorted `db.BPTreeRootIdxes` in place,
    finding D-SORTFID; they sort a copy now, and the analysis charges a sort to the call site only when
    the slice is not one the caller made);
  * `SMove*`: mutate the committed set index (finding D-SMOVE);
  * `ZRangeByRank`: an imprecision of the flow-insensitive analysis — `GetByRankRange(start, end, remove)`
    contains the removal code, which `ZRangeByRank` disables by passing `remove = false`. -/
def impureTxMethods : List (String × List String) := [
  ("SMoveByOneBucket", ["Set.M{}", "map{}"]), ("SMoveByTwoBuckets", ["Set.M{}", "map{}"]),
  ("ZRangeByRank", ["SortedSet.Dict{}", "SortedSet.length", "SortedSet.level", "SortedSet.tail", "SortedSetLevel.forward",
    "SortedSetLevel.span", "SortedSetNode.backward"])]

theorem read_pure_except :
    ((effects.filter fun p => p.1 == "Tx" && p.2.1 != "Commit" && p.2.1 != "Rollback" && !(p.2.2.1.isEmpty && p.2.2.2.isEmpty)).map
      fun p => (p.2.1, p.2.2.1)) = impureTxMethods ∧
    (effects.filter fun p => p.1 == "Tx" && p.2.1 != "Commit" && p.2.1 != "Rollback" && !p.2.2.2.isEmpty) = [] := by
  decide

/-- package-level state written on the commit path: none (the B+ tree writer's `queue`, shared by all
databases of the process, was finding D-QUEUE, fixed in 0158d51); `Begin` touches the transaction-id
registry under its own mutex -/
theorem globals_ok :
    (eff "Tx" "Commit").2 = [] ∧ eff "DB" "Begin" = ([], ["txIDNodes{}"]) ∧
    (lck "DB" "Begin").2 = ["txIDNodesMu.Lock", "txIDNodesMu.Unlock"] := by
  decide

/-- `DB.Merge`'s own body takes no lock and writes `db.isMerging` (everything else it does to shared state
goes through the write transaction of `reWriteData`, but its reads of the indexes and files are unlocked:
finding D-MERGE-NOLOCK) -/
theorem merge_body_ok : mergeBody = (["DB.isMerging"], []) := by decide

/-- everything else Merge does goes through these functions: the file scan (`NewDataFile`, `ReadAt`), the
three tests of an entry, the rewrite transaction (`reWriteData` — the only one that locks), path helpers
and the closing of the scanned file -/
theorem merge_calls_ok :
    mergeCalls = ["DB.getDataPath", "DB.getMaxFileIDAndFileIDs", "DB.getPendingMergeEntries", "DB.getRecordFromKey", "DB.isFilterEntry",
                  "DB.reWriteData", "DataFile.ReadAt", "Entry.Size", "FileIORWManager.Close", "MMapRWManager.Close", "NewDataFile"] := by
  decide

/-- the rewrite transaction of Merge touches the database only after its `db.Begin(true)`: no field of
`*DB` is read or written, and no nutsdb function is called, at a point the call of `Begin` does not dominate
(computed on the SSA of `reWriteData` by dominance) -/
theorem rewrite_under_lock : rewriteUnlocked = [] := by decide

end NutsProofs.Facts
