/-
  NutsProofs.Pins.Layouts — encoder / decoder field layouts and CRC coverage of the three codecs (C21)
-/
import NutsGen.Facts
namespace NutsProofs.Facts
open NutsGen.F

/-! ### Codec layouts (C21) -/

def fieldsOf (l : List (String × Nat × Nat × Nat)) : List (Nat × Nat × Nat) := l.map fun (_, a, b, w) => (a, b, w)

/-- encoder and decoder agree on every header field of the three codecs -/
theorem layouts_agree :
    fieldsOf entryEnc = fieldsOf entryDec ∧ fieldsOf metaEnc = fieldsOf metaDec ∧ fieldsOf rootEnc = fieldsOf rootDec := by
  decide

/-- every field's slice has the width of its integer type, fields are disjoint and cover the header -/
def wf (l : List (String × Nat × Nat × Nat)) (size : Nat) : Bool :=
  l.all (fun (_, a, b, w) => a + w == b && b ≤ size) &&
  (l.map fun (_, _, _, w) => w).sum == size &&
  l.all fun (n1, a1, b1, _) => l.all fun (n2, a2, b2, _) => n1 == n2 || b1 ≤ a2 || b2 ≤ a1

theorem layouts_wf : wf entryEnc 42 = true ∧ wf metaEnc 12 = true ∧ wf rootEnc 28 = true := by
  decide

/-- the checksum covers everything after the crc field, then the payloads in storage order -/
theorem crc_coverage_ok :
    entryCrcEnc = ["buf[4:]"] ∧ entryCrcDec = ["buf[4:]", "e.Meta.bucket", "e.Key", "e.Value"] ∧
    metaCrcEnc = ["buf[4:]"] ∧ metaCrcDec = ["buf[4:]", "bm.start", "bm.end"] ∧
    rootCrcEnc = ["buf[4:]"] ∧ rootCrcDec = ["buf[4:]", "bri.start", "bri.end"] := by
  decide

end NutsProofs.Facts
