/-
  NutsProofs.Pins.Zset — ds/zset: span statements, loops over levels, search-loop conditions, score tests
  (One module per pinned piece of source, so that a change to that piece breaks the obligations of the
  properties that rest on it and no others.)
-/
import NutsGen.Facts
namespace NutsProofs.Facts
open NutsGen.F

/-- the lines of ds/zset/sortedset.go that `Nuts.Model.Skiplist` was written from: every statement on a span,
on `rank[]`, on `traversed`, every loop over levels, every search-loop condition, every score / forward test -/
def expectedSpanStmts : List (String × String × String) := [
  ("insertNode", "for", "i := ss.level - 1; i >= 0; i--"),
  ("insertNode", "assign", "rank[i] = 0"),
  ("insertNode", "assign", "rank[i] = rank[i+1]"),
  ("insertNode", "while", "x.level[i].forward != nil && (x.level[i].forward.score < score || (x.level[i].forward.score == score && x.level[i].forward.key < key))"),
  ("insertNode", "assign", "rank[i] += x.level[i].span"),
  ("insertNode", "for", "i := ss.level; i < level; i++"),
  ("insertNode", "assign", "rank[i] = 0"),
  ("insertNode", "assign", "update[i].level[i].span = ss.length"),
  ("insertNode", "for", "i := 0; i < level; i++"),
  ("insertNode", "assign", "x.level[i].span = update[i].level[i].span - (rank[0] - rank[i])"),
  ("insertNode", "assign", "update[i].level[i].span = (rank[0] - rank[i]) + 1"),
  ("insertNode", "for", "i := level; i < ss.level; i++"),
  ("insertNode", "incdec", "update[i].level[i].span++"),
  ("insertNode", "if", "x.level[0].forward != nil"),
  ("deleteNode", "for", "i := 0; i < ss.level; i++"),
  ("deleteNode", "if", "update[i].level[i].forward == x"),
  ("deleteNode", "assign", "update[i].level[i].span += x.level[i].span - 1"),
  ("deleteNode", "assign", "update[i].level[i].span -= 1"),
  ("deleteNode", "if", "x.level[0].forward != nil"),
  ("deleteNode", "while", "ss.level > 1 && ss.header.level[ss.level-1].forward == nil"),
  ("delete", "for", "i := ss.level - 1; i >= 0; i--"),
  ("delete", "while", "x.level[i].forward != nil && (x.level[i].forward.score < score || (x.level[i].forward.score == score && x.level[i].forward.key < key))"),
  ("delete", "if", "x != nil && score == x.score && x.key == key"),
  ("Put", "if", "n.score == score"),
  ("searchForward", "for", "i := ss.level - 1; i >= 0; i--"),
  ("searchForward", "while", "x.level[i].forward != nil && x.level[i].forward.score <= start"),
  ("searchForward", "for", "i := ss.level - 1; i >= 0; i--"),
  ("searchForward", "while", "x.level[i].forward != nil && x.level[i].forward.score < start"),
  ("searchForward", "while", "x != nil && limit > 0"),
  ("searchForward", "if", "x.score >= end"),
  ("searchForward", "if", "x.score > end"),
  ("searchReverse", "for", "i := ss.level - 1; i >= 0; i--"),
  ("searchReverse", "while", "x.level[i].forward != nil && x.level[i].forward.score < end"),
  ("searchReverse", "for", "i := ss.level - 1; i >= 0; i--"),
  ("searchReverse", "while", "x.level[i].forward != nil && x.level[i].forward.score <= end"),
  ("searchReverse", "while", "x != nil && limit > 0"),
  ("searchReverse", "if", "x.score <= start"),
  ("searchReverse", "if", "x.score < start"),
  ("GetByRankRange", "assign", "traversed = 0"),
  ("GetByRankRange", "for", "i := ss.level - 1; i >= 0; i--"),
  ("GetByRankRange", "while", "x.level[i].forward != nil && traversed+int(x.level[i].span) < start"),
  ("GetByRankRange", "assign", "traversed += int(x.level[i].span)"),
  ("GetByRankRange", "if", "traversed+1 == start"),
  ("GetByRankRange", "incdec", "traversed++"),
  ("GetByRankRange", "while", "x != nil && traversed <= end"),
  ("GetByRankRange", "incdec", "traversed++"),
  ("FindRank", "for", "i := ss.level - 1; i >= 0; i--"),
  ("FindRank", "while", "x.level[i].forward != nil && (x.level[i].forward.score < node.score || (x.level[i].forward.score == node.score && x.level[i].forward.key <= node.key))"),
  ("FindRank", "assign", "rank += int(x.level[i].span)")]

/-- **the skiplist's span arithmetic and search conditions, regenerated.** The source lines listed above are
the ones in the tree now (same functions, same order, same text): a changed span update, rank accumulation,
loop condition or bound test in ds/zset breaks this obligation. -/
theorem span_arithmetic_ok : spanStmts = expectedSpanStmts := by decide +kernel

end NutsProofs.Facts
