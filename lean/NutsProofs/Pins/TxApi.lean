/-
  NutsProofs.Pins.TxApi — the transactional API: tx.go (`put`, `checkTxIsClosed`) and the key/value writes of tx_bptree.go
  (One module per pinned piece of source, so that a change to that piece breaks the obligations of the
  properties that rest on it and no others.)
-/
import NutsGen.Facts
namespace NutsProofs.Facts
open NutsGen.F

/-- the statements of the named files among `txApiStmts` -/
def txApiOfCore : List (String × String × String) :=
  txApiStmts.filter (fun s => (s.1.toList.takeWhile (· != ':') == "tx.go".toList) || (s.1.toList.takeWhile (· != ':') == "tx_bptree.go".toList))

/-- the lines of tx.go (`put`, `checkTxIsClosed`) and the key/value writes of tx_bptree.go that `Nuts.Model.Tx` was written from: what each call validates against the committed
state and which record it queues -/
def expectedTxApiCore : List (String × String × String) := [
  ("tx.go:checkTxIsClosed", "if", "tx.db == nil"),
  ("tx.go:put", "call", "tx.checkTxIsClosed()"),
  ("tx.go:put", "if", "!tx.writable"),
  ("tx.go:put", "if", "len(key) == 0"),
  ("tx.go:put", "call", "append(tx.pendingWrites, &Entry{ Key: key, Value: value, Meta: &MetaData{ keySize: uint32(len(key)), valueSize: uint32(len(value)), timestamp: timestamp, Flag: flag, TTL: ttl, bucket: []byte(bucket), bucketSize: uint32(len(bucket)), status: UnCommitted, ds: ds, txID: tx.id, }, })"),
  ("tx_bptree.go:Delete", "call", "tx.checkTxIsClosed()"),
  ("tx_bptree.go:Delete", "return", "tx.put(bucket, key, nil, Persistent, DataDeleteFlag, uint64(time.Now().Unix()), DataStructureBPTree)")
]

theorem tx_api_core_ok : txApiOfCore = expectedTxApiCore := by decide +kernel

end NutsProofs.Facts
