/-
  NutsProofs.Pins.TxApiZset — the transactional API: tx_zset.go
  (One module per pinned piece of source, so that a change to that piece breaks the obligations of the
  properties that rest on it and no others.)
-/
import NutsGen.Facts
namespace NutsProofs.Facts
open NutsGen.F

/-- the statements of the named files among `txApiStmts` -/
def txApiOfZset : List (String × String × String) :=
  txApiStmts.filter (fun s => (s.1.toList.takeWhile (· != ':') == "tx_zset.go".toList))

/-- the lines of tx_zset.go that `Nuts.Model.Tx` was written from: what each call validates against the committed
state and which record it queues -/
def expectedTxApiZset : List (String × String × String) := [
  ("tx_zset.go:ZAdd", "if", "strings.Contains(string(key), SeparatorForZSetKey)"),
  ("tx_zset.go:ZAdd", "return", "ErrSeparatorForZSetKey()"),
  ("tx_zset.go:ZAdd", "call", "buffer.Write(key)"),
  ("tx_zset.go:ZAdd", "call", "buffer.Write([]byte(SeparatorForZSetKey))"),
  ("tx_zset.go:ZAdd", "call", "[]byte(strconv.FormatFloat(score, 'f', -1, 64))"),
  ("tx_zset.go:ZAdd", "call", "buffer.Write(scoreBytes)"),
  ("tx_zset.go:ZAdd", "call", "buffer.Bytes()"),
  ("tx_zset.go:ZAdd", "return", "tx.put(bucket, newKey, val, Persistent, DataZAddFlag, uint64(time.Now().Unix()), DataStructureSortedSet)"),
  ("tx_zset.go:ZMembers", "call", "tx.checkTxIsClosed()"),
  ("tx_zset.go:ZMembers", "if", "!ok"),
  ("tx_zset.go:ZCard", "call", "tx.ZMembers(bucket)"),
  ("tx_zset.go:ZCard", "return", "len(members)"),
  ("tx_zset.go:ZCount", "call", "tx.ZRangeByScore(bucket, start, end, opts)"),
  ("tx_zset.go:ZCount", "return", "len(nodes)"),
  ("tx_zset.go:ZPopMax", "call", "tx.ZPeekMax(bucket)"),
  ("tx_zset.go:ZPopMax", "return", "tx.put(bucket, []byte(\" \"), []byte(\"\"), Persistent, DataZPopMaxFlag, uint64(time.Now().Unix()), DataStructureSortedSet)"),
  ("tx_zset.go:ZPopMin", "call", "tx.ZPeekMin(bucket)"),
  ("tx_zset.go:ZPopMin", "return", "tx.put(bucket, []byte(\" \"), []byte(\"\"), Persistent, DataZPopMinFlag, uint64(time.Now().Unix()), DataStructureSortedSet)"),
  ("tx_zset.go:ZPeekMax", "call", "tx.checkTxIsClosed()"),
  ("tx_zset.go:ZPeekMax", "if", "!ok"),
  ("tx_zset.go:ZPeekMax", "return", "tx.db.SortedSetIdx[bucket].PeekMax()"),
  ("tx_zset.go:ZPeekMin", "call", "tx.checkTxIsClosed()"),
  ("tx_zset.go:ZPeekMin", "if", "!ok"),
  ("tx_zset.go:ZPeekMin", "return", "tx.db.SortedSetIdx[bucket].PeekMin()"),
  ("tx_zset.go:ZRangeByScore", "call", "tx.checkTxIsClosed()"),
  ("tx_zset.go:ZRangeByScore", "if", "!ok"),
  ("tx_zset.go:ZRangeByScore", "return", "tx.db.SortedSetIdx[bucket].GetByScoreRange(zset.SCORE(start), zset.SCORE(end), opts)"),
  ("tx_zset.go:ZRangeByRank", "call", "tx.checkTxIsClosed()"),
  ("tx_zset.go:ZRangeByRank", "if", "!ok"),
  ("tx_zset.go:ZRangeByRank", "return", "tx.db.SortedSetIdx[bucket].GetByRankRange(start, end, false)"),
  ("tx_zset.go:ZRem", "call", "tx.checkTxIsClosed()"),
  ("tx_zset.go:ZRem", "if", "!ok"),
  ("tx_zset.go:ZRem", "return", "tx.put(bucket, []byte(key), []byte(\"\"), Persistent, DataZRemFlag, uint64(time.Now().Unix()), DataStructureSortedSet)"),
  ("tx_zset.go:ZRemRangeByRank", "call", "tx.checkTxIsClosed()"),
  ("tx_zset.go:ZRemRangeByRank", "if", "!ok"),
  ("tx_zset.go:ZRemRangeByRank", "call", "strconv2.IntToStr(start)"),
  ("tx_zset.go:ZRemRangeByRank", "call", "strconv2.IntToStr(end)"),
  ("tx_zset.go:ZRemRangeByRank", "return", "tx.put(bucket, []byte(newKey), []byte(newVal), Persistent, DataZRemRangeByRankFlag, uint64(time.Now().Unix()), DataStructureSortedSet)"),
  ("tx_zset.go:ZRank", "call", "tx.checkTxIsClosed()"),
  ("tx_zset.go:ZRank", "if", "!ok"),
  ("tx_zset.go:ZRank", "return", "tx.db.SortedSetIdx[bucket].FindRank(string(key))"),
  ("tx_zset.go:ZRevRank", "call", "tx.checkTxIsClosed()"),
  ("tx_zset.go:ZRevRank", "if", "!ok"),
  ("tx_zset.go:ZRevRank", "return", "tx.db.SortedSetIdx[bucket].FindRevRank(string(key))"),
  ("tx_zset.go:ZScore", "call", "tx.checkTxIsClosed()"),
  ("tx_zset.go:ZScore", "if", "!ok"),
  ("tx_zset.go:ZScore", "if", "node != nil"),
  ("tx_zset.go:ZScore", "call", "tx.db.SortedSetIdx[bucket].GetByKey(string(key))"),
  ("tx_zset.go:ZScore", "return", "float64(node.Score())"),
  ("tx_zset.go:ZGetByKey", "call", "tx.checkTxIsClosed()"),
  ("tx_zset.go:ZGetByKey", "if", "!ok"),
  ("tx_zset.go:ZGetByKey", "if", "node != nil"),
  ("tx_zset.go:ZGetByKey", "call", "tx.db.SortedSetIdx[bucket].GetByKey(string(key))"),
  ("tx_zset.go:ErrSeparatorForZSetKey", "return", "errors.New(\"contain separator (\" + SeparatorForZSetKey + \") for ZSet key\")")
]

theorem tx_api_zset_ok : txApiOfZset = expectedTxApiZset := by decide +kernel

end NutsProofs.Facts
