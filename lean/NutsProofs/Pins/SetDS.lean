/-
  NutsProofs.Pins.SetDS — ds/set/set.go
  (One module per pinned piece of source, so that a change to that piece breaks the obligations of the
  properties that rest on it and no others.)
-/
import NutsGen.Facts
namespace NutsProofs.Facts
open NutsGen.F

/-- ds/set/set.go, every function: what `Nuts.Model.SetDS` renders -/
def expectedSetStmts : List (String × String × String) := [
  ("set.go:SAdd", "if", "!ok"),
  ("set.go:SAdd", "range", "items"),
  ("set.go:SRem", "if", "!ok"),
  ("set.go:SRem", "return", "errors.New(\"key not found\")"),
  ("set.go:SRem", "if", "len(items[0]) == 0"),
  ("set.go:SRem", "return", "errors.New(\"item empty\")"),
  ("set.go:SRem", "range", "items"),
  ("set.go:SRem", "call", "delete(s.M[key], string(item))"),
  ("set.go:SHasKey", "if", "!ok"),
  ("set.go:SPop", "if", "!s.SHasKey(key)"),
  ("set.go:SPop", "range", "s.M[key]"),
  ("set.go:SPop", "call", "delete(s.M[key], item)"),
  ("set.go:SPop", "return", "[]byte(item)"),
  ("set.go:SCard", "if", "!s.SHasKey(key)"),
  ("set.go:SCard", "return", "len(s.M[key])"),
  ("set.go:SDiff", "call", "s.checkKey1AndKey2(key1, key2)"),
  ("set.go:SDiff", "range", "s.M[key1]"),
  ("set.go:SDiff", "if", "!ok"),
  ("set.go:SDiff", "call", "append(list, []byte(item1))"),
  ("set.go:SInter", "call", "s.checkKey1AndKey2(key1, key2)"),
  ("set.go:SInter", "range", "s.M[key1]"),
  ("set.go:SInter", "if", "ok"),
  ("set.go:SInter", "call", "append(list, []byte(item1))"),
  ("set.go:checkKey1AndKey2", "if", "!ok"),
  ("set.go:checkKey1AndKey2", "return", "errors.New(\"set1 is not exists\")"),
  ("set.go:checkKey1AndKey2", "if", "!ok"),
  ("set.go:checkKey1AndKey2", "return", "errors.New(\"set2 is not exists\")"),
  ("set.go:SIsMember", "if", "!ok"),
  ("set.go:SIsMember", "if", "ok"),
  ("set.go:SAreMembers", "if", "!ok"),
  ("set.go:SAreMembers", "return", "errors.New(\"key not exits\")"),
  ("set.go:SAreMembers", "range", "items"),
  ("set.go:SAreMembers", "if", "!ok"),
  ("set.go:SAreMembers", "return", "errors.New(\"item not exits\")"),
  ("set.go:SMembers", "if", "!ok"),
  ("set.go:SMembers", "return", "errors.New(\"set not exists\")"),
  ("set.go:SMembers", "range", "s.M[key]"),
  ("set.go:SMembers", "call", "append(list, []byte(item))"),
  ("set.go:SMove", "if", "!s.SHasKey(key1)"),
  ("set.go:SMove", "return", "errors.New(\"key1 is not exists\")"),
  ("set.go:SMove", "if", "!s.SHasKey(key2)"),
  ("set.go:SMove", "return", "errors.New(\"key2 is not exists\")"),
  ("set.go:SMove", "if", "!ok"),
  ("set.go:SMove", "call", "s.SAdd(key2, item)"),
  ("set.go:SMove", "call", "s.SRem(key1, item)"),
  ("set.go:SUnion", "call", "s.checkKey1AndKey2(key1, key2)"),
  ("set.go:SUnion", "range", "s.M[key1]"),
  ("set.go:SUnion", "call", "append(list, []byte(item1))"),
  ("set.go:SUnion", "range", "s.M[key2]"),
  ("set.go:SUnion", "if", "!ok"),
  ("set.go:SUnion", "call", "append(list, []byte(item2))")]

theorem set_stmts_ok : setStmts = expectedSetStmts := by decide +kernel

end NutsProofs.Facts
