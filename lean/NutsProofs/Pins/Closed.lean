/-
  NutsProofs.Pins.Closed — which exported `Tx` methods test for a finished transaction before touching `tx.db` (C12, C20)
-/
import NutsGen.Facts
namespace NutsProofs.Facts
open NutsGen.F

/-! ### Closed checks (C20, C12) -/

/-- exported Tx methods that dereference `tx.db` without first calling `checkTxIsClosed`:
`Commit`/`Rollback` test `tx.db == nil` themselves (the extractor's path-insensitive rule does not
see that). The three `Find*OnDisk` helpers used to be on this list and panicked on a finished
transaction (finding D-PANIC-ONDISK, fixed in /repo 3a8ee2e). -/
def closedExceptions : List String := ["Commit", "Rollback"]

theorem closed_checks_ok :
    (closedChecks.filter (fun p => !p.2)).map (·.1) = closedExceptions := by
  decide

end NutsProofs.Facts
