/-
  NutsProofs.Pins.Modes — the refusal conditions of `checkEntryIdxMode` and the order of steps of `Open` (C22)
-/
import NutsGen.Facts
namespace NutsProofs.Facts
open NutsGen.F

/-! ### Open / mode check (C22) -/

theorem mode_refusals_ok :
    modeRefusals = ["db.opt.EntryIdxMode != HintBPTSparseIdxMode && hasDataFlag && hasBptDirFlag",
                    "db.opt.EntryIdxMode == HintBPTSparseIdxMode && hasBptDirFlag == false && hasDataFlag == true"] := by
  decide

/-- the mode check runs before any of the sparse-mode directories is created and before indexes are built -/
theorem open_check_first :
    openOrder = ["mkdir db.opt.Dir", "check", "mkdir bptRootIdxDir", "mkdir bptTxIDIdxDir", "mkdir bucketMetaDir", "buildIndexes"] := by
  decide

end NutsProofs.Facts
