/-
  NutsProofs.Pins.TxApiSet — the transactional API: tx_set.go
  (One module per pinned piece of source, so that a change to that piece breaks the obligations of the
  properties that rest on it and no others.)
-/
import NutsGen.Facts
namespace NutsProofs.Facts
open NutsGen.F

/-- the statements of the named files among `txApiStmts` -/
def txApiOfSet : List (String × String × String) :=
  txApiStmts.filter (fun s => (s.1.toList.takeWhile (· != ':') == "tx_set.go".toList))

/-- the lines of tx_set.go that `Nuts.Model.Tx` was written from: what each call validates against the committed
state and which record it queues -/
def expectedTxApiSet : List (String × String × String) := [
  ("tx_set.go:sPut", "range", "items"),
  ("tx_set.go:sPut", "call", "tx.put(bucket, key, item, Persistent, dataFlag, uint64(time.Now().Unix()), DataStructureSet)"),
  ("tx_set.go:SAdd", "return", "tx.sPut(bucket, key, DataSetFlag, items...)"),
  ("tx_set.go:SRem", "return", "tx.sPut(bucket, key, DataDeleteFlag, items...)"),
  ("tx_set.go:SAreMembers", "call", "tx.checkTxIsClosed()"),
  ("tx_set.go:SAreMembers", "if", "ok"),
  ("tx_set.go:SAreMembers", "return", "sets.SAreMembers(string(key), items...)"),
  ("tx_set.go:SAreMembers", "return", "ErrBucketAndKey(bucket, key)"),
  ("tx_set.go:SIsMember", "call", "tx.checkTxIsClosed()"),
  ("tx_set.go:SIsMember", "if", "ok"),
  ("tx_set.go:SIsMember", "if", "!set.SIsMember(string(key), item)"),
  ("tx_set.go:SIsMember", "return", "ErrBucketAndKey(bucket, key)"),
  ("tx_set.go:SIsMember", "return", "ErrBucketAndKey(bucket, key)"),
  ("tx_set.go:SMembers", "call", "tx.checkTxIsClosed()"),
  ("tx_set.go:SMembers", "if", "ok"),
  ("tx_set.go:SMembers", "return", "set.SMembers(string(key))"),
  ("tx_set.go:SMembers", "return", "ErrBucketAndKey(bucket, key)"),
  ("tx_set.go:SHasKey", "call", "tx.checkTxIsClosed()"),
  ("tx_set.go:SHasKey", "if", "ok"),
  ("tx_set.go:SHasKey", "return", "set.SHasKey(string(key))"),
  ("tx_set.go:SHasKey", "return", "ErrBucketAndKey(bucket, key)"),
  ("tx_set.go:SPop", "call", "tx.checkTxIsClosed()"),
  ("tx_set.go:SPop", "if", "ok"),
  ("tx_set.go:SPop", "range", "tx.db.SetIdx[bucket].M[string(key)]"),
  ("tx_set.go:SPop", "return", "[]byte(item)"),
  ("tx_set.go:SPop", "return", "tx.sPut(bucket, key, DataDeleteFlag, []byte(item))"),
  ("tx_set.go:SPop", "return", "ErrBucketAndKey(bucket, key)"),
  ("tx_set.go:SCard", "call", "tx.checkTxIsClosed()"),
  ("tx_set.go:SCard", "if", "ok"),
  ("tx_set.go:SCard", "return", "set.SCard(string(key))"),
  ("tx_set.go:SCard", "return", "ErrBucketAndKey(bucket, key)"),
  ("tx_set.go:SDiffByOneBucket", "call", "tx.checkTxIsClosed()"),
  ("tx_set.go:SDiffByOneBucket", "if", "ok"),
  ("tx_set.go:SDiffByOneBucket", "return", "set.SDiff(string(key1), string(key2))"),
  ("tx_set.go:SDiffByOneBucket", "return", "ErrBucketAndKey(bucket, key1)"),
  ("tx_set.go:SDiffByTwoBuckets", "call", "tx.checkTxIsClosed()"),
  ("tx_set.go:SDiffByTwoBuckets", "if", "!ok"),
  ("tx_set.go:SDiffByTwoBuckets", "return", "ErrBucketAndKey(bucket1, key1)"),
  ("tx_set.go:SDiffByTwoBuckets", "if", "!ok"),
  ("tx_set.go:SDiffByTwoBuckets", "return", "ErrBucketAndKey(bucket2, key2)"),
  ("tx_set.go:SDiffByTwoBuckets", "range", "set1.M[string(key1)]"),
  ("tx_set.go:SDiffByTwoBuckets", "if", "!ok"),
  ("tx_set.go:SDiffByTwoBuckets", "call", "append(list, []byte(item1))"),
  ("tx_set.go:SMoveByOneBucket", "call", "tx.checkTxIsClosed()"),
  ("tx_set.go:SMoveByOneBucket", "if", "ok"),
  ("tx_set.go:SMoveByOneBucket", "return", "set.SMove(string(key1), string(key2), item)"),
  ("tx_set.go:SMoveByTwoBuckets", "call", "tx.checkTxIsClosed()"),
  ("tx_set.go:SMoveByTwoBuckets", "if", "!ok"),
  ("tx_set.go:SMoveByTwoBuckets", "return", "ErrBucketAndKey(bucket1, key1)"),
  ("tx_set.go:SMoveByTwoBuckets", "if", "!ok"),
  ("tx_set.go:SMoveByTwoBuckets", "return", "ErrBucketAndKey(bucket2, key1)"),
  ("tx_set.go:SMoveByTwoBuckets", "if", "!set1.SHasKey(string(key1))"),
  ("tx_set.go:SMoveByTwoBuckets", "return", "ErrNotFoundKeyInBucket(bucket1, key1)"),
  ("tx_set.go:SMoveByTwoBuckets", "if", "!set2.SHasKey(string(key2))"),
  ("tx_set.go:SMoveByTwoBuckets", "return", "ErrNotFoundKeyInBucket(bucket2, key2)"),
  ("tx_set.go:SMoveByTwoBuckets", "if", "!ok"),
  ("tx_set.go:SMoveByTwoBuckets", "call", "set2.SAdd(string(key2), item)"),
  ("tx_set.go:SMoveByTwoBuckets", "call", "set1.SRem(string(key1), item)"),
  ("tx_set.go:SUnionByOneBucket", "call", "tx.checkTxIsClosed()"),
  ("tx_set.go:SUnionByOneBucket", "if", "ok"),
  ("tx_set.go:SUnionByOneBucket", "return", "set.SUnion(string(key1), string(key2))"),
  ("tx_set.go:SUnionByTwoBuckets", "call", "tx.checkTxIsClosed()"),
  ("tx_set.go:SUnionByTwoBuckets", "if", "!ok"),
  ("tx_set.go:SUnionByTwoBuckets", "return", "ErrBucketAndKey(bucket1, key1)"),
  ("tx_set.go:SUnionByTwoBuckets", "if", "!ok"),
  ("tx_set.go:SUnionByTwoBuckets", "return", "ErrBucketAndKey(bucket2, key1)"),
  ("tx_set.go:SUnionByTwoBuckets", "if", "!set1.SHasKey(string(key1))"),
  ("tx_set.go:SUnionByTwoBuckets", "return", "ErrNotFoundKeyInBucket(bucket1, key1)"),
  ("tx_set.go:SUnionByTwoBuckets", "if", "!set2.SHasKey(string(key2))"),
  ("tx_set.go:SUnionByTwoBuckets", "return", "ErrNotFoundKeyInBucket(bucket2, key2)"),
  ("tx_set.go:SUnionByTwoBuckets", "range", "set1.M[string(key1)]"),
  ("tx_set.go:SUnionByTwoBuckets", "call", "append(list, []byte(item1))"),
  ("tx_set.go:SUnionByTwoBuckets", "range", "set2.M[string(key2)]"),
  ("tx_set.go:SUnionByTwoBuckets", "if", "!ok"),
  ("tx_set.go:SUnionByTwoBuckets", "call", "append(list, []byte(item2))"),
  ("tx_set.go:ErrBucketAndKey", "return", "errors.New(\"not found bucket:\" + bucket + \",key:\" + string(key))"),
  ("tx_set.go:ErrNotFoundKeyInBucket", "return", "errors.New(string(key) + \" is not in the\" + bucket)")
]

theorem tx_api_set_ok : txApiOfSet = expectedTxApiSet := by decide +kernel

end NutsProofs.Facts
