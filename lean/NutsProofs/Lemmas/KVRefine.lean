/-
  NutsProofs.Lemmas.KVRefine — the key/value index refines the ordered map with TTL of the specification
  (`Nuts.Spec.DB`): abstracting an index (drop the tombstones, keep value / timestamp / TTL) commutes with
  applying a record, so along every history the abstraction of the index is the spec state after the same
  puts and deletes; and a read of the index, filtered by `dead`, is the spec's read filtered by `live`.
-/
import Nuts.Spec.DB
import NutsProofs.Lemmas.ReopenObs
namespace NutsProofs.KVRefine
open Nuts Nuts.Model Nuts.Model.DB NutsProofs NutsProofs.Reopen
open Nuts.Spec.DB (SKV SpecDB erase live liveOf kvGet)

/-! ### sorted lists: filtering commutes with upsert -/

theorem filter_upsert_keep {α} (p : Bytes × α → Bool) (m : Assoc α) (k : Bytes) (v : α) (hs : Sorted m)
    (hp : p (k, v) = true) : (upsert m k v).filter p = upsert (m.filter p) k v := by
  induction m with
  | nil => simp [upsert, hp]
  | cons q rest ih =>
    obtain ⟨k', v'⟩ := q
    unfold Sorted at hs
    rw [List.pairwise_cons] at hs
    simp only [upsert]
    cases hc : bcmp k k' with
    | lt =>
      simp only [List.filter_cons, hp, if_true]
      by_cases hq : p (k', v') = true
      · simp [hq, upsert, hc]
      · simp only [hq, Bool.false_eq_true, if_false]
        -- k is below every remaining key: it goes in front of the filtered rest as well
        have hlt : ∀ x ∈ rest.filter p, bcmp k x.1 = .lt := fun x hx =>
          bcmp_lt_trans hc (hs.1 x (List.mem_filter.mp hx).1)
        cases hf : rest.filter p with
        | nil => simp [upsert]
        | cons y ys =>
          have := hlt y (by rw [hf]; simp)
          obtain ⟨ky, vy⟩ := y
          simp [upsert, this]
    | eq =>
      have hkk : k = k' := (bcmp_eq_iff k k').mp hc
      subst hkk
      simp only [List.filter_cons, hp, if_true]
      have hlt : ∀ x ∈ rest.filter p, bcmp k x.1 = .lt := fun x hx => hs.1 x (List.mem_filter.mp hx).1
      by_cases hq : p (k, v') = true
      · simp [hq, upsert, bcmp_refl]
      · simp only [hq, Bool.false_eq_true, if_false]
        cases hf : rest.filter p with
        | nil => simp [upsert]
        | cons y ys =>
          have := hlt y (by rw [hf]; simp)
          obtain ⟨ky, vy⟩ := y
          simp [upsert, this]
    | gt =>
      simp only [List.filter_cons]
      by_cases hq : p (k', v') = true
      · simp only [hq, if_true, upsert, hc]
        rw [ih hs.2]
      · simp only [hq, Bool.false_eq_true, if_false]
        exact ih hs.2

theorem filter_upsert_drop {α} (p : Bytes × α → Bool) (m : Assoc α) (k : Bytes) (v : α) (hs : Sorted m)
    (hp : p (k, v) = false) : (upsert m k v).filter p = (m.filter p).filter (·.1 ≠ k) := by
  induction m with
  | nil => simp [upsert, hp]
  | cons q rest ih =>
    obtain ⟨k', v'⟩ := q
    unfold Sorted at hs
    rw [List.pairwise_cons] at hs
    have hne_rest : ∀ x ∈ rest, bcmp k' x.1 = .lt := hs.1
    simp only [upsert]
    cases hc : bcmp k k' with
    | lt =>
      -- k is below every key of the list: nothing to erase
      have h1 : ((k, v) :: (k', v') :: rest).filter p = ((k', v') :: rest).filter p :=
        List.filter_cons_of_neg (by simp [hp])
      rw [h1]
      symm
      rw [List.filter_eq_self]
      intro x hx
      have hxm : x ∈ (k', v') :: rest := (List.mem_filter.mp hx).1
      have : bcmp k x.1 = .lt := by
        rcases List.mem_cons.mp hxm with rfl | hxr
        · exact hc
        · exact bcmp_lt_trans hc (hs.1 x hxr)
      simp only [ne_eq, decide_eq_true_eq]
      intro he; rw [he, bcmp_refl] at this; cases this
    | eq =>
      have hkk : k = k' := (bcmp_eq_iff k k').mp hc
      subst hkk
      have h1 : ((k, v) :: rest).filter p = rest.filter p := List.filter_cons_of_neg (by simp [hp])
      rw [h1]
      have hrest : (rest.filter p).filter (·.1 ≠ k) = rest.filter p := by
        rw [List.filter_eq_self]
        intro x hx
        have := hs.1 x (List.mem_filter.mp hx).1
        simp only [ne_eq, decide_eq_true_eq]
        intro he; rw [he, bcmp_refl] at this; cases this
      by_cases hq : p (k, v') = true
      · rw [List.filter_cons_of_pos hq, List.filter_cons_of_neg (by simp), hrest]
      · rw [List.filter_cons_of_neg hq, hrest]
    | gt =>
      have hne : k' ≠ k := by intro he; rw [he, bcmp_refl] at hc; cases hc
      simp only [List.filter_cons]
      by_cases hq : p (k', v') = true
      · simp only [hq, if_true, List.filter_cons, ne_eq, hne, not_false_eq_true, decide_true]
        rw [ih hs.2]
      · simp only [hq, Bool.false_eq_true, if_false]
        exact ih hs.2

/-! ### the abstraction -/

def isSet (p : Bytes × Idx) : Bool := p.2.r.flag == flagSet
def skvOf (i : Idx) : SKV := ⟨i.r.value, i.r.ts, i.r.ttl⟩
/-- drop the tombstones, keep value / timestamp / TTL -/
def absBucket (m : Assoc Idx) : Assoc SKV := (m.filter isSet).map fun p => (p.1, skvOf p.2)
def absKV (kv : Assoc (Assoc Idx)) : Assoc (Assoc SKV) := kv.map fun p => (p.1, absBucket p.2)

/-- what a key/value record does to the spec's map: `Spec.kvPut` for a put, `Spec.kvDel` for anything else -/
def specApply (a : Assoc (Assoc SKV)) (r : Rec) : Assoc (Assoc SKV) :=
  if r.flag == flagSet then aput a r.bucket (upsert ((aget? a r.bucket).getD []) r.key ⟨r.value, r.ts, r.ttl⟩)
  else aput a r.bucket (erase ((aget? a r.bucket).getD []) r.key)

theorem specApply_put (s : SpecDB) (r : Rec) (h : r.flag = flagSet) :
    specApply s.kv r = (Nuts.Spec.DB.kvPut s r.bucket r.key r.value r.ts r.ttl).kv := by
  simp [specApply, Nuts.Spec.DB.kvPut, h]

theorem specApply_del (s : SpecDB) (r : Rec) (h : r.flag ≠ flagSet) :
    specApply s.kv r = (Nuts.Spec.DB.kvDel s r.bucket r.key).kv := by
  have : (r.flag == flagSet) = false := by simpa using h
  simp [specApply, Nuts.Spec.DB.kvDel, this]

def KVSorted (kv : Assoc (Assoc Idx)) : Prop := ∀ b m, aget? kv b = some m → Sorted m

theorem kvPut_sorted (kv : Assoc (Assoc Idx)) (r : Rec) (fid pos : Nat) (h : KVSorted kv) : KVSorted (kvPut kv r fid pos) := by
  intro b m hm
  unfold kvPut at hm
  by_cases hb : b = r.bucket
  · subst hb
    rw [aget_aput_self] at hm
    cases hm
    apply upsert_sorted
    cases hq : aget? kv r.bucket with
    | none => simp [Sorted]
    | some m0 => simpa using h _ _ hq
  · rw [aget_aput_other _ _ _ _ hb] at hm
    exact h b m hm

theorem absBucket_upsert (m : Assoc Idx) (k : Bytes) (i : Idx) (hs : Sorted m) :
    absBucket (upsert m k i) =
      if i.r.flag == flagSet then upsert (absBucket m) k (skvOf i) else erase (absBucket m) k := by
  unfold absBucket
  by_cases hf : (i.r.flag == flagSet) = true
  · simp only [hf, if_true]
    rw [filter_upsert_keep isSet m k i hs (by simpa [isSet] using hf)]
    exact upsert_map skvOf _ k i
  · have hf' : (i.r.flag == flagSet) = false := by simpa using hf
    simp only [hf', Bool.false_eq_true, if_false]
    rw [filter_upsert_drop isSet m k i hs (by simpa [isSet] using hf')]
    unfold erase
    rw [List.filter_map]
    rfl

theorem absKV_kvPut (kv : Assoc (Assoc Idx)) (r : Rec) (fid pos : Nat) (hs : KVSorted kv) :
    absKV (kvPut kv r fid pos) = specApply (absKV kv) r := by
  unfold kvPut absKV
  rw [aput_map absBucket]
  have hget : aget? (kv.map fun p => (p.1, absBucket p.2)) r.bucket = (aget? kv r.bucket).map absBucket := aget_map absBucket kv r.bucket
  have hsm : Sorted ((aget? kv r.bucket).getD []) := by
    cases hq : aget? kv r.bucket with
    | none => simp [Sorted]
    | some m0 => simpa using hs _ _ hq
  rw [absBucket_upsert _ _ _ hsm]
  unfold specApply
  rw [hget]
  have hg : ((aget? kv r.bucket).map absBucket).getD [] = absBucket ((aget? kv r.bucket).getD []) := by
    cases aget? kv r.bucket <;> simp [absBucket]
  rw [hg]
  simp only [skvOf]
  split <;> rfl

theorem absBucket_norm (m : Assoc Idx) : absBucket (normBucket m) = absBucket m := by
  unfold absBucket normBucket
  rw [List.filter_map, List.map_map]
  rfl

theorem absKV_norm (kv : Assoc (Assoc Idx)) : absKV (normKV kv) = absKV kv := by
  unfold absKV normKV
  rw [List.map_map]
  apply List.map_congr_left
  intro p _
  simp [absBucket_norm]

/-! ### expiry: the regenerated kernel against the spec's `live` -/

/-- `IsExpired` (uint64 arithmetic as compiled) is the negation of the spec's `live`, when the expiry time
`timestamp + ttl` and the clock fit 64 bits -/
theorem isExpired_eq_not_live (v : Bytes) (ttl ts now : Nat) (h1 : ts + ttl < 2 ^ 64) (h2 : now < 2 ^ 64) :
    isExpired ttl ts now = !(live now ⟨v, ts, ttl⟩) := by
  unfold isExpired NutsGen.K.isExpired.run live
  simp only [wrapU64]
  have e1 : ((ttl : Int) % 18446744073709551616) = ttl := Int.emod_eq_of_lt (by omega) (by omega)
  have e2 : (((ttl : Int) + (ts : Int)) % 18446744073709551616) = (ttl : Int) + ts := Int.emod_eq_of_lt (by omega) (by omega)
  have e3 : ((now : Int) % 18446744073709551616) = now := Int.emod_eq_of_lt (by omega) (by omega)
  rw [e1, e2, e3]
  by_cases hz : ttl = 0
  · subst hz; simp
  · have hpos : (ttl : Int) > 0 := by omega
    have hne : ¬ ((ttl : Int) = 0) := by omega
    simp only [hpos, if_true, hne, if_false]
    by_cases hlt : now < ts + ttl
    · have : (ttl : Int) + ts > now := by omega
      simp [this, hz, hlt]
    · have : ¬ ((ttl : Int) + ts > now) := by omega
      simp [this, hz, hlt]

/-! ### reads of a bucket -/

/-- what `Get` returns for a key, given the bucket's index (every entry committed, key+value mode) -/
def getIdx (m : Assoc Idx) (k : Bytes) (now : Nat) : Option Rec :=
  match aget? m k with
  | some i => if dead i.r now then none else some i.r
  | none => none

/-- the records of an index carry flag Set or Delete and times that fit 64 bits -/
def IdxOk (m : Assoc Idx) : Prop :=
  ∀ p ∈ m, (p.2.r.flag = flagSet ∨ p.2.r.flag = flagDelete) ∧ p.2.r.ts + p.2.r.ttl < 2 ^ 64 ∧ p.2.r.key = p.1

theorem dead_iff (i : Idx) (now : Nat) (hf : i.r.flag = flagSet ∨ i.r.flag = flagDelete) (hb : i.r.ts + i.r.ttl < 2 ^ 64)
    (hn : now < 2 ^ 64) : dead i.r now = !(isSet (([] : Bytes), i) && live now (skvOf i)) := by
  unfold dead isSet skvOf
  rw [isExpired_eq_not_live i.r.value i.r.ttl i.r.ts now hb hn]
  rcases hf with hf | hf <;> simp [hf, flagSet, flagDelete]

/-- the live pairs of the abstraction, bucket level -/
def liveBucket (m : Assoc SKV) (now : Nat) : List (Bytes × Bytes) := (m.filter fun p => live now p.2).map fun p => (p.1, p.2.value)

/-- … computed in one pass over the index -/
def livePick (now : Nat) (p : Bytes × Idx) : Option (Bytes × Bytes) :=
  if isSet p && live now (skvOf p.2) then some (p.1, p.2.r.value) else none

theorem liveBucket_abs (m : Assoc Idx) (now : Nat) : liveBucket (absBucket m) now = m.filterMap (livePick now) := by
  induction m with
  | nil => rfl
  | cons p rest ih =>
    unfold liveBucket absBucket at ih ⊢
    simp only [List.filter_cons, List.filterMap_cons, livePick]
    by_cases hset : isSet p = true
    · simp only [hset, if_true, List.map_cons, List.filter_cons, Bool.true_and]
      by_cases hl : live now (skvOf p.2) = true
      · simp only [hl, if_true, List.map_cons]
        rw [ih]; rfl
      · simp only [hl, Bool.false_eq_true, if_false]
        rw [ih]
    · simp only [hset, Bool.false_eq_true, if_false, Bool.false_and]
      rw [ih]

theorem find_eq_aget {β} (l : Assoc β) (k : Bytes) : (l.find? (·.1 = k)).map (·.2) = aget? l k := by
  induction l with
  | nil => rfl
  | cons p rest ih =>
    obtain ⟨k', v⟩ := p
    simp only [List.find?_cons, aget?]
    by_cases hk : k' = k
    · simp [hk]
    · simp [hk, ih]

theorem aget_none_of_keys {β} (l : Assoc β) (k : Bytes) (h : ∀ p ∈ l, p.1 ≠ k) : aget? l k = none := by
  induction l with
  | nil => rfl
  | cons p rest ih =>
    obtain ⟨k', v⟩ := p
    have : k' ≠ k := h (k', v) (by simp)
    simp only [aget?, this, if_false]
    exact ih (fun q hq => h q (by simp [hq]))

/-- in a sorted index, looking a key up after the one-pass filter is filtering the looked-up entry -/
theorem aget_filterMap_sorted (m : Assoc Idx) (now : Nat) (k : Bytes) (hs : Sorted m) :
    aget? (m.filterMap (livePick now)) k =
      (aget? m k).bind fun i => if isSet (k, i) && live now (skvOf i) then some i.r.value else none := by
  induction m with
  | nil => rfl
  | cons p rest ih =>
    obtain ⟨k', i⟩ := p
    unfold Sorted at hs
    rw [List.pairwise_cons] at hs
    by_cases hk : k' = k
    · subst hk
      simp only [aget?, if_true, Option.bind_some, List.filterMap_cons, livePick]
      have hset : isSet (k', i) = isSet (k', i) := rfl
      by_cases hc : (isSet (k', i) && live now (skvOf i)) = true
      · simp only [hc, if_true, aget?]
      · simp only [hc, Bool.false_eq_true, if_false]
        apply aget_none_of_keys
        intro q hq
        obtain ⟨z, hz, hzq⟩ := List.mem_filterMap.mp hq
        have hlt := hs.1 z hz
        unfold livePick at hzq
        split at hzq
        · cases hzq
          intro he
          simp only at he
          rw [he, bcmp_refl] at hlt; cases hlt
        · cases hzq
    · simp only [aget?, hk, if_false, List.filterMap_cons]
      cases hp : livePick now (k', i) with
      | none => exact ih hs.2
      | some q =>
        have hq : q.1 = k' := by
          unfold livePick at hp
          split at hp
          · cases hp; rfl
          · cases hp
        obtain ⟨qk, qv⟩ := q
        simp only at hq
        subst hq
        simp only [aget?, hk, if_false]
        exact ih hs.2

/-- **Get refines the ordered map**, bucket level: the value `Get` returns for `k` is the value the live
pairs of the abstraction hold for `k`, and it fails exactly when they hold none -/
theorem getIdx_refines (m : Assoc Idx) (k : Bytes) (now : Nat) (hs : Sorted m) (hok : IdxOk m) (hn : now < 2 ^ 64) :
    (getIdx m k now).map (·.value) = ((liveBucket (absBucket m) now).find? (·.1 = k)).map (·.2) := by
  rw [find_eq_aget, liveBucket_abs, aget_filterMap_sorted m now k hs]
  unfold getIdx
  cases hg : aget? m k with
  | none => rfl
  | some i =>
    -- the entry is in the index, so its flag and times are as the hypothesis says
    have hmem : ∃ p ∈ m, p.2 = i := by
      clear hs hok
      induction m with
      | nil => simp [aget?] at hg
      | cons q rest ih =>
        obtain ⟨k', j⟩ := q
        simp only [aget?] at hg
        split at hg
        · cases hg; exact ⟨(k', i), by simp, rfl⟩
        · obtain ⟨p, hp, hpi⟩ := ih hg
          exact ⟨p, by simp [hp], hpi⟩
    obtain ⟨p, hp, hpi⟩ := hmem
    obtain ⟨hfl, hbd, _⟩ := hok p hp
    rw [hpi] at hfl hbd
    have hd := dead_iff i now hfl hbd hn
    have hsame : isSet (k, i) = isSet (([] : Bytes), i) := rfl
    simp only [Option.bind_some, hd, hsame]
    cases (isSet (([] : Bytes), i) && live now (skvOf i)) <;> simp

/-! ### scans of a bucket -/

/-- what a scan shows of its result: the (key, value) pairs, in order -/
def pairsOf (l : List (Option Rec)) : List (Bytes × Bytes) := l.filterMap fun o => o.map fun r => (r.key, r.value)

/-- the unlimited wrapper in key+value mode keeps exactly the records that are not dead, in order -/
theorem wrapper_all (s : State) (hm : s.opt.mode = 0) (now : Nat) (recs : List Idx) (acc : List (Option Rec)) :
    wrapper s recs (-1) now acc = .ok (acc ++ (recs.filter fun i => !dead i.r now).map fun i => some i.r) := by
  induction recs generalizing acc with
  | nil => simp [wrapper]
  | cons i rest ih =>
    simp only [wrapper]
    by_cases hd : dead i.r now = true
    · simp only [hd, if_true]
      rw [ih]
      simp [hd]
    · have hd' : dead i.r now = false := by simpa using hd
      simp only [hd', Bool.false_eq_true, if_false]
      have c : ((-1 : Int) > 0 ∧ (acc.length : Int) < -1) ∨ (-1 : Int) = -1 := Or.inr rfl
      simp only [c, if_true, fetch, hm, beq_self_eq_true]
      rw [ih]
      simp [hd']

/-- the records a scan keeps are the live pairs of the abstraction -/
theorem notDead_pairs (m : Assoc Idx) (now : Nat) (hok : IdxOk m) (hn : now < 2 ^ 64) :
    pairsOf (((m.map (·.2)).filter fun i => !dead i.r now).map fun i => some i.r) = liveBucket (absBucket m) now := by
  rw [liveBucket_abs]
  induction m with
  | nil => rfl
  | cons p rest ih =>
    obtain ⟨k, i⟩ := p
    obtain ⟨hfl, hbd, hkey⟩ := hok (k, i) (by simp)
    have hd := dead_iff i now hfl hbd hn
    have ih' := ih (fun q hq => hok q (by simp [hq]))
    simp only [List.map_cons, List.filter_cons, List.filterMap_cons, livePick]
    have hsame : isSet (k, i) = isSet (([] : Bytes), i) := rfl
    rw [hd, hsame]
    cases hc : (isSet (([] : Bytes), i) && live now (skvOf i))
    · simp only [Bool.not_false, Bool.not_true, Bool.false_eq_true, if_false]
      exact ih'
    · simp only [Bool.not_true, Bool.not_false, if_true, List.map_cons, pairsOf, List.filterMap_cons, Option.map_some]
      simp only [] at hkey
      rw [hkey]
      unfold pairsOf at ih'
      rw [ih']

theorem pairsOf_nil_iff (l : List Idx) : pairsOf (l.map fun i => some i.r) = [] ↔ l = [] := by
  cases l <;> simp [pairsOf]

/-- **GetAll refines the ordered map**, bucket level (key+value mode): the pairs it returns are the live
pairs of the abstraction, in ascending key order; it fails exactly when there are none -/
theorem getAll_refines (s : State) (hm : s.opt.mode = 0) (b : Bytes) (m : Assoc Idx) (hb : bucketIdx s b = some m)
    (now : Nat) (hok : IdxOk m) (hn : now < 2 ^ 64) :
    (getAll s b now).map pairsOf =
      if liveBucket (absBucket m) now = [] then .err else .ok (liveBucket (absBucket m) now) := by
  unfold getAll
  rw [hb]
  simp only []
  have hw := wrapper_all s hm now (m.map (·.2)) []
  have hp := notDead_pairs m now hok hn
  by_cases he : m.isEmpty = true
  · have : m = [] := List.isEmpty_iff.mp he
    subst this
    simp [liveBucket, absBucket, Outcome.map]
  · simp only [he, Bool.false_eq_true, if_false]
    rw [hw]
    simp only [List.nil_append]
    rw [← hp]
    cases hl : ((m.map (·.2)).filter fun i => !dead i.r now) with
    | nil => simp [nonEmptyOrErr, Outcome.map, pairsOf]
    | cons x xs =>
      simp [nonEmptyOrErr, Outcome.map, pairsOf]

/-- the common tail of the scans: an unlimited wrapper over a selection of the index -/
theorem scan_refines (s : State) (hm : s.opt.mode = 0) (sel : Assoc Idx) (now : Nat) (hok : IdxOk sel) (hn : now < 2 ^ 64) :
    (if sel.isEmpty then (Outcome.err : Outcome (List (Option Rec))) else nonEmptyOrErr (wrapper s (sel.map (·.2)) (-1) now)).map pairsOf =
      if liveBucket (absBucket sel) now = [] then .err else .ok (liveBucket (absBucket sel) now) := by
  have hw := wrapper_all s hm now (sel.map (·.2)) []
  have hp := notDead_pairs sel now hok hn
  by_cases he : sel.isEmpty = true
  · have : sel = [] := List.isEmpty_iff.mp he
    subst this
    simp [liveBucket, absBucket, Outcome.map]
  · simp only [he, Bool.false_eq_true, if_false]
    rw [hw]
    simp only [List.nil_append]
    rw [← hp]
    cases hl : ((sel.map (·.2)).filter fun i => !dead i.r now) with
    | nil => simp [nonEmptyOrErr, Outcome.map, pairsOf]
    | cons x xs => simp [nonEmptyOrErr, Outcome.map, pairsOf]

theorem live_filter_keys (m : Assoc Idx) (now : Nat) (p : Bytes → Bool) :
    liveBucket (absBucket (m.filter fun x => p x.1)) now = (liveBucket (absBucket m) now).filter fun x => p x.1 := by
  rw [liveBucket_abs, liveBucket_abs]
  induction m with
  | nil => rfl
  | cons q rest ih =>
    simp only [List.filter_cons, List.filterMap_cons]
    by_cases hq : p q.1 = true
    · simp only [hq, if_true, List.filterMap_cons]
      cases hl : livePick now q with
      | none => simp only []; exact ih
      | some y =>
        have hy : y.1 = q.1 := by
          unfold livePick at hl; split at hl
          · cases hl; rfl
          · cases hl
        simp only [List.filter_cons, hy, hq, if_true]
        rw [ih]
    · simp only [hq, Bool.false_eq_true, if_false]
      cases hl : livePick now q with
      | none => simp only []; exact ih
      | some y =>
        have hy : y.1 = q.1 := by
          unfold livePick at hl; split at hl
          · cases hl; rfl
          · cases hl
        simp only [List.filter_cons, hy, hq, Bool.false_eq_true, if_false]
        exact ih

/-- **RangeScan refines the ordered map**, bucket level (key+value mode): the live pairs with
`start ≤ key ≤ end`, ascending; an error when `start > end` or there are none -/
theorem rangeScan_refines (s : State) (hm : s.opt.mode = 0) (b : Bytes) (m : Assoc Idx) (hb : bucketIdx s b = some m)
    (st en : Bytes) (now : Nat) (hok : IdxOk m) (hn : now < 2 ^ 64) :
    (rangeScan s b st en now).map pairsOf =
      if bcmp st en == .gt then .err
      else
        let want := (liveBucket (absBucket m) now).filter fun x => ble st x.1 && ble x.1 en
        if want = [] then .err else .ok want := by
  unfold rangeScan
  rw [hb]
  simp only []
  split
  · rfl
  · have hsel : IdxOk (m.filter fun x => ble st x.1 && ble x.1 en) := fun q hq => hok q (List.mem_filter.mp hq).1
    have := scan_refines s hm (m.filter fun x => ble st x.1 && ble x.1 en) now hsel hn
    rw [live_filter_keys m now (fun k => ble st k && ble k en)] at this
    exact this

/-! ### along the log -/

def AllIdx (kv : Assoc (Assoc Idx)) (P : Bytes → Idx → Prop) : Prop := ∀ b m p, aget? kv b = some m → p ∈ m → P p.1 p.2

theorem mem_upsert {α} (m : Assoc α) (k : Bytes) (v : α) (p : Bytes × α) (h : p ∈ upsert m k v) : p = (k, v) ∨ p ∈ m := by
  induction m with
  | nil => simp [upsert] at h; exact Or.inl h
  | cons q rest ih =>
    obtain ⟨k', v'⟩ := q
    simp only [upsert] at h
    split at h
    · rcases List.mem_cons.mp h with h | h
      · exact Or.inl h
      · exact Or.inr h
    · rcases List.mem_cons.mp h with h | h
      · exact Or.inl h
      · exact Or.inr (List.mem_cons_of_mem _ h)
    · rcases List.mem_cons.mp h with h | h
      · exact Or.inr (by rw [h]; simp)
      · rcases ih h with h | h
        · exact Or.inl h
        · exact Or.inr (List.mem_cons_of_mem _ h)

theorem kvPut_all (kv : Assoc (Assoc Idx)) (r : Rec) (fid pos : Nat) (P : Bytes → Idx → Prop)
    (h : AllIdx kv P) (hn : P r.key ⟨r, fid, pos⟩) : AllIdx (kvPut kv r fid pos) P := by
  intro b m p hm hp
  unfold kvPut at hm
  by_cases hb : b = r.bucket
  · subst hb
    rw [aget_aput_self] at hm
    cases hm
    rcases mem_upsert _ _ _ _ hp with rfl | hp
    · exact hn
    · cases hq : aget? kv r.bucket with
      | none => rw [hq] at hp; simp at hp
      | some m0 => rw [hq] at hp; exact h _ _ _ hq (by simpa using hp)
  · rw [aget_aput_other _ _ _ _ hb] at hm
    exact h b m p hm hp

theorem foldLog_all (L : List LogRec) (kv : Assoc (Assoc Idx)) (P : Bytes → Idx → Prop) (h : AllIdx kv P)
    (hL : ∀ x ∈ L, P x.1.key ⟨committedRec x.1, x.2.1, x.2.2⟩) : AllIdx (foldLog kv L) P := by
  induction L generalizing kv with
  | nil => exact h
  | cons x rest ih =>
    simp only [foldLog, List.foldl_cons]
    exact ih _ (kvPut_all kv _ _ _ P h (hL x (by simp))) (fun y hy => hL y (by simp [hy]))

theorem foldLog_sorted (L : List LogRec) (kv : Assoc (Assoc Idx)) (h : KVSorted kv) : KVSorted (foldLog kv L) := by
  induction L generalizing kv with
  | nil => exact h
  | cons x rest ih =>
    simp only [foldLog, List.foldl_cons]
    exact ih _ (kvPut_sorted kv _ _ _ h)

theorem specApply_committedRec (a : Assoc (Assoc SKV)) (r : Rec) : specApply a (committedRec r) = specApply a r := rfl

/-- the abstraction of the index a log denotes is the spec's map after the same records -/
theorem foldLog_abs (L : List LogRec) (kv : Assoc (Assoc Idx)) (h : KVSorted kv) :
    absKV (foldLog kv L) = (L.map (·.1)).foldl specApply (absKV kv) := by
  induction L generalizing kv with
  | nil => rfl
  | cons x rest ih =>
    simp only [foldLog, List.foldl_cons, List.map_cons]
    have := ih (kvPut kv (committedRec x.1) x.2.1 x.2.2) (kvPut_sorted kv _ _ _ h)
    simp only [foldLog] at this
    rw [this, absKV_kvPut kv _ _ _ h, specApply_committedRec]

theorem kvSorted_nil : KVSorted [] := by intro b m h; simp [aget?] at h
theorem allIdx_nil (P : Bytes → Idx → Prop) : AllIdx [] P := by intro b m p h; simp [aget?] at h

/-- records the API writes: flag Set or Delete, expiry time within 64 bits -/
def RecOk (r : Rec) : Prop := (r.flag = flagSet ∨ r.flag = flagDelete) ∧ r.ts + r.ttl < 2 ^ 64

/-- everything the reads need, for the index a log denotes -/
theorem kvOfLog_props (L : List LogRec) (hL : ∀ x ∈ L, RecOk x.1) :
    KVSorted (kvOfLog L) ∧ absKV (kvOfLog L) = (L.map (·.1)).foldl specApply [] ∧
    AllIdx (kvOfLog L) (fun k i => (i.r.flag = flagSet ∨ i.r.flag = flagDelete) ∧ i.r.ts + i.r.ttl < 2 ^ 64 ∧ i.r.key = k) ∧
    AllIdx (kvOfLog L) (fun _ i => ∃ x ∈ L, i.r.txid = x.1.txid) := by
  refine ⟨foldLog_sorted L [] kvSorted_nil, foldLog_abs L [] kvSorted_nil, ?_, ?_⟩
  · exact foldLog_all L [] (fun k i => (i.r.flag = flagSet ∨ i.r.flag = flagDelete) ∧ i.r.ts + i.r.ttl < 2 ^ 64 ∧ i.r.key = k)
      (allIdx_nil _) (fun x hx => ⟨(hL x hx).1, (hL x hx).2, rfl⟩)
  · exact foldLog_all L [] (fun _ i => ∃ x ∈ L, i.r.txid = x.1.txid) (allIdx_nil _) (fun x hx => ⟨x, hx, rfl⟩)

/-! ### states -/

/-- the spec's map after a log -/
def specOfLog (recs : List Rec) : Assoc (Assoc SKV) := recs.foldl specApply []

theorem specApply_markLast (a : Assoc (Assoc SKV)) (r : Rec) (l : Bool) : specApply a (markLast r l) = specApply a r := by
  unfold markLast; split <;> rfl

theorem foldl_specApply_marked (t : List Rec) (a : Assoc (Assoc SKV)) : (marked t).foldl specApply a = t.foldl specApply a := by
  induction t generalizing a with
  | nil => rfl
  | cons r rest ih => simp only [marked, List.foldl_cons, specApply_markLast]; exact ih _

/-- the spec's map after a history: every committed transaction's puts and deletes, in order -/
def specOfOps (ops : List Op) : Assoc (Assoc SKV) :=
  ops.foldl (fun a op => match op with | .commit t => t.foldl specApply a | .reopen _ => a) []

theorem specOfLog_logOf (ops : List Op) (a : Assoc (Assoc SKV)) :
    (logOf ops).foldl specApply a = ops.foldl (fun a op => match op with | .commit t => t.foldl specApply a | .reopen _ => a) a := by
  induction ops generalizing a with
  | nil => rfl
  | cons op rest ih =>
    cases op with
    | commit t => simp only [logOf, List.foldl_append, List.foldl_cons, foldl_specApply_marked]; exact ih _
    | reopen o => simp only [logOf, List.foldl_cons]; exact ih _

/-- the state whose index is the log's index verbatim (the real state's, with every cached record's
status byte set) -/
def normState (s : State) : State := { s with kv := normKV s.kv }

theorem rebuilt_normState (s : State) : Rebuilt s (normState s) :=
  Rebuilt.of_files rfl rfl rfl (fun _ => Iff.rfl)

theorem value_vis (o : Outcome (Option Rec)) : (vis o).map (Option.map (·.value)) = o.map (Option.map (·.value)) := by
  cases o with
  | ok e => cases e <;> rfl
  | err => rfl
  | panic => rfl

theorem pairs_visL (o : Outcome (List (Option Rec))) : (visL o).map pairsOf = o.map pairsOf := by
  cases o with
  | ok l =>
    simp only [visL, Outcome.map, pairsOf]
    congr 1
    rw [List.filterMap_map]
    congr 1
    funext e
    cases e <;> rfl
  | err => rfl
  | panic => rfl

theorem get_of_getIdx (s : State) (hm : s.opt.mode = 0) (b k : Bytes) (now : Nat) (m : Assoc Idx)
    (hb : bucketIdx s b = some m) (hc : ∀ p ∈ m, s.committed.contains p.2.r.txid = true) :
    DB.get s b k now = match getIdx m k now with | some r => .ok (some r) | none => .err := by
  unfold DB.get getIdx
  rw [hb]
  simp only []
  cases hk : aget? m k with
  | none => rfl
  | some i =>
    have hmem : ∃ p ∈ m, p.2 = i := by
      clear hc hb
      induction m with
      | nil => simp [aget?] at hk
      | cons q rest ih =>
        obtain ⟨k', j⟩ := q
        simp only [aget?] at hk
        split at hk
        · cases hk; exact ⟨(k', i), by simp, rfl⟩
        · obtain ⟨p, hp, hpi⟩ := ih hk
          exact ⟨p, by simp [hp], hpi⟩
    obtain ⟨p, hp, hpi⟩ := hmem
    have := hc p hp
    rw [hpi] at this
    simp only [this, Bool.not_true, Bool.false_eq_true, if_false, fetch, hm, beq_self_eq_true, if_true]
    split <;> rfl

/-- **Reads refine the ordered map**, for any state that satisfies the log invariant in key+value mode and
whose log holds API-written records only. `A` is the spec's map after the records of the log. -/
theorem reads_refine (s : State) (h : LogInv s) (hm : s.opt.mode = 0) (hL : ∀ x ∈ allRecs s.files, RecOk x.1)
    (now : Nat) (hn : now < 2 ^ 64) (b : Bytes) :
    let A := specOfLog ((allRecs s.files).map (·.1))
    let live := liveBucket ((aget? A b).getD []) now
    (∀ k, (DB.get s b k now).map (Option.map (·.value)) =
        match (live.find? (·.1 = k)).map (·.2) with | some v => .ok (some v) | none => .err) ∧
    ((getAll s b now).map pairsOf = if live = [] then .err else .ok live) ∧
    (∀ st en, (rangeScan s b st en now).map pairsOf =
        if bcmp st en == .gt then .err
        else if (live.filter fun x => ble st x.1 && ble x.1 en) = [] then .err
        else .ok (live.filter fun x => ble st x.1 && ble x.1 en)) := by
  intro A live
  obtain ⟨hsorted, habs, hidx, htx⟩ := kvOfLog_props (allRecs s.files) hL
  have hr := rebuilt_normState s
  have hkv : (normState s).kv = kvOfLog (allRecs s.files) := h.idx
  have hmode : (normState s).opt.mode = 0 := hm
  -- the bucket of the spec's map is the abstraction of the bucket of the index
  have hA : aget? A b = (aget? (kvOfLog (allRecs s.files)) b).map absBucket := by
    show aget? (specOfLog _) b = _
    unfold specOfLog
    rw [← habs]
    exact aget_map absBucket _ b
  have hsome : (aget? s.kv b).isSome = (aget? (kvOfLog (allRecs s.files)) b).isSome := by
    rw [← hkv]
    show _ = (aget? (normKV s.kv) b).isSome
    unfold normKV
    rw [aget_map normBucket]
    cases aget? s.kv b <;> rfl
  cases hbk : aget? (kvOfLog (allRecs s.files)) b with
  | none =>
    have hb' : bucketIdx (normState s) b = none := by unfold bucketIdx; rw [hkv]; exact hbk
    have hlive : live = [] := by
      show liveBucket ((aget? A b).getD []) now = []
      rw [hA, hbk]; rfl
    refine ⟨?_, ?_, ?_⟩
    · intro k
      rw [← value_vis, ← get_rebuilt hr b k now, value_vis]
      unfold DB.get
      rw [hb', hlive]
      rfl
    · rw [← pairs_visL, ← getAll_rebuilt hr b now, pairs_visL]
      unfold getAll
      rw [hb', hlive]
      rfl
    · intro st en
      rw [← pairs_visL, ← rangeScan_rebuilt hr b st en now, pairs_visL]
      unfold rangeScan
      rw [hb', hlive]
      simp only [List.filter_nil]
      split <;> rfl
  | some m =>
    have hb' : bucketIdx (normState s) b = some m := by unfold bucketIdx; rw [hkv]; exact hbk
    have hms : Sorted m := hsorted b m hbk
    have hmok : IdxOk m := fun p hp => hidx b m p hbk hp
    have hmc : ∀ p ∈ m, (normState s).committed.contains p.2.r.txid = true := by
      intro p hp
      obtain ⟨x, hx, hxt⟩ := htx b m p hbk hp
      have : x.1.txid ∈ (normState s).committed := (h.ids _).mpr (h.allCommitted x hx)
      rw [hxt]
      simpa using this
    have hlive : live = liveBucket (absBucket m) now := by
      show liveBucket ((aget? A b).getD []) now = _
      rw [hA, hbk]; rfl
    refine ⟨?_, ?_, ?_⟩
    · intro k
      rw [← value_vis, ← get_rebuilt hr b k now, value_vis]
      rw [get_of_getIdx (normState s) hmode b k now m hb' hmc, hlive, ← getIdx_refines m k now hms hmok hn]
      cases getIdx m k now <;> rfl
    · rw [← pairs_visL, ← getAll_rebuilt hr b now, pairs_visL, hlive]
      exact getAll_refines (normState s) hmode b m hb' now hmok hn
    · intro st en
      rw [← pairs_visL, ← rangeScan_rebuilt hr b st en now, pairs_visL, hlive]
      exact rangeScan_refines (normState s) hmode b m hb' st en now hmok hn

/-- every transaction of the history writes API records: flag Set or Delete, expiry time within 64 bits -/
def OpsRecOk (ops : List Op) : Prop := ∀ t, Op.commit t ∈ ops → ∀ r ∈ t, RecOk r

theorem logOf_recOk (ops : List Op) (h : OpsRecOk ops) : ∀ r ∈ logOf ops, RecOk r := by
  induction ops with
  | nil => intro r hr; cases hr
  | cons op rest ih =>
    have hrest : OpsRecOk rest := fun t ht => h t (List.mem_cons_of_mem _ ht)
    cases op with
    | commit t =>
      intro r hr
      simp only [logOf, List.mem_append] at hr
      rcases hr with hr | hr
      · -- a marked record is a record of the transaction with the status byte set
        have ht := h t (by simp)
        clear ih hrest h
        induction t with
        | nil => cases hr
        | cons q qs ihq =>
          simp only [marked, List.mem_cons] at hr
          rcases hr with rfl | hr
          · have := ht q (by simp)
            unfold markLast; split <;> exact this
          · exact ihq hr (fun x hx => ht x (by simp [hx]))
      · exact ih hrest r hr
    | reopen o => intro r hr; exact ih hrest r (by simpa [logOf] using hr)


end NutsProofs.KVRefine
