/-
  NutsProofs.Lemmas.SparseGet — `Get` in sparse index mode (Nuts.Model.Sparse) along every history of
  successful key/value commits: the active tree is searched first, then the sealed segments newest first, each
  through its key range and its content, and what comes back is the latest record written under the composite
  key `bucket ++ key` — live, or "not found" when that record is a tombstone or has expired.

  The composite key is the point: sparse mode is an ordered map on `bucket ++ key` (finding D-SPARSE-CONCAT is
  exactly the cases in which two (bucket, key) pairs share one composite key).
-/
import Nuts.Model.Sparse
import NutsProofs.Lemmas.Assoc
import NutsProofs.Lemmas.Hints
import NutsProofs.Lemmas.Reopen
namespace NutsProofs.SparseGet
open Nuts Nuts.Model Nuts.Model.DB Nuts.Model.Sparse NutsProofs

/-! ### two lists related element by element -/

inductive All2 {α β : Type} (R : α → β → Prop) : List α → List β → Prop
  | nil : All2 R [] []
  | cons {a b as bs} : R a b → All2 R as bs → All2 R (a :: as) (b :: bs)

theorem All2.append {α β : Type} {R : α → β → Prop} {as as' : List α} {bs bs' : List β}
    (h : All2 R as bs) (h' : All2 R as' bs') : All2 R (as ++ as') (bs ++ bs') := by
  induction h with
  | nil => exact h'
  | cons hr _ ih => exact All2.cons hr ih

theorem All2.reverse {α β : Type} {R : α → β → Prop} {as : List α} {bs : List β} (h : All2 R as bs) :
    All2 R as.reverse bs.reverse := by
  induction h with
  | nil => exact All2.nil
  | cons hr _ ih =>
    simp only [List.reverse_cons]
    exact All2.append ih (All2.cons hr All2.nil)

theorem All2.imp {α β : Type} {R S : α → β → Prop} {as : List α} {bs : List β} (h : All2 R as bs)
    (hi : ∀ a b, a ∈ as → b ∈ bs → R a b → S a b) : All2 S as bs := by
  induction h with
  | nil => exact All2.nil
  | cons hr _ ih =>
    exact All2.cons (hi _ _ (List.mem_cons_self ..) (List.mem_cons_self ..) hr)
      (ih (fun a b ha hb => hi a b (List.mem_cons_of_mem _ ha) (List.mem_cons_of_mem _ hb)))

/-! ### the index a file denotes, and the latest record of a composite key in it -/

def idxStep (fid : Nat) (m : Assoc Idx) (p : Nat × Rec) : Assoc Idx :=
  if p.2.ds == dsKV then upsert m (newKey p.2) ⟨p.2, fid, p.1⟩ else m

/-- the tree `BPTree.Insert` builds from the key/value records of a file, in write order -/
def idxOf (fid : Nat) (recs : List (Nat × Rec)) (m : Assoc Idx) : Assoc Idx := recs.foldl (idxStep fid) m

def isKey (nk : Bytes) (p : Nat × Rec) : Bool := p.2.ds == dsKV && newKey p.2 == nk

/-- the last key/value record written under composite key `nk` -/
def latestIn (recs : List (Nat × Rec)) (nk : Bytes) : Option (Nat × Rec) := (recs.filter (isKey nk)).getLast?

theorem latestIn_cons (p : Nat × Rec) (rest : List (Nat × Rec)) (nk : Bytes) :
    latestIn (p :: rest) nk = match latestIn rest nk with
      | some q => some q
      | none => if isKey nk p then some p else none := by
  unfold latestIn
  by_cases hp : isKey nk p = true
  · rw [List.filter_cons_of_pos hp]
    cases hr : rest.filter (isKey nk) with
    | nil => simp [hp]
    | cons a l =>
      rw [List.getLast?_cons_cons]
      cases hg : (a :: l).getLast? with
      | none => simp at hg
      | some q => rfl
  · rw [List.filter_cons_of_neg hp]
    cases (rest.filter (isKey nk)).getLast? <;> simp [hp]

theorem aget_idxOf (fid : Nat) (recs : List (Nat × Rec)) (m : Assoc Idx) (nk : Bytes) :
    aget? (idxOf fid recs m) nk = match latestIn recs nk with
      | some p => some ⟨p.2, fid, p.1⟩
      | none => aget? m nk := by
  induction recs generalizing m with
  | nil => simp [idxOf, latestIn]
  | cons p rest ih =>
    simp only [idxOf, List.foldl_cons]
    have := ih (idxStep fid m p)
    simp only [idxOf] at this
    rw [this, latestIn_cons]
    cases latestIn rest nk with
    | some q => rfl
    | none =>
      simp only
      unfold idxStep isKey
      by_cases hkv : (p.2.ds == dsKV) = true
      · simp only [hkv, if_true, Bool.true_and]
        by_cases hk : newKey p.2 = nk
        · subst hk; simp [aget_upsert_self]
        · have : (newKey p.2 == nk) = false := by simpa using hk
          rw [this, aget_upsert_other _ _ _ _ (fun e => hk e.symm)]
          simp
      · simp [hkv]

theorem latestIn_mem {recs : List (Nat × Rec)} {nk : Bytes} {p : Nat × Rec} (h : latestIn recs nk = some p) :
    p ∈ recs ∧ newKey p.2 = nk := by
  unfold latestIn at h
  have := List.mem_of_getLast? h
  have hm := List.mem_filter.mp this
  refine ⟨hm.1, ?_⟩
  have := hm.2
  unfold isKey at this
  simp at this
  exact this.2

/-- every key of the index is the composite key of a record of the file -/
theorem idxOf_keys (fid : Nat) (recs : List (Nat × Rec)) (q : Bytes × Idx) (h : q ∈ idxOf fid recs []) :
    ∃ p, latestIn recs q.1 = some p := by
  cases hl : latestIn recs q.1 with
  | some p => exact ⟨p, rfl⟩
  | none =>
    exfalso
    have hg := aget_idxOf fid recs [] q.1
    rw [hl] at hg
    simp only [aget?] at hg
    -- a key of the association list is found by `aget?`
    have : ∃ v, aget? (idxOf fid recs []) q.1 = some v := by
      generalize idxOf fid recs [] = m at h
      induction m with
      | nil => cases h
      | cons a rest ih =>
        obtain ⟨k', v'⟩ := a
        simp only [aget?]
        by_cases hk : k' = q.1
        · exact ⟨v', by simp [hk]⟩
        · simp only [hk, if_false]
          rcases List.mem_cons.mp h with e | e
          · exact absurd (by rw [e]) hk
          · exact ih e
    obtain ⟨v, hv⟩ := this
    rw [hg] at hv
    cases hv

/-! ### index entries up to the status byte

`Open` rebuilds the active tree with every cached record marked Committed, `Commit` caches the record as it was
written (only the last one of a transaction is marked): the reads use the entry's position and transaction id
only, so the invariant compares trees up to the status byte of the cached record. -/

def nrm (i : Idx) : Idx := { i with r := Reopen.committedRec i.r }
def nmap (m : Assoc Idx) : Assoc Idx := m.map fun p => (p.1, nrm p.2)

theorem aget_nmap (m : Assoc Idx) (k : Bytes) : aget? (nmap m) k = (aget? m k).map nrm := Reopen.aget_map nrm m k

theorem nmap_upsert (m : Assoc Idx) (k : Bytes) (i : Idx) : nmap (upsert m k i) = upsert (nmap m) k (nrm i) :=
  Reopen.upsert_map nrm m k i

/-- what the reads need from an entry that equals `⟨r, fid, pos⟩` up to the status byte -/
theorem nrm_eq {i : Idx} {r : Rec} {fid pos : Nat} (h : nrm i = nrm ⟨r, fid, pos⟩) :
    i.fid = fid ∧ i.pos = pos ∧ i.r.txid = r.txid := by
  unfold nrm at h
  have h1 := congrArg Idx.fid h
  have h2 := congrArg Idx.pos h
  have h3 := congrArg (fun x => x.r.txid) h
  exact ⟨h1, h2, h3⟩

theorem aget_of_nmap_eq {a b : Assoc Idx} (h : nmap a = nmap b) (k : Bytes) : (aget? a k).map nrm = (aget? b k).map nrm := by
  rw [← aget_nmap, ← aget_nmap, h]

/-! ### the invariant between two commits (and, with `cur`, inside one) -/

/-- a sealed segment and the file it was sealed from -/
structure SegOk (g : Seg) (f : File) (cur : Option Nat) (reserved : List Nat) : Prop where
  fid : g.fid = f.fid
  content : nmap g.content = nmap (idxOf f.fid f.recs [])
  bounds : ∀ q ∈ g.content, inRange q.1 g.first g.last = true
  tx : ∀ p ∈ f.recs, p.2.txid ∈ g.txids ∨ (some p.2.txid = cur ∧ g.fid ∈ reserved)

structure SInv (s : SState) (cur : Option Nat) (reserved : List Nat) : Prop where
  /-- the files: the sealed ones in ascending id order, then the active one -/
  split : ∃ pre fa, s.files = pre ++ [fa] ∧ fa.fid = s.activeFid ∧ (∀ g ∈ pre, g.fid < s.activeFid) ∧
    All2 (fun g f => SegOk g f cur reserved) s.sealed pre ∧
    nmap s.active = nmap (idxOf s.activeFid fa.recs []) ∧
    (∀ p ∈ fa.recs, p.1 < s.writeOff) ∧
    (∀ p ∈ fa.recs, p.2.txid ∈ s.activeTx ∨ some p.2.txid = cur) ∧
    -- what a reopen needs: no empty key, every transaction of the active file has its commit mark there, the
    -- offsets ascend, the file is not torn
    (∀ p ∈ fa.recs, p.2.key ≠ []) ∧
    (∀ p ∈ fa.recs, (∃ q ∈ fa.recs, q.2.status = 1 ∧ q.2.txid = p.2.txid) ∨ some p.2.txid = cur) ∧
    fa.recs.Pairwise (fun a b => a.1 < b.1) ∧ fa.torn = false
  wf : Hints.WellFormed s.files
  asc : s.sealed.Pairwise (fun a b => a.fid < b.fid)

/-- the answer for a record that was found: a tombstone or an expired record is "not found" -/
def judged (r : Rec) (now : Nat) : Outcome (Option Rec) := if dead r now then .err else .ok (some r)

/-- the newest file that holds a record of composite key `nk`, and that record -/
def latestFile : List File → Bytes → Option Rec
  | [], _ => none
  | f :: older, nk =>
    match latestIn f.recs nk with
    | some p => some p.2
    | none => latestFile older nk

/-- `getByHintBPTSparseIdxOnDisk` over the sealed segments newest first = the newest sealed file that has the
key decides -/
theorem getOnDisk_spec (s : SState) (nk : Bytes) (now : Nat) (hwf : Hints.WellFormed s.files) :
    ∀ (gs : List Seg) (fs : List File), All2 (fun g f => SegOk g f none []) gs fs → (∀ f ∈ fs, f ∈ s.files) →
      getOnDisk s nk now gs = match latestFile fs nk with
        | some r => judged r now
        | none => .err := by
  intro gs
  induction gs with
  | nil => intro fs h _; cases h; rfl
  | cons g rest ih =>
    intro fs h hmem
    cases h with
    | cons hgf hrest =>
      rename_i f fs'
      simp only [getOnDisk, latestFile]
      have hcont0 := aget_idxOf f.fid f.recs [] nk
      have hcontN := aget_of_nmap_eq hgf.content nk
      rw [hcont0] at hcontN
      cases hl : latestIn f.recs nk with
      | none =>
        rw [hl] at hcontN
        simp only [aget?, Option.map_none, Option.map_eq_none_iff] at hcontN
        have hrec := ih fs' hrest (fun x hx => hmem x (List.mem_cons_of_mem _ hx))
        by_cases hr : inRange nk g.first g.last = true
        · simp only [hr, if_true, hcontN]; exact hrec
        · simp only [hr]; exact hrec
      | some p =>
        rw [hl] at hcontN
        simp only [Option.map_some] at hcontN
        obtain ⟨i, hgi, hni⟩ := Option.map_eq_some_iff.mp hcontN
        obtain ⟨_, hipos, _⟩ := nrm_eq hni
        obtain ⟨hpm, _⟩ := latestIn_mem hl
        -- the key is in the content, hence inside the segment's range
        have hin : inRange nk g.first g.last = true := by
          have : ∃ q ∈ g.content, q.1 = nk := by
            generalize g.content = m at hgi
            induction m with
            | nil => simp [aget?] at hgi
            | cons a tl ih2 =>
              obtain ⟨k', v'⟩ := a
              simp only [aget?] at hgi
              by_cases hk : k' = nk
              · exact ⟨(k', v'), List.mem_cons_self .., hk⟩
              · simp only [hk, if_false] at hgi
                obtain ⟨q, hq, e⟩ := ih2 hgi
                exact ⟨q, List.mem_cons_of_mem _ hq, e⟩
          obtain ⟨q, hq, e⟩ := this
          rw [← e]; exact hgf.bounds q hq
        have hread : readAt s.files s.seg g.fid i.pos = .ok (some p.2) := by
          rw [hgf.fid, hipos]
          exact Hints.readAt_of_mem s.files s.seg f p.1 p.2 hwf (hmem f (List.mem_cons_self ..)) hpm
        simp only [hin, if_true, hgi, hread]
        have htx : p.2.txid ∈ g.txids := by
          rcases hgf.tx p hpm with h1 | ⟨h2, _⟩
          · exact h1
          · cases h2
        unfold judged
        by_cases hd : dead p.2 now = true
        · simp only [hd, if_true]
        · have hd' : dead p.2 now = false := by simpa using hd
          have : g.txids.contains p.2.txid = true := by simpa using htx
          simp only [hd', Bool.false_eq_true, if_false, this, if_true]
          split <;> rfl

/-- **`Get` in sparse mode.** Between two commits: the active tree, then the sealed segments newest first; the
latest record written under the composite key decides, a tombstone or an expired record answers "not found". -/
theorem get_spec (s : SState) (h : SInv s none []) (b k : Bytes) (now : Nat) :
    Sparse.get s b k now = match latestFile s.files.reverse (b ++ k) with
      | some r => judged r now
      | none => .err := by
  obtain ⟨pre, fa, hfiles, hfid, hlt, hsegs, hact, hoff, htx, _, _, _, _⟩ := h.split
  have hrev : s.files.reverse = fa :: pre.reverse := by rw [hfiles]; simp
  rw [hrev]
  simp only [latestFile]
  have hcont0 := aget_idxOf s.activeFid fa.recs [] (b ++ k)
  have hcontN := aget_of_nmap_eq hact (b ++ k)
  rw [hcont0] at hcontN
  unfold Sparse.get
  simp only
  cases hl : latestIn fa.recs (b ++ k) with
  | some p =>
    rw [hl] at hcontN
    simp only [Option.map_some] at hcontN
    obtain ⟨i, hgi, hni⟩ := Option.map_eq_some_iff.mp hcontN
    obtain ⟨hifid, hipos, hitx⟩ := nrm_eq hni
    obtain ⟨hpm, _⟩ := latestIn_mem hl
    have htxp : s.activeTx.contains i.r.txid = true := by
      rw [hitx]
      rcases htx p hpm with h1 | h2
      · simpa using h1
      · cases h2
    have hread : readRec s i = .ok (some p.2) := by
      unfold readRec
      rw [hifid, hipos, ← hfid]
      exact Hints.readAt_of_mem s.files s.seg fa p.1 p.2 h.wf (by rw [hfiles]; simp) hpm
    simp only [hgi, htxp, if_true, hread]
    rfl
  | none =>
    rw [hl] at hcontN
    simp only [aget?, Option.map_none, Option.map_eq_none_iff] at hcontN
    simp only [hcontN]
    unfold segsDesc
    have hf2 : All2 (fun g f => SegOk g f none []) s.sealed.reverse pre.reverse := by
      exact All2.reverse hsegs
    exact getOnDisk_spec s (b ++ k) now h.wf _ _ hf2 (by
      intro f hf
      rw [hfiles]
      simp only [List.mem_append, List.mem_reverse] at hf ⊢
      exact Or.inl hf)

/-! ### `Commit` keeps the invariant -/

/-- `a ≤ b` on byte strings -/
def le (a b : Bytes) : Prop := bcmp a b ≠ .gt

theorem le_refl (a : Bytes) : le a a := by unfold le; rw [bcmp_refl]; simp

theorem le_trans {a b c : Bytes} (h1 : le a b) (h2 : le b c) : le a c := by
  unfold le at *
  intro h
  have hca : bcmp c a = .lt := (bcmp_gt_iff_lt a c).mp h
  cases hab : bcmp a b with
  | gt => exact h1 hab
  | eq =>
    rw [(bcmp_eq_iff a b).mp hab] at hca
    exact h2 ((bcmp_gt_iff_lt b c).mpr hca)
  | lt =>
    have hcb : bcmp c b = .lt := bcmp_lt_trans hca hab
    exact h2 ((bcmp_gt_iff_lt b c).mpr hcb)

theorem le_of_not_gt {a b : Bytes} (h : ¬ bcmp a b = .gt) : le a b := h

theorem le_of_gt {a b : Bytes} (h : bcmp a b = .gt) : le b a := by
  unfold le
  intro h2
  have := (bcmp_gt_iff_lt b a).mp h2
  rw [this] at h
  cases h

theorem inRange_iff (k lo hi : Bytes) : inRange k lo hi = true ↔ le lo k ∧ le k hi := by
  unfold inRange le
  simp only [Bool.and_eq_true, bne_iff_ne, ne_eq]
  constructor
  · rintro ⟨h1, h2⟩
    exact ⟨fun h => h1 ((bcmp_gt_iff_lt lo k).mp h), h2⟩
  · rintro ⟨h1, h2⟩
    exact ⟨fun h => h1 ((bcmp_gt_iff_lt lo k).mpr h), h2⟩

theorem mem_upsert {α} (m : Assoc α) (k : Bytes) (v : α) (q : Bytes × α) (h : q ∈ upsert m k v) : q = (k, v) ∨ q ∈ m := by
  induction m with
  | nil => simp [upsert] at h; exact Or.inl h
  | cons a rest ih =>
    obtain ⟨k', v'⟩ := a
    simp only [upsert] at h
    cases hc : bcmp k k' with
    | lt => rw [hc] at h; simp only [List.mem_cons] at h ⊢; rcases h with h | h | h <;> simp [h]
    | eq => rw [hc] at h; simp only [List.mem_cons] at h ⊢; rcases h with h | h <;> simp [h]
    | gt =>
      rw [hc] at h
      simp only [List.mem_cons] at h ⊢
      rcases h with h | h
      · exact Or.inr (Or.inl h)
      · rcases ih h with e | e
        · exact Or.inl e
        · exact Or.inr (Or.inr e)

/-- the active tree's `FirstKey` / `LastKey` bound its keys -/
def ABounds (s : SState) : Prop :=
  (∀ q ∈ s.active, le s.first q.1 ∧ le q.1 s.last) ∧ (s.active = [] ∨ s.first ≠ [])

theorem treeInsert_bounds (s : SState) (k : Bytes) (i : Idx) (h : ABounds s) (hk : k ≠ []) : ABounds (treeInsert s k i) := by
  obtain ⟨hb, hne⟩ := h
  unfold treeInsert ABounds
  simp only
  have hlast : le s.last (if bcmp k s.last == .gt then k else s.last) ∧ le k (if bcmp k s.last == .gt then k else s.last) := by
    by_cases hc : bcmp k s.last = .gt
    · simp only [hc, beq_self_eq_true, if_true]; exact ⟨le_of_gt hc, le_refl k⟩
    · have : (bcmp k s.last == .gt) = false := by simpa using hc
      simp only [this, Bool.false_eq_true, if_false]; exact ⟨le_refl _, le_of_not_gt hc⟩
  refine ⟨?_, Or.inr ?_⟩
  · intro q hq
    rcases mem_upsert _ _ _ _ hq with e | e
    · subst e
      simp only
      refine ⟨?_, hlast.2⟩
      by_cases he : s.first.isEmpty = true
      · simp only [he, if_true]; exact le_refl k
      · simp only [he, Bool.false_eq_true, if_false]
        by_cases hc : bcmp k s.first = .lt
        · simp only [hc, beq_self_eq_true, if_true]; exact le_refl k
        · have : (bcmp k s.first == .lt) = false := by simpa using hc
          simp only [this, Bool.false_eq_true, if_false]
          unfold le; intro hg; exact hc ((bcmp_gt_iff_lt s.first k).mp hg)
    · obtain ⟨h1, h2⟩ := hb q e
      refine ⟨?_, le_trans h2 hlast.1⟩
      have hfne : s.first ≠ [] := by
        rcases hne with e0 | e0
        · rw [e0] at e; cases e
        · exact e0
      have he : s.first.isEmpty = false := by cases hf : s.first <;> simp_all
      simp only [he, Bool.false_eq_true, if_false]
      by_cases hc : bcmp k s.first = .lt
      · simp only [hc, beq_self_eq_true, if_true]
        refine le_trans ?_ h1
        unfold le; rw [hc]; simp
      · have : (bcmp k s.first == .lt) = false := by simpa using hc
        simp only [this, Bool.false_eq_true, if_false]; exact h1
  · by_cases he : s.first.isEmpty = true
    · simp only [he, if_true]; exact hk
    · simp only [he, Bool.false_eq_true, if_false]
      have hfne : s.first ≠ [] := by intro e0; rw [e0] at he; simp at he
      by_cases hc : bcmp k s.first = .lt
      · simp only [hc, beq_self_eq_true, if_true]; exact hk
      · have : (bcmp k s.first == .lt) = false := by simpa using hc
        simp only [this, Bool.false_eq_true, if_false]; exact hfne

theorem All2.mem_left {α β : Type} {R : α → β → Prop} {as : List α} {bs : List β} (h : All2 R as bs) :
    ∀ a ∈ as, ∃ b ∈ bs, R a b := by
  induction h with
  | nil => intro a ha; cases ha
  | cons hr _ ih =>
    intro a ha
    rcases List.mem_cons.mp ha with e | e
    · subst e; exact ⟨_, List.mem_cons_self .., hr⟩
    · obtain ⟨b, hb, hrb⟩ := ih a e
      exact ⟨b, List.mem_cons_of_mem _ hb, hrb⟩

theorem All2.map_left {α β : Type} {R S : α → β → Prop} {as : List α} {bs : List β} (f : α → α) (h : All2 R as bs)
    (hi : ∀ a b, R a b → S (f a) b) : All2 S (as.map f) bs := by
  induction h with
  | nil => exact All2.nil
  | cons hr _ ih => exact All2.cons (hi _ _ hr) ih

theorem size_pos (r : Rec) : 0 < r.size := by unfold Rec.size headerSize; omega

theorem newKey_ne (r : Rec) (h : r.key ≠ []) : newKey r ≠ [] := by
  unfold newKey
  intro e
  have := List.append_eq_nil_iff.mp e
  exact h this.2

theorem markLast_fields (r : Rec) (l : Bool) :
    (markLast r l).txid = r.txid ∧ (markLast r l).key = r.key ∧ (markLast r l).bucket = r.bucket ∧
    (markLast r l).ds = r.ds ∧ (markLast r l).size = r.size := by
  unfold markLast
  cases l <;> simp [Rec.size]

/-- sealing the active tree at a rotation -/
theorem rotate_inv (c c' : CommitSt) (tid : Nat) (h : SInv c.s (some tid) c.reserved) (hb : ABounds c.s)
    (hr : Sparse.rotate c = some c') :
    SInv c'.s (some tid) c'.reserved ∧ ABounds c'.s ∧ c'.s.seg = c.s.seg := by
  unfold Sparse.rotate at hr
  by_cases he : c.s.active.isEmpty = true
  · simp [he] at hr
  · simp only [he, Bool.false_eq_true, if_false, Option.some.injEq] at hr
    subst hr
    obtain ⟨pre, fa, hfiles, hfid, hlt, hsegs, hact, hoff, htx, _, _, _, _⟩ := h.split
    have hens : fileEnsure c.s.files (c.s.activeFid + 1) = c.s.files ++ [{ fid := c.s.activeFid + 1, recs := [] }] := by
      apply Reopen.fileEnsure_new
      intro g hg
      rw [hfiles] at hg
      rcases List.mem_append.mp hg with e | e
      · have := hlt g e; omega
      · simp at e; subst e; omega
    refine ⟨⟨⟨pre ++ [fa], { fid := c.s.activeFid + 1, recs := [] }, ?_, rfl, ?_, ?_, rfl, ?_, ?_,
      (by intro p hp; simp at hp), (by intro p hp; simp at hp), (by simp), rfl⟩, ?_, ?_⟩, ?_, rfl⟩
    · simp only; rw [hens, hfiles]
    · intro g hg
      simp only
      rcases List.mem_append.mp hg with e | e
      · have := hlt g e; omega
      · simp at e; subst e; omega
    · simp only
      apply All2.append
      · exact hsegs.imp (fun g f _ _ hgf => ⟨hgf.fid, hgf.content, hgf.bounds, fun p hp => by
          rcases hgf.tx p hp with h1 | ⟨h2, h3⟩
          · exact Or.inl h1
          · exact Or.inr ⟨h2, List.mem_append.mpr (Or.inl h3)⟩⟩)
      · refine All2.cons ⟨hfid.symm, by simp only; rw [hfid]; exact hact, ?_, ?_⟩ All2.nil
        · intro q hq
          simp only at hq ⊢
          rw [inRange_iff]
          exact hb.1 q hq
        · intro p hp
          simp only
          rcases htx p hp with h1 | h2
          · exact Or.inl h1
          · exact Or.inr ⟨h2, by simp⟩
    · intro p hp; simp at hp
    · intro p hp; simp at hp
    · -- well-formed files
      simp only
      rw [hens]
      obtain ⟨w1, w2⟩ := h.wf
      constructor
      · rw [List.pairwise_append]
        refine ⟨w1, by simp, ?_⟩
        intro a ha b hb'
        simp at hb'; subst hb'
        simp only
        rw [hfiles] at ha
        rcases List.mem_append.mp ha with e | e
        · have := hlt a e; omega
        · simp at e; subst e; omega
      · intro f hf
        rcases List.mem_append.mp hf with e | e
        · exact w2 f e
        · simp at e; subst e; simp
    · simp only
      rw [List.pairwise_append]
      refine ⟨h.asc, by simp, ?_⟩
      intro a ha b hb'
      simp at hb'; subst hb'
      simp only
      obtain ⟨f, hf, hgf⟩ := hsegs.mem_left a ha
      rw [hgf.fid]; exact hlt f hf
    · exact ⟨by intro q hq; simp at hq, Or.inl rfl⟩

/-! #### one iteration of the write loop, after the rotation test -/

def lastTx (s : SState) (tid : Nat) (reserved : List Nat) : SState :=
  { s with activeTx := if s.activeTx.contains tid then s.activeTx else s.activeTx ++ [tid],
           sealed := s.sealed.map fun g => if reserved.contains g.fid && !g.txids.contains tid then { g with txids := g.txids ++ [tid] } else g }

def writeCore (c1 : CommitSt) (r : Rec) (last : Bool) : CommitSt :=
  let s := c1.s
  let r1 := markLast r last
  let off := s.writeOff
  let s2 := { s with files := fileAppend s.files s.activeFid off r1, actualSize := s.actualSize + r1.size, writeOff := s.writeOff + r1.size }
  let tmp := tmpUpdate c1.tmp r1.key
  let s3 :=
    if last then
      let s' := lastTx s2 r1.txid c1.reserved
      match tmp with
      | some t => { s' with metas := metaUpdate s'.metas r1.bucket t }
      | none => s'
    else s2
  let s4 := if r1.ds == dsKV then treeInsert s3 (newKey r1) ⟨r1, s.activeFid, off⟩ else s3
  { c1 with s := s4, tmp := tmp }

theorem writeRec_eq (c : CommitSt) (r : Rec) (last : Bool) :
    Sparse.writeRec c r last =
      (if c.s.actualSize + r.size > c.s.seg then Sparse.rotate c else some c).map fun c1 => writeCore c1 r last := by
  unfold Sparse.writeRec
  cases (if c.s.actualSize + r.size > c.s.seg then Sparse.rotate c else some c) with
  | none => rfl
  | some c1 => rfl

/-- the parts of the state after `writeCore` that the invariant talks about -/
theorem writeCore_fields (c1 : CommitSt) (r : Rec) (last : Bool) :
    let s := c1.s
    let r1 := markLast r last
    let s4 := (writeCore c1 r last).s
    s4.files = fileAppend s.files s.activeFid s.writeOff r1 ∧ s4.activeFid = s.activeFid ∧
    s4.writeOff = s.writeOff + r1.size ∧ s4.seg = s.seg ∧ (writeCore c1 r last).reserved = c1.reserved ∧
    s4.active = (if r1.ds == dsKV then upsert s.active (newKey r1) ⟨r1, s.activeFid, s.writeOff⟩ else s.active) ∧
    (s4.activeTx = if last then (if s.activeTx.contains r1.txid then s.activeTx else s.activeTx ++ [r1.txid]) else s.activeTx) ∧
    (s4.sealed = if last then s.sealed.map (fun g => if c1.reserved.contains g.fid && !g.txids.contains r1.txid then { g with txids := g.txids ++ [r1.txid] } else g) else s.sealed) ∧
    (ABounds s → r.key ≠ [] → ABounds s4) := by
  intro s r1 s4
  have htmp : ∃ t, tmpUpdate c1.tmp r1.key = some t := by
    unfold tmpUpdate
    cases c1.tmp with
    | none => exact ⟨_, rfl⟩
    | some ab => exact ⟨_, rfl⟩
  obtain ⟨t, ht⟩ := htmp
  have hkey : r1.key = r.key := (markLast_fields r last).2.1
  cases last with
  | false =>
    by_cases hkv : (r1.ds == dsKV) = true
    · have e : s4 = treeInsert { s with files := fileAppend s.files s.activeFid s.writeOff r1, actualSize := s.actualSize + r1.size, writeOff := s.writeOff + r1.size } (newKey r1) ⟨r1, s.activeFid, s.writeOff⟩ := by
        simp only [s4, writeCore, Bool.false_eq_true, if_false]
        rw [if_pos hkv]
      rw [e]
      refine ⟨rfl, rfl, rfl, rfl, rfl, by simp only [treeInsert, hkv, if_true], by simp [treeInsert], by simp [treeInsert], ?_⟩
      intro hb hk
      exact treeInsert_bounds _ _ _ hb (newKey_ne r1 (by rw [hkey]; exact hk))
    · have e : s4 = { s with files := fileAppend s.files s.activeFid s.writeOff r1, actualSize := s.actualSize + r1.size, writeOff := s.writeOff + r1.size } := by
        simp only [s4, writeCore, Bool.false_eq_true, if_false]
        rw [if_neg hkv]
      rw [e]
      refine ⟨rfl, rfl, rfl, rfl, rfl, by simp only [hkv]; rfl, by simp, by simp, fun hb _ => hb⟩
  | true =>
    have ht : tmpUpdate c1.tmp (markLast r true).key = some t := ht
    by_cases hkv : (r1.ds == dsKV) = true
    · have e : s4 = treeInsert { (lastTx { s with files := fileAppend s.files s.activeFid s.writeOff r1, actualSize := s.actualSize + r1.size, writeOff := s.writeOff + r1.size } r1.txid c1.reserved) with
          metas := metaUpdate (lastTx { s with files := fileAppend s.files s.activeFid s.writeOff r1, actualSize := s.actualSize + r1.size, writeOff := s.writeOff + r1.size } r1.txid c1.reserved).metas r1.bucket t } (newKey r1) ⟨r1, s.activeFid, s.writeOff⟩ := by
        simp only [s4, writeCore, if_true, ht]
        rw [if_pos hkv]
      rw [e]
      refine ⟨rfl, rfl, rfl, rfl, rfl, by simp only [treeInsert, lastTx, hkv, if_true], by simp [treeInsert, lastTx], by simp [treeInsert, lastTx], ?_⟩
      intro hb hk
      exact treeInsert_bounds _ _ _ hb (newKey_ne r1 (by rw [hkey]; exact hk))
    · have e : s4 = { (lastTx { s with files := fileAppend s.files s.activeFid s.writeOff r1, actualSize := s.actualSize + r1.size, writeOff := s.writeOff + r1.size } r1.txid c1.reserved) with
          metas := metaUpdate (lastTx { s with files := fileAppend s.files s.activeFid s.writeOff r1, actualSize := s.actualSize + r1.size, writeOff := s.writeOff + r1.size } r1.txid c1.reserved).metas r1.bucket t } := by
        simp only [s4, writeCore, if_true, ht]
        rw [if_neg hkv]
      rw [e]
      refine ⟨rfl, rfl, rfl, rfl, rfl, by simp only [hkv, lastTx]; rfl, by simp [lastTx], by simp [lastTx], fun hb _ => hb⟩

theorem idxOf_snoc (fid : Nat) (recs : List (Nat × Rec)) (p : Nat × Rec) :
    idxOf fid (recs ++ [p]) [] = idxStep fid (idxOf fid recs []) p := by
  simp [idxOf, List.foldl_append]

theorem writeCore_inv (c1 : CommitSt) (tid : Nat) (r : Rec) (last : Bool)
    (h : SInv c1.s (some tid) c1.reserved) (hb : ABounds c1.s) (htid : r.txid = tid) (hk : r.key ≠ []) :
    ABounds (writeCore c1 r last).s ∧ (writeCore c1 r last).s.seg = c1.s.seg ∧
    (writeCore c1 r last).reserved = c1.reserved ∧
    (if last then SInv (writeCore c1 r last).s none [] else SInv (writeCore c1 r last).s (some tid) c1.reserved) := by
  obtain ⟨f1, f2, f3, f4, f5, f6, f7, f8, f9⟩ := writeCore_fields c1 r last
  obtain ⟨pre, fa, hfiles, hfid, hlt, hsegs, hact, hoff, htx, hkeys, hmark, hsorted, htorn⟩ := h.split
  obtain ⟨m1, m2, m3, m4, m5⟩ := markLast_fields r last
  generalize hr1 : markLast r last = r1 at f1 f3 f6 f7 f8 m1 m2 m3 m4 m5
  generalize hs4 : (writeCore c1 r last).s = s4 at f1 f2 f3 f4 f6 f7 f8 f9
  have htid1 : r1.txid = tid := by rw [m1, htid]
  let fa' : File := { fa with recs := fa.recs ++ [(c1.s.writeOff, r1)] }
  have hfiles' : s4.files = pre ++ [fa'] := by
    rw [f1, hfiles, ← hfid]
    exact Reopen.fileAppend_last pre fa c1.s.writeOff r1 (by rw [hfid]; exact hlt)
  have hactive' : nmap s4.active = nmap (idxOf s4.activeFid fa'.recs []) := by
    rw [f6, f2]
    show _ = nmap (idxOf c1.s.activeFid (fa.recs ++ [(c1.s.writeOff, r1)]) [])
    rw [idxOf_snoc]
    unfold idxStep
    by_cases hkv : (r1.ds == dsKV) = true
    · simp only [hkv, if_true]; rw [nmap_upsert, nmap_upsert, hact]
    · simp only [hkv]; exact hact
  have hkeys' : ∀ p ∈ fa'.recs, p.2.key ≠ [] := by
    intro p hp
    rcases List.mem_append.mp hp with e | e
    · exact hkeys p e
    · simp at e; subst e; simp only; rw [m2]; exact hk
  have hsorted' : fa'.recs.Pairwise (fun a b => a.1 < b.1) := by
    show (fa.recs ++ [(c1.s.writeOff, r1)]).Pairwise _
    rw [List.pairwise_append]
    refine ⟨hsorted, by simp, ?_⟩
    intro a ha b hb'
    simp at hb'; subst hb'
    exact hoff a ha
  have htorn' : fa'.torn = false := htorn
  have hoff' : ∀ p ∈ fa'.recs, p.1 < s4.writeOff := by
    intro p hp
    rw [f3]
    rcases List.mem_append.mp hp with e | e
    · have := hoff p e; omega
    · simp at e; subst e; have := size_pos r1; simp only; omega
  have hwf' : Hints.WellFormed s4.files := by
    obtain ⟨w1, w2⟩ := h.wf
    rw [hfiles] at w1 w2
    rw [hfiles']
    constructor
    · rw [List.pairwise_append] at w1 ⊢
      refine ⟨w1.1, by simp, ?_⟩
      intro a ha b hb'
      simp at hb'; subst hb'
      exact w1.2.2 a ha fa (by simp)
    · intro f hf
      rcases List.mem_append.mp hf with e | e
      · exact w2 f (List.mem_append.mpr (Or.inl e))
      · simp at e; subst e
        show (fa.recs ++ [(c1.s.writeOff, r1)]).Pairwise _
        rw [List.pairwise_append]
        refine ⟨w2 fa (by simp), by simp, ?_⟩
        intro a ha b hb'
        simp at hb'; subst hb'
        have := hoff a ha
        simp only; omega
  refine ⟨by rw [← hs4] at *; exact f9 hb hk, f4, f5, ?_⟩
  cases last with
  | false =>
    simp only [Bool.false_eq_true, if_false] at f7 f8 ⊢
    refine ⟨⟨pre, fa', hfiles', by rw [f2]; exact hfid, by rw [f2]; exact hlt, by rw [f8]; exact hsegs, hactive', hoff', ?_, hkeys', ?_, hsorted', htorn'⟩, hwf', by rw [f8]; exact h.asc⟩
    · intro p hp
      rw [f7]
      rcases List.mem_append.mp hp with e | e
      · exact htx p e
      · simp at e; subst e; exact Or.inr (by simp only; rw [htid1])
    · intro p hp
      rcases List.mem_append.mp hp with e | e
      · rcases hmark p e with ⟨q, hq, h1, h2⟩ | h2
        · exact Or.inl ⟨q, List.mem_append.mpr (Or.inl hq), h1, h2⟩
        · exact Or.inr h2
      · simp at e; subst e; exact Or.inr (by simp only; rw [htid1])
  | true =>
    simp only [if_true] at f7 f8 ⊢
    have hmemTx : ∀ x, x ∈ c1.s.activeTx ∨ x = tid → x ∈ s4.activeTx := by
      intro x hx
      rw [f7, htid1]
      by_cases hc : c1.s.activeTx.contains tid = true
      · simp only [hc, if_true]
        rcases hx with h1 | h2
        · exact h1
        · subst h2; simpa using hc
      · simp only [hc, Bool.false_eq_true, if_false]
        rcases hx with h1 | h2
        · exact List.mem_append.mpr (Or.inl h1)
        · subst h2; simp
    have hst1 : r1.status = 1 := by rw [← hr1]; rfl
    refine ⟨⟨pre, fa', hfiles', by rw [f2]; exact hfid, by rw [f2]; exact hlt, ?_, hactive', hoff', ?_, hkeys', ?_, hsorted', htorn'⟩, hwf', ?_⟩
    · rw [f8]
      apply All2.map_left _ hsegs
      intro g f hgf
      have hsame : ∀ g' : Seg, g' = (if c1.reserved.contains g.fid && !g.txids.contains r1.txid then { g with txids := g.txids ++ [r1.txid] } else g) →
          g'.fid = g.fid ∧ g'.content = g.content ∧ g'.first = g.first ∧ g'.last = g.last ∧ (∀ x ∈ g.txids, x ∈ g'.txids) ∧
          (g.fid ∈ c1.reserved → r1.txid ∈ g'.txids) := by
        intro g' e
        subst e
        by_cases hc : (c1.reserved.contains g.fid && !g.txids.contains r1.txid) = true
        · simp only [hc, if_true]
          exact ⟨trivial, trivial, trivial, trivial, fun x hx => List.mem_append.mpr (Or.inl hx), fun _ => by simp⟩
        · simp only [hc, Bool.false_eq_true, if_false]
          refine ⟨trivial, trivial, trivial, trivial, fun x hx => hx, fun hres => ?_⟩
          have h1 : c1.reserved.contains g.fid = true := by simpa using hres
          simp only [h1, Bool.true_and, Bool.not_eq_true', Bool.not_eq_false] at hc
          simpa using hc
      obtain ⟨e1, e2, e3, e4, e5, e6⟩ := hsame _ rfl
      refine ⟨by rw [e1]; exact hgf.fid, by rw [e2]; exact hgf.content, by rw [e2, e3, e4]; exact hgf.bounds, ?_⟩
      intro p hp
      rcases hgf.tx p hp with h1 | ⟨h2, h3⟩
      · exact Or.inl (e5 _ h1)
      · left
        have : p.2.txid = tid := by simpa using h2
        rw [this, ← htid1]
        exact e6 h3
    · intro p hp
      left
      apply hmemTx
      rcases List.mem_append.mp hp with e | e
      · rcases htx p e with h1 | h2
        · exact Or.inl h1
        · exact Or.inr (by simpa using h2)
      · simp at e; subst e; exact Or.inr htid1
    · intro p hp
      left
      have hlastmem : (c1.s.writeOff, r1) ∈ fa'.recs := List.mem_append.mpr (Or.inr (by simp))
      rcases List.mem_append.mp hp with e | e
      · rcases hmark p e with ⟨q, hq, h1, h2⟩ | h2
        · exact ⟨q, List.mem_append.mpr (Or.inl hq), h1, h2⟩
        · have : p.2.txid = tid := by simpa using h2
          exact ⟨(c1.s.writeOff, r1), hlastmem, hst1, by simp only; rw [htid1, this]⟩
      · simp at e; subst e; exact ⟨(c1.s.writeOff, r1), hlastmem, hst1, rfl⟩
    · rw [f8, List.pairwise_map]
      refine h.asc.imp ?_
      intro a b hab
      have ha : ∀ g : Seg, (if c1.reserved.contains g.fid && !g.txids.contains r1.txid then { g with txids := g.txids ++ [r1.txid] } else g).fid = g.fid := by
        intro g; split <;> rfl
      rw [ha a, ha b]; exact hab

theorem writeRec_inv (c c' : CommitSt) (tid : Nat) (r : Rec) (last : Bool)
    (h : SInv c.s (some tid) c.reserved) (hb : ABounds c.s) (htid : r.txid = tid) (hk : r.key ≠ [])
    (hw : Sparse.writeRec c r last = some c') :
    ABounds c'.s ∧ c'.s.seg = c.s.seg ∧ (if last then SInv c'.s none [] else SInv c'.s (some tid) c'.reserved) := by
  rw [writeRec_eq] at hw
  by_cases hrot : c.s.actualSize + r.size > c.s.seg
  · rw [if_pos hrot] at hw
    cases hr : Sparse.rotate c with
    | none => rw [hr] at hw; cases hw
    | some c1 =>
      rw [hr] at hw
      simp only [Option.map_some, Option.some.injEq] at hw
      subst hw
      obtain ⟨i1, b1, s1⟩ := rotate_inv c c1 tid h hb hr
      obtain ⟨a1, a2, a3, a4⟩ := writeCore_inv c1 tid r last i1 b1 htid hk
      refine ⟨a1, by rw [a2, s1], ?_⟩
      cases last with
      | false => simp only [Bool.false_eq_true, if_false] at a4 ⊢; rw [a3]; exact a4
      | true => simpa using a4
  · rw [if_neg hrot] at hw
    simp only [Option.map_some, Option.some.injEq] at hw
    subst hw
    obtain ⟨a1, a2, a3, a4⟩ := writeCore_inv c tid r last h hb htid hk
    refine ⟨a1, a2, ?_⟩
    cases last with
    | false => simp only [Bool.false_eq_true, if_false] at a4 ⊢; rw [a3]; exact a4
    | true => simpa using a4

/-- a write transaction of key/value records: one id, no empty key -/
def KVTx (tid : Nat) (recs : List Rec) : Prop := ∀ r ∈ recs, r.txid = tid ∧ r.key ≠ []

theorem commitLoop_inv (tid : Nat) : ∀ (recs : List Rec) (c c' : CommitSt), recs ≠ [] → KVTx tid recs →
    SInv c.s (some tid) c.reserved → ABounds c.s → Sparse.commitLoop c recs = some (c', true) →
    SInv c'.s none [] ∧ ABounds c'.s ∧ c'.s.seg = c.s.seg := by
  intro recs
  induction recs with
  | nil => intro c c' hne; exact absurd rfl hne
  | cons r rest ih =>
    intro c c' _ htx h hb hl
    simp only [Sparse.commitLoop] at hl
    by_cases hsz : r.size > c.s.seg
    · rw [if_pos hsz] at hl; simp at hl
    · rw [if_neg hsz] at hl
      cases hw : Sparse.writeRec c r rest.isEmpty with
      | none => rw [hw] at hl; cases hl
      | some c1 =>
        rw [hw] at hl
        simp only at hl
        obtain ⟨a1, a2, a3⟩ := writeRec_inv c c1 tid r rest.isEmpty h hb (htx r (List.mem_cons_self ..)).1 (htx r (List.mem_cons_self ..)).2 hw
        cases rest with
        | nil =>
          simp only [Sparse.commitLoop, Option.some.injEq, Prod.mk.injEq, and_true] at hl
          subst hl
          simp only [List.isEmpty_nil, if_true] at a3
          exact ⟨a3, a1, a2⟩
        | cons r2 rest2 =>
          simp only [List.isEmpty_cons, Bool.false_eq_true, if_false] at a3
          obtain ⟨b1, b2, b3⟩ := ih c1 c' (by simp) (fun x hx => htx x (List.mem_cons_of_mem _ hx)) a3 a1 hl
          exact ⟨b1, b2, by rw [b3, a2]⟩

/-- the invariant between commits -/
def Good (s : SState) : Prop := SInv s none [] ∧ ABounds s

theorem sinv_weaken {s : SState} (h : SInv s none []) (tid : Nat) : SInv s (some tid) [] := by
  obtain ⟨pre, fa, a1, a2, a3, a4, a5, a6, a7, a8, a9, a10, a11⟩ := h.split
  refine ⟨⟨pre, fa, a1, a2, a3, ?_, a5, a6, fun p hp => ?_, a8, fun p hp => ?_, a10, a11⟩, h.wf, h.asc⟩
  · exact a4.imp (fun g f _ _ hgf => ⟨hgf.fid, hgf.content, hgf.bounds, fun p hp => by
      rcases hgf.tx p hp with h1 | ⟨h2, _⟩
      · exact Or.inl h1
      · cases h2⟩)
  · rcases a7 p hp with h1 | h2
    · exact Or.inl h1
    · cases h2
  · rcases a9 p hp with h1 | h2
    · exact Or.inl h1
    · cases h2

theorem commit_inv (s : SState) (recs : List Rec) (tid : Nat) (h : Good s) (hne : recs ≠ []) (htx : KVTx tid recs)
    (hok : (Sparse.commit s recs).2 = .ok ()) : Good (Sparse.commit s recs).1 ∧ (Sparse.commit s recs).1.seg = s.seg := by
  unfold Sparse.commit at hok ⊢
  have hemp : recs.isEmpty = false := by cases recs with | nil => exact absurd rfl hne | cons _ _ => rfl
  simp only [hemp, Bool.false_eq_true, if_false] at hok ⊢
  cases hl : Sparse.commitLoop { s := s } recs with
  | none => rw [hl] at hok; simp at hok
  | some res =>
    obtain ⟨c', fine⟩ := res
    rw [hl] at hok
    cases fine with
    | false => simp at hok
    | true =>
      simp only
      obtain ⟨a1, a2, a3⟩ := commitLoop_inv tid recs { s := s } c' hne htx (sinv_weaken h.1 tid) h.2 hl
      exact ⟨⟨a1, a2⟩, a3⟩

theorem openDB_empty (seg : Nat) :
    (Sparse.openDB seg [] [] []).1 =
      { seg := seg, files := [{ fid := 0, recs := [] }], activeFid := 0, writeOff := 0, actualSize := 0, opened := true } := by
  rfl

theorem good_init (seg : Nat) : Good (Sparse.openDB seg [] [] []).1 := by
  rw [openDB_empty]
  constructor
  · constructor
    · refine ⟨[], { fid := 0, recs := [] }, rfl, rfl, ?_, ?_, ?_, ?_, ?_, ?_, ?_, ?_, rfl⟩
      · intro g hg; cases hg
      · exact All2.nil
      · rfl
      · intro p hp; cases hp
      · intro p hp; cases hp
      · intro p hp; cases hp
      · intro p hp; cases hp
      · exact List.Pairwise.nil
    · exact ⟨by simp, by intro f hf; simp at hf; subst hf; simp⟩
    · simp
  · exact ⟨(by intro q hq; cases hq), Or.inl rfl⟩

/-! ### a clean reopen keeps the invariant -/

theorem foldl_max_last : ∀ (l : List Nat) (x init : Nat), (∀ y ∈ l, y < x) → init ≤ x → (l ++ [x]).foldl max init = x := by
  intro l
  induction l with
  | nil => intro x init _ hi; simp [List.foldl]; omega
  | cons a rest ih =>
    intro x init hl hi
    simp only [List.cons_append, List.foldl_cons]
    apply ih x (max init a) (fun y hy => hl y (List.mem_cons_of_mem _ hy))
    have := hl a (List.mem_cons_self ..)
    omega

theorem nmap_idxOf_congr (fid : Nat) (L : List (Nat × Rec)) (m m' : Assoc Idx) (h : nmap m = nmap m') :
    nmap (idxOf fid L m) = nmap (idxOf fid L m') := by
  induction L generalizing m m' with
  | nil => exact h
  | cons x rest ih =>
    simp only [idxOf, List.foldl_cons]
    apply ih
    unfold idxStep
    by_cases hkv : (x.2.ds == dsKV) = true
    · simp only [hkv, if_true]; rw [nmap_upsert, nmap_upsert, h]
    · simp only [hkv]; exact h

/-- the loop of `Open` that rebuilds the active tree from the records of committed transactions -/
def openStep (ids : List Nat) (fid : Nat) (s : SState) (x : Nat × Rec) : SState :=
  if ids.contains x.2.txid && x.2.ds == dsKV then treeInsert s (newKey x.2) ⟨{ x.2 with status := 1 }, fid, x.1⟩ else s

theorem openFold_spec (ids : List Nat) (fid : Nat) : ∀ (L : List (Nat × Rec)) (t : SState),
    (∀ x ∈ L, ids.contains x.2.txid = true) → (∀ x ∈ L, x.2.key ≠ []) → ABounds t →
    nmap (L.foldl (openStep ids fid) t).active = nmap (idxOf fid L t.active) ∧ ABounds (L.foldl (openStep ids fid) t) ∧
    (L.foldl (openStep ids fid) t).files = t.files ∧ (L.foldl (openStep ids fid) t).activeFid = t.activeFid ∧
    (L.foldl (openStep ids fid) t).writeOff = t.writeOff ∧ (L.foldl (openStep ids fid) t).sealed = t.sealed ∧
    (L.foldl (openStep ids fid) t).activeTx = t.activeTx := by
  intro L
  induction L with
  | nil => intro t _ _ hb; exact ⟨rfl, hb, rfl, rfl, rfl, rfl, rfl⟩
  | cons x rest ih =>
    intro t hids hkeys hb
    simp only [List.foldl_cons]
    have hx := hids x (List.mem_cons_self ..)
    have hstep : nmap (openStep ids fid t x).active = nmap (idxStep fid t.active x) ∧ ABounds (openStep ids fid t x) ∧
        (openStep ids fid t x).files = t.files ∧ (openStep ids fid t x).activeFid = t.activeFid ∧
        (openStep ids fid t x).writeOff = t.writeOff ∧ (openStep ids fid t x).sealed = t.sealed ∧
        (openStep ids fid t x).activeTx = t.activeTx := by
      unfold openStep idxStep
      by_cases hkv : (x.2.ds == dsKV) = true
      · simp only [hx, hkv, Bool.and_self, if_true]
        refine ⟨?_, treeInsert_bounds _ _ _ hb (newKey_ne x.2 (hkeys x (List.mem_cons_self ..))), rfl, rfl, rfl, rfl, rfl⟩
        simp only [treeInsert]
        rw [nmap_upsert, nmap_upsert]
        rfl
      · simp only [hkv, Bool.and_false, Bool.false_eq_true, if_false]
        exact ⟨trivial, hb, trivial, trivial, trivial, trivial, trivial⟩
    obtain ⟨s1, s2, s3, s4, s5, s6, s7⟩ := hstep
    obtain ⟨r1, r2, r3, r4, r5, r6, r7⟩ := ih (openStep ids fid t x) (fun y hy => hids y (List.mem_cons_of_mem _ hy))
      (fun y hy => hkeys y (List.mem_cons_of_mem _ hy)) s2
    refine ⟨?_, r2, by rw [r3, s3], by rw [r4, s4], by rw [r5, s5], by rw [r6, s6], by rw [r7, s7]⟩
    rw [r1]
    simp only [idxOf, List.foldl_cons]
    exact nmap_idxOf_congr fid rest _ _ s1

theorem lt_fileEnd (f : File) (h : f.recs.Pairwise (fun a b => a.1 < b.1)) : ∀ p ∈ f.recs, p.1 < fileEnd f := by
  intro p hp
  unfold fileEnd
  cases hl : f.recs.getLast? with
  | none =>
    have : f.recs = [] := by simpa using hl
    rw [this] at hp; cases hp
  | some q =>
    obtain ⟨o, r⟩ := q
    simp only
    obtain ⟨ys, hys⟩ := List.getLast?_eq_some_iff.mp hl
    rw [hys] at hp h
    rw [List.pairwise_append] at h
    have := size_pos r
    rcases List.mem_append.mp hp with e | e
    · have := h.2.2 p e (o, r) (by simp); simp only at this; omega
    · simp at e; subst e; simp only; omega

theorem reopen_good (s : SState) (h : Good s) (seg' : Nat) : Good (Sparse.openDB seg' s.files s.sealed s.metas).1 := by
  obtain ⟨hinv, hb⟩ := h
  obtain ⟨pre, fa, hfiles, hfid, hlt, hsegs, hact, hoff, htx, hkeys, hmark, hsorted, htorn⟩ := hinv.split
  have hmax : (s.files.map (·.fid)).foldl max 0 = fa.fid := by
    rw [hfiles, List.map_append]
    simp only [List.map_cons, List.map_nil]
    apply foldl_max_last
    · intro y hy
      obtain ⟨g, hg, rfl⟩ := List.mem_map.mp hy
      rw [hfid]; exact hlt g hg
    · omega
  have hany : s.files.any (·.fid == fa.fid) = true := by rw [hfiles]; simp
  have hens : fileEnsure s.files fa.fid = s.files := by unfold fileEnsure; rw [hany]; rfl
  have hget : fileGet? s.files fa.fid = some fa := by
    unfold fileGet?
    rw [hfiles, List.find?_append]
    have : pre.find? (·.fid == fa.fid) = none := by
      rw [List.find?_eq_none]
      intro g hg
      have := hlt g hg
      simp only [beq_iff_eq]; omega
    rw [this]; simp
  have hmarked : ∀ x ∈ fa.recs, (((fa.recs.filter fun y => y.2.status == 1).map fun y => y.2.txid).contains x.2.txid) = true := by
    intro x hx
    rcases hmark x hx with ⟨q, hq, h1, h2⟩ | h2
    · simp only [List.contains_iff_mem, List.mem_map, List.mem_filter]
      exact ⟨q, ⟨hq, by simp [h1]⟩, h2⟩
    · cases h2
  -- unfold `Open`
  have hopen : (Sparse.openDB seg' s.files s.sealed s.metas).1 =
      fa.recs.foldl (openStep ((fa.recs.filter fun y => y.2.status == 1).map fun y => y.2.txid) fa.fid)
        { seg := seg', files := s.files, activeFid := fa.fid, writeOff := fileEnd fa, actualSize := fileEnd fa,
          sealed := s.sealed.filter (·.fid < fa.fid), metas := s.metas, opened := true,
          activeTx := ((fa.recs.filter fun y => y.2.status == 1).map fun y => y.2.txid).eraseDups } := by
    unfold Sparse.openDB
    simp only [hmax, hens, hget, Option.getD_some, htorn, Bool.false_eq_true, if_false]
    rfl
  rw [hopen]
  have hsealed : s.sealed.filter (·.fid < fa.fid) = s.sealed := by
    rw [List.filter_eq_self]
    intro g hg
    obtain ⟨f, hf, hgf⟩ := hsegs.mem_left g hg
    have := hlt f hf
    simp only [decide_eq_true_eq]
    rw [hgf.fid, hfid]; exact this
  rw [hsealed]
  obtain ⟨o1, o2, o3, o4, o5, o6, o7⟩ := openFold_spec _ fa.fid fa.recs
    { seg := seg', files := s.files, activeFid := fa.fid, writeOff := fileEnd fa, actualSize := fileEnd fa,
      sealed := s.sealed, metas := s.metas, opened := true,
      activeTx := ((fa.recs.filter fun y => y.2.status == 1).map fun y => y.2.txid).eraseDups }
    hmarked hkeys ⟨(by intro q hq; cases hq), Or.inl rfl⟩
  refine ⟨⟨⟨pre, fa, by rw [o3]; exact hfiles, by rw [o4], by rw [o4, hfid]; exact hlt, by rw [o6]; exact hsegs, ?_, ?_, ?_, hkeys, hmark, hsorted, htorn⟩, by rw [o3]; exact hinv.wf, by rw [o6]; exact hinv.asc⟩, o2⟩
  · rw [o1, o4]
  · rw [o5]; exact lt_fileEnd fa hsorted
  · intro p hp
    left
    rw [o7, List.mem_eraseDups]
    have := hmarked p hp
    simpa using this

/-! ### the latest record of the whole log -/

/-- the last record of the log (files in id order, records in write order) that satisfies `q` -/
def lastInLog (fs : List File) (q : Rec → Bool) : Option Rec :=
  ((allRecs fs).filter fun x => q x.1).getLast?.map (·.1)

theorem getLast?_append_some {α} (a b : List α) : (a ++ b).getLast? = match b.getLast? with
    | some x => some x
    | none => a.getLast? := by
  cases hb : b.getLast? with
  | none =>
    have : b = [] := by simpa using hb
    subst this; simp
  | some x =>
    obtain ⟨ys, hys⟩ := List.getLast?_eq_some_iff.mp hb
    rw [hys, ← List.append_assoc]
    simp

theorem latestIn_eq (f : File) (nk : Bytes) :
    (latestIn f.recs nk).map (·.2) =
      (((f.recs.map fun p => (p.2, f.fid, p.1)).filter fun x => x.1.ds == dsKV && newKey x.1 == nk).getLast?.map (·.1)) := by
  unfold latestIn isKey
  rw [List.filter_map]
  simp only [List.getLast?_map, Option.map_map]
  rfl

/-- newest file first, last record in it = last record of the log -/
theorem latestFile_rev (rs : List File) (nk : Bytes) :
    latestFile rs nk = lastInLog rs.reverse (fun r => r.ds == dsKV && newKey r == nk) := by
  induction rs with
  | nil => rfl
  | cons f older ih =>
    simp only [List.reverse_cons, latestFile]
    unfold lastInLog at ih ⊢
    have hall : allRecs (older.reverse ++ [f]) = allRecs older.reverse ++ (f.recs.map fun p => (p.2, f.fid, p.1)) := by
      simp [allRecs]
    rw [hall, List.filter_append, getLast?_append_some]
    have hl := latestIn_eq f nk
    cases hli : latestIn f.recs nk with
    | some p =>
      rw [hli] at hl
      simp only [Option.map_some] at hl
      cases hg : ((f.recs.map fun p => (p.2, f.fid, p.1)).filter fun x => x.1.ds == dsKV && newKey x.1 == nk).getLast? with
      | none => rw [hg] at hl; simp at hl
      | some y => rw [hg] at hl; simp only [Option.map_some, Option.some.injEq] at hl; simp [hl]
    | none =>
      rw [hli] at hl
      simp only [Option.map_none] at hl
      cases hg : ((f.recs.map fun p => (p.2, f.fid, p.1)).filter fun x => x.1.ds == dsKV && newKey x.1 == nk).getLast? with
      | some y => rw [hg] at hl; simp at hl
      | none => simp only; exact ih

theorem latestFile_eq (fs : List File) (nk : Bytes) :
    latestFile fs.reverse nk = lastInLog fs (fun r => r.ds == dsKV && newKey r == nk) := by
  rw [latestFile_rev, List.reverse_reverse]

end NutsProofs.SparseGet
