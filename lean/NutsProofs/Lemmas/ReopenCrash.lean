/-
  NutsProofs.Lemmas.ReopenCrash — a process crash inside `Commit`, at the level of histories: whatever
  prefix of a transaction's records (short of the last, which carries the commit mark) has reached the files
  when the process dies, `Open` on those files rebuilds the index and the committed ids of the state before
  the transaction began.
-/
import NutsProofs.Lemmas.ReopenObs
namespace NutsProofs.Reopen
open Nuts Nuts.Model Nuts.Model.DB NutsProofs

/-- the state when the process dies after the first `j` records of transaction `t` are written (none of
them the last: `j < t.length`), as `commitLoop` builds it -/
def crashAfter (s : State) (t : List Rec) (j : Nat) : State := (t.take j).foldl (fun s r => writeRec s r false) s

theorem crash_shape (recs : List Rec) (s : State) (h : Shape s) (hkv : ∀ r ∈ recs, r.ds = dsKV) :
    Shape (recs.foldl (fun s r => writeRec s r false) s) ∧
    ∃ extra : List LogRec, extra.map (·.1) = recs ∧
      allRecs (recs.foldl (fun s r => writeRec s r false) s).files = allRecs s.files ++ extra := by
  induction recs generalizing s with
  | nil => exact ⟨h, [], rfl, by simp⟩
  | cons r rest ih =>
    obtain ⟨hs1, ⟨fid, pos, hrecs1, _⟩, _, _⟩ := writeRec_kv s r false h (hkv r (by simp))
    obtain ⟨hs2, extra, hex, hfiles⟩ := ih (writeRec s r false) hs1 (fun q hq => hkv q (by simp [hq]))
    refine ⟨hs2, (r, fid, pos) :: extra, by simp [hex], ?_⟩
    simp only [List.foldl_cons]
    rw [hfiles, hrecs1]
    simp [markLast]

/-- `Open` on a directory with the shape commits produce, whose log is a committed key/value log `L`
followed by uncommitted records `E` of a fresh transaction: the index of `L` alone, the ids of `L` alone -/
theorem open_ignores_uncommitted_suffix (fs : List File) (opt : Opts) (L E : List LogRec)
    (hne : fs ≠ []) (hunt : ∀ g ∈ fs, g.torn = false) (hrecs : allRecs fs = L ++ E)
    (hLkv : ∀ x ∈ L, x.1.ds = dsKV) (hLc : ∀ x ∈ L, x.1.txid ∈ committedIds L)
    (hEs : ∀ x ∈ E, x.1.status = 0) (hEf : ∀ x ∈ E, ∀ y ∈ L, y.1.txid ≠ x.1.txid) :
    (openDB opt fs).2 = .ok () ∧ (openDB opt fs).1.kv = kvOfLog L ∧
    (∀ id, id ∈ (openDB opt fs).1.committed ↔ id ∈ committedIds L) := by
  have hens := fileEnsure_max fs hne
  have hemp : fs.isEmpty = false := by cases fs with | nil => exact absurd rfl hne | cons _ _ => rfl
  have htorn : (fs.any (·.torn)) = false := by
    rw [List.any_eq_false]; intro g hg; rw [hunt g hg]; simp
  obtain ⟨hids, hrep⟩ := Replay.uncommitted_suffix_invisible
    { opt := opt.core, files := fs, activeFid := (fs.map (·.fid)).foldl max 0, hintFid := (fs.map (·.fid)).foldl max 0,
      writeOff := fileEnd ((fileGet? fs ((fs.map (·.fid)).foldl max 0)).getD { fid := (fs.map (·.fid)).foldl max 0, recs := [] }),
      actualSize := fileEnd ((fileGet? fs ((fs.map (·.fid)).foldl max 0)).getD { fid := (fs.map (·.fid)).foldl max 0, recs := [] }),
      committed := (committedIds (L ++ E)).eraseDups, opened := true } L E hEs hEf
  have hall : ∀ x ∈ L, (committedIds L).contains x.1.txid = true ∧ x.1.ds = dsKV :=
    fun x hx => ⟨by simpa using hLc x hx, hLkv x hx⟩
  unfold openDB
  simp only [hens, hemp, Bool.false_eq_true, if_false, htorn, hrecs]
  rw [hrep]
  obtain ⟨h1, h2, h3, _, _⟩ := replay_all_kv L (committedIds L) _ hall
  refine ⟨h1, ?_, ?_⟩
  · rw [h2]; rfl
  · intro id
    rw [h3, hids]
    simp

/-- **Crash inside Commit.** From a state with the invariant, a key/value transaction `t` with a fresh id
starts to commit and the process dies after `j < t.length` of its records reached the files. `Open` on what
is left succeeds and rebuilds the index and the committed ids of the state before the transaction — nothing
of the partial transaction is visible, nothing committed earlier is lost. -/
theorem crash_in_commit_recovers_prestate (s : State) (h : LogInv s) (t : List Rec) (tid : Nat) (j : Nat)
    (ht : ∀ r ∈ t, r.ds = dsKV ∧ r.txid = tid ∧ r.status = 0)
    (hfresh : ∀ x ∈ allRecs s.files, x.1.txid ≠ tid) (opt : Opts) :
    (openDB opt (crashAfter s t j).files).2 = .ok () ∧
    (openDB opt (crashAfter s t j).files).1.kv = normKV s.kv ∧
    (∀ id, id ∈ (openDB opt (crashAfter s t j).files).1.committed ↔ id ∈ s.committed) := by
  have htake : ∀ r ∈ t.take j, r.ds = dsKV ∧ r.txid = tid ∧ r.status = 0 := fun r hr => ht r (List.mem_of_mem_take hr)
  obtain ⟨hshape, extra, hex, hfiles⟩ := crash_shape (t.take j) s h.shape (fun r hr => (htake r hr).1)
  obtain ⟨pre, f, hf, _, _⟩ := hshape.split
  have hE : ∀ x ∈ extra, x.1.txid = tid ∧ x.1.status = 0 := by
    intro x hx
    have : x.1 ∈ t.take j := by rw [← hex]; exact List.mem_map.mpr ⟨x, hx, rfl⟩
    exact (htake x.1 this).2
  obtain ⟨h1, h2, h3⟩ := open_ignores_uncommitted_suffix (crashAfter s t j).files opt (allRecs s.files) extra
    (by unfold crashAfter; rw [hf]; simp) hshape.untorn hfiles h.kvOnly h.allCommitted
    (fun x hx => (hE x hx).2) (fun x hx y hy => by rw [(hE x hx).1]; exact hfresh y hy)
  refine ⟨h1, ?_, ?_⟩
  · rw [h2, h.idx]
  · intro id; rw [h3 id, h.ids id]

end NutsProofs.Reopen
