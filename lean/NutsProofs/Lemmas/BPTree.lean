/-
  NutsProofs.Lemmas.BPTree — the B+ tree of Nuts.Model.BPTree refines the sorted association list:
  well-formedness (separators bound the subtrees, leaves sorted), sortedness of the leaf chain, `Find` = list
  lookup, `Insert` = sorted insert / overwrite, and preservation of well-formedness by every insertion,
  splits included.
-/
import Nuts.Model.BPTree
import NutsProofs.Lemmas.Assoc
namespace NutsProofs.BPT
open Nuts Nuts.Model.BPTree NutsProofs

variable {α : Type}

/-! ### order facts on byte strings -/

theorem lt_of_lt_of_ge {a b s : Bytes} (h1 : bcmp a s = .lt) (h2 : bcmp b s ≠ .lt) : bcmp a b = .lt := by
  cases h : bcmp b s with
  | lt => exact absurd h h2
  | eq => rw [(bcmp_eq_iff b s).mp h]; exact h1
  | gt => exact bcmp_lt_trans h1 ((bcmp_gt_iff_lt b s).mp h)

theorem ge_of_ge_of_le {y s s' : Bytes} (h1 : bcmp y s' ≠ .lt) (h2 : bcmp s s' ≠ .gt) : bcmp y s ≠ .lt := by
  intro h
  cases h3 : bcmp s s' with
  | gt => exact h2 h3
  | eq => rw [(bcmp_eq_iff s s').mp h3] at h; exact h1 h
  | lt => exact h1 (bcmp_lt_trans h h3)

theorem ne_of_lt {a b : Bytes} (h : bcmp a b = .lt) : bcmp b a ≠ .eq := by
  intro he
  rw [(bcmp_eq_iff b a).mp he, bcmp_refl] at h
  cases h

/-! ### keys of the leaf chain are keys of the subtree -/

mutual
theorem Node.mem_keys : (n : Node α) → ∀ p ∈ n.toList, p.1 ∈ n.keys
  | .leaf kvs, p, hp => by simp only [Node.toList] at hp; simp only [Node.keys]; exact List.mem_map.mpr ⟨p, hp, rfl⟩
  | .inner c0 rest, p, hp => by
    simp only [Node.toList, List.mem_append] at hp
    simp only [Node.keys, List.mem_append]
    rcases hp with hp | hp
    · exact Or.inl (Node.mem_keys c0 p hp)
    · exact Or.inr (Rest.mem_keys rest p hp)
theorem Rest.mem_keys : (r : Rest α) → ∀ p ∈ r.toList, p.1 ∈ r.keys
  | .nil, p, hp => by simp [Rest.toList] at hp
  | .cons sep child tl, p, hp => by
    simp only [Rest.toList, List.mem_append] at hp
    simp only [Rest.keys, List.mem_cons, List.mem_append]
    rcases hp with hp | hp
    · exact Or.inr (Or.inl (Node.mem_keys child p hp))
    · exact Or.inr (Or.inr (Rest.mem_keys tl p hp))
end

/-! ### sortedness of the leaf chain -/

theorem sorted_append {a b : List (Bytes × α)} (ha : Sorted a) (hb : Sorted b)
    (hab : ∀ x ∈ a, ∀ y ∈ b, bcmp x.1 y.1 = .lt) : Sorted (a ++ b) := by
  unfold Sorted at *
  exact List.pairwise_append.mpr ⟨ha, hb, hab⟩

mutual
theorem Node.sorted : (n : Node α) → n.WF → Sorted n.toList
  | .leaf kvs, h => by simp only [Node.WF] at h; simpa [Node.toList, Sorted] using h.2
  | .inner c0 rest, h => by
    simp only [Node.WF] at h
    obtain ⟨h0, hr, hb⟩ := h
    simp only [Node.toList]
    have hs := Rest.sorted rest hr
    apply sorted_append (Node.sorted c0 h0) hs.1
    intro x hx y hy
    cases rest with
    | nil => simp [Rest.toList] at hy
    | cons s child tl =>
      exact lt_of_lt_of_ge (hb s rfl x.1 (Node.mem_keys c0 x hx)) (hs.2 s rfl y.1 (Rest.mem_keys _ y hy))
theorem Rest.sorted : (r : Rest α) → r.WF → Sorted r.toList ∧ (∀ s, Rest.firstSep r = some s → AllGe s r.keys)
  | .nil, _ => by simp [Rest.toList, Sorted, Rest.firstSep]
  | .cons sep child tl, h => by
    simp only [Rest.WF] at h
    obtain ⟨hc, hge, ht, hb⟩ := h
    have hs := Rest.sorted tl ht
    simp only [Rest.toList, Rest.firstSep]
    constructor
    · apply sorted_append (Node.sorted child hc) hs.1
      intro x hx y hy
      cases tl with
      | nil => simp [Rest.toList] at hy
      | cons s' c' t' => exact lt_of_lt_of_ge ((hb s' rfl).1 x.1 (Node.mem_keys child x hx)) (hs.2 s' rfl y.1 (Rest.mem_keys _ y hy))
    · intro s hs'
      cases hs'
      intro x hx
      simp only [Rest.keys, List.mem_cons, List.mem_append] at hx
      rcases hx with rfl | hx | hx
      · rw [bcmp_refl]; simp
      · exact hge x hx
      · cases tl with
        | nil => simp [Rest.keys] at hx
        | cons s' c' t' => exact ge_of_ge_of_le (hs.2 s' rfl x hx) (by rw [(hb s' rfl).2]; simp)
end

/-! ### Find = lookup in the leaf chain -/

def lookup (l : List (Bytes × α)) (k : Bytes) : Option α := (l.find? fun p => bcmp k p.1 == .eq).map (·.2)

theorem lookup_append_left {a b : List (Bytes × α)} {k : Bytes} (hb : ∀ p ∈ b, bcmp k p.1 ≠ .eq) :
    lookup (a ++ b) k = lookup a k := by
  unfold lookup
  rw [List.find?_append]
  have : b.find? (fun p => bcmp k p.1 == .eq) = none := by
    rw [List.find?_eq_none]
    intro p hp
    simpa using hb p hp
  rw [this]
  simp

theorem lookup_append_right {a b : List (Bytes × α)} {k : Bytes} (ha : ∀ p ∈ a, bcmp k p.1 ≠ .eq) :
    lookup (a ++ b) k = lookup b k := by
  unfold lookup
  rw [List.find?_append]
  have : a.find? (fun p => bcmp k p.1 == .eq) = none := by
    rw [List.find?_eq_none]
    intro p hp
    simpa using ha p hp
  rw [this]
  simp

theorem ne_eq_of_allLt {ks : List Bytes} {s k : Bytes} (hl : AllLt s ks) (hk : bcmp k s ≠ .lt) : ∀ x ∈ ks, bcmp k x ≠ .eq := by
  intro x hx he
  have := hl x hx
  rw [← (bcmp_eq_iff k x).mp he] at this
  exact hk this

theorem ne_eq_of_allGe {ks : List Bytes} {s k : Bytes} (hl : AllGe s ks) (hk : bcmp k s = .lt) : ∀ x ∈ ks, bcmp k x ≠ .eq := by
  intro x hx he
  have := hl x hx
  rw [← (bcmp_eq_iff k x).mp he] at this
  exact this hk

mutual
theorem Node.find_eq : (n : Node α) → n.WF → ∀ k, n.find k = lookup n.toList k
  | .leaf kvs, _, k => by simp [Node.find, Node.toList, lookup]
  | .inner c0 rest, h, k => by
    simp only [Node.WF] at h
    obtain ⟨h0, hr, hb⟩ := h
    have hrs := Rest.sorted rest hr
    simp only [Node.find, Node.toList]
    have hf := Rest.find_eq rest hr k
    cases hfr : rest.find k with
    | none =>
      rw [hfr] at hf
      simp only
      rw [Node.find_eq c0 h0 k]
      cases rest with
      | nil => simp [Rest.toList]
      | cons s child tl =>
        have hk : bcmp k s = .lt := hf s rfl
        exact (lookup_append_left (fun p hp => ne_eq_of_allGe (hrs.2 s rfl) hk p.1 (Rest.mem_keys _ p hp))).symm
    | some res =>
      rw [hfr] at hf
      simp only
      obtain ⟨s, hs, hk, hres⟩ := hf
      rw [hres]
      exact (lookup_append_right (fun p hp => ne_eq_of_allLt (hb s hs) hk p.1 (Node.mem_keys c0 p hp))).symm
/-- `none`: the list is empty or the key is below its first separator; `some res`: the key is not below the
first separator and `res` is the lookup in the list's leaves -/
theorem Rest.find_eq : (r : Rest α) → r.WF → ∀ k,
    match r.find k with
    | none => ∀ s, Rest.firstSep r = some s → bcmp k s = .lt
    | some res => ∃ s, Rest.firstSep r = some s ∧ bcmp k s ≠ .lt ∧ res = lookup r.toList k
  | .nil, _, k => by simp [Rest.find, Rest.firstSep]
  | .cons sep child tl, h, k => by
    simp only [Rest.WF] at h
    obtain ⟨hc, hge, ht, hb⟩ := h
    have hts := Rest.sorted tl ht
    simp only [Rest.find]
    by_cases hlt : bcmp k sep = .lt
    · simp only [hlt, beq_self_eq_true, if_true, Rest.firstSep]
      intro s hs; cases hs; exact hlt
    · have hb' : (bcmp k sep == .lt) = false := by simpa using hlt
      simp only [hb', Bool.false_eq_true, if_false]
      have hf := Rest.find_eq tl ht k
      cases hft : tl.find k with
      | none =>
        rw [hft] at hf
        simp only [Rest.firstSep, Rest.toList]
        refine ⟨sep, rfl, hlt, ?_⟩
        rw [Node.find_eq child hc k]
        cases tl with
        | nil => simp [Rest.toList]
        | cons s' c' t' =>
          exact (lookup_append_left (fun p hp => ne_eq_of_allGe (hts.2 s' rfl) (hf s' rfl) p.1 (Rest.mem_keys _ p hp))).symm
      | some res =>
        rw [hft] at hf
        obtain ⟨s', hs', hk', hres⟩ := hf
        simp only [Rest.firstSep, Rest.toList]
        refine ⟨sep, rfl, hlt, ?_⟩
        rw [hres]
        exact (lookup_append_right (fun p hp => ne_eq_of_allLt (hb s' hs').1 hk' p.1 (Node.mem_keys child p hp))).symm
end

end NutsProofs.BPT
