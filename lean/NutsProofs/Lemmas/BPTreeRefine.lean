/-
  NutsProofs.Lemmas.BPTreeRefine — the B+ tree refines the sorted association list the DB model uses as
  its index: `Tree.insert` = `upsert` on the leaf chain (well-formedness preserved, splits included),
  `Tree.find` = `aget?`, `findRange` = the filter `start ≤ key ≤ end`, and the block a prefix scan walks =
  the list-level block of `prefixWalk`.
-/
import NutsProofs.Lemmas.BPTreeIns
namespace NutsProofs.BPT
open Nuts Nuts.Model.BPTree Nuts.Model.DB NutsProofs

variable {α : Type}

/-! ### list facts -/

/-- the overwrite of `Record.UpdateRecord`, on a list -/
def setVal (k : Bytes) (v : α) (p : Bytes × α) : Bytes × α := if bcmp k p.1 == .eq then (p.1, v) else p

theorem setVal_fst (k : Bytes) (v : α) (p : Bytes × α) : (setVal k v p).1 = p.1 := by
  unfold setVal; split <;> rfl

theorem map_setVal_id (l : List (Bytes × α)) (k : Bytes) (v : α) (h : ∀ p ∈ l, bcmp k p.1 ≠ .eq) :
    l.map (setVal k v) = l := by
  induction l with
  | nil => rfl
  | cons q rest ih =>
    have hq : (bcmp k q.1 == .eq) = false := by simpa using h q (by simp)
    simp only [List.map_cons, setVal, hq, Bool.false_eq_true, if_false]
    congr 1
    exact ih (fun p hp => h p (by simp [hp]))

theorem upsert_eq_leafInsert (l : List (Bytes × α)) (k : Bytes) (v : α) (h : ∀ p ∈ l, bcmp k p.1 ≠ .eq) :
    upsert l k v = leafInsert l k v := by
  induction l with
  | nil => rfl
  | cons q rest ih =>
    obtain ⟨k', v'⟩ := q
    have hq : bcmp k k' ≠ .eq := h (k', v') (by simp)
    simp only [upsert, leafInsert]
    cases hc : bcmp k k' with
    | lt => simp
    | eq => exact absurd hc hq
    | gt => simp [ih (fun p hp => h p (by simp [hp]))]

theorem upsert_eq_map (l : List (Bytes × α)) (k : Bytes) (v : α) (hs : Sorted l) (h : ∃ p ∈ l, bcmp k p.1 = .eq) :
    upsert l k v = l.map (setVal k v) := by
  induction l with
  | nil => obtain ⟨p, hp, _⟩ := h; cases hp
  | cons q rest ih =>
    obtain ⟨k', v'⟩ := q
    unfold Sorted at hs
    rw [List.pairwise_cons] at hs
    simp only [upsert, List.map_cons]
    cases hc : bcmp k k' with
    | lt =>
      exfalso
      obtain ⟨p, hp, hpe⟩ := h
      rcases List.mem_cons.mp hp with rfl | hp
      · rw [hc] at hpe; cases hpe
      · have := bcmp_lt_trans hc (hs.1 p hp)
        rw [this] at hpe; cases hpe
    | eq =>
      have hkk : k = k' := (bcmp_eq_iff k k').mp hc
      simp only [setVal, hc, beq_self_eq_true, if_true]
      subst hkk
      congr 1
      symm
      apply map_setVal_id
      intro p hp hpe
      have := hs.1 p hp
      rw [this] at hpe; cases hpe
    | gt =>
      simp only [setVal, hc]
      have : (Ordering.gt == Ordering.eq) = false := rfl
      simp only [this, Bool.false_eq_true, if_false]
      congr 1
      apply ih hs.2
      obtain ⟨p, hp, hpe⟩ := h
      rcases List.mem_cons.mp hp with rfl | hp
      · rw [hc] at hpe; cases hpe
      · exact ⟨p, hp, hpe⟩

theorem lookup_eq_aget (l : List (Bytes × α)) (k : Bytes) : lookup l k = aget? l k := by
  induction l with
  | nil => rfl
  | cons q rest ih =>
    obtain ⟨k', v'⟩ := q
    unfold lookup at ih ⊢
    simp only [List.find?_cons, aget?]
    by_cases hk : k' = k
    · subst hk; simp [bcmp_refl]
    · have : (bcmp k k' == .eq) = false := by
        have : bcmp k k' ≠ .eq := fun h => hk ((bcmp_eq_iff k k').mp h).symm
        simpa using this
      simp only [this, hk, if_false]
      exact ih

theorem lookup_isSome (l : List (Bytes × α)) (k : Bytes) : (lookup l k).isSome ↔ ∃ p ∈ l, bcmp k p.1 = .eq := by
  unfold lookup
  rw [Option.isSome_map, List.find?_isSome]
  simp

/-! ### overwrite -/

mutual
theorem Node.update_spec : (n : Node α) → n.WF → ∀ k v,
    (n.update k v).toList = n.toList.map (setVal k v) ∧ (n.update k v).keys = n.keys ∧ (n.update k v).WF
  | .leaf kvs, h, k, v => by
    simp only [Node.WF] at h
    simp only [Node.update, Node.toList, Node.keys, Node.WF]
    refine ⟨rfl, ?_, ?_, ?_⟩
    · rw [List.map_map]; congr 1; funext p; exact setVal_fst k v p
    · intro hn; exact h.1 (List.map_eq_nil_iff.mp hn)
    · rw [List.pairwise_map]
      refine List.Pairwise.imp ?_ h.2
      intro a b hab
      have ha := setVal_fst k v a; have hb := setVal_fst k v b
      unfold setVal at ha hb
      rw [ha, hb]; exact hab
  | .inner c0 rest, h, k, v => by
    simp only [Node.WF] at h
    obtain ⟨h0, hr, hb⟩ := h
    have hrs := Rest.update_spec rest hr k v
    have hsorted := Rest.sorted rest hr
    simp only [Node.update]
    cases hru : rest.update k v with
    | some rest' =>
      obtain ⟨⟨s, hs, hks⟩, hfs, htl, hkeys, hwf⟩ := hrs.2 rest' hru
      simp only [Node.toList, Node.keys, Node.WF, List.map_append]
      refine ⟨?_, by rw [hkeys], h0, hwf, fun s' hs' => hb s' (by rw [← hfs]; exact hs')⟩
      rw [htl, map_setVal_id c0.toList k v (fun p hp => ne_eq_of_allLt (hb s hs) hks p.1 (Node.mem_keys c0 p hp))]
    | none =>
      have hlt := hrs.1 hru
      obtain ⟨hctl, hckeys, hcwf⟩ := Node.update_spec c0 h0 k v
      simp only [Node.toList, Node.keys, Node.WF, List.map_append]
      refine ⟨?_, by rw [hckeys], hcwf, hr, fun s' hs' => by rw [hckeys]; exact hb s' hs'⟩
      rw [hctl]
      congr 1
      symm
      apply map_setVal_id
      intro p hp
      cases rest with
      | nil => simp [Rest.toList] at hp
      | cons s c t => exact ne_eq_of_allGe (hsorted.2 s rfl) (hlt s rfl) p.1 (Rest.mem_keys _ p hp)
theorem Rest.update_spec : (r : Rest α) → r.WF → ∀ k v,
    (r.update k v = none → ∀ s, Rest.firstSep r = some s → bcmp k s = .lt) ∧
    (∀ r', r.update k v = some r' →
      (∃ s, Rest.firstSep r = some s ∧ bcmp k s ≠ .lt) ∧ Rest.firstSep r' = Rest.firstSep r ∧
      r'.toList = r.toList.map (setVal k v) ∧ r'.keys = r.keys ∧ r'.WF)
  | .nil, _, k, v => by simp [Rest.update, Rest.firstSep]
  | .cons sep child tl, h, k, v => by
    simp only [Rest.WF] at h
    obtain ⟨hc, hge, ht, hb⟩ := h
    have hts := Rest.update_spec tl ht k v
    have hsorted := Rest.sorted tl ht
    simp only [Rest.update]
    by_cases hlt : bcmp k sep = .lt
    · simp only [hlt, beq_self_eq_true, if_true, Rest.firstSep]
      exact ⟨fun _ s hs => by cases hs; exact hlt, fun r' hr' => by cases hr'⟩
    · have hb' : (bcmp k sep == .lt) = false := by simpa using hlt
      simp only [hb', Bool.false_eq_true, if_false]
      cases htu : tl.update k v with
      | some tl' =>
        obtain ⟨⟨s, hs, hks⟩, hfs, htl, hkeys, hwf⟩ := hts.2 tl' htu
        refine ⟨fun hn => (by cases hn), ?_⟩
        intro r' hr'
        simp only [Option.some.injEq] at hr'
        subst hr'
        simp only [Rest.toList, Rest.keys, Rest.WF, Rest.firstSep, List.map_append]
        refine ⟨⟨sep, rfl, hlt⟩, trivial, ?_, by rw [hkeys], hc, hge, hwf, fun s' hs' => hb s' (by rw [← hfs]; exact hs')⟩
        rw [htl, map_setVal_id child.toList k v (fun p hp => ne_eq_of_allLt (hb s hs).1 hks p.1 (Node.mem_keys child p hp))]
      | none =>
        have hltt := hts.1 htu
        obtain ⟨hctl, hckeys, hcwf⟩ := Node.update_spec child hc k v
        refine ⟨fun hn => (by cases hn), ?_⟩
        intro r' hr'
        simp only [Option.some.injEq] at hr'
        subst hr'
        simp only [Rest.toList, Rest.keys, Rest.WF, Rest.firstSep, List.map_append]
        refine ⟨⟨sep, rfl, hlt⟩, trivial, ?_, by rw [hckeys], hcwf, by rw [hckeys]; exact hge, ht,
          fun s' hs' => by rw [hckeys]; exact hb s' hs'⟩
        rw [hctl]
        congr 1
        symm
        apply map_setVal_id
        intro p hp
        cases tl with
        | nil => simp [Rest.toList] at hp
        | cons s c t => exact ne_eq_of_allGe (hsorted.2 s rfl) (hltt s rfl) p.1 (Rest.mem_keys _ p hp)
end

/-! ### the tree -/

def Tree.WF (t : Tree α) : Prop := ∀ n, t = some n → n.WF

theorem Tree.sorted (t : Tree α) (h : Tree.WF t) : Sorted t.toList := by
  cases t with
  | none => simp [Tree.toList, Sorted]
  | some n => exact Node.sorted n (h n rfl)

/-- `Find` on the tree = lookup in the sorted association list -/
theorem Tree.find_eq_aget (t : Tree α) (h : Tree.WF t) (k : Bytes) : t.find k = aget? t.toList k := by
  cases t with
  | none => rfl
  | some n => simp only [Tree.find, Tree.toList]; rw [Node.find_eq n (h n rfl) k, lookup_eq_aget]

/-- `Insert` on the tree = `upsert` on the sorted association list, and the result is a well-formed tree:
every leaf and inner split included -/
theorem Tree.insert_refines (t : Tree α) (h : Tree.WF t) (k : Bytes) (v : α) :
    (Tree.insert t k v).toList = upsert t.toList k v ∧ Tree.WF (Tree.insert t k v) := by
  cases t with
  | none =>
    refine ⟨rfl, ?_⟩
    intro n hn
    simp only [Tree.insert, Option.some.injEq] at hn
    subst hn
    simp [Node.WF]
  | some n =>
    have hn := h n rfl
    simp only [Tree.insert, Tree.toList]
    have hfind := Node.find_eq n hn k
    by_cases hf : (n.find k).isSome
    · simp only [hf, if_true]
      obtain ⟨htl, _, hwf⟩ := Node.update_spec n hn k v
      refine ⟨?_, fun n' hn' => by cases hn'; exact hwf⟩
      rw [htl]
      rw [hfind, lookup_isSome] at hf
      exact (upsert_eq_map n.toList k v (Node.sorted n hn) hf).symm
    · simp only [hf, Bool.false_eq_true, if_false]
      have hk : ∀ p ∈ n.toList, bcmp k p.1 ≠ .eq := by
        intro p hp he
        apply hf
        rw [hfind, lookup_isSome]
        exact ⟨p, hp, he⟩
      obtain ⟨htl, hwf, _⟩ := Node.ins_spec n hn k v hk
      rw [upsert_eq_leafInsert n.toList k v hk]
      cases hi : n.ins k v with
      | one n' =>
        rw [hi] at htl hwf
        exact ⟨htl, fun n'' hn'' => by cases hn''; exact hwf⟩
      | split l s r =>
        rw [hi] at htl hwf
        simp only [Ins.toList, Ins.WF] at htl hwf
        obtain ⟨hl, hr, hlt, hge⟩ := hwf
        refine ⟨?_, ?_⟩
        · simp only [Node.toList, Rest.toList, List.append_nil]; exact htl
        · intro n'' hn''
          cases hn''
          simp only [Node.WF, Rest.WF, Rest.firstSep]
          refine ⟨hl, ⟨hr, hge, trivial, fun s' hs' => by cases hs'⟩, ?_⟩
          intro s' hs'; cases hs'; exact hlt

/-- every tree built by `Insert` from the empty tree is well formed and its leaf chain is the fold of
`upsert` over the same insertions -/
theorem Tree.inserts_refine (ops : List (Bytes × α)) :
    Tree.WF (ops.foldl (fun t p => Tree.insert t p.1 p.2) (none : Tree α)) ∧
    (ops.foldl (fun t p => Tree.insert t p.1 p.2) (none : Tree α)).toList =
      ops.foldl (fun m p => upsert m p.1 p.2) [] := by
  suffices H : ∀ (t : Tree α), Tree.WF t →
      Tree.WF (ops.foldl (fun t p => Tree.insert t p.1 p.2) t) ∧
      (ops.foldl (fun t p => Tree.insert t p.1 p.2) t).toList = ops.foldl (fun m p => upsert m p.1 p.2) t.toList by
    exact H none (fun n hn => by cases hn)
  induction ops with
  | nil => intro t ht; exact ⟨ht, rfl⟩
  | cons p rest ih =>
    intro t ht
    obtain ⟨h1, h2⟩ := Tree.insert_refines t ht p.1 p.2
    have := ih (Tree.insert t p.1 p.2) h2
    simp only [List.foldl_cons]
    rw [← h1]
    exact this

/-! ### scans: the leaf `FindLeaf(key)` reaches and the chain after it -/

/-- `toList = pre ++ a ++ b` where `a` is the leaf the descent for `k` reaches, every key before it is
below `k` and every key after it is above `k` -/
def FromSpec (l : List (Bytes × α)) (k : Bytes) (ab : List (Bytes × α) × List (Bytes × α)) : Prop :=
  ∃ pre, l = pre ++ ab.1 ++ ab.2 ∧ (∀ p ∈ pre, bcmp p.1 k = .lt) ∧ (∀ p ∈ ab.2, bcmp k p.1 = .lt)

theorem rest_above {rest : Rest α} (hr : rest.WF) {k : Bytes}
    (hlt : ∀ s, Rest.firstSep rest = some s → bcmp k s = .lt) : ∀ p ∈ rest.toList, bcmp k p.1 = .lt := by
  intro p hp
  cases rest with
  | nil => simp [Rest.toList] at hp
  | cons s c t => exact lt_of_lt_of_ge (hlt s rfl) ((Rest.sorted _ hr).2 s rfl p.1 (Rest.mem_keys _ p hp))

theorem node_below {c : Node α} {s k : Bytes} (hl : AllLt s c.keys) (hk : bcmp k s ≠ .lt) :
    ∀ p ∈ c.toList, bcmp p.1 k = .lt :=
  fun p hp => lt_of_lt_of_ge (hl p.1 (Node.mem_keys c p hp)) hk

mutual
theorem Node.leavesFrom_spec : (n : Node α) → n.WF → ∀ k, FromSpec n.toList k (n.leavesFrom k)
  | .leaf kvs, _, k => ⟨[], by simp [Node.leavesFrom, Node.toList], by simp, by simp [Node.leavesFrom]⟩
  | .inner c0 rest, h, k => by
    simp only [Node.WF] at h
    obtain ⟨h0, hr, hb⟩ := h
    have hrs := Rest.leavesFrom_spec rest hr k
    simp only [Node.leavesFrom, Node.toList]
    cases hrl : rest.leavesFrom k with
    | some ab =>
      obtain ⟨⟨s, hs, hks⟩, pre, heq, hpre, hpost⟩ := hrs.2 ab hrl
      refine ⟨c0.toList ++ pre, ?_, ?_, hpost⟩
      · rw [heq]; simp [List.append_assoc]
      · intro p hp
        rcases List.mem_append.mp hp with hp | hp
        · exact node_below (hb s hs) hks p hp
        · exact hpre p hp
    | none =>
      have hlt := hrs.1 hrl
      obtain ⟨pre, heq, hpre, hpost⟩ := Node.leavesFrom_spec c0 h0 k
      refine ⟨pre, ?_, hpre, ?_⟩
      · simp only []; rw [heq]; simp [List.append_assoc]
      · intro p hp
        simp only [] at hp
        rcases List.mem_append.mp hp with hp | hp
        · exact hpost p hp
        · exact rest_above hr hlt p hp
theorem Rest.leavesFrom_spec : (r : Rest α) → r.WF → ∀ k,
    (r.leavesFrom k = none → ∀ s, Rest.firstSep r = some s → bcmp k s = .lt) ∧
    (∀ ab, r.leavesFrom k = some ab → (∃ s, Rest.firstSep r = some s ∧ bcmp k s ≠ .lt) ∧ FromSpec r.toList k ab)
  | .nil, _, k => by simp [Rest.leavesFrom, Rest.firstSep]
  | .cons sep child tl, h, k => by
    simp only [Rest.WF] at h
    obtain ⟨hc, hge, ht, hb⟩ := h
    have hts := Rest.leavesFrom_spec tl ht k
    simp only [Rest.leavesFrom]
    by_cases hlt : bcmp k sep = .lt
    · simp only [hlt, beq_self_eq_true, if_true, Rest.firstSep]
      exact ⟨fun _ s hs => by cases hs; exact hlt, fun r' hr' => by cases hr'⟩
    · have hb' : (bcmp k sep == .lt) = false := by simpa using hlt
      simp only [hb', Bool.false_eq_true, if_false]
      cases htl : tl.leavesFrom k with
      | some ab' =>
        obtain ⟨⟨s, hs, hks⟩, pre, heq, hpre, hpost⟩ := hts.2 ab' htl
        refine ⟨fun hn => (by cases hn), ?_⟩
        intro ab hab
        simp only [Option.some.injEq] at hab
        subst hab
        refine ⟨⟨sep, rfl, hlt⟩, child.toList ++ pre, ?_, ?_, hpost⟩
        · simp only [Rest.toList]; rw [heq]; simp [List.append_assoc]
        · intro p hp
          rcases List.mem_append.mp hp with hp | hp
          · exact node_below (hb s hs).1 hks p hp
          · exact hpre p hp
      | none =>
        have hltt := hts.1 htl
        obtain ⟨pre, heq, hpre, hpost⟩ := Node.leavesFrom_spec child hc k
        refine ⟨fun hn => (by cases hn), ?_⟩
        intro ab hab
        simp only [Option.some.injEq] at hab
        subst hab
        refine ⟨⟨sep, rfl, hlt⟩, pre, ?_, hpre, ?_⟩
        · simp only [Rest.toList]; rw [heq]; simp [List.append_assoc]
        · intro p hp
          simp only [] at hp
          rcases List.mem_append.mp hp with hp | hp
          · exact hpost p hp
          · exact rest_above ht hltt p hp
end

theorem dropWhile_append_all {β} (f : β → Bool) (a b : List β) (h : ∀ x ∈ a, f x = true) :
    (a ++ b).dropWhile f = b.dropWhile f := by
  induction a with
  | nil => rfl
  | cons x rest ih =>
    simp only [List.cons_append, List.dropWhile_cons, h x (by simp), if_true]
    exact ih (fun y hy => h y (by simp [hy]))

theorem dropWhile_append_none {β} (f : β → Bool) (a b : List β) (h : ∀ x ∈ b, f x = false) :
    (a ++ b).dropWhile f = a.dropWhile f ++ b := by
  induction a with
  | nil =>
    cases b with
    | nil => rfl
    | cons y rest => simp [List.dropWhile_cons, h y (by simp)]
  | cons x rest ih =>
    simp only [List.cons_append, List.dropWhile_cons]
    split
    · exact ih
    · rfl

/-- what every scan starts from: skipping the keys below `k` in the first leaf only (as the Go loops do)
is skipping them in the whole leaf chain -/
theorem Tree.scan_start (t : Tree α) (h : Tree.WF t) (k : Bytes) :
    ((t.leavesFrom k).1.dropWhile fun p => bcmp p.1 k == .lt) ++ (t.leavesFrom k).2 =
    t.toList.dropWhile fun p => bcmp p.1 k == .lt := by
  cases t with
  | none => rfl
  | some n =>
    obtain ⟨pre, heq, hpre, hpost⟩ := Node.leavesFrom_spec n (h n rfl) k
    simp only [Tree.leavesFrom, Tree.toList]
    rw [heq, List.append_assoc, dropWhile_append_all _ _ _ (fun p hp => by simp [hpre p hp])]
    symm
    apply dropWhile_append_none
    intro p hp
    have := gt_of_lt (hpost p hp)
    simp [this]

/-! ### range scan = filter -/

theorem takeWhile_eq_filter_sorted (l : List (Bytes × α)) (st en : Bytes) (hs : Sorted l)
    (hge : ∀ p ∈ l, bcmp p.1 st ≠ .lt) :
    (l.takeWhile fun p => bcmp p.1 en != .gt) = l.filter fun p => ble st p.1 && ble p.1 en := by
  induction l with
  | nil => rfl
  | cons q rest ih =>
    unfold Sorted at hs
    rw [List.pairwise_cons] at hs
    have hq : ble st q.1 = true := by
      unfold ble
      have := hge q (by simp)
      rw [bcmp_swap]
      cases h : bcmp q.1 st <;> simp_all [Ordering.swap]
    simp only [List.takeWhile_cons, List.filter_cons, hq, Bool.true_and]
    unfold ble
    cases hc : bcmp q.1 en with
    | gt =>
      simp only [bne_self_eq_false, Bool.false_eq_true, if_false]
      symm
      rw [List.filter_eq_nil_iff]
      intro p hp
      have hlt := hs.1 p hp
      have : bcmp p.1 en = .gt := gt_of_lt (bcmp_lt_trans ((bcmp_gt_iff_lt _ _).mp hc) hlt)
      simp [this]
    | lt =>
      have : (Ordering.lt != Ordering.gt) = true := rfl
      simp only [this, if_true]
      congr 1
      exact ih hs.2 (fun p hp => hge p (by simp [hp]))
    | eq =>
      have : (Ordering.eq != Ordering.gt) = true := rfl
      simp only [this, if_true]
      congr 1
      exact ih hs.2 (fun p hp => hge p (by simp [hp]))

theorem range_eq_filter_sorted (l : List (Bytes × α)) (st en : Bytes) (hs : Sorted l) :
    ((l.dropWhile fun p => bcmp p.1 st == .lt).takeWhile fun p => bcmp p.1 en != .gt) =
      l.filter fun p => ble st p.1 && ble p.1 en := by
  induction l with
  | nil => rfl
  | cons q rest ih =>
    have hs' := hs
    unfold Sorted at hs'
    rw [List.pairwise_cons] at hs'
    simp only [List.dropWhile_cons]
    cases hc : bcmp q.1 st with
    | lt =>
      simp only [beq_self_eq_true, if_true]
      rw [ih hs'.2, List.filter_cons]
      have : ble st q.1 = false := by unfold ble; rw [gt_of_lt hc]; rfl
      simp [this]
    | eq =>
      have : (Ordering.eq == Ordering.lt) = false := rfl
      simp only [this, Bool.false_eq_true, if_false]
      apply takeWhile_eq_filter_sorted (q :: rest) st en hs
      intro p hp
      rcases List.mem_cons.mp hp with rfl | hp
      · rw [hc]; simp
      · have := hs'.1 p hp
        rw [(bcmp_eq_iff _ _).mp hc] at this
        rw [gt_of_lt this]; simp
    | gt =>
      have : (Ordering.gt == Ordering.lt) = false := rfl
      simp only [this, Bool.false_eq_true, if_false]
      apply takeWhile_eq_filter_sorted (q :: rest) st en hs
      intro p hp
      rcases List.mem_cons.mp hp with rfl | hp
      · rw [hc]; simp
      · have := bcmp_lt_trans ((bcmp_gt_iff_lt _ _).mp hc) (hs'.1 p hp)
        rw [gt_of_lt this]; simp

/-- `findRange` on the tree = the records with `start ≤ key ≤ end` of the sorted association list (what
`DB.rangeScan` selects) -/
theorem Tree.range_eq_filter (t : Tree α) (h : Tree.WF t) (st en : Bytes) :
    Tree.range t st en = t.toList.filter fun p => ble st p.1 && ble p.1 en := by
  unfold Tree.range
  have := Tree.scan_start t h st
  rw [← range_eq_filter_sorted t.toList st en (Tree.sorted t h), ← this]

/-- the block a prefix scan walks on the tree = the block `DB.prefixWalk` walks on the sorted list -/
theorem Tree.prefix_block (t : Tree α) (h : Tree.WF t) (pre : Bytes) :
    ((((t.leavesFrom pre).1.dropWhile fun p => bcmp p.1 pre == .lt) ++ (t.leavesFrom pre).2).takeWhile
        fun p => hasPrefix p.1 pre) =
    (t.toList.dropWhile fun p => blt p.1 pre).takeWhile fun p => hasPrefix p.1 pre := by
  rw [Tree.scan_start t h pre]; rfl

theorem prefix_go_eq (off lim : Int) (mt : Bytes → Bool) (l : List (Bytes × Idx)) (c : Int) (acc : List (Bytes × Idx)) :
    ((Tree.prefixScan.go off lim mt l c acc).1.map (·.2), (Tree.prefixScan.go off lim mt l c acc).2) =
      prefixWalk.go off lim mt l c (acc.map (·.2)) := by
  induction l generalizing c acc with
  | nil => simp [Tree.prefixScan.go, prefixWalk.go]
  | cons p rest ih =>
    unfold Tree.prefixScan.go prefixWalk.go
    split
    · exact ih _ _
    · split
      · exact ih _ _
      · simp only [List.length_append, List.length_map, List.length_cons, List.length_nil]
        split
        · simp
        · have := ih c (acc ++ [p])
          simpa using this

/-- `PrefixScan` / `PrefixSearchScan` on the tree return the records (and the final offset counter) that
`DB.prefixWalk` returns on the sorted association list -/
theorem Tree.prefixScan_eq_walk (t : Tree Idx) (h : Tree.WF t) (pre : Bytes) (off lim : Int) (mt : Bytes → Bool) :
    ((Tree.prefixScan t pre off lim mt).1.map (·.2), (Tree.prefixScan t pre off lim mt).2) =
      prefixWalk t.toList pre off lim mt := by
  unfold Tree.prefixScan prefixWalk
  simp only []
  rw [Tree.prefix_block t h pre]
  exact prefix_go_eq off lim mt _ 0 []

end NutsProofs.BPT
