/-
  NutsProofs.Lemmas.Reopen — recovery rebuilds the state: along every history of successful key/value
  commits the KV index is (up to the status byte of the cached records) the fold of `applyKV` over the log
  in write order, the log in write order is what `Open` reads, every record's transaction is committed —
  hence `Open` on the files of the state rebuilds the same index, hints included.
-/
import Nuts.Model.Tx
import NutsProofs.Lemmas.Assoc
import NutsProofs.Lemmas.Replay
namespace NutsProofs.Reopen
open Nuts Nuts.Model Nuts.Model.DB NutsProofs

abbrev LogRec := Rec × Nat × Nat

/-! ### the index as a function of the log -/

/-- the KV component of `applyKV` -/
def kvPut (kv : Assoc (Assoc Idx)) (r : Rec) (fid pos : Nat) : Assoc (Assoc Idx) :=
  aput kv r.bucket (upsert ((aget? kv r.bucket).getD []) r.key ⟨r, fid, pos⟩)

theorem applyKV_kv (s : State) (r : Rec) (fid pos : Nat) : (applyKV s r fid pos).kv = kvPut s.kv r fid pos := rfl

/-- recovery caches every record with status Committed -/
def committedRec (r : Rec) : Rec := { r with status := 1 }

def normIdx (i : Idx) : Idx := { i with r := committedRec i.r }
def normBucket (m : Assoc Idx) : Assoc Idx := m.map fun p => (p.1, normIdx p.2)
def normKV (kv : Assoc (Assoc Idx)) : Assoc (Assoc Idx) := kv.map fun p => (p.1, normBucket p.2)

/-- the index a log denotes: `applyKV` of every record, in log order -/
def kvOfLog (L : List LogRec) : Assoc (Assoc Idx) :=
  L.foldl (fun kv x => kvPut kv (committedRec x.1) x.2.1 x.2.2) []

theorem kvOfLog_append (L : List LogRec) (x : LogRec) :
    kvOfLog (L ++ [x]) = kvPut (kvOfLog L) (committedRec x.1) x.2.1 x.2.2 := by
  simp [kvOfLog, List.foldl_append]

theorem aget_map {α β} (f : α → β) (m : Assoc α) (k : Bytes) :
    aget? (m.map fun p => (p.1, f p.2)) k = (aget? m k).map f := by
  induction m with
  | nil => rfl
  | cons p rest ih =>
    obtain ⟨k', v⟩ := p
    simp only [List.map_cons, aget?]
    split <;> simp [ih]

theorem aput_map {α β} (f : α → β) (m : Assoc α) (k : Bytes) (v : α) :
    (aput m k v).map (fun p => (p.1, f p.2)) = aput (m.map fun p => (p.1, f p.2)) k (f v) := by
  induction m with
  | nil => rfl
  | cons p rest ih =>
    obtain ⟨k', v'⟩ := p
    simp only [List.map_cons, aput]
    split <;> simp [ih]

theorem upsert_map {α β} (f : α → β) (m : Assoc α) (k : Bytes) (v : α) :
    (upsert m k v).map (fun p => (p.1, f p.2)) = upsert (m.map fun p => (p.1, f p.2)) k (f v) := by
  induction m with
  | nil => rfl
  | cons p rest ih =>
    obtain ⟨k', v'⟩ := p
    simp only [List.map_cons, upsert]
    split <;> simp [ih]

theorem normKV_kvPut (kv : Assoc (Assoc Idx)) (r : Rec) (fid pos : Nat) :
    normKV (kvPut kv r fid pos) = kvPut (normKV kv) (committedRec r) fid pos := by
  unfold kvPut normKV
  rw [aput_map normBucket]
  have hb : (committedRec r).bucket = r.bucket := rfl
  have hk : (committedRec r).key = r.key := rfl
  rw [hb, hk, aget_map normBucket]
  congr 1
  cases h : aget? kv r.bucket with
  | none => simp [normBucket, upsert, normIdx]
  | some m =>
    simp only [Option.map_some, Option.getD_some]
    unfold normBucket
    rw [upsert_map normIdx]
    rfl

theorem committedRec_idem (r : Rec) : committedRec (committedRec r) = committedRec r := rfl

/-! ### the shape of the directory along commits -/

/-- the active file is the last one, its id the largest; hints carry its id; no record is torn -/
structure Shape (s : State) : Prop where
  split : ∃ pre f, s.files = pre ++ [f] ∧ f.fid = s.activeFid ∧ ∀ g ∈ pre, g.fid < s.activeFid
  hint : s.hintFid = s.activeFid
  linked : s.activeUnlinked = false
  untorn : ∀ g ∈ s.files, g.torn = false

theorem allRecs_append (a b : List File) : allRecs (a ++ b) = allRecs a ++ allRecs b := by
  simp [allRecs]

theorem fileEnsure_new (fs : List File) (nf : Nat) (h : ∀ g ∈ fs, g.fid < nf) :
    fileEnsure fs nf = fs ++ [{ fid := nf, recs := [] }] := by
  unfold fileEnsure
  have hany : fs.any (·.fid == nf) = false := by
    rw [List.any_eq_false]
    intro g hg
    have := h g hg
    simp; omega
  simp only [hany, Bool.false_eq_true, if_false]
  have hp : fs.partition (·.fid < nf) = (fs, []) := by
    rw [List.partition_eq_filter_filter]
    congr 1
    · rw [List.filter_eq_self]; intro g hg; simpa using h g hg
    · rw [List.filter_eq_nil_iff]; intro g hg; simpa using h g hg
  rw [hp]
  simp

theorem rotate_shape (s : State) (h : Shape s) :
    Shape (rotate s) ∧ allRecs (rotate s).files = allRecs s.files ∧ (rotate s).kv = s.kv ∧
    (rotate s).committed = s.committed ∧ (rotate s).opt = s.opt := by
  obtain ⟨pre, f, hf, hfid, hpre⟩ := h.split
  have hall : ∀ g ∈ s.files, g.fid < s.activeFid + 1 := by
    intro g hg
    rw [hf] at hg
    rcases List.mem_append.mp hg with hg | hg
    · have := hpre g hg; omega
    · simp at hg; subst hg; omega
  have hfiles : (rotate s).files = s.files ++ [{ fid := s.activeFid + 1, recs := [] }] := by
    simp only [rotate]; exact fileEnsure_new s.files _ hall
  refine ⟨⟨⟨s.files, { fid := s.activeFid + 1, recs := [] }, hfiles, rfl, ?_⟩, rfl, rfl, ?_⟩, ?_, rfl, rfl, rfl⟩
  · intro g hg; exact hall g hg
  · intro g hg
    rw [hfiles] at hg
    rcases List.mem_append.mp hg with hg | hg
    · exact h.untorn g hg
    · simp at hg; subst hg; rfl
  · rw [hfiles, allRecs_append]; simp [allRecs]

theorem fileAppend_last (pre : List File) (f : File) (off : Nat) (r : Rec) (hpre : ∀ g ∈ pre, g.fid < f.fid) :
    fileAppend (pre ++ [f]) f.fid off r = pre ++ [{ f with recs := f.recs ++ [(off, r)] }] := by
  unfold fileAppend
  have hany : (pre ++ [f]).any (·.fid == f.fid) = true := by simp
  simp only [hany, if_true, List.map_append, List.map_cons, List.map_nil, beq_self_eq_true]
  congr 1
  conv => rhs; rw [← List.map_id pre]
  apply List.map_congr_left
  intro g hg
  have := hpre g hg
  have hne : (g.fid == f.fid) = false := by simp; omega
  simp [hne]

theorem preRotate_shape (s : State) (r : Rec) (h : Shape s) :
    Shape (preRotate s r) ∧ allRecs (preRotate s r).files = allRecs s.files ∧ (preRotate s r).kv = s.kv ∧
    (preRotate s r).committed = s.committed ∧ (preRotate s r).opt = s.opt := by
  unfold preRotate
  split
  · exact rotate_shape s h
  · exact ⟨h, rfl, rfl, rfl, rfl⟩

theorem appendRec_shape (s : State) (r : Rec) (h : Shape s) :
    Shape (appendRec s r) ∧ allRecs (appendRec s r).files = allRecs s.files ++ [(r, s.activeFid, s.writeOff)] ∧
    (appendRec s r).kv = s.kv ∧ (appendRec s r).committed = s.committed ∧ (appendRec s r).opt = s.opt ∧
    (appendRec s r).hintFid = s.hintFid := by
  obtain ⟨pre, f, hf, hfid, hpre⟩ := h.split
  have hfiles : (appendRec s r).files = pre ++ [{ f with recs := f.recs ++ [(s.writeOff, r)] }] := by
    simp only [appendRec, h.linked, Bool.false_eq_true, if_false]
    rw [hf, ← hfid]
    exact fileAppend_last pre f s.writeOff r (by intro g hg; rw [hfid]; exact hpre g hg)
  refine ⟨⟨⟨pre, _, hfiles, hfid, hpre⟩, h.hint, h.linked, ?_⟩, ?_, rfl, rfl, rfl, rfl⟩
  · intro g hg
    rw [hfiles] at hg
    rcases List.mem_append.mp hg with hg | hg
    · exact h.untorn g (by rw [hf]; simp [hg])
    · simp at hg; subst hg; exact h.untorn f (by rw [hf]; simp)
  · rw [hfiles, hf, allRecs_append, allRecs_append]
    simp [allRecs, hfid]

theorem markLast_ds (r : Rec) (last : Bool) : (markLast r last).ds = r.ds := by
  unfold markLast; split <;> rfl

theorem markLast_txid (r : Rec) (last : Bool) : (markLast r last).txid = r.txid := by
  unfold markLast; split <;> rfl

/-- one record of a key/value transaction written: one more record at the end of the log, indexed with
the position it was written at -/
theorem writeRec_kv (s : State) (r : Rec) (last : Bool) (h : Shape s) (hkv : r.ds = dsKV) :
    Shape (writeRec s r last) ∧
    (∃ fid pos, allRecs (writeRec s r last).files = allRecs s.files ++ [(markLast r last, fid, pos)] ∧
      (writeRec s r last).kv = kvPut s.kv (markLast r last) fid pos) ∧
    (writeRec s r last).opt = s.opt ∧
    (writeRec s r last).committed = (if last then (noteCommitted s r.txid).committed else s.committed) := by
  obtain ⟨h1, hr1, hk1, hc1, ho1⟩ := preRotate_shape s r h
  obtain ⟨h2, hr2, hk2, hc2, ho2, hh2⟩ := appendRec_shape (preRotate s r) (markLast r last) h1
  have hds : ((markLast r last).ds == dsKV) = true := by rw [markLast_ds, hkv]; rfl
  unfold writeRec
  simp only [hds, if_true]
  cases last with
  | true =>
    simp only [if_true]
    refine ⟨⟨h2.split, h2.hint, h2.linked, h2.untorn⟩, ⟨(preRotate s r).activeFid, (preRotate s r).writeOff, ?_, ?_⟩, ?_, ?_⟩
    · show allRecs (appendRec (preRotate s r) (markLast r true)).files = _
      rw [hr2, hr1]
    · show kvPut (appendRec (preRotate s r) (markLast r true)).kv _ _ _ = _
      rw [hk2, hk1, h1.hint]
    · show (appendRec (preRotate s r) (markLast r true)).opt = _
      rw [ho2, ho1]
    · show (noteCommitted (appendRec (preRotate s r) (markLast r true)) (markLast r true).txid).committed = _
      simp only [noteCommitted, hc2, hc1, markLast_txid]
  | false =>
    simp only [Bool.false_eq_true, if_false]
    refine ⟨⟨h2.split, h2.hint, h2.linked, h2.untorn⟩, ⟨(preRotate s r).activeFid, (preRotate s r).writeOff, ?_, ?_⟩, ?_, ?_⟩
    · show allRecs (appendRec (preRotate s r) (markLast r false)).files = _
      rw [hr2, hr1]
    · show kvPut (appendRec (preRotate s r) (markLast r false)).kv _ _ _ = _
      rw [hk2, hk1, h1.hint]
    · show (appendRec (preRotate s r) (markLast r false)).opt = _
      rw [ho2, ho1]
    · show (appendRec (preRotate s r) (markLast r false)).committed = _
      rw [hc2, hc1]

/-- the records a transaction leaves in the log: only the last one carries the commit mark -/
def marked : List Rec → List Rec
  | [] => []
  | r :: rest => markLast r rest.isEmpty :: marked rest

def foldLog (kv : Assoc (Assoc Idx)) (L : List LogRec) : Assoc (Assoc Idx) :=
  L.foldl (fun kv x => kvPut kv (committedRec x.1) x.2.1 x.2.2) kv

theorem kvOfLog_append_list (A B : List LogRec) : kvOfLog (A ++ B) = foldLog (kvOfLog A) B := by
  simp [kvOfLog, foldLog, List.foldl_append]

theorem mem_noteCommitted (s : State) (tid id : Nat) :
    id ∈ (noteCommitted s tid).committed ↔ (id ∈ s.committed ∨ id = tid) := by
  unfold noteCommitted
  simp only
  split
  · rename_i hc
    have : tid ∈ s.committed := by simpa using hc
    constructor
    · exact Or.inl
    · rintro (h | rfl) <;> assumption
  · simp [List.mem_cons, or_comm]

/-- the write loop of `Commit` on a key/value transaction: succeeds, appends the marked records to the log
in order, indexes each with its position, notes the transaction id -/
theorem commitLoop_kv (recs : List Rec) (tid : Nat) (s : State) (h : Shape s)
    (hr : ∀ r ∈ recs, r.ds = dsKV ∧ ¬ r.size > s.opt.seg ∧ r.txid = tid) :
    (commitLoop s recs).2 = true ∧ Shape (commitLoop s recs).1 ∧ (commitLoop s recs).1.opt = s.opt ∧
    (∃ extra : List LogRec, extra.map (·.1) = marked recs ∧
      allRecs (commitLoop s recs).1.files = allRecs s.files ++ extra ∧
      normKV (commitLoop s recs).1.kv = foldLog (normKV s.kv) extra) ∧
    (∀ id, id ∈ (commitLoop s recs).1.committed ↔ (id ∈ s.committed ∨ (recs ≠ [] ∧ id = tid))) := by
  induction recs generalizing s with
  | nil =>
    refine ⟨rfl, h, rfl, ⟨[], rfl, by simp [commitLoop], rfl⟩, ?_⟩
    intro id; simp [commitLoop]
  | cons r rest ih =>
    obtain ⟨hds, hsz, htid⟩ := hr r (by simp)
    obtain ⟨hs1, ⟨fid, pos, hrecs1, hkv1⟩, hopt1, hcom1⟩ := writeRec_kv s r rest.isEmpty h hds
    have hr' : ∀ q ∈ rest, q.ds = dsKV ∧ ¬ q.size > (writeRec s r rest.isEmpty).opt.seg ∧ q.txid = tid := by
      intro q hq; rw [hopt1]; exact hr q (by simp [hq])
    obtain ⟨hfine, hshape, hopt, ⟨extra, hex, hfiles, hkv⟩, hcom⟩ := ih (writeRec s r rest.isEmpty) hs1 hr'
    simp only [commitLoop, hsz, if_false]
    refine ⟨hfine, hshape, by rw [hopt, hopt1], ⟨(markLast r rest.isEmpty, fid, pos) :: extra, ?_, ?_, ?_⟩, ?_⟩
    · simp [marked, hex]
    · rw [hfiles, hrecs1]; simp
    · rw [hkv, hkv1, normKV_kvPut]; rfl
    · intro id
      rw [hcom id, hcom1]
      cases hre : rest.isEmpty with
      | true =>
        have : rest = [] := List.isEmpty_iff.mp hre
        subst this
        simp only [if_true, mem_noteCommitted, htid]
        simp
      | false =>
        have hne : rest ≠ [] := by intro hn; rw [hn] at hre; cases hre
        simp [hne]

theorem applyOther_kv_id (s : State) (r : Rec) (c : Bool) (h : r.ds = dsKV) : applyOther s r c = (s, .ok ()) := by
  unfold applyOther
  have h1 : (r.ds == dsSet) = false := by rw [h]; rfl
  have h2 : (r.ds == dsZSet) = false := by rw [h]; rfl
  have h3 : (r.ds == dsList) = false := by rw [h]; rfl
  simp [h1, h2, h3]

theorem buildIdxes_kv_id (recs : List Rec) (s : State) (h : ∀ r ∈ recs, r.ds = dsKV) : buildIdxes s recs = (s, false) := by
  induction recs with
  | nil => rfl
  | cons r rest ih =>
    simp only [buildIdxes, applyOther_kv_id s r true (h r (by simp))]
    simp only [Outcome.isPanic]
    exact ih (fun q hq => h q (by simp [hq]))

/-- a key/value write transaction: non-empty, key/value records that fit a segment, one id -/
def KVTx (seg : Nat) (t : List Rec) : Prop :=
  t ≠ [] ∧ ∃ tid, ∀ r ∈ t, r.ds = dsKV ∧ ¬ r.size > seg ∧ r.txid = tid

/-- the invariant of key/value histories: shape of the directory, the index is the fold of the log, every
record of the log is a key/value record of a committed transaction, and `committed` holds exactly the ids
the log marks -/
structure LogInv (s : State) : Prop where
  shape : Shape s
  idx : normKV s.kv = kvOfLog (allRecs s.files)
  kvOnly : ∀ x ∈ allRecs s.files, x.1.ds = dsKV
  allCommitted : ∀ x ∈ allRecs s.files, x.1.txid ∈ committedIds (allRecs s.files)
  ids : ∀ id, id ∈ s.committed ↔ id ∈ committedIds (allRecs s.files)

theorem marked_ds (recs : List Rec) (h : ∀ r ∈ recs, r.ds = dsKV) : ∀ r ∈ marked recs, r.ds = dsKV := by
  induction recs with
  | nil => intro r hr; cases hr
  | cons q rest ih =>
    intro r hr
    simp only [marked, List.mem_cons] at hr
    rcases hr with rfl | hr
    · rw [markLast_ds]; exact h q (by simp)
    · exact ih (fun x hx => h x (by simp [hx])) r hr

theorem marked_txid (recs : List Rec) (tid : Nat) (h : ∀ r ∈ recs, r.txid = tid) : ∀ r ∈ marked recs, r.txid = tid := by
  induction recs with
  | nil => intro r hr; cases hr
  | cons q rest ih =>
    intro r hr
    simp only [marked, List.mem_cons] at hr
    rcases hr with rfl | hr
    · rw [markLast_txid]; exact h q (by simp)
    · exact ih (fun x hx => h x (by simp [hx])) r hr

/-- a non-empty transaction leaves a record with the commit mark -/
theorem marked_has_commit (recs : List Rec) (hne : recs ≠ []) : ∃ r ∈ marked recs, r.status = 1 := by
  induction recs with
  | nil => exact absurd rfl hne
  | cons q rest ih =>
    cases rest with
    | nil => exact ⟨markLast q true, by simp [marked], by simp [markLast]⟩
    | cons q2 rest2 =>
      obtain ⟨r, hr, hs⟩ := ih (by simp)
      exact ⟨r, by simp only [marked, List.mem_cons]; exact Or.inr (by simpa [marked] using hr), hs⟩

theorem mem_committedIds (L : List LogRec) (id : Nat) :
    id ∈ committedIds L ↔ ∃ x ∈ L, x.1.status = 1 ∧ x.1.txid = id := by
  unfold committedIds
  simp only [List.mem_map, List.mem_filter, beq_iff_eq]
  constructor
  · rintro ⟨x, ⟨hx, hs⟩, rfl⟩; exact ⟨x, hx, hs, rfl⟩
  · rintro ⟨x, hx, hs, rfl⟩; exact ⟨x, ⟨hx, hs⟩, rfl⟩

/-- `Commit` of a key/value transaction keeps the invariant -/
theorem commit_kv (s : State) (t : List Rec) (h : LogInv s) (ht : KVTx s.opt.seg t) :
    (commit s t).2 = .ok () ∧ LogInv (commit s t).1 ∧ (commit s t).1.opt = s.opt := by
  obtain ⟨hne, tid, hr⟩ := ht
  obtain ⟨hfine, hshape, hopt, ⟨extra, hex, hfiles, hkv⟩, hcom⟩ := commitLoop_kv t tid s h.shape hr
  have hds : ∀ r ∈ t, r.ds = dsKV := fun r hr' => (hr r hr').1
  have hemp : t.isEmpty = false := by cases t with | nil => exact absurd rfl hne | cons _ _ => rfl
  have hcommit : commit s t = ((commitLoop s t).1, .ok ()) := by
    unfold commit
    simp only [hemp, Bool.false_eq_true, if_false]
    rw [show commitLoop s t = ((commitLoop s t).1, (commitLoop s t).2) from rfl]
    simp only [hfine, Bool.not_true, Bool.false_eq_true, if_false]
    rw [buildIdxes_kv_id t _ hds]
    simp
  rw [hcommit]
  have hextra_ds : ∀ x ∈ extra, x.1.ds = dsKV := by
    intro x hx
    exact marked_ds t hds x.1 (by rw [← hex]; exact List.mem_map.mpr ⟨x, hx, rfl⟩)
  have hextra_tid : ∀ x ∈ extra, x.1.txid = tid := by
    intro x hx
    exact marked_txid t tid (fun r hr' => (hr r hr').2.2) x.1 (by rw [← hex]; exact List.mem_map.mpr ⟨x, hx, rfl⟩)
  have htid_committed : tid ∈ committedIds (allRecs s.files ++ extra) := by
    obtain ⟨r, hrm, hs⟩ := marked_has_commit t hne
    rw [← hex] at hrm
    obtain ⟨x, hx, rfl⟩ := List.mem_map.mp hrm
    rw [mem_committedIds]
    exact ⟨x, by simp [hx], hs, hextra_tid x hx⟩
  refine ⟨rfl, ⟨hshape, ?_, ?_, ?_, ?_⟩, hopt⟩
  · show normKV (commitLoop s t).1.kv = kvOfLog (allRecs (commitLoop s t).1.files)
    rw [hfiles, kvOfLog_append_list, ← h.idx]; exact hkv
  · show ∀ x ∈ allRecs (commitLoop s t).1.files, x.1.ds = dsKV
    rw [hfiles]
    intro x hx
    rcases List.mem_append.mp hx with hx | hx
    · exact h.kvOnly x hx
    · exact hextra_ds x hx
  · show ∀ x ∈ allRecs (commitLoop s t).1.files, x.1.txid ∈ committedIds (allRecs (commitLoop s t).1.files)
    rw [hfiles]
    intro x hx
    rcases List.mem_append.mp hx with hx | hx
    · rw [Replay.committedIds_append]; exact List.mem_append.mpr (Or.inl (h.allCommitted x hx))
    · rw [hextra_tid x hx]; exact htid_committed
  · show ∀ id, id ∈ (commitLoop s t).1.committed ↔ id ∈ committedIds (allRecs (commitLoop s t).1.files)
    intro id
    rw [hcom id, hfiles, Replay.committedIds_append, List.mem_append, h.ids id]
    constructor
    · rintro (h1 | ⟨_, rfl⟩)
      · exact Or.inl h1
      · rw [Replay.committedIds_append, List.mem_append] at htid_committed
        exact htid_committed
    · rintro (h1 | h1)
      · exact Or.inl h1
      · right
        refine ⟨hne, ?_⟩
        obtain ⟨x, hx, _, hxt⟩ := (mem_committedIds extra id).mp h1
        rw [← hxt]; exact hextra_tid x hx

/-! ### Open on the files of such a state -/

theorem replay_all_kv (rs : List LogRec) (ids : List Nat) (s : State)
    (h : ∀ x ∈ rs, ids.contains x.1.txid = true ∧ x.1.ds = dsKV) :
    (replay s rs ids).2 = .ok () ∧ (replay s rs ids).1.kv = foldLog s.kv rs ∧
    (replay s rs ids).1.committed = s.committed ∧ (replay s rs ids).1.files = s.files ∧
    (replay s rs ids).1.opt = s.opt := by
  induction rs generalizing s with
  | nil => exact ⟨rfl, rfl, rfl, rfl, rfl⟩
  | cons x rest ih =>
    obtain ⟨r, fid, pos⟩ := x
    obtain ⟨hc, hds⟩ := h (r, fid, pos) (by simp)
    have hds' : (r.ds == dsKV) = true := by simp only [] at hds; rw [hds]; rfl
    simp only [] at hc
    simp only [replay, hc, Bool.not_true, Bool.false_eq_true, if_false, hds', if_true]
    obtain ⟨h1, h2, h3, h4, h5⟩ := ih (applyKV s { r with status := 1 } fid pos) (fun y hy => h y (by simp [hy]))
    refine ⟨h1, ?_, h3, h4, h5⟩
    rw [h2]; rfl

theorem foldl_max_mem (l : List Nat) (a : Nat) : l.foldl max a = a ∨ l.foldl max a ∈ l := by
  induction l generalizing a with
  | nil => exact Or.inl rfl
  | cons x rest ih =>
    simp only [List.foldl_cons]
    rcases ih (max a x) with h | h
    · rw [h]
      by_cases hx : a ≤ x
      · right; simp [Nat.max_eq_right hx]
      · left; exact Nat.max_eq_left (by omega)
    · right; exact List.mem_cons_of_mem _ h

theorem foldl_max_ge (l : List Nat) (a : Nat) : a ≤ l.foldl max a ∧ ∀ x ∈ l, x ≤ l.foldl max a := by
  induction l generalizing a with
  | nil => exact ⟨Nat.le_refl _, fun x hx => by cases hx⟩
  | cons y rest ih =>
    simp only [List.foldl_cons]
    obtain ⟨h1, h2⟩ := ih (max a y)
    refine ⟨by have := Nat.le_max_left a y; omega, ?_⟩
    intro x hx
    rcases List.mem_cons.mp hx with rfl | hx
    · have := Nat.le_max_right a x; omega
    · exact h2 x hx

theorem fileEnsure_max (fs : List File) (hne : fs ≠ []) : fileEnsure fs ((fs.map (·.fid)).foldl max 0) = fs := by
  unfold fileEnsure
  have hany : fs.any (·.fid == (fs.map (·.fid)).foldl max 0) = true := by
    rw [List.any_eq_true]
    rcases foldl_max_mem (fs.map (·.fid)) 0 with h | h
    · -- the maximum is 0: every id is 0
      cases fs with
      | nil => exact absurd rfl hne
      | cons f rest =>
        have := (foldl_max_ge ((f :: rest).map (·.fid)) 0).2 f.fid (by simp)
        rw [h] at this ⊢
        exact ⟨f, by simp, by simp; omega⟩
    · obtain ⟨f, hf, hfid⟩ := List.mem_map.mp h
      exact ⟨f, hf, by simp [hfid]⟩
  simp [hany]

/-- **Recovery rebuilds the index.** `Open` (with any options) on the files of a state that satisfies the
invariant succeeds, reads the files unchanged, and builds exactly the index of the state — same keys in
the same order, same cached records up to the status byte, same hints — and the same set of committed
transaction ids. -/
theorem open_rebuilds (s : State) (h : LogInv s) (opt : Opts) :
    (openDB opt s.files).2 = .ok () ∧ (openDB opt s.files).1.kv = normKV s.kv ∧
    (openDB opt s.files).1.files = s.files ∧
    (∀ id, id ∈ (openDB opt s.files).1.committed ↔ id ∈ s.committed) := by
  obtain ⟨pre, f, hf, _, _⟩ := h.shape.split
  have hne : s.files ≠ [] := by rw [hf]; simp
  have hens := fileEnsure_max s.files hne
  have hemp : s.files.isEmpty = false := by
    cases hfs : s.files with
    | nil => exact absurd hfs hne
    | cons _ _ => rfl
  have htorn : (s.files.any (·.torn)) = false := by
    rw [List.any_eq_false]
    intro g hg; rw [h.shape.untorn g hg]; simp
  unfold openDB
  simp only [hens, hemp, Bool.false_eq_true, if_false, htorn]
  have hall : ∀ x ∈ allRecs s.files, (committedIds (allRecs s.files)).contains x.1.txid = true ∧ x.1.ds = dsKV := by
    intro x hx
    exact ⟨by simpa using h.allCommitted x hx, h.kvOnly x hx⟩
  obtain ⟨h1, h2, h3, h4, _⟩ := replay_all_kv (allRecs s.files) (committedIds (allRecs s.files)) _ hall
  refine ⟨h1, ?_, h4, ?_⟩
  · rw [h2, h.idx]; rfl
  · intro id
    rw [h3, h.ids id]
    simp

/-! ### histories of commits and reopens -/

theorem normKV_idem (kv : Assoc (Assoc Idx)) : normKV (normKV kv) = normKV kv := by
  unfold normKV normBucket
  simp only [List.map_map]
  apply List.map_congr_left
  intro p _
  simp only [Function.comp, List.map_map]
  congr 1

theorem logInv_init (opt : Opts) : LogInv (openDB opt []).1 := by
  refine ⟨⟨⟨[], { fid := 0, recs := [] }, ?_, rfl, fun g hg => by cases hg⟩, rfl, rfl, ?_⟩, ?_, ?_, ?_, ?_⟩
  · simp [openDB, fileEnsure]
  · intro g hg; simp [openDB, fileEnsure] at hg; subst hg; rfl
  · simp [openDB, fileEnsure, allRecs, kvOfLog, normKV]
  · intro x hx; simp [openDB, fileEnsure, allRecs] at hx
  · intro x hx; simp [openDB, fileEnsure, allRecs] at hx
  · intro id; simp [openDB, fileEnsure, allRecs, committedIds]

/-- the invariant holds again after `Open` on the files of a state that has it -/
theorem logInv_reopen (s : State) (h : LogInv s) (opt : Opts) : LogInv (openDB opt s.files).1 := by
  obtain ⟨hok, hkv, hfiles, hids⟩ := open_rebuilds s h opt
  obtain ⟨pre, f, hf, hfid, hpre⟩ := h.shape.split
  have hne : s.files ≠ [] := by rw [hf]; simp
  -- the bookkeeping fields of the state `Open` builds
  have hemp : s.files.isEmpty = false := by
    cases hfs : s.files with
    | nil => exact absurd hfs hne
    | cons _ _ => rfl
  have htorn : (s.files.any (·.torn)) = false := by
    rw [List.any_eq_false]; intro g hg; rw [h.shape.untorn g hg]; simp
  have hall : ∀ x ∈ allRecs s.files, (committedIds (allRecs s.files)).contains x.1.txid = true ∧ x.1.ds = dsKV :=
    fun x hx => ⟨by simpa using h.allCommitted x hx, h.kvOnly x hx⟩
  have hmax : (s.files.map (·.fid)).foldl max 0 = f.fid := by
    have hge := foldl_max_ge (s.files.map (·.fid)) 0
    have hf_le : f.fid ≤ (s.files.map (·.fid)).foldl max 0 := hge.2 f.fid (by rw [hf]; simp)
    rcases foldl_max_mem (s.files.map (·.fid)) 0 with h0 | hm
    · omega
    · obtain ⟨g, hg, hgf⟩ := List.mem_map.mp hm
      rw [hf] at hg
      rcases List.mem_append.mp hg with hg | hg
      · have := hpre g hg; omega
      · simp at hg; subst hg; exact hgf.symm
  have hfields : (openDB opt s.files).1.activeFid = f.fid ∧ (openDB opt s.files).1.hintFid = f.fid ∧
      (openDB opt s.files).1.activeUnlinked = false := by
    have hens : fileEnsure s.files f.fid = s.files := by rw [← hmax]; exact fileEnsure_max s.files hne
    unfold openDB
    simp only [hmax, hens, hemp, Bool.false_eq_true, if_false, htorn]
    -- replay changes none of these fields
    have hrep : ∀ (rs : List LogRec) (ids : List Nat) (st : State),
        (∀ x ∈ rs, ids.contains x.1.txid = true ∧ x.1.ds = dsKV) →
        (replay st rs ids).1.activeFid = st.activeFid ∧ (replay st rs ids).1.hintFid = st.hintFid ∧
        (replay st rs ids).1.activeUnlinked = st.activeUnlinked := by
      intro rs ids
      induction rs with
      | nil => intro st _; exact ⟨rfl, rfl, rfl⟩
      | cons x rest ih =>
        intro st hx
        obtain ⟨r, fid, pos⟩ := x
        obtain ⟨hc, hds⟩ := hx (r, fid, pos) (by simp)
        have hds' : (r.ds == dsKV) = true := by simp only [] at hds; rw [hds]; rfl
        simp only [] at hc
        simp only [replay, hc, Bool.not_true, Bool.false_eq_true, if_false, hds', if_true]
        exact ih _ (fun y hy => hx y (by simp [hy]))
    exact hrep _ _ _ hall
  refine ⟨⟨⟨pre, f, by rw [hfiles, hf], hfields.1.symm, ?_⟩, by rw [hfields.2.1, hfields.1], hfields.2.2, ?_⟩, ?_, ?_, ?_, ?_⟩
  · intro g hg; rw [hfields.1, hfid]; exact hpre g hg
  · rw [hfiles]; exact h.shape.untorn
  · rw [hkv, hfiles, normKV_idem]; exact h.idx
  · rw [hfiles]; exact h.kvOnly
  · rw [hfiles]; exact h.allCommitted
  · intro id; rw [hids id, hfiles]; exact h.ids id

inductive Op where
  | commit (t : List Rec)
  | reopen (opt : Opts)

def stepOp (s : State) : Op → State
  | .commit t => (commit s t).1
  | .reopen o => (openDB o s.files).1

/-- every committed transaction is a key/value transaction that fits the segment size in force -/
def OpsOk (s : State) : List Op → Prop
  | [] => True
  | .commit t :: rest => KVTx s.opt.seg t ∧ OpsOk (commit s t).1 rest
  | .reopen o :: rest => OpsOk (openDB o s.files).1 rest

theorem logInv_ops (ops : List Op) (s : State) (h : LogInv s) (hok : OpsOk s ops) : LogInv (ops.foldl stepOp s) := by
  induction ops generalizing s with
  | nil => exact h
  | cons op rest ih =>
    cases op with
    | commit t =>
      obtain ⟨ht, hrest⟩ := hok
      exact ih _ (commit_kv s t h ht).2.1 hrest
    | reopen o => exact ih _ (logInv_reopen s h o) hok

/-! ### the log of a history -/

/-- the records a history leaves in the files, in order: each committed transaction's records, the last
one of each carrying the commit mark -/
def logOf : List Op → List Rec
  | [] => []
  | .commit t :: rest => marked t ++ logOf rest
  | .reopen _ :: rest => logOf rest

/-- `Commit` of a key/value transaction appends exactly its marked records to the log -/
theorem commit_kv_log (s : State) (t : List Rec) (h : LogInv s) (ht : KVTx s.opt.seg t) :
    (allRecs (commit s t).1.files).map (·.1) = (allRecs s.files).map (·.1) ++ marked t := by
  obtain ⟨hne, tid, hr⟩ := ht
  obtain ⟨hfine, _, _, ⟨extra, hex, hfiles, _⟩, _⟩ := commitLoop_kv t tid s h.shape hr
  have hds : ∀ r ∈ t, r.ds = dsKV := fun r hr' => (hr r hr').1
  have hemp : t.isEmpty = false := by cases t with | nil => exact absurd rfl hne | cons _ _ => rfl
  have hcommit : commit s t = ((commitLoop s t).1, .ok ()) := by
    unfold commit
    simp only [hemp, Bool.false_eq_true, if_false]
    rw [show commitLoop s t = ((commitLoop s t).1, (commitLoop s t).2) from rfl]
    simp only [hfine, Bool.not_true, Bool.false_eq_true, if_false]
    rw [buildIdxes_kv_id t _ hds]
    simp
  rw [hcommit]
  show (allRecs (commitLoop s t).1.files).map (·.1) = _
  rw [hfiles, List.map_append, hex]

theorem log_of_ops (ops : List Op) (s : State) (h : LogInv s) (hok : OpsOk s ops) :
    (allRecs (ops.foldl stepOp s).files).map (·.1) = (allRecs s.files).map (·.1) ++ logOf ops := by
  induction ops generalizing s with
  | nil => simp [logOf]
  | cons op rest ih =>
    cases op with
    | commit t =>
      obtain ⟨ht, hrest⟩ := hok
      have := ih _ (commit_kv s t h ht).2.1 hrest
      simp only [List.foldl_cons, stepOp, logOf]
      rw [this, commit_kv_log s t h ht, List.append_assoc]
    | reopen o =>
      have := ih _ (logInv_reopen s h o) hok
      simp only [List.foldl_cons, stepOp, logOf]
      rw [this, (open_rebuilds s h o).2.2.1]

end NutsProofs.Reopen
