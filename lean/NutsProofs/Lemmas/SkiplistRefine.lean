/-
  NutsProofs.Lemmas.SkiplistRefine — the skiplist refines the list ordered by (score, key): `insertNode` is
  `ZSetA.insertSorted`, `delete` of a member is `ZSetA.remove`, `Put` is `ZSetA.put`, for every level layout
  and every drawn level.
-/
import NutsProofs.Lemmas.SkiplistDel
namespace NutsProofs.SkipL
open Nuts Nuts.Model Nuts.Model.Skiplist NutsProofs.ZOrd
open Nuts.Model.ZSetA (Node nlt)

/-! ### a search predicate that is downward closed along a sorted list holds exactly on a prefix -/

theorem prefix_iff {R : Node → Node → Prop} {P : Node → Bool} {ns : List Node} (hs : ns.Pairwise R)
    (hmono : ∀ a b, R a b → P b = true → P a = true) :
    ∀ j x, ns[j]? = some x → (P x = true ↔ j < (ns.takeWhile P).length) := by
  induction ns with
  | nil => intro j x h; simp at h
  | cons a rest ih =>
    rw [List.pairwise_cons] at hs
    intro j x hj
    cases j with
    | zero =>
      simp at hj; subst hj
      by_cases hp : P a = true
      · simp [List.takeWhile_cons, hp]
      · simp [List.takeWhile_cons, hp]
    | succ j' =>
      rw [List.getElem?_cons_succ] at hj
      by_cases hp : P a = true
      · simp only [List.takeWhile_cons, hp, if_true, List.length_cons]
        rw [ih hs.2 j' x hj]
        omega
      · simp only [List.takeWhile_cons, hp]
        have hx : ¬ P x = true := fun e => hp (hmono a x (hs.1 x (List.mem_of_getElem? hj)) e)
        simp [hx]

theorem nodeOf_succ {hd : Tower} {ts : List Tower} (q : Nat) : nodeOf (hd :: ts) (q + 1) = ((ts.map (·.node))[q]?).getD ZSetA.header := by
  simp [nodeOf]

theorem takeWhile_append_dropWhile_len' (P : Node → Bool) (ns : List Node) : (ns.takeWhile P).length ≤ ns.length := by
  induction ns with
  | nil => simp
  | cons a rest ih =>
    by_cases h : P a = true
    · simp [List.takeWhile_cons, h]; omega
    · simp [List.takeWhile_cons, h]

/-- the cut of a node predicate: one past the towers that satisfy it -/
def cutOf (s : SL) (P : Node → Bool) : Nat := ((nodes s).takeWhile P).length + 1

theorem steers_of_sorted {s : SL} (hinv : Inv s) {R : Node → Node → Prop} {P : Node → Bool}
    (hs : (nodes s).Pairwise R) (hmono : ∀ a b, R a b → P b = true → P a = true) :
    Steers s.all (fun _ f => P f) (cutOf s P) ∧ 1 ≤ cutOf s P ∧ cutOf s P ≤ s.all.length := by
  obtain ⟨hd, ts, eall, _⟩ := hinv.hdr
  have hn : nodes s = ts.map (·.node) := by simp [nodes, eall]
  refine ⟨?_, by simp [cutOf], ?_⟩
  · intro q hq1 hql
    obtain ⟨q', rfl⟩ : ∃ q', q = q' + 1 := ⟨q - 1, by omega⟩
    rw [eall] at hql ⊢
    simp only [List.length_cons] at hql
    rw [nodeOf_succ]
    have hq'l : q' < (ts.map (·.node)).length := by simpa using (by omega : q' < ts.length)
    have hg : (ts.map (·.node))[q']? = some (ts.map (·.node))[q'] := List.getElem?_eq_getElem hq'l
    rw [hg, Option.getD_some]
    rw [hn] at hs
    have := prefix_iff hs hmono q' _ hg
    simp only [cutOf, hn]
    rw [this]; omega
  · simp only [cutOf, eall, List.length_cons, hn]
    have : ((ts.map (·.node)).takeWhile P).length ≤ (ts.map (·.node)).length := by
      have h := (takeWhile_append_dropWhile_len' P (ts.map (·.node)))
      omega
    simp only [List.length_map] at this
    omega

/-! ### `insertNode` = sorted insertion -/

theorem insertSorted_eq (ns : List Node) (n : Node) :
    ZSetA.insertSorted ns n = ns.takeWhile (fun x => !nlt n x) ++ n :: ns.dropWhile (fun x => !nlt n x) := by
  induction ns with
  | nil => rfl
  | cons a rest ih =>
    simp only [ZSetA.insertSorted]
    by_cases h : nlt n a = true
    · simp [h, List.takeWhile_cons, List.dropWhile_cons]
    · simp only [h]
      have : (!nlt n a) = true := by simpa using h
      simp [List.takeWhile_cons, List.dropWhile_cons, this, ih]

theorem takeWhile_congr {P Q : Node → Bool} {ns : List Node} (h : ∀ x ∈ ns, P x = Q x) : ns.takeWhile P = ns.takeWhile Q := by
  induction ns with
  | nil => rfl
  | cons a rest ih =>
    simp only [List.takeWhile_cons, h a (List.mem_cons_self ..)]
    rw [ih (fun x hx => h x (List.mem_cons_of_mem _ hx))]

theorem takeWhile_append_dropWhile_len (P : Node → Bool) (ns : List Node) :
    ns.takeWhile P = ns.take (ns.takeWhile P).length ∧ ns.dropWhile P = ns.drop (ns.takeWhile P).length := by
  induction ns with
  | nil => simp
  | cons a rest ih =>
    by_cases h : P a = true
    · simp [List.takeWhile_cons, List.dropWhile_cons, h]
      exact ⟨ih.1, ih.2⟩
    · simp [List.takeWhile_cons, List.dropWhile_cons, h]

/-- for a key that is not in the list, "not after `n`" and "before `n`" are the same test -/
theorem nlt_flip {n x : Node} (hk : x.key ≠ n.key) : (!nlt n x) = nlt x n := by
  by_cases h1 : nlt n x = true
  · have : ¬ nlt x n = true := by
      intro h2
      have a := (nlt_iff n x).mp h1
      have b := (nlt_iff x n).mp h2
      have := Lt_trans a b
      unfold Lt at this
      rcases this with c | ⟨_, c⟩
      · omega
      · rw [bcmp_refl] at c; cases c
    simp [h1, this]
  · have : nlt x n = true := (nlt_iff x n).mpr (Lt_total n x (fun e => hk e.symm) (fun c => h1 ((nlt_iff n x).mpr c)))
    simp [h1, this]

/-- the state invariant with the order: well-formed, strictly sorted by (score, key), keys distinct -/
structure OInv (s : SL) : Prop where
  inv : Inv s
  sorted : Sorted (nodes s)
  keys : ((nodes s).map (·.key)).Nodup

theorem nodes_of_all {s : SL} (hinv : Inv s) : s.all.map (·.node) = (s.all.headD default).node :: nodes s := by
  obtain ⟨hd, ts, eall, _⟩ := hinv.hdr
  simp [nodes, eall]

theorem insertNode_refines {s : SL} (h : OInv s) (n : Node) (lvl : Nat) (hl1 : 1 ≤ lvl) (hl2 : lvl ≤ maxLevel)
    (hfresh : ∀ x ∈ nodes s, x.key ≠ n.key) :
    Inv (insertNode s n lvl) ∧ nodes (insertNode s n lvl) = ZSetA.insertSorted (nodes s) n := by
  have hmono : ∀ a b, Lt a b → nlt b n = true → nlt a n = true := by
    intro a b hab hb
    exact (nlt_iff a n).mpr (Lt_trans hab ((nlt_iff b n).mp hb))
  obtain ⟨hst, hc1, hcl⟩ := steers_of_sorted h.inv h.sorted hmono
  obtain ⟨hinv', hnodes'⟩ := insert_inv h.inv n lvl (cutOf s (fun f => nlt f n)) hl1 hl2 hc1 hcl hst
  refine ⟨hinv', ?_⟩
  have e1 : nodes (insertNode s n lvl) = ((insertNode s n lvl).all.map (·.node)).tail := by simp [nodes, List.map_tail]
  rw [e1, hnodes', nodes_of_all h.inv]
  simp only [cutOf, List.take_succ_cons, List.drop_succ_cons, List.cons_append, List.tail_cons]
  rw [insertSorted_eq]
  have hc : (nodes s).takeWhile (fun x => !nlt n x) = (nodes s).takeWhile (fun f => nlt f n) :=
    takeWhile_congr (fun x hx => nlt_flip (hfresh x hx))
  have hd : (nodes s).dropWhile (fun x => !nlt n x) = (nodes s).drop ((nodes s).takeWhile (fun f => nlt f n)).length := by
    rw [(takeWhile_append_dropWhile_len _ _).2, hc]
  rw [hd, hc]
  rw [← (takeWhile_append_dropWhile_len (fun f => nlt f n) (nodes s)).1]

/-! ### `delete` of a member = removal by key -/

/-- the descent from the header, all levels: `update[]`, `rank[]`, and `update[0]` is the tower just below the cut -/
theorem descend_top {s : SL} (hinv : Inv s) {cont : Int → Node → Bool} {c : Nat} (hc1 : 1 ≤ c) (hcl : c ≤ s.all.length)
    (hst : Steers s.all cont c) :
    (descend s.all cont s.level 0 0).length = s.level ∧
    (∀ j, j < s.level → IsUpd s.all c j ((descend s.all cont s.level 0 0).getD j (0, 0)).1 ((descend s.all cont s.level 0 0).getD j (0, 0)).2) ∧
    ((descend s.all cont s.level 0 0).getD 0 (0, 0)).1 = c - 1 := by
  have hd := descend_spec hinv.spans hst hcl s.level (Nat.le_refl _) 0 (by omega) (by rw [hinv.height0]; exact hinv.lvl.2)
  have e0 : ((0 : Nat) : Int) = 0 := rfl
  rw [e0] at hd
  obtain ⟨hlen, hall⟩ := hd
  refine ⟨hlen, fun j hj => (hall j hj).1, ?_⟩
  obtain ⟨_, a, _, d⟩ := (hall 0 (by have := hinv.lvl.1; omega)).1
  by_cases hlt : ((descend s.all cont s.level 0 0).getD 0 (0, 0)).1 < c - 1
  · have := d (c - 1) hlt (by omega)
    have := hinv.heightPos (q := c - 1) (by omega)
    omega
  · omega

theorem nlt_congr_target (f x : Node) : nlt f ⟨x.key, x.score, []⟩ = nlt f x := rfl

theorem nlt_irrefl (x : Node) : nlt x x = false := by
  cases h : nlt x x with
  | false => rfl
  | true =>
    have := (nlt_iff x x).mp h
    unfold Lt at this
    rcases this with c | ⟨_, c⟩
    · omega
    · rw [bcmp_refl] at c; cases c

/-- in a list with distinct keys, filtering a key out erases the one position that holds it -/
theorem filter_key_eraseIdx (ns : List Node) (j : Nat) (x : Node) (hj : ns[j]? = some x)
    (hk : (ns.map (·.key)).Nodup) : ns.filter (fun y => decide (y.key ≠ x.key)) = ns.eraseIdx j := by
  induction ns generalizing j with
  | nil => simp at hj
  | cons a rest ih =>
    simp only [List.map_cons, List.nodup_cons] at hk
    cases j with
    | zero =>
      simp at hj; subst hj
      simp only [List.eraseIdx_zero, List.tail_cons]
      rw [List.filter_cons_of_neg (by simp)]
      rw [List.filter_eq_self]
      intro y hy
      have : y.key ≠ a.key := fun e => hk.1 (by rw [← e]; exact List.mem_map.mpr ⟨y, hy, rfl⟩)
      simpa using this
    | succ j' =>
      rw [List.getElem?_cons_succ] at hj
      have hax : a.key ≠ x.key := fun e => hk.1 (by rw [e]; exact List.mem_map.mpr ⟨x, List.mem_of_getElem? hj, rfl⟩)
      rw [List.filter_cons_of_pos (by simpa using hax), List.eraseIdx_cons_succ, ih j' hj hk.2]

theorem delete_refines {s : SL} (h : OInv s) (j : Nat) (x : Node) (hj : (nodes s)[j]? = some x) :
    (delete s x.score x.key).2 = true ∧ Inv (delete s x.score x.key).1 ∧
    nodes (delete s x.score x.key).1 = ZSetA.remove (nodes s) x.key ∧
    nodes (delete s x.score x.key).1 = (nodes s).eraseIdx j := by
  obtain ⟨hd, ts, eall, hhd⟩ := h.inv.hdr
  have hn : nodes s = ts.map (·.node) := by simp [nodes, eall]
  have hmono : ∀ a b, Lt a b → nlt b x = true → nlt a x = true := by
    intro a b hab hb
    exact (nlt_iff a x).mpr (Lt_trans hab ((nlt_iff b x).mp hb))
  obtain ⟨hst, hc1, hcl⟩ := steers_of_sorted h.inv h.sorted hmono
  -- the cut is the position of `x`
  have hcut : cutOf s (fun f => nlt f x) = j + 1 := by
    have hp := prefix_iff h.sorted hmono
    have h1 : ¬ j < ((nodes s).takeWhile (fun f => nlt f x)).length := by
      intro c
      have := (hp j x hj).mpr c
      rw [nlt_irrefl] at this
      cases this
    have h2 : ∀ j', j' < j → j' < ((nodes s).takeWhile (fun f => nlt f x)).length := by
      intro j' hj'
      have hjl : j < (nodes s).length := (List.getElem?_eq_some_iff.mp hj).1
      have hg : (nodes s)[j']? = some (nodes s)[j'] := List.getElem?_eq_getElem (by omega)
      apply (hp j' _ hg).mp
      have hsorted := h.sorted
      unfold Sorted at hsorted
      rw [List.pairwise_iff_getElem] at hsorted
      have hx : (nodes s)[j] = x := by
        have := List.getElem?_eq_getElem hjl
        rw [hj] at this
        exact (Option.some.inj this).symm
      have := hsorted j' j (by omega) hjl hj'
      rw [hx] at this
      exact (nlt_iff _ _).mpr this
    simp only [cutOf]
    cases j with
    | zero => omega
    | succ j0 => have := h2 j0 (by omega); omega
  have hxl : j + 1 < s.all.length := by
    have hjl : j < (nodes s).length := (List.getElem?_eq_some_iff.mp hj).1
    rw [eall]; simp only [List.length_cons]
    rw [hn] at hjl; simpa using hjl
  rw [hcut] at hst hc1 hcl
  obtain ⟨dlen, dU, d0⟩ := descend_top h.inv hc1 hcl hst
  -- unfold `delete`
  have hfw : fwd s.all j 0 = some (j + 1) := by
    unfold fwd
    have hdropj : s.all.drop (j + 1) = s.all[j + 1] :: s.all.drop (j + 1 + 1) := List.drop_eq_getElem_cons hxl
    rw [hdropj]
    have hpos := h.inv.heightPos hxl
    have hg : s.all[j + 1]? = some s.all[j + 1] := List.getElem?_eq_getElem hxl
    rw [heightOf_eq hg] at hpos
    simp only [nextAt]
    rw [if_pos (by omega)]
    simp; omega
  have hnode : nodeOf s.all (j + 1) = x := by
    rw [eall, nodeOf_succ, ← hn, hj]; rfl
  have hdel : delete s x.score x.key = (deleteNode s (j + 1) ((descend s.all (fun _ f => nlt f x) s.level 0 0).map (·.1)), true) := by
    unfold delete
    simp only [nlt_congr_target]
    rw [d0]
    have e : j + 1 - 1 = j := by omega
    rw [e, hfw]
    simp only [hnode, and_self, if_true]
  rw [hdel]
  have hU : ∀ i, i < s.level → IsUpd s.all (j + 1) i (((descend s.all (fun _ f => nlt f x) s.level 0 0).map (·.1)).getD i 0)
      ((((descend s.all (fun _ f => nlt f x) s.level 0 0).map (·.1)).getD i 0 : Nat) : Int) := by
    intro i hi
    have e : ((descend s.all (fun _ f => nlt f x) s.level 0 0).map (·.1)).getD i 0 = ((descend s.all (fun _ f => nlt f x) s.level 0 0).getD i (0, 0)).1 := by
      simp only [List.getD_eq_getElem?_getD, List.getElem?_map]
      cases (descend s.all (fun _ f => nlt f x) s.level 0 0)[i]? <;> rfl
    rw [e]
    obtain ⟨a, b, c, d⟩ := dU i hi
    exact ⟨rfl, b, c, d⟩
  obtain ⟨hinv', hnodes'⟩ := delete_inv h.inv (j + 1) (by omega) hxl _ hU
  have e1 : ∀ s' : SL, nodes s' = (s'.all.map (·.node)).tail := by intro s'; simp [nodes, List.map_tail]
  have herase : nodes (deleteNode s (j + 1) ((descend s.all (fun _ f => nlt f x) s.level 0 0).map (·.1))) = (nodes s).eraseIdx j := by
    rw [e1, hnodes', nodes_of_all h.inv, List.eraseIdx_cons_succ, List.tail_cons]
  refine ⟨rfl, hinv', ?_, herase⟩
  simp only
  rw [herase]
  unfold ZSetA.remove
  exact (filter_key_eraseIdx (nodes s) j x hj h.keys).symm

/-! ### `Put`, `Remove`, `PopMin`, `PopMax` -/

theorem find_eq (s : SL) (k : Bytes) : Skiplist.find? s k = ZSetA.find? (nodes s) k := by
  simp only [Skiplist.find?, ZSetA.find?, nodes, List.find?_map]
  rfl

theorem find_some_idx {ns : List Node} {k : Bytes} {n : Node} (h : ZSetA.find? ns k = some n) :
    n.key = k ∧ ∃ j : Nat, ns[j]? = some n := by
  unfold ZSetA.find? at h
  have h1 := List.find?_some h
  have h2 := List.mem_of_find?_eq_some h
  rw [List.mem_iff_getElem?] at h2
  exact ⟨by simpa using h1, h2⟩

theorem find_none_fresh {ns : List Node} {k : Bytes} (h : ZSetA.find? ns k = none) : ∀ x ∈ ns, x.key ≠ k := by
  unfold ZSetA.find? at h
  rw [List.find?_eq_none] at h
  intro x hx
  simpa using h x hx

theorem insertSorted_keys_nodup (ns : List Node) (n : Node) (hk : (ns.map (·.key)).Nodup) (hf : ∀ x ∈ ns, x.key ≠ n.key) :
    ((ZSetA.insertSorted ns n).map (·.key)).Nodup := by
  induction ns with
  | nil => simp [ZSetA.insertSorted]
  | cons a rest ih =>
    simp only [List.map_cons, List.nodup_cons] at hk
    simp only [ZSetA.insertSorted]
    split
    · simp only [List.map_cons, List.nodup_cons]
      refine ⟨?_, hk.1, hk.2⟩
      intro hm
      simp only [List.mem_cons, List.mem_map] at hm
      rcases hm with e | ⟨y, hy, e⟩
      · exact hf a (List.mem_cons_self ..) e.symm
      · exact hf y (List.mem_cons_of_mem _ hy) e
    · simp only [List.map_cons, List.nodup_cons]
      refine ⟨?_, ih hk.2 (fun x hx => hf x (List.mem_cons_of_mem _ hx))⟩
      intro hm
      rw [List.mem_map] at hm
      obtain ⟨y, hy, e⟩ := hm
      rcases (mem_insertSorted rest n y).mp hy with rfl | hy'
      · exact hf a (List.mem_cons_self ..) e.symm
      · exact hk.1 (List.mem_map.mpr ⟨y, hy', e⟩)

theorem gap_map (g : Tower → Tower) (hg : ∀ t, (g t).spans = t.spans) (i : Nat) (ts : List Tower) :
    gap i (ts.map g) = gap i ts := by
  unfold gap
  rw [nextAt_heights (l := ts.map g) (l' := ts) (by simp [List.map_map, Function.comp, hg])]
  simp

/-- rewriting node payloads leaves `SpansOK` alone -/
theorem spansOK_map {lv : Nat} (g : Tower → Tower) (hg : ∀ t, (g t).spans = t.spans) (l : List Tower) :
    SpansOK lv (l.map g) ↔ SpansOK lv l := by
  induction l with
  | nil => simp [SpansOK]
  | cons t ts ih => simp only [List.map_cons, SpansOK, ih, hg, gap_map g hg]

theorem spansOK_cons_map {lv : Nat} (g : Tower → Tower) (hg : ∀ t, (g t).spans = t.spans) (hd : Tower) (ts : List Tower) :
    SpansOK lv (hd :: ts.map g) ↔ SpansOK lv (hd :: ts) := by
  simp only [SpansOK, gap_map g hg, spansOK_map g hg]

theorem put_refines {s : SL} (h : OInv s) (k : Bytes) (sc : Int) (v : Bytes) (lvl : Nat) (hl1 : 1 ≤ lvl) (hl2 : lvl ≤ maxLevel) :
    OInv (Skiplist.put s k sc v lvl) ∧ nodes (Skiplist.put s k sc v lvl) = ZSetA.put (nodes s) k sc v := by
  have hsortedPut : Sorted (ZSetA.put (nodes s) k sc v) := put_sorted _ _ _ _ h.sorted
  unfold Skiplist.put ZSetA.put
  rw [find_eq]
  cases hf : ZSetA.find? (nodes s) k with
  | none =>
    simp only
    have hfresh := find_none_fresh hf
    obtain ⟨hinv', hn'⟩ := insertNode_refines h ⟨k, sc, v⟩ lvl hl1 hl2 hfresh
    refine ⟨⟨hinv', ?_, ?_⟩, hn'⟩
    · rw [hn']; exact insertSorted_sorted _ _ h.sorted hfresh
    · rw [hn']; exact insertSorted_keys_nodup _ _ h.keys hfresh
  | some n =>
    simp only
    obtain ⟨hnk, j, hj⟩ := find_some_idx hf
    by_cases hsc : n.score = sc
    · simp only [hsc, if_true]
      obtain ⟨hd, ts, eall, hhd⟩ := h.inv.hdr
      have hn : nodes s = ts.map (·.node) := by simp [nodes, eall]
      let g : Tower → Tower := fun t => if t.node.key = k then { t with node := { t.node with value := v } } else t
      have hg : ∀ t, (g t).spans = t.spans := by intro t; simp only [g]; split <;> rfl
      simp only [eall]
      change OInv { level := s.level, length := s.length, all := hd :: ts.map g } ∧
        nodes { level := s.level, length := s.length, all := hd :: ts.map g } = _
      have hnodes' : nodes { s with all := hd :: ts.map g } = (nodes s).map fun x => if x.key = k then { x with value := v } else x := by
        rw [hn]
        simp only [nodes, List.tail_cons, List.map_map]
        apply List.map_congr_left
        intro t _
        simp only [Function.comp, g]
        split <;> rfl
      refine ⟨⟨⟨⟨hd, ts.map g, rfl, hhd⟩, h.inv.lvl, ?_, ?_, ?_⟩, ?_, ?_⟩, hnodes'⟩
      · have := h.inv.len; rw [eall] at this; simpa using this
      · intro t ht
        simp only [List.tail_cons, List.mem_map] at ht
        obtain ⟨t0, ht0, rfl⟩ := ht
        rw [hg]
        exact h.inv.hts t0 (by rw [eall]; exact ht0)
      · have hs := h.inv.spans
        rw [eall] at hs
        exact (spansOK_cons_map g hg hd ts).mpr hs
      · rw [hnodes']
        have := hsortedPut
        unfold ZSetA.put at this
        rw [hf] at this
        simpa [hsc] using this
      · rw [hnodes', List.map_map]
        have : ((fun x : Node => x.key) ∘ fun x => if x.key = k then { x with value := v } else x) = fun x => x.key := by
          funext x; simp only [Function.comp]; split <;> rfl
        rw [this]; exact h.keys
    · simp only [hsc, if_false]
      have hnk' : n.key = k := hnk
      obtain ⟨_, hinv1, hrem, _⟩ := delete_refines h j n hj
      have hrem : nodes (delete s n.score n.key).1 = ZSetA.remove (nodes s) k := by rw [hrem, hnk']
      have h1 : OInv (delete s n.score n.key).1 := by
        refine ⟨hinv1, ?_, ?_⟩
        · rw [hrem]; exact remove_sorted _ _ h.sorted
        · rw [hrem]
          unfold ZSetA.remove
          exact List.Nodup.sublist (List.Sublist.map _ List.filter_sublist) h.keys
      have hfresh : ∀ x ∈ nodes (delete s n.score n.key).1, x.key ≠ (⟨k, sc, v⟩ : Node).key := by
        intro x hx
        rw [hrem] at hx
        exact ((mem_remove _ _ _).mp hx).2
      obtain ⟨hinv', hn'⟩ := insertNode_refines h1 ⟨k, sc, v⟩ lvl hl1 hl2 hfresh
      rw [hrem] at hn'
      refine ⟨⟨hinv', ?_, ?_⟩, hn'⟩
      · rw [hn']
        exact insertSorted_sorted _ _ (remove_sorted _ _ h.sorted) (fun x hx => ((mem_remove _ _ _).mp hx).2)
      · rw [hn']
        apply insertSorted_keys_nodup
        · unfold ZSetA.remove
          exact List.Nodup.sublist (List.Sublist.map _ List.filter_sublist) h.keys
        · intro x hx; exact ((mem_remove _ _ _).mp hx).2

theorem oinv_of_delete {s : SL} (h : OInv s) (j : Nat) (x : Node) (hj : (nodes s)[j]? = some x) :
    OInv (delete s x.score x.key).1 := by
  obtain ⟨_, hinv1, hrem, _⟩ := delete_refines h j x hj
  refine ⟨hinv1, ?_, ?_⟩
  · rw [hrem]; exact remove_sorted _ _ h.sorted
  · rw [hrem]
    unfold ZSetA.remove
    exact List.Nodup.sublist (List.Sublist.map _ List.filter_sublist) h.keys

theorem remove_refines {s : SL} (h : OInv s) (k : Bytes) :
    OInv (Skiplist.remove s k).1 ∧ nodes (Skiplist.remove s k).1 = ZSetA.remove (nodes s) k ∧
    (Skiplist.remove s k).2 = ZSetA.find? (nodes s) k := by
  unfold Skiplist.remove
  rw [find_eq]
  cases hf : ZSetA.find? (nodes s) k with
  | none =>
    refine ⟨h, ?_, rfl⟩
    simp only
    unfold ZSetA.remove
    rw [List.filter_eq_self.mpr]
    intro x hx
    simpa using find_none_fresh hf x hx
  | some n =>
    obtain ⟨hnk, j, hj⟩ := find_some_idx hf
    obtain ⟨_, _, hrem, _⟩ := delete_refines h j n hj
    exact ⟨oinv_of_delete h j n hj, by simp only; rw [hrem, hnk], rfl⟩

theorem fwd_zero_zero {s : SL} (hinv : Inv s) :
    fwd s.all 0 0 = if 1 < s.all.length then some 1 else none := by
  obtain ⟨hd, ts, eall, _⟩ := hinv.hdr
  unfold fwd
  rw [eall]
  cases ts with
  | nil => simp [nextAt]
  | cons t rest =>
    have hpos := hinv.heightPos (q := 1) (by rw [eall]; simp)
    rw [eall] at hpos
    simp only [heightOf, List.getElem?_cons_succ, List.getElem?_cons_zero, Option.map_some, Option.getD_some] at hpos
    simp only [List.drop_succ_cons, List.drop_zero, nextAt]
    rw [if_pos (by omega)]
    simp

theorem peekMin_refines {s : SL} (hinv : Inv s) : peekMin s = (nodes s).head? := by
  obtain ⟨hd, ts, eall, _⟩ := hinv.hdr
  unfold peekMin
  rw [fwd_zero_zero hinv, eall]
  cases ts with
  | nil => simp [nodes, eall]
  | cons t rest => simp [nodes, eall, nodeOf]

theorem peekMax_refines (s : SL) : peekMax s = (nodes s).getLast? := by
  unfold peekMax nodes
  rw [List.getLast?_map]

theorem popMin_refines {s : SL} (h : OInv s) :
    OInv (Skiplist.popMin s).1 ∧ nodes (Skiplist.popMin s).1 = (ZSetA.popMin (nodes s)).2 ∧
    (Skiplist.popMin s).2 = (ZSetA.popMin (nodes s)).1 := by
  unfold Skiplist.popMin
  rw [peekMin_refines h.inv]
  cases hns : nodes s with
  | nil => simp only [List.head?_nil, ZSetA.popMin]; exact ⟨h, hns, by first | rfl | trivial⟩
  | cons x xs =>
    simp only [List.head?_cons, ZSetA.popMin]
    have hj : (nodes s)[0]? = some x := by rw [hns]; rfl
    have hfind : ZSetA.find? (nodes s) x.key = some x := by
      rw [hns]; simp [ZSetA.find?]
    obtain ⟨_, _, _, herase⟩ := delete_refines h 0 x hj
    have hrm : Skiplist.remove s x.key = ((delete s x.score x.key).1, some x) := by
      unfold Skiplist.remove; rw [find_eq, hfind]
    rw [hrm]
    refine ⟨oinv_of_delete h 0 x hj, ?_, by first | rfl | trivial⟩
    simp only
    rw [herase, hns]; rfl

theorem popMax_refines {s : SL} (h : OInv s) :
    OInv (Skiplist.popMax s).1 ∧ nodes (Skiplist.popMax s).1 = (ZSetA.popMax (nodes s)).2 ∧
    (Skiplist.popMax s).2 = (ZSetA.popMax (nodes s)).1 := by
  unfold Skiplist.popMax ZSetA.popMax
  rw [peekMax_refines]
  cases hl : (nodes s).getLast? with
  | none => exact ⟨h, rfl, rfl⟩
  | some x =>
    simp only
    have hne : nodes s ≠ [] := by intro e; rw [e] at hl; simp at hl
    have hlen : 0 < (nodes s).length := List.length_pos_iff.mpr hne
    have hj : (nodes s)[(nodes s).length - 1]? = some x := by
      rw [List.getLast?_eq_getElem?] at hl; exact hl
    have hfind : ZSetA.find? (nodes s) x.key = some x := by
      unfold ZSetA.find?
      rw [List.find?_eq_some_iff_getElem]
      refine ⟨by simp, (nodes s).length - 1, by omega, ?_, ?_⟩
      · have := List.getElem?_eq_getElem (l := nodes s) (i := (nodes s).length - 1) (by omega)
        rw [hj] at this; exact (Option.some.inj this).symm
      · intro j' hj'
        have hk := h.keys
        unfold List.Nodup at hk
        rw [List.pairwise_iff_getElem] at hk
        have hjl' : j' < (nodes s).length := by omega
        have hx : (nodes s)[(nodes s).length - 1] = x := by
          have := List.getElem?_eq_getElem (l := nodes s) (i := (nodes s).length - 1) (by omega)
          rw [hj] at this; exact (Option.some.inj this).symm
        have := hk j' ((nodes s).length - 1) (by simpa using hjl') (by simp; omega) hj'
        simp only [List.getElem_map, hx] at this
        simpa using this
    obtain ⟨_, _, _, herase⟩ := delete_refines h _ x hj
    have hrm : Skiplist.remove s x.key = ((delete s x.score x.key).1, some x) := by
      unfold Skiplist.remove; rw [find_eq, hfind]
    rw [hrm]
    refine ⟨oinv_of_delete h _ x hj, ?_, by first | rfl | trivial⟩
    simp only
    rw [herase, List.eraseIdx_eq_take_drop_succ, List.dropLast_eq_take]
    have : (nodes s).length - 1 + 1 = (nodes s).length := by omega
    rw [this, List.drop_length, List.append_nil]

theorem oinv_empty : OInv Skiplist.empty := by
  refine ⟨⟨⟨_, [], rfl, by simp [maxLevel]⟩, by decide, by simp [Skiplist.empty], by simp [Skiplist.empty], ?_⟩, ?_, ?_⟩
  · refine ⟨?_, trivial⟩
    intro i _ hi
    have : i = 0 := by simp only [Skiplist.empty] at hi; omega
    subst this
    decide
  · simp [Skiplist.empty, nodes, Sorted]
  · simp [Skiplist.empty, nodes]

end NutsProofs.SkipL
