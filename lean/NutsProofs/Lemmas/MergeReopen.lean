/-
  NutsProofs.Lemmas.MergeReopen — reopening a directory that Merge has worked on (completely, or up to any
  point between two of its files): under `MergeKV.MInv` the log in the files holds, for every key that still
  has a record, the very record the index entry of that key caches; the entries whose key has no record left
  are dead. So `Open` rebuilds the index minus dead entries, and every read that filters dead records answers
  as before, at the time of the Merge and at any later time.
-/
import NutsProofs.Lemmas.MergeReads
import NutsProofs.Lemmas.PrefixRefine
namespace NutsProofs.MergeKV
open Nuts Nuts.Model Nuts.Model.DB NutsProofs NutsProofs.Reopen NutsProofs.Hints NutsProofs.KVRefine
open Nuts.Spec.DB (live)

/-! ### what `Open` builds from the files of such a state -/

theorem committed_of_marks (L : List LogRec) (h : MarkedLog L) : ∀ x ∈ L, x.1.txid ∈ committedIds L := by
  intro x hx
  obtain ⟨y, hy, hys, hyt, _⟩ := h x hx
  rw [mem_committedIds]
  exact ⟨y, hy, hys, hyt⟩

theorem open_of_minv (s : State) (now : Nat) (h : MInv s now) (opt : Opts) :
    (openDB opt s.files).2 = .ok () ∧ (openDB opt s.files).1.kv = kvOfLog (allRecs s.files) ∧
    (openDB opt s.files).1.opt = opt.core ∧
    (∀ id, id ∈ (openDB opt s.files).1.committed ↔ id ∈ committedIds (allRecs s.files)) := by
  obtain ⟨pre, f, hf, _, _⟩ := h.shape.split
  have hne : s.files ≠ [] := by rw [hf]; simp
  have hens := fileEnsure_max s.files hne
  have hemp : s.files.isEmpty = false := by
    cases hfs : s.files with
    | nil => exact absurd hfs hne
    | cons _ _ => rfl
  have htorn : (s.files.any (·.torn)) = false := by
    rw [List.any_eq_false]; intro g hg; rw [h.shape.untorn g hg]; simp
  have hall : ∀ x ∈ allRecs s.files, (committedIds (allRecs s.files)).contains x.1.txid = true ∧ x.1.ds = dsKV :=
    fun x hx => ⟨by simpa using committed_of_marks _ h.marks x hx, (h.recs x hx).1⟩
  refine ⟨?_, ?_, Replay.openDB_opt opt _, ?_⟩
  all_goals
    unfold openDB
    simp only [hens, hemp, Bool.false_eq_true, if_false, htorn]
    obtain ⟨h1, h2, h3, _, _⟩ := replay_all_kv (allRecs s.files) (committedIds (allRecs s.files))
      { opt := opt.core, files := s.files, activeFid := (s.files.map (·.fid)).foldl max 0, hintFid := (s.files.map (·.fid)).foldl max 0,
        writeOff := fileEnd ((fileGet? s.files ((s.files.map (·.fid)).foldl max 0)).getD { fid := (s.files.map (·.fid)).foldl max 0, recs := [] }),
        actualSize := fileEnd ((fileGet? s.files ((s.files.map (·.fid)).foldl max 0)).getD { fid := (s.files.map (·.fid)).foldl max 0, recs := [] }),
        committed := (committedIds (allRecs s.files)).eraseDups, opened := true } hall
  · exact h1
  · rw [h2]; rfl
  · intro id; rw [h3]; simp

/-- a key is still in the log -/
def inLog (L : List LogRec) (b k : Bytes) : Prop := ∃ x ∈ L, x.1.bucket = b ∧ x.1.key = k

/-- **the rebuilt index against the old one**: a key with a record left has its old entry (status byte
normalised); a key with none has no entry — and its old entry, if any, is dead -/
theorem look_rebuilt (s : State) (now : Nat) (h : MInv s now) (b k : Bytes) :
    (inLog (allRecs s.files) b k → ∃ i, look s.kv b k = some i ∧ look (kvOfLog (allRecs s.files)) b k = some (normIdx i)) ∧
    (¬ inLog (allRecs s.files) b k → look (kvOfLog (allRecs s.files)) b k = none ∧
      ∀ i, look s.kv b k = some i → dead i.r now = true) := by
  have hsorted := log_sorted s.files h.packed.fids h.packed.offs
  constructor
  · rintro ⟨x, hx, hxb, hxk⟩
    obtain ⟨y, hy, hyb, hyk, _, hly⟩ := foldLog_latest (allRecs s.files) [] hsorted x hx
    rw [hxb, hxk] at hly
    obtain ⟨i, hli, hle⟩ := h.latest y hy
    rw [hyb, hyk, hxb, hxk] at hli
    refine ⟨i, hli, ?_⟩
    show look (foldLog [] (allRecs s.files)) b k = _
    rw [hly]
    -- the entry `i` addresses a record of the log with this key; that record is `y`
    have hli' := hli
    unfold look at hli'
    cases hm : aget? s.kv b with
    | none => rw [hm] at hli'; cases hli'
    | some m =>
      rw [hm] at hli'
      simp only [Option.bind_some] at hli'
      obtain ⟨hik, hib, hh⟩ := h.hints b m (k, i) hm (aget_mem m k i hli')
      rcases hh with ⟨x', hx', hxp', hxr'⟩ | ⟨_, _, hlow⟩
      · have hxb' : x'.1.bucket = b := by
          have := congrArg Rec.bucket hxr'; simp only [committedRec] at this; rw [this]; exact hib
        have hxk' : x'.1.key = k := by
          have := congrArg Rec.key hxr'; simp only [committedRec] at this; rw [this]; exact hik
        obtain ⟨y', hy', _, _, hle', hly'⟩ := foldLog_latest (allRecs s.files) [] hsorted x' hx'
        rw [hxb', hxk', hly] at hly'
        have hyy : y' = y := by
          have h1 := congrArg Idx.fid (Option.some.inj hly')
          have h2 := congrArg Idx.pos (Option.some.inj hly')
          simp only [] at h1 h2
          exact pos_inj _ hsorted y' y hy' hy (by simp only [posOf]; rw [h1, h2])
        rw [hyy] at hle'
        -- pos y ≤ pos i = pos x' ≤ pos y
        have hpe : posOf y = posOf x' := by
          apply posLe_antisymm
          · rw [hxp']; exact hle
          · exact hle'
        have hyx : y = x' := pos_inj _ hsorted y x' hy hx' hpe
        subst hyx
        have hf : i.fid = y.2.1 := by have := congrArg Prod.fst hxp'; simpa [posOf] using this.symm
        have hp : i.pos = y.2.2 := by have := congrArg Prod.snd hxp'; simpa [posOf] using this.symm
        unfold normIdx
        rw [← hxr', hf, hp]
      · -- a dangling entry is below every file, but `y` is in a file at or below the entry: impossible
        exfalso
        obtain ⟨g, hg, hgfid, _⟩ := mem_allRecs s.files y hy
        have hlt : i.fid < g.fid := hlow g hg
        unfold posLe posOf at hle
        simp only [] at hle
        omega
  · intro hno
    refine ⟨?_, ?_⟩
    · show look (foldLog [] (allRecs s.files)) b k = none
      rw [foldLog_frame (allRecs s.files) [] b k (fun x hx hc => hno ⟨x, hx, hc.1, hc.2⟩)]
      rfl
    · intro i hli
      have hli' := hli
      unfold look at hli'
      cases hm : aget? s.kv b with
      | none => rw [hm] at hli'; cases hli'
      | some m =>
        rw [hm] at hli'
        simp only [Option.bind_some] at hli'
        obtain ⟨hik, hib, hh⟩ := h.hints b m (k, i) hm (aget_mem m k i hli')
        rcases hh with ⟨x', hx', _, hxr'⟩ | ⟨hd, _, _⟩
        · exfalso
          apply hno
          refine ⟨x', hx', ?_, ?_⟩
          · have := congrArg Rec.bucket hxr'; simp only [committedRec] at this; rw [this]; exact hib
          · have := congrArg Rec.key hxr'; simp only [committedRec] at this; rw [this]; exact hik
        · exact hd

/-! ### the live pairs are the same -/

theorem sorted_ext {β} (a b : Assoc β) (ha : Sorted a) (hb : Sorted b) (h : ∀ k, aget? a k = aget? b k) : a = b := by
  induction a generalizing b with
  | nil =>
    cases b with
    | nil => rfl
    | cons q rest =>
      have := h q.1
      simp [aget?] at this
  | cons p rest ih =>
    obtain ⟨pk, pv⟩ := p
    unfold Sorted at ha
    rw [List.pairwise_cons] at ha
    cases b with
    | nil =>
      have := h pk
      simp [aget?] at this
    | cons q rest' =>
      obtain ⟨qk, qv⟩ := q
      unfold Sorted at hb
      rw [List.pairwise_cons] at hb
      -- the heads have the same key: each is the smallest key of its list and is found in the other
      have hk : pk = qk := by
        have h1 := h pk
        have h2 := h qk
        simp only [aget?, if_true] at h1 h2
        by_cases he : pk = qk
        · exact he
        · exfalso
          have he' : ¬ qk = pk := fun e => he e.symm
          simp only [he', if_false] at h1
          simp only [he, if_false] at h2
          -- pk is in rest' (above qk) and qk is in rest (above pk)
          have m1 := aget_mem rest' pk pv h1.symm
          have m2 := aget_mem rest qk qv h2
          have l1 := hb.1 (pk, pv) m1
          have l2 := ha.1 (qk, qv) m2
          simp only [] at l1 l2
          have := bcmp_lt_trans l1 l2
          rw [bcmp_refl] at this; cases this
      subst hk
      have hv : pv = qv := by
        have h1 := h pk
        simp only [aget?, if_true, Option.some.injEq] at h1
        exact h1
      subst hv
      congr 1
      apply ih rest' ha.2 (by unfold Sorted; exact hb.2)
      intro k
      have hk := h k
      simp only [aget?] at hk
      by_cases he : pk = k
      · subst he
        rw [aget_none_of_keys rest pk (fun q hq he => by have := ha.1 q hq; rw [he, bcmp_refl] at this; cases this),
          aget_none_of_keys rest' pk (fun q hq he => by have := hb.1 q hq; rw [he, bcmp_refl] at this; cases this)]
      · simp only [he, if_false] at hk; exact hk

theorem livePick_key (t : Nat) (p : Bytes × Idx) (q : Bytes × Bytes) (h : livePick t p = some q) : q.1 = p.1 := by
  unfold livePick at h; split at h
  · cases h; rfl
  · cases h

theorem filterMap_livePick_sorted (m : Assoc Idx) (t : Nat) (hs : Sorted m) : Sorted (m.filterMap (livePick t)) := by
  unfold Sorted at *
  induction m with
  | nil => simp
  | cons p rest ih =>
    rw [List.pairwise_cons] at hs
    simp only [List.filterMap_cons]
    cases hp : livePick t p with
    | none => exact ih hs.2
    | some q =>
      simp only []
      rw [List.pairwise_cons]
      refine ⟨?_, ih hs.2⟩
      intro q' hq'
      obtain ⟨p', hp', hpq'⟩ := List.mem_filterMap.mp hq'
      rw [livePick_key t p q hp, livePick_key t p' q' hpq']
      exact hs.1 p' hp'

theorem live_mono (r : Rec) (now t : Nat) (hle : now ≤ t) (hf : r.flag = flagSet ∨ r.flag = flagDelete)
    (hb : r.ts + r.ttl < 2 ^ 64) (ht : t < 2 ^ 64) (hd : dead r now = true) : dead r t = true := by
  have hn : now < 2 ^ 64 := by omega
  unfold dead at *
  rw [isExpired_eq_not_live r.value r.ttl r.ts now hb hn] at hd
  rw [isExpired_eq_not_live r.value r.ttl r.ts t hb ht]
  unfold live at *
  simp only [Bool.or_eq_true, beq_iff_eq, Bool.not_eq_true', Bool.or_eq_false_iff, decide_eq_false_iff_not,
    beq_eq_false_iff_ne, ne_eq] at hd ⊢
  rcases hd with h1 | ⟨h1, h2⟩
  · exact Or.inl h1
  · exact Or.inr ⟨h1, by omega⟩

/-- **same live pairs**, bucket by bucket, at the time of the Merge and later -/
theorem live_rebuilt (s : State) (now : Nat) (h : MInv s now) (b : Bytes) (t : Nat) (hle : now ≤ t) (ht : t < 2 ^ 64) :
    liveBucket (absBucket ((aget? (kvOfLog (allRecs s.files)) b).getD [])) t =
      liveBucket (absBucket ((aget? s.kv b).getD [])) t := by
  rw [liveBucket_abs, liveBucket_abs]
  have hsA : Sorted ((aget? (kvOfLog (allRecs s.files)) b).getD []) := by
    cases hq : aget? (kvOfLog (allRecs s.files)) b with
    | none => simp [Sorted]
    | some m => exact foldLog_sorted (allRecs s.files) [] kvSorted_nil b m hq
  have hsB : Sorted ((aget? s.kv b).getD []) := by
    cases hq : aget? s.kv b with
    | none => simp [Sorted]
    | some m => exact h.sorted b m hq
  apply sorted_ext _ _ (filterMap_livePick_sorted _ t hsA) (filterMap_livePick_sorted _ t hsB)
  intro k
  rw [aget_filterMap_sorted _ t k hsA, aget_filterMap_sorted _ t k hsB]
  -- lookups in the two buckets
  have hlA : aget? ((aget? (kvOfLog (allRecs s.files)) b).getD []) k = look (kvOfLog (allRecs s.files)) b k := by
    unfold look; cases aget? (kvOfLog (allRecs s.files)) b <;> simp [aget?]
  have hlB : aget? ((aget? s.kv b).getD []) k = look s.kv b k := by
    unfold look; cases aget? s.kv b <;> simp [aget?]
  rw [hlA, hlB]
  obtain ⟨hin, hout⟩ := look_rebuilt s now h b k
  by_cases hil : inLog (allRecs s.files) b k
  · obtain ⟨i, h1, h2⟩ := hin hil
    rw [h1, h2]
    rfl
  · obtain ⟨h1, h2⟩ := hout hil
    rw [h1]
    cases hl : look s.kv b k with
    | none => rfl
    | some i =>
      have hd := h2 i hl
      -- the entry is dead now, hence later too: it is not among the live pairs
      have hl' := hl
      unfold look at hl'
      cases hm : aget? s.kv b with
      | none => rw [hm] at hl'; cases hl'
      | some m =>
        rw [hm] at hl'
        simp only [Option.bind_some] at hl'
        have hmem := aget_mem m k i hl'
        obtain ⟨hfl, hbnd⟩ := h.idxok b m (k, i) hm hmem
        simp only [Option.bind_some]
        have hdt := live_mono i.r now t hle hfl hbnd ht hd
        have := dead_iff i t hfl hbnd ht
        rw [hdt] at this
        have hpick : (isSet (k, i) && live t (skvOf i)) = false := by
          have hsame : isSet (k, i) = isSet (([] : Bytes), i) := rfl
          rw [hsame]
          cases hc : (isSet (([] : Bytes), i) && live t (skvOf i)) <;> simp [hc] at this ⊢
        simp [hpick]

/-! ### reads as functions of the live pairs -/

/-- the reads of a key+value-mode state with sorted buckets of API records, all committed, in terms of the
live pairs of each bucket -/
theorem reads_of_index (s : State) (hm : s.opt.mode = 0) (hsorted : KVSorted s.kv)
    (hidx : ∀ b m, aget? s.kv b = some m → IdxOk m)
    (hc : ∀ b m p, aget? s.kv b = some m → p ∈ m → s.committed.contains p.2.r.txid = true)
    (t : Nat) (ht : t < 2 ^ 64) (b : Bytes) :
    let lv := liveBucket (absBucket ((aget? s.kv b).getD [])) t
    (∀ k, (DB.get s b k t).map (Option.map (·.value)) =
        match (lv.find? (·.1 = k)).map (·.2) with | some v => .ok (some v) | none => .err) ∧
    ((getAll s b t).map pairsOf = if lv = [] then .err else .ok lv) ∧
    (∀ st en, (rangeScan s b st en t).map pairsOf =
        if bcmp st en == .gt then .err
        else if (lv.filter fun x => ble st x.1 && ble x.1 en) = [] then .err
        else .ok (lv.filter fun x => ble st x.1 && ble x.1 en)) ∧
    (∀ pre mt, (prefixScan s b pre 0 (-1) t mt).map pairsOf =
        if (lv.filter fun x => hasPrefix x.1 pre && mt x.1) = [] then .err
        else .ok (lv.filter fun x => hasPrefix x.1 pre && mt x.1)) := by
  intro lv
  cases hb : aget? s.kv b with
  | none =>
    have hb' : bucketIdx s b = none := hb
    have hlv : lv = [] := by show liveBucket (absBucket ((aget? s.kv b).getD [])) t = []; rw [hb]; rfl
    refine ⟨?_, ?_, ?_, ?_⟩
    · intro k; unfold DB.get; rw [hb', hlv]; rfl
    · unfold getAll; rw [hb', hlv]; rfl
    · intro st en; unfold rangeScan; rw [hb', hlv]; simp only [List.filter_nil]; split <;> rfl
    · intro pre mt; unfold prefixScan; rw [hb', hlv]; rfl
  | some m =>
    have hb' : bucketIdx s b = some m := hb
    have hlv : lv = liveBucket (absBucket m) t := by
      show liveBucket (absBucket ((aget? s.kv b).getD [])) t = _; rw [hb]; rfl
    have hms := hsorted b m hb
    have hmok := hidx b m hb
    refine ⟨?_, ?_, ?_, ?_⟩
    · intro k
      rw [get_of_getIdx s hm b k t m hb' (fun p hp => hc b m p hb hp), hlv, ← getIdx_refines m k t hms hmok ht]
      cases getIdx m k t <;> rfl
    · rw [hlv]; exact getAll_refines s hm b m hb' t hmok ht
    · intro st en; rw [hlv]; exact rangeScan_refines s hm b m hb' st en t hmok ht
    · intro pre mt; rw [hlv]; exact PrefixRefine.prefixScan_refines s hm b m hb' hms pre mt t hmok ht

/-- a key+value-mode state whose index is the one the files of `s` denote, with their committed ids: its
unpaged reads at `t ≥ now` are those of `s` -/
theorem reads_of_rebuilt (s : State) (now : Nat) (h : MInv s now) (hm : s.opt.mode = 0) (s' : State)
    (hkv' : s'.kv = kvOfLog (allRecs s.files)) (hm' : s'.opt.mode = 0)
    (hids : ∀ id, id ∈ s'.committed ↔ id ∈ committedIds (allRecs s.files))
    (t : Nat) (hle : now ≤ t) (ht : t < 2 ^ 64) (b : Bytes) :
    (∀ k, (DB.get s' b k t).map (Option.map (·.value)) = (DB.get s b k t).map (Option.map (·.value))) ∧
    ((getAll s' b t).map pairsOf = (getAll s b t).map pairsOf) ∧
    (∀ st en, (rangeScan s' b st en t).map pairsOf = (rangeScan s b st en t).map pairsOf) ∧
    (∀ pre mt, (prefixScan s' b pre 0 (-1) t mt).map pairsOf = (prefixScan s b pre 0 (-1) t mt).map pairsOf) := by
  -- the old state
  have hidxS : ∀ b m, aget? s.kv b = some m → IdxOk m := by
    intro b m hbm p hp
    obtain ⟨hf, hbd⟩ := h.idxok b m p hbm hp
    exact ⟨hf, hbd, (h.hints b m p hbm hp).1⟩
  have hcS : ∀ b m p, aget? s.kv b = some m → p ∈ m → s.committed.contains p.2.r.txid = true := by
    intro b m p hbm hp; simpa using h.committedIdx b m p hbm hp
  obtain ⟨g1, g2, g3, g4⟩ := reads_of_index s hm h.sorted hidxS hcS t ht b
  -- the rebuilt state
  have hL : ∀ x ∈ allRecs s.files, RecOk x.1 := fun x hx => ⟨(h.recs x hx).2.2, h.bounds x hx⟩
  obtain ⟨hsorted', _, hidx', htx'⟩ := kvOfLog_props (allRecs s.files) hL
  have hidxS' : ∀ b m, aget? s'.kv b = some m → IdxOk m := by
    intro b m hbm p hp; rw [hkv'] at hbm; exact hidx' b m p hbm hp
  have hcS' : ∀ b m p, aget? s'.kv b = some m → p ∈ m → s'.committed.contains p.2.r.txid = true := by
    intro b m p hbm hp
    rw [hkv'] at hbm
    obtain ⟨x, hx, hxt⟩ := htx' b m p hbm hp
    have : x.1.txid ∈ committedIds (allRecs s.files) := committed_of_marks _ h.marks x hx
    have h2 : p.2.r.txid ∈ s'.committed := by rw [hxt]; exact (hids _).mpr this
    simpa using h2
  obtain ⟨r1, r2, r3, r4⟩ := reads_of_index s' hm' (by rw [hkv']; exact hsorted') hidxS' hcS' t ht b
  have hlive : liveBucket (absBucket ((aget? s'.kv b).getD [])) t = liveBucket (absBucket ((aget? s.kv b).getD [])) t := by
    rw [hkv']; exact live_rebuilt s now h b t hle ht
  simp only [hlive] at r1 r2 r3 r4
  exact ⟨fun k => by rw [r1 k, g1 k], by rw [r2, g2], fun st en => by rw [r3 st en, g3 st en],
    fun pre mt => by rw [r4 pre mt, g4 pre mt]⟩

/-- **Reopen after Merge (or between two files of it).** A key+value-mode state with the Merge invariant,
reopened in key+value mode: `Open` succeeds, and `Get`, `GetAll`, `RangeScan`, and `PrefixScan` /
`PrefixSearchScan` without offset and limit return, at the time the invariant speaks of and at every later
time, the values and pairs they returned before the reopen. (With offset or limit the dead entries that the
reopen drops matter: finding D-SCAN-DEAD.) -/
theorem reads_after_reopen (s : State) (now : Nat) (h : MInv s now) (hm : s.opt.mode = 0) (opt : Opts) (hmo : opt.mode = 0)
    (t : Nat) (hle : now ≤ t) (ht : t < 2 ^ 64) (b : Bytes) :
    let s' := (openDB opt s.files).1
    (openDB opt s.files).2 = .ok () ∧
    (∀ k, (DB.get s' b k t).map (Option.map (·.value)) = (DB.get s b k t).map (Option.map (·.value))) ∧
    ((getAll s' b t).map pairsOf = (getAll s b t).map pairsOf) ∧
    (∀ st en, (rangeScan s' b st en t).map pairsOf = (rangeScan s b st en t).map pairsOf) ∧
    (∀ pre mt, (prefixScan s' b pre 0 (-1) t mt).map pairsOf = (prefixScan s b pre 0 (-1) t mt).map pairsOf) := by
  intro s'
  obtain ⟨hok, hkv, hopt, hids⟩ := open_of_minv s now h opt
  have hm' : s'.opt.mode = 0 := by show (openDB opt s.files).1.opt.mode = 0; rw [hopt]; exact hmo
  exact ⟨hok, reads_of_rebuilt s now h hm s' hkv hm' hids t hle ht b⟩

/-! ### before Merge, after Merge, after the reopen -/

theorem absBucket_of_vis (m' m : Assoc Idx) (h : visBucket m' = visBucket m) : absBucket m' = absBucket m := by
  unfold absBucket
  induction m' generalizing m with
  | nil =>
    cases m with
    | nil => rfl
    | cons _ _ => simp [visBucket] at h
  | cons p' rest' ih =>
    cases m with
    | nil => simp [visBucket] at h
    | cons p rest =>
      simp only [visBucket, List.map_cons, List.cons.injEq, Prod.mk.injEq] at h
      obtain ⟨⟨hk, hv⟩, hrest⟩ := h
      have hrest' : visBucket rest' = visBucket rest := hrest
      unfold vrec at hv
      simp only [Prod.mk.injEq] at hv
      have hset : isSet p' = isSet p := by unfold isSet; rw [hv.2.2.2]
      simp only [List.filter_cons, hset]
      split
      · have := ih rest hrest'
        simp only [List.map_cons, hk, skvOf, hv.1, hv.2.1, hv.2.2.1]
        simp only [skvOf] at this
        rw [this]
      · exact ih rest hrest'

/-- two states with the Merge invariant and the same visible index read alike (values and pairs), at any time -/
theorem reads_of_vis_minv (s s' : State) (now : Nat) (h : MInv s now) (h' : MInv s' now) (hm : s.opt.mode = 0) (hm' : s'.opt.mode = 0)
    (hv : visKV s'.kv = visKV s.kv) (t : Nat) (ht : t < 2 ^ 64) (b : Bytes) :
    (∀ k, (DB.get s' b k t).map (Option.map (·.value)) = (DB.get s b k t).map (Option.map (·.value))) ∧
    ((getAll s' b t).map pairsOf = (getAll s b t).map pairsOf) ∧
    (∀ st en, (rangeScan s' b st en t).map pairsOf = (rangeScan s b st en t).map pairsOf) ∧
    (∀ pre mt, (prefixScan s' b pre 0 (-1) t mt).map pairsOf = (prefixScan s b pre 0 (-1) t mt).map pairsOf) := by
  have mk : ∀ (u : State) (hu : MInv u now), (∀ b m, aget? u.kv b = some m → IdxOk m) ∧
      (∀ b m p, aget? u.kv b = some m → p ∈ m → u.committed.contains p.2.r.txid = true) := by
    intro u hu
    refine ⟨?_, ?_⟩
    · intro b m hbm p hp
      obtain ⟨hf, hbd⟩ := hu.idxok b m p hbm hp
      exact ⟨hf, hbd, (hu.hints b m p hbm hp).1⟩
    · intro b m p hbm hp; simpa using hu.committedIdx b m p hbm hp
  obtain ⟨g1, g2, g3, g4⟩ := reads_of_index s hm h.sorted (mk s h).1 (mk s h).2 t ht b
  obtain ⟨r1, r2, r3, r4⟩ := reads_of_index s' hm' h'.sorted (mk s' h').1 (mk s' h').2 t ht b
  have hb : (aget? s'.kv b).map visBucket = (aget? s.kv b).map visBucket := by
    have h1 := aget_map visBucket s'.kv b
    have h2 := aget_map visBucket s.kv b
    unfold visKV at hv
    rw [← h1, ← h2, hv]
  have hlive : liveBucket (absBucket ((aget? s'.kv b).getD [])) t = liveBucket (absBucket ((aget? s.kv b).getD [])) t := by
    rcases opt_cases _ _ hb with ⟨h1, h2⟩ | ⟨m', m, h1, h2, h3⟩
    · rw [h1, h2]
    · rw [h1, h2]; simp only [Option.getD_some]; rw [absBucket_of_vis m' m h3]
  simp only [hlive] at r1 r2 r3 r4
  exact ⟨fun k => by rw [r1 k, g1 k], by rw [r2, g2], fun st en => by rw [r3 st en, g3 st en],
    fun pre mt => by rw [r4 pre mt, g4 pre mt]⟩

end NutsProofs.MergeKV
