/-
  NutsProofs.Lemmas.ZSetOrder — the node list of a sorted set under Put / Remove: the strict (score, key)
  order, its preservation, membership (moved here from Props/C07.lean so that the skiplist lemmas can use it).
-/
import Nuts.Model.ZSetA
import NutsProofs.Lemmas.Bytes
namespace NutsProofs.ZOrd
open Nuts Nuts.Model Nuts.Model.ZSetA NutsProofs

/-- strict (score, key) order -/
def Lt (a b : Node) : Prop := a.score < b.score ∨ (a.score = b.score ∧ bcmp a.key b.key = .lt)

theorem nlt_iff (a b : Node) : nlt a b = true ↔ Lt a b := by
  simp [nlt, Lt, blt]

theorem Lt_trans {a b c : Node} (h1 : Lt a b) (h2 : Lt b c) : Lt a c := by
  unfold Lt at *
  rcases h1 with h1 | ⟨h1, k1⟩ <;> rcases h2 with h2 | ⟨h2, k2⟩
  · left; omega
  · left; omega
  · left; omega
  · right; exact ⟨by omega, bcmp_lt_trans k1 k2⟩

/-- for nodes with different keys the order is total -/
theorem Lt_total (a b : Node) (hk : a.key ≠ b.key) (h : ¬ Lt a b) : Lt b a := by
  unfold Lt at *
  by_cases hs : b.score < a.score
  · left; exact hs
  · have he : a.score = b.score := by
      by_cases hlt : a.score < b.score
      · exact absurd (Or.inl hlt) h
      · omega
    right
    refine ⟨he.symm, ?_⟩
    cases hc : bcmp a.key b.key with
    | lt => exact absurd (Or.inr ⟨he, hc⟩) h
    | eq => exact absurd ((bcmp_eq_iff _ _).mp hc) hk
    | gt => exact (bcmp_gt_iff_lt _ _).mp hc

def Sorted (s : St) : Prop := s.Pairwise Lt

theorem mem_insertSorted (s : St) (n x : Node) : x ∈ insertSorted s n ↔ x = n ∨ x ∈ s := by
  induction s with
  | nil => simp [insertSorted]
  | cons y ys ih =>
    simp only [insertSorted]
    split
    · simp
    · simp only [List.mem_cons, ih]
      constructor
      · rintro (h | h | h)
        · exact Or.inr (Or.inl h)
        · exact Or.inl h
        · exact Or.inr (Or.inr h)
      · rintro (h | h | h)
        · exact Or.inr (Or.inl h)
        · exact Or.inl h
        · exact Or.inr (Or.inr h)

/-- inserting a node whose key is new keeps the list strictly ordered -/
theorem insertSorted_sorted (s : St) (n : Node) (h : Sorted s) (hk : ∀ x ∈ s, x.key ≠ n.key) :
    Sorted (insertSorted s n) := by
  induction s with
  | nil => simp [insertSorted, Sorted]
  | cons y ys ih =>
    unfold Sorted at h ⊢
    rw [List.pairwise_cons] at h
    obtain ⟨h1, h2⟩ := h
    simp only [insertSorted]
    split
    · rename_i hlt
      have hny : Lt n y := (nlt_iff n y).mp hlt
      rw [List.pairwise_cons]
      refine ⟨?_, List.pairwise_cons.mpr ⟨h1, h2⟩⟩
      intro x hx
      simp at hx
      rcases hx with hx | hx
      · subst hx; exact hny
      · exact Lt_trans hny (h1 x hx)
    · rename_i hlt
      have hyn : Lt y n := Lt_total n y (fun e => hk y (by simp) e.symm) (fun c => hlt ((nlt_iff n y).mpr c))
      rw [List.pairwise_cons]
      refine ⟨?_, ih h2 (fun x hx => hk x (by simp [hx]))⟩
      intro x hx
      rcases (mem_insertSorted ys n x).mp hx with hx | hx
      · subst hx; exact hyn
      · exact h1 x hx

theorem remove_sorted (s : St) (k : Bytes) (h : Sorted s) : Sorted (remove s k) := by
  unfold Sorted remove at *
  exact List.Pairwise.filter _ h

theorem mem_remove (s : St) (k : Bytes) (x : Node) : x ∈ remove s k ↔ x ∈ s ∧ x.key ≠ k := by
  simp [remove]

/-- **Put** of a new key or of a changed score keeps the node list strictly ordered by (score, key)
and makes `k` map to `(score, value)`. -/
theorem put_sorted (s : St) (k : Bytes) (sc : Int) (v : Bytes) (h : Sorted s) : Sorted (put s k sc v) := by
  unfold put
  split
  · rename_i n hn
    split
    · -- same score: value updated in place; keys and scores unchanged, so the order is unchanged
      unfold Sorted at *
      rw [List.pairwise_map]
      refine h.imp ?_
      intro a b hab
      unfold Lt at *
      split <;> split <;> simpa using hab
    · apply insertSorted_sorted _ _ (remove_sorted s k h)
      intro x hx; exact ((mem_remove s k x).mp hx).2
  · rename_i hnone
    apply insertSorted_sorted _ _ h
    intro x hx hxk
    have : (find? s k) ≠ none := by
      unfold find?
      rw [Ne, List.find?_eq_none]
      intro hall
      exact hall x hx (by simpa using hxk)
    exact this hnone

/-- in a sorted list the minimum is the head and the maximum is the last element -/
theorem head_is_min (x : Node) (xs : St) (h : Sorted (x :: xs)) : ∀ y ∈ xs, Lt x y := by
  unfold Sorted at h; exact (List.pairwise_cons.mp h).1

example : Sorted (put (put [] [98] 1 []) [97] 1 []) :=
  put_sorted _ _ _ _ (put_sorted _ _ _ _ (by simp [Sorted]))

/-- ties on the score are ordered by key: `a` before `b` at equal scores -/
example : (put (put [] [98] 1 []) [97] 1 []).map (·.key) = [[97], [98]] := by decide

end NutsProofs.ZOrd
