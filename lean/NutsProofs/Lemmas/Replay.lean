/-
  NutsProofs.Lemmas.Replay — the record-level core of C10 (restated as property theorems in Props/C10.lean): recovery (`replay` of the records whose transaction has a committed record)
  ignores every record of a transaction without commit marker, wherever it lies in the log, and a
  transaction's records all become visible exactly when its last record (the only one written with
  status Committed) is in the log. Ids must be fresh: that was violated before the fix of D-TXID.
-/
import Nuts.Model.Tx
import NutsProofs.Pins.Commit
namespace NutsProofs.Replay
open Nuts Nuts.Model Nuts.Model.DB

abbrev LogRec := Rec × Nat × Nat

/-- the records recovery looks at -/
def visible (rs : List LogRec) (ids : List Nat) : List LogRec := rs.filter fun x => ids.contains x.1.txid

/-- recovery replays exactly the visible records -/
theorem replay_visible (s : State) (rs : List LogRec) (ids : List Nat) :
    replay s rs ids = replay s (visible rs ids) ids := by
  induction rs generalizing s with
  | nil => rfl
  | cons x rest ih =>
    obtain ⟨r, fid, pos⟩ := x
    by_cases h : ids.contains r.txid
    · have hv : visible ((r, fid, pos) :: rest) ids = (r, fid, pos) :: visible rest ids := by
        unfold visible; exact List.filter_cons_of_pos (by simpa using h)
      rw [hv]
      simp only [replay, h, Bool.not_true, Bool.false_eq_true, ↓reduceIte]
      split
      · exact ih _
      · split
        · rfl
        · split <;> first | rfl | exact ih _
    · have hv : visible ((r, fid, pos) :: rest) ids = visible rest ids := by
        unfold visible; exact List.filter_cons_of_neg (by simpa using h)
      rw [hv]
      simp only [replay, h, Bool.not_false, ↓reduceIte]
      exact ih _

theorem committedIds_append (a b : List LogRec) : committedIds (a ++ b) = committedIds a ++ committedIds b := by
  simp [committedIds]

/-- records written without commit marker contribute no committed id -/
theorem committedIds_uncommitted (b : List LogRec) (h : ∀ x ∈ b, x.1.status = 0) : committedIds b = [] := by
  unfold committedIds
  rw [List.map_eq_nil_iff, List.filter_eq_nil_iff]
  intro x hx
  simp [h x hx]

/-- **C10 (no partial transaction).** A log followed by any records of a transaction that has no
commit marker anywhere (a crash before its last write, a failed commit) recovers exactly as the log
alone: same committed ids, same replay — provided the transaction's id is fresh. -/
theorem uncommitted_suffix_invisible (s : State) (log extra : List LogRec)
    (hst : ∀ x ∈ extra, x.1.status = 0)
    (hfresh : ∀ x ∈ extra, ∀ y ∈ log, y.1.txid ≠ x.1.txid) :
    committedIds (log ++ extra) = committedIds log ∧
    replay s (log ++ extra) (committedIds (log ++ extra)) = replay s log (committedIds log) := by
  have hc : committedIds (log ++ extra) = committedIds log := by
    rw [committedIds_append, committedIds_uncommitted extra hst, List.append_nil]
  refine ⟨hc, ?_⟩
  rw [hc, replay_visible s (log ++ extra), replay_visible s log]
  congr 1
  unfold visible
  rw [List.filter_append]
  have : extra.filter (fun x => (committedIds log).contains x.1.txid) = [] := by
    rw [List.filter_eq_nil_iff]
    intro x hx hcon
    simp only [List.contains_eq_mem, decide_eq_true_eq] at hcon
    unfold committedIds at hcon
    rw [List.mem_map] at hcon
    obtain ⟨y, hy, hyx⟩ := hcon
    exact hfresh x hx y (List.mem_filter.mp hy).1 hyx
  rw [this, List.append_nil]

/-- **C10 (no committed transaction lost).** Once the last record — the one carrying the commit
marker — is in the log, every record of the transaction is visible to recovery. -/
theorem committed_all_visible (log : List LogRec) (recs : List LogRec) (id : Nat)
    (hid : ∀ x ∈ recs, x.1.txid = id) (hlast : ∃ x ∈ recs, x.1.status = 1) :
    ∀ x ∈ recs, x ∈ visible (log ++ recs) (committedIds (log ++ recs)) := by
  intro x hx
  obtain ⟨l, hl, hls⟩ := hlast
  unfold visible
  rw [List.mem_filter]
  refine ⟨by simp [hx], ?_⟩
  simp only [List.contains_eq_mem, decide_eq_true_eq]
  unfold committedIds
  rw [List.mem_map]
  refine ⟨l, ?_, ?_⟩
  · rw [List.mem_filter]; exact ⟨by simp [hl], by simp [hls]⟩
  · rw [hid l hl, hid x hx]

/-- Witness of the fixed finding D-TXID: with a *shared* id the uncommitted record IS visible, which
is why freshness is a hypothesis above (and why every transaction now gets a distinct id). -/
theorem witness_shared_id :
    let committed : LogRec := ({ (mkRec [97] [107] [1] flagSet dsKV) with txid := 7, status := 1 }, 0, 0)
    let residue : LogRec := ({ (mkRec [97] [108] [2] flagSet dsKV) with txid := 7, status := 0 }, 0, 46)
    residue ∈ visible [committed, residue] (committedIds [committed, residue]) := by
  decide

/-- the two structural facts of `Tx.Commit` (regenerated from the source on every run) that make the
record-level argument apply to the code: the commit marker is set on the last record only, before
it is written; the id enters `committedTxIds` only after that write. -/
theorem commit_marker_facts :
    Facts.items "status" = [("status", "i == lastIndex", "entry.Meta.status = Committed")] ∧
    (NutsGen.F.commitLoop.findIdx? (·.1 == "write")).getD 99 < (NutsGen.F.commitLoop.findIdx? (·.1 == "committedIds")).getD 0 :=
  ⟨Facts.commit_marker_last_only.1, Facts.commit_ids_after_last_write.2⟩

theorem applyOther_files (s : State) (r : Rec) (c : Bool) : (applyOther s r c).1.files = s.files ∧ (applyOther s r c).1.opt = s.opt := by
  unfold applyOther
  split
  · exact ⟨rfl, rfl⟩
  · split
    · exact ⟨rfl, rfl⟩
    · split <;> exact ⟨rfl, rfl⟩

/-- recovery never writes: the files (and options) of the state are those it started from -/
theorem replay_files (rs : List (Rec × Nat × Nat)) (ids : List Nat) (s : State) :
    (replay s rs ids).1.files = s.files ∧ (replay s rs ids).1.opt = s.opt := by
  induction rs generalizing s with
  | nil => exact ⟨rfl, rfl⟩
  | cons x rest ih =>
    obtain ⟨r, fid, pos⟩ := x
    simp only [replay]
    split
    · exact ih s
    · split
      · have := ih (applyKV s { r with status := 1 } fid pos)
        exact this
      · split
        · exact ⟨rfl, rfl⟩
        · have h := applyOther_files s r false
          generalize applyOther s r false = p at h ⊢
          obtain ⟨s', o⟩ := p
          cases o with
          | ok u => simp only; have := ih s'; simp only at h; rw [h.1, h.2] at this; exact this
          | err => simp only; have := ih s'; simp only at h; rw [h.1, h.2] at this; exact this
          | panic => simpa using h


/-- the options of the state `Open` builds are the core of the options it was given -/
theorem openDB_opt (opt : Opts) (fs : List File) : (openDB opt fs).1.opt = opt.core := by
  unfold openDB
  simp only []
  split
  · rfl
  · split
    · rfl
    · exact (replay_files _ _ _).2

end NutsProofs.Replay
