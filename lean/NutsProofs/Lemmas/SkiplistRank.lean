/-
  NutsProofs.Lemmas.SkiplistRank — the queries of the skiplist that use spans or search loops: `FindRank`,
  `GetByRankRange` without removal, `GetByScoreRange` in both directions, for every level layout.
-/
import NutsProofs.Lemmas.SkiplistRefine
namespace NutsProofs.SkipL
open Nuts Nuts.Model Nuts.Model.Skiplist NutsProofs.ZOrd
open Nuts.Model.ZSetA (Node nlt)

/-! ### FindRank -/

/-- the search condition of `FindRank`: the forward node is not after `n` -/
def leNode (n : Node) (f : Node) : Bool := decide (f.score < n.score) || (decide (f.score = n.score) && ble f.key n.key)

theorem leNode_iff (n f : Node) : leNode n f = true ↔ Lt f n ∨ (f.score = n.score ∧ f.key = n.key) := by
  unfold leNode Lt ble
  constructor
  · intro h
    simp only [Bool.or_eq_true, decide_eq_true_eq, Bool.and_eq_true, bne_iff_ne, ne_eq] at h
    rcases h with h | ⟨h1, h2⟩
    · exact Or.inl (Or.inl h)
    · by_cases hlt : bcmp f.key n.key = .lt
      · exact Or.inl (Or.inr ⟨h1, hlt⟩)
      · by_cases heq : bcmp f.key n.key = .eq
        · exact Or.inr ⟨h1, (bcmp_eq_iff _ _).mp heq⟩
        · exfalso
          cases hc : bcmp f.key n.key with
          | lt => exact hlt hc
          | eq => exact heq hc
          | gt => exact h2 hc
  · intro h
    simp only [Bool.or_eq_true, decide_eq_true_eq, Bool.and_eq_true, bne_iff_ne, ne_eq]
    rcases h with (h | ⟨h1, h2⟩) | ⟨h1, h2⟩
    · exact Or.inl h
    · exact Or.inr ⟨h1, by rw [h2]; simp⟩
    · exact Or.inr ⟨h1, by rw [h2, bcmp_refl]; simp⟩

theorem findRankLoop_spec {s : SL} (h : OInv s) (j : Nat) (n : Node) (hj : (nodes s)[j]? = some n) :
    ∀ i, 1 ≤ i → i ≤ s.level → ∀ x, x < j + 2 → i ≤ heightOf s.all x →
      findRankLoop s.all n n.key i x (x : Int) = ((j + 1 : Nat) : Int) := by
  obtain ⟨hd, ts, eall, hhd⟩ := h.inv.hdr
  have hn : nodes s = ts.map (·.node) := by simp [nodes, eall]
  have hjl : j < (nodes s).length := (List.getElem?_eq_some_iff.mp hj).1
  have hxl : j + 1 < s.all.length := by rw [eall]; simp only [List.length_cons]; rw [hn] at hjl; simpa using hjl
  have hmono : ∀ a b, Lt a b → leNode n b = true → leNode n a = true := by
    intro a b hab hb
    rw [leNode_iff] at hb ⊢
    rcases hb with hb | ⟨h1, h2⟩
    · exact Or.inl (Lt_trans hab hb)
    · left
      unfold Lt at hab ⊢
      rw [← h1, ← h2]; exact hab
  obtain ⟨hst0, _, _⟩ := steers_of_sorted h.inv h.sorted hmono
  -- the cut is one past the position of `n`
  have hsortedG := h.sorted
  unfold Sorted at hsortedG
  rw [List.pairwise_iff_getElem] at hsortedG
  have hxn : (nodes s)[j] = n := by
    have := List.getElem?_eq_getElem hjl
    rw [hj] at this; exact (Option.some.inj this).symm
  have hcut : cutOf s (leNode n) = j + 2 := by
    have hp := prefix_iff h.sorted hmono
    have h1 : j < ((nodes s).takeWhile (leNode n)).length := (hp j n hj).mp ((leNode_iff n n).mpr (Or.inr ⟨rfl, rfl⟩))
    have h2 : ¬ j + 1 < ((nodes s).takeWhile (leNode n)).length := by
      intro hc
      have hl := takeWhile_append_dropWhile_len' (leNode n) (nodes s)
      have hg : (nodes s)[j + 1]? = some (nodes s)[j + 1] := List.getElem?_eq_getElem (by omega)
      have := (hp (j + 1) _ hg).mpr hc
      rw [leNode_iff] at this
      have hlt := hsortedG j (j + 1) hjl (by omega) (by omega)
      rw [hxn] at hlt
      rcases this with c | ⟨c1, c2⟩
      · have := Lt_trans hlt c
        unfold Lt at this
        rcases this with d | ⟨_, d⟩
        · omega
        · rw [bcmp_refl] at d; cases d
      · unfold Lt at hlt
        rcases hlt with d | ⟨_, d⟩
        · omega
        · rw [c2, bcmp_refl] at d; cases d
    simp only [cutOf]; omega
  rw [hcut] at hst0
  have hst : Steers s.all (fun _ f => decide (f.score < n.score) || (decide (f.score = n.score) && ble f.key n.key)) (j + 2) := hst0
  have hnode : nodeOf s.all (j + 1) = n := by rw [eall, nodeOf_succ, ← hn, hj]; rfl
  -- a tower below the cut that carries the key is the tower of `n`
  have hkey : ∀ x, 1 ≤ x → x < j + 2 → (nodeOf s.all x).key = n.key → x = j + 1 := by
    intro x hx1 hx2 hk
    obtain ⟨x', rfl⟩ : ∃ x', x = x' + 1 := ⟨x - 1, by omega⟩
    have hx'l : x' < (nodes s).length := by omega
    have hg : (nodes s)[x']? = some (nodes s)[x'] := List.getElem?_eq_getElem hx'l
    rw [eall, nodeOf_succ, ← hn, hg] at hk
    simp only [Option.getD_some] at hk
    have hkn := h.keys
    unfold List.Nodup at hkn
    rw [List.pairwise_iff_getElem] at hkn
    by_cases he : x' = j
    · omega
    · exfalso
      have hlt : x' < j := by omega
      have := hkn x' j (by simpa using hx'l) (by simpa using hjl) hlt
      simp only [List.getElem_map, hxn] at this
      exact this hk
  intro i
  induction i with
  | zero => intro h0; omega
  | succ i ih =>
    intro _ hil x hx hh
    simp only [findRankLoop]
    obtain ⟨w1, w2, w3, w4, w5⟩ := walk_spec h.inv.spans (show i < s.level by omega) hst (by omega) s.all.length x hx (by omega) (by omega)
    generalize hw : walk s.all i (fun _ f => decide (f.score < n.score) || (decide (f.score = n.score) && ble f.key n.key)) s.all.length x (x : Int) = w at w1 w2 w3 w4 w5
    obtain ⟨x', r'⟩ := w
    simp only at w1 w2 w3 w4 w5 ⊢
    subst w1
    by_cases hc : x' ≠ 0 ∧ (nodeOf s.all x').key = n.key
    · rw [if_pos hc]
      have := hkey x' (by omega) w3 hc.2
      rw [this]
    · rw [if_neg hc]
      cases i with
      | zero =>
        -- level 0: every tower has it, so the loop stops on the tower of `n`
        exfalso
        have hx' : x' = j + 1 := by
          apply Decidable.byContradiction
          intro hne
          have := w5 (j + 1) (by omega) (by omega)
          have := h.inv.heightPos hxl
          omega
        exact hc ⟨by omega, by rw [hx', hnode]⟩
      | succ i' => exact ih (by omega) (by omega) x' w3 (by omega)

theorem findRank_refines {s : SL} (h : OInv s) (k : Bytes) :
    findRank s k = ((ZSetA.rankOf (nodes s) k : Nat) : Int) := by
  unfold findRank ZSetA.rankOf
  rw [find_eq]
  cases hf : ZSetA.find? (nodes s) k with
  | none =>
    have hfresh := find_none_fresh hf
    have : (nodes s).findIdx? (fun x => decide (x.key = k)) = none := by
      rw [List.findIdx?_eq_none_iff]
      intro x hx
      simpa using hfresh x hx
    simp [this]
  | some n =>
    obtain ⟨hnk, j, hj⟩ := find_some_idx hf
    -- `find?` returns the first node with the key: its index is what `findIdx?` returns
    have hidx : (nodes s).findIdx? (fun x => decide (x.key = k)) = some j := by
      rw [List.findIdx?_eq_some_iff_getElem]
      have hjl : j < (nodes s).length := (List.getElem?_eq_some_iff.mp hj).1
      refine ⟨hjl, ?_, ?_⟩
      · have := List.getElem?_eq_getElem hjl
        rw [hj] at this
        rw [← (Option.some.inj this)]; simpa using hnk
      · intro j' hj'
        have hkn := h.keys
        unfold List.Nodup at hkn
        rw [List.pairwise_iff_getElem] at hkn
        have := hkn j' j (by simp; omega) (by simpa using hjl) hj'
        have hxn : (nodes s)[j] = n := by
          have := List.getElem?_eq_getElem hjl
          rw [hj] at this; exact (Option.some.inj this).symm
        simp only [List.getElem_map, hxn, hnk] at this
        simpa using this
    simp only [hidx]
    have := findRankLoop_spec h j n hj s.level h.inv.lvl.1 (Nat.le_refl _) 0 (by omega) (by rw [h.inv.height0]; exact h.inv.lvl.2)
    rw [hnk] at this
    exact this

/-! ### GetByRankRange without removal -/

theorem sanitize_pos (a b : Int) (len : Nat) (ha : inRange64 a) (hb : inRange64 b) (hn : (len : Int) < 4611686018427387904) :
    1 ≤ (ZSetA.sanitize len a b).1 ∧ 1 ≤ (ZSetA.sanitize len a b).2 := by
  have : ∃ x y, (NutsGen.K.zset_sanitizeIndexes.run a b len len).vals = [x, y] ∧ 1 ≤ x ∧ 1 ≤ y := by
    unfold NutsGen.K.zset_sanitizeIndexes.run wrap64 inRange64 at *
    repeat' split
    all_goals exact ⟨_, _, rfl, by omega, by omega⟩
  obtain ⟨x, y, e, hx, hy⟩ := this
  unfold ZSetA.sanitize
  rw [e]
  exact ⟨hx, hy⟩

theorem steers_rank (all : List Tower) (lo : Int) (hlo : 1 ≤ lo) :
    Steers all (fun t2 _ => decide (t2 < lo)) (min lo.toNat all.length) := by
  intro q _ hql
  simp only [decide_eq_true_eq]
  omega

theorem rankDescend_ro {s : SL} (hinv : Inv s) (lo : Int) (hlo : 1 ≤ lo) (upd : List Nat) :
    ∀ i, 1 ≤ i → i ≤ s.level → ∀ x, x < min lo.toNat s.all.length → i ≤ heightOf s.all x →
      rankDescend s.all lo false i x (x : Int) upd =
        (min lo.toNat s.all.length - 1, ((min lo.toNat s.all.length - 1 : Nat) : Int), upd) := by
  have hst := steers_rank s.all lo hlo
  have hcl : min lo.toNat s.all.length ≤ s.all.length := Nat.min_le_right _ _
  intro i
  induction i with
  | zero => intro h0; omega
  | succ i ih =>
    intro _ hil x hx hh
    simp only [rankDescend]
    obtain ⟨w1, w2, w3, w4, w5⟩ := walk_spec hinv.spans (show i < s.level by omega) hst hcl s.all.length x hx (by omega) (by omega)
    generalize hw : walk s.all i (fun t2 _ => decide (t2 < lo)) s.all.length x (x : Int) = w at w1 w2 w3 w4 w5
    obtain ⟨x', r'⟩ := w
    simp only at w1 w2 w3 w4 w5 ⊢
    subst w1
    simp only [Bool.false_eq_true, if_false]
    by_cases hb : (x' : Int) + 1 = lo
    · rw [if_pos hb]
      have : x' = min lo.toNat s.all.length - 1 := by omega
      rw [← this]
    · rw [if_neg hb]
      cases i with
      | zero =>
        simp only [rankDescend]
        have hx' : x' = min lo.toNat s.all.length - 1 := by
          apply Decidable.byContradiction
          intro hne
          have := w5 (min lo.toNat s.all.length - 1) (by omega) (by omega)
          have := hinv.heightPos (q := min lo.toNat s.all.length - 1) (by omega)
          omega
        rw [← hx']
      | succ i' => exact ih (by omega) (by omega) x' w3 (by omega)

theorem collect_ro {s : SL} (hinv : Inv s) (upd : List Nat) (hi : Int) :
    ∀ fuel cur acc, 1 ≤ cur → s.all.length ≤ fuel + cur →
      collect false upd hi fuel s cur (cur : Int) acc =
        (s, acc ++ ((nodes s).drop (cur - 1)).take (hi - cur + 1).toNat) := by
  obtain ⟨hd, ts, eall, _⟩ := hinv.hdr
  have hn : nodes s = ts.map (·.node) := by simp [nodes, eall]
  have hlen : s.all.length = (nodes s).length + 1 := by rw [eall, hn]; simp
  intro fuel
  induction fuel with
  | zero =>
    intro cur acc h1 hf
    simp only [collect]
    have : (nodes s).drop (cur - 1) = [] := List.drop_of_length_le (by omega)
    rw [this]; simp
  | succ fuel ih =>
    intro cur acc h1 hf
    simp only [collect]
    by_cases hc : cur < s.all.length ∧ (cur : Int) ≤ hi
    · rw [if_pos hc]
      simp only [Bool.false_eq_true, if_false]
      have := ih (cur + 1) (acc ++ [nodeOf s.all cur]) (by omega) (by omega)
      have e : ((cur + 1 : Nat) : Int) = (cur : Int) + 1 := by omega
      rw [e] at this
      rw [this]
      congr 1
      rw [List.append_assoc]
      congr 1
      obtain ⟨c', rfl⟩ : ∃ c', cur = c' + 1 := ⟨cur - 1, by omega⟩
      have hc'l : c' < (nodes s).length := by omega
      have hnode : nodeOf s.all (c' + 1) = (nodes s)[c'] := by
        rw [eall, nodeOf_succ, ← hn, List.getElem?_eq_getElem hc'l]; rfl
      rw [hnode]
      have e1 : c' + 1 - 1 = c' := by omega
      have e2 : c' + 1 + 1 - 1 = c' + 1 := by omega
      rw [e1, e2, List.drop_eq_getElem_cons hc'l]
      obtain ⟨m, hm⟩ : ∃ m, (hi - ((c' + 1 : Nat) : Int) + 1).toNat = m + 1 := ⟨(hi - ((c' + 1 : Nat) : Int) + 1).toNat - 1, by omega⟩
      have hm' : (hi - (((c' + 1 : Nat) : Int) + 1) + 1).toNat = m := by omega
      rw [hm, List.take_succ_cons]
      simp only [List.singleton_append, List.cons.injEq, true_and]
      rw [hm']
    · rw [if_neg hc]
      by_cases hcl : cur < s.all.length
      · have : (hi - (cur : Int) + 1).toNat = 0 := by omega
        rw [this]; simp
      · have : (nodes s).drop (cur - 1) = [] := List.drop_of_length_le (by omega)
        rw [this]; simp

/-- **`GetByRankRange(start, end, false)`** returns the members whose ranks lie between the sanitized bounds,
in the order the list query returns them, and leaves the structure as it is -/
theorem getByRankRange_ro_refines {s : SL} (h : OInv s) (a b : Int)
    (hpos : 1 ≤ (ZSetA.sanitize s.length.toNat a b).1 ∧ 1 ≤ (ZSetA.sanitize s.length.toNat a b).2) :
    (getByRankRange s a b false).1 = s ∧
    (getByRankRange s a b false).2 = (ZSetA.getByRankRange (nodes s) a b false).1 := by
  obtain ⟨hd, ts, eall, _⟩ := h.inv.hdr
  have hn : nodes s = ts.map (·.node) := by simp [nodes, eall]
  have hlen : s.all.length = (nodes s).length + 1 := by rw [eall, hn]; simp
  have hlenS : s.length.toNat = (nodes s).length := by rw [h.inv.len]; omega
  unfold getByRankRange ZSetA.getByRankRange
  rw [hlenS] at hpos ⊢
  generalize hsan : ZSetA.sanitize (nodes s).length a b = ab at hpos
  obtain ⟨a', b'⟩ := ab
  simp only at hpos ⊢
  generalize hlo : (if decide (a' > b') = true then (b', a') else (a', b')) = lohi
  obtain ⟨lo, hi⟩ := lohi
  have hlo1 : 1 ≤ lo := by
    by_cases hr : a' > b'
    · simp [hr] at hlo; omega
    · simp [hr] at hlo; omega
  simp only
  have hrd := rankDescend_ro h.inv lo hlo1 [] s.level h.inv.lvl.1 (Nat.le_refl _) 0 (by omega) (by rw [h.inv.height0]; exact h.inv.lvl.2)
  have e0 : ((0 : Nat) : Int) = 0 := rfl
  rw [e0] at hrd
  rw [hrd]
  simp only
  have hc1 : 1 ≤ min lo.toNat s.all.length := by omega
  have e1 : min lo.toNat s.all.length - 1 + 1 = min lo.toNat s.all.length := by omega
  have e2 : ((min lo.toNat s.all.length - 1 : Nat) : Int) + 1 = ((min lo.toNat s.all.length : Nat) : Int) := by omega
  rw [e1, e2, collect_ro h.inv [] hi s.all.length (min lo.toNat s.all.length) [] hc1 (by omega)]
  simp only [List.nil_append]
  refine ⟨by first | rfl | trivial, ?_⟩
  have hsel : ((nodes s).drop (min lo.toNat s.all.length - 1)).take (hi - ((min lo.toNat s.all.length : Nat) : Int) + 1).toNat =
      ((nodes s).drop (lo - 1).toNat).take (hi - lo + 1).toNat := by
    by_cases hle : lo.toNat ≤ s.all.length
    · have : min lo.toNat s.all.length = lo.toNat := Nat.min_eq_left hle
      rw [this]
      have e3 : lo.toNat - 1 = (lo - 1).toNat := by omega
      have e4 : ((lo.toNat : Nat) : Int) = lo := by omega
      rw [e3, e4]
    · have : min lo.toNat s.all.length = s.all.length := Nat.min_eq_right (by omega)
      rw [this]
      have d1 : (nodes s).drop (s.all.length - 1) = [] := List.drop_of_length_le (by omega)
      have d2 : (nodes s).drop (lo - 1).toNat = [] := List.drop_of_length_le (by omega)
      rw [d1, d2]; simp
  rw [hsel]

/-! ### GetByScoreRange -/

theorem walk_fst_indep (all : List Tower) (i : Nat) (P : Node → Bool) :
    ∀ fuel x r r', (walk all i (fun _ f => P f) fuel x r).1 = (walk all i (fun _ f => P f) fuel x r').1 := by
  intro fuel
  induction fuel with
  | zero => intro x r r'; rfl
  | succ fuel ih =>
    intro x r r'
    simp only [walk]
    cases fwd all x i with
    | none => rfl
    | some q =>
      simp only
      by_cases hp : P (nodeOf all q) = true
      · simp only [hp, if_true]; exact ih q _ _
      · simp only [hp]; rfl

theorem plainDescend_spec {s : SL} (hinv : Inv s) (P : Node → Bool) (c : Nat) (hc1 : 1 ≤ c) (hcl : c ≤ s.all.length)
    (hst : Steers s.all (fun _ f => P f) c) :
    ∀ i, 1 ≤ i → i ≤ s.level → ∀ x, x < c → i ≤ heightOf s.all x → plainDescend s.all P i x = c - 1 := by
  intro i
  induction i with
  | zero => intro h0; omega
  | succ i ih =>
    intro _ hil x hx hh
    simp only [plainDescend]
    rw [walk_fst_indep s.all i P s.all.length x 0 (x : Int)]
    obtain ⟨w1, w2, w3, w4, w5⟩ := walk_spec hinv.spans (show i < s.level by omega) hst hcl s.all.length x hx (by omega) (by omega)
    generalize hw : walk s.all i (fun _ f => P f) s.all.length x (x : Int) = w at w1 w2 w3 w4 w5
    obtain ⟨x', r'⟩ := w
    simp only at w1 w2 w3 w4 w5 ⊢
    cases i with
    | zero =>
      simp only [plainDescend]
      apply Decidable.byContradiction
      intro hne
      have := w5 (c - 1) (by omega) (by omega)
      have := hinv.heightPos (q := c - 1) (by omega)
      omega
    | succ i' => exact ih (by omega) (by omega) x' w3 (by omega)

theorem forwardLoop_spec {s : SL} (hinv : Inv s) (stop : Node → Bool) :
    ∀ fuel cur limit acc, 1 ≤ cur → s.all.length ≤ fuel + cur →
      forwardLoop s.all stop fuel cur limit acc =
        acc ++ (((nodes s).drop (cur - 1)).takeWhile (fun n => !stop n)).take limit := by
  obtain ⟨hd, ts, eall, _⟩ := hinv.hdr
  have hn : nodes s = ts.map (·.node) := by simp [nodes, eall]
  have hlen : s.all.length = (nodes s).length + 1 := by rw [eall, hn]; simp
  intro fuel
  induction fuel with
  | zero =>
    intro cur limit acc h1 hf
    simp only [forwardLoop]
    have : (nodes s).drop (cur - 1) = [] := List.drop_of_length_le (by omega)
    rw [this]; simp
  | succ fuel ih =>
    intro cur limit acc h1 hf
    simp only [forwardLoop]
    by_cases hc : cur < s.all.length ∧ limit > 0
    · rw [if_pos hc]
      obtain ⟨c', rfl⟩ : ∃ c', cur = c' + 1 := ⟨cur - 1, by omega⟩
      have hc'l : c' < (nodes s).length := by omega
      have hnode : nodeOf s.all (c' + 1) = (nodes s)[c'] := by
        rw [eall, nodeOf_succ, ← hn, List.getElem?_eq_getElem hc'l]; rfl
      have e1 : c' + 1 - 1 = c' := by omega
      rw [hnode, e1, List.drop_eq_getElem_cons hc'l]
      obtain ⟨l', rfl⟩ : ∃ l', limit = l' + 1 := ⟨limit - 1, by omega⟩
      have el : l' + 1 - 1 = l' := by omega
      by_cases hs : stop (nodes s)[c'] = true
      · rw [if_pos hs, List.takeWhile_cons]
        simp [hs]
      · rw [if_neg hs, el, ih (c' + 1 + 1) l' _ (by omega) (by omega)]
        have e2 : c' + 1 + 1 - 1 = c' + 1 := by omega
        rw [e2, List.takeWhile_cons]
        simp [hs]
    · rw [if_neg hc]
      by_cases hcl : cur < s.all.length
      · have : limit = 0 := by omega
        rw [this]; simp
      · have : (nodes s).drop (cur - 1) = [] := List.drop_of_length_le (by omega)
        rw [this]; simp

theorem backwardLoop_spec {s : SL} (hinv : Inv s) (stop : Node → Bool) :
    ∀ fuel cur limit acc, cur ≤ fuel → cur < s.all.length →
      backwardLoop s.all stop fuel cur limit acc =
        acc ++ (((nodes s).take cur).reverse.takeWhile (fun n => !stop n)).take limit := by
  obtain ⟨hd, ts, eall, _⟩ := hinv.hdr
  have hn : nodes s = ts.map (·.node) := by simp [nodes, eall]
  have hlen : s.all.length = (nodes s).length + 1 := by rw [eall, hn]; simp
  intro fuel
  induction fuel with
  | zero =>
    intro cur limit acc h1 _
    have : cur = 0 := by omega
    subst this
    simp [backwardLoop]
  | succ fuel ih =>
    intro cur limit acc h1 hcl
    simp only [backwardLoop]
    by_cases hc : cur ≥ 1 ∧ limit > 0
    · rw [if_pos hc]
      obtain ⟨c', rfl⟩ : ∃ c', cur = c' + 1 := ⟨cur - 1, by omega⟩
      have hc'l : c' < (nodes s).length := by omega
      have hnode : nodeOf s.all (c' + 1) = (nodes s)[c'] := by
        rw [eall, nodeOf_succ, ← hn, List.getElem?_eq_getElem hc'l]; rfl
      have htake : ((nodes s).take (c' + 1)).reverse = (nodes s)[c'] :: ((nodes s).take c').reverse := by
        rw [List.take_succ, List.getElem?_eq_getElem hc'l]
        simp
      rw [hnode, htake]
      obtain ⟨l', rfl⟩ : ∃ l', limit = l' + 1 := ⟨limit - 1, by omega⟩
      have el : l' + 1 - 1 = l' := by omega
      by_cases hs : stop (nodes s)[c'] = true
      · rw [if_pos hs, List.takeWhile_cons]
        simp [hs]
      · have e1 : c' + 1 - 1 = c' := by omega
        rw [if_neg hs, el, e1, ih c' l' _ (by omega) (by omega), List.takeWhile_cons]
        simp [hs]
    · rw [if_neg hc]
      by_cases hc0 : cur = 0
      · subst hc0; simp
      · have : limit = 0 := by omega
        rw [this]; simp

theorem dec_lt_not_le (a b : Int) : decide (a < b) = !decide (b ≤ a) := by
  by_cases h : a < b
  · have : ¬ b ≤ a := by omega
    simp [h, this]
  · have : b ≤ a := by omega
    simp [h, this]

theorem dec_le_not_lt (a b : Int) : decide (a ≤ b) = !decide (b < a) := by
  by_cases h : a ≤ b
  · have : ¬ b < a := by omega
    simp [h, this]
  · have : b < a := by omega
    simp [h, this]

/-- a predicate on the score alone is downward closed along the (score, key) order when it is downward closed
in the score -/
theorem score_mono {P : Node → Bool} (hP : ∀ a b : Node, a.score ≤ b.score → P b = true → P a = true) :
    ∀ a b, Lt a b → P b = true → P a = true := by
  intro a b hab hb
  apply hP a b _ hb
  unfold Lt at hab
  rcases hab with h | ⟨h, _⟩ <;> omega

/-- **`GetByScoreRange`**, both directions, exclusive bounds and limit: what the list query returns -/
theorem getByScoreRange_refines {s : SL} (h : OInv s) (a b limit : Int) (exA exB : Bool) :
    getByScoreRange s a b limit exA exB = ZSetA.getByScoreRange (nodes s) a b limit exA exB := by
  obtain ⟨hd, ts, eall, _⟩ := h.inv.hdr
  have hn : nodes s = ts.map (·.node) := by simp [nodes, eall]
  have hlen : s.all.length = (nodes s).length + 1 := by rw [eall, hn]; simp
  unfold getByScoreRange ZSetA.getByScoreRange
  simp only
  generalize hq : (if decide (a > b) = true then (b, a, exB, exA) else (a, b, exA, exB)) = q
  obtain ⟨lo, hi, exLo, exHi⟩ := q
  simp only
  by_cases hemp : s.length = 0
  · have : (nodes s).isEmpty = true := by
      have := h.inv.len
      rw [hemp] at this
      have : (nodes s).length = 0 := by omega
      simpa using this
    simp [hemp, this]
  · have hne : (nodes s).isEmpty = false := by
      have := h.inv.len
      cases hns : nodes s with
      | nil => rw [hns] at hlen; simp at hlen; omega
      | cons _ _ => rfl
    rw [if_neg hemp, hne]
    simp only [Bool.false_eq_true, if_false]
    by_cases hrev : decide (a > b) = true
    · -- reverse
      simp only [hrev, Bool.not_true, Bool.false_eq_true, if_false]
      let P : Node → Bool := fun f => if exHi = true then decide (f.score < hi) else decide (f.score ≤ hi)
      have hmono := score_mono (P := P) (by
        intro x y hxy hy
        simp only [P] at hy ⊢
        split at hy <;> simp_all <;> omega)
      obtain ⟨hst, hc1, hcl⟩ := steers_of_sorted h.inv h.sorted hmono
      have hpd := plainDescend_spec h.inv P (cutOf s P) hc1 hcl hst s.level h.inv.lvl.1 (Nat.le_refl _) 0 (by omega)
        (by rw [h.inv.height0]; exact h.inv.lvl.2)
      rw [hpd]
      have hcut : cutOf s P - 1 = ((nodes s).takeWhile P).length := by simp [cutOf]
      rw [hcut]
      have htw := (takeWhile_append_dropWhile_len P (nodes s)).1
      by_cases hz : ((nodes s).takeWhile P).length = 0
      · rw [if_pos hz]
        have : (nodes s).takeWhile P = [] := List.length_eq_zero_iff.mp hz
        simp only [P] at this
        rw [this]; simp
      · rw [if_neg hz, backwardLoop_spec h.inv _ s.all.length _ _ [] (by have := takeWhile_append_dropWhile_len' P (nodes s); omega)
          (by have := takeWhile_append_dropWhile_len' P (nodes s); omega)]
        rw [← htw]
        simp only [List.nil_append, P]
        congr 1
        apply takeWhile_congr
        intro x _
        cases exLo <;> simp
        · exact dec_lt_not_le _ _
        · exact dec_le_not_lt _ _
    · -- forward
      simp only [hrev, Bool.not_false, if_true]
      let P : Node → Bool := fun f => if exLo = true then decide (f.score ≤ lo) else decide (f.score < lo)
      have hmono := score_mono (P := P) (by
        intro x y hxy hy
        simp only [P] at hy ⊢
        split at hy <;> simp_all <;> omega)
      obtain ⟨hst, hc1, hcl⟩ := steers_of_sorted h.inv h.sorted hmono
      have hpd := plainDescend_spec h.inv P (cutOf s P) hc1 hcl hst s.level h.inv.lvl.1 (Nat.le_refl _) 0 (by omega)
        (by rw [h.inv.height0]; exact h.inv.lvl.2)
      rw [hpd]
      have hcut : cutOf s P - 1 + 1 = cutOf s P := by omega
      rw [hcut, forwardLoop_spec h.inv _ s.all.length _ _ [] hc1 (by omega)]
      have hcut2 : cutOf s P - 1 = ((nodes s).takeWhile P).length := by simp [cutOf]
      rw [hcut2, ← (takeWhile_append_dropWhile_len P (nodes s)).2]
      simp only [List.nil_append, P]
      congr 1
      apply takeWhile_congr
      intro x _
      cases exHi <;> simp
      · exact dec_lt_not_le _ _
      · exact dec_le_not_lt _ _

/-! ### GetByRankRange with removal -/

theorem rankDescend_rm {s : SL} (hinv : Inv s) (lo : Int) (hlo : 1 ≤ lo) :
    ∀ i, i ≤ s.level → ∀ x, x < min lo.toNat s.all.length → i ≤ heightOf s.all x → ∀ upd0,
      ∃ ups, (rankDescend s.all lo true i x (x : Int) upd0).2.2 = ups ++ upd0 ∧ ups.length = i ∧
        (∀ j, j < i → IsUpd s.all (min lo.toNat s.all.length) j (ups.getD j 0) ((ups.getD j 0 : Nat) : Int)) ∧
        x ≤ (rankDescend s.all lo true i x (x : Int) upd0).1 ∧
        (rankDescend s.all lo true i x (x : Int) upd0).1 < min lo.toNat s.all.length ∧
        (1 ≤ i → (rankDescend s.all lo true i x (x : Int) upd0).1 = min lo.toNat s.all.length - 1) ∧
        (i = 0 → (rankDescend s.all lo true i x (x : Int) upd0).1 = x) ∧
        (rankDescend s.all lo true i x (x : Int) upd0).2.1 = ((rankDescend s.all lo true i x (x : Int) upd0).1 : Int) := by
  have hst := steers_rank s.all lo hlo
  have hcl : min lo.toNat s.all.length ≤ s.all.length := Nat.min_le_right _ _
  intro i
  induction i with
  | zero =>
    intro _ x hx _ upd0
    exact ⟨[], rfl, rfl, fun j hj => by omega, Nat.le_refl _, hx, fun h => by omega, fun _ => rfl, rfl⟩
  | succ i ih =>
    intro hil x hx hh upd0
    simp only [rankDescend]
    obtain ⟨w1, w2, w3, w4, w5⟩ := walk_spec hinv.spans (show i < s.level by omega) hst hcl s.all.length x hx (by omega) (by omega)
    generalize hw : walk s.all i (fun t2 _ => decide (t2 < lo)) s.all.length x (x : Int) = w at w1 w2 w3 w4 w5
    obtain ⟨x', r'⟩ := w
    simp only at w1 w2 w3 w4 w5 ⊢
    subst w1
    simp only [if_true]
    obtain ⟨ups, e1, e2, e3, e4, e5, e6, e7, e8⟩ := ih (by omega) x' w3 (by omega) (x' :: upd0)
    refine ⟨ups ++ [x'], by rw [e1]; simp, by simp [e2], ?_, by omega, e5, ?_, fun h => by omega, e8⟩
    · intro j hj
      by_cases hji : j < i
      · have : (ups ++ [x']).getD j 0 = ups.getD j 0 := by
          simp only [List.getD_eq_getElem?_getD]
          rw [List.getElem?_append_left (by omega)]
        rw [this]; exact e3 j hji
      · have hje : j = i := by omega
        subst hje
        have : (ups ++ [x']).getD j 0 = x' := by
          simp only [List.getD_eq_getElem?_getD]
          rw [List.getElem?_append_right (by omega)]
          simp [e2]
        rw [this]
        exact ⟨rfl, w3, w4, w5⟩
    · intro _
      cases i with
      | zero =>
        rw [e7 rfl]
        apply Decidable.byContradiction
        intro hne
        have := w5 (min lo.toNat s.all.length - 1) (by omega) (by omega)
        have := hinv.heightPos (q := min lo.toNat s.all.length - 1) (by omega)
        omega
      | succ i' => exact e6 (by omega)

theorem deleteNode_height_below (s : SL) (xp : Nat) (upd : List Nat) (q : Nat) (hq : q < xp) :
    heightOf (deleteNode s xp upd).all q = heightOf s.all q := by
  rw [deleteNode_eq]
  simp only [heightOf, List.getElem?_eraseIdx, hq, if_true, mapSpans_get]
  cases s.all[q]? <;> simp

theorem oinv_deleteNode {s : SL} (h : OInv s) (xp : Nat) (hx1 : 1 ≤ xp) (hxl : xp < s.all.length) (upd : List Nat)
    (hU : ∀ i, i < s.level → IsUpd s.all xp i (upd.getD i 0) ((upd.getD i 0 : Nat) : Int)) :
    OInv (deleteNode s xp upd) ∧ nodes (deleteNode s xp upd) = (nodes s).eraseIdx (xp - 1) ∧
    (deleteNode s xp upd).level ≤ s.level := by
  obtain ⟨hinv', hnodes'⟩ := delete_inv h.inv xp hx1 hxl upd hU
  have e1 : ∀ s' : SL, nodes s' = (s'.all.map (·.node)).tail := by intro s'; simp [nodes, List.map_tail]
  obtain ⟨x', rfl⟩ : ∃ x', xp = x' + 1 := ⟨xp - 1, by omega⟩
  have herase : nodes (deleteNode s (x' + 1) upd) = (nodes s).eraseIdx x' := by
    rw [e1, hnodes', nodes_of_all h.inv, List.eraseIdx_cons_succ, List.tail_cons]
  have hsub : ((nodes s).eraseIdx x').Sublist (nodes s) := List.eraseIdx_sublist _ _
  refine ⟨⟨hinv', ?_, ?_⟩, by simpa using herase, ?_⟩
  · rw [herase]; exact List.Pairwise.sublist hsub h.sorted
  · rw [herase]; exact List.Nodup.sublist (List.Sublist.map _ hsub) h.keys
  · rw [deleteNode_eq]
    simp only
    have hb : ∀ t ∈ ((mapSpans s.all (delF s (x' + 1) upd)).eraseIdx (x' + 1)).drop 1, t.spans.length ≤ s.level := by
      intro t ht
      have := hinv'.hts t
      rw [deleteNode_eq] at this
      simp only at this
      have hle := (shrink_spec ((mapSpans s.all (delF s (x' + 1) upd)).eraseIdx (x' + 1)) s.level h.inv.lvl.1 ?_).2.1
      · exact Nat.le_trans (this (by simpa [List.drop_one] using ht)).2 hle
      · intro t' ht'
        rw [List.mem_iff_getElem?] at ht'
        obtain ⟨j, hj⟩ := ht'
        rw [List.getElem?_drop, List.getElem?_eraseIdx] at hj
        by_cases hlt : 1 + j < x' + 1
        · rw [if_pos hlt, mapSpans_get] at hj
          cases hg : s.all[1 + j]? with
          | none => simp [hg] at hj
          | some t0 =>
            simp only [hg, Option.map_some, Option.some.injEq] at hj
            subst hj
            simp only [List.length_mapIdx]
            have hjl : 1 + j < s.all.length := (List.getElem?_eq_some_iff.mp hg).1
            have := h.inv.heightLe (q := 1 + j) (by omega) hjl
            rwa [heightOf_eq hg] at this
        · rw [if_neg hlt, mapSpans_get] at hj
          cases hg : s.all[1 + j + 1]? with
          | none => simp [hg] at hj
          | some t0 =>
            simp only [hg, Option.map_some, Option.some.injEq] at hj
            subst hj
            simp only [List.length_mapIdx]
            have hjl : 1 + j + 1 < s.all.length := (List.getElem?_eq_some_iff.mp hg).1
            have := h.inv.heightLe (q := 1 + j + 1) (by omega) hjl
            rwa [heightOf_eq hg] at this
    exact (shrink_spec _ s.level h.inv.lvl.1 hb).2.1

/-- `update[]` computed once stays right while the towers at the cut are removed one after the other -/
theorem collect_rm (upd : List Nat) (hi : Int) (c : Nat) (hc1 : 1 ≤ c) :
    ∀ fuel (s : SL) (t : Int) acc, OInv s → s.all.length ≤ fuel + c →
      (∀ i, i < s.level → IsUpd s.all c i (upd.getD i 0) ((upd.getD i 0 : Nat) : Int)) →
      OInv (collect true upd hi fuel s c t acc).1 ∧
      (collect true upd hi fuel s c t acc).2 = acc ++ ((nodes s).drop (c - 1)).take (hi - t + 1).toNat ∧
      nodes (collect true upd hi fuel s c t acc).1 = (nodes s).take (c - 1) ++ (nodes s).drop (c - 1 + (hi - t + 1).toNat) := by
  intro fuel
  induction fuel with
  | zero =>
    intro s t acc h hf _
    simp only [collect]
    obtain ⟨hd, ts, eall, _⟩ := h.inv.hdr
    have hlen : s.all.length = (nodes s).length + 1 := by simp [nodes, eall]
    have d1 : (nodes s).drop (c - 1) = [] := List.drop_of_length_le (by omega)
    have d2 : (nodes s).drop (c - 1 + (hi - t + 1).toNat) = [] := List.drop_of_length_le (by omega)
    have d3 : (nodes s).take (c - 1) = nodes s := List.take_of_length_le (by omega)
    rw [d1, d2, d3]; simp [h]
  | succ fuel ih =>
    intro s t acc h hf hU
    obtain ⟨hd, ts, eall, _⟩ := h.inv.hdr
    have hn : nodes s = ts.map (·.node) := by simp [nodes, eall]
    have hlen : s.all.length = (nodes s).length + 1 := by rw [eall, hn]; simp
    simp only [collect]
    by_cases hc : c < s.all.length ∧ t ≤ hi
    · rw [if_pos hc]
      simp only [if_true]
      obtain ⟨ho', hn', hlv'⟩ := oinv_deleteNode h c hc1 hc.1 upd hU
      have hU' : ∀ i, i < (deleteNode s c upd).level → IsUpd (deleteNode s c upd).all c i (upd.getD i 0) ((upd.getD i 0 : Nat) : Int) := by
        intro i hi'
        obtain ⟨a1, a2, a3, a4⟩ := hU i (by omega)
        refine ⟨a1, a2, ?_, ?_⟩
        · rw [deleteNode_height_below s c upd _ a2]; exact a3
        · intro q hq1 hq2
          rw [deleteNode_height_below s c upd _ hq2]; exact a4 q hq1 hq2
      have hlen' : (deleteNode s c upd).all.length = s.all.length - 1 := by
        rw [deleteNode_eq]; simp only [List.length_eraseIdx, mapSpans_length, hc.1, if_true]
      obtain ⟨r1, r2, r3⟩ := ih (deleteNode s c upd) (t + 1) (acc ++ [nodeOf s.all c]) ho' (by omega) hU'
      refine ⟨r1, ?_, ?_⟩
      · rw [r2, hn']
        obtain ⟨c', rfl⟩ : ∃ c', c = c' + 1 := ⟨c - 1, by omega⟩
        have hc'l : c' < (nodes s).length := by omega
        have hnode : nodeOf s.all (c' + 1) = (nodes s)[c'] := by
          rw [eall, nodeOf_succ, ← hn, List.getElem?_eq_getElem hc'l]; rfl
        have e1 : c' + 1 - 1 = c' := by omega
        obtain ⟨m, hm⟩ : ∃ m, (hi - t + 1).toNat = m + 1 := ⟨(hi - t + 1).toNat - 1, by omega⟩
        have hm' : (hi - (t + 1) + 1).toNat = m := by omega
        rw [hnode, e1, hm, hm', List.drop_eq_getElem_cons hc'l, List.take_succ_cons, List.append_assoc]
        congr 2
        rw [List.eraseIdx_eq_take_drop_succ, List.drop_append]
        have : (List.take c' (nodes s)).length = c' := by simp [List.length_take]; omega
        simp [this]
      · rw [r3, hn']
        obtain ⟨c', rfl⟩ : ∃ c', c = c' + 1 := ⟨c - 1, by omega⟩
        have hc'l : c' < (nodes s).length := by omega
        have e1 : c' + 1 - 1 = c' := by omega
        obtain ⟨m, hm⟩ : ∃ m, (hi - t + 1).toNat = m + 1 := ⟨(hi - t + 1).toNat - 1, by omega⟩
        have hm' : (hi - (t + 1) + 1).toNat = m := by omega
        rw [e1, hm, hm', List.eraseIdx_eq_take_drop_succ]
        have hl : (List.take c' (nodes s)).length = c' := by simp [List.length_take]; omega
        rw [List.take_append, List.drop_append, hl]
        simp only [Nat.sub_self, List.take_zero, List.append_nil]
        have t1 : List.take c' (List.take c' (nodes s)) = List.take c' (nodes s) := by rw [List.take_take, Nat.min_self]
        have t2 : List.drop (c' + m) (List.take c' (nodes s)) = [] := List.drop_of_length_le (by omega)
        rw [t1, t2, List.nil_append, List.drop_drop]
        congr 2
        omega
    · rw [if_neg hc]
      refine ⟨h, ?_, ?_⟩
      · by_cases hcl : c < s.all.length
        · have : (hi - t + 1).toNat = 0 := by omega
          rw [this]; simp
        · have : (nodes s).drop (c - 1) = [] := List.drop_of_length_le (by omega)
          rw [this]; simp
      · by_cases hcl : c < s.all.length
        · have : (hi - t + 1).toNat = 0 := by omega
          rw [this]; simp
        · have d2 : (nodes s).drop (c - 1 + (hi - t + 1).toNat) = [] := List.drop_of_length_le (by omega)
          have d3 : (nodes s).take (c - 1) = nodes s := List.take_of_length_le (by omega)
          rw [d2, d3]; simp

/-- **`GetByRankRange(start, end, true)`** removes exactly the members whose ranks lie between the sanitized
bounds, returns them in the order the list query does, and leaves a well-formed skiplist -/
theorem getByRankRange_rm_refines {s : SL} (h : OInv s) (a b : Int)
    (hpos : 1 ≤ (ZSetA.sanitize s.length.toNat a b).1 ∧ 1 ≤ (ZSetA.sanitize s.length.toNat a b).2) :
    OInv (getByRankRange s a b true).1 ∧
    nodes (getByRankRange s a b true).1 = (ZSetA.getByRankRange (nodes s) a b true).2 ∧
    (getByRankRange s a b true).2 = (ZSetA.getByRankRange (nodes s) a b true).1 := by
  obtain ⟨hd, ts, eall, _⟩ := h.inv.hdr
  have hn : nodes s = ts.map (·.node) := by simp [nodes, eall]
  have hlen : s.all.length = (nodes s).length + 1 := by rw [eall, hn]; simp
  have hlenS : s.length.toNat = (nodes s).length := by rw [h.inv.len]; omega
  unfold getByRankRange ZSetA.getByRankRange
  rw [hlenS] at hpos ⊢
  generalize hsan : ZSetA.sanitize (nodes s).length a b = ab at hpos
  obtain ⟨a', b'⟩ := ab
  simp only at hpos ⊢
  generalize hlo : (if decide (a' > b') = true then (b', a') else (a', b')) = lohi
  obtain ⟨lo, hi⟩ := lohi
  have hlo1 : 1 ≤ lo := by
    by_cases hr : a' > b'
    · simp [hr] at hlo; omega
    · simp [hr] at hlo; omega
  simp only
  obtain ⟨ups, e1, e2, e3, e4, e5, e6, e7, e8⟩ := rankDescend_rm h.inv lo hlo1 s.level (Nat.le_refl _) 0 (by omega)
    (by rw [h.inv.height0]; exact h.inv.lvl.2) []
  have e0 : ((0 : Nat) : Int) = 0 := rfl
  rw [e0] at e1 e4 e5 e6 e8
  generalize hrd : rankDescend s.all lo true s.level 0 0 [] = rd at e1 e4 e5 e6 e8
  obtain ⟨x, t, upd⟩ := rd
  simp only at e1 e4 e5 e6 e8 ⊢
  have hx := e6 h.inv.lvl.1
  subst e8
  rw [List.append_nil] at e1
  subst e1
  subst hx
  have hc1 : 1 ≤ min lo.toNat s.all.length := by omega
  have ec : min lo.toNat s.all.length - 1 + 1 = min lo.toNat s.all.length := by omega
  have et : ((min lo.toNat s.all.length - 1 : Nat) : Int) + 1 = ((min lo.toNat s.all.length : Nat) : Int) := by omega
  rw [ec, et]
  obtain ⟨r1, r2, r3⟩ := collect_rm upd hi (min lo.toNat s.all.length) hc1 s.all.length s ((min lo.toNat s.all.length : Nat) : Int) [] h (by omega)
    (fun i hi' => e3 i hi')
  generalize hcol : collect true upd hi s.all.length s (min lo.toNat s.all.length) ((min lo.toNat s.all.length : Nat) : Int) [] = col at r1 r2 r3
  obtain ⟨s', ns'⟩ := col
  simp only at r1 r2 r3 ⊢
  simp only [List.nil_append] at r2
  refine ⟨r1, ?_, ?_⟩
  · rw [r3]
    simp only [if_true]
    by_cases hle : lo.toNat ≤ s.all.length
    · have hm : min lo.toNat s.all.length = lo.toNat := Nat.min_eq_left hle
      rw [hm]
      have e3' : lo.toNat - 1 = (lo - 1).toNat := by omega
      have e4' : ((lo.toNat : Nat) : Int) = lo := by omega
      rw [e3', e4']
      congr 1
      -- dropping `k` or `min k (what is left)` behind position `lo-1` is the same
      simp only [List.length_take, List.length_drop]
      by_cases hk : (hi - lo + 1).toNat ≤ (nodes s).length - (lo - 1).toNat
      · rw [Nat.min_eq_left hk]
      · rw [Nat.min_eq_right (by omega)]
        rw [List.drop_of_length_le (by omega), List.drop_of_length_le (by omega)]
    · have hm : min lo.toNat s.all.length = s.all.length := Nat.min_eq_right (by omega)
      rw [hm]
      have d1 : (nodes s).drop (s.all.length - 1 + (hi - ((s.all.length : Nat) : Int) + 1).toNat) = [] := List.drop_of_length_le (by omega)
      have d2 : (nodes s).take (s.all.length - 1) = nodes s := List.take_of_length_le (by omega)
      have d3 : (nodes s).drop (lo - 1).toNat = [] := List.drop_of_length_le (by omega)
      have d4 : (nodes s).take (lo - 1).toNat = nodes s := List.take_of_length_le (by omega)
      rw [d1, d2, d3, d4]
      simp <;> omega
  · rw [r2]
    have hsel : ((nodes s).drop (min lo.toNat s.all.length - 1)).take (hi - ((min lo.toNat s.all.length : Nat) : Int) + 1).toNat =
        ((nodes s).drop (lo - 1).toNat).take (hi - lo + 1).toNat := by
      by_cases hle : lo.toNat ≤ s.all.length
      · have : min lo.toNat s.all.length = lo.toNat := Nat.min_eq_left hle
        rw [this]
        have e3' : lo.toNat - 1 = (lo - 1).toNat := by omega
        have e4' : ((lo.toNat : Nat) : Int) = lo := by omega
        rw [e3', e4']
      · have : min lo.toNat s.all.length = s.all.length := Nat.min_eq_right (by omega)
        rw [this]
        have d1 : (nodes s).drop (s.all.length - 1) = [] := List.drop_of_length_le (by omega)
        have d2 : (nodes s).drop (lo - 1).toNat = [] := List.drop_of_length_le (by omega)
        rw [d1, d2]; simp
    rw [hsel]

end NutsProofs.SkipL
