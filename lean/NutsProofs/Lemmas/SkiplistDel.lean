/-
  NutsProofs.Lemmas.SkiplistDel — `deleteNode` keeps every span a distance, for every level layout
  (`delete_inv`), takes exactly the tower at the given position out, and shrinks `level` to a bound of the
  remaining heights.
-/
import NutsProofs.Lemmas.SkiplistIns
namespace NutsProofs.SkipL
open Nuts Nuts.Model Nuts.Model.Skiplist
open Nuts.Model.ZSetA (Node nlt)

def delF (s : SL) (xp : Nat) (upd : List Nat) : Nat → Nat → Int → Int := fun p i sp =>
  if i < s.level ∧ p = upd.getD i 0 then
    (if fwd s.all p i = some xp then sp + (spanOf s.all xp i - 1) else sp - 1)
  else sp

theorem deleteNode_eq (s : SL) (xp : Nat) (upd : List Nat) :
    deleteNode s xp upd =
      { level := shrinkLevel ((mapSpans s.all (delF s xp upd)).eraseIdx xp) s.level, length := s.length - 1,
        all := (mapSpans s.all (delF s xp upd)).eraseIdx xp } := rfl

theorem spansOK_lower {lv lv' : Nat} {l : List Tower} (h : SpansOK lv l) (hle : lv' ≤ lv) : SpansOK lv' l := by
  induction l with
  | nil => trivial
  | cons t ts ih => exact ⟨fun i hi hl => h.1 i hi (by omega), ih h.2⟩

/-- `level` after the shrinking loop: between 1 and the old one, and still a bound of the heights -/
theorem shrink_spec (all : List Tower) : ∀ L, 1 ≤ L → (∀ t ∈ all.drop 1, t.spans.length ≤ L) →
    1 ≤ shrinkLevel all L ∧ shrinkLevel all L ≤ L ∧ ∀ t ∈ all.drop 1, t.spans.length ≤ shrinkLevel all L := by
  intro L
  induction L with
  | zero => intro h; omega
  | succ l ih =>
    intro _ hb
    simp only [shrinkLevel]
    by_cases hc : l ≥ 1 ∧ fwd all 0 l = none
    · rw [if_pos hc]
      have hb' : ∀ t ∈ all.drop 1, t.spans.length ≤ l := by
        have := hc.2
        unfold fwd at this
        rw [Option.map_eq_none_iff, nextAt_none] at this
        exact this
      obtain ⟨r1, r2, r3⟩ := ih hc.1 hb'
      exact ⟨r1, by omega, r3⟩
    · rw [if_neg hc]
      exact ⟨by omega, Nat.le_refl _, hb⟩

theorem map_eraseIdx {α β} (f : α → β) (l : List α) (k : Nat) : (l.eraseIdx k).map f = (l.map f).eraseIdx k := by
  rw [List.eraseIdx_eq_take_drop_succ, List.eraseIdx_eq_take_drop_succ]
  simp [List.map_take, List.map_drop]

theorem delete_inv {s : SL} (hinv : Inv s) (xp : Nat) (hx1 : 1 ≤ xp) (hxl : xp < s.all.length) (upd : List Nat)
    (hU : ∀ i, i < s.level → IsUpd s.all xp i (upd.getD i 0) ((upd.getD i 0 : Nat) : Int)) :
    Inv (deleteNode s xp upd) ∧
    (deleteNode s xp upd).all.map (·.node) = (s.all.map (·.node)).eraseIdx xp := by
  obtain ⟨hd, ts, eall, hhd⟩ := hinv.hdr
  have hL1 := hinv.lvl.1
  have hL2 := hinv.lvl.2
  generalize ha1 : mapSpans s.all (delF s xp upd) = a1
  have hlen1 : a1.length = s.all.length := by rw [← ha1, mapSpans_length]
  have hheights : a1.map (·.spans.length) = s.all.map (·.spans.length) := by rw [← ha1, mapSpans_heights]
  have hnodes : a1.map (·.node) = s.all.map (·.node) := by rw [← ha1, mapSpans_nodes]
  have hget1 : ∀ p, a1[p]? = (s.all[p]?).map fun (t : Tower) =>
      ({ node := t.node, spans := t.spans.mapIdx fun i sp => delF s xp upd p i sp } : Tower) := by
    intro p
    rw [← ha1, mapSpans_get]
  have hall' : (deleteNode s xp upd).all = a1.take xp ++ a1.drop (xp + 1) := by
    rw [deleteNode_eq]
    simp only
    rw [ha1, List.eraseIdx_eq_take_drop_succ]
  have hdrop : a1.drop (xp + 1) = s.all.drop (xp + 1) := by
    apply List.ext_getElem?
    intro j
    rw [List.getElem?_drop, List.getElem?_drop, hget1]
    cases hg : s.all[xp + 1 + j]? with
    | none => rfl
    | some t =>
      simp only [Option.map_some, Option.some.injEq]
      have := tower_spans_id t (fun i sp => delF s xp upd (xp + 1 + j) i sp) (by
        intro i sp
        simp only [delF]
        rw [if_neg]
        intro hc
        have := (hU i hc.1).2.1
        omega)
      exact this
  obtain ⟨X, hgX⟩ : ∃ X, s.all[xp]? = some X := ⟨_, List.getElem?_eq_getElem hxl⟩
  have hdropx : s.all.drop xp = X :: s.all.drop (xp + 1) := by
    rw [List.drop_eq_getElem_cons hxl]
    congr 1
    have := List.getElem?_eq_getElem hxl
    rw [hgX] at this
    exact (Option.some.inj this).symm
  have hspans : SpansOK s.level (a1.take xp ++ a1.drop (xp + 1)) := by
    rw [hdrop, spansOK_append]
    refine ⟨?_, spansOK_drop hinv.spans _⟩
    intro p t' hp i hi hiL
    rw [List.getElem?_take] at hp
    have hpc : p < xp := by
      apply Decidable.byContradiction
      intro hcon
      simp [hcon] at hp
    simp only [hpc, if_true] at hp
    rw [hget1] at hp
    cases hgp : s.all[p]? with
    | none => simp [hgp] at hp
    | some t =>
      simp only [hgp, Option.map_some, Option.some.injEq] at hp
      subst hp
      simp only [List.length_mapIdx] at hi
      have hHp : heightOf s.all p = t.spans.length := heightOf_eq hgp
      rw [getD_mapIdx _ _ _ hi]
      have hN : nextAt i ((a1.take xp).drop (p + 1)) = nextAt i ((s.all.take xp).drop (p + 1)) := by
        apply nextAt_heights
        rw [List.map_drop, List.map_take, hheights, ← List.map_take, ← List.map_drop]
      have hlenA : ((a1.take xp).drop (p + 1)).length = xp - p - 1 := by
        simp only [List.length_drop, List.length_take, hlen1]; omega
      rw [gap_append, hN, hlenA]
      have hold : t.spans.getD i 0 = (gap i (s.all.drop (p + 1)) : Int) := spansOK_get hinv.spans hgp hi hiL
      rw [drop_split (c := xp) (by omega), gap_append] at hold
      have hlenA' : ((s.all.take xp).drop (p + 1)).length = xp - p - 1 := by
        simp only [List.length_drop, List.length_take]; omega
      rw [hlenA', hdropx] at hold
      obtain ⟨hru, huc, huh, hun⟩ := hU i hiL
      cases hNN : nextAt i ((s.all.take xp).drop (p + 1)) with
      | some d =>
        rw [hNN] at hold
        simp only at hold ⊢
        obtain ⟨b1, b2, b3⟩ := nextAt_below_some (Nat.le_of_lt hxl) hNN
        have hne : ¬ (i < s.level ∧ p = upd.getD i 0) := by
          intro e
          have := hun (p + d) (by omega) b1
          omega
        simp only [delF]
        rw [if_neg hne]
        exact hold
      | none =>
        rw [hNN] at hold
        simp only at hold ⊢
        have hisu : IsUpd s.all xp i p (p : Int) :=
          ⟨rfl, hpc, by rw [hHp]; exact hi, (nextAt_below_none (Nat.le_of_lt hxl)).mp hNN⟩
        have hpu : p = upd.getD i 0 := (isUpd_unique hisu (hU i hiL)).1
        simp only [delF]
        rw [if_pos ⟨hiL, hpu⟩]
        by_cases hiX : i < X.spans.length
        · have hf : fwd s.all p i = some xp := by
            unfold fwd
            rw [drop_split (c := xp) (by omega), nextAt_append, hNN, hdropx]
            simp only [nextAt, hiX, if_true, Option.map_some, hlenA']
            congr 1; omega
          rw [if_pos hf, spanOf_eq hgX, spansOK_get hinv.spans hgX hiX hiL, hold, gap_cons_hit hiX]
          omega
        · have hf : ¬ fwd s.all p i = some xp := by
            intro e
            have := (fwd_some e).2.2.1
            rw [heightOf_eq hgX] at this
            exact hiX this
          rw [if_neg hf, hold, gap_cons_miss hiX]
          omega
  -- the heights that remain
  have htailH : ∀ t ∈ (a1.take xp ++ a1.drop (xp + 1)).drop 1, 1 ≤ t.spans.length ∧ t.spans.length ≤ s.level := by
    intro t ht
    rw [List.mem_iff_getElem?] at ht
    obtain ⟨j, hj⟩ := ht
    rw [List.getElem?_drop] at hj
    by_cases hjc : 1 + j < xp
    · rw [List.getElem?_append_left (by simp [List.length_take, hlen1]; omega), List.getElem?_take, if_pos hjc, hget1] at hj
      cases hg : s.all[1 + j]? with
      | none => simp [hg] at hj
      | some t0 =>
        simp only [hg, Option.map_some, Option.some.injEq] at hj
        subst hj
        simp only [List.length_mapIdx]
        have hjl : 1 + j < s.all.length := (List.getElem?_eq_some_iff.mp hg).1
        have h1 := hinv.heightPos hjl
        have h2 := hinv.heightLe (q := 1 + j) (by omega) hjl
        rw [heightOf_eq hg] at h1 h2
        exact ⟨h1, h2⟩
    · rw [List.getElem?_append_right (by simp [List.length_take, hlen1]; omega)] at hj
      simp only [List.length_take, hlen1] at hj
      have hmin : min xp s.all.length = xp := by omega
      rw [hmin, hdrop, List.getElem?_drop] at hj
      have hjl : xp + 1 + (1 + j - xp) < s.all.length := (List.getElem?_eq_some_iff.mp hj).1
      have h1 := hinv.heightPos hjl
      have h2 := hinv.heightLe (q := xp + 1 + (1 + j - xp)) (by omega) hjl
      rw [heightOf_eq hj] at h1 h2
      exact ⟨h1, h2⟩
  obtain ⟨k1, k2, k3⟩ := shrink_spec (a1.take xp ++ a1.drop (xp + 1)) s.level hL1 (fun t ht => (htailH t ht).2)
  refine ⟨⟨?_, ?_, ?_, ?_, ?_⟩, ?_⟩
  · rw [hall']
    have ha1c : a1 = ({ node := hd.node, spans := hd.spans.mapIdx fun i sp => delF s xp upd 0 i sp } : Tower) :: a1.tail := by
      have h0 := hget1 0
      rw [eall] at h0
      simp only [List.getElem?_cons_zero, Option.map_some] at h0
      cases ha : a1 with
      | nil => rw [ha] at h0; simp at h0
      | cons x xs => rw [ha] at h0; simp at h0; simp [h0]
    obtain ⟨x', rfl⟩ : ∃ x', xp = x' + 1 := ⟨xp - 1, by omega⟩
    rw [ha1c]
    refine ⟨_, _, by rw [List.take_succ_cons, List.cons_append], ?_⟩
    simp [hhd]
  · simp only [deleteNode_eq, ha1]
    rw [List.eraseIdx_eq_take_drop_succ]
    exact ⟨k1, by omega⟩
  · rw [hall']
    simp only [deleteNode_eq, List.length_append, List.length_take, List.length_drop, hlen1, hinv.len]
    omega
  · intro t ht
    rw [hall'] at ht
    simp only [deleteNode_eq, ha1]
    rw [List.eraseIdx_eq_take_drop_succ]
    have ht' : t ∈ (a1.take xp ++ a1.drop (xp + 1)).drop 1 := by simpa [List.drop_one] using ht
    exact ⟨(htailH t ht').1, k3 t ht'⟩
  · rw [hall']
    simp only [deleteNode_eq, ha1]
    rw [List.eraseIdx_eq_take_drop_succ]
    exact spansOK_lower hspans k2
  · simp only [deleteNode_eq, ha1]
    rw [map_eraseIdx, hnodes]

end NutsProofs.SkipL
