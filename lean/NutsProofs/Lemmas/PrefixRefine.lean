/-
  NutsProofs.Lemmas.PrefixRefine — in a list sorted by `bytes.Compare`, the keys with a given prefix form one
  block that starts at the first key not below the prefix: the walk of `PrefixScan` (skip the keys below the
  prefix, stop at the first key without it) selects exactly the keys with the prefix. With `KVRefine` this
  makes `PrefixScan` / `PrefixSearchScan` without offset and limit the spec's prefix filter of the live pairs.
-/
import NutsProofs.Lemmas.Hints
namespace NutsProofs.PrefixRefine
open Nuts Nuts.Model Nuts.Model.DB NutsProofs NutsProofs.Reopen NutsProofs.KVRefine

/-! ### byte order and prefixes -/

theorem hasPrefix_refl (p : Bytes) : hasPrefix p p = true := by
  induction p with
  | nil => rfl
  | cons a as ih => simp [hasPrefix, ih]

/-- a key below the prefix does not have it -/
theorem not_prefix_of_lt : (k pre : Bytes) → bcmp k pre = .lt → hasPrefix k pre = false
  | [], [], h => by simp [bcmp] at h
  | _ :: _, [], h => by simp [bcmp] at h
  | [], _ :: _, _ => rfl
  | a :: as, b :: bs, h => by
    simp only [bcmp] at h
    simp only [hasPrefix]
    split at h
    · rename_i hab
      have : (a == b) = false := by
        simp only [beq_eq_false_iff_ne, ne_eq]
        intro he; subst he; exact u8_lt_irrefl a hab
      simp [this]
    · split at h
      · cases h
      · simp [not_prefix_of_lt as bs h]

theorem hasPrefix_nil (k : Bytes) : hasPrefix k [] = true := by cases k <;> rfl

/-- the keys with a prefix are an interval of the order -/
theorem prefix_convex : (pre k1 k2 k3 : Bytes) → hasPrefix k1 pre = true → hasPrefix k3 pre = true →
    bcmp k1 k2 = .lt → bcmp k2 k3 = .lt → hasPrefix k2 pre = true
  | [], _, k2, _, _, _, _, _ => hasPrefix_nil k2
  | b :: bs, [], _, _, h1, _, _, _ => by simp [hasPrefix] at h1
  | b :: bs, _ :: _, _, [], _, h3, _, _ => by simp [hasPrefix] at h3
  | b :: bs, a1 :: k1', [], a3 :: k3', _, _, h12, _ => by simp [bcmp] at h12
  | b :: bs, a1 :: k1', c :: k2', a3 :: k3', h1, h3, h12, h23 => by
    simp only [hasPrefix, Bool.and_eq_true, beq_iff_eq] at h1 h3 ⊢
    obtain ⟨ha1, hp1⟩ := h1
    obtain ⟨ha3, hp3⟩ := h3
    simp only [bcmp] at h12 h23
    by_cases h1c : a1 < c
    · -- a1 < c: then neither c < a3 = a1 nor c = a3 is possible
      exfalso
      rw [ha1] at h1c
      rw [ha3] at h23
      by_cases hcb : c < b
      · exact u8_lt_irrefl _ (UInt8.lt_trans h1c hcb)
      · simp only [hcb, if_false, h1c, if_true] at h23
        cases h23
    · simp only [h1c, if_false] at h12
      by_cases hc1 : c < a1
      · simp [hc1] at h12
      · simp only [hc1, if_false] at h12
        have hc : a1 = c := u8_trichotomy a1 c h1c hc1
        rw [ha3] at h23
        rw [← ha1, hc] at h23
        simp only [u8_lt_irrefl c, if_false] at h23
        exact ⟨by rw [← hc, ha1], prefix_convex bs k1' k2' k3' hp1 hp3 h12 h23⟩

/-! ### the walk selects exactly the keys with the prefix -/

variable {α : Type}

/-- after a key with the prefix, in a sorted list: stopping at the first key without it loses nothing -/
theorem takeWhile_prefix_sorted (pre : Bytes) (q : Bytes × α) (rest : List (Bytes × α)) (hs : Sorted (q :: rest))
    (hq : hasPrefix q.1 pre = true) :
    rest.takeWhile (fun p => hasPrefix p.1 pre) = rest.filter (fun p => hasPrefix p.1 pre) := by
  induction rest generalizing q with
  | nil => rfl
  | cons z zs ih =>
    unfold Sorted at hs
    rw [List.pairwise_cons, List.pairwise_cons] at hs
    obtain ⟨hqz, hzs, hrest⟩ := hs
    simp only [List.takeWhile_cons, List.filter_cons]
    by_cases hz : hasPrefix z.1 pre = true
    · simp only [hz, if_true]
      congr 1
      exact ih z (by unfold Sorted; exact List.pairwise_cons.mpr ⟨hzs, hrest⟩) hz
    · simp only [hz, Bool.false_eq_true, if_false]
      symm
      rw [List.filter_eq_nil_iff]
      intro w hw hpw
      exact hz (prefix_convex pre q.1 z.1 w.1 hq hpw (hqz z (by simp)) (hzs w hw))

/-- `PrefixScan`'s walk — skip the keys below the prefix, keep keys while they have it — on a sorted list -/
theorem walk_eq_filter (pre : Bytes) (l : List (Bytes × α)) (hs : Sorted l) :
    (l.dropWhile fun p => blt p.1 pre).takeWhile (fun p => hasPrefix p.1 pre) = l.filter (fun p => hasPrefix p.1 pre) := by
  induction l with
  | nil => rfl
  | cons q rest ih =>
    have hs' := hs
    unfold Sorted at hs'
    rw [List.pairwise_cons] at hs'
    simp only [List.dropWhile_cons, List.filter_cons]
    by_cases hlt : blt q.1 pre = true
    · have hb : bcmp q.1 pre = .lt := by simpa [blt] using hlt
      simp only [hlt, if_true, not_prefix_of_lt q.1 pre hb, Bool.false_eq_true, if_false]
      exact ih hs'.2
    · simp only [hlt, Bool.false_eq_true, if_false, List.takeWhile_cons]
      by_cases hq : hasPrefix q.1 pre = true
      · simp only [hq, if_true]
        congr 1
        exact takeWhile_prefix_sorted pre q rest hs hq
      · simp only [hq, Bool.false_eq_true, if_false]
        -- q is above the prefix and lacks it: so does everything after q
        symm
        rw [List.filter_eq_nil_iff]
        intro w hw hpw
        have hgt : bcmp pre q.1 = .lt := by
          have hb : bcmp q.1 pre ≠ .lt := by simpa [blt] using hlt
          cases hc : bcmp q.1 pre with
          | lt => exact absurd hc hb
          | eq => rw [(bcmp_eq_iff _ _).mp hc, hasPrefix_refl] at hq; exact absurd rfl hq
          | gt => exact (bcmp_gt_iff_lt _ _).mp hc
        exact hq (prefix_convex pre pre q.1 w.1 (hasPrefix_refl pre) hpw hgt (hs'.1 w hw))

/-- without offset and limit the walk returns every selected record, in order -/
theorem prefixGo_all (lim : Int) (hl : ¬ lim > 0) (mt : Bytes → Bool) (l : List (Bytes × Idx)) (c : Int) (hc : ¬ c < 0) (acc : List Idx) :
    prefixWalk.go 0 lim mt l c acc = (acc ++ (l.filter fun p => mt p.1).map (·.2), c) := by
  induction l generalizing acc with
  | nil => simp [prefixWalk.go]
  | cons p rest ih =>
    unfold prefixWalk.go
    simp only [hc, if_false, List.filter_cons]
    by_cases hm : mt p.1 = true
    · simp only [hm, Bool.not_true, Bool.false_eq_true, if_false, if_true, List.map_cons]
      have : ¬ (lim > 0 ∧ ((acc ++ [p.2]).length : Int) = lim) := fun h => hl h.1
      simp only [this, if_false]
      rw [ih]
      simp
    · simp only [hm, Bool.not_false, if_true, Bool.false_eq_true, if_false]
      exact ih acc

/-- **PrefixScan / PrefixSearchScan refine the ordered map**, bucket level (key+value mode, no offset, no
limit): the live pairs whose key has the prefix (and matches), ascending; an error when there are none -/
theorem prefixScan_refines (s : State) (hm : s.opt.mode = 0) (b : Bytes) (m : Assoc Idx) (hb : bucketIdx s b = some m)
    (hs : Sorted m) (pre : Bytes) (mt : Bytes → Bool) (now : Nat) (hok : IdxOk m) (hn : now < 2 ^ 64) :
    (prefixScan s b pre 0 (-1) now mt).map pairsOf =
      let want := (liveBucket (absBucket m) now).filter fun x => hasPrefix x.1 pre && mt x.1
      if want = [] then .err else .ok want := by
  unfold prefixScan prefixWalk
  rw [hb]
  simp only []
  rw [walk_eq_filter pre m hs, prefixGo_all (-1) (by omega) mt _ 0 (by omega) []]
  simp only [List.nil_append, List.filter_filter]
  have hsel : IdxOk (m.filter fun x => mt x.1 && hasPrefix x.1 pre) := fun q hq => hok q (List.mem_filter.mp hq).1
  have h1 := scan_refines s hm (m.filter fun x => mt x.1 && hasPrefix x.1 pre) now hsel hn
  rw [live_filter_keys m now (fun k => mt k && hasPrefix k pre)] at h1
  have hpred : (fun x : Bytes × Bytes => mt x.1 && hasPrefix x.1 pre) = (fun x => hasPrefix x.1 pre && mt x.1) := by
    funext x; exact Bool.and_comm _ _
  rw [hpred] at h1
  have he : ((m.filter fun x => mt x.1 && hasPrefix x.1 pre).map (·.2)).isEmpty = (m.filter fun x => mt x.1 && hasPrefix x.1 pre).isEmpty := by
    cases (m.filter fun x => mt x.1 && hasPrefix x.1 pre) <;> rfl
  rw [he]
  exact h1

/-- state level (any state with the log invariant, key+value mode): `PrefixScan(prefix, 0, -1)` and
`PrefixSearchScan` with any match predicate are the spec's live pairs with the prefix (that match) -/
theorem prefix_reads_refine (s : State) (h : LogInv s) (hm : s.opt.mode = 0) (hL : ∀ x ∈ allRecs s.files, RecOk x.1)
    (now : Nat) (hn : now < 2 ^ 64) (b pre : Bytes) (mt : Bytes → Bool) :
    let A := specOfLog ((allRecs s.files).map (·.1))
    let live := liveBucket ((aget? A b).getD []) now
    (prefixScan s b pre 0 (-1) now mt).map pairsOf =
      if (live.filter fun x => hasPrefix x.1 pre && mt x.1) = [] then .err
      else .ok (live.filter fun x => hasPrefix x.1 pre && mt x.1) := by
  intro A live
  obtain ⟨hsorted, habs, hidx, _⟩ := kvOfLog_props (allRecs s.files) hL
  have hr := rebuilt_normState s
  have hkv : (normState s).kv = kvOfLog (allRecs s.files) := h.idx
  have hmode : (normState s).opt.mode = 0 := hm
  have hA : aget? A b = (aget? (kvOfLog (allRecs s.files)) b).map absBucket := by
    show aget? (specOfLog _) b = _
    unfold specOfLog
    rw [← habs]
    exact aget_map absBucket _ b
  rw [← pairs_visL, ← prefixScan_rebuilt hr b pre 0 (-1) now mt, pairs_visL]
  cases hbk : aget? (kvOfLog (allRecs s.files)) b with
  | none =>
    have hb' : bucketIdx (normState s) b = none := by unfold bucketIdx; rw [hkv]; exact hbk
    have hlive : live = [] := by
      show liveBucket ((aget? A b).getD []) now = []
      rw [hA, hbk]; rfl
    unfold prefixScan
    rw [hb', hlive]
    rfl
  | some m =>
    have hb' : bucketIdx (normState s) b = some m := by unfold bucketIdx; rw [hkv]; exact hbk
    have hlive : live = liveBucket (absBucket m) now := by
      show liveBucket ((aget? A b).getD []) now = _
      rw [hA, hbk]; rfl
    rw [hlive]
    exact prefixScan_refines (normState s) hmode b m hb' (hsorted b m hbk) pre mt now (fun p hp => hidx b m p hbk hp) hn

end NutsProofs.PrefixRefine
