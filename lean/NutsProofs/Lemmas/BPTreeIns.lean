/-
  NutsProofs.Lemmas.BPTreeIns — insertion into the B+ tree: the leaf chain of the result is the sorted
  insertion into the leaf chain, and well-formedness is preserved, leaf and inner splits included.
-/
import NutsProofs.Lemmas.BPTree
namespace NutsProofs.BPT
open Nuts Nuts.Model.BPTree NutsProofs

variable {α : Type}

/-! ### sorted insertion into a list -/

theorem leafInsert_append_right (a b : List (Bytes × α)) (k : Bytes) (v : α) (ha : ∀ p ∈ a, bcmp k p.1 = .gt) :
    leafInsert (a ++ b) k v = a ++ leafInsert b k v := by
  induction a with
  | nil => rfl
  | cons p rest ih =>
    have hp : bcmp k p.1 = .gt := ha p (by simp)
    simp only [List.cons_append, leafInsert, hp, beq_self_eq_true, if_true]
    rw [ih (fun q hq => ha q (by simp [hq]))]

theorem leafInsert_append_left (a b : List (Bytes × α)) (k : Bytes) (v : α) (hb : ∀ p ∈ b, bcmp k p.1 ≠ .gt) :
    leafInsert (a ++ b) k v = leafInsert a k v ++ b := by
  induction a with
  | nil =>
    cases b with
    | nil => rfl
    | cons q rest =>
      have : (bcmp k q.1 == .gt) = false := by simpa using hb q (by simp)
      simp [leafInsert, this]
  | cons p rest ih =>
    simp only [List.cons_append, leafInsert]
    split
    · rw [ih]; rfl
    · rfl

theorem mem_leafInsert (l : List (Bytes × α)) (k : Bytes) (v : α) (p : Bytes × α) :
    p ∈ leafInsert l k v ↔ p = (k, v) ∨ p ∈ l := by
  induction l with
  | nil => simp [leafInsert]
  | cons q rest ih =>
    simp only [leafInsert]
    split
    · simp only [List.mem_cons, ih]
      constructor
      · rintro (h | h | h)
        · exact Or.inr (Or.inl h)
        · exact Or.inl h
        · exact Or.inr (Or.inr h)
      · rintro (h | h | h)
        · exact Or.inr (Or.inl h)
        · exact Or.inl h
        · exact Or.inr (Or.inr h)
    · simp [List.mem_cons]

theorem leafInsert_ne_nil (l : List (Bytes × α)) (k : Bytes) (v : α) : leafInsert l k v ≠ [] := by
  cases l with
  | nil => simp [leafInsert]
  | cons q rest => simp only [leafInsert]; split <;> simp

theorem leafInsert_sorted (l : List (Bytes × α)) (k : Bytes) (v : α) (hs : Sorted l) (hk : ∀ p ∈ l, bcmp k p.1 ≠ .eq) :
    Sorted (leafInsert l k v) := by
  induction l with
  | nil => simp [leafInsert, Sorted]
  | cons q rest ih =>
    unfold Sorted at hs ⊢
    rw [List.pairwise_cons] at hs
    simp only [leafInsert]
    split
    · rename_i hgt
      have hgt' : bcmp k q.1 = .gt := by simpa using hgt
      rw [List.pairwise_cons]
      refine ⟨?_, ih hs.2 (fun p hp => hk p (by simp [hp]))⟩
      intro p hp
      rcases (mem_leafInsert rest k v p).mp hp with rfl | hp
      · exact (bcmp_gt_iff_lt k q.1).mp hgt'
      · exact hs.1 p hp
    · rename_i hngt
      have hlt : bcmp k q.1 = .lt := by
        cases h : bcmp k q.1 with
        | lt => rfl
        | eq => exact absurd h (hk q (by simp))
        | gt => simp [h] at hngt
      rw [List.pairwise_cons]
      refine ⟨?_, List.pairwise_cons.mpr hs⟩
      intro p hp
      rcases List.mem_cons.mp hp with rfl | hp
      · exact hlt
      · exact bcmp_lt_trans hlt (hs.1 p hp)

/-! ### results of an insertion -/

theorem sorted_take {l : List (Bytes × α)} (n : Nat) (h : Sorted l) : Sorted (l.take n) := by
  unfold Sorted at *; exact List.Pairwise.sublist (List.take_sublist n l) h

theorem sorted_drop {l : List (Bytes × α)} (n : Nat) (h : Sorted l) : Sorted (l.drop n) := by
  unfold Sorted at *; exact List.Pairwise.sublist (List.drop_sublist n l) h

/-- `mkLeaf`: same leaf chain, well formed, no new keys -/
theorem mkLeaf_spec (kvs : List (Bytes × α)) (hne : kvs ≠ []) (hs : Sorted kvs) :
    (mkLeaf kvs).toList = kvs ∧ (mkLeaf kvs).WF ∧ (∀ x ∈ (mkLeaf kvs).keys, x ∈ kvs.map (·.1)) := by
  unfold mkLeaf
  split
  · exact ⟨rfl, ⟨hne, hs⟩, fun x hx => hx⟩
  · rename_i hlen
    have hsplit : kvs.take 4 ++ kvs.drop 4 = kvs := List.take_append_drop 4 kvs
    simp only []
    split
    · exact ⟨rfl, ⟨hne, hs⟩, fun x hx => hx⟩
    · rename_i p rest hdrop
      have hpm : p ∈ kvs.drop 4 := by rw [hdrop]; simp
      have hsorted : Sorted (kvs.take 4 ++ kvs.drop 4) := by rw [hsplit]; exact hs
      unfold Sorted at hsorted
      rw [List.pairwise_append] at hsorted
      refine ⟨?_, ⟨?_, ?_, ?_, ?_⟩, ?_⟩
      · simp only [Ins.toList, Node.toList]; exact hsplit
      · constructor
        · intro h
          have h4 : (kvs.take 4).length = 4 := by
            simp only [maxKeys] at hlen
            rw [List.length_take]; omega
          rw [h] at h4; cases h4
        · exact sorted_take 4 hs
      · constructor
        · rw [hdrop]; simp
        · exact sorted_drop 4 hs
      · intro x hx
        simp only [Node.keys, List.mem_map] at hx
        obtain ⟨q, hq, rfl⟩ := hx
        exact hsorted.2.2 q hq p hpm
      · intro x hx
        simp only [Node.keys, List.mem_map] at hx
        obtain ⟨q, hq, rfl⟩ := hx
        rw [hdrop] at hq
        rcases List.mem_cons.mp hq with rfl | hq'
        · rw [bcmp_refl]; simp
        · have hd := hsorted.2.1
          rw [hdrop, List.pairwise_cons] at hd
          have hpq := hd.1 q hq'
          intro hlt
          have := (bcmp_gt_iff_lt p.1 q.1).mpr hlt
          rw [hpq] at this; cases this
      · intro x hx
        simp only [Ins.keys, Node.keys, List.mem_append, List.mem_cons, List.mem_map] at hx
        simp only [List.mem_map]
        rcases hx with ⟨q, hq, rfl⟩ | rfl | ⟨q, hq, rfl⟩
        · exact ⟨q, List.mem_of_mem_take hq, rfl⟩
        · exact ⟨p, List.mem_of_mem_drop hpm, rfl⟩
        · exact ⟨q, List.mem_of_mem_drop hq, rfl⟩

/-! ### inner nodes as lists of (separator, child) pairs -/

theorem ofPairs_toPairs : (r : Rest α) → Rest.ofPairs r.toPairs = r
  | .nil => rfl
  | .cons sep child tl => by simp [Rest.toPairs, Rest.ofPairs, ofPairs_toPairs tl]

theorem toPairs_length : (r : Rest α) → r.toPairs.length = r.length
  | .nil => rfl
  | .cons _ _ tl => by simp [Rest.toPairs, Rest.length, toPairs_length tl]

theorem ofPairs_append_toList (a b : List (Bytes × Node α)) :
    (Rest.ofPairs (a ++ b)).toList = (Rest.ofPairs a).toList ++ (Rest.ofPairs b).toList := by
  induction a with
  | nil => simp [Rest.ofPairs, Rest.toList]
  | cons p rest ih => obtain ⟨s, c⟩ := p; simp [Rest.ofPairs, Rest.toList, ih]

theorem ofPairs_append_keys (a b : List (Bytes × Node α)) :
    (Rest.ofPairs (a ++ b)).keys = (Rest.ofPairs a).keys ++ (Rest.ofPairs b).keys := by
  induction a with
  | nil => simp [Rest.ofPairs, Rest.keys]
  | cons p rest ih => obtain ⟨s, c⟩ := p; simp [Rest.ofPairs, Rest.keys, ih]

theorem firstSep_ofPairs_append (a b : List (Bytes × Node α)) (ha : a ≠ []) :
    Rest.firstSep (Rest.ofPairs (a ++ b)) = Rest.firstSep (Rest.ofPairs a) := by
  cases a with
  | nil => exact absurd rfl ha
  | cons p rest => obtain ⟨s, c⟩ := p; simp [Rest.ofPairs, Rest.firstSep]

theorem wf_ofPairs_append (a b : List (Bytes × Node α)) (h : (Rest.ofPairs (a ++ b)).WF) :
    (Rest.ofPairs a).WF ∧ (Rest.ofPairs b).WF := by
  induction a with
  | nil => exact ⟨by simp [Rest.ofPairs, Rest.WF], h⟩
  | cons p rest ih =>
    obtain ⟨s, c⟩ := p
    simp only [List.cons_append, Rest.ofPairs, Rest.WF] at h ⊢
    obtain ⟨hc, hge, ht, hb⟩ := h
    have := ih ht
    refine ⟨⟨hc, hge, this.1, ?_⟩, this.2⟩
    intro s' hs'
    cases rest with
    | nil => simp [Rest.ofPairs, Rest.firstSep] at hs'
    | cons q rest' =>
      apply hb
      rw [← hs']
      exact firstSep_ofPairs_append (q :: rest') b (by simp)

theorem allLt_trans {ks : List Bytes} {s s' : Bytes} (h : AllLt s ks) (hs : bcmp s s' = .lt) : AllLt s' ks :=
  fun x hx => bcmp_lt_trans (h x hx) hs

/-- in a well-formed list of (separator, child) pairs, everything before a pair is below its separator -/
theorem allLt_prefix (pre : List (Bytes × Node α)) (up : Bytes) (rc0 : Node α) (post : List (Bytes × Node α))
    (h : (Rest.ofPairs (pre ++ (up, rc0) :: post)).WF) : AllLt up (Rest.ofPairs pre).keys := by
  induction pre with
  | nil => intro x hx; simp [Rest.ofPairs, Rest.keys] at hx
  | cons p pre' ih =>
    obtain ⟨s, c⟩ := p
    simp only [List.cons_append, Rest.ofPairs, Rest.WF] at h
    obtain ⟨_, _, ht, hb⟩ := h
    have ih' := ih ht
    intro x hx
    simp only [Rest.ofPairs, Rest.keys, List.mem_cons, List.mem_append] at hx
    cases pre' with
    | nil =>
      have hb' := hb up (by simp [Rest.ofPairs, Rest.firstSep])
      rcases hx with rfl | hx | hx
      · exact hb'.2
      · exact hb'.1 x hx
      · simp [Rest.ofPairs, Rest.keys] at hx
    | cons q pre2 =>
      obtain ⟨s2, c2⟩ := q
      have hb' := hb s2 (by simp [Rest.ofPairs, Rest.firstSep])
      have hs2 : bcmp s2 up = .lt := ih' s2 (by simp [Rest.ofPairs, Rest.keys])
      rcases hx with rfl | hx | hx
      · exact bcmp_lt_trans hb'.2 hs2
      · exact bcmp_lt_trans (hb'.1 x hx) hs2
      · exact ih' x hx

/-- `mkInner`: same leaf chain, well formed (a split puts the 5th separator up), no new keys -/
theorem mkInner_spec (c0 : Node α) (rest : Rest α) (h0 : c0.WF) (hr : rest.WF)
    (hb : ∀ s, Rest.firstSep rest = some s → AllLt s c0.keys) :
    (mkInner c0 rest).toList = c0.toList ++ rest.toList ∧ (mkInner c0 rest).WF ∧
    (∀ x ∈ (mkInner c0 rest).keys, x ∈ c0.keys ++ rest.keys) := by
  unfold mkInner
  split
  · exact ⟨rfl, ⟨h0, hr, hb⟩, fun x hx => hx⟩
  · rename_i hlen
    simp only []
    split
    · exact ⟨rfl, ⟨h0, hr, hb⟩, fun x hx => hx⟩
    · rename_i up rc0 rrest hdrop
      have hps : rest.toPairs = rest.toPairs.take 4 ++ (up, rc0) :: rrest := by
        rw [← hdrop, List.take_append_drop]
      have hrest : rest = Rest.ofPairs (rest.toPairs.take 4 ++ (up, rc0) :: rrest) := by
        rw [← hps, ofPairs_toPairs]
      have hwf : (Rest.ofPairs (rest.toPairs.take 4 ++ (up, rc0) :: rrest)).WF := by rw [← hrest]; exact hr
      have hsplit := wf_ofPairs_append _ _ hwf
      have hright := hsplit.2
      simp only [Rest.ofPairs, Rest.WF] at hright
      obtain ⟨hrc0, hge, hrr, hbr⟩ := hright
      have hpre := allLt_prefix _ up rc0 rrest hwf
      have htake_ne : rest.toPairs.take 4 ≠ [] := by
        intro hnil
        have : (rest.toPairs.take 4).length = 4 := by
          rw [List.length_take, toPairs_length]; simp only [maxKeys] at hlen; omega
        rw [hnil] at this; cases this
      have hfirst : Rest.firstSep rest = Rest.firstSep (Rest.ofPairs (rest.toPairs.take 4)) := by
        conv => lhs; rw [hrest]
        exact firstSep_ofPairs_append _ _ htake_ne
      refine ⟨?_, ⟨?_, ?_, ?_, ?_⟩, ?_⟩
      · simp only [Ins.toList, Node.toList]
        conv => rhs; rw [hrest, ofPairs_append_toList]
        simp [Rest.ofPairs, Rest.toList, List.append_assoc]
      · exact ⟨h0, hsplit.1, fun s hs => hb s (by rw [hfirst]; exact hs)⟩
      · exact ⟨hrc0, hrr, fun s hs => (hbr s hs).1⟩
      · intro x hx
        simp only [Node.keys, List.mem_append] at hx
        rcases hx with hx | hx
        · -- keys of c0 are below the first separator, which is below `up`
          cases hfs : Rest.firstSep (Rest.ofPairs (rest.toPairs.take 4)) with
          | none =>
            cases htk : rest.toPairs.take 4 with
            | nil => exact absurd htk htake_ne
            | cons q t => obtain ⟨s, c⟩ := q; rw [htk] at hfs; simp [Rest.ofPairs, Rest.firstSep] at hfs
          | some s0 =>
            have h1 := hb s0 (by rw [hfirst]; exact hfs) x hx
            have hs0 : s0 ∈ (Rest.ofPairs (rest.toPairs.take 4)).keys := by
              cases htk : rest.toPairs.take 4 with
              | nil => exact absurd htk htake_ne
              | cons q t =>
                obtain ⟨s, c⟩ := q
                rw [htk] at hfs
                simp only [Rest.ofPairs, Rest.firstSep, Option.some.injEq] at hfs
                subst hfs
                simp [Rest.ofPairs, Rest.keys]
            exact bcmp_lt_trans h1 (hpre s0 hs0)
        · exact hpre x hx
      · have hs := (Rest.sorted (Rest.cons up rc0 (Rest.ofPairs rrest)) (by
          simp only [Rest.WF]; exact ⟨hrc0, hge, hrr, hbr⟩)).2 up rfl
        intro x hx
        apply hs
        simp only [Node.keys, List.mem_append] at hx
        simp only [Rest.keys, List.mem_cons, List.mem_append]
        exact Or.inr hx
      · intro x hx
        simp only [Ins.keys, Node.keys, List.mem_append, List.mem_cons] at hx
        simp only [List.mem_append]
        have hk : rest.keys = (Rest.ofPairs (rest.toPairs.take 4)).keys ++ (up :: (rc0.keys ++ (Rest.ofPairs rrest).keys)) := by
          conv => lhs; rw [hrest, ofPairs_append_keys]
          simp [Rest.ofPairs, Rest.keys]
        rw [hk]
        simp only [List.mem_append, List.mem_cons]
        rcases hx with (hx | hx) | rfl | hx | hx
        · exact Or.inl hx
        · exact Or.inr (Or.inl hx)
        · exact Or.inr (Or.inr (Or.inl rfl))
        · exact Or.inr (Or.inr (Or.inr (Or.inl hx)))
        · exact Or.inr (Or.inr (Or.inr (Or.inr hx)))

/-! ### insertion -/

theorem gt_of_lt {a b : Bytes} (h : bcmp a b = .lt) : bcmp b a = .gt := (bcmp_gt_iff_lt b a).mpr h

theorem lt_of_le_of_lt {x lo hi : Bytes} (h1 : bcmp x lo ≠ .lt) (h2 : bcmp x hi = .lt) : bcmp lo hi = .lt := by
  cases h : bcmp x lo with
  | lt => exact absurd h h1
  | eq => rw [← (bcmp_eq_iff x lo).mp h]; exact h2
  | gt => exact bcmp_lt_trans ((bcmp_gt_iff_lt x lo).mp h) h2

mutual
theorem Node.keys_ne_nil : (n : Node α) → n.WF → n.keys ≠ []
  | .leaf kvs, h => by
    simp only [Node.WF] at h; simp only [Node.keys]
    intro hn; exact h.1 (List.map_eq_nil_iff.mp hn)
  | .inner c0 rest, h => by
    simp only [Node.WF] at h; simp only [Node.keys]
    intro hn
    exact Node.keys_ne_nil c0 h.1 (List.append_eq_nil_iff.mp hn).1
end

/-- the specification of an insertion result against the node it was made from -/
def InsSpec (n : Node α) (k : Bytes) (v : α) (r : Ins α) : Prop :=
  r.toList = leafInsert n.toList k v ∧ r.WF ∧ (∀ x ∈ r.keys, x = k ∨ x ∈ n.keys)

def RestSpec (r : Rest α) (k : Bytes) (v : α) (r' : Rest α) : Prop :=
  (∃ s, Rest.firstSep r = some s ∧ bcmp k s ≠ .lt) ∧ Rest.firstSep r' = Rest.firstSep r ∧
  r'.toList = leafInsert r.toList k v ∧ r'.WF ∧ (∀ x ∈ r'.keys, x = k ∨ x ∈ r.keys)

theorem leafInsert_left_of_rest {a : List (Bytes × α)} (rest : Rest α) (hr : rest.WF) (k : Bytes) (v : α)
    (hlt : ∀ s, Rest.firstSep rest = some s → bcmp k s = .lt) :
    leafInsert (a ++ rest.toList) k v = leafInsert a k v ++ rest.toList := by
  apply leafInsert_append_left
  intro p hp
  cases rest with
  | nil => simp [Rest.toList] at hp
  | cons s c t =>
    have := lt_of_lt_of_ge (hlt s rfl) ((Rest.sorted _ hr).2 s rfl p.1 (Rest.mem_keys _ p hp))
    rw [this]; simp

theorem leafInsert_right_of_node (c : Node α) (b : List (Bytes × α)) (k : Bytes) (v : α) (s : Bytes)
    (hl : AllLt s c.keys) (hk : bcmp k s ≠ .lt) :
    leafInsert (c.toList ++ b) k v = c.toList ++ leafInsert b k v := by
  apply leafInsert_append_right
  intro p hp
  exact gt_of_lt (lt_of_lt_of_ge (hl p.1 (Node.mem_keys c p hp)) hk)

mutual
theorem Node.ins_spec : (n : Node α) → n.WF → ∀ k v, (∀ p ∈ n.toList, bcmp k p.1 ≠ .eq) → InsSpec n k v (n.ins k v)
  | .leaf kvs, h, k, v, hk => by
    simp only [Node.WF] at h
    simp only [Node.toList] at hk
    have hsp := mkLeaf_spec (leafInsert kvs k v) (leafInsert_ne_nil kvs k v) (leafInsert_sorted kvs k v h.2 hk)
    refine ⟨hsp.1, hsp.2.1, ?_⟩
    intro x hx
    have := hsp.2.2 x hx
    simp only [List.mem_map] at this
    obtain ⟨q, hq, rfl⟩ := this
    rcases (mem_leafInsert kvs k v q).mp hq with rfl | hq
    · exact Or.inl rfl
    · exact Or.inr (by simp only [Node.keys]; exact List.mem_map.mpr ⟨q, hq, rfl⟩)
  | .inner c0 rest, h, k, v, hk => by
    simp only [Node.WF] at h
    obtain ⟨h0, hr, hb⟩ := h
    have hk0 : ∀ p ∈ c0.toList, bcmp k p.1 ≠ .eq := fun p hp => hk p (by simp [Node.toList, hp])
    have hkr : ∀ p ∈ rest.toList, bcmp k p.1 ≠ .eq := fun p hp => hk p (by simp [Node.toList, hp])
    have hrs := Rest.ins_spec rest hr k v hkr
    simp only [Node.ins]
    cases hri : rest.ins k v with
    | some rest' =>
      obtain ⟨⟨s, hs, hks⟩, hfs, htl, hwf, hkeys⟩ := hrs.2 rest' hri
      have hm := mkInner_spec c0 rest' h0 hwf (fun s' hs' => hb s' (by rw [← hfs]; exact hs'))
      refine ⟨?_, hm.2.1, ?_⟩
      · rw [hm.1, htl]
        simp only [Node.toList]
        exact (leafInsert_right_of_node c0 rest.toList k v s (hb s hs) hks).symm
      · intro x hx
        have := hm.2.2 x hx
        simp only [Node.keys, List.mem_append] at this ⊢
        rcases this with hx | hx
        · exact Or.inr (Or.inl hx)
        · rcases hkeys x hx with rfl | hx
          · exact Or.inl rfl
          · exact Or.inr (Or.inr hx)
    | none =>
      have hlt := hrs.1 hri
      have hc := Node.ins_spec c0 h0 k v hk0
      obtain ⟨hctl, hcwf, hckeys⟩ := hc
      have hbound : ∀ s, Rest.firstSep rest = some s → AllLt s (c0.ins k v).keys := by
        intro s hs x hx
        rcases hckeys x hx with rfl | hx
        · exact hlt s hs
        · exact hb s hs x hx
      simp only []
      cases hci : c0.ins k v with
      | one c' =>
        rw [hci] at hctl hcwf hckeys hbound
        simp only [Ins.toList, Ins.WF, Ins.keys] at hctl hcwf hckeys hbound
        refine ⟨?_, ⟨hcwf, hr, hbound⟩, ?_⟩
        · simp only [Ins.toList, Node.toList]
          rw [hctl]
          exact (leafInsert_left_of_rest rest hr k v hlt).symm
        · intro x hx
          simp only [Ins.keys, Node.keys, List.mem_append] at hx ⊢
          rcases hx with hx | hx
          · rcases hckeys x hx with rfl | hx
            · exact Or.inl rfl
            · exact Or.inr (Or.inl hx)
          · exact Or.inr (Or.inr hx)
      | split l s r =>
        rw [hci] at hctl hcwf hckeys hbound
        simp only [Ins.toList, Ins.WF, Ins.keys] at hctl hcwf hckeys hbound
        obtain ⟨hl, hrw, hlts, hges⟩ := hcwf
        have hwf' : (Rest.cons s r rest).WF := by
          simp only [Rest.WF]
          refine ⟨hrw, hges, hr, ?_⟩
          intro s' hs'
          exact ⟨fun x hx => hbound s' hs' x (by simp [hx]), hbound s' hs' s (by simp)⟩
        have hm := mkInner_spec l (Rest.cons s r rest) hl hwf' (by
          intro s' hs'; simp only [Rest.firstSep, Option.some.injEq] at hs'; subst hs'; exact hlts)
        refine ⟨?_, hm.2.1, ?_⟩
        · rw [hm.1]
          simp only [Rest.toList, Node.toList, ← List.append_assoc]
          rw [hctl]
          exact (leafInsert_left_of_rest rest hr k v hlt).symm
        · intro x hx
          have := hm.2.2 x hx
          simp only [Rest.keys, Node.keys, List.mem_append, List.mem_cons] at this ⊢
          have hcx : x ∈ l.keys ++ s :: r.keys ∨ x ∈ rest.keys := by
            simp only [List.mem_append, List.mem_cons]
            rcases this with hx | rfl | hx | hx
            · exact Or.inl (Or.inl hx)
            · exact Or.inl (Or.inr (Or.inl rfl))
            · exact Or.inl (Or.inr (Or.inr hx))
            · exact Or.inr hx
          rcases hcx with hx | hx
          · rcases hckeys x hx with rfl | hx
            · exact Or.inl rfl
            · exact Or.inr (Or.inl hx)
          · exact Or.inr (Or.inr hx)
theorem Rest.ins_spec : (r : Rest α) → r.WF → ∀ k v, (∀ p ∈ r.toList, bcmp k p.1 ≠ .eq) →
    (r.ins k v = none → ∀ s, Rest.firstSep r = some s → bcmp k s = .lt) ∧
    (∀ r', r.ins k v = some r' → RestSpec r k v r')
  | .nil, _, k, v, _ => by simp [Rest.ins, Rest.firstSep]
  | .cons sep child tl, h, k, v, hk => by
    simp only [Rest.WF] at h
    obtain ⟨hc, hge, ht, hb⟩ := h
    have hkc : ∀ p ∈ child.toList, bcmp k p.1 ≠ .eq := fun p hp => hk p (by simp [Rest.toList, hp])
    have hkt : ∀ p ∈ tl.toList, bcmp k p.1 ≠ .eq := fun p hp => hk p (by simp [Rest.toList, hp])
    simp only [Rest.ins]
    by_cases hlt : bcmp k sep = .lt
    · simp only [hlt, beq_self_eq_true, if_true, Rest.firstSep]
      refine ⟨fun _ s hs => by cases hs; exact hlt, fun r' hr' => by cases hr'⟩
    · have hb' : (bcmp k sep == .lt) = false := by simpa using hlt
      simp only [hb', Bool.false_eq_true, if_false]
      have hts := Rest.ins_spec tl ht k v hkt
      cases hti : tl.ins k v with
      | some tl' =>
        obtain ⟨⟨s, hs, hks⟩, hfs, htl, hwf, hkeys⟩ := hts.2 tl' hti
        refine ⟨fun hn => (by cases hn), ?_⟩
        intro r' hr'
        simp only [Option.some.injEq] at hr'
        subst hr'
        refine ⟨⟨sep, rfl, hlt⟩, rfl, ?_, ?_, ?_⟩
        · simp only [Rest.toList]
          rw [htl]
          exact (leafInsert_right_of_node child tl.toList k v s (hb s hs).1 hks).symm
        · simp only [Rest.WF]
          exact ⟨hc, hge, hwf, fun s' hs' => hb s' (by rw [← hfs]; exact hs')⟩
        · intro x hx
          simp only [Rest.keys, List.mem_cons, List.mem_append] at hx ⊢
          rcases hx with rfl | hx | hx
          · exact Or.inr (Or.inl rfl)
          · exact Or.inr (Or.inr (Or.inl hx))
          · rcases hkeys x hx with rfl | hx
            · exact Or.inl rfl
            · exact Or.inr (Or.inr (Or.inr hx))
      | none =>
        have hltt := hts.1 hti
        obtain ⟨hctl, hcwf, hckeys⟩ := Node.ins_spec child hc k v hkc
        have hge' : AllGe sep (child.ins k v).keys := by
          intro x hx
          rcases hckeys x hx with rfl | hx
          · exact hlt
          · exact hge x hx
        have hbound : ∀ s, Rest.firstSep tl = some s → AllLt s (child.ins k v).keys := by
          intro s hs x hx
          rcases hckeys x hx with rfl | hx
          · exact hltt s hs
          · exact (hb s hs).1 x hx
        simp only []
        refine ⟨fun hn => (by cases hci : child.ins k v <;> rw [hci] at hn <;> cases hn), ?_⟩
        intro r' hr'
        cases hci : child.ins k v with
        | one c' =>
          rw [hci] at hr' hctl hcwf hckeys hge' hbound
          simp only [Option.some.injEq] at hr'
          subst hr'
          simp only [Ins.toList, Ins.WF, Ins.keys] at hctl hcwf hckeys hge' hbound
          refine ⟨⟨sep, rfl, hlt⟩, rfl, ?_, ?_, ?_⟩
          · simp only [Rest.toList]
            rw [hctl]
            exact (leafInsert_left_of_rest tl ht k v hltt).symm
          · simp only [Rest.WF]
            exact ⟨hcwf, hge', ht, fun s' hs' => ⟨hbound s' hs', (hb s' hs').2⟩⟩
          · intro x hx
            simp only [Rest.keys, List.mem_cons, List.mem_append] at hx ⊢
            rcases hx with rfl | hx | hx
            · exact Or.inr (Or.inl rfl)
            · rcases hckeys x hx with rfl | hx
              · exact Or.inl rfl
              · exact Or.inr (Or.inr (Or.inl hx))
            · exact Or.inr (Or.inr (Or.inr hx))
        | split l s r =>
          rw [hci] at hr' hctl hcwf hckeys hge' hbound
          simp only [Option.some.injEq] at hr'
          subst hr'
          simp only [Ins.toList, Ins.WF, Ins.keys] at hctl hcwf hckeys hge' hbound
          obtain ⟨hl, hrw, hlts, hges⟩ := hcwf
          refine ⟨⟨sep, rfl, hlt⟩, rfl, ?_, ?_, ?_⟩
          · simp only [Rest.toList, ← List.append_assoc]
            rw [hctl]
            exact (leafInsert_left_of_rest tl ht k v hltt).symm
          · simp only [Rest.WF]
            refine ⟨hl, fun x hx => hge' x (by simp [hx]), ⟨hrw, hges, ht, ?_⟩, ?_⟩
            · intro s' hs'
              exact ⟨fun x hx => hbound s' hs' x (by simp [hx]), hbound s' hs' s (by simp)⟩
            · intro s' hs'
              simp only [Rest.firstSep, Option.some.injEq] at hs'
              subst hs'
              refine ⟨hlts, ?_⟩
              obtain ⟨x, hx⟩ := List.exists_mem_of_ne_nil _ (Node.keys_ne_nil l hl)
              exact lt_of_le_of_lt (hge' x (by simp [hx])) (hlts x hx)
          · intro x hx
            simp only [Rest.keys, List.mem_cons, List.mem_append] at hx ⊢
            have hcx : x = sep ∨ x ∈ l.keys ++ s :: r.keys ∨ x ∈ tl.keys := by
              simp only [List.mem_append, List.mem_cons]
              rcases hx with rfl | hx | rfl | hx | hx
              · exact Or.inl rfl
              · exact Or.inr (Or.inl (Or.inl hx))
              · exact Or.inr (Or.inl (Or.inr (Or.inl rfl)))
              · exact Or.inr (Or.inl (Or.inr (Or.inr hx)))
              · exact Or.inr (Or.inr hx)
            rcases hcx with rfl | hx | hx
            · exact Or.inr (Or.inl rfl)
            · rcases hckeys x hx with rfl | hx
              · exact Or.inl rfl
              · exact Or.inr (Or.inr (Or.inl hx))
            · exact Or.inr (Or.inr (Or.inr hx))
end

end NutsProofs.BPT
