/-
  NutsProofs.Lemmas.Paging — what the offset / limit walk of `PrefixScan` / `PrefixSearchScan` selects from the
  block of keys with the prefix: skip `offset` records (before the match test), keep the matching ones, stop
  after `limit` of them when `limit > 0`.
-/
import NutsProofs.Lemmas.PrefixRefine
namespace NutsProofs.Paging
open Nuts Nuts.Model Nuts.Model.DB NutsProofs

/-- skipping: the first `offset - coff` records are passed over, whatever they are -/
theorem go_skip (off lim : Int) (mt : Bytes → Bool) (l : List (Bytes × Idx)) (c : Int) (hc : c ≤ off) (acc : List Idx) :
    (prefixWalk.go off lim mt l c acc).1 = (prefixWalk.go off lim mt (l.drop (off - c).toNat) off acc).1 := by
  induction l generalizing c with
  | nil => simp [prefixWalk.go]
  | cons p rest ih =>
    by_cases hlt : c < off
    · have hn : (off - c).toNat = (off - (c + 1)).toNat + 1 := by omega
      rw [hn, List.drop_succ_cons]
      conv => lhs; unfold prefixWalk.go
      simp only [hlt, if_true]
      exact ih (c + 1) (by omega)
    · have : c = off := by omega
      subst this
      simp

/-- taking: from `coff = offset` on, the matching records are appended until there are `limit` of them -/
theorem go_take (off lim : Int) (mt : Bytes → Bool) (l : List (Bytes × Idx)) (acc : List Idx) (hacc : lim > 0 → (acc.length : Int) < lim) :
    (prefixWalk.go off lim mt l off acc).1 =
      acc ++ ((if lim > 0 then (l.filter fun p => mt p.1).take (lim.toNat - acc.length) else l.filter fun p => mt p.1).map (·.2)) := by
  induction l generalizing acc with
  | nil => simp [prefixWalk.go]
  | cons p rest ih =>
    unfold prefixWalk.go
    have hno : ¬ off < off := by omega
    simp only [hno, if_false, List.filter_cons]
    by_cases hm : mt p.1 = true
    · simp only [hm, Bool.not_true, Bool.false_eq_true, if_false, if_true]
      by_cases hl : lim > 0
      · have hlt := hacc hl
        simp only [hl, true_and, if_true]
        by_cases hfull : ((acc ++ [p.2]).length : Int) = lim
        · simp only [hfull, if_true]
          have : lim.toNat - acc.length = 1 := by simp at hfull; omega
          rw [this]; simp
        · simp only [hfull, if_false]
          have hlen : ((acc ++ [p.2]).length : Int) < lim := by simp at hfull ⊢; omega
          rw [ih (acc ++ [p.2]) (fun _ => hlen)]
          simp only [hl, if_true]
          have : lim.toNat - acc.length = (lim.toNat - (acc ++ [p.2]).length) + 1 := by simp at hlen ⊢; omega
          rw [this, List.take_succ_cons]
          simp
      · simp only [hl, false_and, if_false]
        rw [ih (acc ++ [p.2]) (fun h => absurd h hl)]
        simp [hl]
    · simp only [hm, Bool.not_false, if_true, Bool.false_eq_true, if_false]
      exact ih acc hacc

/-- the records the walk returns from a block: drop `offset`, keep the matching ones, take `limit` -/
theorem go_page (off lim : Int) (hoff : 0 ≤ off) (mt : Bytes → Bool) (l : List (Bytes × Idx)) :
    (prefixWalk.go off lim mt l 0 []).1 =
      (if lim > 0 then ((l.drop off.toNat).filter fun p => mt p.1).take lim.toNat else (l.drop off.toNat).filter fun p => mt p.1).map (·.2) := by
  rw [go_skip off lim mt l 0 hoff [], go_take off lim mt _ [] (by intro h; simpa using h)]
  simp

end NutsProofs.Paging
