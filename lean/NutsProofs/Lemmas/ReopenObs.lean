/-
  NutsProofs.Lemmas.ReopenObs — what the reads return after a reopen: a state whose index is the
  normalised index of another (same files, same options, same committed ids) answers every KV read with the
  same records, up to the status byte that no API returns.
-/
import NutsProofs.Lemmas.Reopen
namespace NutsProofs.Reopen
open Nuts Nuts.Model Nuts.Model.DB NutsProofs

/-- what a caller sees of a record: everything but the status byte -/
def vis (o : Outcome (Option Rec)) : Outcome (Option Rec) := o.map (Option.map committedRec)
def visL (o : Outcome (List (Option Rec))) : Outcome (List (Option Rec)) := o.map (List.map (Option.map committedRec))

/-- `s'` is `s` as recovery rebuilds it: the normalised index, the same committed ids, and every cached or
hinted record reads back the same -/
structure Rebuilt (s s' : State) : Prop where
  kv : s'.kv = normKV s.kv
  ids : ∀ id, id ∈ s'.committed ↔ id ∈ s.committed
  fetch : ∀ b m p, bucketIdx s b = some m → p ∈ m → vis (fetch s' (normIdx p.2)) = vis (fetch s p.2)

theorem dead_committedRec (r : Rec) (now : Nat) : dead (committedRec r) now = dead r now := rfl

/-- same files and options: hinted reads go to the same bytes -/
theorem Rebuilt.of_files {s s' : State} (kv : s'.kv = normKV s.kv) (files : s'.files = s.files) (opt : s'.opt = s.opt)
    (ids : ∀ id, id ∈ s'.committed ↔ id ∈ s.committed) : Rebuilt s s' := by
  refine ⟨kv, ids, ?_⟩
  intro b m p _ _
  unfold DB.fetch
  rw [opt, files]
  split <;> rfl

/-- key+value mode on both sides: reads never go to the files -/
theorem Rebuilt.of_mode0 {s s' : State} (kv : s'.kv = normKV s.kv) (m : s.opt.mode = 0) (m' : s'.opt.mode = 0)
    (ids : ∀ id, id ∈ s'.committed ↔ id ∈ s.committed) : Rebuilt s s' := by
  refine ⟨kv, ids, ?_⟩
  intro b mm p _ _
  unfold DB.fetch
  simp only [m, m', beq_self_eq_true, if_true]
  rfl

theorem aget_mem {α} (m : Assoc α) (k : Bytes) (v : α) (h : aget? m k = some v) : (k, v) ∈ m := by
  induction m with
  | nil => simp [aget?] at h
  | cons q rest ih =>
    obtain ⟨k', v'⟩ := q
    simp only [aget?] at h
    split at h
    · rename_i hk; cases h; subst hk; simp
    · exact List.mem_cons_of_mem _ (ih h)

theorem contains_rebuilt {s s' : State} (h : Rebuilt s s') (id : Nat) : s'.committed.contains id = s.committed.contains id := by
  have := h.ids id
  cases h1 : s'.committed.contains id <;> cases h2 : s.committed.contains id <;> simp_all

theorem bucketIdx_rebuilt {s s' : State} (h : Rebuilt s s') (b : Bytes) : bucketIdx s' b = (bucketIdx s b).map normBucket := by
  unfold bucketIdx
  rw [h.kv]
  exact aget_map normBucket s.kv b

/-- **Get after a reopen** -/
theorem get_rebuilt {s s' : State} (h : Rebuilt s s') (b k : Bytes) (now : Nat) : vis (DB.get s' b k now) = vis (DB.get s b k now) := by
  unfold DB.get
  rw [bucketIdx_rebuilt h b]
  cases hb : bucketIdx s b with
  | none => rfl
  | some m =>
    simp only [Option.map_some]
    have : aget? (normBucket m) k = (aget? m k).map normIdx := aget_map normIdx m k
    rw [this]
    cases hk : aget? m k with
    | none => rfl
    | some i =>
      simp only [Option.map_some]
      have hc : s'.committed.contains (normIdx i).r.txid = s.committed.contains i.r.txid := contains_rebuilt h _
      have hd : dead (normIdx i).r now = dead i.r now := rfl
      rw [hc, hd]
      split
      · rfl
      · split
        · rfl
        · exact h.fetch b m (k, i) hb (aget_mem m k i hk)

theorem wrapper_rebuilt {s s' : State} (recs : List Idx) (hf : ∀ i ∈ recs, vis (fetch s' (normIdx i)) = vis (fetch s i))
    (lim : Int) (now : Nat)
    (acc acc' : List (Option Rec)) (hacc : acc'.map (Option.map committedRec) = acc.map (Option.map committedRec)) :
    visL (wrapper s' (recs.map normIdx) lim now acc') = visL (wrapper s recs lim now acc) := by
  induction recs generalizing acc acc' with
  | nil => simp [wrapper, visL, Outcome.map, hacc]
  | cons i rest ih =>
    have hlen : acc'.length = acc.length := by
      have := congrArg List.length hacc; simpa using this
    simp only [List.map_cons, wrapper]
    have hd : dead (normIdx i).r now = dead i.r now := rfl
    rw [hd, hlen]
    have hrest : ∀ j ∈ rest, vis (fetch s' (normIdx j)) = vis (fetch s j) := fun j hj => hf j (by simp [hj])
    split
    · exact ih hrest acc acc' hacc
    · split
      · have hf := hf i (by simp)
        unfold vis at hf
        cases hf' : fetch s' (normIdx i) <;> cases hf0 : fetch s i <;> rw [hf', hf0] at hf <;>
          simp only [Outcome.map] at hf <;> try (cases hf)
        · rename_i e' e
          simp only
          apply ih hrest
          simp only [List.map_append, List.map_cons, List.map_nil, hacc]
          injection hf with hf
          rw [hf]
      · exact ih hrest acc acc' hacc

theorem nonEmptyOrErr_visL (o o' : Outcome (List (Option Rec))) (h : visL o' = visL o) :
    visL (nonEmptyOrErr o') = visL (nonEmptyOrErr o) := by
  cases o' <;> cases o <;> simp only [visL, Outcome.map] at h <;> try (cases h)
  · rename_i l' l
    injection h with h
    cases l' <;> cases l <;> simp at h
    · rfl
    · simp only [nonEmptyOrErr, visL, Outcome.map]
      simp [h]
  · rfl
  · rfl

theorem normBucket_vals (m : Assoc Idx) : (normBucket m).map (·.2) = (m.map (·.2)).map normIdx := by
  simp [normBucket, List.map_map, Function.comp]

/-- **GetAll after a reopen** -/
theorem getAll_rebuilt {s s' : State} (h : Rebuilt s s') (b : Bytes) (now : Nat) : visL (getAll s' b now) = visL (getAll s b now) := by
  unfold getAll
  rw [bucketIdx_rebuilt h b]
  cases hb : bucketIdx s b with
  | none => rfl
  | some m =>
    simp only [Option.map_some]
    have he : (normBucket m).isEmpty = m.isEmpty := by cases m <;> rfl
    rw [he]
    split
    · rfl
    · apply nonEmptyOrErr_visL
      rw [normBucket_vals]
      refine wrapper_rebuilt (m.map (·.2)) ?_ _ _ [] [] rfl
      intro i hi
      obtain ⟨p, hp, rfl⟩ := List.mem_map.mp hi
      exact h.fetch b m p hb hp

theorem normBucket_filter (m : Assoc Idx) (p : Bytes → Bool) :
    (normBucket m).filter (fun x => p x.1) = normBucket (m.filter fun x => p x.1) := by
  unfold normBucket
  rw [List.filter_map]
  rfl

/-- **RangeScan after a reopen** -/
theorem rangeScan_rebuilt {s s' : State} (h : Rebuilt s s') (b st en : Bytes) (now : Nat) :
    visL (rangeScan s' b st en now) = visL (rangeScan s b st en now) := by
  unfold rangeScan
  rw [bucketIdx_rebuilt h b]
  cases hb : bucketIdx s b with
  | none => rfl
  | some m =>
    simp only [Option.map_some]
    split
    · rfl
    · have hf := normBucket_filter m (fun k => ble st k && ble k en)
      rw [hf]
      have he : (normBucket (m.filter fun p => ble st p.1 && ble p.1 en)).isEmpty = (m.filter fun p => ble st p.1 && ble p.1 en).isEmpty := by
        cases (m.filter fun p => ble st p.1 && ble p.1 en) <;> rfl
      rw [he]
      split
      · rfl
      · apply nonEmptyOrErr_visL
        rw [normBucket_vals]
        refine wrapper_rebuilt _ ?_ _ _ [] [] rfl
        intro i hi
        obtain ⟨p, hp, rfl⟩ := List.mem_map.mp hi
        exact h.fetch b m p hb (List.mem_filter.mp hp).1

theorem prefixGo_norm (off lim : Int) (mt : Bytes → Bool) (l : List (Bytes × Idx)) (c : Int) (acc : List Idx) :
    prefixWalk.go off lim mt (normBucket l) c (acc.map normIdx) =
      ((prefixWalk.go off lim mt l c acc).1.map normIdx, (prefixWalk.go off lim mt l c acc).2) := by
  induction l generalizing c acc with
  | nil => simp [normBucket, prefixWalk.go]
  | cons p rest ih =>
    simp only [normBucket, List.map_cons]
    unfold prefixWalk.go
    split
    · exact ih _ _
    · split
      · exact ih _ _
      · simp only [List.length_append, List.length_map, List.length_cons, List.length_nil]
        split
        · simp
        · have := ih c (acc ++ [p.2])
          simpa [normBucket] using this

theorem prefixWalk_norm (m : Assoc Idx) (pre : Bytes) (off lim : Int) (mt : Bytes → Bool) :
    prefixWalk (normBucket m) pre off lim mt = ((prefixWalk m pre off lim mt).1.map normIdx, (prefixWalk m pre off lim mt).2) := by
  unfold prefixWalk
  simp only []
  have h1 : (normBucket m).dropWhile (fun p => blt p.1 pre) = normBucket (m.dropWhile fun p => blt p.1 pre) := by
    unfold normBucket; rw [List.dropWhile_map]; rfl
  have h2 : ∀ l : Assoc Idx, (normBucket l).takeWhile (fun p => hasPrefix p.1 pre) = normBucket (l.takeWhile fun p => hasPrefix p.1 pre) := by
    intro l; unfold normBucket; rw [List.takeWhile_map]; rfl
  rw [h1, h2]
  exact prefixGo_norm off lim mt _ 0 []

theorem prefixGo_subset (off lim : Int) (mt : Bytes → Bool) (l : List (Bytes × Idx)) (c : Int) (acc : List Idx) :
    ∀ i ∈ (prefixWalk.go off lim mt l c acc).1, i ∈ acc ∨ ∃ p ∈ l, p.2 = i := by
  induction l generalizing c acc with
  | nil => intro i hi; simp [prefixWalk.go] at hi; exact Or.inl hi
  | cons p rest ih =>
    intro i hi
    unfold prefixWalk.go at hi
    split at hi
    · rcases ih _ _ i hi with h | ⟨q, hq, hqi⟩
      · exact Or.inl h
      · exact Or.inr ⟨q, by simp [hq], hqi⟩
    · split at hi
      · rcases ih _ _ i hi with h | ⟨q, hq, hqi⟩
        · exact Or.inl h
        · exact Or.inr ⟨q, by simp [hq], hqi⟩
      · simp only [] at hi
        split at hi
        · simp only [List.mem_append, List.mem_singleton] at hi
          rcases hi with h | h
          · exact Or.inl h
          · exact Or.inr ⟨p, by simp, h.symm⟩
        · rcases ih _ _ i hi with h | ⟨q, hq, hqi⟩
          · simp only [List.mem_append, List.mem_singleton] at h
            rcases h with h | h
            · exact Or.inl h
            · exact Or.inr ⟨p, by simp, h.symm⟩
          · exact Or.inr ⟨q, by simp [hq], hqi⟩

theorem prefixWalk_subset (m : Assoc Idx) (pre : Bytes) (off lim : Int) (mt : Bytes → Bool) :
    ∀ i ∈ (prefixWalk m pre off lim mt).1, ∃ p ∈ m, p.2 = i := by
  intro i hi
  unfold prefixWalk at hi
  simp only [] at hi
  rcases prefixGo_subset off lim mt _ 0 [] i hi with h | ⟨p, hp, hpi⟩
  · cases h
  · exact ⟨p, (List.dropWhile_sublist _).subset ((List.takeWhile_sublist _).subset hp), hpi⟩

/-- **PrefixScan / PrefixSearchScan after a reopen** -/
theorem prefixScan_rebuilt {s s' : State} (h : Rebuilt s s') (b pre : Bytes) (off lim : Int) (now : Nat) (mt : Bytes → Bool) :
    visL (prefixScan s' b pre off lim now mt) = visL (prefixScan s b pre off lim now mt) := by
  unfold prefixScan
  rw [bucketIdx_rebuilt h b]
  cases hb : bucketIdx s b with
  | none => rfl
  | some m =>
    simp only [Option.map_some]
    rw [prefixWalk_norm]
    simp only []
    have he : ((prefixWalk m pre off lim mt).1.map normIdx).isEmpty = (prefixWalk m pre off lim mt).1.isEmpty := by
      cases (prefixWalk m pre off lim mt).1 <;> rfl
    rw [he]
    split
    · rfl
    · apply nonEmptyOrErr_visL
      refine wrapper_rebuilt _ ?_ _ _ [] [] rfl
      intro i hi
      obtain ⟨p, hp, hpi⟩ := prefixWalk_subset m pre off lim mt i hi
      rw [← hpi]
      exact h.fetch b m p hb hp

end NutsProofs.Reopen
