/-
  NutsProofs.Lemmas.Conc — the invariant of the locking protocol and its preservation by every
  scheduling step.
-/
import Nuts.Model.Conc
namespace NutsProofs.Conc
open Nuts.Model.Conc

variable {S O : Type}

/-! ### running steps -/

theorem run_append (a b : List (S → S × O)) (s : S) :
    run (a ++ b) s = ((run b (run a s).1).1, (run a s).2 ++ (run b (run a s).1).2) := by
  induction a generalizing s with
  | nil => simp [run]
  | cons f rest ih => simp [run, ih]

theorem run_single (f : S → S × O) (s : S) : run [f] s = ((f s).1, [(f s).2]) := by
  simp [run]

theorem run_take_succ (steps : List (S → S × O)) (pc : Nat) (f : S → S × O) (hf : steps[pc]? = some f) (s : S) :
    run (steps.take (pc + 1)) s =
      ((f (run (steps.take pc) s).1).1, (run (steps.take pc) s).2 ++ [(f (run (steps.take pc) s).1).2]) := by
  rw [List.take_add_one, hf, Option.toList_some, run_append, run_single]

theorem run_pure (steps : List (S → S × O)) (h : ∀ f ∈ steps, ∀ s, (f s).1 = s) (s : S) : (run steps s).1 = s := by
  induction steps generalizing s with
  | nil => rfl
  | cons f rest ih =>
    simp only [run]
    rw [ih (fun g hg => h g (by simp [hg]))]
    exact h f (by simp) s

theorem take_pure (steps : List (S → S × O)) (pc : Nat) (h : ∀ f ∈ steps, ∀ s, (f s).1 = s) :
    ∀ f ∈ steps.take pc, ∀ s, (f s).1 = s := fun f hf => h f (List.mem_of_mem_take hf)

/-! ### the serial order -/

/-- state after running, one after another, the programs of the logged transactions -/
def endState (progOf : Nat → Option (TxProg S O)) : S → List (Nat × S) → S
  | s, [] => s
  | s, (i, _) :: rest =>
    match progOf i with
    | some p => endState progOf (run p.steps s).1 rest
    | none => s

/-- every logged start state is the state the serial execution reaches at that point -/
def Chain (progOf : Nat → Option (TxProg S O)) : S → List (Nat × S) → Prop
  | _, [] => True
  | s, (i, si) :: rest => si = s ∧ ∃ p, progOf i = some p ∧ Chain progOf (run p.steps s).1 rest

theorem endState_append (progOf : Nat → Option (TxProg S O)) (s : S) (log : List (Nat × S)) (i : Nat) (si : S) (p : TxProg S O)
    (hp : progOf i = some p) (hc : Chain progOf s log) :
    endState progOf s (log ++ [(i, si)]) = (run p.steps (endState progOf s log)).1 := by
  induction log generalizing s with
  | nil => simp [endState, hp]
  | cons x rest ih =>
    obtain ⟨j, sj⟩ := x
    obtain ⟨_, q, hq, hrest⟩ := hc
    simp only [List.cons_append, endState, hq]
    exact ih _ hrest

theorem chain_append (progOf : Nat → Option (TxProg S O)) (s : S) (log : List (Nat × S)) (i : Nat) (si : S) (p : TxProg S O)
    (hp : progOf i = some p) (hc : Chain progOf s log) (hs : si = endState progOf s log) :
    Chain progOf s (log ++ [(i, si)]) := by
  induction log generalizing s with
  | nil => simp only [List.nil_append, Chain, endState] at hs ⊢; exact ⟨hs, p, hp, trivial⟩
  | cons x rest ih =>
    obtain ⟨j, sj⟩ := x
    obtain ⟨h1, q, hq, hrest⟩ := hc
    simp only [endState, hq] at hs
    exact ⟨h1, q, hq, ih _ hrest hs⟩

theorem chain_last (progOf : Nat → Option (TxProg S O)) (s : S) (log : List (Nat × S)) (i : Nat) (si : S)
    (hc : Chain progOf s (log ++ [(i, si)])) : Chain progOf s log ∧ si = endState progOf s log := by
  induction log generalizing s with
  | nil => simp only [List.nil_append, Chain, endState] at hc ⊢; exact ⟨trivial, hc.1⟩
  | cons x rest ih =>
    obtain ⟨j, sj⟩ := x
    obtain ⟨h1, q, hq, hrest⟩ := hc
    have := ih _ hrest
    simp only [endState, hq]
    exact ⟨⟨h1, q, hq, this.1⟩, this.2⟩

/-! ### the invariant -/

structure Inv (progs : List (TxProg S O)) (st0 : S) (sys : Sys S O) : Prop where
  prog : ∀ (i : Nat) (t : Thread S O), sys.threads[i]? = some t → progs[i]? = some t.prog
  logged : ∀ (i : Nat) (t : Thread S O), sys.threads[i]? = some t → t.phase ≠ .idle → (i, t.s0) ∈ sys.log
  oflog : ∀ (i : Nat) (s : S), (i, s) ∈ sys.log → ∃ t, sys.threads[i]? = some t ∧ t.phase ≠ .idle ∧ t.s0 = s
  nodup : (sys.log.map (·.1)).Nodup
  chain : Chain (fun i => progs[i]?) st0 sys.log
  excl : ∀ (i j : Nat) (ti tj : Thread S O), sys.threads[i]? = some ti → sys.threads[j]? = some tj → i ≠ j → inBody ti = true → inBody tj = true →
    ti.prog.mode = .r ∧ tj.prog.mode = .r
  body : ∀ (i : Nat) (t : Thread S O) (pc : Nat), sys.threads[i]? = some t → t.phase = .body pc →
    pc ≤ t.prog.steps.length ∧ t.obs = (run (t.prog.steps.take pc) t.s0).2 ∧ (t.prog.mode = .r → sys.st = t.s0)
  writer : ∀ (i : Nat) (t : Thread S O) (pc : Nat), sys.threads[i]? = some t → t.phase = .body pc → t.prog.mode = .w →
    (∃ l, sys.log = l ++ [(i, t.s0)]) ∧ sys.st = (run (t.prog.steps.take pc) t.s0).1
  finished : ∀ (i : Nat) (t : Thread S O), sys.threads[i]? = some t → t.phase = .done → t.obs = (run t.prog.steps t.s0).2
  quiet : (∀ (i : Nat) (t : Thread S O), sys.threads[i]? = some t → inBody t = true → t.prog.mode = .r) →
    sys.st = endState (fun i => progs[i]?) st0 sys.log

theorem inBody_body (t : Thread S O) (pc : Nat) (h : t.phase = .body pc) : inBody t = true := by
  simp [inBody, h]

theorem inBody_iff (t : Thread S O) : inBody t = true ↔ ∃ pc, t.phase = .body pc := by
  unfold inBody
  cases t.phase <;> simp

theorem init_inv (progs : List (TxProg S O)) (st0 : S) : Inv progs st0 (initSys st0 progs) := by
  have hidle : ∀ (i : Nat) (t : Thread S O), (initSys st0 progs).threads[i]? = some t → t.phase = .idle := by
    intro i t h
    simp only [initSys, List.getElem?_map] at h
    cases hp : progs[i]? with
    | none => simp [hp] at h
    | some p => simp [hp] at h; rw [← h]
  constructor
  · intro i t h
    simp only [initSys, List.getElem?_map] at h
    cases hp : progs[i]? with
    | none => simp [hp] at h
    | some p => simp [hp] at h; rw [← h]
  · intro i t h hne; exact absurd (hidle i t h) hne
  · intro i s h; simp [initSys] at h
  · simp [initSys]
  · simp [initSys, Chain]
  · intro i j ti tj hi _ _ hb _
    have := hidle i ti hi
    simp [inBody, this] at hb
  · intro i t pc h hp; have := hidle i t h; rw [this] at hp; cases hp
  · intro i t pc h hp; have := hidle i t h; rw [this] at hp; cases hp
  · intro i t h hp; have := hidle i t h; rw [this] at hp; cases hp
  · intro _; simp [initSys, endState]

/-- nobody is inside when a writer may acquire; no writer is inside when anybody may acquire -/
theorem canAcquire_no_writer (sys : Sys S O) (m : Mode) (h : canAcquire sys m = true) :
    ∀ (j : Nat) (tj : Thread S O), sys.threads[j]? = some tj → inBody tj = true → tj.prog.mode = .r := by
  intro j tj hj hb
  have hmem : tj ∈ sys.threads := List.mem_iff_getElem?.mpr ⟨j, hj⟩
  cases m with
  | w =>
    simp only [canAcquire, anyIn, Bool.not_eq_true', List.any_eq_false] at h
    exact absurd hb (by simpa using h tj hmem)
  | r =>
    simp only [canAcquire, writerIn, Bool.not_eq_true', List.any_eq_false] at h
    have := h tj hmem
    simp only [hb, Bool.true_and, beq_iff_eq] at this
    cases hm : tj.prog.mode with
    | r => rfl
    | w => exact absurd hm this

theorem canAcquire_w_nobody (sys : Sys S O) (h : canAcquire sys .w = true) :
    ∀ (j : Nat) (tj : Thread S O), sys.threads[j]? = some tj → inBody tj = false := by
  intro j tj hj
  have hmem : tj ∈ sys.threads := List.mem_iff_getElem?.mpr ⟨j, hj⟩
  simp only [canAcquire, anyIn, Bool.not_eq_true', List.any_eq_false] at h
  simpa using h tj hmem


theorem get_set (l : List (Thread S O)) (i : Nat) (t t' : Thread S O) (hi : l[i]? = some t) (j : Nat) :
    (l.set i t')[j]? = if i = j then some t' else l[j]? := by
  have hlt : i < l.length := by
    rcases Nat.lt_or_ge i l.length with h | h
    · exact h
    · rw [List.getElem?_eq_none h] at hi; cases hi
  rw [List.getElem?_set]
  simp [hlt]

theorem log_idle_notin (progs : List (TxProg S O)) (st0 : S) (sys : Sys S O) (h : Inv progs st0 sys) (i : Nat) (t : Thread S O)
    (hi : sys.threads[i]? = some t) (hp : t.phase = .idle) : ∀ s, (i, s) ∉ sys.log := by
  intro s hmem
  obtain ⟨t', ht', hne, _⟩ := h.oflog i s hmem
  rw [hi] at ht'
  cases ht'
  exact hne hp

/-! ### preservation: acquiring the lock -/

theorem acquire_inv (progs : List (TxProg S O)) (st0 : S) (hpure : ∀ p ∈ progs, p.ReadPure) (sys : Sys S O) (h : Inv progs st0 sys)
    (i : Nat) (t : Thread S O) (hi : sys.threads[i]? = some t) (hp : t.phase = .idle) (hc : canAcquire sys t.prog.mode = true) :
    Inv progs st0 { sys with threads := sys.threads.set i { t with phase := .body 0, s0 := sys.st, obs := [] },
                             log := sys.log ++ [(i, sys.st)] } := by
  have hget := get_set sys.threads i t { t with phase := .body 0, s0 := sys.st, obs := [] } hi
  have hnowriter := canAcquire_no_writer sys _ hc
  have hquiet : sys.st = endState (fun i => progs[i]?) st0 sys.log := h.quiet hnowriter
  have hprog : progs[i]? = some t.prog := h.prog i t hi
  have hnotin := log_idle_notin progs st0 sys h i t hi hp
  constructor
  · -- prog
    intro j tj hj
    simp only [hget] at hj
    split at hj
    · rename_i hij; subst hij; cases hj; exact hprog
    · exact h.prog j tj hj
  · -- logged
    intro j tj hj hne
    simp only [hget] at hj
    simp only [List.mem_append, List.mem_singleton]
    split at hj
    · rename_i hij; subst hij; cases hj; right; rfl
    · left; exact h.logged j tj hj hne
  · -- oflog
    intro j s hmem
    simp only [List.mem_append, List.mem_singleton] at hmem
    simp only [hget]
    rcases hmem with hmem | heq
    · obtain ⟨tj, htj, hne, hs⟩ := h.oflog j s hmem
      have hij : i ≠ j := by
        intro hij; subst hij; exact hnotin s hmem
      simp only [hij, if_false]
      exact ⟨tj, htj, hne, hs⟩
    · cases heq
      simp only [if_true]
      exact ⟨_, rfl, by simp, rfl⟩
  · -- nodup
    simp only [List.map_append, List.map_cons, List.map_nil]
    rw [List.nodup_append]
    refine ⟨h.nodup, by simp, ?_⟩
    intro a ha b hb
    simp only [List.mem_singleton] at hb
    subst hb
    intro hab
    subst hab
    simp only [List.mem_map] at ha
    obtain ⟨⟨a', s⟩, hmem, rfl⟩ := ha
    exact hnotin s hmem
  · -- chain
    exact chain_append _ st0 sys.log i sys.st t.prog hprog h.chain hquiet
  · -- excl
    intro a b ta tb ha hb hab hba hbb
    simp only [hget] at ha hb
    split at ha
    · rename_i hia; subst hia; cases ha
      have hib : ¬ i = b := hab
      simp only [hib, if_false] at hb
      -- the newcomer against somebody inside
      cases hm : t.prog.mode with
      | w =>
        rw [hm] at hc
        have := canAcquire_w_nobody sys hc b tb hb
        rw [this] at hbb; cases hbb
      | r => exact ⟨rfl, hnowriter b tb hb hbb⟩
    · split at hb
      · rename_i hib; subst hib; cases hb
        cases hm : t.prog.mode with
        | w =>
          rw [hm] at hc
          have := canAcquire_w_nobody sys hc a ta ha
          rw [this] at hba; cases hba
        | r => exact ⟨hnowriter a ta ha hba, rfl⟩
      · exact h.excl a b ta tb ha hb hab hba hbb
  · -- body
    intro j tj pc hj hph
    simp only [hget] at hj
    split at hj
    · cases hj
      simp only at hph
      cases hph
      simp [run]
    · exact h.body j tj pc hj hph
  · -- writer
    intro j tj pc hj hph hm
    simp only [hget] at hj
    split at hj
    · rename_i hij; subst hij; cases hj
      simp only at hph
      cases hph
      exact ⟨⟨sys.log, rfl⟩, by simp [run]⟩
    · -- another writer inside: impossible, nobody could acquire
      have := hnowriter j tj hj (inBody_body tj pc hph)
      rw [this] at hm; cases hm
  · -- finished
    intro j tj hj hph
    simp only [hget] at hj
    split at hj
    · cases hj; simp only at hph; cases hph
    · exact h.finished j tj hj hph
  · -- quiet
    intro hall
    simp only
    rw [endState_append _ st0 sys.log i sys.st t.prog hprog h.chain, ← hquiet]
    have hr : t.prog.mode = .r := by
      have := hall i { t with phase := .body 0, s0 := sys.st, obs := [] } (by simp [hget]) (by simp [inBody])
      exact this
    have hmem : t.prog ∈ progs := List.mem_iff_getElem?.mpr ⟨i, hprog⟩
    exact (run_pure _ (hpure _ hmem hr) _).symm


/-! ### preservation: one step inside the transaction -/

theorem step_inv (progs : List (TxProg S O)) (st0 : S) (hpure : ∀ p ∈ progs, p.ReadPure) (sys : Sys S O) (h : Inv progs st0 sys)
    (i : Nat) (t : Thread S O) (pc : Nat) (f : S → S × O) (hi : sys.threads[i]? = some t)
    (hp : t.phase = .body pc) (hf : t.prog.steps[pc]? = some f) :
    Inv progs st0 { sys with st := (f sys.st).1,
                             threads := sys.threads.set i { t with phase := .body (pc + 1), obs := t.obs ++ [(f sys.st).2] } } := by
  have hget := get_set sys.threads i t { t with phase := .body (pc + 1), obs := t.obs ++ [(f sys.st).2] } hi
  have hprog : progs[i]? = some t.prog := h.prog i t hi
  have hmemp : t.prog ∈ progs := List.mem_iff_getElem?.mpr ⟨i, hprog⟩
  have hin : inBody t = true := inBody_body t pc hp
  obtain ⟨hpc, hobs, hrd⟩ := h.body i t pc hi hp
  have hlt : pc < t.prog.steps.length := by
    rcases Nat.lt_or_ge pc t.prog.steps.length with hh | hh
    · exact hh
    · rw [List.getElem?_eq_none hh] at hf; cases hf
  have hfmem : f ∈ t.prog.steps := List.mem_of_getElem? hf
  -- the state the step starts from is the one reached by the first pc steps from s0
  have hcur : sys.st = (run (t.prog.steps.take pc) t.s0).1 := by
    cases hm : t.prog.mode with
    | w => exact (h.writer i t pc hi hp hm).2
    | r =>
      rw [hrd hm]
      exact (run_pure _ (take_pure _ pc (hpure _ hmemp hm)) _).symm
  -- a reader's step leaves the state alone
  have hsame : t.prog.mode = .r → (f sys.st).1 = sys.st := fun hm => hpure _ hmemp hm f hfmem sys.st
  constructor
  · intro j tj hj
    simp only [hget] at hj
    split at hj
    · rename_i hij; subst hij; cases hj; exact hprog
    · exact h.prog j tj hj
  · intro j tj hj hne
    simp only [hget] at hj
    split at hj
    · rename_i hij; subst hij; cases hj; exact h.logged i t hi (by rw [hp]; simp)
    · exact h.logged j tj hj hne
  · intro j s hmem
    obtain ⟨tj, htj, hne, hs⟩ := h.oflog j s hmem
    simp only [hget]
    split
    · rename_i hij; subst hij
      rw [hi] at htj; cases htj
      exact ⟨_, rfl, by simp, hs⟩
    · exact ⟨tj, htj, hne, hs⟩
  · exact h.nodup
  · exact h.chain
  · intro a b ta tb ha hb hab hba hbb
    simp only [hget] at ha hb
    split at ha
    · rename_i hia; subst hia; cases ha
      have hib : ¬ i = b := hab
      simp only [hib, if_false] at hb
      exact h.excl i b t tb hi hb hab hin hbb
    · split at hb
      · rename_i hib; subst hib; cases hb
        exact h.excl a i ta t ha hi hab hba hin
      · exact h.excl a b ta tb ha hb hab hba hbb
  · intro j tj pc' hj hph
    simp only [hget] at hj
    split at hj
    · cases hj
      simp only at hph
      cases hph
      refine ⟨hlt, ?_, ?_⟩
      · simp only
        rw [run_take_succ _ pc f hf, hobs, hcur]
      · intro hm
        simp only
        rw [hsame hm]; exact hrd hm
    · rename_i hij
      obtain ⟨h1, h2, h3⟩ := h.body j tj pc' hj hph
      refine ⟨h1, h2, ?_⟩
      intro hm
      -- both inside, so both are readers: the state did not move
      have := h.excl i j t tj hi hj hij hin (inBody_body tj pc' hph)
      simp only
      rw [hsame this.1]; exact h3 hm
  · intro j tj pc' hj hph hm
    simp only [hget] at hj
    split at hj
    · rename_i hij; subst hij; cases hj
      simp only at hph hm
      cases hph
      refine ⟨(h.writer i t pc hi hp hm).1, ?_⟩
      simp only
      rw [run_take_succ _ pc f hf, hcur]
    · rename_i hij
      have := h.excl i j t tj hi hj hij hin (inBody_body tj pc' hph)
      rw [this.2] at hm; cases hm
  · intro j tj hj hph
    simp only [hget] at hj
    split at hj
    · cases hj; simp only at hph; cases hph
    · exact h.finished j tj hj hph
  · intro hall
    have hr : t.prog.mode = .r := by
      have := hall i { t with phase := .body (pc + 1), obs := t.obs ++ [(f sys.st).2] } (by simp [hget]) (by simp [inBody])
      exact this
    simp only
    rw [hsame hr]
    apply h.quiet
    intro j tj hj hbj
    by_cases hij : i = j
    · subst hij; rw [hi] at hj; cases hj; exact hr
    · have := hall j tj (by simp only [hget, hij, if_false]; exact hj) hbj
      exact this

/-! ### preservation: releasing the lock -/

theorem release_inv (progs : List (TxProg S O)) (st0 : S) (hpure : ∀ p ∈ progs, p.ReadPure) (sys : Sys S O) (h : Inv progs st0 sys)
    (i : Nat) (t : Thread S O) (pc : Nat) (hi : sys.threads[i]? = some t)
    (hp : t.phase = .body pc) (hend : pc = t.prog.steps.length) :
    Inv progs st0 { sys with threads := sys.threads.set i { t with phase := .done } } := by
  have hget := get_set sys.threads i t { t with phase := .done } hi
  have hprog : progs[i]? = some t.prog := h.prog i t hi
  have hmemp : t.prog ∈ progs := List.mem_iff_getElem?.mpr ⟨i, hprog⟩
  have hin : inBody t = true := inBody_body t pc hp
  obtain ⟨_, hobs, hrd⟩ := h.body i t pc hi hp
  constructor
  · intro j tj hj
    simp only [hget] at hj
    split at hj
    · rename_i hij; subst hij; cases hj; exact hprog
    · exact h.prog j tj hj
  · intro j tj hj hne
    simp only [hget] at hj
    split at hj
    · rename_i hij; subst hij; cases hj; exact h.logged i t hi (by rw [hp]; simp)
    · exact h.logged j tj hj hne
  · intro j s hmem
    obtain ⟨tj, htj, hne, hs⟩ := h.oflog j s hmem
    simp only [hget]
    split
    · rename_i hij; subst hij
      rw [hi] at htj; cases htj
      exact ⟨_, rfl, by simp, hs⟩
    · exact ⟨tj, htj, hne, hs⟩
  · exact h.nodup
  · exact h.chain
  · intro a b ta tb ha hb hab hba hbb
    simp only [hget] at ha hb
    split at ha
    · cases ha; simp [inBody] at hba
    · split at hb
      · cases hb; simp [inBody] at hbb
      · exact h.excl a b ta tb ha hb hab hba hbb
  · intro j tj pc' hj hph
    simp only [hget] at hj
    split at hj
    · cases hj; simp only at hph; cases hph
    · exact h.body j tj pc' hj hph
  · intro j tj pc' hj hph hm
    simp only [hget] at hj
    split at hj
    · cases hj; simp only at hph; cases hph
    · exact h.writer j tj pc' hj hph hm
  · intro j tj hj hph
    simp only [hget] at hj
    split at hj
    · cases hj
      simp only
      rw [hobs, hend, List.take_length]
    · exact h.finished j tj hj hph
  · intro hall
    simp only
    cases hm : t.prog.mode with
    | r =>
      apply h.quiet
      intro j tj hj hbj
      by_cases hij : i = j
      · subst hij; rw [hi] at hj; cases hj; exact hm
      · exact hall j tj (by simp only [hget, hij, if_false]; exact hj) hbj
    | w =>
      obtain ⟨⟨l, hl⟩, hst⟩ := h.writer i t pc hi hp hm
      have hch := h.chain
      rw [hl] at hch
      obtain ⟨hcl, hs0⟩ := chain_last _ st0 l i t.s0 hch
      rw [hl, endState_append _ st0 l i t.s0 t.prog hprog hcl, ← hs0, hst, hend, List.take_length]

/-- **the invariant holds along every execution, whatever the schedule** -/
theorem reach_inv (progs : List (TxProg S O)) (st0 : S) (hpure : ∀ p ∈ progs, p.ReadPure) (sys : Sys S O)
    (hr : Reach (initSys st0 progs) sys) : Inv progs st0 sys := by
  induction hr with
  | refl => exact init_inv progs st0
  | tail _ hstep ih =>
    cases hstep with
    | acquire i t hi hp hc => exact acquire_inv progs st0 hpure _ ih i t hi hp hc
    | step i t pc f hi hp hf => exact step_inv progs st0 hpure _ ih i t pc f hi hp hf
    | release i t pc hi hp hend => exact release_inv progs st0 hpure _ ih i t pc hi hp hend

end NutsProofs.Conc
