/-
  NutsProofs.Lemmas.Codec — little-endian integers, `copy`/slice algebra, and the header codec that is
  defined from a layout table: reading a field back from an encoded header returns the value written,
  for **every** table whose fields are pairwise disjoint and inside the header.
-/
import Nuts.Model.Codec
namespace NutsProofs.Codec
open Nuts Nuts.Model.Codec

/-! ### little-endian -/

@[simp] theorem leBytes_length (w v : Nat) : (leBytes w v).length = w := by
  induction w generalizing v with
  | zero => rfl
  | succ w ih => simp [leBytes, ih]

theorem leVal_leBytes (w v : Nat) (h : v < 256 ^ w) : leVal (leBytes w v) = v := by
  induction w generalizing v with
  | zero => simp [leBytes, leVal]; simp at h; omega
  | succ w ih =>
    have h1 : v / 256 < 256 ^ w := by
      apply Nat.div_lt_of_lt_mul
      rw [Nat.pow_succ, Nat.mul_comm] at h
      exact h
    have h2 : (UInt8.ofNat (v % 256)).toNat = v % 256 := by
      simp [UInt8.toNat_ofNat']
    simp only [leBytes, leVal, ih _ h1, h2]
    omega

theorem leVal_lt (b : Bytes) : leVal b < 256 ^ b.length := by
  induction b with
  | nil => simp [leVal]
  | cons x r ih =>
    have hx : x.toNat < 256 := x.toNat_lt
    simp only [leVal, List.length_cons, Nat.pow_succ]
    omega

/-- a little-endian string is determined by its value -/
theorem leBytes_leVal (b : Bytes) : leBytes b.length (leVal b) = b := by
  induction b with
  | nil => rfl
  | cons x r ih =>
    have hx : x.toNat < 256 := x.toNat_lt
    have h1 : (x.toNat + 256 * leVal r) % 256 = x.toNat := by omega
    have h2 : (x.toNat + 256 * leVal r) / 256 = leVal r := by omega
    simp only [leVal, List.length_cons, leBytes, h1, h2, ih, UInt8.ofNat_toNat]

/-! ### `copy` and slices -/

theorem getElem?_writeAt (buf : Bytes) (lo : Nat) (data : Bytes) (i : Nat) (h : lo + data.length ≤ buf.length) :
    (writeAt buf lo data)[i]? =
      if i < lo then buf[i]? else if i < lo + data.length then data[i - lo]? else buf[i]? := by
  unfold writeAt
  have hl : (buf.take lo).length = lo := by simp; omega
  rw [List.append_assoc, List.getElem?_append, hl]
  split
  · rw [List.getElem?_take]; simp [*]
  · rename_i h1
    rw [List.getElem?_append]
    split
    · rename_i h2
      have : i < lo + data.length := by omega
      simp [this]
    · rename_i h2
      have : ¬ i < lo + data.length := by omega
      simp only [this, if_false]
      rw [List.getElem?_drop]
      congr 1
      omega

@[simp] theorem writeAt_length (buf : Bytes) (lo : Nat) (data : Bytes) (h : lo + data.length ≤ buf.length) :
    (writeAt buf lo data).length = buf.length := by
  unfold writeAt
  simp
  omega

theorem getElem?_slice (buf : Bytes) (lo hi i : Nat) :
    (slice buf lo hi)[i]? = if i < hi - lo then buf[lo + i]? else none := by
  unfold slice
  rw [List.getElem?_take, List.getElem?_drop]

theorem slice_writeAt_same (buf : Bytes) (lo : Nat) (data : Bytes) (h : lo + data.length ≤ buf.length) :
    slice (writeAt buf lo data) lo (lo + data.length) = data := by
  apply List.ext_getElem?
  intro i
  rw [getElem?_slice, getElem?_writeAt _ _ _ _ h]
  by_cases hi : i < data.length
  · have h1 : i < lo + data.length - lo := by omega
    have h2 : ¬ lo + i < lo := by omega
    have h3 : lo + i < lo + data.length := by omega
    simp only [h1, h2, h3, if_true, if_false]
    congr 1; omega
  · have h1 : ¬ i < lo + data.length - lo := by omega
    simp only [h1, if_false]
    rw [eq_comm, List.getElem?_eq_none_iff]; omega

theorem slice_writeAt_disj (buf : Bytes) (lo : Nat) (data : Bytes) (lo' hi' : Nat) (h : lo + data.length ≤ buf.length)
    (hd : hi' ≤ lo ∨ lo + data.length ≤ lo') : slice (writeAt buf lo data) lo' hi' = slice buf lo' hi' := by
  apply List.ext_getElem?
  intro i
  rw [getElem?_slice, getElem?_slice, getElem?_writeAt _ _ _ _ h]
  by_cases hi : i < hi' - lo'
  · simp only [hi, if_true]
    rcases hd with hd | hd
    · have : lo' + i < lo := by omega
      simp [this]
    · have h1 : ¬ lo' + i < lo := by omega
      have h2 : ¬ lo' + i < lo + data.length := by omega
      simp [h1, h2]
  · simp [hi]

theorem slice_full (buf : Bytes) (lo : Nat) : slice buf lo buf.length = buf.drop lo := by
  unfold slice
  apply List.take_of_length_le
  simp

theorem slice_append_left (a b : Bytes) (lo hi : Nat) (h : hi ≤ a.length) : slice (a ++ b) lo hi = slice a lo hi := by
  apply List.ext_getElem?
  intro i
  rw [getElem?_slice, getElem?_slice]
  by_cases hi' : i < hi - lo
  · simp only [hi', if_true]
    rw [List.getElem?_append_left (by omega)]
  · simp [hi']

/-! ### header fields -/

abbrev Field := String × Nat × Nat × Nat

/-- the slice has the width of the integer written into it and lies inside `n` bytes -/
def FieldOK (n : Nat) (f : Field) : Prop := f.2.1 + f.2.2.2 = f.2.2.1 ∧ f.2.2.1 ≤ n
def Disj (f g : Field) : Prop := f.2.2.1 ≤ g.2.1 ∨ g.2.2.1 ≤ f.2.1

instance (n : Nat) (f : Field) : Decidable (FieldOK n f) := by unfold FieldOK; exact inferInstance
instance (f g : Field) : Decidable (Disj f g) := by unfold Disj; exact inferInstance

theorem putFields_cons (f : Field) (L : Layout) (vals : Vals) (buf : Bytes) :
    putFields (f :: L) vals buf = putFields L vals (writeAt buf f.2.1 (leBytes f.2.2.2 (valOf vals f.1))) := rfl

theorem putFields_length (L : Layout) (vals : Vals) (buf : Bytes) (hok : ∀ f ∈ L, FieldOK buf.length f) :
    (putFields L vals buf).length = buf.length := by
  induction L generalizing buf with
  | nil => rfl
  | cons f L ih =>
    have hf := hok f (by simp)
    have hw : (writeAt buf f.2.1 (leBytes f.2.2.2 (valOf vals f.1))).length = buf.length :=
      writeAt_length _ _ _ (by simp; unfold FieldOK at hf; omega)
    rw [putFields_cons, ih _ (by intro g hg; rw [hw]; exact hok g (by simp [hg])), hw]

/-- fields written elsewhere do not disturb a slice -/
theorem slice_putFields_other (L : Layout) (vals : Vals) (buf : Bytes) (lo hi : Nat)
    (hok : ∀ f ∈ L, FieldOK buf.length f) (hd : ∀ f ∈ L, f.2.2.1 ≤ lo ∨ hi ≤ f.2.1) :
    slice (putFields L vals buf) lo hi = slice buf lo hi := by
  induction L generalizing buf with
  | nil => rfl
  | cons f L ih =>
    have hf := hok f (by simp)
    unfold FieldOK at hf
    have hb : f.2.1 + (leBytes f.2.2.2 (valOf vals f.1)).length ≤ buf.length := by simp; omega
    have hw := writeAt_length buf f.2.1 (leBytes f.2.2.2 (valOf vals f.1)) hb
    rw [putFields_cons, ih _ (by intro g hg; rw [hw]; exact hok g (by simp [hg])) (by intro g hg; exact hd g (by simp [hg]))]
    apply slice_writeAt_disj _ _ _ _ _ hb
    have := hd f (by simp)
    simp only [leBytes_length]
    omega

/-- **reading a field back**: for any layout with pairwise disjoint, well-sized fields -/
theorem slice_putFields_mem (L : Layout) (vals : Vals) (buf : Bytes)
    (hok : ∀ f ∈ L, FieldOK buf.length f) (hpw : L.Pairwise Disj) (f : Field) (hf : f ∈ L) :
    slice (putFields L vals buf) f.2.1 f.2.2.1 = leBytes f.2.2.2 (valOf vals f.1) := by
  induction L generalizing buf with
  | nil => cases hf
  | cons g L ih =>
    have hg := hok g (by simp)
    unfold FieldOK at hg
    have hb : g.2.1 + (leBytes g.2.2.2 (valOf vals g.1)).length ≤ buf.length := by simp; omega
    have hw := writeAt_length buf g.2.1 (leBytes g.2.2.2 (valOf vals g.1)) hb
    have hok' : ∀ f ∈ L, FieldOK (writeAt buf g.2.1 (leBytes g.2.2.2 (valOf vals g.1))).length f := by
      intro x hx; rw [hw]; exact hok x (by simp [hx])
    rw [List.pairwise_cons] at hpw
    rw [putFields_cons]
    rcases List.mem_cons.mp hf with rfl | hfl
    · rw [slice_putFields_other L vals _ f.2.1 f.2.2.1 hok' (by
        intro x hx
        have := hpw.1 x hx
        unfold Disj at this
        omega)]
      have := slice_writeAt_same buf f.2.1 (leBytes f.2.2.2 (valOf vals f.1)) hb
      simp only [leBytes_length] at this
      rw [hg.1] at this
      exact this
    · exact ih _ hok' hpw.2 hfl

/-- the decoder's lookup of a field by name -/
theorem valOf_getFields (D : Layout) (hdr : Bytes) (f : Field) (hf : f ∈ D)
    (huniq : D.Pairwise fun a b => a.1 ≠ b.1) :
    valOf (getFields D hdr) f.1 = leVal (slice hdr f.2.1 f.2.2.1) := by
  induction D with
  | nil => cases hf
  | cons g D ih =>
    rw [List.pairwise_cons] at huniq
    rcases List.mem_cons.mp hf with rfl | hfl
    · simp [getFields, valOf]
    · have hne : g.1 ≠ f.1 := huniq.1 f hfl
      have := ih hfl huniq.2
      simp only [getFields, valOf, List.map_cons, List.find?_cons] at this ⊢
      have hb : (g.1 == f.1) = false := by simpa using hne
      simp only [hb]
      exact this

theorem valOf_cons_ne (n m : String) (v : Nat) (rest : Vals) (h : n ≠ m) : valOf ((n, v) :: rest) m = valOf rest m := by
  simp [valOf, h]

theorem valOf_cons_eq (n : String) (v : Nat) (rest : Vals) : valOf ((n, v) :: rest) n = v := by
  simp [valOf]

end NutsProofs.Codec
