/-
  NutsProofs.Lemmas.Isolation — buckets do not interfere, at the level of whole histories.

  What a bucket holds — its key/value index (keys, order, cached records), its list, set and sorted-set
  structures — is a function of the records that *name that bucket*, in log order: every record of any other
  bucket can be dropped from the log without changing it (`foldSV_project`, `foldLog_project`). Bucket names
  are compared as whole byte strings by the per-bucket maps, so names that are prefixes of each other, empty
  names, and bucket+key concatenations that coincide are all covered: the only hypothesis is `≠`.
-/
import NutsProofs.Lemmas.ReopenAll
namespace NutsProofs.Isolation
open Nuts Nuts.Model Nuts.Model.DB NutsProofs NutsProofs.Reopen NutsProofs.ReopenAll

/-! ### lists, sets, sorted sets -/

/-- what bucket `b` holds in the three structure maps -/
def viewSV (v : SV) (b : Bytes) : Option ListDS.St × Option SetDS.St × Option ZSetA.St :=
  (aget? v.lists b, aget? v.sets b, aget? v.zsets b)

theorem stepSV_frame (v : SV) (r : Rec) (c : Bool) (b : Bytes) (h : b ≠ r.bucket) :
    viewSV (stepSV v r c).1 b = viewSV v b := by
  unfold stepSV viewSV
  split
  · simp only [aget_aput_other _ _ _ _ h]
  · split
    · simp only [aget_aput_other _ _ _ _ h]
    · split
      · simp only [aget_aput_other _ _ _ _ h]
      · rfl

/-- a record's effect on its own bucket, and its outcome, depend on that bucket's view only -/
theorem stepSV_congr (v v' : SV) (r : Rec) (c : Bool) (h : viewSV v r.bucket = viewSV v' r.bucket) :
    viewSV (stepSV v r c).1 r.bucket = viewSV (stepSV v' r c).1 r.bucket ∧ (stepSV v r c).2 = (stepSV v' r c).2 := by
  unfold viewSV at h
  have hl : aget? v.lists r.bucket = aget? v'.lists r.bucket := congrArg (·.1) h
  have hs : aget? v.sets r.bucket = aget? v'.sets r.bucket := congrArg (·.2.1) h
  have hz : aget? v.zsets r.bucket = aget? v'.zsets r.bucket := congrArg (·.2.2) h
  unfold stepSV viewSV
  split
  · simp only [aget_aput_self, hs, hl, hz, and_self]
  · split
    · simp only [aget_aput_self, hs, hl, hz, and_self]
    · split
      · simp only [aget_aput_self, hs, hl, hz, and_self]
      · simp only [hs, hl, hz, and_self]

/-- **projection.** Folding a log and folding only its records that name `b` leave the same thing in `b`. -/
theorem foldSV_project (rs : List Rec) (v v' : SV) (b : Bytes) (c : Bool) (h : viewSV v b = viewSV v' b) :
    viewSV (foldSV v rs c) b = viewSV (foldSV v' (rs.filter fun r => r.bucket == b) c) b := by
  induction rs generalizing v v' with
  | nil => simpa [foldSV] using h
  | cons r rest ih =>
    by_cases hb : r.bucket = b
    · have hf : (r.bucket == b) = true := by simp [hb]
      simp only [List.filter_cons, hf, if_true, foldSV, List.foldl_cons]
      apply ih
      subst hb
      exact (stepSV_congr v v' r c h).1
    · have hf : (r.bucket == b) = false := by simp [hb]
      simp only [List.filter_cons, hf, Bool.false_eq_true, if_false, foldSV, List.foldl_cons]
      apply ih
      rw [stepSV_frame v r c b (fun e => hb e.symm)]
      exact h

/-! ### one bucket's structures as folds of the appliers over the bucket's own records -/

theorem foldSV_lists (rs : List Rec) (v : SV) (b : Bytes) (c : Bool) (hb : ∀ r ∈ rs, r.bucket = b) :
    (aget? (foldSV v rs c).lists b).getD [] =
      (rs.filter fun r => r.ds == dsList).foldl (fun l r => (applyList l r).1) ((aget? v.lists b).getD []) := by
  induction rs generalizing v with
  | nil => rfl
  | cons r rest ih =>
    have hrb : r.bucket = b := hb r (List.mem_cons_self ..)
    simp only [foldSV, List.foldl_cons]
    have := ih (stepSV v r c).1 (fun x hx => hb x (List.mem_cons_of_mem _ hx))
    simp only [foldSV] at this
    rw [this]
    by_cases hds : (r.ds == dsList) = true
    · have h1 : (r.ds == dsSet) = false := by
        have : r.ds = dsList := by simpa using hds
        rw [this]; decide
      have h2 : (r.ds == dsZSet) = false := by
        have : r.ds = dsList := by simpa using hds
        rw [this]; decide
      have hstep : (aget? (stepSV v r c).1.lists b).getD [] = (applyList ((aget? v.lists b).getD []) r).1 := by
        simp only [stepSV, h1, h2, hds, if_true, Bool.false_eq_true, if_false, hrb, aget_aput_self, Option.getD_some]
      rw [hstep, List.filter_cons, if_pos hds, List.foldl_cons]
    · have hf : (r.ds == dsList) = false := by simpa using hds
      rw [List.filter_cons, hf]
      simp only [Bool.false_eq_true, if_false]
      have hl : (stepSV v r c).1.lists = v.lists := by
        simp only [stepSV, hf, Bool.false_eq_true, if_false]
        split
        · rfl
        · split <;> rfl
      rw [hl]

theorem foldSV_zsets (rs : List Rec) (v : SV) (b : Bytes) (c : Bool) (hb : ∀ r ∈ rs, r.bucket = b) :
    (aget? (foldSV v rs c).zsets b).getD [] =
      (rs.filter fun r => r.ds == dsZSet).foldl (fun z r => (applyZSet z r c).1) ((aget? v.zsets b).getD []) := by
  induction rs generalizing v with
  | nil => rfl
  | cons r rest ih =>
    have hrb : r.bucket = b := hb r (List.mem_cons_self ..)
    simp only [foldSV, List.foldl_cons]
    have := ih (stepSV v r c).1 (fun x hx => hb x (List.mem_cons_of_mem _ hx))
    simp only [foldSV] at this
    rw [this]
    by_cases hds : (r.ds == dsZSet) = true
    · have h1 : (r.ds == dsSet) = false := by
        have : r.ds = dsZSet := by simpa using hds
        rw [this]; decide
      have hstep : (aget? (stepSV v r c).1.zsets b).getD [] = (applyZSet ((aget? v.zsets b).getD []) r c).1 := by
        simp only [stepSV, h1, hds, if_true, Bool.false_eq_true, if_false, hrb, aget_aput_self, Option.getD_some]
      rw [hstep, List.filter_cons, if_pos hds, List.foldl_cons]
    · have hf : (r.ds == dsZSet) = false := by simpa using hds
      rw [List.filter_cons, hf]
      simp only [Bool.false_eq_true, if_false]
      have hl : (stepSV v r c).1.zsets = v.zsets := by
        simp only [stepSV, hf, Bool.false_eq_true, if_false]
        split
        · rfl
        · split <;> rfl
      rw [hl]

/-- the structures of bucket `b` after every history: the appliers folded over the records of the log that name
`b`, per structure, starting from nothing -/
theorem structures_of_own_records (s : State) (h : AllInv s) (b : Bytes) :
    (aget? s.lists b).getD [] =
      ((((allRecs s.files).map (·.1)).filter fun r => r.bucket == b).filter fun r => r.ds == dsList).foldl
        (fun l r => (applyList l r).1) [] ∧
    (aget? s.zsets b).getD [] =
      ((((allRecs s.files).map (·.1)).filter fun r => r.bucket == b).filter fun r => r.ds == dsZSet).foldl
        (fun z r => (applyZSet z r false).1) [] := by
  have hproj := foldSV_project ((allRecs s.files).map (·.1)) emptySV emptySV b false rfl
  rw [← h.structs] at hproj
  have hown : ∀ r ∈ ((allRecs s.files).map (·.1)).filter (fun r => r.bucket == b), r.bucket = b := by
    intro r hr
    have := (List.mem_filter.mp hr).2
    simpa using this
  constructor
  · have hl : aget? s.lists b = aget? (foldSV emptySV (((allRecs s.files).map (·.1)).filter fun r => r.bucket == b) false).lists b :=
      congrArg (·.1) hproj
    rw [hl, foldSV_lists _ emptySV b false hown]
    rfl
  · have hz : aget? s.zsets b = aget? (foldSV emptySV (((allRecs s.files).map (·.1)).filter fun r => r.bucket == b) false).zsets b :=
      congrArg (·.2.2) hproj
    rw [hz, foldSV_zsets _ emptySV b false hown]
    rfl

/-! ### key/value -/

theorem kvPut_frame (kv : Assoc (Assoc Idx)) (r : Rec) (fid pos : Nat) (b : Bytes) (h : b ≠ r.bucket) :
    aget? (kvPut kv r fid pos) b = aget? kv b := by
  unfold kvPut
  exact aget_aput_other _ _ _ _ h

theorem kvPut_congr (kv kv' : Assoc (Assoc Idx)) (r : Rec) (fid pos : Nat) (h : aget? kv r.bucket = aget? kv' r.bucket) :
    aget? (kvPut kv r fid pos) r.bucket = aget? (kvPut kv' r fid pos) r.bucket := by
  unfold kvPut
  rw [aget_aput_self, aget_aput_self, h]

theorem foldLog_project (L : List LogRec) (kv kv' : Assoc (Assoc Idx)) (b : Bytes) (h : aget? kv b = aget? kv' b) :
    aget? (foldLog kv L) b = aget? (foldLog kv' (L.filter fun x => x.1.bucket == b)) b := by
  induction L generalizing kv kv' with
  | nil => simpa [foldLog] using h
  | cons x rest ih =>
    by_cases hb : x.1.bucket = b
    · have hf : (x.1.bucket == b) = true := by simp [hb]
      simp only [List.filter_cons, hf, if_true, foldLog, List.foldl_cons]
      apply ih
      have := kvPut_congr kv kv' (committedRec x.1) x.2.1 x.2.2 (by simpa [committedRec, hb] using h)
      simpa [committedRec, hb] using this
    · have hf : (x.1.bucket == b) = false := by simp [hb]
      simp only [List.filter_cons, hf, Bool.false_eq_true, if_false, foldLog, List.foldl_cons]
      apply ih
      rw [kvPut_frame _ _ _ _ b (by simpa [committedRec] using fun e => hb e.symm)]
      exact h

/-! ### positions do not matter to what is cached: the index with the file positions forgotten -/

/-- a bucket's index as keys and cached records (what every read in key+value mode returns from) -/
def recsOf (m : Assoc Idx) : Assoc Rec := m.map fun p => (p.1, p.2.r)

theorem recsOf_upsert (m : Assoc Idx) (k : Bytes) (i : Idx) : recsOf (upsert m k i) = upsert (recsOf m) k i.r := by
  induction m with
  | nil => rfl
  | cons p rest ih =>
    obtain ⟨k', v'⟩ := p
    simp only [upsert, recsOf, List.map_cons]
    cases bcmp k k' with
    | lt => rfl
    | eq => rfl
    | gt => simp only [List.map_cons]; exact congrArg _ ih

/-- the record-only fold: one bucket's keys and cached records from its own records, positions forgotten -/
def bucketOfRecs (m : Assoc Rec) (rs : List Rec) : Assoc Rec := rs.foldl (fun m r => upsert m r.key (committedRec r)) m

theorem foldLog_own (L : List LogRec) (kv : Assoc (Assoc Idx)) (b : Bytes) (hown : ∀ x ∈ L, x.1.bucket = b) :
    recsOf ((aget? (foldLog kv L) b).getD []) = bucketOfRecs (recsOf ((aget? kv b).getD [])) (L.map (·.1)) := by
  induction L generalizing kv with
  | nil => rfl
  | cons x rest ih =>
    have hb : x.1.bucket = b := hown x (List.mem_cons_self ..)
    simp only [foldLog, List.foldl_cons, List.map_cons, bucketOfRecs]
    have := ih (kvPut kv (committedRec x.1) x.2.1 x.2.2) (fun y hy => hown y (List.mem_cons_of_mem _ hy))
    simp only [foldLog, bucketOfRecs] at this
    rw [this]
    congr 1
    unfold kvPut
    have hcb : (committedRec x.1).bucket = b := by simpa [committedRec] using hb
    rw [hcb, aget_aput_self]
    simp only [Option.getD_some]
    rw [recsOf_upsert]
    rfl

/-- **projection, key/value.** The keys and cached records of bucket `b` after a log are those after the
records of the log that name `b`, whatever lies between them and wherever they were written. -/
theorem kvOfLog_project (L : List LogRec) (b : Bytes) :
    recsOf ((aget? (kvOfLog L) b).getD []) = bucketOfRecs [] ((L.filter fun x => x.1.bucket == b).map (·.1)) := by
  have h1 := foldLog_project L [] [] b rfl
  have h2 := foldLog_own (L.filter fun x => x.1.bucket == b) [] b (by
    intro x hx
    have := (List.mem_filter.mp hx).2
    simpa using this)
  have e : kvOfLog L = foldLog [] L := rfl
  rw [e, h1, h2]
  rfl

end NutsProofs.Isolation
