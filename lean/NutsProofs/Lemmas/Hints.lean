/-
  NutsProofs.Lemmas.Hints — every hint addresses its record: along every key/value history the data files are
  packed (file ids ascending, offsets inside a file ascending without overlap, the active file ends at the
  write offset), so a record is read back from the position it was written at; with `Reopen.LogInv` this
  makes a key-only read (`HintKeyAndRAMIdxMode`: fetch through the hint) return the record the key+value
  mode keeps in RAM, for every state of every history.
-/
import NutsProofs.Lemmas.KVRefine
namespace NutsProofs.Hints
open Nuts Nuts.Model Nuts.Model.DB NutsProofs NutsProofs.Reopen

/-- files as the library writes them: one file per id, one record per offset -/
def WellFormed (fs : List File) : Prop :=
  fs.Pairwise (fun a b => a.fid ≠ b.fid) ∧ ∀ f ∈ fs, f.recs.Pairwise (fun a b => a.1 ≠ b.1)


/-- reading a record back at its offset, in a well-formed directory -/
theorem readAt_of_mem (fs : List File) (seg : Nat) (f : File) (pos : Nat) (r : Rec) (hwf : WellFormed fs)
    (hf : f ∈ fs) (hr : (pos, r) ∈ f.recs) : readAt fs seg f.fid pos = .ok (some r) := by
  have hget : fileGet? fs f.fid = some f := by
    unfold fileGet?
    have hpw := hwf.1
    induction fs with
    | nil => cases hf
    | cons g rest ih =>
      rw [List.pairwise_cons] at hpw
      simp only [List.find?_cons]
      rcases List.mem_cons.mp hf with rfl | hmem
      · simp
      · have hne : g.fid ≠ f.fid := hpw.1 f hmem
        have : (g.fid == f.fid) = false := by simpa using hne
        rw [this]
        exact ih ⟨hpw.2, fun x hx => hwf.2 x (by simp [hx])⟩ hmem hpw.2
  have hfind : f.recs.find? (·.1 == pos) = some (pos, r) := by
    have hpw := hwf.2 f hf
    generalize f.recs = l at hr hpw
    induction l with
    | nil => cases hr
    | cons y rest ih =>
      rw [List.pairwise_cons] at hpw
      simp only [List.find?_cons]
      rcases List.mem_cons.mp hr with rfl | hmem
      · simp
      · have hne : y.1 ≠ pos := by
          have := hpw.1 (pos, r) hmem
          exact this
        have : (y.1 == pos) = false := by simpa using hne
        rw [this]
        exact ih hmem hpw.2
  unfold readAt
  rw [hget]
  simp only [hfind]


/-! ### the packing invariant -/

structure Packed (s : State) : Prop where
  fids : (s.files.map (·.fid)).Pairwise (· < ·)
  offs : ∀ g ∈ s.files, g.recs.Pairwise (fun a b => a.1 + a.2.size ≤ b.1)
  active : ∀ g ∈ s.files, g.fid = s.activeFid → ∀ x ∈ g.recs, x.1 + x.2.size ≤ s.writeOff

theorem size_pos (r : Rec) : 0 < r.size := by unfold Rec.size headerSize; omega

theorem packed_wellFormed (s : State) (h : Packed s) : WellFormed s.files := by
  constructor
  · have := h.fids
    rw [List.pairwise_map] at this
    exact this.imp (fun hab => by omega)
  · intro f hf
    exact (h.offs f hf).imp (fun {a b} hab => by have := size_pos a.2; omega)

theorem rotate_packed (s : State) (hs : Shape s) (h : Packed s) : Packed (rotate s) := by
  obtain ⟨pre, f, hf, hfid, hpre⟩ := hs.split
  have hall : ∀ g ∈ s.files, g.fid < s.activeFid + 1 := by
    intro g hg
    rw [hf] at hg
    rcases List.mem_append.mp hg with hg | hg
    · have := hpre g hg; omega
    · simp at hg; subst hg; omega
  have hfiles : (rotate s).files = s.files ++ [{ fid := s.activeFid + 1, recs := [] }] := by
    simp only [rotate]; exact fileEnsure_new s.files _ hall
  refine ⟨?_, ?_, ?_⟩
  · rw [hfiles, List.map_append, List.pairwise_append]
    refine ⟨h.fids, by simp, ?_⟩
    intro a ha b hb
    obtain ⟨g, hg, rfl⟩ := List.mem_map.mp ha
    simp at hb; subst hb
    exact hall g hg
  · intro g hg
    rw [hfiles] at hg
    rcases List.mem_append.mp hg with hg | hg
    · exact h.offs g hg
    · simp at hg; subst hg; simp
  · intro g hg hgf x hx
    rw [hfiles] at hg
    rcases List.mem_append.mp hg with hg | hg
    · have := hall g hg
      have : g.fid = s.activeFid + 1 := hgf
      omega
    · simp at hg; subst hg; cases hx

theorem preRotate_packed (s : State) (r : Rec) (hs : Shape s) (h : Packed s) : Packed (preRotate s r) := by
  unfold preRotate; split
  · exact rotate_packed s hs h
  · exact h

theorem appendRec_packed (s : State) (r : Rec) (hs : Shape s) (h : Packed s) : Packed (appendRec s r) := by
  obtain ⟨pre, f, hf, hfid, hpre⟩ := hs.split
  have hfiles : (appendRec s r).files = pre ++ [{ f with recs := f.recs ++ [(s.writeOff, r)] }] := by
    simp only [appendRec, hs.linked, Bool.false_eq_true, if_false]
    rw [hf, ← hfid]
    exact fileAppend_last pre f s.writeOff r (by intro g hg; rw [hfid]; exact hpre g hg)
  have hfmem : f ∈ s.files := by rw [hf]; simp
  refine ⟨?_, ?_, ?_⟩
  · have : (appendRec s r).files.map (·.fid) = s.files.map (·.fid) := by rw [hfiles, hf]; simp
    rw [this]; exact h.fids
  · intro g hg
    rw [hfiles] at hg
    rcases List.mem_append.mp hg with hg | hg
    · exact h.offs g (by rw [hf]; simp [hg])
    · simp at hg; subst hg
      simp only
      rw [List.pairwise_append]
      refine ⟨h.offs f hfmem, by simp, ?_⟩
      intro a ha b hb
      simp at hb; subst hb
      exact h.active f hfmem hfid a ha
  · intro g hg hgf x hx
    have hwo : (appendRec s r).writeOff = s.writeOff + r.size := rfl
    have hact : (appendRec s r).activeFid = s.activeFid := rfl
    rw [hwo]
    rw [hact] at hgf
    rw [hfiles] at hg
    rcases List.mem_append.mp hg with hg | hg
    · have := hpre g hg; omega
    · simp at hg; subst hg
      simp only [List.mem_append, List.mem_singleton] at hx
      rcases hx with hx | hx
      · have := h.active f hfmem hfid x hx; omega
      · subst hx; simp

theorem writeRec_packed (s : State) (r : Rec) (last : Bool) (hs : Shape s) (h : Packed s) : Packed (writeRec s r last) := by
  have h1 := preRotate_packed s r hs h
  have hs1 := (preRotate_shape s r hs).1
  have h2 := appendRec_packed (preRotate s r) (markLast r last) hs1 h1
  -- noting the id and indexing the record touch neither the files nor the offsets
  unfold writeRec
  simp only []
  split <;> split <;> exact ⟨h2.fids, h2.offs, h2.active⟩

theorem commitLoop_packed (recs : List Rec) (s : State) (hs : Shape s) (h : Packed s)
    (hr : ∀ r ∈ recs, r.ds = dsKV) : Packed (commitLoop s recs).1 := by
  induction recs generalizing s with
  | nil => exact h
  | cons r rest ih =>
    simp only [commitLoop]
    split
    · exact h
    · exact ih _ (writeRec_kv s r rest.isEmpty hs (hr r (by simp))).1 (writeRec_packed s r rest.isEmpty hs h)
        (fun q hq => hr q (by simp [hq]))

theorem commit_packed (s : State) (t : List Rec) (hi : LogInv s) (h : Packed s) (ht : KVTx s.opt.seg t) :
    Packed (commit s t).1 := by
  obtain ⟨hne, tid, hr⟩ := ht
  have hds : ∀ r ∈ t, r.ds = dsKV := fun r hr' => (hr r hr').1
  obtain ⟨hfine, _, _, _, _⟩ := commitLoop_kv t tid s hi.shape hr
  have hemp : t.isEmpty = false := by cases t with | nil => exact absurd rfl hne | cons _ _ => rfl
  have hcommit : commit s t = ((commitLoop s t).1, .ok ()) := by
    unfold commit
    simp only [hemp, Bool.false_eq_true, if_false]
    rw [show commitLoop s t = ((commitLoop s t).1, (commitLoop s t).2) from rfl]
    simp only [hfine, Bool.not_true, Bool.false_eq_true, if_false]
    rw [buildIdxes_kv_id t _ hds]
    simp
  rw [hcommit]
  exact commitLoop_packed t s hi.shape h hds

/-! ### Open keeps the packing -/

theorem replay_fields (rs : List LogRec) (ids : List Nat) (st : State)
    (h : ∀ x ∈ rs, ids.contains x.1.txid = true ∧ x.1.ds = dsKV) :
    (replay st rs ids).1.activeFid = st.activeFid ∧ (replay st rs ids).1.writeOff = st.writeOff ∧
    (replay st rs ids).1.files = st.files := by
  induction rs generalizing st with
  | nil => exact ⟨rfl, rfl, rfl⟩
  | cons x rest ih =>
    obtain ⟨r, fid, pos⟩ := x
    obtain ⟨hc, hds⟩ := h (r, fid, pos) (by simp)
    have hds' : (r.ds == dsKV) = true := by simp only [] at hds; rw [hds]; rfl
    simp only [] at hc
    simp only [replay, hc, Bool.not_true, Bool.false_eq_true, if_false, hds', if_true]
    exact ih _ (fun y hy => h y (by simp [hy]))

theorem fileEnd_bound (f : File) (hp : f.recs.Pairwise (fun a b => a.1 + a.2.size ≤ b.1)) :
    ∀ x ∈ f.recs, x.1 + x.2.size ≤ fileEnd f := by
  unfold fileEnd
  generalize f.recs = l at hp
  induction l with
  | nil => intro x hx; cases hx
  | cons y rest ih =>
    rw [List.pairwise_cons] at hp
    intro x hx
    cases rest with
    | nil =>
      simp at hx; subst hx; simp
    | cons z zs =>
      have hlast : (y :: z :: zs).getLast? = (z :: zs).getLast? := by simp [List.getLast?_cons_cons]
      rw [hlast]
      rcases List.mem_cons.mp hx with rfl | hx
      · -- the head ends before the second record starts, which ends before the end
        have h1 := hp.1 z (by simp)
        have h2 := ih hp.2 z (by simp)
        have := size_pos z.2
        omega
      · exact ih hp.2 x hx

theorem fileGet_of_sorted (fs : List File) (f : File) (hf : f ∈ fs) (hp : (fs.map (·.fid)).Pairwise (· < ·)) :
    fileGet? fs f.fid = some f := by
  unfold fileGet?
  induction fs with
  | nil => cases hf
  | cons g rest ih =>
    simp only [List.map_cons, List.pairwise_cons] at hp
    simp only [List.find?_cons]
    rcases List.mem_cons.mp hf with rfl | hmem
    · simp
    · have : g.fid < f.fid := hp.1 f.fid (List.mem_map.mpr ⟨f, hmem, rfl⟩)
      have hne : (g.fid == f.fid) = false := by simp; omega
      rw [hne]
      exact ih hmem hp.2

theorem reopen_packed (s : State) (hi : LogInv s) (h : Packed s) (opt : Opts) : Packed (openDB opt s.files).1 := by
  obtain ⟨pre, f, hf, hfid, hpre⟩ := hi.shape.split
  have hne : s.files ≠ [] := by rw [hf]; simp
  have hfmem : f ∈ s.files := by rw [hf]; simp
  have hemp : s.files.isEmpty = false := by
    cases hfs : s.files with
    | nil => exact absurd hfs hne
    | cons _ _ => rfl
  have htorn : (s.files.any (·.torn)) = false := by
    rw [List.any_eq_false]; intro g hg; rw [hi.shape.untorn g hg]; simp
  have hall : ∀ x ∈ allRecs s.files, (committedIds (allRecs s.files)).contains x.1.txid = true ∧ x.1.ds = dsKV :=
    fun x hx => ⟨by simpa using hi.allCommitted x hx, hi.kvOnly x hx⟩
  have hmax : (s.files.map (·.fid)).foldl max 0 = f.fid := by
    have hge := foldl_max_ge (s.files.map (·.fid)) 0
    have hf_le : f.fid ≤ (s.files.map (·.fid)).foldl max 0 := hge.2 f.fid (by rw [hf]; simp)
    rcases foldl_max_mem (s.files.map (·.fid)) 0 with h0 | hm
    · omega
    · obtain ⟨g, hg, hgf⟩ := List.mem_map.mp hm
      rw [hf] at hg
      rcases List.mem_append.mp hg with hg | hg
      · have := hpre g hg; omega
      · simp at hg; subst hg; exact hgf.symm
  have hens : fileEnsure s.files f.fid = s.files := by rw [← hmax]; exact fileEnsure_max s.files hne
  have hget : fileGet? s.files f.fid = some f := fileGet_of_sorted s.files f hfmem h.fids
  have hfields : (openDB opt s.files).1.activeFid = f.fid ∧ (openDB opt s.files).1.writeOff = fileEnd f ∧
      (openDB opt s.files).1.files = s.files := by
    unfold openDB
    simp only [hmax, hens, hemp, Bool.false_eq_true, if_false, htorn, hget, Option.getD_some]
    exact replay_fields _ _ _ hall
  obtain ⟨ha, hw, hfs⟩ := hfields
  refine ⟨by rw [hfs]; exact h.fids, by rw [hfs]; exact h.offs, ?_⟩
  intro g hg hgf x hx
  rw [hfs] at hg
  rw [ha] at hgf
  rw [hw]
  -- the file with the active id is `f`
  have : g = f := by
    have h1 := fileGet_of_sorted s.files g hg h.fids
    rw [hgf, hget] at h1
    exact (Option.some.inj h1).symm
  subst this
  exact fileEnd_bound g (h.offs g hg) x hx

theorem packed_init (opt : Opts) : Packed (openDB opt []).1 := by
  refine ⟨by simp [openDB, fileEnsure], ?_, ?_⟩
  · intro g hg; simp [openDB, fileEnsure] at hg; subst hg; simp
  · intro g hg _ x hx; simp [openDB, fileEnsure] at hg; subst hg; cases hx

theorem packed_ops (ops : List Op) (s : State) (hi : LogInv s) (h : Packed s) (hok : OpsOk s ops) :
    Packed (ops.foldl stepOp s) := by
  induction ops generalizing s with
  | nil => exact h
  | cons op rest ih =>
    cases op with
    | commit t =>
      obtain ⟨ht, hrest⟩ := hok
      exact ih _ (commit_kv s t hi ht).2.1 (commit_packed s t hi h ht) hrest
    | reopen o => exact ih _ (logInv_reopen s hi o) (reopen_packed s hi h o) hok

/-! ### every hint reads its record back -/

theorem mem_allRecs (fs : List File) (x : LogRec) (h : x ∈ allRecs fs) : ∃ f ∈ fs, f.fid = x.2.1 ∧ (x.2.2, x.1) ∈ f.recs := by
  unfold allRecs at h
  obtain ⟨f, hf, hx⟩ := List.mem_flatMap.mp h
  obtain ⟨y, hy, rfl⟩ := List.mem_map.mp hx
  exact ⟨f, hf, rfl, by simpa using hy⟩

theorem hint_reads_back (s : State) (hi : LogInv s) (h : Packed s) (b : Bytes) (m : Assoc Idx) (p : Bytes × Idx)
    (hb : bucketIdx s b = some m) (hp : p ∈ m) :
    ∃ r, readAt s.files s.opt.seg p.2.fid p.2.pos = .ok (some r) ∧ committedRec r = committedRec p.2.r := by
  -- the entry, normalised, is an entry of the index the log denotes
  have hsrc := KVRefine.foldLog_all (allRecs s.files) [] (fun _ i => ∃ x ∈ allRecs s.files, i = ⟨committedRec x.1, x.2.1, x.2.2⟩)
    (KVRefine.allIdx_nil _) (fun x hx => ⟨x, hx, rfl⟩)
  have hkv : normKV s.kv = kvOfLog (allRecs s.files) := hi.idx
  have hbn : aget? (normKV s.kv) b = some (normBucket m) := by
    unfold normKV; rw [aget_map normBucket]; unfold bucketIdx at hb; rw [hb]; rfl
  have hpn : (p.1, normIdx p.2) ∈ normBucket m := by
    unfold normBucket; exact List.mem_map.mpr ⟨p, hp, rfl⟩
  rw [hkv] at hbn
  obtain ⟨x, hx, hxi⟩ := hsrc b (normBucket m) (p.1, normIdx p.2) hbn hpn
  simp only [] at hxi
  obtain ⟨f, hf, hfid, hrec⟩ := mem_allRecs s.files x hx
  have hfid' : p.2.fid = f.fid := by
    have := congrArg Idx.fid hxi; simp only [normIdx] at this; rw [this, hfid]
  have hpos' : p.2.pos = x.2.2 := by
    have := congrArg Idx.pos hxi; simp only [normIdx] at this; exact this
  have hr' : committedRec p.2.r = committedRec x.1 := by
    have := congrArg Idx.r hxi; simp only [normIdx] at this; exact this
  refine ⟨x.1, ?_, hr'.symm⟩
  rw [hfid', hpos']
  exact readAt_of_mem s.files s.opt.seg f x.2.2 x.1 (packed_wellFormed s h) hf hrec

/-- the same state with the key+value index mode -/
def withMode0 (s : State) : State := { s with opt := { s.opt with mode := 0 } }

/-- **A key-only database answers like a key+value database.** For a state with the log and packing
invariants, whatever its index mode, the normalised key+value twin is related to it by `Rebuilt`: same index,
same committed ids, and every indexed entry fetches the same record — from RAM in the twin, through the hint
from the data file in the state itself. -/
theorem rebuilt_mode_twin (s : State) (hi : LogInv s) (h : Packed s) : Rebuilt s (KVRefine.normState (withMode0 s)) := by
  refine ⟨rfl, fun _ => Iff.rfl, ?_⟩
  intro b m p hb hp
  have h0 : fetch (KVRefine.normState (withMode0 s)) (normIdx p.2) = .ok (some (committedRec p.2.r)) := by
    unfold DB.fetch KVRefine.normState withMode0; simp [normIdx]
  rw [h0]
  by_cases hm : s.opt.mode = 0
  · unfold DB.fetch; simp [hm, vis, Outcome.map, committedRec]
  · obtain ⟨r, hr, hrc⟩ := hint_reads_back s hi h b m p hb hp
    have hm' : (s.opt.mode == 0) = false := by simpa using hm
    unfold DB.fetch
    simp only [hm', Bool.false_eq_true, if_false, hr]
    simp only [vis, Outcome.map, Option.map_some]
    rw [hrc]
    rfl

theorem logInv_withMode0 (s : State) (hi : LogInv s) : LogInv (withMode0 s) :=
  ⟨⟨hi.shape.split, hi.shape.hint, hi.shape.linked, hi.shape.untorn⟩, hi.idx, hi.kvOnly, hi.allCommitted, hi.ids⟩

/-- every key/value read of a state equals, up to the status byte, the read of its key+value twin -/
theorem reads_mode_independent (s : State) (hi : LogInv s) (h : Packed s) :
    (∀ b k now, vis (DB.get s b k now) = vis (DB.get (withMode0 s) b k now)) ∧
    (∀ b now, visL (getAll s b now) = visL (getAll (withMode0 s) b now)) ∧
    (∀ b st en now, visL (rangeScan s b st en now) = visL (rangeScan (withMode0 s) b st en now)) ∧
    (∀ b pre off lim now mt, visL (prefixScan s b pre off lim now mt) = visL (prefixScan (withMode0 s) b pre off lim now mt)) := by
  have h1 := rebuilt_mode_twin s hi h
  have h2 := KVRefine.rebuilt_normState (withMode0 s)
  exact ⟨fun b k now => by rw [← get_rebuilt h1, get_rebuilt h2],
    fun b now => by rw [← getAll_rebuilt h1, getAll_rebuilt h2],
    fun b st en now => by rw [← rangeScan_rebuilt h1, rangeScan_rebuilt h2],
    fun b pre off lim now mt => by rw [← prefixScan_rebuilt h1, prefixScan_rebuilt h2]⟩

end NutsProofs.Hints
