/-
  NutsProofs.Lemmas.ReopenAll — recovery rebuilds every structure: histories whose transactions hold records
  of all four data structures (key/value, list, set, sorted set). `Commit` writes all records and applies the
  list / set / sorted-set ones after the write loop (`buildIdxes`); `Open` applies them in log order while it
  replays. The appliers never look at anything but the structure they change, so both ways build the same
  lists, sets and sorted sets — provided no application panicked at commit time (then it does not at replay
  either) and sorted-set keys have exactly two parts (the two appliers differ on other shapes).
-/
import NutsProofs.Lemmas.Reopen
import NutsProofs.Lemmas.Replay
namespace NutsProofs.ReopenAll
open Nuts Nuts.Model Nuts.Model.DB NutsProofs NutsProofs.Reopen

/-! ### the structures as a value -/

structure SV where
  lists : Assoc ListDS.St
  sets : Assoc SetDS.St
  zsets : Assoc ZSetA.St

def sv (s : State) : SV := ⟨s.lists, s.sets, s.zsets⟩

/-- `applyOther` on the structures alone -/
def stepSV (v : SV) (r : Rec) (atCommit : Bool) : SV × Outcome Unit :=
  if r.ds == dsSet then
    let (m, o) := applySet ((aget? v.sets r.bucket).getD []) r
    ({ v with sets := aput v.sets r.bucket m }, o)
  else if r.ds == dsZSet then
    let (z, o) := applyZSet ((aget? v.zsets r.bucket).getD []) r atCommit
    ({ v with zsets := aput v.zsets r.bucket z }, o)
  else if r.ds == dsList then
    let (l, o) := applyList ((aget? v.lists r.bucket).getD []) r
    ({ v with lists := aput v.lists r.bucket l }, o)
  else (v, .ok ())

/-- `applyOther` changes the three structure maps as `stepSV` says and nothing else -/
theorem applyOther_eq (s : State) (r : Rec) (c : Bool) :
    (applyOther s r c).1 = { s with lists := (stepSV (sv s) r c).1.lists, sets := (stepSV (sv s) r c).1.sets,
                                    zsets := (stepSV (sv s) r c).1.zsets } ∧
    (applyOther s r c).2 = (stepSV (sv s) r c).2 := by
  unfold applyOther stepSV sv
  split
  · exact ⟨rfl, rfl⟩
  · split
    · exact ⟨rfl, rfl⟩
    · split
      · exact ⟨rfl, rfl⟩
      · exact ⟨rfl, rfl⟩

theorem applyOther_sv (s : State) (r : Rec) (c : Bool) : sv (applyOther s r c).1 = (stepSV (sv s) r c).1 := by
  rw [(applyOther_eq s r c).1]; rfl

/-- a key/value record is nothing to the structures -/
theorem stepSV_kv (v : SV) (r : Rec) (c : Bool) (h : r.ds = dsKV) : stepSV v r c = (v, .ok ()) := by
  unfold stepSV
  have h1 : (r.ds == dsSet) = false := by rw [h]; rfl
  have h2 : (r.ds == dsZSet) = false := by rw [h]; rfl
  have h3 : (r.ds == dsList) = false := by rw [h]; rfl
  simp [h1, h2, h3]

/-- sorted-set records whose key has exactly two parts (`key|score`): the form on which the applier of
`Commit` and the applier of `Open` agree -/
def ZKeyOk (r : Rec) : Prop := r.ds = dsZSet → r.flag = flagZAdd → ∃ k sc, splitSep r.key = [k, sc]

theorem stepSV_flag (v : SV) (r : Rec) (h : ZKeyOk r) : stepSV v r true = stepSV v r false := by
  unfold stepSV
  split
  · rfl
  · split
    · rename_i hz
      have hds : r.ds = dsZSet := by simpa using hz
      unfold applyZSet
      by_cases hf : r.flag = flagZAdd
      · obtain ⟨k, sc, hk⟩ := h hds hf
        simp [hf, hk]
      · have : (r.flag == flagZAdd) = false := by simpa using hf
        simp [this]
    · rfl

theorem stepSV_status (v : SV) (r : Rec) (c : Bool) (l : Bool) : stepSV v (markLast r l) c = stepSV v r c := by
  unfold markLast; split <;> rfl

def foldSV (v : SV) (rs : List Rec) (c : Bool) : SV := rs.foldl (fun v r => (stepSV v r c).1) v

/-- no application along the way panics -/
def NoPanic (v : SV) (rs : List Rec) (c : Bool) : Prop :=
  ∀ a x b, rs = a ++ x :: b → (stepSV (foldSV v a c) x c).2 ≠ .panic

theorem noPanic_cons (v : SV) (r : Rec) (rest : List Rec) (c : Bool) :
    NoPanic v (r :: rest) c ↔ (stepSV v r c).2 ≠ .panic ∧ NoPanic (stepSV v r c).1 rest c := by
  constructor
  · intro h
    refine ⟨h [] r rest rfl, ?_⟩
    intro a x b hab
    have := h (r :: a) x b (by rw [hab]; rfl)
    simpa [foldSV] using this
  · rintro ⟨h1, h2⟩ a x b hab
    cases a with
    | nil => simp at hab; obtain ⟨rfl, rfl⟩ := hab; exact h1
    | cons a0 as =>
      simp at hab
      obtain ⟨rfl, hrest⟩ := hab
      have := h2 as x b hrest
      simpa [foldSV] using this

theorem noPanic_append (v : SV) (a b : List Rec) (c : Bool) :
    NoPanic v (a ++ b) c ↔ NoPanic v a c ∧ NoPanic (foldSV v a c) b c := by
  induction a generalizing v with
  | nil => simp [NoPanic, foldSV]
  | cons r rest ih =>
    rw [List.cons_append, noPanic_cons, noPanic_cons, ih]
    simp [foldSV, and_assoc]

/-- `buildIdxes` without a panic: the structures are the fold, nothing else changes -/
theorem buildIdxes_sv (recs : List Rec) (s : State) (h : (buildIdxes s recs).2 = false) :
    sv (buildIdxes s recs).1 = foldSV (sv s) recs true ∧ NoPanic (sv s) recs true ∧
    (buildIdxes s recs).1.kv = s.kv ∧ (buildIdxes s recs).1.files = s.files ∧
    (buildIdxes s recs).1.committed = s.committed ∧ (buildIdxes s recs).1.opt = s.opt ∧
    (buildIdxes s recs).1.activeFid = s.activeFid ∧ (buildIdxes s recs).1.hintFid = s.hintFid ∧
    (buildIdxes s recs).1.activeUnlinked = s.activeUnlinked := by
  induction recs generalizing s with
  | nil => exact ⟨rfl, by intro a x b hab; simp at hab, rfl, rfl, rfl, rfl, rfl, rfl, rfl⟩
  | cons r rest ih =>
    simp only [buildIdxes] at h ⊢
    obtain ⟨he, ho⟩ := applyOther_eq s r true
    by_cases hp : (applyOther s r true).2.isPanic = true
    · simp [hp] at h
    · simp only [hp, Bool.false_eq_true, if_false] at h ⊢
      obtain ⟨h1, h2, h3, h4, h5, h6, h7, h8, h9⟩ := ih (applyOther s r true).1 h
      have hsv := applyOther_sv s r true
      refine ⟨by rw [h1, hsv]; rfl, ?_, by rw [h3, he], by rw [h4, he], by rw [h5, he], by rw [h6, he],
        by rw [h7, he], by rw [h8, he], by rw [h9, he]⟩
      rw [noPanic_cons]
      refine ⟨?_, by rw [← hsv]; exact h2⟩
      rw [← ho]
      intro hpan
      rw [hpan] at hp
      exact hp rfl

/-! ### the write loop on records of any structure -/

def isKVrec (x : LogRec) : Bool := x.1.ds == dsKV

theorem sv_preRotate (s : State) (r : Rec) : sv (preRotate s r) = sv s := by
  unfold preRotate; split <;> rfl

/-- a record of a structure other than key/value is written and nothing is indexed -/
theorem writeRec_other (s : State) (r : Rec) (last : Bool) (h : Shape s) (hkv : r.ds ≠ dsKV) :
    Shape (writeRec s r last) ∧
    (∃ fid pos, allRecs (writeRec s r last).files = allRecs s.files ++ [(markLast r last, fid, pos)]) ∧
    (writeRec s r last).kv = s.kv ∧ sv (writeRec s r last) = sv s ∧
    (writeRec s r last).opt = s.opt ∧
    (writeRec s r last).committed = (if last then (noteCommitted s r.txid).committed else s.committed) := by
  obtain ⟨h1, hr1, hk1, hc1, ho1⟩ := preRotate_shape s r h
  obtain ⟨h2, hr2, hk2, hc2, ho2, hh2⟩ := appendRec_shape (preRotate s r) (markLast r last) h1
  have hds : ((markLast r last).ds == dsKV) = false := by rw [markLast_ds]; simpa using hkv
  have hsv := sv_preRotate s r
  unfold writeRec
  simp only [hds, Bool.false_eq_true, if_false]
  cases last with
  | true =>
    simp only [if_true]
    refine ⟨⟨h2.split, h2.hint, h2.linked, h2.untorn⟩, ⟨(preRotate s r).activeFid, (preRotate s r).writeOff, ?_⟩, ?_, ?_, ?_, ?_⟩
    · show allRecs (appendRec (preRotate s r) (markLast r true)).files = _
      rw [hr2, hr1]
    · show (appendRec (preRotate s r) (markLast r true)).kv = _
      rw [hk2, hk1]
    · show sv (appendRec (preRotate s r) (markLast r true)) = _
      rw [← hsv]; rfl
    · show (appendRec (preRotate s r) (markLast r true)).opt = _
      rw [ho2, ho1]
    · show (noteCommitted (appendRec (preRotate s r) (markLast r true)) (markLast r true).txid).committed = _
      simp only [noteCommitted, hc2, hc1, markLast_txid]
  | false =>
    simp only [Bool.false_eq_true, if_false]
    refine ⟨⟨h2.split, h2.hint, h2.linked, h2.untorn⟩, ⟨(preRotate s r).activeFid, (preRotate s r).writeOff, ?_⟩, ?_, ?_, ?_, ?_⟩
    · show allRecs (appendRec (preRotate s r) (markLast r false)).files = _
      rw [hr2, hr1]
    · show (appendRec (preRotate s r) (markLast r false)).kv = _
      rw [hk2, hk1]
    · show sv (appendRec (preRotate s r) (markLast r false)) = _
      rw [← hsv]; rfl
    · show (appendRec (preRotate s r) (markLast r false)).opt = _
      rw [ho2, ho1]
    · show (appendRec (preRotate s r) (markLast r false)).committed = _
      rw [hc2, hc1]

theorem sv_writeRec_kv (s : State) (r : Rec) (last : Bool) : sv (writeRec s r last) = sv s := by
  unfold writeRec
  simp only []
  have := sv_preRotate s r
  split <;> split <;> (rw [← this]; rfl)

theorem foldLog_append (kv : Assoc (Assoc Idx)) (a b : List LogRec) : foldLog kv (a ++ b) = foldLog (foldLog kv a) b := by
  simp [foldLog, List.foldl_append]

/-- the write loop of `Commit` on a transaction with records of any structure -/
theorem commitLoop_any (recs : List Rec) (tid : Nat) (s : State) (h : Shape s)
    (hr : ∀ r ∈ recs, ¬ r.size > s.opt.seg ∧ r.txid = tid) :
    (commitLoop s recs).2 = true ∧ Shape (commitLoop s recs).1 ∧ (commitLoop s recs).1.opt = s.opt ∧
    sv (commitLoop s recs).1 = sv s ∧
    (∃ extra : List LogRec, extra.map (·.1) = marked recs ∧
      allRecs (commitLoop s recs).1.files = allRecs s.files ++ extra ∧
      normKV (commitLoop s recs).1.kv = foldLog (normKV s.kv) (extra.filter isKVrec)) ∧
    (∀ id, id ∈ (commitLoop s recs).1.committed ↔ (id ∈ s.committed ∨ (recs ≠ [] ∧ id = tid))) := by
  induction recs generalizing s with
  | nil =>
    refine ⟨rfl, h, rfl, rfl, ⟨[], rfl, by simp [commitLoop], rfl⟩, ?_⟩
    intro id; simp [commitLoop]
  | cons r rest ih =>
    obtain ⟨hsz, htid⟩ := hr r (by simp)
    simp only [commitLoop, hsz, if_false]
    by_cases hds : r.ds = dsKV
    · obtain ⟨hs1, ⟨fid, pos, hrecs1, hkv1⟩, hopt1, hcom1⟩ := writeRec_kv s r rest.isEmpty h hds
      have hr' : ∀ q ∈ rest, ¬ q.size > (writeRec s r rest.isEmpty).opt.seg ∧ q.txid = tid := by
        intro q hq; rw [hopt1]; exact hr q (by simp [hq])
      obtain ⟨hfine, hshape, hopt, hsv, ⟨extra, hex, hfiles, hkv⟩, hcom⟩ := ih (writeRec s r rest.isEmpty) hs1 hr'
      refine ⟨hfine, hshape, by rw [hopt, hopt1], by rw [hsv, sv_writeRec_kv], ⟨(markLast r rest.isEmpty, fid, pos) :: extra, ?_, ?_, ?_⟩, ?_⟩
      · simp [marked, hex]
      · rw [hfiles, hrecs1]; simp
      · have hk : isKVrec (markLast r rest.isEmpty, fid, pos) = true := by simp [isKVrec, markLast_ds, hds]
        rw [List.filter_cons_of_pos hk, hkv, hkv1, normKV_kvPut]; rfl
      · intro id
        rw [hcom id, hcom1]
        cases hre : rest.isEmpty with
        | true =>
          have : rest = [] := List.isEmpty_iff.mp hre
          subst this
          simp only [if_true, mem_noteCommitted, htid]
          simp
        | false =>
          have hne : rest ≠ [] := by intro hn; rw [hn] at hre; cases hre
          simp [hne]
    · obtain ⟨hs1, ⟨fid, pos, hrecs1⟩, hkv1, hsv1, hopt1, hcom1⟩ := writeRec_other s r rest.isEmpty h hds
      have hr' : ∀ q ∈ rest, ¬ q.size > (writeRec s r rest.isEmpty).opt.seg ∧ q.txid = tid := by
        intro q hq; rw [hopt1]; exact hr q (by simp [hq])
      obtain ⟨hfine, hshape, hopt, hsv, ⟨extra, hex, hfiles, hkv⟩, hcom⟩ := ih (writeRec s r rest.isEmpty) hs1 hr'
      refine ⟨hfine, hshape, by rw [hopt, hopt1], by rw [hsv, hsv1], ⟨(markLast r rest.isEmpty, fid, pos) :: extra, ?_, ?_, ?_⟩, ?_⟩
      · simp [marked, hex]
      · rw [hfiles, hrecs1]; simp
      · have hk : ¬ isKVrec (markLast r rest.isEmpty, fid, pos) = true := by simp [isKVrec, markLast_ds, hds]
        rw [List.filter_cons_of_neg hk, hkv, hkv1]
      · intro id
        rw [hcom id, hcom1]
        cases hre : rest.isEmpty with
        | true =>
          have : rest = [] := List.isEmpty_iff.mp hre
          subst this
          simp only [if_true, mem_noteCommitted, htid]
          simp
        | false =>
          have hne : rest ≠ [] := by intro hn; rw [hn] at hre; cases hre
          simp [hne]

/-! ### the invariant, and `Commit` -/

def emptySV : SV := ⟨[], [], []⟩

structure AllInv (s : State) : Prop where
  shape : Shape s
  idx : normKV s.kv = kvOfLog ((allRecs s.files).filter isKVrec)
  allCommitted : ∀ x ∈ allRecs s.files, x.1.txid ∈ committedIds (allRecs s.files)
  ids : ∀ id, id ∈ s.committed ↔ id ∈ committedIds (allRecs s.files)
  structs : sv s = foldSV emptySV ((allRecs s.files).map (·.1)) false
  noPanic : NoPanic emptySV ((allRecs s.files).map (·.1)) false
  zok : ∀ x ∈ allRecs s.files, ZKeyOk x.1

/-- a write transaction: non-empty, records that fit a segment, one id, sorted-set keys of the form `key|score` -/
def AnyTx (seg : Nat) (t : List Rec) : Prop :=
  t ≠ [] ∧ ∃ tid, ∀ r ∈ t, ¬ r.size > seg ∧ r.txid = tid ∧ ZKeyOk r

theorem zKeyOk_markLast (r : Rec) (l : Bool) (h : ZKeyOk r) : ZKeyOk (markLast r l) := by
  unfold markLast; split <;> exact h

theorem marked_zok (t : List Rec) (hz : ∀ r ∈ t, ZKeyOk r) : ∀ r ∈ marked t, ZKeyOk r := by
  induction t with
  | nil => intro r hr; cases hr
  | cons q qs ih =>
    intro r hr
    simp only [marked, List.mem_cons] at hr
    rcases hr with rfl | hr
    · exact zKeyOk_markLast q _ (hz q (by simp))
    · exact ih (fun x hx => hz x (by simp [hx])) r hr

theorem foldSV_marked (v : SV) (t : List Rec) (hz : ∀ r ∈ t, ZKeyOk r) :
    foldSV v (marked t) false = foldSV v t true ∧ (NoPanic v t true → NoPanic v (marked t) false) := by
  induction t generalizing v with
  | nil => exact ⟨rfl, fun _ => by intro a x b hab; simp [marked] at hab⟩
  | cons r rest ih =>
    have hstep : stepSV v (markLast r rest.isEmpty) false = stepSV v r true := by
      rw [stepSV_status, ← stepSV_flag v r (hz r (by simp))]
    obtain ⟨h1, h2⟩ := ih (stepSV v r true).1 (fun q hq => hz q (by simp [hq]))
    constructor
    · simp only [marked, foldSV, List.foldl_cons, hstep]
      exact h1
    · intro hnp
      rw [noPanic_cons] at hnp
      simp only [marked]
      rw [noPanic_cons, hstep]
      exact ⟨hnp.1, h2 hnp.2⟩

theorem foldSV_append (v : SV) (a b : List Rec) (c : Bool) : foldSV v (a ++ b) c = foldSV (foldSV v a c) b c := by
  simp [foldSV, List.foldl_append]

/-- `Commit` of a transaction with records of any structure keeps the invariant, when it returns success -/
theorem commit_any (s : State) (t : List Rec) (h : AllInv s) (ht : AnyTx s.opt.seg t) (hok : (commit s t).2 = .ok ()) :
    AllInv (commit s t).1 ∧ (commit s t).1.opt = s.opt := by
  obtain ⟨hne, tid, hr⟩ := ht
  obtain ⟨hfine, hshape, hopt, hsv1, ⟨extra, hex, hfiles, hkv⟩, hcom⟩ :=
    commitLoop_any t tid s h.shape (fun r hr' => ⟨(hr r hr').1, (hr r hr').2.1⟩)
  have hemp : t.isEmpty = false := by cases t with | nil => exact absurd rfl hne | cons _ _ => rfl
  -- the shape of `commit`
  have hpan : (buildIdxes (commitLoop s t).1 t).2 = false := by
    unfold commit at hok
    simp only [hemp, Bool.false_eq_true, if_false] at hok
    rw [show commitLoop s t = ((commitLoop s t).1, (commitLoop s t).2) from rfl] at hok
    simp only [hfine, Bool.not_true, Bool.false_eq_true, if_false] at hok
    rw [show buildIdxes (commitLoop s t).1 t = ((buildIdxes (commitLoop s t).1 t).1, (buildIdxes (commitLoop s t).1 t).2) from rfl] at hok
    cases hb : (buildIdxes (commitLoop s t).1 t).2 with
    | false => rfl
    | true => rw [hb] at hok; simp at hok
  have hcommit : (commit s t).1 = (buildIdxes (commitLoop s t).1 t).1 := by
    unfold commit
    simp only [hemp, Bool.false_eq_true, if_false]
    rw [show commitLoop s t = ((commitLoop s t).1, (commitLoop s t).2) from rfl]
    simp only [hfine, Bool.not_true, Bool.false_eq_true, if_false]
    rw [show buildIdxes (commitLoop s t).1 t = ((buildIdxes (commitLoop s t).1 t).1, (buildIdxes (commitLoop s t).1 t).2) from rfl]
    simp only [hpan, Bool.false_eq_true, if_false]
  obtain ⟨b1, b2, b3, b4, b5, b6, b7, b8, b9⟩ := buildIdxes_sv t (commitLoop s t).1 hpan
  have hz : ∀ r ∈ t, ZKeyOk r := fun r hr' => (hr r hr').2.2
  have hextra_tid : ∀ x ∈ extra, x.1.txid = tid := by
    intro x hx
    exact marked_txid t tid (fun r hr' => (hr r hr').2.1) x.1 (by rw [← hex]; exact List.mem_map.mpr ⟨x, hx, rfl⟩)
  have htid_committed : tid ∈ committedIds (allRecs s.files ++ extra) := by
    obtain ⟨r, hrm, hs⟩ := marked_has_commit t hne
    rw [← hex] at hrm
    obtain ⟨x, hx, rfl⟩ := List.mem_map.mp hrm
    rw [mem_committedIds]
    exact ⟨x, by simp [hx], hs, hextra_tid x hx⟩
  rw [hcommit]
  refine ⟨⟨⟨?_, ?_, ?_, ?_⟩, ?_, ?_, ?_, ?_, ?_, ?_⟩, by rw [b6, hopt]⟩
  · rw [b4, b7]; exact hshape.split
  · rw [b8, b7]; exact hshape.hint
  · rw [b9]; exact hshape.linked
  · rw [b4]; exact hshape.untorn
  · rw [b3, b4, hfiles, List.filter_append, kvOfLog_append_list, ← h.idx]; exact hkv
  · rw [b4, hfiles]
    intro x hx
    rcases List.mem_append.mp hx with hx | hx
    · rw [Replay.committedIds_append]; exact List.mem_append.mpr (Or.inl (h.allCommitted x hx))
    · rw [hextra_tid x hx]; exact htid_committed
  · intro id
    rw [b5, b4, hcom id, hfiles, Replay.committedIds_append, List.mem_append, h.ids id]
    constructor
    · rintro (h1 | ⟨_, rfl⟩)
      · exact Or.inl h1
      · rw [Replay.committedIds_append, List.mem_append] at htid_committed
        exact htid_committed
    · rintro (h1 | h1)
      · exact Or.inl h1
      · right
        refine ⟨hne, ?_⟩
        obtain ⟨x, hx, _, hxt⟩ := (mem_committedIds extra id).mp h1
        rw [← hxt]; exact hextra_tid x hx
  · rw [b1, hsv1, b4, hfiles, List.map_append, hex, foldSV_append, ← h.structs]
    exact (foldSV_marked (sv s) t hz).1.symm
  · rw [b4, hfiles, List.map_append, hex, noPanic_append, ← h.structs]
    exact ⟨h.noPanic, (foldSV_marked (sv s) t hz).2 (by rw [← hsv1]; exact b2)⟩
  · rw [b4, hfiles]
    intro x hx
    rcases List.mem_append.mp hx with hx | hx
    · exact h.zok x hx
    · exact marked_zok t hz x.1 (by rw [← hex]; exact List.mem_map.mpr ⟨x, hx, rfl⟩)

/-- what a successful `Commit` does to the structures: the transaction's records applied one after another, in
the order they were queued, to the structures the transaction started from -/
theorem commit_sv (s : State) (t : List Rec) (h : Shape s) (ht : AnyTx s.opt.seg t) (hok : (commit s t).2 = .ok ()) :
    sv (commit s t).1 = foldSV (sv s) t true ∧ NoPanic (sv s) t true := by
  obtain ⟨hne, tid, hr⟩ := ht
  obtain ⟨hfine, _, _, hsv1, _, _⟩ :=
    commitLoop_any t tid s h (fun r hr' => ⟨(hr r hr').1, (hr r hr').2.1⟩)
  have hemp : t.isEmpty = false := by cases t with | nil => exact absurd rfl hne | cons _ _ => rfl
  have hpan : (buildIdxes (commitLoop s t).1 t).2 = false := by
    unfold commit at hok
    simp only [hemp, Bool.false_eq_true, if_false] at hok
    rw [show commitLoop s t = ((commitLoop s t).1, (commitLoop s t).2) from rfl] at hok
    simp only [hfine, Bool.not_true, Bool.false_eq_true, if_false] at hok
    rw [show buildIdxes (commitLoop s t).1 t = ((buildIdxes (commitLoop s t).1 t).1, (buildIdxes (commitLoop s t).1 t).2) from rfl] at hok
    cases hb : (buildIdxes (commitLoop s t).1 t).2 with
    | false => rfl
    | true => rw [hb] at hok; simp at hok
  have hcommit : (commit s t).1 = (buildIdxes (commitLoop s t).1 t).1 := by
    unfold commit
    simp only [hemp, Bool.false_eq_true, if_false]
    rw [show commitLoop s t = ((commitLoop s t).1, (commitLoop s t).2) from rfl]
    simp only [hfine, Bool.not_true, Bool.false_eq_true, if_false]
    rw [show buildIdxes (commitLoop s t).1 t = ((buildIdxes (commitLoop s t).1 t).1, (buildIdxes (commitLoop s t).1 t).2) from rfl]
    simp only [hpan, Bool.false_eq_true, if_false]
  obtain ⟨b1, b2, _⟩ := buildIdxes_sv t (commitLoop s t).1 hpan
  rw [hcommit, b1, hsv1]
  exact ⟨rfl, by rw [← hsv1]; exact b2⟩

/-! ### `Open` -/

theorem sv_applyKV (s : State) (r : Rec) (fid pos : Nat) : sv (applyKV s r fid pos) = sv s := rfl

theorem replay_any (rs : List LogRec) (ids : List Nat) (s : State) (hm : s.opt.mode = 0)
    (hv : ∀ x ∈ rs, ids.contains x.1.txid = true) (hnp : NoPanic (sv s) (rs.map (·.1)) false) :
    (replay s rs ids).2 = .ok () ∧ (replay s rs ids).1.kv = foldLog s.kv (rs.filter isKVrec) ∧
    sv (replay s rs ids).1 = foldSV (sv s) (rs.map (·.1)) false ∧
    (replay s rs ids).1.committed = s.committed ∧ (replay s rs ids).1.files = s.files ∧
    (replay s rs ids).1.opt = s.opt ∧ (replay s rs ids).1.activeFid = s.activeFid ∧
    (replay s rs ids).1.hintFid = s.hintFid ∧ (replay s rs ids).1.activeUnlinked = s.activeUnlinked := by
  induction rs generalizing s with
  | nil => exact ⟨rfl, rfl, rfl, rfl, rfl, rfl, rfl, rfl, rfl⟩
  | cons x rest ih =>
    obtain ⟨r, fid, pos⟩ := x
    have hc := hv (r, fid, pos) (by simp)
    simp only [] at hc
    simp only [List.map_cons] at hnp
    rw [noPanic_cons] at hnp
    by_cases hds : r.ds = dsKV
    · have hds' : (r.ds == dsKV) = true := by rw [hds]; rfl
      simp only [replay, hc, Bool.not_true, Bool.false_eq_true, if_false, hds', if_true]
      have hstep := stepSV_kv (sv s) r false hds
      rw [hstep] at hnp
      obtain ⟨h1, h2, h3, h4, h5, h6, h7, h8, h9⟩ := ih (applyKV s { r with status := 1 } fid pos) hm (fun y hy => hv y (by simp [hy])) hnp.2
      have hk : isKVrec (r, fid, pos) = true := by simp [isKVrec, hds]
      refine ⟨h1, ?_, ?_, h4, h5, h6, h7, h8, h9⟩
      · rw [h2, List.filter_cons_of_pos hk]; rfl
      · rw [h3]; simp only [List.map_cons, foldSV, List.foldl_cons, hstep]; rfl
    · have hds' : (r.ds == dsKV) = false := by simpa using hds
      have hmode : (s.opt.mode != 0) = false := by simp [hm]
      obtain ⟨he, ho⟩ := applyOther_eq s r false
      have hsv := applyOther_sv s r false
      have hnotpanic : (applyOther s r false).2 ≠ .panic := by rw [ho]; exact hnp.1
      have hm1 : (applyOther s r false).1.opt.mode = 0 := by rw [he]; exact hm
      have hnp2 : NoPanic (sv (applyOther s r false).1) (rest.map (·.1)) false := by rw [hsv]; exact hnp.2
      obtain ⟨h1, h2, h3, h4, h5, h6, h7, h8, h9⟩ := ih (applyOther s r false).1 hm1 (fun y hy => hv y (by simp [hy])) hnp2
      have hk : ¬ isKVrec (r, fid, pos) = true := by simp [isKVrec, hds]
      have hgoal : replay s ((r, fid, pos) :: rest) ids = replay (applyOther s r false).1 rest ids := by
        cases hq : (applyOther s r false).2 with
        | ok u =>
          simp only [replay, hc, Bool.not_true, Bool.false_eq_true, if_false, hds', hmode]
        | err =>
          simp only [replay, hc, Bool.not_true, Bool.false_eq_true, if_false, hds', hmode]
        | panic => exact absurd hq hnotpanic
      rw [hgoal]
      refine ⟨h1, ?_, ?_, by rw [h4, he], by rw [h5, he], by rw [h6, he], by rw [h7, he], by rw [h8, he], by rw [h9, he]⟩
      · rw [h2, List.filter_cons_of_neg hk, he]
      · rw [h3, hsv]; simp only [List.map_cons, foldSV, List.foldl_cons]

/-- **Recovery rebuilds every structure** (key+value mode): `Open` on the files of a state with the invariant
succeeds, leaves the files alone and rebuilds the same key/value index (status byte normalised), the same
lists, the same sets, the same sorted sets, the same committed ids -/
theorem open_rebuilds_all (s : State) (h : AllInv s) (opt : Opts) (hm : opt.mode = 0) :
    (openDB opt s.files).2 = .ok () ∧ (openDB opt s.files).1.kv = normKV s.kv ∧
    sv (openDB opt s.files).1 = sv s ∧ (openDB opt s.files).1.files = s.files ∧
    (∀ id, id ∈ (openDB opt s.files).1.committed ↔ id ∈ s.committed) := by
  obtain ⟨pre, f, hf, _, _⟩ := h.shape.split
  have hne : s.files ≠ [] := by rw [hf]; simp
  have hens := fileEnsure_max s.files hne
  have hemp : s.files.isEmpty = false := by
    cases hfs : s.files with
    | nil => exact absurd hfs hne
    | cons _ _ => rfl
  have htorn : (s.files.any (·.torn)) = false := by
    rw [List.any_eq_false]
    intro g hg; rw [h.shape.untorn g hg]; simp
  unfold openDB
  simp only [hens, hemp, Bool.false_eq_true, if_false, htorn]
  have hv : ∀ x ∈ allRecs s.files, (committedIds (allRecs s.files)).contains x.1.txid = true :=
    fun x hx => by simpa using h.allCommitted x hx
  obtain ⟨h1, h2, h3, h4, h5, _, _, _, _⟩ := replay_any (allRecs s.files) (committedIds (allRecs s.files))
    { opt := opt.core, files := s.files, activeFid := (s.files.map (·.fid)).foldl max 0, hintFid := (s.files.map (·.fid)).foldl max 0,
      writeOff := fileEnd ((fileGet? s.files ((s.files.map (·.fid)).foldl max 0)).getD { fid := (s.files.map (·.fid)).foldl max 0, recs := [] }),
      actualSize := fileEnd ((fileGet? s.files ((s.files.map (·.fid)).foldl max 0)).getD { fid := (s.files.map (·.fid)).foldl max 0, recs := [] }),
      committed := (committedIds (allRecs s.files)).eraseDups, opened := true } hm hv h.noPanic
  refine ⟨h1, ?_, ?_, h5, ?_⟩
  · rw [h2, h.idx]; rfl
  · rw [h3, h.structs]; rfl
  · intro id
    rw [h4, h.ids id]
    simp

theorem normKV_idem' (kv : Assoc (Assoc Idx)) : normKV (normKV kv) = normKV kv := normKV_idem kv

/-- the invariant holds again after `Open` (key+value mode) on the files of a state that has it -/
theorem allInv_reopen (s : State) (h : AllInv s) (opt : Opts) (hm : opt.mode = 0) : AllInv (openDB opt s.files).1 := by
  obtain ⟨hok, hkv, hsv, hfiles, hids⟩ := open_rebuilds_all s h opt hm
  obtain ⟨pre, f, hf, hfid, hpre⟩ := h.shape.split
  have hne : s.files ≠ [] := by rw [hf]; simp
  have hemp : s.files.isEmpty = false := by
    cases hfs : s.files with
    | nil => exact absurd hfs hne
    | cons _ _ => rfl
  have htorn : (s.files.any (·.torn)) = false := by
    rw [List.any_eq_false]; intro g hg; rw [h.shape.untorn g hg]; simp
  have hmax : (s.files.map (·.fid)).foldl max 0 = f.fid := by
    have hge := foldl_max_ge (s.files.map (·.fid)) 0
    have hf_le : f.fid ≤ (s.files.map (·.fid)).foldl max 0 := hge.2 f.fid (by rw [hf]; simp)
    rcases foldl_max_mem (s.files.map (·.fid)) 0 with h0 | hm'
    · omega
    · obtain ⟨g, hg, hgf⟩ := List.mem_map.mp hm'
      rw [hf] at hg
      rcases List.mem_append.mp hg with hg | hg
      · have := hpre g hg; omega
      · simp at hg; subst hg; exact hgf.symm
  have hens : fileEnsure s.files f.fid = s.files := by rw [← hmax]; exact fileEnsure_max s.files hne
  have hv : ∀ x ∈ allRecs s.files, (committedIds (allRecs s.files)).contains x.1.txid = true :=
    fun x hx => by simpa using h.allCommitted x hx
  have hfields : (openDB opt s.files).1.activeFid = f.fid ∧ (openDB opt s.files).1.hintFid = f.fid ∧
      (openDB opt s.files).1.activeUnlinked = false := by
    unfold openDB
    simp only [hmax, hens, hemp, Bool.false_eq_true, if_false, htorn]
    obtain ⟨_, _, _, _, _, _, h7, h8, h9⟩ := replay_any (allRecs s.files) (committedIds (allRecs s.files))
      { opt := opt.core, files := s.files, activeFid := f.fid, hintFid := f.fid,
        writeOff := fileEnd ((fileGet? s.files f.fid).getD { fid := f.fid, recs := [] }),
        actualSize := fileEnd ((fileGet? s.files f.fid).getD { fid := f.fid, recs := [] }),
        committed := (committedIds (allRecs s.files)).eraseDups, opened := true } hm hv h.noPanic
    exact ⟨h7, h8, h9⟩
  refine ⟨⟨⟨pre, f, by rw [hfiles, hf], hfields.1.symm, ?_⟩, by rw [hfields.2.1, hfields.1], hfields.2.2, ?_⟩, ?_, ?_, ?_, ?_, ?_, ?_⟩
  · intro g hg; rw [hfields.1, hfid]; exact hpre g hg
  · rw [hfiles]; exact h.shape.untorn
  · rw [hkv, hfiles, normKV_idem]; exact h.idx
  · rw [hfiles]; exact h.allCommitted
  · intro id; rw [hids id, hfiles]; exact h.ids id
  · rw [hsv, hfiles]; exact h.structs
  · rw [hfiles]; exact h.noPanic
  · rw [hfiles]; exact h.zok

theorem allInv_init (opt : Opts) : AllInv (openDB opt []).1 := by
  refine ⟨⟨⟨[], { fid := 0, recs := [] }, ?_, rfl, fun g hg => by cases hg⟩, rfl, rfl, ?_⟩, ?_, ?_, ?_, ?_, ?_, ?_⟩
  · simp [openDB, fileEnsure]
  · intro g hg; simp [openDB, fileEnsure] at hg; subst hg; rfl
  · simp [openDB, fileEnsure, allRecs, kvOfLog, normKV]
  · intro x hx; simp [openDB, fileEnsure, allRecs] at hx
  · intro id; simp [openDB, fileEnsure, allRecs, committedIds]
  · simp [openDB, fileEnsure, allRecs, sv, foldSV, emptySV]
  · intro a x b hab; simp [openDB, fileEnsure, allRecs] at hab
  · intro x hx; simp [openDB, fileEnsure, allRecs] at hx

/-- histories: commits of transactions with records of any structure that return success, and reopens in
key+value mode -/
inductive OpA where
  | commit (t : List Rec)
  | reopen (opt : Opts)

def stepA (s : State) : OpA → State
  | .commit t => (commit s t).1
  | .reopen o => (openDB o s.files).1

def OpsOkA (s : State) : List OpA → Prop
  | [] => True
  | .commit t :: rest => AnyTx s.opt.seg t ∧ (commit s t).2 = .ok () ∧ OpsOkA (commit s t).1 rest
  | .reopen o :: rest => o.mode = 0 ∧ OpsOkA (openDB o s.files).1 rest

theorem allInv_ops (ops : List OpA) (s : State) (h : AllInv s) (hok : OpsOkA s ops) : AllInv (ops.foldl stepA s) := by
  induction ops generalizing s with
  | nil => exact h
  | cons op rest ih =>
    cases op with
    | commit t =>
      obtain ⟨ht, hc, hrest⟩ := hok
      exact ih _ (commit_any s t h ht hc).1 hrest
    | reopen o =>
      obtain ⟨hm, hrest⟩ := hok
      exact ih _ (allInv_reopen s h o hm) hrest

/-! ### a crash inside `Commit`, records of any structure -/

/-- the state when the process dies after the first `j` records of `t` are written (none of them the last) -/
def crashAfterA (s : State) (t : List Rec) (j : Nat) : State := (t.take j).foldl (fun s r => writeRec s r false) s

theorem crash_shape_any (recs : List Rec) (s : State) (h : Shape s) :
    Shape (recs.foldl (fun s r => writeRec s r false) s) ∧
    ∃ extra : List LogRec, extra.map (·.1) = recs ∧
      allRecs (recs.foldl (fun s r => writeRec s r false) s).files = allRecs s.files ++ extra := by
  induction recs generalizing s with
  | nil => exact ⟨h, [], rfl, by simp⟩
  | cons r rest ih =>
    have hstep : Shape (writeRec s r false) ∧ ∃ fid pos, allRecs (writeRec s r false).files = allRecs s.files ++ [(markLast r false, fid, pos)] := by
      by_cases hds : r.ds = dsKV
      · obtain ⟨h1, ⟨fid, pos, h2, _⟩, _, _⟩ := writeRec_kv s r false h hds
        exact ⟨h1, fid, pos, h2⟩
      · obtain ⟨h1, ⟨fid, pos, h2⟩, _, _, _, _⟩ := writeRec_other s r false h hds
        exact ⟨h1, fid, pos, h2⟩
    obtain ⟨hs1, fid, pos, hrecs1⟩ := hstep
    obtain ⟨hs2, extra, hex, hfiles⟩ := ih (writeRec s r false) hs1
    refine ⟨hs2, (r, fid, pos) :: extra, by simp [hex], ?_⟩
    simp only [List.foldl_cons]
    rw [hfiles, hrecs1]
    simp [markLast]

theorem noPanic_prefix (v : SV) (a b : List Rec) (c : Bool) (h : NoPanic v (a ++ b) c) : NoPanic v a c :=
  ((noPanic_append v a b c).mp h).1

/-- `Open` on a directory whose log is a committed log `L` followed by unmarked records `E` of a fresh
transaction: the indexes and structures of `L` alone -/
theorem open_ignores_suffix_any (fs : List File) (opt : Opts) (hm : opt.mode = 0) (L E : List LogRec)
    (hne : fs ≠ []) (hunt : ∀ g ∈ fs, g.torn = false) (hrecs : allRecs fs = L ++ E)
    (hLc : ∀ x ∈ L, x.1.txid ∈ committedIds L) (hnp : NoPanic emptySV (L.map (·.1)) false)
    (hEs : ∀ x ∈ E, x.1.status = 0) (hEf : ∀ x ∈ E, ∀ y ∈ L, y.1.txid ≠ x.1.txid) :
    (openDB opt fs).2 = .ok () ∧ (openDB opt fs).1.kv = kvOfLog (L.filter isKVrec) ∧
    sv (openDB opt fs).1 = foldSV emptySV (L.map (·.1)) false ∧
    (∀ id, id ∈ (openDB opt fs).1.committed ↔ id ∈ committedIds L) := by
  have hens := fileEnsure_max fs hne
  have hemp : fs.isEmpty = false := by cases fs with | nil => exact absurd rfl hne | cons _ _ => rfl
  have htorn : (fs.any (·.torn)) = false := by
    rw [List.any_eq_false]; intro g hg; rw [hunt g hg]; simp
  obtain ⟨hids, hrep⟩ := Replay.uncommitted_suffix_invisible
    { opt := opt.core, files := fs, activeFid := (fs.map (·.fid)).foldl max 0, hintFid := (fs.map (·.fid)).foldl max 0,
      writeOff := fileEnd ((fileGet? fs ((fs.map (·.fid)).foldl max 0)).getD { fid := (fs.map (·.fid)).foldl max 0, recs := [] }),
      actualSize := fileEnd ((fileGet? fs ((fs.map (·.fid)).foldl max 0)).getD { fid := (fs.map (·.fid)).foldl max 0, recs := [] }),
      committed := (committedIds (L ++ E)).eraseDups, opened := true } L E hEs hEf
  have hv : ∀ x ∈ L, (committedIds L).contains x.1.txid = true := fun x hx => by simpa using hLc x hx
  unfold openDB
  simp only [hens, hemp, Bool.false_eq_true, if_false, htorn, hrecs]
  rw [hrep]
  obtain ⟨h1, h2, h3, h4, _, _, _, _, _⟩ := replay_any L (committedIds L)
    { opt := opt.core, files := fs, activeFid := (fs.map (·.fid)).foldl max 0, hintFid := (fs.map (·.fid)).foldl max 0,
      writeOff := fileEnd ((fileGet? fs ((fs.map (·.fid)).foldl max 0)).getD { fid := (fs.map (·.fid)).foldl max 0, recs := [] }),
      actualSize := fileEnd ((fileGet? fs ((fs.map (·.fid)).foldl max 0)).getD { fid := (fs.map (·.fid)).foldl max 0, recs := [] }),
      committed := (committedIds (L ++ E)).eraseDups, opened := true } hm hv hnp
  refine ⟨h1, by rw [h2]; rfl, by rw [h3]; rfl, ?_⟩
  intro id
  rw [h4, hids]
  simp

/-- **Crash inside Commit, any structures.** From a state with the invariant, a transaction with a fresh id
starts to commit and the process dies after `j` of its records — none of them the last — reached the files.
`Open` (key+value mode) on what is left succeeds and rebuilds the key/value index, the lists, the sets, the
sorted sets and the committed ids of the state before the transaction. -/
theorem crash_in_commit_any (s : State) (h : AllInv s) (t : List Rec) (tid : Nat) (j : Nat)
    (ht : ∀ r ∈ t, r.txid = tid ∧ r.status = 0)
    (hfresh : ∀ x ∈ allRecs s.files, x.1.txid ≠ tid) (opt : Opts) (hm : opt.mode = 0) :
    (openDB opt (crashAfterA s t j).files).2 = .ok () ∧
    (openDB opt (crashAfterA s t j).files).1.kv = normKV s.kv ∧
    sv (openDB opt (crashAfterA s t j).files).1 = sv s ∧
    (∀ id, id ∈ (openDB opt (crashAfterA s t j).files).1.committed ↔ id ∈ s.committed) := by
  have htake : ∀ r ∈ t.take j, r.txid = tid ∧ r.status = 0 := fun r hr => ht r (List.mem_of_mem_take hr)
  obtain ⟨hshape, extra, hex, hfiles⟩ := crash_shape_any (t.take j) s h.shape
  obtain ⟨pre, f, hf, _, _⟩ := hshape.split
  have hE : ∀ x ∈ extra, x.1.txid = tid ∧ x.1.status = 0 := by
    intro x hx
    have : x.1 ∈ t.take j := by rw [← hex]; exact List.mem_map.mpr ⟨x, hx, rfl⟩
    exact htake x.1 this
  obtain ⟨h1, h2, h3, h4⟩ := open_ignores_suffix_any (crashAfterA s t j).files opt hm (allRecs s.files) extra
    (by unfold crashAfterA; rw [hf]; simp) hshape.untorn hfiles h.allCommitted h.noPanic
    (fun x hx => (hE x hx).2) (fun x hx y hy => by rw [(hE x hx).1]; exact hfresh y hy)
  refine ⟨h1, by rw [h2, h.idx], by rw [h3, h.structs], ?_⟩
  intro id; rw [h4 id, h.ids id]

end NutsProofs.ReopenAll
