/-
  NutsProofs.Lemmas.SkiplistIns — `insertNode` keeps every span a distance, for every level layout and every
  drawn level (`insert_spansOK`), and puts the node at the cut (`insert_nodes`).
-/
import NutsProofs.Lemmas.Skiplist
namespace NutsProofs.SkipL
open Nuts Nuts.Model Nuts.Model.Skiplist
open Nuts.Model.ZSetA (Node nlt)

/-! ### list plumbing -/

theorem insertIdx_eq_take_drop {α} (l : List α) (c : Nat) (x : α) (h : c ≤ l.length) :
    l.insertIdx c x = l.take c ++ x :: l.drop c := by
  induction l generalizing c with
  | nil => cases c with
    | zero => rfl
    | succ c => simp at h
  | cons a as ih =>
    cases c with
    | zero => rfl
    | succ c =>
      simp only [List.length_cons] at h
      simp [List.insertIdx_succ_cons, ih c (by omega)]

theorem getD_mapIdx (l : List Int) (g : Nat → Int → Int) (i : Nat) (h : i < l.length) :
    (l.mapIdx g).getD i 0 = g i (l.getD i 0) := by
  simp only [List.getD_eq_getElem?_getD, List.getElem?_mapIdx]
  rw [List.getElem?_eq_getElem h]
  simp

theorem mapSpans_get (all : List Tower) (f : Nat → Nat → Int → Int) (p : Nat) :
    (mapSpans all f)[p]? = (all[p]?).map fun t => { t with spans := t.spans.mapIdx fun i sp => f p i sp } := by
  simp [mapSpans, List.getElem?_mapIdx]

theorem mapSpans_length (all : List Tower) (f : Nat → Nat → Int → Int) : (mapSpans all f).length = all.length := by
  simp [mapSpans]

theorem mapSpans_heights (all : List Tower) (f : Nat → Nat → Int → Int) :
    (mapSpans all f).map (·.spans.length) = all.map (·.spans.length) := by
  apply List.ext_getElem?
  intro p
  simp only [List.getElem?_map, mapSpans_get]
  cases all[p]? <;> simp

theorem mapSpans_nodes (all : List Tower) (f : Nat → Nat → Int → Int) :
    (mapSpans all f).map (·.node) = all.map (·.node) := by
  apply List.ext_getElem?
  intro p
  simp only [List.getElem?_map, mapSpans_get]
  cases all[p]? <;> simp

/-- `nextAt` looks at heights only -/
theorem nextAt_heights {i : Nat} {l l' : List Tower} (h : l.map (·.spans.length) = l'.map (·.spans.length)) :
    nextAt i l = nextAt i l' := by
  induction l generalizing l' with
  | nil =>
    cases l' with
    | nil => rfl
    | cons _ _ => simp at h
  | cons t ts ih =>
    cases l' with
    | nil => simp at h
    | cons t' ts' =>
      simp only [List.map_cons, List.cons.injEq] at h
      simp only [nextAt, h.1, ih h.2]

theorem gap_append (i : Nat) (a b : List Tower) :
    gap i (a ++ b) = match nextAt i a with
      | some d => d
      | none => a.length + gap i b := by
  unfold gap
  rw [nextAt_append]
  cases nextAt i a with
  | some d => simp
  | none =>
    simp only
    cases nextAt i b with
    | some e => simp; omega
    | none => simp

/-! ### `SpansOK`, pointwise and over an append -/

theorem spansOK_append {lv : Nat} (a r : List Tower) :
    SpansOK lv (a ++ r) ↔
      (∀ p t, a[p]? = some t → ∀ i, i < t.spans.length → i < lv → t.spans.getD i 0 = (gap i (a.drop (p + 1) ++ r) : Int)) ∧
      SpansOK lv r := by
  induction a with
  | nil => simp
  | cons u rest ih =>
    simp only [List.cons_append, SpansOK, ih]
    constructor
    · rintro ⟨h1, h2, h3⟩
      refine ⟨?_, h3⟩
      intro p t hp
      cases p with
      | zero => simp at hp; subst hp; simpa using h1
      | succ p' => rw [List.getElem?_cons_succ] at hp; simpa using h2 p' t hp
    · rintro ⟨h1, h3⟩
      refine ⟨by simpa using h1 0 u (by simp), ?_, h3⟩
      intro p t hp
      simpa using h1 (p + 1) t (by simpa using hp)

theorem spansOK_drop {lv : Nat} {all : List Tower} (h : SpansOK lv all) (k : Nat) : SpansOK lv (all.drop k) := by
  induction all generalizing k with
  | nil => simp [SpansOK]
  | cons t ts ih =>
    cases k with
    | zero => simpa using h
    | succ k => simpa using ih h.2 k

/-- raising the level bound costs nothing for towers that do not reach the old one -/
theorem spansOK_raise {lv lv' : Nat} {l : List Tower} (h : SpansOK lv l) (hh : ∀ t ∈ l, t.spans.length ≤ lv) : SpansOK lv' l := by
  induction l with
  | nil => trivial
  | cons t ts ih =>
    refine ⟨?_, ih h.2 (fun t' ht' => hh t' (List.mem_cons_of_mem _ ht'))⟩
    intro i hi _
    exact h.1 i hi (by have := hh t (List.mem_cons_self ..); omega)

/-! ### towers below the cut -/

theorem take_drop_get {all : List Tower} {c p j : Nat} (hc : c ≤ all.length) (hj : p + 1 + j < c) :
    ((all.take c).drop (p + 1))[j]? = all[p + 1 + j]? := by
  rw [List.getElem?_drop, List.getElem?_take]
  simp [hj]

theorem nextAt_below_none {all : List Tower} {c p i : Nat} (hc : c ≤ all.length) :
    nextAt i ((all.take c).drop (p + 1)) = none ↔ ∀ q, p < q → q < c → heightOf all q ≤ i := by
  rw [nextAt_none]
  constructor
  · intro h q hq hqc
    have hql : q < all.length := by omega
    have hg : all[q]? = some all[q] := List.getElem?_eq_getElem hql
    rw [heightOf_eq hg]
    apply h
    rw [List.mem_iff_getElem?]
    refine ⟨q - (p + 1), ?_⟩
    rw [take_drop_get hc (by omega)]
    have : p + 1 + (q - (p + 1)) = q := by omega
    rw [this]; exact hg
  · intro h t ht
    rw [List.mem_iff_getElem?] at ht
    obtain ⟨j, hj⟩ := ht
    have hjl : j < ((all.take c).drop (p + 1)).length := (List.getElem?_eq_some_iff.mp hj).1
    simp only [List.length_drop, List.length_take] at hjl
    have hjc : p + 1 + j < c := by omega
    rw [take_drop_get hc hjc] at hj
    have := h (p + 1 + j) (by omega) hjc
    rwa [heightOf_eq hj] at this

theorem nextAt_below_some {all : List Tower} {c p i d : Nat} (hc : c ≤ all.length)
    (h : nextAt i ((all.take c).drop (p + 1)) = some d) : p + d < c ∧ i < heightOf all (p + d) ∧ 1 ≤ d := by
  obtain ⟨h1, h2, ⟨t, ht, hlt⟩, _⟩ := nextAt_some h
  simp only [List.length_drop, List.length_take] at h2
  have hjc : p + 1 + (d - 1) < c := by omega
  rw [take_drop_get hc hjc] at ht
  have e : p + 1 + (d - 1) = p + d := by omega
  rw [e] at ht
  exact ⟨by omega, by rw [heightOf_eq ht]; exact hlt, h1⟩

theorem drop_split {all : List Tower} {c p : Nat} (hpc : p + 1 ≤ c) :
    all.drop (p + 1) = (all.take c).drop (p + 1) ++ all.drop c := by
  have : all.drop (p + 1) = (all.take c ++ all.drop c).drop (p + 1) := by rw [List.take_append_drop]
  rw [this, List.drop_append]
  have hl : (all.take c).length ≤ c := by simp [List.length_take]; omega
  by_cases hcl : c ≤ all.length
  · have : (all.take c).length = c := by simp [List.length_take]; omega
    rw [this]
    have : p + 1 - c = 0 := by omega
    rw [this]; simp
  · have e1 : all.take c = all := List.take_of_length_le (by omega)
    have e2 : all.drop c = [] := List.drop_of_length_le (by omega)
    simp [e1, e2]

/-! ### the state invariant -/

/-- well-formed skiplist: a header with 32 levels, `1 ≤ level ≤ 32`, `length` = number of nodes, every node
has between 1 and `level` levels, every span is a distance -/
structure Inv (s : SL) : Prop where
  hdr : ∃ h ts, s.all = h :: ts ∧ h.spans.length = maxLevel
  lvl : 1 ≤ s.level ∧ s.level ≤ maxLevel
  len : s.length = ((s.all.length - 1 : Nat) : Int)
  hts : ∀ t ∈ s.all.tail, 1 ≤ t.spans.length ∧ t.spans.length ≤ s.level
  spans : SpansOK s.level s.all

theorem Inv.height0 {s : SL} (h : Inv s) : heightOf s.all 0 = maxLevel := by
  obtain ⟨hd, ts, e, hl⟩ := h.hdr
  simp [heightOf, e, hl]

theorem Inv.heightPos {s : SL} (h : Inv s) {q : Nat} (hq : q < s.all.length) : 1 ≤ heightOf s.all q := by
  obtain ⟨hd, ts, e, hl⟩ := h.hdr
  cases q with
  | zero => rw [h.height0]; decide
  | succ q' =>
    obtain ⟨t, hg⟩ : ∃ t, s.all[q' + 1]? = some t := ⟨_, List.getElem?_eq_getElem hq⟩
    rw [heightOf_eq hg]
    apply (h.hts t _).1
    have : s.all.tail[q']? = some t := by simpa [e] using hg
    exact List.mem_of_getElem? this

theorem Inv.heightLe {s : SL} (h : Inv s) {q : Nat} (hq1 : 1 ≤ q) (hq : q < s.all.length) : heightOf s.all q ≤ s.level := by
  obtain ⟨hd, ts, e, hl⟩ := h.hdr
  cases q with
  | zero => omega
  | succ q' =>
    obtain ⟨t, hg⟩ : ∃ t, s.all[q' + 1]? = some t := ⟨_, List.getElem?_eq_getElem hq⟩
    rw [heightOf_eq hg]
    apply (h.hts t _).2
    have : s.all.tail[q']? = some t := by simpa [e] using hg
    exact List.mem_of_getElem? this

/-! ### `insertNode`, named parts -/

def insD (s : SL) (n : Node) (lvl : Nat) : List (Nat × Int) :=
  descend s.all (fun _ f => nlt f n) s.level 0 0 ++ List.replicate (lvl - s.level) (0, 0)
def insU (s : SL) (n : Node) (lvl : Nat) (i : Nat) : Nat := ((insD s n lvl).getD i (0, 0)).1
def insR (s : SL) (n : Node) (lvl : Nat) (i : Nat) : Int := ((insD s n lvl).getD i (0, 0)).2
def insF1 (s : SL) (lvl : Nat) : Nat → Nat → Int → Int :=
  fun p i sp => if p = 0 ∧ s.level ≤ i ∧ i < lvl then s.length else sp
def insF2 (s : SL) (n : Node) (lvl : Nat) : Nat → Nat → Int → Int :=
  fun p i sp => if p = insU s n lvl i then
      (if i < lvl then (insR s n lvl 0 - insR s n lvl i) + 1 else if i < max s.level lvl then sp + 1 else sp)
    else sp
def insNew (s : SL) (n : Node) (lvl : Nat) : List Int :=
  (List.range lvl).map fun i => spanOf (mapSpans s.all (insF1 s lvl)) (insU s n lvl i) i - (insR s n lvl 0 - insR s n lvl i)

theorem insertNode_eq (s : SL) (n : Node) (lvl : Nat) :
    insertNode s n lvl =
      { level := max s.level lvl, length := s.length + 1,
        all := (mapSpans (mapSpans s.all (insF1 s lvl)) (insF2 s n lvl)).insertIdx (insU s n lvl 0 + 1) ⟨n, insNew s n lvl⟩ } := rfl

theorem getD_replicate_zero (k j : Nat) : (List.replicate k ((0, 0) : Nat × Int)).getD j (0, 0) = (0, 0) := by
  simp only [List.getD_eq_getElem?_getD]
  by_cases h : j < k
  · simp [List.getElem?_replicate, h]
  · simp [List.getElem?_replicate, h]

/-- what the descent of `insertNode` delivers, level by level -/
theorem ins_upd {s : SL} (hinv : Inv s) (n : Node) (lvl c : Nat) (hc1 : 1 ≤ c) (hcl : c ≤ s.all.length)
    (hst : Steers s.all (fun _ f => nlt f n) c) :
    (∀ j, j < s.level → IsUpd s.all c j (insU s n lvl j) (insR s n lvl j)) ∧
    (∀ j, s.level ≤ j → insU s n lvl j = 0 ∧ insR s n lvl j = 0) ∧
    insU s n lvl 0 = c - 1 ∧ insR s n lvl 0 = ((c - 1 : Nat) : Int) := by
  have hd := descend_spec hinv.spans hst hcl s.level (Nat.le_refl _) 0 (by omega) (by rw [hinv.height0]; exact hinv.lvl.2)
  have e0 : ((0 : Nat) : Int) = 0 := rfl
  rw [e0] at hd
  obtain ⟨hlen, hall⟩ := hd
  have hlow : ∀ j, j < s.level → (insD s n lvl).getD j (0, 0) = (descend s.all (fun _ f => nlt f n) s.level 0 0).getD j (0, 0) := by
    intro j hj
    simp only [insD, List.getD_eq_getElem?_getD]
    rw [List.getElem?_append_left (by omega)]
  have hhigh : ∀ j, s.level ≤ j → (insD s n lvl).getD j (0, 0) = (0, 0) := by
    intro j hj
    have := getD_replicate_zero (lvl - s.level) (j - s.level)
    simp only [List.getD_eq_getElem?_getD] at this ⊢
    simp only [insD]
    rw [List.getElem?_append_right (by omega), hlen]
    exact this
  have h1 : ∀ j, j < s.level → IsUpd s.all c j (insU s n lvl j) (insR s n lvl j) := by
    intro j hj
    simp only [insU, insR, hlow j hj]
    exact (hall j hj).1
  have h0 := h1 0 (by have := hinv.lvl.1; omega)
  have hu0 : insU s n lvl 0 = c - 1 := by
    obtain ⟨_, a, _, d⟩ := h0
    by_cases hlt : insU s n lvl 0 < c - 1
    · have := d (c - 1) hlt (by omega)
      have := hinv.heightPos (q := c - 1) (by omega)
      omega
    · omega
  refine ⟨h1, ?_, hu0, ?_⟩
  · intro j hj
    simp only [insU, insR, hhigh j hj, and_self]
  · rw [h0.1, hu0]

/-! ### `insertNode` keeps the invariant -/

theorem tower_spans_id (t : Tower) (g : Nat → Int → Int) (h : ∀ i sp, g i sp = sp) :
    ({ t with spans := t.spans.mapIdx g } : Tower) = t := by
  have : t.spans.mapIdx g = t.spans := by
    apply List.ext_getElem?
    intro i
    rw [List.getElem?_mapIdx]
    cases t.spans[i]? <;> simp [h]
  rw [this]

theorem gap_cons_hit {i : Nat} {t : Tower} {rest : List Tower} (h : i < t.spans.length) : gap i (t :: rest) = 1 := by
  simp [gap, nextAt, h]

theorem gap_cons_miss {i : Nat} {t : Tower} {rest : List Tower} (h : ¬ i < t.spans.length) : gap i (t :: rest) = gap i rest + 1 := by
  simp only [gap, nextAt, h, if_false, List.length_cons]
  cases nextAt i rest <;> simp

theorem getD_range_map (lvl : Nat) (g : Nat → Int) (i : Nat) (h : i < lvl) : ((List.range lvl).map g).getD i 0 = g i := by
  simp [List.getD_eq_getElem?_getD, h]

theorem insert_inv {s : SL} (hinv : Inv s) (n : Node) (lvl c : Nat) (hl1 : 1 ≤ lvl) (hl2 : lvl ≤ maxLevel)
    (hc1 : 1 ≤ c) (hcl : c ≤ s.all.length) (hst : Steers s.all (fun _ f => nlt f n) c) :
    Inv (insertNode s n lvl) ∧
    (insertNode s n lvl).all.map (·.node) = (s.all.map (·.node)).take c ++ n :: (s.all.map (·.node)).drop c := by
  obtain ⟨hU, hHigh, hu0, hr0⟩ := ins_upd hinv n lvl c hc1 hcl hst
  obtain ⟨hd, ts, eall, hhd⟩ := hinv.hdr
  have hL1 := hinv.lvl.1
  have hL2 := hinv.lvl.2
  -- abbreviations
  generalize ha1 : mapSpans s.all (insF1 s lvl) = a1
  generalize ha2 : mapSpans a1 (insF2 s n lvl) = a2
  have hlen2 : a2.length = s.all.length := by rw [← ha2, mapSpans_length, ← ha1, mapSpans_length]
  have hheights : a2.map (·.spans.length) = s.all.map (·.spans.length) := by
    rw [← ha2, mapSpans_heights, ← ha1, mapSpans_heights]
  have hnodes : a2.map (·.node) = s.all.map (·.node) := by
    rw [← ha2, mapSpans_nodes, ← ha1, mapSpans_nodes]
  have hget2 : ∀ p, a2[p]? = (s.all[p]?).map fun (t : Tower) =>
      ({ node := t.node, spans := (t.spans.mapIdx fun i sp => insF1 s lvl p i sp).mapIdx fun i sp => insF2 s n lvl p i sp } : Tower) := by
    intro p
    rw [← ha2, mapSpans_get, ← ha1, mapSpans_get]
    cases s.all[p]? <;> simp
  have hall' : (insertNode s n lvl).all = a2.take c ++ ⟨n, insNew s n lvl⟩ :: a2.drop c := by
    rw [insertNode_eq]
    simp only
    rw [ha1, ha2, hu0]
    have : c - 1 + 1 = c := by omega
    rw [this]
    exact insertIdx_eq_take_drop _ _ _ (by omega)
  -- towers at and beyond the cut are untouched
  have hdrop : a2.drop c = s.all.drop c := by
    apply List.ext_getElem?
    intro j
    rw [List.getElem?_drop, List.getElem?_drop, hget2]
    cases hg : s.all[c + j]? with
    | none => rfl
    | some t =>
      simp only [Option.map_some, Option.some.injEq]
      have e1 : (t.spans.mapIdx fun i sp => insF1 s lvl (c + j) i sp) = t.spans := by
        have := tower_spans_id t (fun i sp => insF1 s lvl (c + j) i sp) (by intro i sp; simp only [insF1]; rw [if_neg]; omega)
        exact congrArg Tower.spans this
      rw [e1]
      have e2 : (t.spans.mapIdx fun i sp => insF2 s n lvl (c + j) i sp) = t.spans := by
        have := tower_spans_id t (fun i sp => insF2 s n lvl (c + j) i sp) (by
          intro i sp
          simp only [insF2]
          rw [if_neg]
          by_cases hi : i < s.level
          · have := (hU i hi).2.1; omega
          · have := (hHigh i (by omega)).1; omega)
        exact congrArg Tower.spans this
      rw [e2]
  have hlenNew : (insNew s n lvl).length = lvl := by simp [insNew]
  -- heights of the towers behind the cut are at most the old level
  have hdropH : ∀ t ∈ s.all.drop c, t.spans.length ≤ s.level := by
    intro t ht
    rw [List.mem_iff_getElem?] at ht
    obtain ⟨j, hj⟩ := ht
    rw [List.getElem?_drop] at hj
    have hjl : c + j < s.all.length := (List.getElem?_eq_some_iff.mp hj).1
    have := hinv.heightLe (q := c + j) (by omega) hjl
    rwa [heightOf_eq hj] at this
  have hnoneDrop : ∀ i, s.level ≤ i → nextAt i (s.all.drop c) = none := by
    intro i hi
    rw [nextAt_none]
    intro t ht
    have := hdropH t ht
    omega
  -- the spans of the new list
  have hspans : SpansOK (max s.level lvl) (a2.take c ++ ⟨n, insNew s n lvl⟩ :: a2.drop c) := by
    rw [hdrop, spansOK_append]
    refine ⟨?_, ⟨?_, spansOK_raise (spansOK_drop hinv.spans c) hdropH⟩⟩
    · -- towers below the cut
      intro p t' hp i hi hiL
      rw [List.getElem?_take] at hp
      have hpc : p < c := by
        apply Decidable.byContradiction
        intro hcon
        simp [hcon] at hp
      simp only [hpc, if_true] at hp
      rw [hget2] at hp
      cases hgp : s.all[p]? with
      | none => simp [hgp] at hp
      | some t =>
        simp only [hgp, Option.map_some, Option.some.injEq] at hp
        subst hp
        simp only [List.length_mapIdx] at hi
        have hHp : heightOf s.all p = t.spans.length := heightOf_eq hgp
        rw [getD_mapIdx _ _ _ (by simpa using hi), getD_mapIdx _ _ _ hi]
        -- the gap on the right
        have hN : nextAt i ((a2.take c).drop (p + 1)) = nextAt i ((s.all.take c).drop (p + 1)) := by
          apply nextAt_heights
          rw [List.map_drop, List.map_take, hheights, ← List.map_take, ← List.map_drop]
        have hlenA : ((a2.take c).drop (p + 1)).length = c - p - 1 := by
          simp only [List.length_drop, List.length_take, hlen2]; omega
        rw [gap_append, hN, hlenA]
        by_cases hiL0 : i < s.level
        · -- an old level
          have hold : t.spans.getD i 0 = (gap i (s.all.drop (p + 1)) : Int) := spansOK_get hinv.spans hgp hi hiL0
          rw [drop_split (c := c) (by omega), gap_append] at hold
          have hlenA' : ((s.all.take c).drop (p + 1)).length = c - p - 1 := by
            simp only [List.length_drop, List.length_take]; omega
          rw [hlenA'] at hold
          have hf1 : insF1 s lvl p i (t.spans.getD i 0) = t.spans.getD i 0 := by
            simp only [insF1]; rw [if_neg]; omega
          rw [hf1]
          obtain ⟨hru, huc, huh, hun⟩ := hU i hiL0
          cases hNN : nextAt i ((s.all.take c).drop (p + 1)) with
          | some d =>
            rw [hNN] at hold
            simp only at hold ⊢
            obtain ⟨b1, b2, b3⟩ := nextAt_below_some hcl hNN
            have hne : p ≠ insU s n lvl i := by
              intro e
              have := hun (p + d) (by omega) b1
              omega
            simp only [insF2]
            rw [if_neg hne]
            exact hold
          | none =>
            rw [hNN] at hold
            simp only at hold ⊢
            have hisu : IsUpd s.all c i p (p : Int) :=
              ⟨rfl, hpc, by rw [hHp]; exact hi, (nextAt_below_none hcl).mp hNN⟩
            have hpu : p = insU s n lvl i := (isUpd_unique hisu (hU i hiL0)).1
            simp only [insF2]
            rw [if_pos hpu]
            by_cases hil : i < lvl
            · rw [if_pos hil, gap_cons_hit (by simpa [hlenNew] using hil), hr0, hru, ← hpu]
              omega
            · rw [if_neg hil, if_pos (by omega), gap_cons_miss (by simpa [hlenNew] using hil), hold]
              omega
        · -- a new level: only the header reaches it
          have hp0 : p = 0 := by
            apply Decidable.byContradiction
            intro hpne
            have hpl : p < s.all.length := (List.getElem?_eq_some_iff.mp hgp).1
            have := hinv.heightLe (q := p) (by omega) hpl
            omega
          subst hp0
          have hil : i < lvl := by omega
          obtain ⟨hui, hri⟩ := hHigh i (by omega)
          have hNN : nextAt i ((s.all.take c).drop (0 + 1)) = none := by
            rw [nextAt_below_none hcl]
            intro q hq hqc
            have := hinv.heightLe (q := q) (by omega) (by omega)
            omega
          rw [hNN]
          simp only [insF2]
          rw [if_pos hui.symm, if_pos hil, gap_cons_hit (by simpa [hlenNew] using hil), hr0, hri]
          omega
    · -- the new tower
      intro i hi hiL
      simp only [hlenNew] at hi
      simp only [insNew]
      rw [getD_range_map lvl _ i hi, ha1]
      by_cases hiL0 : i < s.level
      · obtain ⟨hru, huc, huh, hun⟩ := hU i hiL0
        have hul : insU s n lvl i < s.all.length := by omega
        obtain ⟨t, hgt⟩ : ∃ t, s.all[insU s n lvl i]? = some t := ⟨_, List.getElem?_eq_getElem hul⟩
        have hHt : i < t.spans.length := by rw [← heightOf_eq hgt]; exact huh
        have hsp : spanOf a1 (insU s n lvl i) i = t.spans.getD i 0 := by
          have hg1 : a1[insU s n lvl i]? = some { t with spans := t.spans.mapIdx fun i' sp => insF1 s lvl (insU s n lvl i) i' sp } := by
            rw [← ha1, mapSpans_get, hgt]; rfl
          rw [spanOf_eq hg1]
          simp only
          rw [getD_mapIdx _ _ _ hHt]
          simp only [insF1]; rw [if_neg]; omega
        have hold : t.spans.getD i 0 = (gap i (s.all.drop (insU s n lvl i + 1)) : Int) := spansOK_get hinv.spans hgt hHt hiL0
        rw [drop_split (c := c) (by omega), gap_append, (nextAt_below_none hcl).mpr hun] at hold
        simp only [List.length_drop, List.length_take] at hold
        rw [hsp, hold, hr0, hru]
        omega
      · obtain ⟨hui, hri⟩ := hHigh i (by omega)
        have hg0 : s.all[0]? = some hd := by rw [eall]; rfl
        have hsp : spanOf a1 (insU s n lvl i) i = s.length := by
          rw [hui]
          have hg1 : a1[0]? = some { hd with spans := hd.spans.mapIdx fun i' sp => insF1 s lvl 0 i' sp } := by
            rw [← ha1, mapSpans_get, hg0]; rfl
          rw [spanOf_eq hg1]
          simp only
          rw [getD_mapIdx _ _ _ (by rw [hhd]; omega)]
          simp only [insF1]; rw [if_pos]; exact ⟨by first | rfl | trivial, by omega, hi⟩
        rw [hsp, hr0, hri, hinv.len]
        simp only [gap, hnoneDrop i (by omega), Option.getD_none, List.length_drop]
        omega
  -- assemble
  refine ⟨⟨?_, ?_, ?_, ?_, ?_⟩, ?_⟩
  · -- header
    rw [hall']
    have ha2c : a2 = ({ node := hd.node, spans := (hd.spans.mapIdx fun i sp => insF1 s lvl 0 i sp).mapIdx fun i sp => insF2 s n lvl 0 i sp } : Tower) :: a2.tail := by
      have h0 := hget2 0
      rw [eall] at h0
      simp only [List.getElem?_cons_zero, Option.map_some] at h0
      cases ha : a2 with
      | nil => rw [ha] at h0; simp at h0
      | cons x xs => rw [ha] at h0; simp at h0; simp [h0]
    obtain ⟨c', rfl⟩ : ∃ c', c = c' + 1 := ⟨c - 1, by omega⟩
    rw [ha2c]
    refine ⟨_, _, by rw [List.take_succ_cons, List.cons_append], ?_⟩
    simp [hhd]
  · simp only [insertNode_eq]; constructor
    · omega
    · exact Nat.max_le.mpr ⟨hL2, hl2⟩
  · rw [hall']
    simp only [insertNode_eq, List.length_append, List.length_take, List.length_cons, List.length_drop, hlen2, hinv.len]
    omega
  · -- heights of the nodes
    intro t ht
    rw [hall', List.mem_iff_getElem?] at ht
    obtain ⟨j, hj⟩ := ht
    rw [List.getElem?_tail] at hj
    simp only [insertNode_eq]
    by_cases hjc : j + 1 < c
    · rw [List.getElem?_append_left (by simp [List.length_take, hlen2]; omega), List.getElem?_take, if_pos hjc, hget2] at hj
      cases hg : s.all[j + 1]? with
      | none => simp [hg] at hj
      | some t0 =>
        simp only [hg, Option.map_some, Option.some.injEq] at hj
        subst hj
        simp only [List.length_mapIdx]
        have hjl : j + 1 < s.all.length := (List.getElem?_eq_some_iff.mp hg).1
        have h1 := hinv.heightPos hjl
        have h2 := hinv.heightLe (q := j + 1) (by omega) hjl
        rw [heightOf_eq hg] at h1 h2
        omega
    · rw [List.getElem?_append_right (by simp [List.length_take, hlen2]; omega)] at hj
      simp only [List.length_take, hlen2] at hj
      have hmin : min c s.all.length = c := by omega
      rw [hmin] at hj
      by_cases hje : j + 1 = c
      · rw [hje] at hj
        simp at hj
        subst hj
        simp only [hlenNew]; omega
      · obtain ⟨k, hk⟩ : ∃ k, j + 1 - c = k + 1 := ⟨j + 1 - c - 1, by omega⟩
        rw [hk, List.getElem?_cons_succ, hdrop, List.getElem?_drop] at hj
        have hjl : c + k < s.all.length := (List.getElem?_eq_some_iff.mp hj).1
        have h1 := hinv.heightPos hjl
        have h2 := hinv.heightLe (q := c + k) (by omega) hjl
        rw [heightOf_eq hj] at h1 h2
        omega
  · rw [hall']; simp only [insertNode_eq]; exact hspans
  · rw [hall']
    simp only [List.map_append, List.map_cons, List.map_take, List.map_drop, hnodes]

end NutsProofs.SkipL
