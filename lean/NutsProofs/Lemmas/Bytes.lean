/-
  Order lemmas for `bcmp` (= Go `bytes.Compare`): it is a lawful total order on byte strings.
-/
import Nuts.Basic
namespace NutsProofs
open Nuts

theorem u8_lt_irrefl (a : UInt8) : ¬ a < a := by
  intro h; exact absurd h (by simp [UInt8.lt_iff_toNat_lt])

theorem u8_trichotomy (a b : UInt8) (h1 : ¬ a < b) (h2 : ¬ b < a) : a = b := by
  apply UInt8.toNat_inj.mp
  simp [UInt8.lt_iff_toNat_lt] at h1 h2
  omega

theorem bcmp_refl (a : Bytes) : bcmp a a = .eq := by
  induction a with
  | nil => rfl
  | cons x xs ih => simp [bcmp, u8_lt_irrefl, ih]

theorem bcmp_eq_iff (a b : Bytes) : bcmp a b = .eq ↔ a = b := by
  constructor
  · intro h
    induction a generalizing b with
    | nil => cases b <;> simp_all [bcmp]
    | cons x xs ih =>
      cases b with
      | nil => simp [bcmp] at h
      | cons y ys =>
        simp only [bcmp] at h
        split at h
        · cases h
        · split at h
          · cases h
          · rename_i h1 h2
            rw [u8_trichotomy x y h1 h2, ih ys h]
  · intro h; subst h; exact bcmp_refl a

theorem bcmp_swap (a b : Bytes) : bcmp b a = (bcmp a b).swap := by
  induction a generalizing b with
  | nil => cases b <;> simp [bcmp, Ordering.swap]
  | cons x xs ih =>
    cases b with
    | nil => simp [bcmp, Ordering.swap]
    | cons y ys =>
      simp only [bcmp]
      by_cases h1 : x < y
      · have h2 : ¬ y < x := by
          simp [UInt8.lt_iff_toNat_lt] at h1 ⊢; omega
        simp [h1, h2, Ordering.swap]
      · by_cases h2 : y < x
        · simp [h1, h2, Ordering.swap]
        · simp [h1, h2, ih ys]

theorem bcmp_lt_trans {a b c : Bytes} (h1 : bcmp a b = .lt) (h2 : bcmp b c = .lt) : bcmp a c = .lt := by
  induction a generalizing b c with
  | nil =>
    cases b with
    | nil => simp [bcmp] at h1
    | cons y ys => cases c with
      | nil => simp [bcmp] at h2
      | cons z zs => simp [bcmp]
  | cons x xs ih =>
    cases b with
    | nil => simp [bcmp] at h1
    | cons y ys =>
      cases c with
      | nil => simp [bcmp] at h2
      | cons z zs =>
        simp only [bcmp] at h1 h2 ⊢
        by_cases hxy : x < y
        · by_cases hyz : y < z
          · have : x < z := by simp [UInt8.lt_iff_toNat_lt] at *; omega
            simp [this]
          · by_cases hzy : z < y
            · simp [hyz, hzy] at h2
            · have := u8_trichotomy y z hyz hzy; subst this; simp [hxy]
        · by_cases hyx : y < x
          · simp [hxy, hyx] at h1
          · have := u8_trichotomy x y hxy hyx; subst this
            by_cases hyz : x < z
            · simp [hyz]
            · by_cases hzy : z < x
              · simp [hyz, hzy] at h2
              · simp only [hxy, ↓reduceIte] at h1
                simp only [hyz, hzy, ↓reduceIte] at h2 ⊢
                exact ih h1 h2

theorem bcmp_gt_iff_lt (a b : Bytes) : bcmp a b = .gt ↔ bcmp b a = .lt := by
  rw [bcmp_swap a b]; cases bcmp a b <;> simp [Ordering.swap]

end NutsProofs
