/-
  NutsProofs.Lemmas.CodecDec — reading back: `ReadAt` inside a file, slices of concatenations, and the
  decoder's view of an encoded header.
-/
import NutsProofs.Lemmas.CodecEnc
namespace NutsProofs.Codec
open Nuts Nuts.Model.Codec

theorem slice_length (b : Bytes) (lo hi : Nat) (h : hi ≤ b.length) : (slice b lo hi).length = hi - lo := by
  unfold slice; simp; omega

theorem slice_slice (b : Bytes) (n lo hi : Nat) (h : hi ≤ n) : slice (slice b 0 n) lo hi = slice b lo hi := by
  apply List.ext_getElem?
  intro i
  rw [getElem?_slice, getElem?_slice, getElem?_slice]
  by_cases hi' : i < hi - lo
  · have : lo + i < n - 0 := by omega
    simp only [hi', this, if_true, Nat.zero_add]
  · simp [hi']

theorem slice_shift (a b : Bytes) (i j : Nat) : slice (a ++ b) (a.length + i) (a.length + j) = slice b i j := by
  apply List.ext_getElem?
  intro k
  rw [getElem?_slice, getElem?_slice]
  have : a.length + j - (a.length + i) = j - i := by omega
  rw [this]
  by_cases hk : k < j - i
  · simp only [hk, if_true]
    rw [List.getElem?_append_right (by omega)]
    congr 1; omega
  · simp [hk]

theorem slice_zero_length (a b : Bytes) : slice (a ++ b) 0 a.length = a := by
  unfold slice; simp

theorem slice_all (a : Bytes) : slice a 0 a.length = a := by
  unfold slice; simp

/-- reading `n` bytes at position `a` of a record `x` embedded in a file, both access modes -/
theorem readN_mid (mm : Bool) (pre x post : Bytes) (a n : Nat) (h : a + n ≤ x.length) :
    readN mm (pre ++ x ++ post) (pre.length + a) n = some (slice x a (a + n)) := by
  have hs : slice (pre ++ x ++ post) (pre.length + a) (pre.length + a + n) = slice x a (a + n) := by
    rw [List.append_assoc, show pre.length + a + n = pre.length + (a + n) by omega, slice_shift]
    exact slice_append_left _ _ _ _ h
  have hsl : (slice x a (a + n)).length = n := by rw [slice_length _ _ _ h]; omega
  have hdt : ((pre ++ x ++ post).drop (pre.length + a)).take n = slice x a (a + n) := by
    rw [← hs]; unfold slice; congr 1; omega
  unfold readN
  by_cases hn : n = 0
  · subst hn
    have hnil : slice x a a = [] := by unfold slice; simp
    simp only [Nat.add_zero] at h ⊢
    rw [hnil]
    cases mm
    · simp
    · simp only [if_true, true_and]
      by_cases he : pre.length + a = (pre ++ x ++ post).length
      · simp [he]
      · have h2 : ¬ (pre.length + a ≥ (pre ++ x ++ post).length) := by simp at he ⊢; omega
        simp only [he, h2, if_false]
        simp
  · have hlt : pre.length + a < (pre ++ x ++ post).length := by simp; omega
    have hle : pre.length + a + n ≤ (pre ++ x ++ post).length := by simp; omega
    cases mm
    · simp only [Bool.false_eq_true, if_false, hn, hle, if_true, hdt]
    · simp only [if_true]
      have h1 : ¬ (n = 0 ∧ pre.length + a = (pre ++ x ++ post).length) := by omega
      have h2 : ¬ (pre.length + a ≥ (pre ++ x ++ post).length) := by omega
      simp only [h1, h2, if_false, hdt, hsl, Nat.sub_self, List.replicate_zero, List.append_nil]

/-- the decoder reads back a header field that the encoder wrote with the same slice -/
theorem decode_field {E D : Layout} {hsz : Nat} {cn : String} (hwf : EncWF E hsz cn) (r : Raw) (d : Field)
    (hdD : d ∈ D) (hdE : d ∈ E) (hne : d.1 ≠ cn) (huniq : D.Pairwise fun a b => a.1 ≠ b.1)
    (hv : valOf r.vals d.1 < 256 ^ d.2.2.2) :
    valOf (getFields D (slice (encodeRaw E hsz cn r) 0 hsz)) d.1 = valOf r.vals d.1 := by
  have hok := hwf.ok d hdE
  unfold FieldOK at hok
  rw [valOf_getFields D _ d hdD huniq, slice_slice _ _ _ _ hok.2, (encodeRaw_spec hwf r).2.2.1 d hdE hne,
    leVal_leBytes _ _ hv]

/-- … and the stored checksum -/
theorem decode_crc {E D : Layout} {hsz : Nat} {cn : String} (hwf : EncWF E hsz cn) (r : Raw)
    (hdD : (("crc", 0, 4, 4) : Field) ∈ D) (huniq : D.Pairwise fun a b => a.1 ≠ b.1) :
    valOf (getFields D (slice (encodeRaw E hsz cn r) 0 hsz)) "crc" = (crc32 ((encodeRaw E hsz cn r).drop 4)).toNat := by
  have := valOf_getFields D (slice (encodeRaw E hsz cn r) 0 hsz) ("crc", 0, 4, 4) hdD huniq
  simp only at this
  rw [this, slice_slice _ _ _ _ hwf.four, (encodeRaw_spec hwf r).2.2.2]
  apply leVal_leBytes
  exact (crc32 _).isLt

/-- an encoded record is its header followed by its payload -/
theorem encodeRaw_split {E : Layout} {hsz : Nat} {cn : String} (hwf : EncWF E hsz cn) (r : Raw) :
    encodeRaw E hsz cn r = slice (encodeRaw E hsz cn r) 0 hsz ++ r.payload.flatten ∧
    (slice (encodeRaw E hsz cn r) 0 hsz).length = hsz := by
  have hs := encodeRaw_spec hwf r
  have h1 : slice (encodeRaw E hsz cn r) 0 hsz = (encodeRaw E hsz cn r).take hsz := by unfold slice; simp
  constructor
  · rw [h1, ← hs.2.1, List.take_append_drop]
  · rw [slice_length _ _ _ (by rw [hs.1]; omega)]; omega

end NutsProofs.Codec
