/-
  NutsProofs.Lemmas.LRem — `List.LRem` as coded (count the occurrences with a cap, then drop that many from
  the head or from the tail, copying into a slice of the expected length) against Redis `LREM`.
-/
import Nuts.Model.ListDS
import Nuts.Spec.RList
namespace NutsProofs.LRem
open Nuts Nuts.Model Nuts.Spec

def occ (l : List Bytes) (v : Bytes) : Nat := RList.occurrences l v

theorem occ_nil (v : Bytes) : occ [] v = 0 := rfl

theorem occ_cons (x : Bytes) (xs : List Bytes) (v : Bytes) : occ (x :: xs) v = (if x = v then 1 else 0) + occ xs v := by
  unfold occ RList.occurrences
  by_cases h : x = v <;> simp [List.filter_cons, h, Nat.add_comm]

theorem occ_le_length (l : List Bytes) (v : Bytes) : occ l v ≤ l.length := by
  unfold occ RList.occurrences; exact List.length_filter_le _ _

theorem occ_reverse (l : List Bytes) (v : Bytes) : occ l.reverse v = occ l v := by
  unfold occ RList.occurrences; rw [List.filter_reverse, List.length_reverse]

/-- the counting loop of `LRemNum` -/
theorem countCapped_eq (l : List Bytes) (v : Bytes) (cap : Int) (acc : Nat) (hacc : cap > 0 → (acc : Int) ≤ cap) :
    ListDS.countCapped l v cap acc = if cap > 0 then min cap.toNat (acc + occ l v) else acc + occ l v := by
  induction l generalizing acc with
  | nil =>
    simp only [ListDS.countCapped, occ_nil, Nat.add_zero]
    split
    · rename_i h; have := hacc h; omega
    · rfl
  | cons x xs ih =>
    simp only [ListDS.countCapped, occ_cons]
    by_cases hc : cap > 0
    · have ha := hacc hc
      simp only [hc, true_and, if_true]
      by_cases hfull : (acc : Int) = cap
      · simp only [hfull, if_true]; omega
      · simp only [hfull, if_false]
        by_cases hx : x = v
        · simp only [hx, if_true]
          rw [ih (acc + 1) (fun _ => by omega)]
          simp only [hc, if_true]; omega
        · simp only [hx, if_false]
          rw [ih acc (fun _ => ha)]
          simp only [hc, if_true]; omega
    · simp only [hc, false_and, if_false]
      by_cases hx : x = v
      · simp only [hx, if_true]
        rw [ih (acc + 1) (fun h => absurd h hc)]
        simp only [hc, if_false]; omega
      · simp only [hx, if_false]
        rw [ih acc (fun h => absurd h hc)]
        simp only [hc, if_false]; omega

theorem removeN_zero (l : List Bytes) (v : Bytes) : RList.removeN l v 0 = l := by
  cases l <;> simp [RList.removeN]

/-- the dropping loop of `LRem` is Redis's "remove the first n occurrences" -/
theorem removeFirst_eq (l : List Bytes) (v : Bytes) (n : Int) (removed : Nat) (hr : (removed : Int) ≤ n) :
    ListDS.removeFirst l v n removed =
      (RList.removeN l v (n - removed).toNat, removed + min (n - removed).toNat (occ l v)) := by
  induction l generalizing removed with
  | nil => simp [ListDS.removeFirst, RList.removeN, occ_nil]
  | cons x xs ih =>
    simp only [ListDS.removeFirst, occ_cons]
    by_cases hx : x = v
    · by_cases hlt : (removed : Int) < n
      · simp only [hlt, hx, and_self, if_true]
        rw [ih (removed + 1) (by omega)]
        have h1 : (n - (removed : Int)).toNat = (n - ((removed + 1 : Nat) : Int)).toNat + 1 := by omega
        rw [h1]
        simp only [RList.removeN, if_true]
        congr 1
        omega
      · have heq : (n - (removed : Int)).toNat = 0 := by omega
        simp only [hlt, false_and, if_false]
        rw [ih removed hr, heq, removeN_zero, removeN_zero]
        simp [hx]
    · simp only [hx, and_false, if_false]
      rw [ih removed hr]
      cases hk : (n - (removed : Int)).toNat with
      | zero => simp [removeN_zero]
      | succ m => simp [RList.removeN, hx]

theorem removeN_length (l : List Bytes) (v : Bytes) (n : Nat) : (RList.removeN l v n).length = l.length - min n (occ l v) := by
  induction l generalizing n with
  | nil => simp [RList.removeN]
  | cons x xs ih =>
    cases n with
    | zero => simp [removeN_zero]
    | succ m =>
      simp only [RList.removeN, occ_cons]
      by_cases hx : x = v
      · simp only [hx, if_true, ih m, List.length_cons]
        have := occ_le_length xs v
        omega
      · simp only [hx, if_false, List.length_cons, ih (m + 1)]
        have := occ_le_length xs v
        omega

/-- removing at least as many as there are is removing them all -/
theorem removeN_all (l : List Bytes) (v : Bytes) (n : Nat) (h : occ l v ≤ n) : RList.removeN l v n = l.filter (· ≠ v) := by
  induction l generalizing n with
  | nil => simp [RList.removeN]
  | cons x xs ih =>
    rw [occ_cons] at h
    by_cases hx : x = v
    · simp only [hx, if_true] at h
      cases n with
      | zero => omega
      | succ m =>
        simp only [RList.removeN, hx, if_true, List.filter_cons, ne_eq, not_true_eq_false, decide_false, Bool.false_eq_true, if_false]
        exact ih m (by omega)
    · simp only [hx, if_false, Nat.zero_add] at h
      cases n with
      | zero =>
        have h0 : occ xs v = 0 := by omega
        rw [removeN_zero]
        have := ih 0 (by omega)
        rw [removeN_zero] at this
        rw [List.filter_cons_of_pos (by simpa using hx), ← this]
      | succ m =>
        simp only [RList.removeN, hx, if_false, List.filter_cons, ne_eq, not_false_eq_true, decide_true, if_true]
        rw [ih (m + 1) (by omega)]

theorem wrap64_id (x : Int) (h0 : 0 ≤ x) (h1 : x < 9223372036854775808) : wrap64 x = x := by
  unfold wrap64; omega

/-- what `LRemNum` computes, for a count already clamped to `-size ≤ count ≤ size` -/
theorem lremNumL_eq (l : List Bytes) (count : Int) (v : Bytes) (hn : (l.length : Int) < 4611686018427387904)
    (hlo : -(l.length : Int) ≤ count) (hhi : count ≤ l.length) :
    ListDS.lremNumL l count v = .ok (if count = 0 then occ l v else min count.natAbs (occ l v)) := by
  unfold ListDS.lremNumL
  have h1 : ¬ count > (l.length : Int) := by omega
  have h2 : ¬ count < -(l.length : Int) := by omega
  simp only [h1, if_false, h2]
  by_cases hneg : count < 0
  · have hw : wrap64 (-count) = -count := wrap64_id (-count) (by omega) (by omega)
    simp only [hneg, if_true, hw]
    rw [countCapped_eq l v (-count) 0 (fun _ => by omega)]
    have : -count > 0 := by omega
    have hz : count ≠ 0 := by omega
    simp only [this, if_true, Nat.zero_add, hz, if_false]
    congr 2
    omega
  · simp only [hneg, if_false]
    rw [countCapped_eq l v count 0 (fun _ => by omega)]
    by_cases hz : count = 0
    · subst hz; simp
    · have : count > 0 := by omega
      simp only [this, if_true, Nat.zero_add, hz, if_false]
      congr 2
      omega

/-- **`LRem` is Redis `LREM`** for every count that is not above the size (machine integers, lists shorter
than 2^62): the first `count` occurrences from the head (`count > 0`), from the tail (`count < 0`, clamped at
`-size`), or all of them (`count = 0`) are removed and their number is returned; a count above the size is an
error; the copy loop never runs past its slice (no panic). -/
theorem lremL_spec (l : List Bytes) (count : Int) (v : Bytes) (hn : (l.length : Int) < 4611686018427387904) :
    ListDS.lremL l count v = if count > (l.length : Int) then .err else .ok (RList.lrem l count v) := by
  have hocc := occ_le_length l v
  -- the empty list: nothing to do, whatever the count
  by_cases hemp : l = []
  · subst hemp
    by_cases h0 : count > 0
    · have h1 : ¬ count < 0 := by omega
      simp [ListDS.lremL, ListDS.lremNumL, h0, h1]
    · have hz : ¬ count > ((([] : List Bytes).length : Nat) : Int) := by simpa using h0
      simp only [hz, if_false]
      unfold ListDS.lremL ListDS.lremNumL RList.lrem
      by_cases hneg : count < 0
      · have hne : ¬ count = 0 := by omega
        simp [hneg, ListDS.countCapped, RList.occurrences, RList.removeN, hne, h0]
      · have : count = 0 := by omega
        subst this
        simp [ListDS.countCapped, RList.occurrences]
  have hlenpos : 0 < l.length := List.length_pos_iff.mpr hemp
  unfold ListDS.lremL
  by_cases hbig : count > (l.length : Int)
  · -- the clamp does not apply; `LRemNum` refuses
    have h2 : ¬ count < -(l.length : Int) := by omega
    simp only [h2, if_false, hbig, if_true]
    unfold ListDS.lremNumL
    simp [hbig]
  · simp only [hbig, if_false]
    -- the clamped count
    have hclamp : ∀ c : Int, c = (if count < -(l.length : Int) then -(l.length : Int) else count) →
        -(l.length : Int) ≤ c ∧ c ≤ l.length := by intro c hc; rw [hc]; split <;> omega
    generalize hc : (if count < -(l.length : Int) then -(l.length : Int) else count) = c
    obtain ⟨hlo, hhi⟩ := hclamp c hc.symm
    rw [lremNumL_eq l c v hn hlo hhi]
    simp only []
    unfold RList.lrem
    have hoccdef : RList.occurrences l v = occ l v := rfl
    rw [hoccdef]
    by_cases hc0 : c = 0
    · -- count = 0: remove every occurrence
      have hcount0 : count = 0 := by rw [← hc] at hc0; split at hc0 <;> omega
      subst hc0; subst hcount0
      simp only [if_true]
      by_cases hz : occ l v = 0
      · simp only [hz, if_true]
        have := removeN_all l v 0 (by omega)
        rw [removeN_zero] at this
        rw [← this]
      · simp only [hz, if_false]
        have hpos : ((occ l v : Nat) : Int) > 0 := by omega
        simp only [hpos, if_true]
        rw [removeFirst_eq l v (occ l v) 0 (by omega)]
        simp only [Int.natCast_zero, Int.sub_zero, Int.toNat_natCast, Nat.zero_add, Nat.min_self]
        rw [removeN_length, Nat.min_self]
        simp only [Nat.le_refl, if_true, Nat.sub_self, List.replicate_zero, List.append_nil]
        rw [removeN_all l v (occ l v) (Nat.le_refl _)]
    · simp only [hc0, if_false]
      by_cases hneed : min c.natAbs (occ l v) = 0
      · -- nothing to remove
        have hoz : occ l v = 0 := by
          have : c.natAbs ≠ 0 := by omega
          omega
        simp only [hneed, if_true]
        have hcountne : count ≠ 0 := by rw [← hc] at hc0; split at hc0 <;> omega
        simp only [hcountne, if_false]
        have hall : ∀ n, RList.removeN l v n = l := by
          intro n
          have := removeN_all l v n (by omega)
          have h0 := removeN_all l v 0 (by omega)
          rw [removeN_zero] at h0
          rw [this, ← h0]
        have hallr : ∀ n, RList.removeN l.reverse v n = l.reverse := by
          intro n
          have hor : occ l.reverse v = 0 := by rw [occ_reverse]; exact hoz
          have := removeN_all l.reverse v n (by omega)
          have h0 := removeN_all l.reverse v 0 (by omega)
          rw [removeN_zero] at h0
          rw [this, ← h0]
        split
        · rw [hall, hoz]; simp
        · rw [hallr, hoz]; simp
      · simp only [hneed, if_false]
        by_cases hpos : c > 0
        · -- from the head
          have hcc : count = c := by rw [← hc]; split <;> omega
          subst hcc
          simp only [hpos, if_true, hc0, if_false]
          rw [removeFirst_eq l v count 0 (by omega)]
          simp only [Int.natCast_zero, Int.sub_zero, Nat.zero_add]
          rw [removeN_length]
          have hna : count.natAbs = count.toNat := by omega
          rw [hna]
          simp only [Nat.le_refl, if_true, Nat.sub_self, List.replicate_zero, List.append_nil]
        · -- from the tail
          have hneg : c < 0 := by omega
          have hcountneg : count < 0 := by rw [← hc] at hneg; split at hneg <;> omega
          have hnotpos : ¬ count > 0 := by omega
          have hcountne : count ≠ 0 := by omega
          simp only [hpos, if_false, hcountne, hnotpos]
          have hw : wrap64 (-c) = -c := wrap64_id (-c) (by omega) (by omega)
          rw [hw, removeFirst_eq l.reverse v (-c) 0 (by omega)]
          simp only [Int.natCast_zero, Int.sub_zero, Nat.zero_add, occ_reverse]
          rw [removeN_length, occ_reverse, List.length_reverse]
          have hna : c.natAbs = (-c).toNat := by omega
          rw [hna]
          simp only [Nat.le_refl, if_true, Nat.sub_self, List.replicate_zero, List.append_nil]
          -- the clamp at -size changes nothing: both counts cover every occurrence, or they are equal
          by_cases hcl : count < -(l.length : Int)
          · have hcv : c = -(l.length : Int) := by rw [← hc]; simp [hcl]
            have h1 : occ l.reverse v ≤ (-c).toNat := by rw [occ_reverse]; omega
            have h2 : occ l.reverse v ≤ (-count).toNat := by rw [occ_reverse]; omega
            rw [removeN_all _ _ _ h1, removeN_all _ _ _ h2]
            congr 2
            omega
          · have hcv : c = count := by rw [← hc]; simp [hcl]
            rw [hcv]

end NutsProofs.LRem
