/-
  NutsProofs.Lemmas.MergeCrash — the crash points inside the handling of one file by Merge (key/value data):
  while the rewrite transaction is being written (any number of its records short of the last), and after it has
  committed but before the old file is removed. In the first case the unmarked records are invisible to
  recovery; in the second the state already satisfies the Merge invariant (both copies of a rewritten record are
  in the files, the newer one is the entry's).
-/
import NutsProofs.Lemmas.MergeReopen
import NutsProofs.Lemmas.ReopenCrash
namespace NutsProofs.MergeKV
open Nuts Nuts.Model Nuts.Model.DB NutsProofs NutsProofs.Reopen NutsProofs.Hints NutsProofs.KVRefine

/-- the invariant after the rewrite transaction of a file, before the file is removed -/
theorem rewrite_minv (s : State) (now : Nat) (h : MInv s now) (f : File) (hf : f ∈ s.files) (tid : Nat)
    (hne : (f.recs.filter (isSel s f now)).map (·.2) ≠ []) :
    MInv (rewrite s ((f.recs.filter (isSel s f now)).map (·.2)) tid).1 now := by
  obtain ⟨_, hshape1, hpk1, hopt, hact, _, hsorted1, hcom, hfids, extra, hlog, hkv, hextra, _, hexm⟩ :=
    rewrite_step s now h f hf tid hne
  generalize (rewrite s ((f.recs.filter (isSel s f now)).map (·.2)) tid).1 = s1 at *
  obtain ⟨pre0, a0, hf0, ha0, hpre0⟩ := h.shape.split
  have hle_old : ∀ g ∈ s.files, g.fid ≤ s.activeFid := by
    intro g hg; rw [hf0] at hg
    rcases List.mem_append.mp hg with hg | hg
    · have := hpre0 g hg; omega
    · simp at hg; subst hg; omega
  have hsorted_log1 := log_sorted s1.files hpk1.fids hpk1.offs
  rw [hlog, List.pairwise_append] at hsorted_log1
  have hextra_ok : ∀ x ∈ extra, (x.1.flag = flagSet ∨ x.1.flag = flagDelete) ∧ x.1.ts + x.1.ttl < 2 ^ 64 := by
    intro x hx
    obtain ⟨_, _, _, _, p, hp, _, _, _, hv, hfl⟩ := hextra x hx
    have hpm := mem_allRecs_of s.files f hf p hp
    have hb := h.bounds _ hpm
    have hfp := (h.recs _ hpm).2.2
    simp only [] at hb hfp
    unfold vrec at hv
    simp only [Prod.mk.injEq] at hv
    exact ⟨by rw [hfl]; exact hfp, by rw [hv.2.1, hv.2.2.1]; exact hb⟩
  have hmem1 : ∀ x, x ∈ allRecs s1.files ↔ (x ∈ allRecs s.files ∨ x ∈ extra) := by
    intro x; rw [hlog, List.mem_append]
  refine ⟨hshape1, hpk1, ?_, ?_, ?_, hsorted1, ?_, ?_, ?_, ?_⟩
  · intro x hx
    rcases (hmem1 x).mp hx with hxo | hxe
    · have := h.recs x hxo
      exact ⟨this.1, by rw [hopt]; exact this.2.1, this.2.2⟩
    · obtain ⟨_, _, hd, hsz, _⟩ := hextra x hxe
      exact ⟨hd, by rw [hopt]; exact hsz, (hextra_ok x hxe).1⟩
  · intro x hx
    rcases (hmem1 x).mp hx with hxo | hxe
    · exact h.bounds x hxo
    · exact (hextra_ok x hxe).2
  · intro b m p hm hp
    have hm' : aget? (rawFold s.kv extra) b = some m := by rw [← hkv]; exact hm
    rcases rawFold_entries extra s.kv h.sorted b m p hm' hp with ⟨x, hx, _, hpx⟩ | ⟨m0, hm0, hp0, _⟩
    · subst hpx; exact hextra_ok x hx
    · exact h.idxok b m0 p hm0 hp0
  · -- latest
    intro x hx
    rw [hkv]
    rcases (hmem1 x).mp hx with hxo | hxe
    · by_cases hnamed : ∃ y ∈ extra, y.1.bucket = x.1.bucket ∧ y.1.key = x.1.key
      · obtain ⟨y, hy, hb, hk⟩ := hnamed
        obtain ⟨y', hy', _, _, _, hl⟩ := rawFold_latest extra s.kv hsorted_log1.2.1 y hy
        refine ⟨_, by rw [← hb, ← hk]; exact hl, ?_⟩
        left
        have h1 := (hextra y' hy').1
        obtain ⟨g, hg, hgfid, _⟩ := mem_allRecs s.files x hxo
        have := hle_old g hg
        show x.2.1 < y'.2.1
        omega
      · rw [rawFold_frame extra s.kv x.1.bucket x.1.key (fun y hy hc => hnamed ⟨y, hy, hc⟩)]
        exact h.latest x hxo
    · obtain ⟨y, hy, _, _, hle, hl⟩ := rawFold_latest extra s.kv hsorted_log1.2.1 x hxe
      exact ⟨_, hl, hle⟩
  · -- hints
    intro b m p hm hp
    have hm' : aget? (rawFold s.kv extra) b = some m := by rw [← hkv]; exact hm
    rcases rawFold_entries extra s.kv h.sorted b m p hm' hp with ⟨x, hx, hb, hpx⟩ | ⟨m0, hm0, hp0, _⟩
    · subst hpx
      exact ⟨rfl, hb.symm, Or.inl ⟨x, (hmem1 x).mpr (Or.inr hx), rfl, rfl⟩⟩
    · obtain ⟨hk, hbk, hh⟩ := h.hints b m0 p hm0 hp0
      refine ⟨hk, hbk, ?_⟩
      rcases hh with ⟨x, hx, hxp, hxr⟩ | ⟨hd, hlt, hgone⟩
      · exact Or.inl ⟨x, (hmem1 x).mpr (Or.inl hx), hxp, hxr⟩
      · right
        refine ⟨hd, by omega, ?_⟩
        intro g hg
        rcases hfids g hg with h1 | h1
        · obtain ⟨g0, hg0, hg0f⟩ := List.mem_map.mp h1
          rw [← hg0f]; exact hgone g0 hg0
        · omega
  · intro b m p hm hp
    have hm' : aget? (rawFold s.kv extra) b = some m := by rw [← hkv]; exact hm
    rcases rawFold_entries extra s.kv h.sorted b m p hm' hp with ⟨x, hx, _, hpx⟩ | ⟨m0, hm0, hp0, _⟩
    · subst hpx; exact (hextra x hx).2.1
    · exact hcom _ (h.committedIdx b m0 p hm0 hp0)
  · -- commit marks
    intro x hx
    rcases (hmem1 x).mp hx with hxo | hxe
    · obtain ⟨y, hy, h1, h2, h3⟩ := h.marks x hxo
      exact ⟨y, (hmem1 y).mpr (Or.inl hy), h1, h2, h3⟩
    · obtain ⟨y, hy, h1, h2, h3⟩ := hexm x hxe
      exact ⟨y, (hmem1 y).mpr (Or.inr hy), h1, h2, h3⟩

/-- **crash after the rewrite transaction committed, before the old file is removed** -/
theorem crash_after_rewrite (s : State) (now : Nat) (h : MInv s now) (hm : s.opt.mode = 0) (f : File) (hf : f ∈ s.files)
    (tid : Nat) (hne : (f.recs.filter (isSel s f now)).map (·.2) ≠ [])
    (opt : Opts) (hmo : opt.mode = 0) (t : Nat) (hle : now ≤ t) (ht : t < 2 ^ 64) (b : Bytes) :
    let s1 := (rewrite s ((f.recs.filter (isSel s f now)).map (·.2)) tid).1
    let s' := (openDB opt s1.files).1
    (openDB opt s1.files).2 = .ok () ∧
    (∀ k, (DB.get s' b k t).map (Option.map (·.value)) = (DB.get s b k t).map (Option.map (·.value))) ∧
    ((getAll s' b t).map pairsOf = (getAll s b t).map pairsOf) ∧
    (∀ st en, (rangeScan s' b st en t).map pairsOf = (rangeScan s b st en t).map pairsOf) ∧
    (∀ pre mt, (prefixScan s' b pre 0 (-1) t mt).map pairsOf = (prefixScan s b pre 0 (-1) t mt).map pairsOf) := by
  intro s1 s'
  have hm1inv := rewrite_minv s now h f hf tid hne
  obtain ⟨_, _, _, hopt, _, hvis, _⟩ := rewrite_step s now h f hf tid hne
  have hm1 : s1.opt.mode = 0 := by show (rewrite s _ tid).1.opt.mode = 0; rw [hopt]; exact hm
  obtain ⟨a1, a2, a3, a4⟩ := reads_of_vis_minv s s1 now h hm1inv hm hm1 hvis t ht b
  obtain ⟨hok2, b1, b2, b3, b4⟩ := reads_after_reopen s1 now hm1inv hm1 opt hmo t hle ht b
  exact ⟨hok2, fun k => by rw [b1 k, a1 k], by rw [b2, a2], fun st en => by rw [b3 st en, a3 st en],
    fun pre mt => by rw [b4 pre mt, a4 pre mt]⟩

/-- **crash while the rewrite transaction is being written**: `j` of its records — any number short of the
last — are in the new file; its id is fresh -/
theorem crash_in_rewrite (s : State) (now : Nat) (h : MInv s now) (hm : s.opt.mode = 0) (recs : List Rec)
    (hkv : ∀ r ∈ recs, r.ds = dsKV) (tid : Nat) (hfresh : ∀ x ∈ allRecs s.files, x.1.txid ≠ tid) (j : Nat)
    (opt : Opts) (hmo : opt.mode = 0) (t : Nat) (hle : now ≤ t) (ht : t < 2 ^ 64) (b : Bytes) :
    let sc := crashAfter (rotate s) (retag tid recs) j
    let s' := (openDB opt sc.files).1
    (openDB opt sc.files).2 = .ok () ∧
    (∀ k, (DB.get s' b k t).map (Option.map (·.value)) = (DB.get s b k t).map (Option.map (·.value))) ∧
    ((getAll s' b t).map pairsOf = (getAll s b t).map pairsOf) ∧
    (∀ st en, (rangeScan s' b st en t).map pairsOf = (rangeScan s b st en t).map pairsOf) ∧
    (∀ pre mt, (prefixScan s' b pre 0 (-1) t mt).map pairsOf = (prefixScan s b pre 0 (-1) t mt).map pairsOf) := by
  intro sc s'
  obtain ⟨hrs, hrrecs, _, _, _⟩ := rotate_shape s h.shape
  have htake : ∀ r ∈ (retag tid recs).take j, r.ds = dsKV ∧ r.txid = tid ∧ r.status = 0 := by
    intro r hr
    obtain ⟨q, hq, rfl⟩ := List.mem_map.mp (List.mem_of_mem_take hr)
    exact ⟨hkv q hq, rfl, rfl⟩
  obtain ⟨hshape, extra, hex, hfiles⟩ := crash_shape ((retag tid recs).take j) (rotate s) hrs (fun r hr => (htake r hr).1)
  rw [hrrecs] at hfiles
  obtain ⟨pre, f, hf, _, _⟩ := hshape.split
  have hE : ∀ x ∈ extra, x.1.txid = tid ∧ x.1.status = 0 := by
    intro x hx
    have : x.1 ∈ (retag tid recs).take j := by rw [← hex]; exact List.mem_map.mpr ⟨x, hx, rfl⟩
    exact (htake x.1 this).2
  obtain ⟨h1, h2, h3⟩ := open_ignores_uncommitted_suffix sc.files opt (allRecs s.files) extra
    (by show (crashAfter (rotate s) (retag tid recs) j).files ≠ []; unfold crashAfter; rw [hf]; simp) hshape.untorn hfiles
    (fun x hx => (h.recs x hx).1) (committed_of_marks _ h.marks)
    (fun x hx => (hE x hx).2) (fun x hx y hy => by rw [(hE x hx).1]; exact hfresh y hy)
  have hm' : s'.opt.mode = 0 := by
    show (openDB opt sc.files).1.opt.mode = 0
    rw [Replay.openDB_opt]; exact hmo
  exact ⟨h1, reads_of_rebuilt s now h hm s' h2 hm' h3 t hle ht b⟩

end NutsProofs.MergeKV
