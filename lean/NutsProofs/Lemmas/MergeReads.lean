/-
  NutsProofs.Lemmas.MergeReads — two key+value-mode states whose indexes show the same visible content (same
  keys in the same order, same value, timestamp, TTL, flag under each) and whose entries are all committed
  answer every key/value read alike, up to what a read can show of a record.
-/
import NutsProofs.Lemmas.MergeKV
namespace NutsProofs.MergeKV
open Nuts Nuts.Model Nuts.Model.DB NutsProofs NutsProofs.Reopen

/-- what a read shows of its results -/
def showO (o : Outcome (Option Rec)) : Outcome (Option (Bytes × Nat × Nat × Nat)) := o.map (Option.map vrec)
def showL (o : Outcome (List (Option Rec))) : Outcome (List (Option (Bytes × Nat × Nat × Nat))) := o.map (List.map (Option.map vrec))

def vidx (i : Idx) : Bytes × Nat × Nat × Nat := vrec i.r

theorem dead_of_vrec (r r' : Rec) (now : Nat) (h : vrec r' = vrec r) : dead r' now = dead r now := by
  unfold vrec at h
  simp only [Prod.mk.injEq] at h
  unfold dead
  rw [h.2.2.2, h.2.2.1, h.2.1]

theorem wrapper_vis (s s' : State) (hm : s.opt.mode = 0) (hm' : s'.opt.mode = 0) (lim : Int) (now : Nat)
    (recs' recs : List Idx) (hr : recs'.map vidx = recs.map vidx) (acc' acc : List (Option Rec))
    (ha : acc'.map (Option.map vrec) = acc.map (Option.map vrec)) :
    showL (wrapper s' recs' lim now acc') = showL (wrapper s recs lim now acc) := by
  induction recs' generalizing recs acc' acc with
  | nil =>
    cases recs with
    | nil => simp [wrapper, showL, Outcome.map, ha]
    | cons _ _ => simp at hr
  | cons i' rest' ih =>
    cases recs with
    | nil => simp at hr
    | cons i rest =>
      simp only [List.map_cons, List.cons.injEq] at hr
      obtain ⟨hi, hrest⟩ := hr
      have hlen : acc'.length = acc.length := by have := congrArg List.length ha; simpa using this
      have hd : dead i'.r now = dead i.r now := dead_of_vrec i.r i'.r now hi
      simp only [wrapper, hd, hlen]
      split
      · exact ih rest hrest acc' acc ha
      · split
        · simp only [fetch, hm, hm', beq_self_eq_true, if_true]
          apply ih rest hrest
          simp only [List.map_append, List.map_cons, List.map_nil, Option.map_some, ha]
          congr 2
          exact congrArg some hi
        · exact ih rest hrest acc' acc ha

theorem nonEmptyOrErr_showL (o o' : Outcome (List (Option Rec))) (h : showL o' = showL o) :
    showL (nonEmptyOrErr o') = showL (nonEmptyOrErr o) := by
  cases o' <;> cases o <;> simp only [showL, Outcome.map] at h <;> try (cases h)
  · rename_i l' l
    injection h with h
    cases l' <;> cases l <;> simp at h
    · rfl
    · simp only [nonEmptyOrErr, showL, Outcome.map]
      simp [h]
  · rfl
  · rfl

theorem visBucket_vals (m : Assoc Idx) : (m.map (·.2)).map vidx = (visBucket m).map (·.2) := by
  simp [visBucket, vidx, List.map_map, Function.comp]

theorem visBucket_filter (m : Assoc Idx) (p : Bytes → Bool) :
    visBucket (m.filter fun x => p x.1) = (visBucket m).filter fun x => p x.1 := by
  unfold visBucket; rw [List.filter_map]; rfl

theorem visBucket_dropWhile (m : Assoc Idx) (p : Bytes → Bool) :
    visBucket (m.dropWhile fun x => p x.1) = (visBucket m).dropWhile fun x => p x.1 := by
  unfold visBucket; rw [List.dropWhile_map]; rfl

theorem visBucket_takeWhile (m : Assoc Idx) (p : Bytes → Bool) :
    visBucket (m.takeWhile fun x => p x.1) = (visBucket m).takeWhile fun x => p x.1 := by
  unfold visBucket; rw [List.takeWhile_map]; rfl

theorem isEmpty_of_vis (m' m : Assoc Idx) (h : visBucket m' = visBucket m) : m'.isEmpty = m.isEmpty := by
  cases m' <;> cases m <;> simp [visBucket] at h ⊢

theorem prefixGo_vis (off lim : Int) (mt : Bytes → Bool) (l' l : List (Bytes × Idx)) (hl : visBucket l' = visBucket l)
    (c : Int) (acc' acc : List Idx) (ha : acc'.map vidx = acc.map vidx) :
    (prefixWalk.go off lim mt l' c acc').1.map vidx = (prefixWalk.go off lim mt l c acc).1.map vidx ∧
    (prefixWalk.go off lim mt l' c acc').2 = (prefixWalk.go off lim mt l c acc).2 := by
  induction l' generalizing l c acc' acc with
  | nil =>
    cases l with
    | nil => exact ⟨by simp [prefixWalk.go, ha], rfl⟩
    | cons _ _ => simp [visBucket] at hl
  | cons p' rest' ih =>
    cases l with
    | nil => simp [visBucket] at hl
    | cons p rest =>
      simp only [visBucket, List.map_cons, List.cons.injEq, Prod.mk.injEq] at hl
      obtain ⟨⟨hk, hv⟩, hrest⟩ := hl
      have hrest' : visBucket rest' = visBucket rest := hrest
      have hlen : acc'.length = acc.length := by have := congrArg List.length ha; simpa using this
      unfold prefixWalk.go
      rw [hk]
      split
      · exact ih rest hrest' _ acc' acc ha
      · split
        · exact ih rest hrest' _ acc' acc ha
        · have ha2 : (acc' ++ [p'.2]).map vidx = (acc ++ [p.2]).map vidx := by
            simp only [List.map_append, List.map_cons, List.map_nil, ha]
            congr 2
          simp only [List.length_append, List.length_cons, List.length_nil, hlen]
          split
          · exact ⟨ha2, rfl⟩
          · exact ih rest hrest' _ _ _ ha2

theorem opt_cases {α β} (a b : Option α) {f : α → β} (h : a.map f = b.map f) :
    (a = none ∧ b = none) ∨ ∃ x y, a = some x ∧ b = some y ∧ f x = f y := by
  cases a <;> cases b <;> simp at h
  · exact Or.inl ⟨rfl, rfl⟩
  · exact Or.inr ⟨_, _, rfl, rfl, h⟩

theorem bucket_cases (s s' : State) (hb : ∀ b, (aget? s'.kv b).map visBucket = (aget? s.kv b).map visBucket) (b : Bytes) :
    (aget? s'.kv b = none ∧ aget? s.kv b = none) ∨
    ∃ m' m, aget? s'.kv b = some m' ∧ aget? s.kv b = some m ∧ visBucket m' = visBucket m :=
  opt_cases _ _ (hb b)

/-- **same visible index, same reads** (key+value mode, every entry committed) -/
theorem reads_of_visKV (s s' : State) (hm : s.opt.mode = 0) (hm' : s'.opt.mode = 0) (hv : visKV s'.kv = visKV s.kv)
    (hc : AllB s.kv fun _ _ i => i.r.txid ∈ s.committed) (hc' : AllB s'.kv fun _ _ i => i.r.txid ∈ s'.committed) :
    (∀ b k now, showO (DB.get s' b k now) = showO (DB.get s b k now)) ∧
    (∀ b now, showL (getAll s' b now) = showL (getAll s b now)) ∧
    (∀ b st en now, showL (rangeScan s' b st en now) = showL (rangeScan s b st en now)) ∧
    (∀ b pre off lim now mt, showL (prefixScan s' b pre off lim now mt) = showL (prefixScan s b pre off lim now mt)) := by
  -- bucket by bucket
  have hb : ∀ b, (aget? s'.kv b).map visBucket = (aget? s.kv b).map visBucket := by
    intro b
    have h1 := aget_map visBucket s'.kv b
    have h2 := aget_map visBucket s.kv b
    unfold visKV at hv
    rw [← h1, ← h2, hv]
  refine ⟨?_, ?_, ?_, ?_⟩
  · intro b k now
    unfold DB.get bucketIdx
    rcases bucket_cases s s' hb b with ⟨hm1, hm2⟩ | ⟨m', m, hm1, hm2, hvb⟩
    · rw [hm1, hm2]
    · rw [hm1, hm2]
      simp only []
      have hk : (aget? m' k).map vidx = (aget? m k).map vidx := by
        have h1 := aget_map vidx m' k
        have h2 := aget_map vidx m k
        have : (m'.map fun p => (p.1, vidx p.2)) = (m.map fun p => (p.1, vidx p.2)) := hvb
        rw [← h1, ← h2, this]
      rcases opt_cases (aget? m' k) (aget? m k) hk with ⟨hi', hi⟩ | ⟨i', i, hi', hi, hvi⟩
      · rw [hi', hi]
      · rw [hi', hi]
        have hc1 : s'.committed.contains i'.r.txid = true := by
          simpa using hc' b m' (k, i') hm1 (aget_mem m' k i' hi')
        have hc2 : s.committed.contains i.r.txid = true := by
          simpa using hc b m (k, i) hm2 (aget_mem m k i hi)
        have hd : dead i'.r now = dead i.r now := dead_of_vrec i.r i'.r now hvi
        simp only [hc1, hc2, Bool.not_true, Bool.false_eq_true, if_false, hd, fetch, hm, hm', beq_self_eq_true, if_true]
        split
        · rfl
        · simp only [showO, Outcome.map, Option.map_some]
          exact congrArg (fun x => Outcome.ok (some x)) hvi
  · intro b now
    unfold getAll bucketIdx
    rcases bucket_cases s s' hb b with ⟨hm1, hm2⟩ | ⟨m', m, hm1, hm2, hvb⟩
    · rw [hm1, hm2]
    · rw [hm1, hm2]
      simp only [isEmpty_of_vis m' m hvb]
      split
      · rfl
      · apply nonEmptyOrErr_showL
        apply wrapper_vis s s' hm hm'
        · rw [visBucket_vals, visBucket_vals, hvb]
        · rfl
  · intro b st en now
    unfold rangeScan bucketIdx
    rcases bucket_cases s s' hb b with ⟨hm1, hm2⟩ | ⟨m', m, hm1, hm2, hvb⟩
    · rw [hm1, hm2]
    · rw [hm1, hm2]
      simp only []
      split
      · rfl
      · have hf : visBucket (m'.filter fun x => ble st x.1 && ble x.1 en) = visBucket (m.filter fun x => ble st x.1 && ble x.1 en) := by
          rw [visBucket_filter m' (fun k => ble st k && ble k en), visBucket_filter m (fun k => ble st k && ble k en), hvb]
        rw [isEmpty_of_vis _ _ hf]
        split
        · rfl
        · apply nonEmptyOrErr_showL
          apply wrapper_vis s s' hm hm'
          · rw [visBucket_vals, visBucket_vals, hf]
          · rfl
  · intro b pre off lim now mt
    unfold prefixScan bucketIdx
    rcases bucket_cases s s' hb b with ⟨hm1, hm2⟩ | ⟨m', m, hm1, hm2, hvb⟩
    · rw [hm1, hm2]
    · rw [hm1, hm2]
      simp only []
      have hblock : visBucket ((m'.dropWhile fun p => blt p.1 pre).takeWhile fun p => hasPrefix p.1 pre) =
          visBucket ((m.dropWhile fun p => blt p.1 pre).takeWhile fun p => hasPrefix p.1 pre) := by
        rw [visBucket_takeWhile _ (fun k => hasPrefix k pre), visBucket_takeWhile _ (fun k => hasPrefix k pre),
          visBucket_dropWhile m' (fun k => blt k pre), visBucket_dropWhile m (fun k => blt k pre), hvb]
      have hgo := prefixGo_vis off lim mt _ _ hblock 0 [] [] rfl
      unfold prefixWalk
      simp only []
      have hemp : (prefixWalk.go off lim mt ((m'.dropWhile fun p => blt p.1 pre).takeWhile fun p => hasPrefix p.1 pre) 0 []).1.isEmpty =
          (prefixWalk.go off lim mt ((m.dropWhile fun p => blt p.1 pre).takeWhile fun p => hasPrefix p.1 pre) 0 []).1.isEmpty := by
        have := congrArg List.length hgo.1
        simp only [List.length_map] at this
        cases h1 : (prefixWalk.go off lim mt ((m'.dropWhile fun p => blt p.1 pre).takeWhile fun p => hasPrefix p.1 pre) 0 []).1 <;>
          cases h2 : (prefixWalk.go off lim mt ((m.dropWhile fun p => blt p.1 pre).takeWhile fun p => hasPrefix p.1 pre) 0 []).1 <;>
          rw [h1, h2] at this <;> simp at this ⊢
      rw [hemp]
      split
      · rfl
      · apply nonEmptyOrErr_showL
        exact wrapper_vis s s' hm hm' lim now _ _ hgo.1 [] [] rfl

end NutsProofs.MergeKV
