/-
  NutsProofs.Lemmas.Crc — the CRC-32 shift register is a bijection of the state for every input byte,
  and an injection of the byte for every state. Kernel-only proofs (bit extensionality; no `bv_decide`).
-/
import Nuts.Model.Codec
namespace NutsProofs.Crc
open Nuts Nuts.Model.Codec

theorem poly_bit31 : poly.getLsbD 31 = true := by decide

theorem bitStep_bit31 (s : BitVec 32) : (bitStep s).getLsbD 31 = s.getLsbD 0 := by
  unfold bitStep
  split
  · rename_i h
    rw [BitVec.getLsbD_xor, BitVec.getLsbD_ushiftRight, poly_bit31, h]
    rw [BitVec.getLsbD_of_ge _ _ (by omega)]; rfl
  · rename_i h
    rw [BitVec.getLsbD_ushiftRight, BitVec.getLsbD_of_ge _ _ (by omega)]
    cases hs : s.getLsbD 0 <;> simp_all

theorem bitStep_inj {a b : BitVec 32} (h : bitStep a = bitStep b) : a = b := by
  have h0 : a.getLsbD 0 = b.getLsbD 0 := by rw [← bitStep_bit31, ← bitStep_bit31, h]
  have h1 : a >>> 1 = b >>> 1 := by
    unfold bitStep at h
    rw [h0] at h
    split at h
    · have := congrArg (· ^^^ poly) h
      simpa [BitVec.xor_assoc] using this
    · exact h
  apply BitVec.eq_of_getLsbD_eq
  intro i _
  cases i with
  | zero => exact h0
  | succ j =>
    have := congrArg (·.getLsbD j) h1
    simpa [BitVec.getLsbD_ushiftRight, Nat.add_comm] using this

theorem byteStep_inj_state {a b : BitVec 32} {x : UInt8} (h : byteStep a x = byteStep b x) : a = b := by
  unfold byteStep at h
  have h := bitStep_inj (bitStep_inj (bitStep_inj (bitStep_inj (bitStep_inj (bitStep_inj (bitStep_inj (bitStep_inj h)))))))
  have := congrArg (· ^^^ BitVec.ofNat 32 x.toNat) h
  simpa [BitVec.xor_assoc] using this

theorem ofNat_byte_inj {x y : UInt8} (h : BitVec.ofNat 32 x.toNat = BitVec.ofNat 32 y.toNat) : x = y := by
  have hx : x.toNat < 256 := x.toNat_lt
  have hy : y.toNat < 256 := y.toNat_lt
  have := congrArg BitVec.toNat h
  simp [BitVec.toNat_ofNat] at this
  apply UInt8.toNat_inj.mp
  omega

theorem byteStep_inj_byte {s : BitVec 32} {x y : UInt8} (h : byteStep s x = byteStep s y) : x = y := by
  unfold byteStep at h
  have h := bitStep_inj (bitStep_inj (bitStep_inj (bitStep_inj (bitStep_inj (bitStep_inj (bitStep_inj (bitStep_inj h)))))))
  have : BitVec.ofNat 32 x.toNat = BitVec.ofNat 32 y.toNat := by
    have := congrArg (s ^^^ ·) h
    simpa [← BitVec.xor_assoc] using this
  exact ofNat_byte_inj this

/-- feeding the same bytes into two different register states leaves them different -/
theorem crcFeed_inj_state (data : Bytes) {a b : BitVec 32} (h : crcFeed a data = crcFeed b data) : a = b := by
  induction data generalizing a b with
  | nil => simpa [crcFeed] using h
  | cons x rest ih =>
    simp only [crcFeed, List.foldl_cons] at h
    exact byteStep_inj_state (ih h)

theorem crcFeed_append (s : BitVec 32) (a b : Bytes) : crcFeed s (a ++ b) = crcFeed (crcFeed s a) b := by
  simp [crcFeed, List.foldl_append]

/-- **single-byte error detection**: two strings that differ in exactly one byte have different CRCs -/
theorem crc32_one_byte (p q : Bytes) (x y : UInt8) (hxy : x ≠ y) : crc32 (p ++ x :: q) ≠ crc32 (p ++ y :: q) := by
  intro h
  unfold crc32 at h
  have h := congrArg (~~~ ·) h
  simp only [BitVec.not_not] at h
  rw [crcFeed_append, crcFeed_append] at h
  simp only [crcFeed, List.foldl_cons] at h
  exact hxy (byteStep_inj_byte (crcFeed_inj_state q h))

/-- the checksum determines the register state, hence strings with different checksums of a common
prefix keep different checksums whatever follows (used for a corrupted header followed by the payload) -/
theorem crc32_append_inj (a b q : Bytes) (h : crc32 (a ++ q) = crc32 (b ++ q)) : crc32 a = crc32 b := by
  unfold crc32 at h ⊢
  have h := congrArg (~~~ ·) h
  simp only [BitVec.not_not] at h
  rw [crcFeed_append, crcFeed_append] at h
  rw [crcFeed_inj_state q h]

/-- `crc32.Update` continues the checksum of a prefix -/
theorem crcUpdate_crc32 (a b : Bytes) : crcUpdate (crc32 a) b = crc32 (a ++ b) := by
  simp [crcUpdate, crc32, crcFeed_append]

theorem getCrc_eq (hdr : Bytes) (parts : List Bytes) : getCrc hdr parts = crc32 (hdr.drop 4 ++ parts.flatten) := by
  unfold getCrc
  generalize hdr.drop 4 = a
  induction parts generalizing a with
  | nil => simp
  | cons p rest ih => simp [List.foldl_cons, crcUpdate_crc32, ih, List.append_assoc]

end NutsProofs.Crc
