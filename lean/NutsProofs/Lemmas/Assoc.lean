/-
  Lemmas about association lists: `aget?`/`aput` (Go maps) and `upsert` (the in-order key sequence
  of a B+ tree under `Insert`).
-/
import Nuts.Model.DB
import NutsProofs.Lemmas.Bytes
namespace NutsProofs
open Nuts Nuts.Model.DB

theorem aget_aput_self {α} (m : Assoc α) (k : Bytes) (v : α) : aget? (aput m k v) k = some v := by
  induction m with
  | nil => simp [aput, aget?]
  | cons p rest ih =>
    obtain ⟨k', v'⟩ := p
    by_cases h : k' = k <;> simp [aput, aget?, h, ih]

theorem aget_aput_other {α} (m : Assoc α) (k k' : Bytes) (v : α) (h : k' ≠ k) :
    aget? (aput m k v) k' = aget? m k' := by
  induction m with
  | nil => simp [aput, aget?, Ne.symm h]
  | cons p rest ih =>
    obtain ⟨k0, v0⟩ := p
    by_cases h0 : k0 = k
    · subst h0; simp [aput, aget?, Ne.symm h]
    · by_cases h1 : k0 = k'
      · subst h1; simp [aput, aget?, h0]
      · simp [aput, aget?, h0, h1, ih]

/-- keys strictly ascending in `bytes.Compare` order -/
def Sorted {α} (m : Assoc α) : Prop := m.Pairwise fun a b => bcmp a.1 b.1 = .lt

theorem aget_upsert_self {α} (m : Assoc α) (k : Bytes) (v : α) : aget? (upsert m k v) k = some v := by
  induction m with
  | nil => simp [upsert, aget?]
  | cons p rest ih =>
    obtain ⟨k', v'⟩ := p
    simp only [upsert]
    split
    · simp [aget?]
    · simp [aget?]
    · rename_i hgt
      have hne : k' ≠ k := by
        intro h; subst h; rw [bcmp_refl] at hgt; cases hgt
      simp [aget?, hne, ih]

theorem aget_upsert_other {α} (m : Assoc α) (k k' : Bytes) (v : α) (h : k' ≠ k) :
    aget? (upsert m k v) k' = aget? m k' := by
  induction m with
  | nil => simp [upsert, aget?, Ne.symm h]
  | cons p rest ih =>
    obtain ⟨k0, v0⟩ := p
    simp only [upsert]
    split
    · simp [aget?, Ne.symm h]
    · rename_i heq
      have : k = k0 := (bcmp_eq_iff k k0).mp heq
      subst this
      simp [aget?, Ne.symm h]
    · by_cases h1 : k0 = k' <;> simp [aget?, h1, ih]

theorem upsert_keys_lt {α} (m : Assoc α) (k : Bytes) (v : α) (x : Bytes)
    (hx : bcmp x k = .lt) (hm : ∀ p ∈ m, bcmp x p.1 = .lt) : ∀ p ∈ upsert m k v, bcmp x p.1 = .lt := by
  induction m with
  | nil => intro p hp; simp [upsert] at hp; subst hp; exact hx
  | cons q rest ih =>
    obtain ⟨k0, v0⟩ := q
    intro p hp
    simp only [upsert] at hp
    split at hp
    · simp at hp
      rcases hp with h | h | h
      · subst h; exact hx
      · subst h; exact hm _ (by simp)
      · exact hm _ (by simp [h])
    · simp at hp
      rcases hp with h | h
      · subst h; exact hx
      · exact hm _ (by simp [h])
    · simp at hp
      rcases hp with h | h
      · subst h; exact hm _ (by simp)
      · exact ih (fun p hp => hm p (by simp [hp])) p h

theorem upsert_sorted {α} (m : Assoc α) (k : Bytes) (v : α) (h : Sorted m) : Sorted (upsert m k v) := by
  induction m with
  | nil => simp [upsert, Sorted]
  | cons q rest ih =>
    obtain ⟨k0, v0⟩ := q
    unfold Sorted at h ⊢
    rw [List.pairwise_cons] at h
    obtain ⟨h1, h2⟩ := h
    simp only [upsert]
    split
    · rename_i hlt
      rw [List.pairwise_cons]
      refine ⟨?_, List.pairwise_cons.mpr ⟨h1, h2⟩⟩
      intro p hp
      simp at hp
      rcases hp with hp | hp
      · subst hp; exact hlt
      · exact bcmp_lt_trans hlt (h1 p hp)
    · rename_i heq
      have : k = k0 := (bcmp_eq_iff k k0).mp heq
      subst this
      rw [List.pairwise_cons]
      exact ⟨h1, h2⟩
    · rename_i hgt
      rw [List.pairwise_cons]
      refine ⟨?_, ih h2⟩
      exact upsert_keys_lt rest k v k0 ((bcmp_gt_iff_lt k k0).mp hgt) h1

end NutsProofs
