/-
  NutsProofs.Lemmas.MergeKV — `Merge` on a key/value database, in process: every record Merge rewrites is the
  record its key's index entry already holds, so the rewrite transaction replaces each entry by one with the
  same bucket, key, value, timestamp, TTL and flag; entries of dead records are left alone. Hence the visible
  content of the index — and with it every key/value read in key+value mode, at every later time — is
  unchanged by a Merge that does not remove the file it writes to.
-/
import NutsProofs.Lemmas.Hints
namespace NutsProofs.MergeKV
open Nuts Nuts.Model Nuts.Model.DB NutsProofs NutsProofs.Reopen NutsProofs.Hints

/-! ### positions -/

/-- position of a record in the data files: (file id, offset), ordered lexicographically -/
def posLe (a b : Nat × Nat) : Prop := a.1 < b.1 ∨ (a.1 = b.1 ∧ a.2 ≤ b.2)
def posLt (a b : Nat × Nat) : Prop := a.1 < b.1 ∨ (a.1 = b.1 ∧ a.2 < b.2)

def posOf (x : LogRec) : Nat × Nat := (x.2.1, x.2.2)

theorem posLe_refl (a : Nat × Nat) : posLe a a := Or.inr ⟨rfl, Nat.le_refl _⟩
theorem posLe_of_lt {a b : Nat × Nat} (h : posLt a b) : posLe a b := by
  rcases h with h | ⟨h1, h2⟩
  · exact Or.inl h
  · exact Or.inr ⟨h1, Nat.le_of_lt h2⟩
theorem posLe_trans {a b c : Nat × Nat} (h1 : posLe a b) (h2 : posLe b c) : posLe a c := by
  unfold posLe at *; omega
theorem posLe_antisymm {a b : Nat × Nat} (h1 : posLe a b) (h2 : posLe b a) : a = b := by
  unfold posLe at *
  have : a.1 = b.1 ∧ a.2 = b.2 := by omega
  exact Prod.ext this.1 this.2

/-- in packed files the log is strictly ascending in position -/
theorem log_sorted (fs : List File) (hf : (fs.map (·.fid)).Pairwise (· < ·))
    (ho : ∀ g ∈ fs, g.recs.Pairwise (fun a b => a.1 + a.2.size ≤ b.1)) :
    (allRecs fs).Pairwise (fun x y => posLt (posOf x) (posOf y)) := by
  induction fs with
  | nil => simp [allRecs]
  | cons f rest ih =>
    simp only [List.map_cons, List.pairwise_cons] at hf
    have hrest := ih hf.2 (fun g hg => ho g (by simp [hg]))
    show ((f :: rest).flatMap _).Pairwise _
    rw [List.flatMap_cons, List.pairwise_append]
    refine ⟨?_, hrest, ?_⟩
    · rw [List.pairwise_map]
      refine (ho f (by simp)).imp ?_
      intro a b hab
      right
      refine ⟨rfl, ?_⟩
      have := size_pos a.2
      show a.1 < b.1
      omega
    · intro x hx y hy
      obtain ⟨a, _, rfl⟩ := List.mem_map.mp hx
      obtain ⟨g, hg, hyg⟩ := List.mem_flatMap.mp hy
      obtain ⟨b, _, rfl⟩ := List.mem_map.mp hyg
      left
      exact hf.1 g.fid (List.mem_map.mpr ⟨g, hg, rfl⟩)

/-! ### the entry of a key is its latest record -/

def look (kv : Assoc (Assoc Idx)) (b k : Bytes) : Option Idx := (aget? kv b).bind (aget? · k)

theorem look_kvPut (kv : Assoc (Assoc Idx)) (r : Rec) (fid pos : Nat) (b k : Bytes) :
    look (kvPut kv r fid pos) b k = if b = r.bucket ∧ k = r.key then some ⟨r, fid, pos⟩ else look kv b k := by
  unfold look kvPut
  by_cases hbb : b = r.bucket
  · subst hbb
    rw [aget_aput_self]
    simp only [Option.bind_some, true_and]
    by_cases hkk : k = r.key
    · subst hkk; simp [aget_upsert_self]
    · simp only [hkk, if_false]
      rw [aget_upsert_other _ _ _ _ hkk]
      cases aget? kv r.bucket <;> simp [aget?]
  · rw [aget_aput_other _ _ _ _ hbb]
    simp [hbb]

theorem foldLog_frame (L : List LogRec) (kv : Assoc (Assoc Idx)) (b k : Bytes)
    (h : ∀ x ∈ L, ¬ (x.1.bucket = b ∧ x.1.key = k)) : look (foldLog kv L) b k = look kv b k := by
  induction L generalizing kv with
  | nil => rfl
  | cons z rest ih =>
    simp only [foldLog, List.foldl_cons]
    have := ih (kvPut kv (committedRec z.1) z.2.1 z.2.2) (fun x hx => h x (by simp [hx]))
    simp only [foldLog] at this
    rw [this, look_kvPut]
    have hz := h z (by simp)
    have : ¬ (b = (committedRec z.1).bucket ∧ k = (committedRec z.1).key) := fun ⟨h1, h2⟩ => hz ⟨h1.symm, h2.symm⟩
    simp [this]

/-- in the index a log denotes, the entry of a record's key is a record of the log with the same bucket
and key, at the same or a later position -/
theorem foldLog_latest (L : List LogRec) (kv : Assoc (Assoc Idx)) (hs : L.Pairwise (fun x y => posLt (posOf x) (posOf y))) :
    ∀ x ∈ L, ∃ y ∈ L, y.1.bucket = x.1.bucket ∧ y.1.key = x.1.key ∧ posLe (posOf x) (posOf y) ∧
      look (foldLog kv L) x.1.bucket x.1.key = some ⟨committedRec y.1, y.2.1, y.2.2⟩ := by
  induction L generalizing kv with
  | nil => intro x hx; cases hx
  | cons z rest ih =>
    rw [List.pairwise_cons] at hs
    intro x hx
    have hfold : foldLog kv (z :: rest) = foldLog (kvPut kv (committedRec z.1) z.2.1 z.2.2) rest := rfl
    rw [hfold]
    rcases List.mem_cons.mp hx with rfl | hxr
    · -- is the key written again later in the log?
      by_cases hlater : ∃ x' ∈ rest, x'.1.bucket = x.1.bucket ∧ x'.1.key = x.1.key
      · obtain ⟨x', hx', hb, hk⟩ := hlater
        obtain ⟨y, hy, h1, h2, h3, h4⟩ := ih (kvPut kv (committedRec x.1) x.2.1 x.2.2) hs.2 x' hx'
        refine ⟨y, by simp [hy], by rw [h1, hb], by rw [h2, hk], ?_, ?_⟩
        · exact posLe_trans (posLe_of_lt (hs.1 x' hx')) h3
        · rw [← hb, ← hk]; exact h4
      · refine ⟨x, by simp, rfl, rfl, posLe_refl _, ?_⟩
        rw [foldLog_frame rest _ x.1.bucket x.1.key (fun x' hx' hc => hlater ⟨x', hx', hc⟩), look_kvPut]
        simp [committedRec]
    · obtain ⟨y, hy, h1, h2, h3, h4⟩ := ih (kvPut kv (committedRec z.1) z.2.1 z.2.2) hs.2 x hxr
      exact ⟨y, by simp [hy], h1, h2, h3, h4⟩

/-! ### the invariant Merge works under -/

/-- a property of every entry of every bucket -/
def AllB (kv : Assoc (Assoc Idx)) (P : Bytes → Bytes → Idx → Prop) : Prop :=
  ∀ b m p, aget? kv b = some m → p ∈ m → P b p.1 p.2

theorem kvPut_allB (kv : Assoc (Assoc Idx)) (r : Rec) (fid pos : Nat) (P : Bytes → Bytes → Idx → Prop)
    (h : AllB kv P) (hn : P r.bucket r.key ⟨r, fid, pos⟩) : AllB (kvPut kv r fid pos) P := by
  intro b m p hm hp
  unfold kvPut at hm
  by_cases hb : b = r.bucket
  · subst hb
    rw [aget_aput_self] at hm
    cases hm
    rcases KVRefine.mem_upsert _ _ _ _ hp with rfl | hp
    · exact hn
    · cases hq : aget? kv r.bucket with
      | none => rw [hq] at hp; simp at hp
      | some m0 => rw [hq] at hp; exact h _ _ _ hq (by simpa using hp)
  · rw [aget_aput_other _ _ _ _ hb] at hm
    exact h b m p hm hp

theorem foldLog_allB (L : List LogRec) (kv : Assoc (Assoc Idx)) (P : Bytes → Bytes → Idx → Prop) (h : AllB kv P)
    (hL : ∀ x ∈ L, P x.1.bucket x.1.key ⟨committedRec x.1, x.2.1, x.2.2⟩) : AllB (foldLog kv L) P := by
  induction L generalizing kv with
  | nil => exact h
  | cons x rest ih =>
    simp only [foldLog, List.foldl_cons]
    exact ih _ (kvPut_allB kv _ _ _ P h (hL x (by simp))) (fun y hy => hL y (by simp [hy]))

/-- every record of the log is followed (at the same or a later position) by a record of its transaction
that carries the commit mark -/
def MarkedLog (L : List LogRec) : Prop :=
  ∀ x ∈ L, ∃ y ∈ L, y.1.status = 1 ∧ y.1.txid = x.1.txid ∧ posLe (posOf x) (posOf y)

structure MInv (s : State) (now : Nat) : Prop where
  shape : Shape s
  packed : Packed s
  recs : ∀ x ∈ allRecs s.files, x.1.ds = dsKV ∧ ¬ x.1.size > s.opt.seg ∧ (x.1.flag = flagSet ∨ x.1.flag = flagDelete)
  bounds : ∀ x ∈ allRecs s.files, x.1.ts + x.1.ttl < 2 ^ 64
  /-- every entry caches a record with flag Set or Delete and an expiry time within 64 bits -/
  idxok : AllB s.kv fun _ _ i => (i.r.flag = flagSet ∨ i.r.flag = flagDelete) ∧ i.r.ts + i.r.ttl < 2 ^ 64
  sorted : KVRefine.KVSorted s.kv
  /-- the entry of a record's key is at the record's position or later -/
  latest : ∀ x ∈ allRecs s.files, ∃ i, look s.kv x.1.bucket x.1.key = some i ∧ posLe (posOf x) (i.fid, i.pos)
  /-- an entry is filed under its record's bucket and key, and either its hint addresses a record of the
  files equal to the cached one, or it is dead and its file is gone — and so is every file with a smaller id
  (Merge removes files in ascending order) -/
  hints : AllB s.kv fun b k i => i.r.key = k ∧ i.r.bucket = b ∧
      ((∃ x ∈ allRecs s.files, posOf x = (i.fid, i.pos) ∧ committedRec x.1 = committedRec i.r) ∨
       (dead i.r now = true ∧ i.fid < s.activeFid ∧ ∀ g ∈ s.files, i.fid < g.fid))
  committedIdx : AllB s.kv fun _ _ i => i.r.txid ∈ s.committed
  marks : MarkedLog (allRecs s.files)

theorem look_normKV (kv : Assoc (Assoc Idx)) (b k : Bytes) : look (normKV kv) b k = (look kv b k).map normIdx := by
  unfold look normKV
  rw [aget_map normBucket]
  cases aget? kv b with
  | none => rfl
  | some m => simp only [Option.map_some, Option.bind_some]; exact aget_map normIdx m k

theorem allB_of_norm (kv : Assoc (Assoc Idx)) (P : Bytes → Bytes → Idx → Prop) (h : AllB (normKV kv) P) :
    AllB kv fun b k i => P b k (normIdx i) := by
  intro b m p hm hp
  have hbn : aget? (normKV kv) b = some (normBucket m) := by
    unfold normKV; rw [aget_map normBucket, hm]; rfl
  exact h b (normBucket m) (p.1, normIdx p.2) hbn (List.mem_map.mpr ⟨p, hp, rfl⟩)

/-- the states key/value histories reach satisfy the invariant (records fitting the segment size in force) -/
theorem minv_of_logInv (s : State) (now : Nat) (hi : LogInv s) (hp : Packed s)
    (hL : ∀ x ∈ allRecs s.files, KVRefine.RecOk x.1) (hsz : ∀ x ∈ allRecs s.files, ¬ x.1.size > s.opt.seg)
    (hmk : MarkedLog (allRecs s.files)) : MInv s now := by
  have hsorted := log_sorted s.files hp.fids hp.offs
  have hkv : normKV s.kv = kvOfLog (allRecs s.files) := hi.idx
  have hidxok : AllB s.kv fun _ _ i => (i.r.flag = flagSet ∨ i.r.flag = flagDelete) ∧ i.r.ts + i.r.ttl < 2 ^ 64 := by
    have hsrc := foldLog_allB (allRecs s.files) [] (fun _ _ i => (i.r.flag = flagSet ∨ i.r.flag = flagDelete) ∧ i.r.ts + i.r.ttl < 2 ^ 64)
      (by intro b m p hm; simp [aget?] at hm) (fun x hx => ⟨(hL x hx).1, (hL x hx).2⟩)
    have := allB_of_norm s.kv _ (by rw [hkv]; exact hsrc)
    intro b m p hm hpm
    exact this b m p hm hpm
  refine ⟨hi.shape, hp, fun x hx => ⟨hi.kvOnly x hx, hsz x hx, (hL x hx).1⟩, fun x hx => (hL x hx).2, hidxok, ?_, ?_, ?_, ?_, hmk⟩
  · -- sortedness of every bucket: from the normalised index
    intro b m hm
    have hbn : aget? (normKV s.kv) b = some (normBucket m) := by
      unfold normKV; rw [aget_map normBucket, hm]; rfl
    rw [hkv] at hbn
    have := KVRefine.foldLog_sorted (allRecs s.files) [] KVRefine.kvSorted_nil b _ hbn
    unfold Sorted at this ⊢
    unfold normBucket at this
    rw [List.pairwise_map] at this
    exact this
  · intro x hx
    obtain ⟨y, hy, _, _, h3, h4⟩ := foldLog_latest (allRecs s.files) [] hsorted x hx
    have h4' : look (normKV s.kv) x.1.bucket x.1.key = some ⟨committedRec y.1, y.2.1, y.2.2⟩ := by rw [hkv]; exact h4
    rw [look_normKV] at h4'
    cases hl : look s.kv x.1.bucket x.1.key with
    | none => rw [hl] at h4'; cases h4'
    | some i =>
      rw [hl] at h4'
      simp only [Option.map_some, Option.some.injEq] at h4'
      refine ⟨i, rfl, ?_⟩
      have hf : i.fid = y.2.1 := by have := congrArg Idx.fid h4'; simpa [normIdx] using this
      have hpz : i.pos = y.2.2 := by have := congrArg Idx.pos h4'; simpa [normIdx] using this
      rw [hf, hpz]; exact h3
  · have hsrc := foldLog_allB (allRecs s.files) [] (fun b k i => i.r.key = k ∧ i.r.bucket = b ∧
        ∃ x ∈ allRecs s.files, posOf x = (i.fid, i.pos) ∧ committedRec x.1 = i.r)
      (by intro b m p hm; simp [aget?] at hm) (fun x hx => ⟨rfl, rfl, x, hx, rfl, rfl⟩)
    have := allB_of_norm s.kv _ (by rw [hkv]; exact hsrc)
    intro b m p hm hpm
    obtain ⟨h1, h2, x, hx, h3, h4⟩ := this b m p hm hpm
    exact ⟨h1, h2, Or.inl ⟨x, hx, h3, h4⟩⟩
  · have hsrc := foldLog_allB (allRecs s.files) [] (fun _ _ i => ∃ x ∈ allRecs s.files, i.r.txid = x.1.txid)
      (by intro b m p hm; simp [aget?] at hm) (fun x hx => ⟨x, hx, rfl⟩)
    have := allB_of_norm s.kv _ (by rw [hkv]; exact hsrc)
    intro b m p hm hpm
    obtain ⟨x, hx, hxt⟩ := this b m p hm hpm
    have : p.2.r.txid = x.1.txid := hxt
    rw [this]
    exact (hi.ids _).mpr (hi.allCommitted x hx)

/-! ### what Merge selects from a file -/

/-- a record is rewritten iff it is live and is the very record its key's entry points at -/
def isSel (s : State) (f : File) (now : Nat) (p : Nat × Rec) : Bool :=
  !isFilter p.2 now && (match look s.kv p.2.bucket p.2.key with
    | some i => i.fid == f.fid && i.pos == p.1
    | none => false)

theorem mem_allRecs_of (fs : List File) (f : File) (hf : f ∈ fs) (p : Nat × Rec) (hp : p ∈ f.recs) :
    (p.2, f.fid, p.1) ∈ allRecs fs := by
  unfold allRecs
  exact List.mem_flatMap.mpr ⟨f, hf, List.mem_map.mpr ⟨p, hp, rfl⟩⟩

/-- two records of the log at the same position are the same record -/
theorem pos_inj (L : List LogRec) (hs : L.Pairwise (fun x y => posLt (posOf x) (posOf y))) (x y : LogRec)
    (hx : x ∈ L) (hy : y ∈ L) (h : posOf x = posOf y) : x = y := by
  induction L with
  | nil => cases hx
  | cons z rest ih =>
    rw [List.pairwise_cons] at hs
    rcases List.mem_cons.mp hx with rfl | hx' <;> rcases List.mem_cons.mp hy with rfl | hy'
    · rfl
    · have := hs.1 y hy'; rw [h] at this; unfold posLt at this; omega
    · have := hs.1 x hx'; rw [← h] at this; unfold posLt at this; omega
    · exact ih hs.2 hx' hy'

/-- the entry at a record's own position is that record: same flag, hence `pendingMerge` says yes for a
live record -/
theorem entry_at_pos (s : State) (now : Nat) (h : MInv s now) (x : LogRec) (hx : x ∈ allRecs s.files)
    (m : Assoc Idx) (i : Idx) (hm : aget? s.kv x.1.bucket = some m) (hi : aget? m x.1.key = some i)
    (hpos : (i.fid, i.pos) = posOf x) : committedRec x.1 = committedRec i.r := by
  obtain ⟨_, _, hh⟩ := h.hints x.1.bucket m (x.1.key, i) hm (aget_mem m x.1.key i hi)
  rcases hh with ⟨y, hy, hyp, hyr⟩ | ⟨_, _, hgone⟩
  · have : y = x := pos_inj _ (log_sorted s.files h.packed.fids h.packed.offs) y x hy hx (by rw [hyp, hpos])
    rw [← this]; exact hyr
  · exfalso
    obtain ⟨f, hf, hfid, _⟩ := mem_allRecs s.files x hx
    have h1 : i.fid < f.fid := hgone f hf
    have : i.fid = x.2.1 := by have := congrArg Prod.fst hpos; simpa [posOf] using this
    omega

theorem mergeSelect_go_eq (s : State) (now : Nat) (h : MInv s now) (f : File) (hf : f ∈ s.files)
    (l : List (Nat × Rec)) (hl : ∀ p ∈ l, p ∈ f.recs) (acc : List Rec) :
    mergeSelect.go s f now l acc = .ok (acc ++ (l.filter (isSel s f now)).map (·.2)) := by
  induction l generalizing acc with
  | nil => simp [mergeSelect.go]
  | cons p rest ih =>
    obtain ⟨off, r⟩ := p
    have hmem := mem_allRecs_of s.files f hf (off, r) (hl (off, r) (by simp))
    obtain ⟨i, hlook, hle⟩ := h.latest (r, f.fid, off) hmem
    obtain ⟨hds, _, hflag⟩ := h.recs (r, f.fid, off) hmem
    simp only [] at hlook hle hds hflag
    have hrest : ∀ q ∈ rest, q ∈ f.recs := fun q hq => hl q (by simp [hq])
    have hselv : isSel s f now (off, r) = (!isFilter r now && (i.fid == f.fid && i.pos == off)) := by
      unfold isSel; simp only []; rw [hlook]
    have hlook' : (aget? s.kv r.bucket).bind (aget? · r.key) = some i := hlook
    unfold mergeSelect.go
    rw [hlook', List.filter_cons, hselv]
    by_cases hfil : isFilter r now = true
    · simp only [hfil, Bool.true_or, if_true, Bool.not_true, Bool.false_and, Bool.false_eq_true, if_false]
      exact ih hrest acc
    · have hfil' : isFilter r now = false := by simpa using hfil
      simp only [hfil', Bool.false_or, Bool.not_false, Bool.true_and]
      -- the entry is at the record's position or later
      by_cases hself : i.fid = f.fid ∧ i.pos = off
      · have hnotnewer : (decide (i.fid > f.fid) || (decide (i.fid = f.fid) && decide (i.pos > off))) = false := by
          simp [hself.1, hself.2]
        have hsel : (i.fid == f.fid && i.pos == off) = true := by simp [hself.1, hself.2]
        simp only [hnotnewer, Bool.false_eq_true, if_false, hsel, if_true, List.map_cons]
        -- pendingMerge: the entry is this record, whose flag is Set
        cases hm : aget? s.kv r.bucket with
        | none => rw [hm] at hlook'; cases hlook'
        | some m =>
          rw [hm] at hlook'
          simp only [Option.bind_some] at hlook'
          have heq := entry_at_pos s now h (r, f.fid, off) hmem m i hm hlook' (by simp [posOf, hself.1, hself.2])
          have hfl : i.r.flag = r.flag := by have := congrArg Rec.flag heq; simpa [committedRec] using this.symm
          have hset : r.flag = flagSet := by
            rcases hflag with h1 | h1
            · exact h1
            · simp [isFilter, h1] at hfil'
          have hds' : (r.ds == dsKV) = true := by rw [hds]; rfl
          simp only [pendingMerge, hds', if_true, hm, hlook', hfl, hset, beq_self_eq_true]
          rw [ih hrest (acc ++ [r])]
          simp
      · have hnewer : (decide (i.fid > f.fid) || (decide (i.fid = f.fid) && decide (i.pos > off))) = true := by
          unfold posLe posOf at hle
          simp only [] at hle
          rcases hle with h1 | ⟨h1, h2⟩
          · simp [h1]
          · have : i.pos ≠ off := fun hp => hself ⟨h1.symm, hp⟩
            have : i.pos > off := by omega
            simp [h1.symm, this]
        have hsel : (i.fid == f.fid && i.pos == off) = false := by
          by_cases h1 : i.fid = f.fid
          · have : i.pos ≠ off := fun hp => hself ⟨h1, hp⟩
            simp [h1, this]
          · simp [h1]
        simp only [hnewer, if_true, hsel, Bool.false_eq_true, if_false]
        exact ih hrest acc

theorem mergeSelect_eq (s : State) (now : Nat) (h : MInv s now) (f : File) (hf : f ∈ s.files) :
    mergeSelect s f now = .ok ((f.recs.filter (isSel s f now)).map (·.2)) := by
  unfold mergeSelect
  rw [mergeSelect_go_eq s now h f hf f.recs (fun p hp => hp) []]
  simp

/-! ### the rewrite transaction, un-normalised -/

def rawFold (kv : Assoc (Assoc Idx)) (L : List LogRec) : Assoc (Assoc Idx) :=
  L.foldl (fun kv x => kvPut kv x.1 x.2.1 x.2.2) kv

/-- the write loop on key/value records, with the index it leaves spelled out: the records are appended to
the log and each is indexed, as written, at the position it was written at -/
theorem commitLoop_raw (recs : List Rec) (s : State) (h : Shape s)
    (hr : ∀ r ∈ recs, r.ds = dsKV ∧ ¬ r.size > s.opt.seg) :
    ∃ extra : List LogRec, extra.map (·.1) = marked recs ∧
      allRecs (commitLoop s recs).1.files = allRecs s.files ++ extra ∧
      (commitLoop s recs).1.kv = rawFold s.kv extra := by
  induction recs generalizing s with
  | nil => exact ⟨[], rfl, by simp [commitLoop], rfl⟩
  | cons r rest ih =>
    obtain ⟨hds, hsz⟩ := hr r (by simp)
    obtain ⟨hs1, ⟨fid, pos, hrecs1, hkv1⟩, hopt1, _⟩ := writeRec_kv s r rest.isEmpty h hds
    have hr' : ∀ q ∈ rest, q.ds = dsKV ∧ ¬ q.size > (writeRec s r rest.isEmpty).opt.seg := by
      intro q hq; rw [hopt1]; exact hr q (by simp [hq])
    obtain ⟨extra, hex, hfiles, hkv⟩ := ih (writeRec s r rest.isEmpty) hs1 hr'
    simp only [commitLoop, hsz, if_false]
    refine ⟨(markLast r rest.isEmpty, fid, pos) :: extra, ?_, ?_, ?_⟩
    · simp [marked, hex]
    · rw [hfiles, hrecs1]; simp
    · rw [hkv, hkv1]; rfl

/-! ### the visible content of the index -/

/-- what a read can show of a record besides its bucket and key -/
def vrec (r : Rec) : Bytes × Nat × Nat × Nat := (r.value, r.ts, r.ttl, r.flag)
def visBucket (m : Assoc Idx) : List (Bytes × (Bytes × Nat × Nat × Nat)) := m.map fun p => (p.1, vrec p.2.r)
def visKV (kv : Assoc (Assoc Idx)) : List (Bytes × List (Bytes × (Bytes × Nat × Nat × Nat))) := kv.map fun p => (p.1, visBucket p.2)

theorem aput_same {α} (a : Assoc α) (k : Bytes) (v : α) (h : aget? a k = some v) : aput a k v = a := by
  induction a with
  | nil => simp [aget?] at h
  | cons p rest ih =>
    obtain ⟨k', v'⟩ := p
    simp only [aget?] at h
    simp only [aput]
    split at h
    · rename_i hk; cases h; subst hk; simp
    · rename_i hk; simp only [hk, if_false]; rw [ih h]

theorem upsert_same_vis (m : Assoc Idx) (k : Bytes) (i v : Idx) (hs : Sorted m) (hi : aget? m k = some i)
    (hv : vrec v.r = vrec i.r) : visBucket (upsert m k v) = visBucket m := by
  induction m with
  | nil => simp [aget?] at hi
  | cons p rest ih =>
    obtain ⟨k', i'⟩ := p
    unfold Sorted at hs
    rw [List.pairwise_cons] at hs
    simp only [aget?] at hi
    simp only [upsert]
    by_cases hk : k' = k
    · subst hk
      simp only [if_true, Option.some.injEq] at hi
      subst hi
      simp [bcmp_refl, visBucket, hv]
    · simp only [hk, if_false] at hi
      -- the key is further down: it is above the head
      have hmem := aget_mem rest k i hi
      have hlt : bcmp k' k = .lt := hs.1 (k, i) hmem
      have hgt : bcmp k k' = .gt := (bcmp_gt_iff_lt k k').mpr hlt
      simp only [hgt]
      have := ih hs.2 hi
      simp only [visBucket, List.map_cons] at this ⊢
      rw [this]

theorem visKV_kvPut_same (kv : Assoc (Assoc Idx)) (r : Rec) (fid pos : Nat) (i : Idx) (hs : KVRefine.KVSorted kv)
    (hl : look kv r.bucket r.key = some i) (hv : vrec r = vrec i.r) : visKV (kvPut kv r fid pos) = visKV kv := by
  unfold look at hl
  cases hm : aget? kv r.bucket with
  | none => rw [hm] at hl; cases hl
  | some m =>
    rw [hm] at hl
    simp only [Option.bind_some] at hl
    unfold kvPut visKV
    rw [aput_map visBucket, hm]
    simp only [Option.getD_some]
    rw [upsert_same_vis m r.key i ⟨r, fid, pos⟩ (hs _ _ hm) hl hv]
    apply aput_same
    rw [aget_map visBucket, hm]; rfl

/-- re-applying records whose visible content the index already shows for their keys changes nothing
visible -/
theorem rawFold_vis (L : List LogRec) (kv : Assoc (Assoc Idx)) (hs : KVRefine.KVSorted kv)
    (hq : ∀ x ∈ L, ∃ i, look kv x.1.bucket x.1.key = some i ∧ vrec x.1 = vrec i.r) :
    visKV (rawFold kv L) = visKV kv ∧ KVRefine.KVSorted (rawFold kv L) := by
  induction L generalizing kv with
  | nil => exact ⟨rfl, hs⟩
  | cons x rest ih =>
    obtain ⟨i, hl, hv⟩ := hq x (by simp)
    have h1 := visKV_kvPut_same kv x.1 x.2.1 x.2.2 i hs hl hv
    have hs1 := KVRefine.kvPut_sorted kv x.1 x.2.1 x.2.2 hs
    have hq1 : ∀ y ∈ rest, ∃ j, look (kvPut kv x.1 x.2.1 x.2.2) y.1.bucket y.1.key = some j ∧ vrec y.1 = vrec j.r := by
      intro y hy
      obtain ⟨j, hlj, hvj⟩ := hq y (by simp [hy])
      rw [look_kvPut]
      by_cases hsame : y.1.bucket = x.1.bucket ∧ y.1.key = x.1.key
      · simp only [hsame, and_self, if_true]
        refine ⟨_, rfl, ?_⟩
        -- both are what the original entry of this key shows
        rw [hsame.1, hsame.2, hl] at hlj
        cases hlj
        simp only []
        rw [hvj, ← hv]
      · simp only [hsame, if_false]
        exact ⟨j, hlj, hvj⟩
    obtain ⟨h2, hs2⟩ := ih (kvPut kv x.1 x.2.1 x.2.2) hs1 hq1
    exact ⟨by show visKV (rawFold (kvPut kv x.1 x.2.1 x.2.2) rest) = _; rw [h2, h1], hs2⟩

theorem rawFold_allB (L : List LogRec) (kv : Assoc (Assoc Idx)) (P : Bytes → Bytes → Idx → Prop) (h : AllB kv P)
    (hL : ∀ x ∈ L, P x.1.bucket x.1.key ⟨x.1, x.2.1, x.2.2⟩) : AllB (rawFold kv L) P := by
  induction L generalizing kv with
  | nil => exact h
  | cons x rest ih =>
    simp only [rawFold, List.foldl_cons]
    exact ih _ (kvPut_allB kv _ _ _ P h (hL x (by simp))) (fun y hy => hL y (by simp [hy]))

theorem rawFold_frame (L : List LogRec) (kv : Assoc (Assoc Idx)) (b k : Bytes)
    (h : ∀ x ∈ L, ¬ (x.1.bucket = b ∧ x.1.key = k)) : look (rawFold kv L) b k = look kv b k := by
  induction L generalizing kv with
  | nil => rfl
  | cons z rest ih =>
    simp only [rawFold, List.foldl_cons]
    have := ih (kvPut kv z.1 z.2.1 z.2.2) (fun x hx => h x (by simp [hx]))
    simp only [rawFold] at this
    rw [this, look_kvPut]
    have hz := h z (by simp)
    have : ¬ (b = z.1.bucket ∧ k = z.1.key) := fun ⟨h1, h2⟩ => hz ⟨h1.symm, h2.symm⟩
    simp [this]

/-- after re-applying `L` (ascending in position): the entry of a key that `L` names is a record of `L` at
the same or a later position -/
theorem rawFold_latest (L : List LogRec) (kv : Assoc (Assoc Idx)) (hs : L.Pairwise (fun x y => posLt (posOf x) (posOf y))) :
    ∀ x ∈ L, ∃ y ∈ L, y.1.bucket = x.1.bucket ∧ y.1.key = x.1.key ∧ posLe (posOf x) (posOf y) ∧
      look (rawFold kv L) x.1.bucket x.1.key = some ⟨y.1, y.2.1, y.2.2⟩ := by
  induction L generalizing kv with
  | nil => intro x hx; cases hx
  | cons z rest ih =>
    rw [List.pairwise_cons] at hs
    intro x hx
    have hfold : rawFold kv (z :: rest) = rawFold (kvPut kv z.1 z.2.1 z.2.2) rest := rfl
    rw [hfold]
    rcases List.mem_cons.mp hx with rfl | hxr
    · by_cases hlater : ∃ x' ∈ rest, x'.1.bucket = x.1.bucket ∧ x'.1.key = x.1.key
      · obtain ⟨x', hx', hb, hk⟩ := hlater
        obtain ⟨y, hy, h1, h2, h3, h4⟩ := ih (kvPut kv x.1 x.2.1 x.2.2) hs.2 x' hx'
        refine ⟨y, by simp [hy], by rw [h1, hb], by rw [h2, hk], ?_, ?_⟩
        · exact posLe_trans (posLe_of_lt (hs.1 x' hx')) h3
        · rw [← hb, ← hk]; exact h4
      · refine ⟨x, by simp, rfl, rfl, posLe_refl _, ?_⟩
        rw [rawFold_frame rest _ x.1.bucket x.1.key (fun x' hx' hc => hlater ⟨x', hx', hc⟩), look_kvPut]
        simp
    · obtain ⟨y, hy, h1, h2, h3, h4⟩ := ih (kvPut kv z.1 z.2.1 z.2.2) hs.2 x hxr
      exact ⟨y, by simp [hy], h1, h2, h3, h4⟩

/-! ### one file of Merge: the rewrite -/

/-- the records of the rewrite transaction -/
def retag (tid : Nat) (recs : List Rec) : List Rec := recs.map fun r => { r with txid := tid, status := 0 }

theorem rewrite_eq (s : State) (recs : List Rec) (tid : Nat) (hne : recs ≠ []) :
    rewrite s recs tid = ((commit (rotate s) (retag tid recs)).1,
      if (commit (rotate s) (retag tid recs)).2.isPanic then .panic else .ok ()) := by
  have he : recs.isEmpty = false := by cases recs with | nil => exact absurd rfl hne | cons _ _ => rfl
  unfold rewrite
  simp only [he, Bool.false_eq_true, if_false]
  rfl

theorem marked_vis (recs : List Rec) : ∀ r ∈ marked recs, ∃ q ∈ recs, r.bucket = q.bucket ∧ r.key = q.key ∧ vrec r = vrec q ∧
    r.ds = q.ds ∧ r.size = q.size ∧ r.flag = q.flag ∧ r.txid = q.txid := by
  induction recs with
  | nil => intro r hr; cases hr
  | cons q rest ih =>
    intro r hr
    simp only [marked, List.mem_cons] at hr
    rcases hr with rfl | hr
    · refine ⟨q, by simp, ?_⟩
      unfold markLast; split <;> exact ⟨rfl, rfl, rfl, rfl, rfl, rfl, rfl⟩
    · obtain ⟨q', hq', h⟩ := ih r hr
      exact ⟨q', by simp [hq'], h⟩

theorem writeRec_files (st : State) (r : Rec) (last : Bool) :
    (writeRec st r last).files = (appendRec (preRotate st r) (markLast r last)).files ∧
    (writeRec st r last).activeFid = (preRotate st r).activeFid := by
  unfold writeRec
  simp only []
  split <;> split <;> exact ⟨rfl, rfl⟩

theorem preRotate_active_mono (st : State) (r : Rec) : st.activeFid ≤ (preRotate st r).activeFid := by
  unfold preRotate; split
  · simp [rotate]
  · exact Nat.le_refl _

theorem commitLoop_active_mono (rs : List Rec) (st : State) : st.activeFid ≤ (commitLoop st rs).1.activeFid := by
  induction rs generalizing st with
  | nil => exact Nat.le_refl _
  | cons r rest ih =>
    simp only [commitLoop]
    split
    · exact Nat.le_refl _
    · have h1 := preRotate_active_mono st r
      have h2 := (writeRec_files st r rest.isEmpty).2
      have h3 := ih (writeRec st r rest.isEmpty)
      omega

/-- every record the write loop adds to the log is in a file whose id is at least the active id it
started with -/
theorem commitLoop_new_pos (rs : List Rec) (st : State) (ex : List LogRec) (hst : Shape st)
    (hrr : ∀ r ∈ rs, r.ds = dsKV ∧ ¬ r.size > st.opt.seg)
    (he : allRecs (commitLoop st rs).1.files = allRecs st.files ++ ex) : ∀ y ∈ ex, st.activeFid ≤ y.2.1 := by
  induction rs generalizing st ex with
  | nil => intro y hy; simp [commitLoop] at he; rw [he] at hy; cases hy
  | cons r rest ih =>
    intro y hy
    obtain ⟨hds', hsz'⟩ := hrr r (by simp)
    obtain ⟨hs1', _, hopt1', _⟩ := writeRec_kv st r rest.isEmpty hst hds'
    have hpre := preRotate_shape st r hst
    have happ := (appendRec_shape (preRotate st r) (markLast r rest.isEmpty) hpre.1).2.1
    have hrecs1' : allRecs (writeRec st r rest.isEmpty).files =
        allRecs st.files ++ [(markLast r rest.isEmpty, (preRotate st r).activeFid, (preRotate st r).writeOff)] := by
      rw [(writeRec_files st r rest.isEmpty).1, happ, hpre.2.1]
    simp only [commitLoop, hsz', if_false] at he
    obtain ⟨ex', _, hfiles', _⟩ := commitLoop_raw rest (writeRec st r rest.isEmpty) hs1'
      (fun q hq => by rw [hopt1']; exact hrr q (by simp [hq]))
    rw [hfiles', hrecs1', List.append_assoc] at he
    have hex' : ex = (markLast r rest.isEmpty, (preRotate st r).activeFid, (preRotate st r).writeOff) :: ex' := by
      have := List.append_cancel_left he
      simpa using this.symm
    rw [hex'] at hy
    rcases List.mem_cons.mp hy with rfl | hy'
    · exact preRotate_active_mono st r
    · have h1 := preRotate_active_mono st r
      have h2 := (writeRec_files st r rest.isEmpty).2
      have := ih (writeRec st r rest.isEmpty) ex' hs1' (fun q hq => by rw [hopt1']; exact hrr q (by simp [hq])) hfiles' y hy'
      omega

/-- the files after the write loop: the files it started with (by id), and files above the active one -/
theorem commitLoop_fids (rs : List Rec) (st : State) (hst : Shape st) (hrr : ∀ r ∈ rs, r.ds = dsKV ∧ ¬ r.size > st.opt.seg) :
    ∀ g ∈ (commitLoop st rs).1.files, g.fid ∈ st.files.map (·.fid) ∨ st.activeFid < g.fid := by
  induction rs generalizing st with
  | nil => intro g hg; exact Or.inl (List.mem_map.mpr ⟨g, hg, rfl⟩)
  | cons r rest ih =>
    obtain ⟨hds', hsz'⟩ := hrr r (by simp)
    obtain ⟨hs1', _, hopt1', _⟩ := writeRec_kv st r rest.isEmpty hst hds'
    simp only [commitLoop, hsz', if_false]
    intro g hg
    have hpre := preRotate_shape st r hst
    -- fids after one record: those of the pre-rotated state
    have hfids1 : (writeRec st r rest.isEmpty).files.map (·.fid) = (preRotate st r).files.map (·.fid) := by
      rw [(writeRec_files st r rest.isEmpty).1]
      obtain ⟨pre, f, hf, hfid, hpr⟩ := hpre.1.split
      have : (appendRec (preRotate st r) (markLast r rest.isEmpty)).files = pre ++ [{ f with recs := f.recs ++ [((preRotate st r).writeOff, markLast r rest.isEmpty)] }] := by
        simp only [appendRec, hpre.1.linked, Bool.false_eq_true, if_false]
        rw [hf, ← hfid]
        exact fileAppend_last pre f _ _ (by intro g hg; rw [hfid]; exact hpr g hg)
      rw [this, hf]; simp
    have hact1 := (writeRec_files st r rest.isEmpty).2
    have hprefids : ∀ x ∈ (preRotate st r).files.map (·.fid), x ∈ st.files.map (·.fid) ∨ st.activeFid < x := by
      intro x hx
      unfold preRotate at hx
      split at hx
      · obtain ⟨pre, f, hf, hfid, hpr⟩ := hst.split
        have hall : ∀ g ∈ st.files, g.fid < st.activeFid + 1 := by
          intro g hg; rw [hf] at hg
          rcases List.mem_append.mp hg with hg | hg
          · have := hpr g hg; omega
          · simp at hg; subst hg; omega
        have : (rotate st).files = st.files ++ [{ fid := st.activeFid + 1, recs := [] }] := by
          simp only [rotate]; exact fileEnsure_new st.files _ hall
        rw [this] at hx
        simp only [List.map_append, List.map_cons, List.map_nil, List.mem_append, List.mem_singleton] at hx
        rcases hx with hx | hx
        · exact Or.inl hx
        · right; omega
      · exact Or.inl hx
    rcases ih (writeRec st r rest.isEmpty) hs1' (fun q hq => by rw [hopt1']; exact hrr q (by simp [hq])) g hg with h1 | h1
    · rw [hfids1] at h1
      exact hprefids _ h1
    · right
      have := preRotate_active_mono st r
      omega

theorem marked_covers (recs : List Rec) : ∀ q ∈ recs, ∃ r ∈ marked recs, r.bucket = q.bucket ∧ r.key = q.key := by
  induction recs with
  | nil => intro q hq; cases hq
  | cons z rest ih =>
    intro q hq
    rcases List.mem_cons.mp hq with rfl | hq'
    · exact ⟨markLast q rest.isEmpty, by simp [marked], by unfold markLast; split <;> rfl, by unfold markLast; split <;> rfl⟩
    · obtain ⟨r, hr, h1, h2⟩ := ih q hq'
      exact ⟨r, by simp [marked, hr], h1, h2⟩

theorem marked_snoc (t : List Rec) (hne : t ≠ []) : ∃ init z, marked t = init ++ [z] ∧ z.status = 1 := by
  induction t with
  | nil => exact absurd rfl hne
  | cons q rest ih =>
    cases rest with
    | nil => exact ⟨[], markLast q true, by simp [marked], by simp [markLast]⟩
    | cons q2 rest2 =>
      obtain ⟨init, z, h1, h2⟩ := ih (by simp)
      exact ⟨markLast q false :: init, z, by simp only [marked] at h1 ⊢; simp [h1], h2⟩

/-- the state after the rewrite transaction of one file (before the file is removed) -/
theorem rewrite_step (s : State) (now : Nat) (h : MInv s now) (f : File) (hf : f ∈ s.files) (tid : Nat)
    (hne : (f.recs.filter (isSel s f now)).map (·.2) ≠ []) :
    let recs := (f.recs.filter (isSel s f now)).map (·.2)
    let s1 := (rewrite s recs tid).1
    (rewrite s recs tid).2 = .ok () ∧ Shape s1 ∧ Packed s1 ∧ s1.opt = s.opt ∧ s.activeFid < s1.activeFid ∧
    visKV s1.kv = visKV s.kv ∧ KVRefine.KVSorted s1.kv ∧
    (∀ id, id ∈ s.committed → id ∈ s1.committed) ∧
    (∀ g ∈ s1.files, g.fid ∈ s.files.map (·.fid) ∨ s.activeFid < g.fid) ∧
    ∃ extra : List LogRec, allRecs s1.files = allRecs s.files ++ extra ∧ s1.kv = rawFold s.kv extra ∧
      (∀ x ∈ extra, s.activeFid < x.2.1 ∧ x.1.txid ∈ s1.committed ∧ x.1.ds = dsKV ∧ ¬ x.1.size > s.opt.seg ∧
        ∃ p ∈ f.recs, isSel s f now p = true ∧ x.1.bucket = p.2.bucket ∧ x.1.key = p.2.key ∧ vrec x.1 = vrec p.2 ∧ x.1.flag = p.2.flag) ∧
      (∀ p ∈ f.recs, isSel s f now p = true → ∃ x ∈ extra, x.1.bucket = p.2.bucket ∧ x.1.key = p.2.key) ∧
      MarkedLog extra := by
  intro recs s1
  -- the records to rewrite: key/value records of the log that fit
  have hrecsok : ∀ r ∈ retag tid recs, r.ds = dsKV ∧ ¬ r.size > (rotate s).opt.seg ∧ r.txid = tid := by
    intro r hr
    obtain ⟨q, hq, rfl⟩ := List.mem_map.mp hr
    obtain ⟨p, hp, rfl⟩ := List.mem_map.mp hq
    have hmem := mem_allRecs_of s.files f hf p (List.mem_filter.mp hp).1
    obtain ⟨h1, h2, _⟩ := h.recs _ hmem
    exact ⟨h1, h2, rfl⟩
  have hretag_ne : retag tid recs ≠ [] := by
    intro hnil; apply hne; unfold retag at hnil; exact List.map_eq_nil_iff.mp hnil
  obtain ⟨hrs, hrrecs, hrkv, hrcom, hropt⟩ := rotate_shape s h.shape
  have hrpk := rotate_packed s h.shape h.packed
  obtain ⟨hfine, hshape, hopt, ⟨_, _, _, _⟩, hcom⟩ := commitLoop_kv (retag tid recs) tid (rotate s) hrs hrecsok
  obtain ⟨extra, hex, hfiles, hkv⟩ := commitLoop_raw (retag tid recs) (rotate s) hrs (fun r hr => ⟨(hrecsok r hr).1, (hrecsok r hr).2.1⟩)
  have hds : ∀ r ∈ retag tid recs, r.ds = dsKV := fun r hr => (hrecsok r hr).1
  have hemp : (retag tid recs).isEmpty = false := by
    cases hrt : retag tid recs with
    | nil => exact absurd hrt hretag_ne
    | cons _ _ => rfl
  have hcommit : commit (rotate s) (retag tid recs) = ((commitLoop (rotate s) (retag tid recs)).1, .ok ()) := by
    unfold commit
    simp only [hemp, Bool.false_eq_true, if_false]
    rw [show commitLoop (rotate s) (retag tid recs) = ((commitLoop (rotate s) (retag tid recs)).1, (commitLoop (rotate s) (retag tid recs)).2) from rfl]
    simp only [hfine, Bool.not_true, Bool.false_eq_true, if_false]
    rw [buildIdxes_kv_id _ _ hds]
    simp
  have hs1 : s1 = (commitLoop (rotate s) (retag tid recs)).1 := by
    show (rewrite s recs tid).1 = _
    rw [rewrite_eq s recs tid hne, hcommit]
  have hout : (rewrite s recs tid).2 = .ok () := by
    rw [rewrite_eq s recs tid hne, hcommit]; rfl
  have hpk : Packed s1 := by rw [hs1]; exact commitLoop_packed _ _ hrs hrpk hds
  -- what each new log record is
  have hextra : ∀ x ∈ extra, ∃ p ∈ f.recs, isSel s f now p = true ∧ x.1.bucket = p.2.bucket ∧ x.1.key = p.2.key ∧
      vrec x.1 = vrec p.2 ∧ x.1.flag = p.2.flag ∧ x.1.ds = dsKV ∧ x.1.size = p.2.size ∧ x.1.txid = tid := by
    intro x hx
    have : x.1 ∈ marked (retag tid recs) := by rw [← hex]; exact List.mem_map.mpr ⟨x, hx, rfl⟩
    obtain ⟨q, hq, hb, hk, hv, hd, hsz, hfl, htx⟩ := marked_vis _ _ this
    obtain ⟨q0, hq0, rfl⟩ := List.mem_map.mp hq
    obtain ⟨p, hp, rfl⟩ := List.mem_map.mp hq0
    have hpm := List.mem_filter.mp hp
    have hmem := mem_allRecs_of s.files f hf p hpm.1
    exact ⟨p, hpm.1, hpm.2, hb, hk, hv, hfl, by rw [hd]; exact (h.recs _ hmem).1, hsz, htx⟩
  -- positions of the new records: in files above the old active one
  have hactive1 : s.activeFid < s1.activeFid := by
    rw [hs1]
    have := commitLoop_active_mono (retag tid recs) (rotate s)
    have hr1 : (rotate s).activeFid = s.activeFid + 1 := rfl
    omega
  have hposnew : ∀ x ∈ extra, s.activeFid < x.2.1 := by
    intro x hx
    have := commitLoop_new_pos (retag tid recs) (rotate s) extra hrs
      (fun r hr => ⟨(hrecsok r hr).1, (hrecsok r hr).2.1⟩) hfiles x hx
    have hr1 : (rotate s).activeFid = s.activeFid + 1 := rfl
    omega
  have hfidsfact : ∀ g ∈ s1.files, g.fid ∈ s.files.map (·.fid) ∨ s.activeFid < g.fid := by
    intro g hg
    rw [hs1] at hg
    rcases commitLoop_fids (retag tid recs) (rotate s) hrs (fun r hr => ⟨(hrecsok r hr).1, (hrecsok r hr).2.1⟩) g hg with h1 | h1
    · -- a file of the rotated state: an old one or the fresh one
      obtain ⟨pre0, f0, hf0, hfid0, hpre0⟩ := h.shape.split
      have hall : ∀ g ∈ s.files, g.fid < s.activeFid + 1 := by
        intro g hg; rw [hf0] at hg
        rcases List.mem_append.mp hg with hg | hg
        · have := hpre0 g hg; omega
        · simp at hg; subst hg; omega
      have hrf : (rotate s).files = s.files ++ [{ fid := s.activeFid + 1, recs := [] }] := by
        simp only [rotate]; exact fileEnsure_new s.files _ hall
      rw [hrf] at h1
      simp only [List.map_append, List.map_cons, List.map_nil, List.mem_append, List.mem_singleton] at h1
      rcases h1 with h1 | h1
      · exact Or.inl h1
      · right; omega
    · right
      have hr1 : (rotate s).activeFid = s.activeFid + 1 := rfl
      omega
  have hcover : ∀ p ∈ f.recs, isSel s f now p = true → ∃ x ∈ extra, x.1.bucket = p.2.bucket ∧ x.1.key = p.2.key := by
    intro p hp hsel
    have hq : ({ p.2 with txid := tid, status := 0 } : Rec) ∈ retag tid recs :=
      List.mem_map.mpr ⟨p.2, List.mem_map.mpr ⟨p, List.mem_filter.mpr ⟨hp, hsel⟩, rfl⟩, rfl⟩
    obtain ⟨r, hr, hb, hk⟩ := marked_covers (retag tid recs) _ hq
    rw [← hex] at hr
    obtain ⟨x, hx, rfl⟩ := List.mem_map.mp hr
    exact ⟨x, hx, hb, hk⟩
  have hmarks : MarkedLog extra := by
    obtain ⟨init, z, hmz, hzs⟩ := marked_snoc (retag tid recs) hretag_ne
    rw [← hex] at hmz
    obtain ⟨einit, elast, hsplit, _, hl2⟩ := List.map_eq_append_iff.mp hmz
    obtain ⟨ez, hez, _⟩ : ∃ ez, elast = [ez] ∧ True := by
      cases elast with
      | nil => simp at hl2
      | cons a as =>
        cases as with
        | nil => exact ⟨a, rfl, trivial⟩
        | cons _ _ => simp at hl2
    subst hez
    have hezs : ez.1.status = 1 := by simp at hl2; rw [hl2]; exact hzs
    have hsorted1 := log_sorted s1.files hpk.fids hpk.offs
    rw [hs1, hfiles, List.pairwise_append] at hsorted1
    have hsx := hsorted1.2.1
    rw [hsplit, List.pairwise_append] at hsx
    intro x hx
    refine ⟨ez, by rw [hsplit]; simp, hezs, ?_, ?_⟩
    · obtain ⟨_, _, _, _, _, _, _, _, _, h1⟩ := hextra x hx
      obtain ⟨_, _, _, _, _, _, _, _, _, h2⟩ := hextra ez (by rw [hsplit]; simp)
      rw [h1, h2]
    · rw [hsplit] at hx
      rcases List.mem_append.mp hx with hx | hx
      · exact posLe_of_lt (hsx.2.2 x hx ez (by simp))
      · simp at hx; subst hx; exact posLe_refl _
  refine ⟨hout, by rw [hs1]; exact hshape, hpk, by rw [hs1, hopt]; exact hropt, hactive1, ?_, ?_, ?_, hfidsfact, extra, ?_, ?_, ?_, hcover, hmarks⟩
  · -- the visible index
    rw [hs1, hkv, hrkv]
    refine (rawFold_vis extra s.kv h.sorted ?_).1
    intro x hx
    obtain ⟨p, hp, hsel, hb, hk, hv, _⟩ := hextra x hx
    -- the entry of p's key is p itself
    have hmem := mem_allRecs_of s.files f hf p hp
    unfold isSel at hsel
    simp only [Bool.and_eq_true, Bool.not_eq_true'] at hsel
    cases hl : look s.kv p.2.bucket p.2.key with
    | none => rw [hl] at hsel; simp at hsel
    | some i =>
      rw [hl] at hsel
      simp only [Bool.and_eq_true, beq_iff_eq] at hsel
      refine ⟨i, by rw [hb, hk]; exact hl, ?_⟩
      have hl' := hl
      unfold look at hl'
      cases hm : aget? s.kv p.2.bucket with
      | none => rw [hm] at hl'; cases hl'
      | some m =>
        rw [hm] at hl'
        simp only [Option.bind_some] at hl'
        have heq := entry_at_pos s now h (p.2, f.fid, p.1) hmem m i hm hl' (by simp [posOf, hsel.2.1, hsel.2.2])
        rw [hv]
        have h1 := congrArg Rec.value heq
        have h2 := congrArg Rec.ts heq
        have h3 := congrArg Rec.ttl heq
        have h4 := congrArg Rec.flag heq
        simp only [committedRec] at h1 h2 h3 h4
        simp only [vrec, h1, h2, h3, h4]
  · rw [hs1, hkv, hrkv]
    refine (rawFold_vis extra s.kv h.sorted ?_).2
    intro x hx
    obtain ⟨p, hp, hsel, hb, hk, hv, _⟩ := hextra x hx
    have hmem := mem_allRecs_of s.files f hf p hp
    unfold isSel at hsel
    simp only [Bool.and_eq_true, Bool.not_eq_true'] at hsel
    cases hl : look s.kv p.2.bucket p.2.key with
    | none => rw [hl] at hsel; simp at hsel
    | some i =>
      rw [hl] at hsel
      simp only [Bool.and_eq_true, beq_iff_eq] at hsel
      refine ⟨i, by rw [hb, hk]; exact hl, ?_⟩
      have hl' := hl
      unfold look at hl'
      cases hm : aget? s.kv p.2.bucket with
      | none => rw [hm] at hl'; cases hl'
      | some m =>
        rw [hm] at hl'
        simp only [Option.bind_some] at hl'
        have heq := entry_at_pos s now h (p.2, f.fid, p.1) hmem m i hm hl' (by simp [posOf, hsel.2.1, hsel.2.2])
        rw [hv]
        have h1 := congrArg Rec.value heq
        have h2 := congrArg Rec.ts heq
        have h3 := congrArg Rec.ttl heq
        have h4 := congrArg Rec.flag heq
        simp only [committedRec] at h1 h2 h3 h4
        simp only [vrec, h1, h2, h3, h4]
  · intro id hid
    rw [hs1]
    exact (hcom id).mpr (Or.inl (by rw [hrcom]; exact hid))
  · rw [hs1, hfiles, hrrecs]
  · rw [hs1, hkv, hrkv]
  · intro x hx
    obtain ⟨p, hp, hsel, hb, hk, hv, hfl, hd, hsz, htx⟩ := hextra x hx
    have hmem := mem_allRecs_of s.files f hf p hp
    refine ⟨hposnew x hx, ?_, hd, by rw [hsz]; exact (h.recs _ hmem).2.1, p, hp, hsel, hb, hk, hv, hfl⟩
    rw [hs1, htx]
    exact (hcom tid).mpr (Or.inr ⟨hretag_ne, rfl⟩)

/-! ### helpers for the removal of the merged file -/

theorem mem_upsert_sorted {α} (m : Assoc α) (k : Bytes) (v : α) (p : Bytes × α) (hs : Sorted m) (h : p ∈ upsert m k v) :
    p = (k, v) ∨ (p ∈ m ∧ p.1 ≠ k) := by
  induction m with
  | nil => simp [upsert] at h; exact Or.inl h
  | cons q rest ih =>
    obtain ⟨k', v'⟩ := q
    unfold Sorted at hs
    rw [List.pairwise_cons] at hs
    simp only [upsert] at h
    cases hc : bcmp k k' with
    | lt =>
      rw [hc] at h
      rcases List.mem_cons.mp h with h | h
      · exact Or.inl h
      · right
        refine ⟨h, ?_⟩
        intro he
        have hlt : bcmp k p.1 = .lt := by
          rcases List.mem_cons.mp h with rfl | hr
          · exact hc
          · exact bcmp_lt_trans hc (hs.1 p hr)
        rw [he, bcmp_refl] at hlt; cases hlt
    | eq =>
      rw [hc] at h
      have hkk : k = k' := (bcmp_eq_iff k k').mp hc
      rcases List.mem_cons.mp h with h | h
      · exact Or.inl h
      · right
        refine ⟨List.mem_cons_of_mem _ h, ?_⟩
        intro he
        have := hs.1 p h
        rw [he, ← hkk, bcmp_refl] at this; cases this
    | gt =>
      rw [hc] at h
      rcases List.mem_cons.mp h with h | h
      · right
        refine ⟨by rw [h]; simp, ?_⟩
        intro he
        rw [h] at he
        simp only at he
        rw [he, bcmp_refl] at hc; cases hc
      · rcases ih hs.2 h with h | ⟨h1, h2⟩
        · exact Or.inl h
        · exact Or.inr ⟨List.mem_cons_of_mem _ h1, h2⟩

/-- the entries of an index after a put: the new one, or old ones under other keys -/
theorem kvPut_entries (kv : Assoc (Assoc Idx)) (r : Rec) (fid pos : Nat) (hs : KVRefine.KVSorted kv)
    (b : Bytes) (m : Assoc Idx) (p : Bytes × Idx) (hm : aget? (kvPut kv r fid pos) b = some m) (hp : p ∈ m) :
    (b = r.bucket ∧ p = (r.key, ⟨r, fid, pos⟩)) ∨
    (∃ m0, aget? kv b = some m0 ∧ p ∈ m0 ∧ ¬ (r.bucket = b ∧ r.key = p.1)) := by
  unfold kvPut at hm
  by_cases hb : b = r.bucket
  · subst hb
    rw [aget_aput_self] at hm
    cases hm
    cases hq : aget? kv r.bucket with
    | none =>
      rw [hq] at hp
      simp [upsert] at hp
      exact Or.inl ⟨rfl, hp⟩
    | some m0 =>
      rw [hq] at hp
      simp only [Option.getD_some] at hp
      rcases mem_upsert_sorted m0 r.key _ p (hs _ _ hq) hp with h | ⟨h1, h2⟩
      · exact Or.inl ⟨rfl, h⟩
      · exact Or.inr ⟨m0, rfl, h1, fun hc => h2 hc.2.symm⟩
  · rw [aget_aput_other _ _ _ _ hb] at hm
    exact Or.inr ⟨m, hm, hp, fun hc => hb hc.1.symm⟩

theorem rawFold_sorted (L : List LogRec) (kv : Assoc (Assoc Idx)) (h : KVRefine.KVSorted kv) : KVRefine.KVSorted (rawFold kv L) := by
  induction L generalizing kv with
  | nil => exact h
  | cons x rest ih => exact ih _ (KVRefine.kvPut_sorted kv _ _ _ h)

/-- the entries of an index after re-applying `L`: records of `L`, or old entries under keys `L` does not name -/
theorem rawFold_entries (L : List LogRec) (kv : Assoc (Assoc Idx)) (hs : KVRefine.KVSorted kv)
    (b : Bytes) (m : Assoc Idx) (p : Bytes × Idx) (hm : aget? (rawFold kv L) b = some m) (hp : p ∈ m) :
    (∃ x ∈ L, b = x.1.bucket ∧ p = (x.1.key, ⟨x.1, x.2.1, x.2.2⟩)) ∨
    (∃ m0, aget? kv b = some m0 ∧ p ∈ m0 ∧ ∀ x ∈ L, ¬ (x.1.bucket = b ∧ x.1.key = p.1)) := by
  induction L generalizing kv with
  | nil => exact Or.inr ⟨m, hm, hp, fun x hx => by cases hx⟩
  | cons z rest ih =>
    have hfold : rawFold kv (z :: rest) = rawFold (kvPut kv z.1 z.2.1 z.2.2) rest := rfl
    rw [hfold] at hm
    rcases ih (kvPut kv z.1 z.2.1 z.2.2) (KVRefine.kvPut_sorted kv _ _ _ hs) hm with ⟨x, hx, h1, h2⟩ | ⟨m1, hm1, hp1, hno⟩
    · exact Or.inl ⟨x, by simp [hx], h1, h2⟩
    · rcases kvPut_entries kv z.1 z.2.1 z.2.2 hs b m1 p hm1 hp1 with ⟨h1, h2⟩ | ⟨m0, hm0, hp0, hnz⟩
      · exact Or.inl ⟨z, by simp, h1, h2⟩
      · refine Or.inr ⟨m0, hm0, hp0, ?_⟩
        intro x hx
        rcases List.mem_cons.mp hx with rfl | hxr
        · exact hnz
        · exact hno x hxr

theorem isFilter_eq_dead (r : Rec) (now : Nat) (h : r.flag = flagSet ∨ r.flag = flagDelete) : isFilter r now = dead r now := by
  unfold isFilter dead
  rcases h with h | h <;> simp [h, flagSet, flagDelete, flagRPop, flagLPop, flagLRem, flagLTrim, flagZRem, flagZRemRangeByRank, flagZPopMax, flagZPopMin]

theorem allRecs_filter (fs : List File) (fid : Nat) :
    allRecs (fs.filter (·.fid != fid)) = (allRecs fs).filter (fun x => x.2.1 != fid) := by
  induction fs with
  | nil => rfl
  | cons g rest ih =>
    simp only [List.filter_cons]
    by_cases hg : (g.fid != fid) = true
    · simp only [hg, if_true]
      show allRecs ([g] ++ rest.filter _) = (allRecs ([g] ++ rest)).filter _
      rw [allRecs_append, allRecs_append, List.filter_append, ih]
      congr 1
      simp only [allRecs, List.flatMap_cons, List.flatMap_nil, List.append_nil]
      symm
      rw [List.filter_eq_self]
      intro x hx
      obtain ⟨y, _, rfl⟩ := List.mem_map.mp hx
      exact hg
    · simp only [hg, Bool.false_eq_true, if_false]
      show _ = (allRecs ([g] ++ rest)).filter _
      rw [allRecs_append, List.filter_append, ih]
      have : (allRecs [g]).filter (fun x => x.2.1 != fid) = [] := by
        rw [List.filter_eq_nil_iff]
        intro x hx
        simp only [allRecs, List.flatMap_cons, List.flatMap_nil, List.append_nil] at hx
        obtain ⟨y, _, rfl⟩ := List.mem_map.mp hx
        exact hg
      rw [this]; rfl

/-! ### one file of Merge: the removal -/

theorem aget_of_mem_sorted {α} (m : Assoc α) (p : Bytes × α) (hs : Sorted m) (hp : p ∈ m) : aget? m p.1 = some p.2 := by
  induction m with
  | nil => cases hp
  | cons q rest ih =>
    unfold Sorted at hs
    rw [List.pairwise_cons] at hs
    obtain ⟨qk, qv⟩ := q
    simp only [aget?]
    rcases List.mem_cons.mp hp with rfl | hpr
    · simp
    · have : qk ≠ p.1 := by
        intro he
        have := hs.1 p hpr
        simp only at this
        rw [he, bcmp_refl] at this; cases this
      simp only [this, if_false]
      exact ih hs.2 hpr

/-- the state after `os.Remove` of the merged file, as `merge.go` builds it -/
def dropFile (s1 : State) (fid : Nat) : State :=
  { s1 with files := s1.files.filter (·.fid != fid), activeUnlinked := s1.activeUnlinked || fid == s1.activeFid }

theorem remove_step (s s1 : State) (now : Nat) (h : MInv s now) (f : File) (hf : f ∈ s.files) (extra : List LogRec)
    (hshape1 : Shape s1) (hpk1 : Packed s1) (hopt : s1.opt = s.opt) (hact : s.activeFid ≤ s1.activeFid)
    (hne : f.fid ≠ s1.activeFid) (hsorted1 : KVRefine.KVSorted s1.kv) (hcom : ∀ id, id ∈ s.committed → id ∈ s1.committed)
    (hfids : ∀ g ∈ s1.files, g.fid ∈ s.files.map (·.fid) ∨ s.activeFid < g.fid)
    (hlog : allRecs s1.files = allRecs s.files ++ extra) (hkv : s1.kv = rawFold s.kv extra)
    (hextra : ∀ x ∈ extra, s.activeFid < x.2.1 ∧ x.1.txid ∈ s1.committed ∧ x.1.ds = dsKV ∧ ¬ x.1.size > s.opt.seg ∧
        ∃ p ∈ f.recs, isSel s f now p = true ∧ x.1.bucket = p.2.bucket ∧ x.1.key = p.2.key ∧ vrec x.1 = vrec p.2 ∧ x.1.flag = p.2.flag)
    (hcover : ∀ p ∈ f.recs, isSel s f now p = true → ∃ x ∈ extra, x.1.bucket = p.2.bucket ∧ x.1.key = p.2.key)
    (hmin : ∀ g ∈ s.files, f.fid ≤ g.fid) (hexm : MarkedLog extra) :
    MInv (dropFile s1 f.fid) now := by
  -- ids: the removed file is below the active one
  obtain ⟨pre0, a0, hf0, ha0, hpre0⟩ := h.shape.split
  have hfle : f.fid ≤ s.activeFid := by
    rw [hf0] at hf
    rcases List.mem_append.mp hf with hg | hg
    · have := hpre0 f hg; omega
    · simp at hg; subst hg; omega
  have hflt : f.fid < s1.activeFid := by omega
  obtain ⟨pre1, a1, hf1, ha1, hpre1⟩ := hshape1.split
  have hfilt : (dropFile s1 f.fid).files = pre1.filter (·.fid != f.fid) ++ [a1] := by
    show s1.files.filter _ = _
    rw [hf1, List.filter_append]
    have : ([a1].filter (·.fid != f.fid)) = [a1] := by
      have : (a1.fid != f.fid) = true := by simp; omega
      simp [List.filter_cons, this]
    rw [this]
  have hsub : ∀ g ∈ (dropFile s1 f.fid).files, g ∈ s1.files ∧ g.fid ≠ f.fid := by
    intro g hg
    have := List.mem_filter.mp hg
    exact ⟨this.1, by simpa using this.2⟩
  have hlog2 : allRecs (dropFile s1 f.fid).files = (allRecs s1.files).filter (fun x => x.2.1 != f.fid) := allRecs_filter s1.files f.fid
  have hmem2 : ∀ x, x ∈ allRecs (dropFile s1 f.fid).files ↔ (x ∈ allRecs s.files ∨ x ∈ extra) ∧ x.2.1 ≠ f.fid := by
    intro x
    rw [hlog2, List.mem_filter, hlog, List.mem_append]
    simp
  -- extra records are not in the removed file
  have hextra_keep : ∀ x ∈ extra, x.2.1 ≠ f.fid := fun x hx => by have := (hextra x hx).1; omega
  have hsorted_log1 := log_sorted s1.files hpk1.fids hpk1.offs
  rw [hlog, List.pairwise_append] at hsorted_log1
  -- a rewritten record has the flag and times of the record it copies
  have hextra_ok : ∀ x ∈ extra, (x.1.flag = flagSet ∨ x.1.flag = flagDelete) ∧ x.1.ts + x.1.ttl < 2 ^ 64 := by
    intro x hx
    obtain ⟨_, _, _, _, p, hp, _, _, _, hv, hfl⟩ := hextra x hx
    have hpm := mem_allRecs_of s.files f hf p hp
    have hb := h.bounds _ hpm
    have hfp := (h.recs _ hpm).2.2
    simp only [] at hb hfp
    unfold vrec at hv
    simp only [Prod.mk.injEq] at hv
    exact ⟨by rw [hfl]; exact hfp, by rw [hv.2.1, hv.2.2.1]; exact hb⟩
  have hbounds2 : ∀ x ∈ allRecs (dropFile s1 f.fid).files, x.1.ts + x.1.ttl < 2 ^ 64 := by
    intro x hx
    rcases ((hmem2 x).mp hx).1 with hxo | hxe
    · exact h.bounds x hxo
    · exact (hextra_ok x hxe).2
  have hidxok2 : AllB (dropFile s1 f.fid).kv fun _ _ i => (i.r.flag = flagSet ∨ i.r.flag = flagDelete) ∧ i.r.ts + i.r.ttl < 2 ^ 64 := by
    intro b m p hm hp
    have hm' : aget? (rawFold s.kv extra) b = some m := by rw [← hkv]; exact hm
    rcases rawFold_entries extra s.kv h.sorted b m p hm' hp with ⟨x, hx, _, hpx⟩ | ⟨m0, hm0, hp0, _⟩
    · subst hpx; exact hextra_ok x hx
    · exact h.idxok b m0 p hm0 hp0
  refine ⟨⟨⟨pre1.filter (·.fid != f.fid), a1, hfilt, ha1, fun g hg => hpre1 g (List.mem_filter.mp hg).1⟩, hshape1.hint, ?_, ?_⟩,
    ⟨?_, ?_, ?_⟩, ?_, hbounds2, hidxok2, hsorted1, ?_, ?_, ?_, ?_⟩
  · -- still linked: the removed file is not the active one
    show (s1.activeUnlinked || f.fid == s1.activeFid) = false
    rw [hshape1.linked]
    simp; omega
  · intro g hg; exact hshape1.untorn g (hsub g hg).1
  · -- file ids still ascending
    show ((s1.files.filter (·.fid != f.fid)).map (·.fid)).Pairwise (· < ·)
    exact List.Pairwise.sublist ((List.filter_sublist).map _) hpk1.fids
  · intro g hg; exact hpk1.offs g (hsub g hg).1
  · intro g hg hgf x hx; exact hpk1.active g (hsub g hg).1 hgf x hx
  · -- records: key/value, fitting, Set or Delete
    intro x hx
    rcases ((hmem2 x).mp hx).1 with hxo | hxe
    · have := h.recs x hxo
      exact ⟨this.1, by show ¬ x.1.size > s1.opt.seg; rw [hopt]; exact this.2.1, this.2.2⟩
    · obtain ⟨_, _, hd, hsz, p, hp, _, _, _, _, hfl⟩ := hextra x hxe
      have := (h.recs _ (mem_allRecs_of s.files f hf p hp)).2.2
      exact ⟨hd, by show ¬ x.1.size > s1.opt.seg; rw [hopt]; exact hsz, by rw [hfl]; exact this⟩
  · -- latest
    intro x hx
    show ∃ i, look s1.kv x.1.bucket x.1.key = some i ∧ posLe (posOf x) (i.fid, i.pos)
    rw [hkv]
    rcases ((hmem2 x).mp hx).1 with hxo | hxe
    · by_cases hnamed : ∃ y ∈ extra, y.1.bucket = x.1.bucket ∧ y.1.key = x.1.key
      · obtain ⟨y, hy, hb, hk⟩ := hnamed
        obtain ⟨y', hy', _, _, _, hl⟩ := rawFold_latest extra s.kv hsorted_log1.2.1 y hy
        refine ⟨_, by rw [← hb, ← hk]; exact hl, ?_⟩
        -- a new record is above every old one
        left
        have h1 := (hextra y' hy').1
        obtain ⟨g, hg, hgfid, _⟩ := mem_allRecs s.files x hxo
        have hgle : g.fid ≤ s.activeFid := by
          rw [hf0] at hg
          rcases List.mem_append.mp hg with hg | hg
          · have := hpre0 g hg; omega
          · simp at hg; subst hg; omega
        show x.2.1 < y'.2.1
        omega
      · rw [rawFold_frame extra s.kv x.1.bucket x.1.key (fun y hy hc => hnamed ⟨y, hy, hc⟩)]
        exact h.latest x hxo
    · obtain ⟨y, hy, _, _, hle, hl⟩ := rawFold_latest extra s.kv hsorted_log1.2.1 x hxe
      exact ⟨_, hl, hle⟩
  · -- hints
    intro b m p hm hp
    have hm' : aget? (rawFold s.kv extra) b = some m := by rw [← hkv]; exact hm
    rcases rawFold_entries extra s.kv h.sorted b m p hm' hp with ⟨x, hx, hb, hpx⟩ | ⟨m0, hm0, hp0, hno⟩
    · -- a rewritten entry: it addresses the new record
      subst hpx
      refine ⟨rfl, hb.symm, Or.inl ⟨x, (hmem2 x).mpr ⟨Or.inr hx, hextra_keep x hx⟩, rfl, rfl⟩⟩
    · obtain ⟨hk, hbk, hh⟩ := h.hints b m0 p hm0 hp0
      refine ⟨hk, hbk, ?_⟩
      rcases hh with ⟨x, hx, hxp, hxr⟩ | ⟨hd, hlt, hgone⟩
      · by_cases hxf : x.2.1 = f.fid
        · -- the entry points into the removed file: its record was not rewritten, so it is dead
          right
          obtain ⟨g, hg, hgfid, hgrec⟩ := mem_allRecs s.files x hx
          have hgf : g = f := by
            have h1 := fileGet_of_sorted s.files g hg h.packed.fids
            have h2 := fileGet_of_sorted s.files f hf h.packed.fids
            rw [hgfid, hxf] at h1
            rw [h2] at h1
            exact (Option.some.inj h1).symm
          subst hgf
          have hflag := (h.recs x hx).2.2
          have hnotsel : isSel s g now (x.2.2, x.1) = false := by
            cases hs : isSel s g now (x.2.2, x.1) with
            | false => rfl
            | true =>
              obtain ⟨y, hy, hyb, hyk⟩ := hcover (x.2.2, x.1) hgrec hs
              exfalso
              apply hno y hy
              simp only [] at hyb hyk
              have hrb : x.1.bucket = b := by
                have := congrArg Rec.bucket hxr; simp only [committedRec] at this; rw [this]; exact hbk
              have hrk : x.1.key = p.1 := by
                have := congrArg Rec.key hxr; simp only [committedRec] at this; rw [this]; exact hk
              exact ⟨by rw [hyb, hrb], by rw [hyk, hrk]⟩
          -- not selected although the entry sits at its position: it is filtered, i.e. dead
          have hlookp : look s.kv x.1.bucket x.1.key = some p.2 := by
            have hrb : x.1.bucket = b := by
              have := congrArg Rec.bucket hxr; simp only [committedRec] at this; rw [this]; exact hbk
            have hrk : x.1.key = p.1 := by
              have := congrArg Rec.key hxr; simp only [committedRec] at this; rw [this]; exact hk
            unfold look; rw [hrb, hm0, hrk]
            simp only [Option.bind_some]
            exact aget_of_mem_sorted m0 p (h.sorted b m0 hm0) hp0
          unfold isSel at hnotsel
          simp only [hlookp] at hnotsel
          have hposeq : (p.2.fid == g.fid && p.2.pos == x.2.2) = true := by
            have h1 : p.2.fid = x.2.1 := by have := congrArg Prod.fst hxp; simpa [posOf] using this.symm
            have h2 : p.2.pos = x.2.2 := by have := congrArg Prod.snd hxp; simpa [posOf] using this.symm
            simp [h1, h2, hxf]
          rw [hposeq, Bool.and_true] at hnotsel
          have hfil : isFilter x.1 now = true := by simpa using hnotsel
          rw [isFilter_eq_dead x.1 now hflag] at hfil
          have hdead : dead p.2.r now = true := by
            have h1 := congrArg Rec.flag hxr
            have h2 := congrArg Rec.ttl hxr
            have h3 := congrArg Rec.ts hxr
            simp only [committedRec] at h1 h2 h3
            unfold dead at hfil ⊢
            rw [← h1, ← h2, ← h3]; exact hfil
          have hpf : p.2.fid = g.fid := by have := congrArg Prod.fst hxp; simp only [posOf] at this; rw [← this, hxf]
          refine ⟨hdead, ?_, ?_⟩
          · show p.2.fid < s1.activeFid; rw [hpf]; exact hflt
          · intro g' hg'
            rw [hpf]
            have hne' := (hsub g' hg').2
            rcases hfids g' (hsub g' hg').1 with h1 | h1
            · obtain ⟨g0, hg0, hg0f⟩ := List.mem_map.mp h1
              have := hmin g0 hg0
              omega
            · omega
        · exact Or.inl ⟨x, (hmem2 x).mpr ⟨Or.inl hx, hxf⟩, hxp, hxr⟩
      · right
        refine ⟨hd, by show p.2.fid < s1.activeFid; omega, ?_⟩
        intro g hg
        rcases hfids g (hsub g hg).1 with h1 | h1
        · obtain ⟨g0, hg0, hg0f⟩ := List.mem_map.mp h1
          rw [← hg0f]; exact hgone g0 hg0
        · omega
  · -- every entry's transaction is committed
    intro b m p hm hp
    show p.2.r.txid ∈ s1.committed
    have hm' : aget? (rawFold s.kv extra) b = some m := by rw [← hkv]; exact hm
    rcases rawFold_entries extra s.kv h.sorted b m p hm' hp with ⟨x, hx, _, hpx⟩ | ⟨m0, hm0, hp0, _⟩
    · subst hpx; exact (hextra x hx).2.1
    · exact hcom _ (h.committedIdx b m0 p hm0 hp0)
  · -- commit marks: a remaining record's mark lies at or after it, hence not in the removed (lowest) file
    intro x hx
    have hx2 := (hmem2 x).mp hx
    rcases hx2.1 with hxo | hxe
    · obtain ⟨y, hy, hys, hyt, hyp⟩ := h.marks x hxo
      refine ⟨y, (hmem2 y).mpr ⟨Or.inl hy, ?_⟩, hys, hyt, hyp⟩
      obtain ⟨g, hg, hgfid, _⟩ := mem_allRecs s.files x hxo
      have h1 := hmin g hg
      have h2 := hx2.2
      unfold posLe posOf at hyp
      simp only [] at hyp
      omega
    · obtain ⟨y, hy, hys, hyt, hyp⟩ := hexm x hxe
      exact ⟨y, (hmem2 y).mpr ⟨Or.inr hy, hextra_keep y hy⟩, hys, hyt, hyp⟩

/-! ### the loop over the files -/

theorem fileGet_mem (fs : List File) (fid : Nat) (f : File) (h : fileGet? fs fid = some f) : f ∈ fs ∧ f.fid = fid := by
  unfold fileGet? at h
  exact ⟨List.mem_of_find?_eq_some h, by have := List.find?_some h; simpa using this⟩

/-- one step of the loop for a file that is there -/
theorem merge_file_step (s : State) (now : Nat) (h : MInv s now) (f : File) (hf : f ∈ s.files) (tid : Nat)
    (hguard : (f.recs.filter (isSel s f now)).map (·.2) ≠ [] ∨ f.fid ≠ s.activeFid)
    (hmin : ∀ g ∈ s.files, f.fid ≤ g.fid) :
    let recs := (f.recs.filter (isSel s f now)).map (·.2)
    let s2 := dropFile (rewrite s recs tid).1 f.fid
    (rewrite s recs tid).2 = .ok () ∧ MInv s2 now ∧ visKV s2.kv = visKV s.kv ∧
    (∀ id, id ∈ s.committed → id ∈ s2.committed) ∧ s2.opt = s.opt ∧
    s.activeFid ≤ s2.activeFid ∧
    (∀ g ∈ s2.files, (g.fid ∈ s.files.map (·.fid) ∧ g.fid ≠ f.fid) ∨ s.activeFid < g.fid) := by
  intro recs s2
  by_cases hne : recs = []
  · -- nothing to rewrite: the state is unchanged, the file is dropped
    have hrw : rewrite s recs tid = (s, .ok ()) := by unfold rewrite; simp [hne]
    have hfne : f.fid ≠ s.activeFid := by
      rcases hguard with h1 | h1
      · exact absurd hne h1
      · exact h1
    have hnosel : ∀ p ∈ f.recs, isSel s f now p = true → ∃ x ∈ ([] : List LogRec), x.1.bucket = p.2.bucket ∧ x.1.key = p.2.key := by
      intro p hp hsel
      exfalso
      have : p.2 ∈ recs := List.mem_map.mpr ⟨p, List.mem_filter.mpr ⟨hp, hsel⟩, rfl⟩
      rw [hne] at this; cases this
    have hm := remove_step s s now h f hf [] h.shape h.packed rfl (Nat.le_refl _) hfne h.sorted (fun _ hid => hid)
      (fun g hg => Or.inl (List.mem_map.mpr ⟨g, hg, rfl⟩)) (by simp) rfl (fun x hx => by cases hx) hnosel hmin (fun x hx => by cases hx)
    have hs2 : s2 = dropFile s f.fid := by show dropFile (rewrite s recs tid).1 f.fid = _; rw [hrw]
    rw [hs2, hrw]
    refine ⟨rfl, hm, rfl, fun _ hid => hid, rfl, Nat.le_refl _, ?_⟩
    intro g hg
    have := List.mem_filter.mp hg
    exact Or.inl ⟨List.mem_map.mpr ⟨g, this.1, rfl⟩, by simpa using this.2⟩
  · obtain ⟨hout, hsh1, hpk1, hopt1, hact1, hvis1, hsorted1, hcom1, hfids1, extra, hlog1, hkv1, hextra1, hcover1, hmarks1⟩ :=
      rewrite_step s now h f hf tid hne
    have hfle : f.fid ≤ s.activeFid := by
      obtain ⟨pre0, a0, hf0, ha0, hpre0⟩ := h.shape.split
      rw [hf0] at hf
      rcases List.mem_append.mp hf with hg | hg
      · have := hpre0 f hg; omega
      · simp at hg; subst hg; omega
    have hact1' : s.activeFid < (rewrite s recs tid).1.activeFid := hact1
    have hfne1 : f.fid ≠ (rewrite s recs tid).1.activeFid := by omega
    have hm := remove_step s (rewrite s recs tid).1 now h f hf extra hsh1 hpk1 hopt1 (Nat.le_of_lt hact1') hfne1
      hsorted1 hcom1 hfids1 hlog1 hkv1 hextra1 hcover1 hmin hmarks1
    refine ⟨hout, hm, hvis1, hcom1, hopt1, Nat.le_of_lt hact1', ?_⟩
    intro g hg
    have hgf := List.mem_filter.mp hg
    rcases hfids1 g hgf.1 with h1 | h1
    · exact Or.inl ⟨h1, by simpa using hgf.2⟩
    · exact Or.inr h1

/-- a state from which the rest of the loop does nothing: none of the remaining ids names a file -/
theorem go_skip (now : Nat) (s : State) (fids txids : List Nat) (h : ∀ fid ∈ fids, fileGet? s.files fid = none) :
    merge.go now s fids txids = (s, .ok ()) := by
  induction fids with
  | nil => rfl
  | cons fid rest ih =>
    unfold merge.go
    rw [h fid (by simp)]
    exact ih (fun g hg => h g (by simp [hg]))

/-- **the loop of Merge** on a state with the invariant: if it ends with the active file still linked, it
succeeded, kept the invariant, and changed nothing visible in the index -/
theorem go_spec (now : Nat) (fids : List Nat) (s : State) (txids : List Nat) (h : MInv s now)
    (hasc : fids.Pairwise (· < ·))
    (hcov : ∀ g ∈ s.files, g.fid ∈ fids ∨ ∀ x ∈ fids, x < g.fid) (hle : ∀ x ∈ fids, x ≤ s.activeFid) :
    (merge.go now s fids txids).1.activeUnlinked = false →
    (merge.go now s fids txids).2 = .ok () ∧ MInv (merge.go now s fids txids).1 now ∧
    visKV (merge.go now s fids txids).1.kv = visKV s.kv ∧
    (∀ id, id ∈ s.committed → id ∈ (merge.go now s fids txids).1.committed) ∧
    (merge.go now s fids txids).1.opt = s.opt := by
  induction fids generalizing s txids with
  | nil => intro _; exact ⟨rfl, h, rfl, fun _ hid => hid, rfl⟩
  | cons fid rest ih =>
    rw [List.pairwise_cons] at hasc
    intro hlinked
    unfold merge.go at hlinked ⊢
    cases hget : fileGet? s.files fid with
    | none =>
      rw [hget] at hlinked
      simp only [hget]
      have hnofile : ∀ g ∈ s.files, g.fid ≠ fid := by
        intro g hg he
        unfold fileGet? at hget
        rw [List.find?_eq_none] at hget
        exact hget g hg (by simp [he])
      refine ih s txids h hasc.2 ?_ (fun x hx => hle x (by simp [hx])) hlinked
      intro g hg
      rcases hcov g hg with h1 | h1
      · rcases List.mem_cons.mp h1 with h2 | h2
        · exact absurd h2 (hnofile g hg)
        · exact Or.inl h2
      · exact Or.inr (fun x hx => h1 x (by simp [hx]))
    | some f =>
      rw [hget] at hlinked
      simp only [hget] at hlinked ⊢
      obtain ⟨hf, hfid⟩ := fileGet_mem s.files fid f hget
      rw [mergeSelect_eq s now h f hf] at hlinked ⊢
      simp only [] at hlinked ⊢
      have hmin : ∀ g ∈ s.files, f.fid ≤ g.fid := by
        intro g hg
        rw [hfid]
        rcases hcov g hg with h1 | h1
        · rcases List.mem_cons.mp h1 with h2 | h2
          · omega
          · have := hasc.1 g.fid h2; omega
        · have := h1 fid (by simp); omega
      by_cases hguard : (f.recs.filter (isSel s f now)).map (·.2) ≠ [] ∨ f.fid ≠ s.activeFid
      · obtain ⟨hout, hm2, hvis2, hcom2, hopt2, hact2, hfiles2⟩ := merge_file_step s now h f hf (txids.headD 0) hguard hmin
        have hpair : rewrite s ((f.recs.filter (isSel s f now)).map (·.2)) (txids.headD 0) =
            ((rewrite s ((f.recs.filter (isSel s f now)).map (·.2)) (txids.headD 0)).1, .ok ()) := by
          rw [← hout]
        rw [hpair] at hlinked ⊢
        simp only [Outcome.isPanic, Bool.false_eq_true, if_false] at hlinked ⊢
        have hdrop : ({ (rewrite s ((f.recs.filter (isSel s f now)).map (·.2)) (txids.headD 0)).1 with
              files := (rewrite s ((f.recs.filter (isSel s f now)).map (·.2)) (txids.headD 0)).1.files.filter (·.fid != fid),
              activeUnlinked := (rewrite s ((f.recs.filter (isSel s f now)).map (·.2)) (txids.headD 0)).1.activeUnlinked ||
                fid == (rewrite s ((f.recs.filter (isSel s f now)).map (·.2)) (txids.headD 0)).1.activeFid } : State) =
            dropFile (rewrite s ((f.recs.filter (isSel s f now)).map (·.2)) (txids.headD 0)).1 f.fid := by
          rw [hfid]; rfl
        rw [hdrop] at hlinked ⊢
        have hcov2 : ∀ g ∈ (dropFile (rewrite s ((f.recs.filter (isSel s f now)).map (·.2)) (txids.headD 0)).1 f.fid).files,
            g.fid ∈ rest ∨ ∀ x ∈ rest, x < g.fid := by
          intro g hg
          rcases hfiles2 g hg with ⟨h1, h2⟩ | h1
          · obtain ⟨g0, hg0, hg0f⟩ := List.mem_map.mp h1
            rcases hcov g0 hg0 with h3 | h3
            · rcases List.mem_cons.mp h3 with h4 | h4
              · exfalso; apply h2; rw [← hg0f, h4, hfid]
              · exact Or.inl (by rw [← hg0f]; exact h4)
            · exact Or.inr (fun x hx => by rw [← hg0f]; exact h3 x (by simp [hx]))
          · exact Or.inr (fun x hx => by have := hle x (by simp [hx]); omega)
        have hle2 : ∀ x ∈ rest, x ≤ (dropFile (rewrite s ((f.recs.filter (isSel s f now)).map (·.2)) (txids.headD 0)).1 f.fid).activeFid := by
          intro x hx
          have := hle x (by simp [hx])
          have h2 : s.activeFid ≤ (dropFile (rewrite s ((f.recs.filter (isSel s f now)).map (·.2)) (txids.headD 0)).1 f.fid).activeFid := hact2
          omega
        obtain ⟨r1, r2, r3, r4, r5⟩ := ih _ _ hm2 hasc.2 hcov2 hle2 hlinked
        exact ⟨r1, r2, by rw [r3, hvis2], fun id hid => r4 id (hcom2 id hid), by rw [r5, hopt2]⟩
      · -- the active file, with nothing to rewrite: it is removed while still active; nothing after it
        exfalso
        have hg1 : (f.recs.filter (isSel s f now)).map (·.2) = [] := by
          cases hx : (f.recs.filter (isSel s f now)).map (·.2) with
          | nil => rfl
          | cons _ _ => exact absurd (Or.inl (by rw [hx]; simp)) hguard
        have hg2 : f.fid = s.activeFid := by
          by_cases hc : f.fid = s.activeFid
          · exact hc
          · exact absurd (Or.inr hc) hguard
        rw [hg1] at hlinked
        have hrw : rewrite s [] (txids.headD 0) = (s, .ok ()) := by unfold rewrite; simp
        rw [hrw] at hlinked
        simp only [Outcome.isPanic, Bool.false_eq_true, if_false, List.isEmpty_nil, if_true] at hlinked
        -- every remaining id is above the active id: no such file
        have hnone : ∀ g ∈ rest, fileGet? (s.files.filter (·.fid != fid)) g = none := by
          intro g hg
          have hgt : fid < g := hasc.1 g hg
          unfold fileGet?
          rw [List.find?_eq_none]
          intro x hx
          have hxm := (List.mem_filter.mp hx).1
          obtain ⟨pre0, a0, hf0, ha0, hpre0⟩ := h.shape.split
          have : x.fid ≤ s.activeFid := by
            rw [hf0] at hxm
            rcases List.mem_append.mp hxm with hg' | hg'
            · have := hpre0 x hg'; omega
            · simp at hg'; subst hg'; omega
          simp; omega
        rw [go_skip now _ rest _ hnone] at hlinked
        simp only [] at hlinked
        rw [hfid.symm, hg2] at hlinked
        simp at hlinked

/-! ### Merge -/

/-- **Merge leaves the visible index alone.** On a state with the invariant, `Merge` — any clock value, any
ids for its rewrite transactions — either ends with the active file removed from the directory (finding
D-MERGE-ACTIVE: nothing in any file was live), or fails because there are fewer than two files (changing
nothing), or succeeds, keeps the invariant, and leaves every bucket's entries with the same keys in the same
order, the same value, timestamp, TTL and flag each — tombstones and expired entries included — and every
entry's transaction committed. -/
theorem merge_spec (s : State) (now : Nat) (txids : List Nat) (h : MInv s now) :
    (s.files.length < 2 → merge s now txids = (s, .err)) ∧
    (¬ s.files.length < 2 → (merge s now txids).1.activeUnlinked = false →
      (merge s now txids).2 = .ok () ∧ MInv (merge s now txids).1 now ∧
      visKV (merge s now txids).1.kv = visKV s.kv ∧
      (∀ id, id ∈ s.committed → id ∈ (merge s now txids).1.committed) ∧
      (merge s now txids).1.opt = s.opt) := by
  constructor
  · intro hlt; unfold merge; simp [hlt]
  · intro hge hlinked
    have hm : merge s now txids = merge.go now s (s.files.map (·.fid)) txids := by
      unfold merge; simp [hge]
    rw [hm] at hlinked ⊢
    refine go_spec now _ s txids h h.packed.fids (fun g hg => Or.inl (List.mem_map.mpr ⟨g, hg, rfl⟩)) ?_ hlinked
    intro x hx
    obtain ⟨g, hg, rfl⟩ := List.mem_map.mp hx
    obtain ⟨pre0, a0, hf0, ha0, hpre0⟩ := h.shape.split
    rw [hf0] at hg
    rcases List.mem_append.mp hg with hg | hg
    · have := hpre0 g hg; omega
    · simp at hg; subst hg; omega

/-! ### commit marks along histories -/

theorem markedLog_append (L extra : List LogRec) (t : List Rec) (tid : Nat) (hL : MarkedLog L)
    (hsorted : (L ++ extra).Pairwise (fun x y => posLt (posOf x) (posOf y)))
    (hex : extra.map (·.1) = marked t) (hne : t ≠ []) (htid : ∀ x ∈ extra, x.1.txid = tid) : MarkedLog (L ++ extra) := by
  obtain ⟨init, z, hmz, hzs⟩ := marked_snoc t hne
  rw [← hex] at hmz
  obtain ⟨einit, elast, hsplit, _, hl2⟩ := List.map_eq_append_iff.mp hmz
  obtain ⟨ez, hez, _⟩ : ∃ ez, elast = [ez] ∧ True := by
    cases elast with
    | nil => simp at hl2
    | cons a as =>
      cases as with
      | nil => exact ⟨a, rfl, trivial⟩
      | cons _ _ => simp at hl2
  subst hez
  have hezs : ez.1.status = 1 := by simp at hl2; rw [hl2]; exact hzs
  rw [List.pairwise_append] at hsorted
  have hsx := hsorted.2.1
  rw [hsplit, List.pairwise_append] at hsx
  intro x hx
  rcases List.mem_append.mp hx with hxo | hxe
  · obtain ⟨y, hy, h1, h2, h3⟩ := hL x hxo
    exact ⟨y, by simp [hy], h1, h2, h3⟩
  · refine ⟨ez, by rw [hsplit]; simp, hezs, ?_, ?_⟩
    · rw [htid x hxe, htid ez (by rw [hsplit]; simp)]
    · rw [hsplit] at hxe
      rcases List.mem_append.mp hxe with hxe | hxe
      · exact posLe_of_lt (hsx.2.2 x hxe ez (by simp))
      · simp at hxe; subst hxe; exact posLe_refl _

theorem markedLog_commit (s : State) (t : List Rec) (hi : LogInv s) (hp : Packed s) (ht : KVTx s.opt.seg t)
    (hm : MarkedLog (allRecs s.files)) : MarkedLog (allRecs (commit s t).1.files) := by
  have hp' := commit_packed s t hi hp ht
  obtain ⟨hne, tid, hr⟩ := ht
  obtain ⟨hfine, _, _, ⟨extra, hex, hfiles, _⟩, _⟩ := commitLoop_kv t tid s hi.shape hr
  have hds : ∀ r ∈ t, r.ds = dsKV := fun r hr' => (hr r hr').1
  have hemp : t.isEmpty = false := by cases t with | nil => exact absurd rfl hne | cons _ _ => rfl
  have hcommit : commit s t = ((commitLoop s t).1, .ok ()) := by
    unfold commit
    simp only [hemp, Bool.false_eq_true, if_false]
    rw [show commitLoop s t = ((commitLoop s t).1, (commitLoop s t).2) from rfl]
    simp only [hfine, Bool.not_true, Bool.false_eq_true, if_false]
    rw [buildIdxes_kv_id t _ hds]
    simp
  rw [hcommit] at hp' ⊢
  have hsorted := log_sorted _ hp'.fids hp'.offs
  show MarkedLog (allRecs (commitLoop s t).1.files)
  rw [hfiles] at hsorted ⊢
  refine markedLog_append _ extra t tid hm hsorted hex hne ?_
  intro x hx
  exact marked_txid t tid (fun r hr' => (hr r hr').2.2) x.1 (by rw [← hex]; exact List.mem_map.mpr ⟨x, hx, rfl⟩)

theorem markedLog_ops (ops : List Op) (s : State) (hi : LogInv s) (hp : Packed s) (hm : MarkedLog (allRecs s.files))
    (hok : OpsOk s ops) : MarkedLog (allRecs (ops.foldl stepOp s).files) := by
  induction ops generalizing s with
  | nil => exact hm
  | cons op rest ih =>
    cases op with
    | commit t =>
      obtain ⟨ht, hrest⟩ := hok
      exact ih _ (commit_kv s t hi ht).2.1 (commit_packed s t hi hp ht) (markedLog_commit s t hi hp ht hm) hrest
    | reopen o =>
      refine ih _ (logInv_reopen s hi o) (reopen_packed s hi hp o) ?_ hok
      show MarkedLog (allRecs (openDB o s.files).1.files)
      rw [(open_rebuilds s hi o).2.2.1]; exact hm

theorem markedLog_init (opt : Opts) : MarkedLog (allRecs (openDB opt []).1.files) := by
  intro x hx; simp [openDB, fileEnsure, allRecs] at hx

end NutsProofs.MergeKV
