/-
  NutsProofs.Lemmas.CodecEnc — what `Encode()` produces, for every layout table that is well formed:
  header ++ payload, every header field readable back, the crc field holding the checksum of the rest.
-/
import NutsProofs.Lemmas.Codec
import NutsProofs.Lemmas.Crc
namespace NutsProofs.Codec
open Nuts Nuts.Model.Codec

/-- well-formedness of an encoder table: fields inside the header and as wide as their slices,
pairwise disjoint, exactly one crc field, at bytes 0..4 -/
structure EncWF (L : Layout) (hsz : Nat) (cn : String) : Prop where
  ok : ∀ f ∈ L, FieldOK hsz f
  pw : L.Pairwise Disj
  crcField : L.filter (·.1 == cn) = [(cn, 0, 4, 4)]
  four : 4 ≤ hsz

theorem filter_ok {L : Layout} {n : Nat} (p : Field → Bool) (h : ∀ f ∈ L, FieldOK n f) : ∀ f ∈ L.filter p, FieldOK n f := by
  intro f hf; exact h f (List.mem_filter.mp hf).1

theorem fieldOK_mono {n m : Nat} {f : Field} (h : FieldOK n f) (hnm : n ≤ m) : FieldOK m f := by
  unfold FieldOK at *; omega

theorem drop_eq_slice (buf : Bytes) (lo : Nat) : buf.drop lo = slice buf lo buf.length := (slice_full buf lo).symm

theorem encodeRaw_spec {L : Layout} {hsz : Nat} {cn : String} (hwf : EncWF L hsz cn) (r : Raw) :
    (encodeRaw L hsz cn r).length = hsz + r.payload.flatten.length ∧
    (encodeRaw L hsz cn r).drop hsz = r.payload.flatten ∧
    (∀ f ∈ L, f.1 ≠ cn → slice (encodeRaw L hsz cn r) f.2.1 f.2.2.1 = leBytes f.2.2.2 (valOf r.vals f.1)) ∧
    slice (encodeRaw L hsz cn r) 0 4 = leBytes 4 (crc32 ((encodeRaw L hsz cn r).drop 4)).toNat := by
  -- names for the stages of `encodeRaw`
  generalize hbody : r.payload.flatten = body
  let buf0 : Bytes := List.replicate (hsz + body.length) 0
  let E := L.filter (·.1 != cn)
  let buf1 := putFields E r.vals buf0
  let buf2 := writeAt buf1 hsz body
  let c := crc32 (buf2.drop 4)
  have hout : encodeRaw L hsz cn r = putFields [(cn, 0, 4, 4)] [(cn, c.toNat)] buf2 := by
    unfold encodeRaw; rw [hwf.crcField, hbody]
  have hlen0 : buf0.length = hsz + body.length := by simp [buf0]
  have hokE : ∀ f ∈ E, FieldOK buf0.length f := by
    intro f hf; exact fieldOK_mono (filter_ok _ hwf.ok f hf) (by omega)
  have hlen1 : buf1.length = hsz + body.length := by
    rw [show buf1 = putFields E r.vals buf0 from rfl, putFields_length _ _ _ hokE, hlen0]
  have hb2 : hsz + body.length ≤ buf1.length := by omega
  have hlen2 : buf2.length = hsz + body.length := by
    rw [show buf2 = writeAt buf1 hsz body from rfl, writeAt_length _ _ _ hb2, hlen1]
  have hokC : ∀ f ∈ [((cn, 0, 4, 4) : Field)], FieldOK buf2.length f := by
    intro f hf; simp at hf; subst hf; unfold FieldOK; have := hwf.four; simp; omega
  have hlen : (encodeRaw L hsz cn r).length = hsz + body.length := by
    rw [hout, putFields_length _ _ _ hokC, hlen2]
  -- everything from byte 4 on is untouched by the final crc write
  have hrest : ∀ lo, 4 ≤ lo → slice (encodeRaw L hsz cn r) lo (hsz + body.length) = slice buf2 lo (hsz + body.length) := by
    intro lo hlo
    rw [hout]
    apply slice_putFields_other _ _ _ _ _ hokC
    intro f hf; simp at hf; subst hf; left; exact hlo
  refine ⟨hlen, ?_, ?_, ?_⟩
  · rw [drop_eq_slice, hlen, hrest hsz hwf.four, ← hlen2, ← drop_eq_slice]
    have := slice_writeAt_same buf1 hsz body hb2
    rw [← hlen1] at this
    rw [show buf2 = writeAt buf1 hsz body from rfl, drop_eq_slice, writeAt_length _ _ _ hb2]
    exact this
  · intro f hf hne
    have hfE : f ∈ E := List.mem_filter.mpr ⟨hf, by simpa using hne⟩
    have hfok := hwf.ok f hf
    unfold FieldOK at hfok
    -- disjoint from the crc field
    have hcmem : ((cn, 0, 4, 4) : Field) ∈ L := by
      have : ((cn, 0, 4, 4) : Field) ∈ L.filter (·.1 == cn) := by rw [hwf.crcField]; simp
      exact (List.mem_filter.mp this).1
    have hdisj : (4 : Nat) ≤ f.2.1 ∨ f.2.2.1 ≤ 0 := by
      have hpw := hwf.pw
      rw [List.pairwise_iff_forall_sublist] at hpw
      by_cases hlt : 4 ≤ f.2.1
      · exact Or.inl hlt
      · -- both are members of L and distinct: use symmetry of Disj via pairwise on either order
        have hsym : Disj f (cn, 0, 4, 4) ∨ Disj (cn, 0, 4, 4) f := by
          have hne' : f ≠ (cn, 0, 4, 4) := by intro h; apply hne; rw [h]
          rcases List.pairwise_iff_getElem.mp hwf.pw with hp
          obtain ⟨i, hi, hfi⟩ := List.mem_iff_getElem.mp hf
          obtain ⟨j, hj, hcj⟩ := List.mem_iff_getElem.mp hcmem
          rcases Nat.lt_trichotomy i j with hij | hij | hij
          · left; rw [← hfi, ← hcj]; exact hp i j hi hj hij
          · exfalso; subst hij; apply hne'; rw [← hfi, ← hcj]
          · right; rw [← hfi, ← hcj]; exact hp j i hj hi hij
        unfold Disj at hsym
        simp at hsym
        omega
    rw [hout, slice_putFields_other _ _ _ _ _ hokC (by
      intro g hg; simp at hg; subst hg; simp; omega)]
    rw [show buf2 = writeAt buf1 hsz body from rfl, slice_writeAt_disj _ _ _ _ _ hb2 (Or.inl hfok.2)]
    exact slice_putFields_mem E r.vals buf0 hokE (List.Pairwise.sublist List.filter_sublist hwf.pw) f hfE
  · have h4 : (encodeRaw L hsz cn r).drop 4 = buf2.drop 4 := by
      rw [drop_eq_slice, hlen, hrest 4 (Nat.le_refl 4), ← hlen2, ← drop_eq_slice]
    rw [h4, hout]
    have := slice_putFields_mem [((cn, 0, 4, 4) : Field)] [(cn, c.toNat)] buf2 hokC (by simp) (cn, 0, 4, 4) (by simp)
    simpa [valOf] using this

end NutsProofs.Codec
