/-
  NutsProofs.Lemmas.Skiplist — the search loops of the skiplist (Nuts.Model.Skiplist) for every level layout.

  `SpansOK`: every stored span of every tower is the distance to the next tower that has that level (to the
  end of the list when there is none). Under it, one search loop (`walk`) that is steered by a predicate true
  exactly below a cut position `c` ends on the last tower below `c` that has the level, with its rank equal to
  its position (`walk_spec`); the whole descent (`descend`) therefore yields, level by level, `update[i]` = that
  tower and `rank[i]` = its position (`descend_spec`).
-/
import Nuts.Model.Skiplist
import NutsProofs.Lemmas.ZSetOrder
namespace NutsProofs.SkipL
open Nuts Nuts.Model Nuts.Model.Skiplist
open Nuts.Model.ZSetA (Node nlt)

/-! ### `nextAt` -/

theorem nextAt_none {i : Nat} {l : List Tower} : nextAt i l = none ↔ ∀ t ∈ l, t.spans.length ≤ i := by
  induction l with
  | nil => simp [nextAt]
  | cons t ts ih =>
    simp only [nextAt]
    by_cases h : i < t.spans.length
    · simp only [h, if_true, List.mem_cons, forall_eq_or_imp]
      constructor
      · intro c; cases c
      · intro c; omega
    · simp only [h, if_false, Option.map_eq_none_iff, ih, List.mem_cons, forall_eq_or_imp]
      constructor
      · intro c; exact ⟨by omega, c⟩
      · intro c; exact c.2

/-- `nextAt i l = some d`: `1 ≤ d ≤ |l|`, tower `d-1` has level `i`, the towers before it do not -/
theorem nextAt_some {i : Nat} {l : List Tower} {d : Nat} (h : nextAt i l = some d) :
    1 ≤ d ∧ d ≤ l.length ∧ (∃ t, l[d - 1]? = some t ∧ i < t.spans.length) ∧
    ∀ j t, j < d - 1 → l[j]? = some t → t.spans.length ≤ i := by
  induction l generalizing d with
  | nil => simp [nextAt] at h
  | cons t ts ih =>
    simp only [nextAt] at h
    by_cases hi : i < t.spans.length
    · simp only [hi, if_true, Option.some.injEq] at h
      subst h
      refine ⟨by omega, by simp, ⟨t, by simp, hi⟩, ?_⟩
      intro j t' hj; omega
    · simp only [hi, if_false, Option.map_eq_some_iff] at h
      obtain ⟨d', hd', rfl⟩ := h
      obtain ⟨h1, h2, ⟨t', ht', hlt'⟩, h4⟩ := ih hd'
      refine ⟨by omega, by simp; omega, ⟨t', ?_, hlt'⟩, ?_⟩
      · have : d' + 1 - 1 = (d' - 1) + 1 := by omega
        rw [this, List.getElem?_cons_succ]; exact ht'
      · intro j t'' hj hg
        cases j with
        | zero => simp at hg; subst hg; omega
        | succ j' =>
          rw [List.getElem?_cons_succ] at hg
          exact h4 j' t'' (by omega) hg

theorem nextAt_append (i : Nat) (a b : List Tower) :
    nextAt i (a ++ b) = match nextAt i a with
      | some d => some d
      | none => (nextAt i b).map (· + a.length) := by
  induction a with
  | nil => simp [nextAt]
  | cons t ts ih =>
    simp only [List.cons_append, nextAt]
    by_cases hi : i < t.spans.length
    · simp [hi]
    · simp only [hi, if_false, ih]
      cases nextAt i ts with
      | some d => simp
      | none =>
        simp only [Option.map_none, List.length_cons]
        cases nextAt i b with
        | none => simp
        | some e => simp; omega

/-! ### spans are distances -/

/-- distance to the next tower with level `i`; to the end of the list when there is none -/
def gap (i : Nat) (rest : List Tower) : Nat := (nextAt i rest).getD rest.length

/-- every stored span below `level` is the gap -/
def SpansOK (level : Nat) : List Tower → Prop
  | [] => True
  | t :: rest => (∀ i, i < t.spans.length → i < level → t.spans.getD i 0 = (gap i rest : Int)) ∧ SpansOK level rest

theorem spansOK_get {level : Nat} {all : List Tower} (h : SpansOK level all) {p : Nat} {t : Tower}
    (hp : all[p]? = some t) {i : Nat} (hi : i < t.spans.length) (hl : i < level) :
    t.spans.getD i 0 = (gap i (all.drop (p + 1)) : Int) := by
  induction all generalizing p with
  | nil => simp at hp
  | cons u rest ih =>
    cases p with
    | zero =>
      simp at hp; subst hp
      simpa using h.1 i hi hl
    | succ p' =>
      rw [List.getElem?_cons_succ] at hp
      simpa using ih h.2 hp

theorem heightOf_eq {all : List Tower} {p : Nat} {t : Tower} (hp : all[p]? = some t) : heightOf all p = t.spans.length := by
  simp [heightOf, hp]

theorem spanOf_eq {all : List Tower} {p : Nat} {t : Tower} (hp : all[p]? = some t) (i : Nat) : spanOf all p i = t.spans.getD i 0 := by
  simp [spanOf, hp]

theorem heightOf_pos_lt {all : List Tower} {p i : Nat} (h : i < heightOf all p) : p < all.length := by
  unfold heightOf at h
  cases hp : all[p]? with
  | none => simp [hp] at h
  | some t => exact (List.getElem?_eq_some_iff.mp hp).1

/-- `fwd` through `nextAt` on the suffix -/
theorem fwd_none {all : List Tower} {x i : Nat} (h : fwd all x i = none) :
    ∀ q, x < q → q < all.length → heightOf all q ≤ i := by
  intro q hq hql
  unfold fwd at h
  rw [Option.map_eq_none_iff, nextAt_none] at h
  have hg : all[q]? = some all[q] := List.getElem?_eq_getElem hql
  rw [heightOf_eq hg]
  apply h
  rw [List.mem_iff_getElem?]
  refine ⟨q - (x + 1), ?_⟩
  rw [List.getElem?_drop]
  have : x + 1 + (q - (x + 1)) = q := by omega
  rw [this]; exact hg

theorem fwd_some {all : List Tower} {x i q : Nat} (h : fwd all x i = some q) :
    x < q ∧ q < all.length ∧ i < heightOf all q ∧ (∀ q', x < q' → q' < q → heightOf all q' ≤ i) ∧
    nextAt i (all.drop (x + 1)) = some (q - x) := by
  unfold fwd at h
  rw [Option.map_eq_some_iff] at h
  obtain ⟨d, hd, rfl⟩ := h
  obtain ⟨h1, h2, ⟨t, ht, hlt⟩, h4⟩ := nextAt_some hd
  rw [List.getElem?_drop] at ht
  have e : x + 1 + (d - 1) = d + x := by omega
  rw [e] at ht
  have hlen : d + x < all.length := (List.getElem?_eq_some_iff.mp ht).1
  refine ⟨by omega, hlen, by rw [heightOf_eq ht]; exact hlt, ?_, by simpa using hd⟩
  intro q' hq1 hq2
  have hq'l : q' < all.length := by omega
  have hg : all[q']? = some all[q'] := List.getElem?_eq_getElem hq'l
  rw [heightOf_eq hg]
  apply h4 (q' - (x + 1)) _ (by omega)
  rw [List.getElem?_drop]
  have : x + 1 + (q' - (x + 1)) = q' := by omega
  rw [this]; exact hg

/-! ### one search loop -/

/-- the loop is steered by a condition that holds exactly for the positions below the cut `c` -/
def Steers (all : List Tower) (cont : Int → Node → Bool) (c : Nat) : Prop :=
  ∀ q, 1 ≤ q → q < all.length → (cont (q : Int) (nodeOf all q) = true ↔ q < c)

theorem walk_spec {all : List Tower} {level i c : Nat} {cont : Int → Node → Bool}
    (hok : SpansOK level all) (hi : i < level) (hst : Steers all cont c) (hcl : c ≤ all.length) :
    ∀ fuel x, x < c → i < heightOf all x → c ≤ fuel + x →
      (walk all i cont fuel x (x : Int)).2 = ((walk all i cont fuel x (x : Int)).1 : Int) ∧
      x ≤ (walk all i cont fuel x (x : Int)).1 ∧ (walk all i cont fuel x (x : Int)).1 < c ∧
      i < heightOf all (walk all i cont fuel x (x : Int)).1 ∧
      ∀ q, (walk all i cont fuel x (x : Int)).1 < q → q < c → heightOf all q ≤ i := by
  intro fuel
  induction fuel with
  | zero => intro x hx _ hf; omega
  | succ fuel ih =>
    intro x hx hh hf
    simp only [walk]
    cases hfw : fwd all x i with
    | none =>
      simp only
      exact ⟨by first | rfl | trivial, Nat.le_refl _, hx, hh, fun q h1 h2 => fwd_none hfw q h1 (by omega)⟩
    | some q =>
      simp only
      obtain ⟨hxq, hql, hqh, hbetween, hnext⟩ := fwd_some hfw
      have hxl : x < all.length := by omega
      have hgx : all[x]? = some all[x] := List.getElem?_eq_getElem hxl
      have hsp : spanOf all x i = ((q - x : Nat) : Int) := by
        rw [spanOf_eq hgx, spansOK_get hok hgx (by rw [← heightOf_eq hgx]; exact hh) hi]
        simp [gap, hnext]
      have hr : (x : Int) + spanOf all x i = (q : Int) := by rw [hsp]; omega
      rw [hr]
      by_cases hqc : q < c
      · have hc : cont (q : Int) (nodeOf all q) = true := (hst q (by omega) hql).mpr hqc
        simp only [hc, if_true]
        obtain ⟨r1, r2, r3, r4, r5⟩ := ih q hqc hqh (by omega)
        exact ⟨r1, by omega, r3, r4, r5⟩
      · have hc : ¬ (cont (q : Int) (nodeOf all q) = true) := fun e => hqc ((hst q (by omega) hql).mp e)
        simp only [hc]
        exact ⟨by first | rfl | trivial, Nat.le_refl _, hx, hh, fun q' h1 h2 => hbetween q' h1 (by omega)⟩

/-! ### the descent: `update[i]` and `rank[i]` -/

/-- what the descent yields at level `j`: the last tower below the cut that has level `j`, with its position as rank -/
def IsUpd (all : List Tower) (c j : Nat) (u : Nat) (r : Int) : Prop :=
  r = (u : Int) ∧ u < c ∧ j < heightOf all u ∧ ∀ q, u < q → q < c → heightOf all q ≤ j

theorem isUpd_unique {all : List Tower} {c j u u' : Nat} {r r' : Int} (h : IsUpd all c j u r) (h' : IsUpd all c j u' r') :
    u = u' ∧ r = r' := by
  obtain ⟨e, a, b, d⟩ := h
  obtain ⟨e', a', b', d'⟩ := h'
  have : u = u' := by
    rcases Nat.lt_trichotomy u u' with hlt | heq | hgt
    · have := d u' hlt a'; omega
    · exact heq
    · have := d' u hgt a; omega
  subst this
  exact ⟨rfl, by rw [e, e']⟩

theorem descend_spec {all : List Tower} {level c : Nat} {cont : Int → Node → Bool}
    (hok : SpansOK level all) (hst : Steers all cont c) (hcl : c ≤ all.length) :
    ∀ i, i ≤ level → ∀ x, x < c → i ≤ heightOf all x →
      (descend all cont i x (x : Int)).length = i ∧
      ∀ j, j < i → IsUpd all c j ((descend all cont i x (x : Int)).getD j (0, 0)).1 ((descend all cont i x (x : Int)).getD j (0, 0)).2 ∧
        x ≤ ((descend all cont i x (x : Int)).getD j (0, 0)).1 := by
  intro i
  induction i with
  | zero => intro _ x _ _; exact ⟨rfl, fun j hj => by omega⟩
  | succ i ih =>
    intro hil x hx hh
    simp only [descend]
    obtain ⟨w1, w2, w3, w4, w5⟩ := walk_spec hok (show i < level by omega) hst hcl all.length x hx (by omega) (by omega)
    generalize hw : walk all i cont all.length x (x : Int) = w at w1 w2 w3 w4 w5
    obtain ⟨x', r'⟩ := w
    simp only at w1 w2 w3 w4 w5
    subst w1
    obtain ⟨l1, l2⟩ := ih (by omega) x' w3 (by omega)
    refine ⟨by simp [l1], ?_⟩
    intro j hj
    by_cases hji : j < i
    · have e : (descend all cont i x' (x' : Int) ++ [(x', (x' : Int))]).getD j (0, 0) = (descend all cont i x' (x' : Int)).getD j (0, 0) := by
        simp only [List.getD_eq_getElem?_getD]
        rw [List.getElem?_append_left (by omega)]
      rw [e]
      exact ⟨(l2 j hji).1, by have := (l2 j hji).2; omega⟩
    · have hje : j = i := by omega
      subst hje
      have e : (descend all cont j x' (x' : Int) ++ [(x', (x' : Int))]).getD j (0, 0) = (x', (x' : Int)) := by
        simp only [List.getD_eq_getElem?_getD]
        rw [List.getElem?_append_right (by omega)]
        simp [l1]
      rw [e]
      exact ⟨⟨rfl, w3, w4, w5⟩, w2⟩

end NutsProofs.SkipL
