/-
  NutsProofs.Facts — expectations about the facts that tools/extract regenerates from /repo on every
  run (NutsGen.Facts). Each is closed by `decide` over the generated data: when the code changes one
  of these facts, the theorem stops checking and the properties that rely on it report a broken
  obligation.
-/
import NutsGen.Facts
import Nuts.Model.DB
import Nuts.Model.Tx
import Nuts.Model.BPTree
namespace NutsProofs.Facts
open NutsGen.F

def lookup (l : List (String × Int)) (k : String) : Option Int := (l.find? (·.1 == k)).map (·.2)

/-- the model's record flags, structure codes, statuses and header size are the code's -/
theorem consts_ok :
    lookup consts "DataDeleteFlag" = some (Nuts.Model.DB.flagDelete : Nat) ∧
    lookup consts "DataSetFlag" = some (Nuts.Model.DB.flagSet : Nat) ∧
    lookup consts "DataLPushFlag" = some (Nuts.Model.DB.flagLPush : Nat) ∧
    lookup consts "DataRPushFlag" = some (Nuts.Model.DB.flagRPush : Nat) ∧
    lookup consts "DataLRemFlag" = some (Nuts.Model.DB.flagLRem : Nat) ∧
    lookup consts "DataLPopFlag" = some (Nuts.Model.DB.flagLPop : Nat) ∧
    lookup consts "DataRPopFlag" = some (Nuts.Model.DB.flagRPop : Nat) ∧
    lookup consts "DataLSetFlag" = some (Nuts.Model.DB.flagLSet : Nat) ∧
    lookup consts "DataLTrimFlag" = some (Nuts.Model.DB.flagLTrim : Nat) ∧
    lookup consts "DataZAddFlag" = some (Nuts.Model.DB.flagZAdd : Nat) ∧
    lookup consts "DataZRemFlag" = some (Nuts.Model.DB.flagZRem : Nat) ∧
    lookup consts "DataZRemRangeByRankFlag" = some (Nuts.Model.DB.flagZRemRangeByRank : Nat) ∧
    lookup consts "DataZPopMaxFlag" = some (Nuts.Model.DB.flagZPopMax : Nat) ∧
    lookup consts "DataZPopMinFlag" = some (Nuts.Model.DB.flagZPopMin : Nat) ∧
    lookup consts "DataStructureSet" = some (Nuts.Model.DB.dsSet : Nat) ∧
    lookup consts "DataStructureSortedSet" = some (Nuts.Model.DB.dsZSet : Nat) ∧
    lookup consts "DataStructureBPTree" = some (Nuts.Model.DB.dsKV : Nat) ∧
    lookup consts "DataStructureList" = some (Nuts.Model.DB.dsList : Nat) ∧
    lookup consts "DataEntryHeaderSize" = some (Nuts.Model.DB.headerSize : Nat) ∧
    lookup consts "UnCommitted" = some 0 ∧ lookup consts "Committed" = some 1 ∧
    lookup consts "Persistent" = some 0 ∧ lookup consts "ScanNoLimit" = some (-1) ∧
    lookup consts "order" = some 8 ∧
    lookup consts "HintKeyValAndRAMIdxMode" = some 0 ∧ lookup consts "HintKeyAndRAMIdxMode" = some 1 ∧
    lookup consts "HintBPTSparseIdxMode" = some 2 ∧ lookup consts "FileIO" = some 0 ∧ lookup consts "MMap" = some 1 := by
  decide

theorem separators_ok :
    (sconsts.find? (·.1 == "SeparatorForListKey")).map (·.2) = some "|" ∧
    (sconsts.find? (·.1 == "SeparatorForZSetKey")).map (·.2) = some "|" ∧
    (sconsts.find? (·.1 == "DataSuffix")).map (·.2) = some ".dat" := by
  decide

/-- **`isFilterEntry`, regenerated.** The model's `isFilter` (which records Merge never rewrites) is the
kernel that `tools/extract` regenerates from the SSA of `DB.isFilterEntry`, with every flag load bound to the
record's flag and the call of `IsExpired` bound to the model's `isExpired` (itself the regenerated `IsExpired`
kernel): a flag added to or dropped from the test, or a changed expiry condition, breaks this theorem. -/
theorem isFilter_is_kernel (r : Nuts.Model.DB.Rec) (now : Nat) :
    Nuts.Model.DB.isFilter r now =
      ((NutsGen.K.db_isFilterEntry.run r.flag r.ttl r.ts (Nuts.Model.DB.isExpired r.ttl r.ts now)
          r.flag r.flag r.flag r.flag r.flag r.flag r.flag r.flag).vals == [1]) := by
  unfold Nuts.Model.DB.isFilter NutsGen.K.db_isFilterEntry.run
  simp only [Nuts.Model.DB.flagDelete, Nuts.Model.DB.flagRPop, Nuts.Model.DB.flagLPop, Nuts.Model.DB.flagLRem,
    Nuts.Model.DB.flagLTrim, Nuts.Model.DB.flagZRem, Nuts.Model.DB.flagZRemRangeByRank, Nuts.Model.DB.flagZPopMax,
    Nuts.Model.DB.flagZPopMin]
  by_cases h0 : r.flag = 0
  · simp [h0]
  · by_cases h6 : r.flag = 6
    · simp [h6]
    · by_cases h5 : r.flag = 5
      · simp [h5]
      · by_cases h4 : r.flag = 4
        · simp [h4]
        · by_cases h8 : r.flag = 8
          · simp [h8]
          · by_cases h10 : r.flag = 10
            · simp [h10]
            · by_cases h11 : r.flag = 11
              · simp [h11]
              · by_cases h12 : r.flag = 12
                · simp [h12]
                · by_cases h13 : r.flag = 13
                  · simp [h13]
                  · have e0 : ¬ ((r.flag : Int) = 0) := by omega
                    have e6 : ¬ ((r.flag : Int) = 6) := by omega
                    have e5 : ¬ ((r.flag : Int) = 5) := by omega
                    have e4 : ¬ ((r.flag : Int) = 4) := by omega
                    have e8 : ¬ ((r.flag : Int) = 8) := by omega
                    have e10 : ¬ ((r.flag : Int) = 10) := by omega
                    have e11 : ¬ ((r.flag : Int) = 11) := by omega
                    have e12 : ¬ ((r.flag : Int) = 12) := by omega
                    have e13 : ¬ ((r.flag : Int) = 13) := by omega
                    simp only [e0, e6, e5, e4, e8, e10, e11, e12, e13, if_false]
                    have b0 : (r.flag == 0) = false := by simpa using h0
                    have b6 : (r.flag == 6) = false := by simpa using h6
                    have b5 : (r.flag == 5) = false := by simpa using h5
                    have b4 : (r.flag == 4) = false := by simpa using h4
                    have b8 : (r.flag == 8) = false := by simpa using h8
                    have b10 : (r.flag == 10) = false := by simpa using h10
                    have b11 : (r.flag == 11) = false := by simpa using h11
                    have b12 : (r.flag == 12) = false := by simpa using h12
                    have b13 : (r.flag == 13) = false := by simpa using h13
                    simp only [b0, b6, b5, b4, b8, b10, b11, b12, b13, Bool.false_or]
                    cases Nuts.Model.DB.isExpired r.ttl r.ts now <;> simp

/-- **the split points of the B+ tree, regenerated.** `Nuts.Model.BPTree` splits a full leaf (`order` = 8
entries) 4 / 4 and a full inner node (8 keys) 4 / up / 3; both 4s are `getSplitIndex` — of `order` for a leaf,
of `order - 1` for an inner node — evaluated on the kernel regenerated from bptree.go, with `order` the
regenerated constant. -/
theorem bptree_split_points :
    lookup consts "order" = some 8 ∧ (NutsGen.K.getSplitIndex.run 8).vals = [4] ∧ (NutsGen.K.getSplitIndex.run 7).vals = [4] ∧
    Nuts.Model.BPTree.maxKeys = 7 := by
  decide

end NutsProofs.Facts
