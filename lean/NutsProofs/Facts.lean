/-
  NutsProofs.Facts — expectations about the facts that tools/extract regenerates from /repo on every
  run (NutsGen.Facts). Each is closed by `decide` over the generated data: when the code changes one
  of these facts, the theorem stops checking and the properties that rely on it report a broken
  obligation.
-/
import NutsGen.Facts
import Nuts.Model.DB
import Nuts.Model.Tx
import Nuts.Model.BPTree
namespace NutsProofs.Facts
open NutsGen.F

def lookup (l : List (String × Int)) (k : String) : Option Int := (l.find? (·.1 == k)).map (·.2)

/-- the model's record flags, structure codes, statuses and header size are the code's -/
theorem consts_ok :
    lookup consts "DataDeleteFlag" = some (Nuts.Model.DB.flagDelete : Nat) ∧
    lookup consts "DataSetFlag" = some (Nuts.Model.DB.flagSet : Nat) ∧
    lookup consts "DataLPushFlag" = some (Nuts.Model.DB.flagLPush : Nat) ∧
    lookup consts "DataRPushFlag" = some (Nuts.Model.DB.flagRPush : Nat) ∧
    lookup consts "DataLRemFlag" = some (Nuts.Model.DB.flagLRem : Nat) ∧
    lookup consts "DataLPopFlag" = some (Nuts.Model.DB.flagLPop : Nat) ∧
    lookup consts "DataRPopFlag" = some (Nuts.Model.DB.flagRPop : Nat) ∧
    lookup consts "DataLSetFlag" = some (Nuts.Model.DB.flagLSet : Nat) ∧
    lookup consts "DataLTrimFlag" = some (Nuts.Model.DB.flagLTrim : Nat) ∧
    lookup consts "DataZAddFlag" = some (Nuts.Model.DB.flagZAdd : Nat) ∧
    lookup consts "DataZRemFlag" = some (Nuts.Model.DB.flagZRem : Nat) ∧
    lookup consts "DataZRemRangeByRankFlag" = some (Nuts.Model.DB.flagZRemRangeByRank : Nat) ∧
    lookup consts "DataZPopMaxFlag" = some (Nuts.Model.DB.flagZPopMax : Nat) ∧
    lookup consts "DataZPopMinFlag" = some (Nuts.Model.DB.flagZPopMin : Nat) ∧
    lookup consts "DataStructureSet" = some (Nuts.Model.DB.dsSet : Nat) ∧
    lookup consts "DataStructureSortedSet" = some (Nuts.Model.DB.dsZSet : Nat) ∧
    lookup consts "DataStructureBPTree" = some (Nuts.Model.DB.dsKV : Nat) ∧
    lookup consts "DataStructureList" = some (Nuts.Model.DB.dsList : Nat) ∧
    lookup consts "DataEntryHeaderSize" = some (Nuts.Model.DB.headerSize : Nat) ∧
    lookup consts "UnCommitted" = some 0 ∧ lookup consts "Committed" = some 1 ∧
    lookup consts "Persistent" = some 0 ∧ lookup consts "ScanNoLimit" = some (-1) ∧
    lookup consts "order" = some 8 ∧
    lookup consts "HintKeyValAndRAMIdxMode" = some 0 ∧ lookup consts "HintKeyAndRAMIdxMode" = some 1 ∧
    lookup consts "HintBPTSparseIdxMode" = some 2 ∧ lookup consts "FileIO" = some 0 ∧ lookup consts "MMap" = some 1 := by
  decide

theorem separators_ok :
    (sconsts.find? (·.1 == "SeparatorForListKey")).map (·.2) = some "|" ∧
    (sconsts.find? (·.1 == "SeparatorForZSetKey")).map (·.2) = some "|" ∧
    (sconsts.find? (·.1 == "DataSuffix")).map (·.2) = some ".dat" := by
  decide

/-! ### Commit structure (C10, C11, C12) -/

def items (k : String) : List (String × String × String) := commitLoop.filter (·.1 == k)

/-- the commit marker is assigned in exactly one place, under `i == lastIndex`, before the write -/
theorem commit_marker_last_only :
    items "status" = [("status", "i == lastIndex", "entry.Meta.status = Committed")] ∧
    (commitLoop.findIdx? (·.1 == "status")).isSome ∧
    (commitLoop.findIdx? (·.1 == "status")).getD 99 < (commitLoop.findIdx? (·.1 == "write")).getD 0 := by
  decide

/-- one unconditional write per record; the next step that is not its error return is the sync,
guarded by exactly `SyncEnable`; offsets advance only afterwards -/
theorem commit_sync_follows_write :
    items "write" = [("write", "", "tx.db.ActiveFile.WriteAt(entry.Encode(), tx.db.ActiveFile.writeOff)")] ∧
    items "sync" = [("sync", "tx.db.opt.SyncEnable", "tx.db.ActiveFile.rwManager.Sync()")] ∧
    (((commitLoop.dropWhile (·.1 != "write")).map (·.1)).take 4) = ["write", "return", "sync", "return"] ∧
    (commitLoop.findIdx? (·.1 == "sync")).getD 99 < (commitLoop.findIdx? (·.1 == "advance")).getD 0 := by
  decide

/-- the transaction id is recorded as committed only for the last record and only after its write -/
theorem commit_ids_after_last_write :
    items "committedIds" = [("committedIds", "i == lastIndex && !(tx.db.opt.EntryIdxMode == HintBPTSparseIdxMode)", "tx.db.committedTxIds[txID]")] ∧
    (commitLoop.findIdx? (·.1 == "write")).getD 99 < (commitLoop.findIdx? (·.1 == "committedIds")).getD 0 := by
  decide

/-- the size tests: an entry larger than the segment is refused before anything else happens to it;
rotation exactly when the record does not fit in the active file -/
theorem commit_size_tests :
    commitLoop.head? = some ("return", "entrySize > tx.db.opt.SegmentSize", "return ErrKeyAndValSize") ∧
    items "rotate" = [("rotate", "tx.db.ActiveFile.ActualSize+entrySize > tx.db.opt.SegmentSize", "tx.rotateActiveFile()")] := by
  decide

/-- KV records are indexed inside the loop (this is what makes finding D-COMMIT-PARTIAL possible) -/
theorem commit_indexes_kv_in_loop :
    items "indexKV" = [("indexKV", "entry.Meta.ds == DataStructureBPTree", "tx.buildBPTreeIdx(bucket, entry, e, off, countFlag)")] := by
  decide

/-! ### Open / mode check (C22) -/

theorem mode_refusals_ok :
    modeRefusals = ["db.opt.EntryIdxMode != HintBPTSparseIdxMode && hasDataFlag && hasBptDirFlag",
                    "db.opt.EntryIdxMode == HintBPTSparseIdxMode && hasBptDirFlag == false && hasDataFlag == true"] := by
  decide

/-- the mode check runs before any of the sparse-mode directories is created and before indexes are built -/
theorem open_check_first :
    openOrder = ["mkdir db.opt.Dir", "check", "mkdir bptRootIdxDir", "mkdir bptTxIDIdxDir", "mkdir bucketMetaDir", "buildIndexes"] := by
  decide

/-! ### Closed checks (C20, C12) -/

/-- exported Tx methods that dereference `tx.db` without first calling `checkTxIsClosed`:
`Commit`/`Rollback` test `tx.db == nil` themselves (the extractor's path-insensitive rule does not
see that). The three `Find*OnDisk` helpers used to be on this list and panicked on a finished
transaction (finding D-PANIC-ONDISK, fixed in /repo 3a8ee2e). -/
def closedExceptions : List String := ["Commit", "Rollback"]

theorem closed_checks_ok :
    (closedChecks.filter (fun p => !p.2)).map (·.1) = closedExceptions := by
  decide

/-! ### Codec layouts (C21) -/

def fieldsOf (l : List (String × Nat × Nat × Nat)) : List (Nat × Nat × Nat) := l.map fun (_, a, b, w) => (a, b, w)

/-- encoder and decoder agree on every header field of the three codecs -/
theorem layouts_agree :
    fieldsOf entryEnc = fieldsOf entryDec ∧ fieldsOf metaEnc = fieldsOf metaDec ∧ fieldsOf rootEnc = fieldsOf rootDec := by
  decide

/-- every field's slice has the width of its integer type, fields are disjoint and cover the header -/
def wf (l : List (String × Nat × Nat × Nat)) (size : Nat) : Bool :=
  l.all (fun (_, a, b, w) => a + w == b && b ≤ size) &&
  (l.map fun (_, _, _, w) => w).sum == size &&
  l.all fun (n1, a1, b1, _) => l.all fun (n2, a2, b2, _) => n1 == n2 || b1 ≤ a2 || b2 ≤ a1

theorem layouts_wf : wf entryEnc 42 = true ∧ wf metaEnc 12 = true ∧ wf rootEnc 28 = true := by
  decide

/-- the checksum covers everything after the crc field, then the payloads in storage order -/
theorem crc_coverage_ok :
    entryCrcEnc = ["buf[4:]"] ∧ entryCrcDec = ["buf[4:]", "e.Meta.bucket", "e.Key", "e.Value"] ∧
    metaCrcEnc = ["buf[4:]"] ∧ metaCrcDec = ["buf[4:]", "bm.start", "bm.end"] ∧
    rootCrcEnc = ["buf[4:]"] ∧ rootCrcDec = ["buf[4:]", "bri.start", "bri.end"] := by
  decide

/-! ### Locks and effects (C14, C17, C18) -/

def eff (r m : String) : List String × List String :=
  ((effects.find? fun p => p.1 == r && p.2.1 == m).map (·.2.2)).getD (["<missing>"], ["<missing>"])
def lck (r m : String) : List String × List String :=
  ((lockOps.find? fun p => p.1 == r && p.2.1 == m).map (·.2.2)).getD (["<missing>"], ["<missing>"])

/-- the lock of a transaction is `db.mu`, taken by `Tx.lock` (write or read side) and released by
`Tx.unlock`; among the exported methods only `DB.Begin` (and what calls it) acquires, only `Commit` and
`Rollback` release; no other `Tx` method touches a mutex -/
theorem lock_protocol_ok :
    lockPrims = [("Tx.lock", ["DB.mu.Lock", "DB.mu.RLock"]), ("Tx.unlock", ["DB.mu.RUnlock", "DB.mu.Unlock"])] ∧
    lck "Tx" "Commit" = (["DB.mu.RUnlock", "DB.mu.Unlock"], []) ∧ lck "Tx" "Rollback" = (["DB.mu.RUnlock", "DB.mu.Unlock"], []) ∧
    (lockOps.filter fun p => p.1 == "Tx" && !(p.2.2.1.isEmpty && p.2.2.2.isEmpty)).map (·.2.1) = ["Commit", "Rollback"] ∧
    (lck "DB" "Begin").1 = ["DB.mu.Lock", "DB.mu.RLock", "DB.mu.RUnlock", "DB.mu.Unlock"] := by
  decide

/-- methods of `Tx` other than Commit/Rollback that may write a shared location, with what they may write.
Everything else — every read, and every mutating call, which only appends to the transaction's own
pending list — writes nothing shared (**ReadPure**). The listed ones:
  * (until fix 797db8f the sparse-mode scans were listed too: they sorted `db.BPTreeRootIdxes` in place,
    finding D-SORTFID; they sort a copy now, and the analysis charges a sort to the call site only when
    the slice is not one the caller made);
  * `SMove*`: mutate the committed set index (finding D-SMOVE);
  * `ZRangeByRank`: an imprecision of the flow-insensitive analysis — `GetByRankRange(start, end, remove)`
    contains the removal code, which `ZRangeByRank` disables by passing `remove = false`. -/
def impureTxMethods : List (String × List String) := [
  ("SMoveByOneBucket", ["Set.M{}", "map{}"]), ("SMoveByTwoBuckets", ["Set.M{}", "map{}"]),
  ("ZRangeByRank", ["SortedSet.Dict{}", "SortedSet.length", "SortedSet.level", "SortedSet.tail", "SortedSetLevel.forward",
    "SortedSetLevel.span", "SortedSetNode.backward"])]

theorem read_pure_except :
    ((effects.filter fun p => p.1 == "Tx" && p.2.1 != "Commit" && p.2.1 != "Rollback" && !(p.2.2.1.isEmpty && p.2.2.2.isEmpty)).map
      fun p => (p.2.1, p.2.2.1)) = impureTxMethods ∧
    (effects.filter fun p => p.1 == "Tx" && p.2.1 != "Commit" && p.2.1 != "Rollback" && !p.2.2.2.isEmpty) = [] := by
  decide

/-- package-level state written on the commit path: none (the B+ tree writer's `queue`, shared by all
databases of the process, was finding D-QUEUE, fixed in 0158d51); `Begin` touches the transaction-id
registry under its own mutex -/
theorem globals_ok :
    (eff "Tx" "Commit").2 = [] ∧ eff "DB" "Begin" = ([], ["txIDNodes{}"]) ∧
    (lck "DB" "Begin").2 = ["txIDNodesMu.Lock", "txIDNodesMu.Unlock"] := by
  decide

/-- `DB.Merge`'s own body takes no lock and writes `db.isMerging` (everything else it does to shared state
goes through the write transaction of `reWriteData`, but its reads of the indexes and files are unlocked:
finding D-MERGE-NOLOCK) -/
theorem merge_body_ok : mergeBody = (["DB.isMerging"], []) := by decide

/-- everything else Merge does goes through these functions: the file scan (`NewDataFile`, `ReadAt`), the
three tests of an entry, the rewrite transaction (`reWriteData` — the only one that locks), path helpers
and the closing of the scanned file -/
theorem merge_calls_ok :
    mergeCalls = ["DB.getDataPath", "DB.getMaxFileIDAndFileIDs", "DB.getPendingMergeEntries", "DB.getRecordFromKey", "DB.isFilterEntry",
                  "DB.reWriteData", "DataFile.ReadAt", "Entry.Size", "FileIORWManager.Close", "MMapRWManager.Close", "NewDataFile"] := by
  decide

/-- the rewrite transaction of Merge touches the database only after its `db.Begin(true)`: no field of
`*DB` is read or written, and no nutsdb function is called, at a point the call of `Begin` does not dominate
(computed on the SSA of `reWriteData` by dominance) -/
theorem rewrite_under_lock : rewriteUnlocked = [] := by decide

/-- the lines of ds/zset/sortedset.go that `Nuts.Model.Skiplist` was written from: every statement on a span,
on `rank[]`, on `traversed`, every loop over levels, every search-loop condition, every score / forward test -/
def expectedSpanStmts : List (String × String × String) := [
  ("insertNode", "for", "i := ss.level - 1; i >= 0; i--"),
  ("insertNode", "assign", "rank[i] = 0"),
  ("insertNode", "assign", "rank[i] = rank[i+1]"),
  ("insertNode", "while", "x.level[i].forward != nil && (x.level[i].forward.score < score || (x.level[i].forward.score == score && x.level[i].forward.key < key))"),
  ("insertNode", "assign", "rank[i] += x.level[i].span"),
  ("insertNode", "for", "i := ss.level; i < level; i++"),
  ("insertNode", "assign", "rank[i] = 0"),
  ("insertNode", "assign", "update[i].level[i].span = ss.length"),
  ("insertNode", "for", "i := 0; i < level; i++"),
  ("insertNode", "assign", "x.level[i].span = update[i].level[i].span - (rank[0] - rank[i])"),
  ("insertNode", "assign", "update[i].level[i].span = (rank[0] - rank[i]) + 1"),
  ("insertNode", "for", "i := level; i < ss.level; i++"),
  ("insertNode", "incdec", "update[i].level[i].span++"),
  ("insertNode", "if", "x.level[0].forward != nil"),
  ("deleteNode", "for", "i := 0; i < ss.level; i++"),
  ("deleteNode", "if", "update[i].level[i].forward == x"),
  ("deleteNode", "assign", "update[i].level[i].span += x.level[i].span - 1"),
  ("deleteNode", "assign", "update[i].level[i].span -= 1"),
  ("deleteNode", "if", "x.level[0].forward != nil"),
  ("deleteNode", "while", "ss.level > 1 && ss.header.level[ss.level-1].forward == nil"),
  ("delete", "for", "i := ss.level - 1; i >= 0; i--"),
  ("delete", "while", "x.level[i].forward != nil && (x.level[i].forward.score < score || (x.level[i].forward.score == score && x.level[i].forward.key < key))"),
  ("delete", "if", "x != nil && score == x.score && x.key == key"),
  ("Put", "if", "n.score == score"),
  ("searchForward", "for", "i := ss.level - 1; i >= 0; i--"),
  ("searchForward", "while", "x.level[i].forward != nil && x.level[i].forward.score <= start"),
  ("searchForward", "for", "i := ss.level - 1; i >= 0; i--"),
  ("searchForward", "while", "x.level[i].forward != nil && x.level[i].forward.score < start"),
  ("searchForward", "while", "x != nil && limit > 0"),
  ("searchForward", "if", "x.score >= end"),
  ("searchForward", "if", "x.score > end"),
  ("searchReverse", "for", "i := ss.level - 1; i >= 0; i--"),
  ("searchReverse", "while", "x.level[i].forward != nil && x.level[i].forward.score < end"),
  ("searchReverse", "for", "i := ss.level - 1; i >= 0; i--"),
  ("searchReverse", "while", "x.level[i].forward != nil && x.level[i].forward.score <= end"),
  ("searchReverse", "while", "x != nil && limit > 0"),
  ("searchReverse", "if", "x.score <= start"),
  ("searchReverse", "if", "x.score < start"),
  ("GetByRankRange", "assign", "traversed = 0"),
  ("GetByRankRange", "for", "i := ss.level - 1; i >= 0; i--"),
  ("GetByRankRange", "while", "x.level[i].forward != nil && traversed+int(x.level[i].span) < start"),
  ("GetByRankRange", "assign", "traversed += int(x.level[i].span)"),
  ("GetByRankRange", "if", "traversed+1 == start"),
  ("GetByRankRange", "incdec", "traversed++"),
  ("GetByRankRange", "while", "x != nil && traversed <= end"),
  ("GetByRankRange", "incdec", "traversed++"),
  ("FindRank", "for", "i := ss.level - 1; i >= 0; i--"),
  ("FindRank", "while", "x.level[i].forward != nil && (x.level[i].forward.score < node.score || (x.level[i].forward.score == node.score && x.level[i].forward.key <= node.key))"),
  ("FindRank", "assign", "rank += int(x.level[i].span)")]

/-- **the skiplist's span arithmetic and search conditions, regenerated.** The source lines listed above are
the ones in the tree now (same functions, same order, same text): a changed span update, rank accumulation,
loop condition or bound test in ds/zset breaks this obligation. -/
theorem span_arithmetic_ok : spanStmts = expectedSpanStmts := by decide +kernel

/-- the lines of bptree.go that `Nuts.Model.BPTree` was written from: the comparisons of the descent and of the
leaf search, the loop headers, offset / limit counters and stop conditions of the leaf-chain scans, the
capacity tests and split indexes of the insertion -/
def expectedBptStmts : List (String × String × String) := [
  ("FindLeaf", "for", "; !curr.isLeaf; "),
  ("FindLeaf", "for", "; i < curr.KeysNum; "),
  ("FindLeaf", "if", "compare(key, curr.Keys[i]) >= 0"),
  ("getAll", "for", "; n != nil; "),
  ("getAll", "for", "i = j; i < n.KeysNum; i++"),
  ("getAll", "incdec", "numFound++"),
  ("findRange", "for", "j = 0; j < n.KeysNum && compare(n.Keys[j], start) < 0; "),
  ("findRange", "assign", "scanFlag = true"),
  ("findRange", "for", "; n != nil && scanFlag; "),
  ("findRange", "for", "i = j; i < n.KeysNum; i++"),
  ("findRange", "if", "compare(n.Keys[i], end) > 0"),
  ("findRange", "assign", "scanFlag = false"),
  ("findRange", "incdec", "numFound++"),
  ("PrefixScan", "for", "j = 0; j < n.KeysNum && compare(n.Keys[j], prefix) < 0; "),
  ("PrefixScan", "assign", "scanFlag = true"),
  ("PrefixScan", "assign", "numFound = 0"),
  ("PrefixScan", "assign", "coff := 0"),
  ("PrefixScan", "for", "; n != nil && scanFlag; "),
  ("PrefixScan", "for", "i = j; i < n.KeysNum; i++"),
  ("PrefixScan", "if", "!bytes.HasPrefix(n.Keys[i], prefix)"),
  ("PrefixScan", "assign", "scanFlag = false"),
  ("PrefixScan", "if", "coff < offsetNum"),
  ("PrefixScan", "incdec", "coff++"),
  ("PrefixScan", "incdec", "numFound++"),
  ("PrefixScan", "if", "limitNum > 0 && numFound == limitNum"),
  ("PrefixScan", "assign", "scanFlag = false"),
  ("PrefixScan", "assign", "off = coff"),
  ("PrefixSearchScan", "for", "j = 0; j < n.KeysNum && compare(n.Keys[j], prefix) < 0; "),
  ("PrefixSearchScan", "assign", "scanFlag = true"),
  ("PrefixSearchScan", "assign", "numFound = 0"),
  ("PrefixSearchScan", "assign", "coff := 0"),
  ("PrefixSearchScan", "for", "; n != nil && scanFlag; "),
  ("PrefixSearchScan", "for", "i = j; i < n.KeysNum; i++"),
  ("PrefixSearchScan", "if", "!bytes.HasPrefix(n.Keys[i], prefix)"),
  ("PrefixSearchScan", "assign", "scanFlag = false"),
  ("PrefixSearchScan", "if", "coff < offsetNum"),
  ("PrefixSearchScan", "incdec", "coff++"),
  ("PrefixSearchScan", "incdec", "numFound++"),
  ("PrefixSearchScan", "if", "limitNum > 0 && numFound == limitNum"),
  ("PrefixSearchScan", "assign", "scanFlag = false"),
  ("PrefixSearchScan", "assign", "off = coff"),
  ("Find", "for", "i = 0; i < leaf.KeysNum; i++"),
  ("Find", "if", "compare(key, leaf.Keys[i]) == 0"),
  ("Find", "if", "i == leaf.KeysNum"),
  ("startNewTree", "assign", "t.root.KeysNum = 1"),
  ("Insert", "if", "leaf.KeysNum < order-1"),
  ("getSplitIndex", "return", "return length / 2"),
  ("getSplitIndex", "return", "return length/2 + 1"),
  ("splitLeaf", "assign", "tmpKeys := make([][]byte, order)"),
  ("splitLeaf", "assign", "tmpPointers := make([]interface{}, order)"),
  ("splitLeaf", "for", "; i < order-1; "),
  ("splitLeaf", "if", "compare(leaf.Keys[i], key) < 0"),
  ("splitLeaf", "for", "j = 0; j < leaf.KeysNum; j++"),
  ("splitLeaf", "assign", "splitIndex := getSplitIndex(order)"),
  ("splitLeaf", "assign", "leaf.KeysNum = 0"),
  ("splitLeaf", "for", "i = 0; i < splitIndex; i++"),
  ("splitLeaf", "incdec", "leaf.KeysNum++"),
  ("splitLeaf", "for", "i = splitIndex; i < order; i++"),
  ("splitLeaf", "assign", "i = splitIndex"),
  ("splitLeaf", "incdec", "newLeaf.KeysNum++"),
  ("splitLeaf", "if", "leaf.pointers[order-1] != nil"),
  ("splitLeaf", "assign", "newLeaf.pointers[order-1] = leaf.pointers[order-1]"),
  ("splitLeaf", "assign", "leaf.pointers[order-1] = newLeaf"),
  ("insertIntoNewRoot", "incdec", "t.root.KeysNum++"),
  ("insertIntoNode", "for", "i := node.KeysNum; i > leftIndex; i--"),
  ("insertIntoNode", "assign", "i := node.KeysNum"),
  ("insertIntoNode", "incdec", "node.KeysNum++"),
  ("insertIntoParent", "for", "; leftIndex <= left.parent.KeysNum; "),
  ("insertIntoParent", "if", "left.parent.KeysNum < order-1"),
  ("splitParent", "assign", "tmpKeys := make([][]byte, order)"),
  ("splitParent", "assign", "tmpPointers := make([]interface{}, order+1)"),
  ("splitParent", "for", "i = 0; i < node.KeysNum; i++"),
  ("splitParent", "for", "i = 0; i < node.KeysNum+1; i++"),
  ("splitParent", "assign", "splitIndex := getSplitIndex(order - 1)"),
  ("splitParent", "assign", "node.KeysNum = 0"),
  ("splitParent", "for", "i = 0; i < splitIndex; i++"),
  ("splitParent", "incdec", "node.KeysNum++"),
  ("splitParent", "for", "; i < order; i++"),
  ("splitParent", "incdec", "newNode.KeysNum++"),
  ("splitParent", "for", "i = 0; i <= newNode.KeysNum; i++"),
  ("splitParent", "assign", "newKey := tmpKeys[splitIndex]"),
  ("insertIntoLeaf", "for", "; i < leaf.KeysNum; "),
  ("insertIntoLeaf", "if", "compare(key, leaf.Keys[i]) > 0"),
  ("insertIntoLeaf", "for", "j := leaf.KeysNum; j > i; j--"),
  ("insertIntoLeaf", "assign", "j := leaf.KeysNum"),
  ("insertIntoLeaf", "incdec", "leaf.KeysNum++")]

/-- **the B+ tree's comparisons, scan loops and split rules, regenerated.** The source lines listed above are
the ones in the tree now (same functions, same order, same text). -/
theorem bpt_statements_ok : bptStmts = expectedBptStmts := by decide +kernel

/-- the conditions and loop headers of the key/value read path of tx_bptree.go that the models of the RAM modes
(`Nuts.Model.DB`: `get`, `getAll`, `rangeScan`, `prefixScan`, `wrapper`) and of the sparse mode
(`Nuts.Model.Sparse`: `get`, `getOnDisk`, `rangeSelects`, `processEntries`, …) were written from -/
def expectedReadPathStmts : List (String × String × String) := [
  ("getByHintBPTSparseIdxInMem", "if", "err == nil && r != nil"),
  ("getByHintBPTSparseIdxOnDisk", "range", "tx.db.BPTreeRootIdxes"),
  ("getByHintBPTSparseIdxOnDisk", "sort", "SortFID(bptSparseIdxGroup, func(p, q *BPTreeRootIdx) bool { return p.fID > q.fID })"),
  ("getByHintBPTSparseIdxOnDisk", "range", "bptSparseIdxGroup"),
  ("getByHintBPTSparseIdxOnDisk", "if", "compare(newKey, bptSparse.start) >= 0 && compare(newKey, bptSparse.end) <= 0"),
  ("getByHintBPTSparseIdxOnDisk", "if", "err == nil && e != nil"),
  ("getByHintBPTSparseIdxOnDisk", "if", "e.Meta.Flag == DataDeleteFlag || IsExpired(e.Meta.TTL, e.Meta.timestamp)"),
  ("getByHintBPTSparseIdxOnDisk", "if", "!ok"),
  ("getByHintBPTSparseIdx", "if", "entry != nil && err == nil"),
  ("getByHintBPTSparseIdx", "if", "entry.Meta.Flag == DataDeleteFlag || IsExpired(entry.Meta.TTL, entry.Meta.timestamp)"),
  ("getByHintBPTSparseIdx", "if", "entry != nil && err == nil"),
  ("Get", "if", "idxMode == HintBPTSparseIdxMode"),
  ("Get", "if", "idxMode == HintKeyValAndRAMIdxMode || idxMode == HintKeyAndRAMIdxMode"),
  ("Get", "if", "ok"),
  ("Get", "if", "!ok"),
  ("Get", "if", "r.H.meta.Flag == DataDeleteFlag || r.IsExpired()"),
  ("Get", "if", "idxMode == HintKeyValAndRAMIdxMode"),
  ("Get", "if", "idxMode == HintKeyAndRAMIdxMode"),
  ("GetAll", "if", "idxMode == HintBPTSparseIdxMode"),
  ("GetAll", "if", "idxMode == HintKeyValAndRAMIdxMode || idxMode == HintKeyAndRAMIdxMode"),
  ("GetAll", "if", "ok"),
  ("GetAll", "if", "len(entries) == 0"),
  ("RangeScan", "if", "tx.db.opt.EntryIdxMode == HintBPTSparseIdxMode"),
  ("RangeScan", "if", "err == nil && records != nil"),
  ("RangeScan", "range", "records"),
  ("RangeScan", "if", "len(es) == 0"),
  ("RangeScan", "if", "ok"),
  ("RangeScan", "if", "len(es) == 0"),
  ("rangeScanOnDisk", "sort", "SortFID(bptSparseIdxGroup, func(p, q *BPTreeRootIdx) bool { return p.fID > q.fID })"),
  ("rangeScanOnDisk", "range", "bptSparseIdxGroup"),
  ("rangeScanOnDisk", "if", "compare(newStart, bptSparseIdx.start) <= 0 && compare(bptSparseIdx.start, newEnd) <= 0 || compare(newStart, bptSparseIdx.end) <= 0 && compare(bptSparseIdx.end, newEnd) <= 0"),
  ("prefixScanOnDisk", "sort", "SortFID(bptSparseIdxGroup, func(p, q *BPTreeRootIdx) bool { return p.fID > q.fID })"),
  ("prefixScanOnDisk", "range", "bptSparseIdxGroup"),
  ("prefixScanOnDisk", "if", "compare(newPrefix, bptSparseIdx.start) <= 0 || compare(newPrefix, bptSparseIdx.end) <= 0"),
  ("prefixScanOnDisk", "if", "len(result) == limitNum"),
  ("prefixSearchScanOnDisk", "sort", "SortFID(bptSparseIdxGroup, func(p, q *BPTreeRootIdx) bool { return p.fID > q.fID })"),
  ("prefixSearchScanOnDisk", "range", "bptSparseIdxGroup"),
  ("prefixSearchScanOnDisk", "if", "compare(newPrefix, bptSparseIdx.start) <= 0 || compare(newPrefix, bptSparseIdx.end) <= 0"),
  ("prefixSearchScanOnDisk", "if", "len(result) == limitNum"),
  ("processEntriesScanOnDisk", "range", "entriesTemp"),
  ("processEntriesScanOnDisk", "if", "!ok"),
  ("processEntriesScanOnDisk", "range", "keys"),
  ("processEntriesScanOnDisk", "if", "!IsExpired(es[key].Meta.TTL, es[key].Meta.timestamp) && es[key].Meta.Flag != DataDeleteFlag"),
  ("prefixScanByHintBPTSparseIdx", "if", "err == nil && records != nil"),
  ("prefixScanByHintBPTSparseIdx", "range", "records"),
  ("prefixScanByHintBPTSparseIdx", "if", "len(es) == limitNum"),
  ("prefixScanByHintBPTSparseIdx", "if", "leftNum > 0"),
  ("prefixScanByHintBPTSparseIdx", "if", "len(es) == 0"),
  ("prefixSearchScanByHintBPTSparseIdx", "if", "err == nil && records != nil"),
  ("prefixSearchScanByHintBPTSparseIdx", "range", "records"),
  ("prefixSearchScanByHintBPTSparseIdx", "if", "len(es) == limitNum"),
  ("prefixSearchScanByHintBPTSparseIdx", "if", "leftNum > 0"),
  ("prefixSearchScanByHintBPTSparseIdx", "if", "len(es) == 0"),
  ("PrefixScan", "if", "tx.db.opt.EntryIdxMode == HintBPTSparseIdxMode"),
  ("PrefixScan", "if", "ok"),
  ("PrefixScan", "if", "len(es) == 0"),
  ("PrefixSearchScan", "if", "tx.db.opt.EntryIdxMode == HintBPTSparseIdxMode"),
  ("PrefixSearchScan", "if", "ok"),
  ("PrefixSearchScan", "if", "len(es) == 0"),
  ("getHintIdxDataItemsWrapper", "range", "records"),
  ("getHintIdxDataItemsWrapper", "if", "r.H.meta.Flag == DataDeleteFlag || r.IsExpired()"),
  ("getHintIdxDataItemsWrapper", "if", "limitNum > 0 && len(es) < limitNum || limitNum == ScanNoLimit"),
  ("getHintIdxDataItemsWrapper", "if", "idxMode == HintKeyAndRAMIdxMode"),
  ("getHintIdxDataItemsWrapper", "if", "idxMode == HintKeyValAndRAMIdxMode")]

/-- **the read path, regenerated**: dead-record tests, mode dispatch, segment-selection tests, newest-first order,
limit tests — the lines listed above are the ones in the tree now. -/
theorem read_path_ok : readPathStmts = expectedReadPathStmts := by decide +kernel

/-- the lines of tx.go and db.go that `applyKV` / `applyList` / `applySet` / `applyZSet`, `rotate`, `replay` and
`openDB` of `Nuts.Model.DB` (and the sparse commit of `Nuts.Model.Sparse`) were written from: the dispatch on
the record flag, the argument parsing, the structure calls, at Commit and at Open -/
def expectedApplierStmts : List (String × String × String) := [
  ("db.go:getActiveFileWriteOff", "for", "; ; "),
  ("db.go:getActiveFileWriteOff", "call", "db.ActiveFile.ReadAt(int(off))"),
  ("db.go:getActiveFileWriteOff", "if", "item == nil"),
  ("db.go:getActiveFileWriteOff", "call", "item.Size()"),
  ("db.go:getActiveFileWriteOff", "if", "off >= db.opt.SegmentSize"),
  ("db.go:getActiveFileWriteOff", "if", "err == io.EOF"),
  ("db.go:getActiveFileWriteOff", "return", "fmt.Errorf(\"when build activeDataIndex readAt err: %s\", err)"),
  ("db.go:parseDataFiles", "if", "db.opt.EntryIdxMode == HintBPTSparseIdxMode"),
  ("db.go:parseDataFiles", "range", "dataFileIds"),
  ("db.go:parseDataFiles", "call", "int64(dataID)"),
  ("db.go:parseDataFiles", "call", "NewDataFile(db.getDataPath(fID), db.opt.SegmentSize, db.opt.StartFileLoadingMode)"),
  ("db.go:parseDataFiles", "for", "; ; "),
  ("db.go:parseDataFiles", "call", "f.ReadAt(int(off))"),
  ("db.go:parseDataFiles", "if", "entry == nil"),
  ("db.go:parseDataFiles", "if", "db.opt.EntryIdxMode == HintKeyValAndRAMIdxMode"),
  ("db.go:parseDataFiles", "if", "entry.Meta.status == Committed"),
  ("db.go:parseDataFiles", "call", "db.ActiveCommittedTxIdsIdx.Insert([]byte(strconv2.Int64ToStr(int64(entry.Meta.txID))), nil, &Hint{meta: &MetaData{Flag: DataSetFlag}}, CountFlagEnabled)"),
  ("db.go:parseDataFiles", "call", "append(unconfirmedRecords, &Record{ H: &Hint{ key: entry.Key, fileID: fID, meta: entry.Meta, dataPos: uint64(off), }, E: e, })"),
  ("db.go:parseDataFiles", "if", "db.opt.EntryIdxMode == HintBPTSparseIdxMode"),
  ("db.go:parseDataFiles", "call", "entry.Size()"),
  ("db.go:parseDataFiles", "if", "err == io.EOF"),
  ("db.go:parseDataFiles", "if", "off >= db.opt.SegmentSize"),
  ("db.go:parseDataFiles", "call", "f.rwManager.Close()"),
  ("db.go:parseDataFiles", "return", "fmt.Errorf(\"when build hintIndex readAt err: %s\", err)"),
  ("db.go:parseDataFiles", "call", "f.rwManager.Close()"),
  ("db.go:buildBPTreeIdx", "if", "!ok"),
  ("db.go:buildBPTreeIdx", "call", "NewTree()"),
  ("db.go:buildBPTreeIdx", "call", "db.BPTreeIdx[bucket].Insert(r.H.key, r.E, r.H, CountFlagEnabled)"),
  ("db.go:buildBPTreeIdx", "return", "fmt.Errorf(\"when build BPTreeIdx insert index err: %s\", err)"),
  ("db.go:buildActiveBPTreeIdx", "call", "append(newKey, r.H.key...)"),
  ("db.go:buildActiveBPTreeIdx", "call", "db.ActiveBPTreeIdx.Insert(newKey, r.E, r.H, CountFlagEnabled)"),
  ("db.go:buildActiveBPTreeIdx", "return", "fmt.Errorf(\"when build BPTreeIdx insert index err: %s\", err)"),
  ("db.go:buildOtherIdxes", "if", "r.H.meta.ds == DataStructureSet"),
  ("db.go:buildOtherIdxes", "call", "db.buildSetIdx(bucket, r)"),
  ("db.go:buildOtherIdxes", "if", "r.H.meta.ds == DataStructureSortedSet"),
  ("db.go:buildOtherIdxes", "call", "db.buildSortedSetIdx(bucket, r)"),
  ("db.go:buildOtherIdxes", "if", "r.H.meta.ds == DataStructureList"),
  ("db.go:buildOtherIdxes", "call", "db.buildListIdx(bucket, r)"),
  ("db.go:buildHintIdx", "call", "db.parseDataFiles(dataFileIds)"),
  ("db.go:buildHintIdx", "if", "len(unconfirmedRecords) == 0"),
  ("db.go:buildHintIdx", "range", "unconfirmedRecords"),
  ("db.go:buildHintIdx", "if", "ok"),
  ("db.go:buildHintIdx", "if", "r.H.meta.ds == DataStructureBPTree"),
  ("db.go:buildHintIdx", "if", "db.opt.EntryIdxMode == HintBPTSparseIdxMode"),
  ("db.go:buildHintIdx", "call", "db.buildActiveBPTreeIdx(r)"),
  ("db.go:buildHintIdx", "call", "db.buildBPTreeIdx(bucket, r)"),
  ("db.go:buildHintIdx", "call", "db.buildOtherIdxes(bucket, r)"),
  ("db.go:buildHintIdx", "if", "HintBPTSparseIdxMode == db.opt.EntryIdxMode"),
  ("db.go:buildHintIdx", "call", "db.buildBPTreeRootIdxes(dataFileIds)"),
  ("db.go:buildSetIdx", "if", "!ok"),
  ("db.go:buildSetIdx", "call", "set.New()"),
  ("db.go:buildSetIdx", "if", "r.E == nil"),
  ("db.go:buildSetIdx", "if", "r.H.meta.Flag == DataSetFlag"),
  ("db.go:buildSetIdx", "call", "db.SetIdx[bucket].SAdd(string(r.E.Key), r.E.Value)"),
  ("db.go:buildSetIdx", "return", "fmt.Errorf(\"when build SetIdx SAdd index err: %s\", err)"),
  ("db.go:buildSetIdx", "if", "r.H.meta.Flag == DataDeleteFlag"),
  ("db.go:buildSetIdx", "call", "db.SetIdx[bucket].SRem(string(r.E.Key), r.E.Value)"),
  ("db.go:buildSortedSetIdx", "if", "!ok"),
  ("db.go:buildSortedSetIdx", "call", "zset.New()"),
  ("db.go:buildSortedSetIdx", "if", "r.E == nil"),
  ("db.go:buildSortedSetIdx", "if", "r.H.meta.Flag == DataZAddFlag"),
  ("db.go:buildSortedSetIdx", "call", "strings.Split(string(r.E.Key), SeparatorForZSetKey)"),
  ("db.go:buildSortedSetIdx", "if", "len(keyAndScore) == 2"),
  ("db.go:buildSortedSetIdx", "call", "strconv2.StrToFloat64(keyAndScore[1])"),
  ("db.go:buildSortedSetIdx", "call", "db.SortedSetIdx[bucket].Put(key, zset.SCORE(score), r.E.Value)"),
  ("db.go:buildSortedSetIdx", "if", "r.H.meta.Flag == DataZRemFlag"),
  ("db.go:buildSortedSetIdx", "call", "db.SortedSetIdx[bucket].Remove(string(r.E.Key))"),
  ("db.go:buildSortedSetIdx", "if", "r.H.meta.Flag == DataZRemRangeByRankFlag"),
  ("db.go:buildSortedSetIdx", "call", "strconv2.StrToInt(string(r.E.Key))"),
  ("db.go:buildSortedSetIdx", "call", "strconv2.StrToInt(string(r.E.Value))"),
  ("db.go:buildSortedSetIdx", "call", "db.SortedSetIdx[bucket].GetByRankRange(start, end, true)"),
  ("db.go:buildSortedSetIdx", "if", "r.H.meta.Flag == DataZPopMaxFlag"),
  ("db.go:buildSortedSetIdx", "call", "db.SortedSetIdx[bucket].PopMax()"),
  ("db.go:buildSortedSetIdx", "if", "r.H.meta.Flag == DataZPopMinFlag"),
  ("db.go:buildSortedSetIdx", "call", "db.SortedSetIdx[bucket].PopMin()"),
  ("db.go:buildListIdx", "if", "!ok"),
  ("db.go:buildListIdx", "call", "list.New()"),
  ("db.go:buildListIdx", "if", "r.E == nil"),
  ("db.go:buildListIdx", "switch", "r.H.meta.Flag"),
  ("db.go:buildListIdx", "case", "DataLPushFlag"),
  ("db.go:buildListIdx", "call", "db.ListIdx[bucket].LPush(string(r.E.Key), r.E.Value)"),
  ("db.go:buildListIdx", "case", "DataRPushFlag"),
  ("db.go:buildListIdx", "call", "db.ListIdx[bucket].RPush(string(r.E.Key), r.E.Value)"),
  ("db.go:buildListIdx", "case", "DataLRemFlag"),
  ("db.go:buildListIdx", "call", "strings.SplitN(string(r.E.Value), SeparatorForListKey, 2)"),
  ("db.go:buildListIdx", "call", "strconv2.StrToInt(countAndValueIndex[0])"),
  ("db.go:buildListIdx", "call", "[]byte(countAndValueIndex[1])"),
  ("db.go:buildListIdx", "call", "db.ListIdx[bucket].LRem(string(r.E.Key), count, value)"),
  ("db.go:buildListIdx", "case", "DataLPopFlag"),
  ("db.go:buildListIdx", "call", "db.ListIdx[bucket].LPop(string(r.E.Key))"),
  ("db.go:buildListIdx", "case", "DataRPopFlag"),
  ("db.go:buildListIdx", "call", "db.ListIdx[bucket].RPop(string(r.E.Key))"),
  ("db.go:buildListIdx", "case", "DataLSetFlag"),
  ("db.go:buildListIdx", "call", "strings.Split(string(r.E.Key), SeparatorForListKey)"),
  ("db.go:buildListIdx", "call", "strconv2.StrToInt(keyAndIndex[1])"),
  ("db.go:buildListIdx", "call", "db.ListIdx[bucket].LSet(newKey, index, r.E.Value)"),
  ("db.go:buildListIdx", "case", "DataLTrimFlag"),
  ("db.go:buildListIdx", "call", "strings.Split(string(r.E.Key), SeparatorForListKey)"),
  ("db.go:buildListIdx", "call", "strconv2.StrToInt(keyAndStartIndex[1])"),
  ("db.go:buildListIdx", "call", "strconv2.StrToInt(string(r.E.Value))"),
  ("db.go:buildListIdx", "call", "db.ListIdx[bucket].Ltrim(newKey, start, end)"),
  ("tx.go:buildTempBucketMetaIdx", "call", "uint32(len(key))"),
  ("tx.go:buildTempBucketMetaIdx", "if", "bucketMetaTemp.start == nil"),
  ("tx.go:buildTempBucketMetaIdx", "if", "compare(bucketMetaTemp.start, key) > 0"),
  ("tx.go:buildTempBucketMetaIdx", "if", "compare(bucketMetaTemp.end, key) < 0"),
  ("tx.go:buildBucketMetaIdx", "call", "uint32(len(start))"),
  ("tx.go:buildBucketMetaIdx", "call", "uint32(len(end))"),
  ("tx.go:buildBucketMetaIdx", "if", "!ok"),
  ("tx.go:buildBucketMetaIdx", "if", "compare(bucketMeta.start, bucketMetaTemp.start) > 0"),
  ("tx.go:buildBucketMetaIdx", "if", "compare(bucketMeta.end, bucketMetaTemp.end) < 0"),
  ("tx.go:buildBucketMetaIdx", "if", "updateFlag"),
  ("tx.go:buildBucketMetaIdx", "call", "os.OpenFile(tx.db.getBucketMetaFilePath(bucket), os.O_CREATE|os.O_RDWR, 0644)"),
  ("tx.go:buildBucketMetaIdx", "call", "fd.WriteAt(bucketMeta.Encode(), 0)"),
  ("tx.go:buildBucketMetaIdx", "if", "tx.db.opt.SyncEnable"),
  ("tx.go:buildBucketMetaIdx", "call", "fd.Sync()"),
  ("tx.go:buildTxIDRootIdx", "call", "strconv2.IntToStr(int(txID))"),
  ("tx.go:buildTxIDRootIdx", "call", "tx.db.ActiveCommittedTxIdsIdx.Insert([]byte(txIDStr), nil, &Hint{meta: &MetaData{Flag: DataSetFlag}}, countFlag)"),
  ("tx.go:buildTxIDRootIdx", "if", "len(tx.ReservedStoreTxIDIdxes) > 0"),
  ("tx.go:buildTxIDRootIdx", "range", "tx.ReservedStoreTxIDIdxes"),
  ("tx.go:buildTxIDRootIdx", "call", "tx.db.getBPTTxIDPath(fID)"),
  ("tx.go:buildTxIDRootIdx", "call", "txIDIdx.Insert([]byte(txIDStr), nil, &Hint{meta: &MetaData{Flag: DataSetFlag}}, countFlag)"),
  ("tx.go:buildTxIDRootIdx", "call", "txIDIdx.WriteNodes(tx.db.opt.RWMode, tx.db.opt.SyncEnable, 2)"),
  ("tx.go:buildTxIDRootIdx", "call", "tx.db.getBPTRootTxIDPath(fID)"),
  ("tx.go:buildTxIDRootIdx", "call", "NewTree()"),
  ("tx.go:buildTxIDRootIdx", "call", "strconv2.Int64ToStr(txIDIdx.root.Address)"),
  ("tx.go:buildTxIDRootIdx", "call", "txIDRootIdx.Insert([]byte(rootAddress), nil, &Hint{meta: &MetaData{Flag: DataSetFlag}}, countFlag)"),
  ("tx.go:buildTxIDRootIdx", "call", "txIDRootIdx.WriteNodes(tx.db.opt.RWMode, tx.db.opt.SyncEnable, 2)"),
  ("tx.go:buildIdxes", "for", "i := 0; i < writesLen; i++"),
  ("tx.go:buildIdxes", "if", "entry.Meta.ds == DataStructureSet"),
  ("tx.go:buildIdxes", "call", "tx.buildSetIdx(bucket, entry)"),
  ("tx.go:buildIdxes", "if", "entry.Meta.ds == DataStructureSortedSet"),
  ("tx.go:buildIdxes", "call", "tx.buildSortedSetIdx(bucket, entry)"),
  ("tx.go:buildIdxes", "if", "entry.Meta.ds == DataStructureList"),
  ("tx.go:buildIdxes", "call", "tx.buildListIdx(bucket, entry)"),
  ("tx.go:buildBPTreeIdx", "if", "tx.db.opt.EntryIdxMode == HintBPTSparseIdxMode"),
  ("tx.go:buildBPTreeIdx", "call", "[]byte(bucket)"),
  ("tx.go:buildBPTreeIdx", "call", "append(newKey, entry.Key...)"),
  ("tx.go:buildBPTreeIdx", "call", "tx.db.ActiveBPTreeIdx.Insert(newKey, e, &Hint{ fileID: tx.db.ActiveFile.fileID, key: newKey, meta: entry.Meta, dataPos: uint64(off), }, countFlag)"),
  ("tx.go:buildBPTreeIdx", "if", "!ok"),
  ("tx.go:buildBPTreeIdx", "call", "NewTree()"),
  ("tx.go:buildBPTreeIdx", "if", "tx.db.BPTreeIdx[bucket] == nil"),
  ("tx.go:buildBPTreeIdx", "call", "NewTree()"),
  ("tx.go:buildBPTreeIdx", "call", "tx.db.BPTreeIdx[bucket].Insert(entry.Key, e, &Hint{ fileID: tx.db.ActiveFile.fileID, key: entry.Key, meta: entry.Meta, dataPos: uint64(off), }, countFlag)"),
  ("tx.go:buildSetIdx", "if", "!ok"),
  ("tx.go:buildSetIdx", "call", "set.New()"),
  ("tx.go:buildSetIdx", "if", "entry.Meta.Flag == DataDeleteFlag"),
  ("tx.go:buildSetIdx", "call", "tx.db.SetIdx[bucket].SRem(string(entry.Key), entry.Value)"),
  ("tx.go:buildSetIdx", "if", "entry.Meta.Flag == DataSetFlag"),
  ("tx.go:buildSetIdx", "call", "tx.db.SetIdx[bucket].SAdd(string(entry.Key), entry.Value)"),
  ("tx.go:buildSortedSetIdx", "if", "!ok"),
  ("tx.go:buildSortedSetIdx", "call", "zset.New()"),
  ("tx.go:buildSortedSetIdx", "switch", "entry.Meta.Flag"),
  ("tx.go:buildSortedSetIdx", "case", "DataZAddFlag"),
  ("tx.go:buildSortedSetIdx", "call", "strings.Split(string(entry.Key), SeparatorForZSetKey)"),
  ("tx.go:buildSortedSetIdx", "call", "strconv2.StrToFloat64(keyAndScore[1])"),
  ("tx.go:buildSortedSetIdx", "call", "tx.db.SortedSetIdx[bucket].Put(key, zset.SCORE(score), entry.Value)"),
  ("tx.go:buildSortedSetIdx", "case", "DataZRemFlag"),
  ("tx.go:buildSortedSetIdx", "call", "tx.db.SortedSetIdx[bucket].Remove(string(entry.Key))"),
  ("tx.go:buildSortedSetIdx", "case", "DataZRemRangeByRankFlag"),
  ("tx.go:buildSortedSetIdx", "call", "strconv2.StrToInt(string(entry.Key))"),
  ("tx.go:buildSortedSetIdx", "call", "strconv2.StrToInt(string(entry.Value))"),
  ("tx.go:buildSortedSetIdx", "call", "tx.db.SortedSetIdx[bucket].GetByRankRange(start, end, true)"),
  ("tx.go:buildSortedSetIdx", "case", "DataZPopMaxFlag"),
  ("tx.go:buildSortedSetIdx", "call", "tx.db.SortedSetIdx[bucket].PopMax()"),
  ("tx.go:buildSortedSetIdx", "case", "DataZPopMinFlag"),
  ("tx.go:buildSortedSetIdx", "call", "tx.db.SortedSetIdx[bucket].PopMin()"),
  ("tx.go:buildListIdx", "if", "!ok"),
  ("tx.go:buildListIdx", "call", "list.New()"),
  ("tx.go:buildListIdx", "switch", "entry.Meta.Flag"),
  ("tx.go:buildListIdx", "case", "DataLPushFlag"),
  ("tx.go:buildListIdx", "call", "tx.db.ListIdx[bucket].LPush(string(key), value)"),
  ("tx.go:buildListIdx", "case", "DataRPushFlag"),
  ("tx.go:buildListIdx", "call", "tx.db.ListIdx[bucket].RPush(string(key), value)"),
  ("tx.go:buildListIdx", "case", "DataLRemFlag"),
  ("tx.go:buildListIdx", "call", "strings.SplitN(string(value), SeparatorForListKey, 2)"),
  ("tx.go:buildListIdx", "call", "strconv2.StrToInt(countAndValue[0])"),
  ("tx.go:buildListIdx", "call", "tx.db.ListIdx[bucket].LRem(string(key), count, []byte(newValue))"),
  ("tx.go:buildListIdx", "case", "DataLPopFlag"),
  ("tx.go:buildListIdx", "call", "tx.db.ListIdx[bucket].LPop(string(key))"),
  ("tx.go:buildListIdx", "case", "DataRPopFlag"),
  ("tx.go:buildListIdx", "call", "tx.db.ListIdx[bucket].RPop(string(key))"),
  ("tx.go:buildListIdx", "case", "DataLSetFlag"),
  ("tx.go:buildListIdx", "call", "strings.Split(string(key), SeparatorForListKey)"),
  ("tx.go:buildListIdx", "call", "strconv2.StrToInt(keyAndIndex[1])"),
  ("tx.go:buildListIdx", "call", "tx.db.ListIdx[bucket].LSet(newKey, index, value)"),
  ("tx.go:buildListIdx", "case", "DataLTrimFlag"),
  ("tx.go:buildListIdx", "call", "strings.Split(string(key), SeparatorForListKey)"),
  ("tx.go:buildListIdx", "call", "strconv2.StrToInt(keyAndStartIndex[1])"),
  ("tx.go:buildListIdx", "call", "strconv2.StrToInt(string(value))"),
  ("tx.go:buildListIdx", "call", "tx.db.ListIdx[bucket].Ltrim(newKey, start, end)"),
  ("tx.go:rotateActiveFile", "if", "!tx.db.opt.SyncEnable && tx.db.opt.RWMode == MMap"),
  ("tx.go:rotateActiveFile", "call", "tx.db.ActiveFile.rwManager.Sync()"),
  ("tx.go:rotateActiveFile", "call", "tx.db.ActiveFile.rwManager.Close()"),
  ("tx.go:rotateActiveFile", "if", "tx.db.opt.EntryIdxMode == HintBPTSparseIdxMode"),
  ("tx.go:rotateActiveFile", "call", "tx.db.getBPTPath(fID)"),
  ("tx.go:rotateActiveFile", "call", "tx.db.ActiveBPTreeIdx.SetKeyPosMap(tx.db.BPTreeKeyEntryPosMap)"),
  ("tx.go:rotateActiveFile", "call", "tx.db.ActiveBPTreeIdx.WriteNodes(tx.db.opt.RWMode, tx.db.opt.SyncEnable, 1)"),
  ("tx.go:rotateActiveFile", "call", "BPTreeRootIdx.Persistence(tx.db.getBPTRootPath(fID), 0, tx.db.opt.SyncEnable)"),
  ("tx.go:rotateActiveFile", "call", "append(tx.db.BPTreeRootIdxes, BPTreeRootIdx)"),
  ("tx.go:rotateActiveFile", "call", "NewTree()"),
  ("tx.go:rotateActiveFile", "call", "NewTree()"),
  ("tx.go:rotateActiveFile", "call", "tx.db.getDataPath(tx.db.MaxFileID)"),
  ("tx.go:rotateActiveFile", "call", "NewDataFile(path, tx.db.opt.SegmentSize, tx.db.opt.RWMode)")]

/-- **the appliers, regenerated**: both appliers of every structure (the one `Commit` uses and the one `Open`
uses), the rotation and the scan of the data files are, line for line, the ones the model was written from. -/
theorem appliers_ok : applierStmts = expectedApplierStmts := by decide +kernel

/-- the lines of the transactional API (tx_list.go, tx_set.go, tx_zset.go, the key/value writes, `tx.put`) that
`Nuts.Model.Tx` (`txPut`, `txRPush`, `txPop`, `txLRem`, `txLSet`, `txLTrim`, `txSAdd`, `txSPop`, `txZAdd`, `txZPop`,
…) was written from: what each call validates against the committed state and which record it queues -/
def expectedTxApiStmts : List (String × String × String) := [
  ("tx.go:checkTxIsClosed", "if", "tx.db == nil"),
  ("tx.go:put", "call", "tx.checkTxIsClosed()"),
  ("tx.go:put", "if", "!tx.writable"),
  ("tx.go:put", "if", "len(key) == 0"),
  ("tx.go:put", "call", "append(tx.pendingWrites, &Entry{ Key: key, Value: value, Meta: &MetaData{ keySize: uint32(len(key)), valueSize: uint32(len(value)), timestamp: timestamp, Flag: flag, TTL: ttl, bucket: []byte(bucket), bucketSize: uint32(len(bucket)), status: UnCommitted, ds: ds, txID: tx.id, }, })"),
  ("tx_bptree.go:Delete", "call", "tx.checkTxIsClosed()"),
  ("tx_bptree.go:Delete", "return", "tx.put(bucket, key, nil, Persistent, DataDeleteFlag, uint64(time.Now().Unix()), DataStructureBPTree)"),
  ("tx_list.go:RPop", "call", "tx.RPeek(bucket, key)"),
  ("tx_list.go:RPop", "return", "tx.push(bucket, key, DataRPopFlag, item)"),
  ("tx_list.go:RPeek", "call", "tx.checkTxIsClosed()"),
  ("tx_list.go:RPeek", "if", "!ok"),
  ("tx_list.go:RPeek", "call", "tx.db.ListIdx[bucket].RPeek(string(key))"),
  ("tx_list.go:push", "range", "values"),
  ("tx_list.go:push", "call", "tx.put(bucket, key, value, Persistent, flag, uint64(time.Now().Unix()), DataStructureList)"),
  ("tx_list.go:RPush", "call", "tx.checkTxIsClosed()"),
  ("tx_list.go:RPush", "if", "strings.Contains(string(key), SeparatorForListKey)"),
  ("tx_list.go:RPush", "return", "ErrSeparatorForListKey()"),
  ("tx_list.go:RPush", "return", "tx.push(bucket, key, DataRPushFlag, values...)"),
  ("tx_list.go:LPush", "call", "tx.checkTxIsClosed()"),
  ("tx_list.go:LPush", "if", "strings.Contains(string(key), SeparatorForListKey)"),
  ("tx_list.go:LPush", "return", "ErrSeparatorForListKey()"),
  ("tx_list.go:LPush", "return", "tx.push(bucket, key, DataLPushFlag, values...)"),
  ("tx_list.go:LPop", "call", "tx.LPeek(bucket, key)"),
  ("tx_list.go:LPop", "return", "tx.push(bucket, key, DataLPopFlag, item)"),
  ("tx_list.go:LPeek", "call", "tx.checkTxIsClosed()"),
  ("tx_list.go:LPeek", "if", "!ok"),
  ("tx_list.go:LPeek", "call", "tx.db.ListIdx[bucket].LPeek(string(key))"),
  ("tx_list.go:LSize", "call", "tx.checkTxIsClosed()"),
  ("tx_list.go:LSize", "if", "!ok"),
  ("tx_list.go:LSize", "return", "tx.db.ListIdx[bucket].Size(string(key))"),
  ("tx_list.go:LRange", "call", "tx.checkTxIsClosed()"),
  ("tx_list.go:LRange", "if", "!ok"),
  ("tx_list.go:LRange", "return", "tx.db.ListIdx[bucket].LRange(string(key), start, end)"),
  ("tx_list.go:LRem", "call", "tx.LSize(bucket, key)"),
  ("tx_list.go:LRem", "if", "count > size || count < -size"),
  ("tx_list.go:LRem", "call", "buffer.Write([]byte(strconv2.IntToStr(count)))"),
  ("tx_list.go:LRem", "call", "buffer.Write([]byte(SeparatorForListKey))"),
  ("tx_list.go:LRem", "call", "buffer.Write(value)"),
  ("tx_list.go:LRem", "call", "buffer.Bytes()"),
  ("tx_list.go:LRem", "call", "tx.push(bucket, key, DataLRemFlag, newValue)"),
  ("tx_list.go:LRem", "call", "tx.db.ListIdx[bucket].LRemNum(string(key), count, value)"),
  ("tx_list.go:LSet", "call", "tx.checkTxIsClosed()"),
  ("tx_list.go:LSet", "if", "!ok"),
  ("tx_list.go:LSet", "if", "!ok"),
  ("tx_list.go:LSet", "call", "tx.LSize(bucket, key)"),
  ("tx_list.go:LSet", "if", "index < 0 || index >= size"),
  ("tx_list.go:LSet", "call", "buffer.Write(key)"),
  ("tx_list.go:LSet", "call", "buffer.Write([]byte(SeparatorForListKey))"),
  ("tx_list.go:LSet", "call", "[]byte(strconv2.IntToStr(index))"),
  ("tx_list.go:LSet", "call", "buffer.Write(indexBytes)"),
  ("tx_list.go:LSet", "call", "buffer.Bytes()"),
  ("tx_list.go:LSet", "return", "tx.push(bucket, newKey, DataLSetFlag, value)"),
  ("tx_list.go:LTrim", "call", "tx.checkTxIsClosed()"),
  ("tx_list.go:LTrim", "if", "!ok"),
  ("tx_list.go:LTrim", "if", "!ok"),
  ("tx_list.go:LTrim", "call", "tx.LRange(bucket, key, start, end)"),
  ("tx_list.go:LTrim", "call", "buffer.Write(key)"),
  ("tx_list.go:LTrim", "call", "buffer.Write([]byte(SeparatorForListKey))"),
  ("tx_list.go:LTrim", "call", "buffer.Write([]byte(strconv2.IntToStr(start)))"),
  ("tx_list.go:LTrim", "call", "buffer.Bytes()"),
  ("tx_list.go:LTrim", "return", "tx.push(bucket, newKey, DataLTrimFlag, []byte(strconv2.IntToStr(end)))"),
  ("tx_list.go:ErrSeparatorForListKey", "return", "errors.New(\"contain separator (\" + SeparatorForListKey + \") for List key\")"),
  ("tx_set.go:sPut", "range", "items"),
  ("tx_set.go:sPut", "call", "tx.put(bucket, key, item, Persistent, dataFlag, uint64(time.Now().Unix()), DataStructureSet)"),
  ("tx_set.go:SAdd", "return", "tx.sPut(bucket, key, DataSetFlag, items...)"),
  ("tx_set.go:SRem", "return", "tx.sPut(bucket, key, DataDeleteFlag, items...)"),
  ("tx_set.go:SAreMembers", "call", "tx.checkTxIsClosed()"),
  ("tx_set.go:SAreMembers", "if", "ok"),
  ("tx_set.go:SAreMembers", "return", "sets.SAreMembers(string(key), items...)"),
  ("tx_set.go:SAreMembers", "return", "ErrBucketAndKey(bucket, key)"),
  ("tx_set.go:SIsMember", "call", "tx.checkTxIsClosed()"),
  ("tx_set.go:SIsMember", "if", "ok"),
  ("tx_set.go:SIsMember", "if", "!set.SIsMember(string(key), item)"),
  ("tx_set.go:SIsMember", "return", "ErrBucketAndKey(bucket, key)"),
  ("tx_set.go:SIsMember", "return", "ErrBucketAndKey(bucket, key)"),
  ("tx_set.go:SMembers", "call", "tx.checkTxIsClosed()"),
  ("tx_set.go:SMembers", "if", "ok"),
  ("tx_set.go:SMembers", "return", "set.SMembers(string(key))"),
  ("tx_set.go:SMembers", "return", "ErrBucketAndKey(bucket, key)"),
  ("tx_set.go:SHasKey", "call", "tx.checkTxIsClosed()"),
  ("tx_set.go:SHasKey", "if", "ok"),
  ("tx_set.go:SHasKey", "return", "set.SHasKey(string(key))"),
  ("tx_set.go:SHasKey", "return", "ErrBucketAndKey(bucket, key)"),
  ("tx_set.go:SPop", "call", "tx.checkTxIsClosed()"),
  ("tx_set.go:SPop", "if", "ok"),
  ("tx_set.go:SPop", "range", "tx.db.SetIdx[bucket].M[string(key)]"),
  ("tx_set.go:SPop", "return", "[]byte(item)"),
  ("tx_set.go:SPop", "return", "tx.sPut(bucket, key, DataDeleteFlag, []byte(item))"),
  ("tx_set.go:SPop", "return", "ErrBucketAndKey(bucket, key)"),
  ("tx_set.go:SCard", "call", "tx.checkTxIsClosed()"),
  ("tx_set.go:SCard", "if", "ok"),
  ("tx_set.go:SCard", "return", "set.SCard(string(key))"),
  ("tx_set.go:SCard", "return", "ErrBucketAndKey(bucket, key)"),
  ("tx_set.go:SDiffByOneBucket", "call", "tx.checkTxIsClosed()"),
  ("tx_set.go:SDiffByOneBucket", "if", "ok"),
  ("tx_set.go:SDiffByOneBucket", "return", "set.SDiff(string(key1), string(key2))"),
  ("tx_set.go:SDiffByOneBucket", "return", "ErrBucketAndKey(bucket, key1)"),
  ("tx_set.go:SDiffByTwoBuckets", "call", "tx.checkTxIsClosed()"),
  ("tx_set.go:SDiffByTwoBuckets", "if", "!ok"),
  ("tx_set.go:SDiffByTwoBuckets", "return", "ErrBucketAndKey(bucket1, key1)"),
  ("tx_set.go:SDiffByTwoBuckets", "if", "!ok"),
  ("tx_set.go:SDiffByTwoBuckets", "return", "ErrBucketAndKey(bucket2, key2)"),
  ("tx_set.go:SDiffByTwoBuckets", "range", "set1.M[string(key1)]"),
  ("tx_set.go:SDiffByTwoBuckets", "if", "!ok"),
  ("tx_set.go:SDiffByTwoBuckets", "call", "append(list, []byte(item1))"),
  ("tx_set.go:SMoveByOneBucket", "call", "tx.checkTxIsClosed()"),
  ("tx_set.go:SMoveByOneBucket", "if", "ok"),
  ("tx_set.go:SMoveByOneBucket", "return", "set.SMove(string(key1), string(key2), item)"),
  ("tx_set.go:SMoveByTwoBuckets", "call", "tx.checkTxIsClosed()"),
  ("tx_set.go:SMoveByTwoBuckets", "if", "!ok"),
  ("tx_set.go:SMoveByTwoBuckets", "return", "ErrBucketAndKey(bucket1, key1)"),
  ("tx_set.go:SMoveByTwoBuckets", "if", "!ok"),
  ("tx_set.go:SMoveByTwoBuckets", "return", "ErrBucketAndKey(bucket2, key1)"),
  ("tx_set.go:SMoveByTwoBuckets", "if", "!set1.SHasKey(string(key1))"),
  ("tx_set.go:SMoveByTwoBuckets", "return", "ErrNotFoundKeyInBucket(bucket1, key1)"),
  ("tx_set.go:SMoveByTwoBuckets", "if", "!set2.SHasKey(string(key2))"),
  ("tx_set.go:SMoveByTwoBuckets", "return", "ErrNotFoundKeyInBucket(bucket2, key2)"),
  ("tx_set.go:SMoveByTwoBuckets", "if", "!ok"),
  ("tx_set.go:SMoveByTwoBuckets", "call", "set2.SAdd(string(key2), item)"),
  ("tx_set.go:SMoveByTwoBuckets", "call", "set1.SRem(string(key1), item)"),
  ("tx_set.go:SUnionByOneBucket", "call", "tx.checkTxIsClosed()"),
  ("tx_set.go:SUnionByOneBucket", "if", "ok"),
  ("tx_set.go:SUnionByOneBucket", "return", "set.SUnion(string(key1), string(key2))"),
  ("tx_set.go:SUnionByTwoBuckets", "call", "tx.checkTxIsClosed()"),
  ("tx_set.go:SUnionByTwoBuckets", "if", "!ok"),
  ("tx_set.go:SUnionByTwoBuckets", "return", "ErrBucketAndKey(bucket1, key1)"),
  ("tx_set.go:SUnionByTwoBuckets", "if", "!ok"),
  ("tx_set.go:SUnionByTwoBuckets", "return", "ErrBucketAndKey(bucket2, key1)"),
  ("tx_set.go:SUnionByTwoBuckets", "if", "!set1.SHasKey(string(key1))"),
  ("tx_set.go:SUnionByTwoBuckets", "return", "ErrNotFoundKeyInBucket(bucket1, key1)"),
  ("tx_set.go:SUnionByTwoBuckets", "if", "!set2.SHasKey(string(key2))"),
  ("tx_set.go:SUnionByTwoBuckets", "return", "ErrNotFoundKeyInBucket(bucket2, key2)"),
  ("tx_set.go:SUnionByTwoBuckets", "range", "set1.M[string(key1)]"),
  ("tx_set.go:SUnionByTwoBuckets", "call", "append(list, []byte(item1))"),
  ("tx_set.go:SUnionByTwoBuckets", "range", "set2.M[string(key2)]"),
  ("tx_set.go:SUnionByTwoBuckets", "if", "!ok"),
  ("tx_set.go:SUnionByTwoBuckets", "call", "append(list, []byte(item2))"),
  ("tx_set.go:ErrBucketAndKey", "return", "errors.New(\"not found bucket:\" + bucket + \",key:\" + string(key))"),
  ("tx_set.go:ErrNotFoundKeyInBucket", "return", "errors.New(string(key) + \" is not in the\" + bucket)"),
  ("tx_zset.go:ZAdd", "if", "strings.Contains(string(key), SeparatorForZSetKey)"),
  ("tx_zset.go:ZAdd", "return", "ErrSeparatorForZSetKey()"),
  ("tx_zset.go:ZAdd", "call", "buffer.Write(key)"),
  ("tx_zset.go:ZAdd", "call", "buffer.Write([]byte(SeparatorForZSetKey))"),
  ("tx_zset.go:ZAdd", "call", "[]byte(strconv.FormatFloat(score, 'f', -1, 64))"),
  ("tx_zset.go:ZAdd", "call", "buffer.Write(scoreBytes)"),
  ("tx_zset.go:ZAdd", "call", "buffer.Bytes()"),
  ("tx_zset.go:ZAdd", "return", "tx.put(bucket, newKey, val, Persistent, DataZAddFlag, uint64(time.Now().Unix()), DataStructureSortedSet)"),
  ("tx_zset.go:ZMembers", "call", "tx.checkTxIsClosed()"),
  ("tx_zset.go:ZMembers", "if", "!ok"),
  ("tx_zset.go:ZCard", "call", "tx.ZMembers(bucket)"),
  ("tx_zset.go:ZCard", "return", "len(members)"),
  ("tx_zset.go:ZCount", "call", "tx.ZRangeByScore(bucket, start, end, opts)"),
  ("tx_zset.go:ZCount", "return", "len(nodes)"),
  ("tx_zset.go:ZPopMax", "call", "tx.ZPeekMax(bucket)"),
  ("tx_zset.go:ZPopMax", "return", "tx.put(bucket, []byte(\" \"), []byte(\"\"), Persistent, DataZPopMaxFlag, uint64(time.Now().Unix()), DataStructureSortedSet)"),
  ("tx_zset.go:ZPopMin", "call", "tx.ZPeekMin(bucket)"),
  ("tx_zset.go:ZPopMin", "return", "tx.put(bucket, []byte(\" \"), []byte(\"\"), Persistent, DataZPopMinFlag, uint64(time.Now().Unix()), DataStructureSortedSet)"),
  ("tx_zset.go:ZPeekMax", "call", "tx.checkTxIsClosed()"),
  ("tx_zset.go:ZPeekMax", "if", "!ok"),
  ("tx_zset.go:ZPeekMax", "return", "tx.db.SortedSetIdx[bucket].PeekMax()"),
  ("tx_zset.go:ZPeekMin", "call", "tx.checkTxIsClosed()"),
  ("tx_zset.go:ZPeekMin", "if", "!ok"),
  ("tx_zset.go:ZPeekMin", "return", "tx.db.SortedSetIdx[bucket].PeekMin()"),
  ("tx_zset.go:ZRangeByScore", "call", "tx.checkTxIsClosed()"),
  ("tx_zset.go:ZRangeByScore", "if", "!ok"),
  ("tx_zset.go:ZRangeByScore", "return", "tx.db.SortedSetIdx[bucket].GetByScoreRange(zset.SCORE(start), zset.SCORE(end), opts)"),
  ("tx_zset.go:ZRangeByRank", "call", "tx.checkTxIsClosed()"),
  ("tx_zset.go:ZRangeByRank", "if", "!ok"),
  ("tx_zset.go:ZRangeByRank", "return", "tx.db.SortedSetIdx[bucket].GetByRankRange(start, end, false)"),
  ("tx_zset.go:ZRem", "call", "tx.checkTxIsClosed()"),
  ("tx_zset.go:ZRem", "if", "!ok"),
  ("tx_zset.go:ZRem", "return", "tx.put(bucket, []byte(key), []byte(\"\"), Persistent, DataZRemFlag, uint64(time.Now().Unix()), DataStructureSortedSet)"),
  ("tx_zset.go:ZRemRangeByRank", "call", "tx.checkTxIsClosed()"),
  ("tx_zset.go:ZRemRangeByRank", "if", "!ok"),
  ("tx_zset.go:ZRemRangeByRank", "call", "strconv2.IntToStr(start)"),
  ("tx_zset.go:ZRemRangeByRank", "call", "strconv2.IntToStr(end)"),
  ("tx_zset.go:ZRemRangeByRank", "return", "tx.put(bucket, []byte(newKey), []byte(newVal), Persistent, DataZRemRangeByRankFlag, uint64(time.Now().Unix()), DataStructureSortedSet)"),
  ("tx_zset.go:ZRank", "call", "tx.checkTxIsClosed()"),
  ("tx_zset.go:ZRank", "if", "!ok"),
  ("tx_zset.go:ZRank", "return", "tx.db.SortedSetIdx[bucket].FindRank(string(key))"),
  ("tx_zset.go:ZRevRank", "call", "tx.checkTxIsClosed()"),
  ("tx_zset.go:ZRevRank", "if", "!ok"),
  ("tx_zset.go:ZRevRank", "return", "tx.db.SortedSetIdx[bucket].FindRevRank(string(key))"),
  ("tx_zset.go:ZScore", "call", "tx.checkTxIsClosed()"),
  ("tx_zset.go:ZScore", "if", "!ok"),
  ("tx_zset.go:ZScore", "if", "node != nil"),
  ("tx_zset.go:ZScore", "call", "tx.db.SortedSetIdx[bucket].GetByKey(string(key))"),
  ("tx_zset.go:ZScore", "return", "float64(node.Score())"),
  ("tx_zset.go:ZGetByKey", "call", "tx.checkTxIsClosed()"),
  ("tx_zset.go:ZGetByKey", "if", "!ok"),
  ("tx_zset.go:ZGetByKey", "if", "node != nil"),
  ("tx_zset.go:ZGetByKey", "call", "tx.db.SortedSetIdx[bucket].GetByKey(string(key))"),
  ("tx_zset.go:ErrSeparatorForZSetKey", "return", "errors.New(\"contain separator (\" + SeparatorForZSetKey + \") for ZSet key\")")]

/-- **the transactional API, regenerated** -/
theorem tx_api_ok : txApiStmts = expectedTxApiStmts := by decide +kernel

/-- **`Backup` is one read transaction.** Regenerated from db.go: the body of `DB.Backup` outside the function
literal does nothing but call `db.View` (no file-system call, no other nutsdb call, no field of `*DB`), and the
literal handed to `View` calls `filesystem.CopyDir` and nothing else — so every byte Backup reads from the
directory is read while the read lock of the transaction is held. -/
theorem backup_under_read_lock : backupShape = (["DB.View"], [], ["filesystem.CopyDir"]) := by decide

/-- **`isFilterEntry`, regenerated.** The model's `isFilter` (which records Merge never rewrites) is the
kernel that `tools/extract` regenerates from the SSA of `DB.isFilterEntry`, with every flag load bound to the
record's flag and the call of `IsExpired` bound to the model's `isExpired` (itself the regenerated `IsExpired`
kernel): a flag added to or dropped from the test, or a changed expiry condition, breaks this theorem. -/
theorem isFilter_is_kernel (r : Nuts.Model.DB.Rec) (now : Nat) :
    Nuts.Model.DB.isFilter r now =
      ((NutsGen.K.db_isFilterEntry.run r.flag r.ttl r.ts (Nuts.Model.DB.isExpired r.ttl r.ts now)
          r.flag r.flag r.flag r.flag r.flag r.flag r.flag r.flag).vals == [1]) := by
  unfold Nuts.Model.DB.isFilter NutsGen.K.db_isFilterEntry.run
  simp only [Nuts.Model.DB.flagDelete, Nuts.Model.DB.flagRPop, Nuts.Model.DB.flagLPop, Nuts.Model.DB.flagLRem,
    Nuts.Model.DB.flagLTrim, Nuts.Model.DB.flagZRem, Nuts.Model.DB.flagZRemRangeByRank, Nuts.Model.DB.flagZPopMax,
    Nuts.Model.DB.flagZPopMin]
  by_cases h0 : r.flag = 0
  · simp [h0]
  · by_cases h6 : r.flag = 6
    · simp [h6]
    · by_cases h5 : r.flag = 5
      · simp [h5]
      · by_cases h4 : r.flag = 4
        · simp [h4]
        · by_cases h8 : r.flag = 8
          · simp [h8]
          · by_cases h10 : r.flag = 10
            · simp [h10]
            · by_cases h11 : r.flag = 11
              · simp [h11]
              · by_cases h12 : r.flag = 12
                · simp [h12]
                · by_cases h13 : r.flag = 13
                  · simp [h13]
                  · have e0 : ¬ ((r.flag : Int) = 0) := by omega
                    have e6 : ¬ ((r.flag : Int) = 6) := by omega
                    have e5 : ¬ ((r.flag : Int) = 5) := by omega
                    have e4 : ¬ ((r.flag : Int) = 4) := by omega
                    have e8 : ¬ ((r.flag : Int) = 8) := by omega
                    have e10 : ¬ ((r.flag : Int) = 10) := by omega
                    have e11 : ¬ ((r.flag : Int) = 11) := by omega
                    have e12 : ¬ ((r.flag : Int) = 12) := by omega
                    have e13 : ¬ ((r.flag : Int) = 13) := by omega
                    simp only [e0, e6, e5, e4, e8, e10, e11, e12, e13, if_false]
                    have b0 : (r.flag == 0) = false := by simpa using h0
                    have b6 : (r.flag == 6) = false := by simpa using h6
                    have b5 : (r.flag == 5) = false := by simpa using h5
                    have b4 : (r.flag == 4) = false := by simpa using h4
                    have b8 : (r.flag == 8) = false := by simpa using h8
                    have b10 : (r.flag == 10) = false := by simpa using h10
                    have b11 : (r.flag == 11) = false := by simpa using h11
                    have b12 : (r.flag == 12) = false := by simpa using h12
                    have b13 : (r.flag == 13) = false := by simpa using h13
                    simp only [b0, b6, b5, b4, b8, b10, b11, b12, b13, Bool.false_or]
                    cases Nuts.Model.DB.isExpired r.ttl r.ts now <;> simp

/-- **the split points of the B+ tree, regenerated.** `Nuts.Model.BPTree` splits a full leaf (`order` = 8
entries) 4 / 4 and a full inner node (8 keys) 4 / up / 3; both 4s are `getSplitIndex` — of `order` for a leaf,
of `order - 1` for an inner node — evaluated on the kernel regenerated from bptree.go, with `order` the
regenerated constant. -/
theorem bptree_split_points :
    lookup consts "order" = some 8 ∧ (NutsGen.K.getSplitIndex.run 8).vals = [4] ∧ (NutsGen.K.getSplitIndex.run 7).vals = [4] ∧
    Nuts.Model.BPTree.maxKeys = 7 := by
  decide

end NutsProofs.Facts
