/-
  C08 — A clean reopen preserves every observable result.
-/
import Nuts.Model.Tx
import NutsProofs.Props.C10
namespace NutsProofs.C08
open Nuts Nuts.Model Nuts.Model.DB NutsProofs

theorem applyOther_files (s : State) (r : Rec) (c : Bool) : (applyOther s r c).1.files = s.files ∧ (applyOther s r c).1.opt = s.opt := by
  unfold applyOther
  split
  · exact ⟨rfl, rfl⟩
  · split
    · exact ⟨rfl, rfl⟩
    · split <;> exact ⟨rfl, rfl⟩

/-- recovery never writes: the files (and options) of the state are those it started from -/
theorem replay_files (rs : List (Rec × Nat × Nat)) (ids : List Nat) (s : State) :
    (replay s rs ids).1.files = s.files ∧ (replay s rs ids).1.opt = s.opt := by
  induction rs generalizing s with
  | nil => exact ⟨rfl, rfl⟩
  | cons x rest ih =>
    obtain ⟨r, fid, pos⟩ := x
    simp only [replay]
    split
    · exact ih s
    · split
      · have := ih (applyKV s { r with status := 1 } fid pos)
        exact this
      · split
        · exact ⟨rfl, rfl⟩
        · have h := applyOther_files s r false
          generalize applyOther s r false = p at h ⊢
          obtain ⟨s', o⟩ := p
          cases o with
          | ok u => simp only; have := ih s'; simp only at h; rw [h.1, h.2] at this; exact this
          | err => simp only; have := ih s'; simp only at h; rw [h.1, h.2] at this; exact this
          | panic => simpa using h

/-- **C08 (Open does not modify the log).** The files after a successful `Open` are the files before
it, plus at most the (empty) active file that `Open` creates. -/
theorem C08_open_preserves_files (opt : Opts) (fs : List File) :
    (openDB opt fs).1.files = fileEnsure fs ((fs.map (·.fid)).foldl max 0) := by
  unfold openDB
  simp only
  split
  · rfl
  · split
    · rfl
    · exact (replay_files _ _ _).1

end NutsProofs.C08
