/-
  C08 — A clean reopen preserves every observable result.
-/
import Nuts.Model.Tx
import NutsProofs.Props.C10
import NutsProofs.Lemmas.ReopenObs
import NutsProofs.Lemmas.ReopenAll
import NutsProofs.Pins.Appliers
import NutsProofs.Facts
namespace NutsProofs.C08
open Nuts Nuts.Model Nuts.Model.DB NutsProofs

open NutsProofs.Replay (applyOther_files replay_files)

/-- **C08 (Open does not modify the log).** The files after a successful `Open` are the files before
it, plus at most the (empty) active file that `Open` creates. -/
theorem C08_open_preserves_files (opt : Opts) (fs : List File) :
    (openDB opt fs).1.files = fileEnsure fs ((fs.map (·.fid)).foldl max 0) := by
  unfold openDB
  simp only
  split
  · rfl
  · split
    · rfl
    · exact (replay_files _ _ _).1

/-! ### a clean reopen, for every key/value history

`Reopen.LogInv` is the invariant: the active file is the last and largest-numbered one, the index is the
fold of `applyKV` over the log in write order (up to the status byte of the cached record), every record of
the log belongs to a committed transaction, `committed` holds exactly the marked ids. It holds in the empty
database, every successful key/value `Commit` keeps it (rotations included) and so does every `Open`; and
`Open` on the files of a state that has it rebuilds that state's index, hints included. -/

open NutsProofs.Reopen in
/-- **C08 (key/value histories).** Take any history of key/value write transactions (any number of records
each, puts and deletes, with or without TTL, any segment size — so any number of rotations) and reopens with
any options in between, starting from the empty database. Then a final `Open` with the options in force
succeeds, leaves the files as they are, and every key/value read returns what it returned before the reopen:
`Get`, `GetAll`, `RangeScan`, `PrefixScan` and `PrefixSearchScan`, for every bucket, key, range, prefix,
offset, limit, match predicate and clock value — in both RAM index modes. (Records are compared without the
status byte, which no API returns.) -/
theorem C08_reopen_preserves_kv_reads (opt0 : Opts) (ops : List Op) (hok : OpsOk (openDB opt0 []).1 ops)
    (opt : Opts) (hopt : opt.core = (ops.foldl stepOp (openDB opt0 []).1).opt) :
    let s := ops.foldl stepOp (openDB opt0 []).1
    let s' := (openDB opt s.files).1
    (openDB opt s.files).2 = .ok () ∧ s'.files = s.files ∧
    (∀ b k now, vis (DB.get s' b k now) = vis (DB.get s b k now)) ∧
    (∀ b now, visL (getAll s' b now) = visL (getAll s b now)) ∧
    (∀ b st en now, visL (rangeScan s' b st en now) = visL (rangeScan s b st en now)) ∧
    (∀ b pre off lim now mt, visL (prefixScan s' b pre off lim now mt) = visL (prefixScan s b pre off lim now mt)) := by
  intro s s'
  have hinv : LogInv s := logInv_ops ops _ (logInv_init opt0) hok
  obtain ⟨h1, h2, h3, h4⟩ := open_rebuilds s hinv opt
  have hopt' : s'.opt = s.opt := by
    have : s'.opt = opt.core := Replay.openDB_opt opt _
    rw [this, hopt]
  have hr : Rebuilt s s' := Rebuilt.of_files h2 h3 hopt' h4
  exact ⟨h1, h3, fun b k now => get_rebuilt hr b k now, fun b now => getAll_rebuilt hr b now,
    fun b st en now => rangeScan_rebuilt hr b st en now,
    fun b pre off lim now mt => prefixScan_rebuilt hr b pre off lim now mt⟩

/-- a one-record transaction: `Put(bucket a, key k, 16 bytes)` with transaction id `id` (60 bytes on disk) -/
def wTx (id k : Nat) : List Rec := [{ (mkRec [97] [k.toUInt8] (List.replicate 16 120) flagSet dsKV) with txid := id }]

open NutsProofs.Reopen in
/-- the hypotheses are met by a history that rotates: transactions of 60-byte records over 100-byte
segments (every commit after the first rotates) and a reopen in the middle -/
theorem C08_witness_history :
    OpsOk (openDB { seg := 100 } []).1 [.commit (wTx 1 1), .commit (wTx 2 2), .reopen { seg := 100 }, .commit (wTx 3 1)] := by
  refine ⟨⟨by simp [wTx], 1, ?_⟩, ⟨by simp [wTx], 2, ?_⟩, ⟨by simp [wTx], 3, ?_⟩, trivial⟩
  all_goals (intro r hr; simp only [wTx, List.mem_singleton] at hr; subst hr; decide +kernel)

/-- … and it does rotate: three data files at the end -/
theorem C08_witness_rotates :
    (([Reopen.Op.commit (wTx 1 1), .commit (wTx 2 2), .reopen { seg := 100 }, .commit (wTx 3 1)].foldl Reopen.stepOp
      (openDB { seg := 100 } []).1).files.map (·.fid)) = [0, 1, 2] := by
  decide +kernel

/-! ### a clean reopen, for every structure

`ReopenAll.AllInv` extends the invariant to logs with list, set and sorted-set records: besides the key/value
part, the lists, sets and sorted sets of the state are the fold of the appliers over the log, and no
application along the log panics. `Commit` applies a transaction's structure records after its write loop,
`Open` applies them while it replays the log; the appliers read and write nothing but the structure maps
(`applyOther_eq`), the status byte does not matter to them, and on sorted-set keys of the form `key|score` the
applier of `Commit` and the applier of `Open` agree (`stepSV_flag`) — so both build the same thing. -/

open NutsProofs.Reopen NutsProofs.ReopenAll in
/-- **C08 (all structures, key+value mode).** Take any history of write transactions with records of any of
the four structures — puts, deletes, pushes, pops, `LRem`, `LSet`, `LTrim`, `SAdd`, `SRem`, `ZAdd`, `ZRem`,
`ZRemRangeByRank`, `ZPopMax`, `ZPopMin`, in any mix, any number per transaction, over any buckets, with any
segment size — each of which committed successfully, and reopens in between. Then `Open` (key+value mode) on
the final files succeeds, leaves the files as they are, and rebuilds exactly the lists, the sets and the
sorted sets the database held, the key/value index up to the status byte of the cached records, and the
same committed transaction ids; every read of a list, set or sorted set is a function of those maps alone, so
it returns what it returned before. (Sorted-set keys must have the form `key|score`: the API writes no
other; for others the two appliers differ.) -/
theorem C08_reopen_preserves_all_structures (opt0 : Opts) (ops : List OpA) (hok : OpsOkA (openDB opt0 []).1 ops)
    (opt : Opts) (hm : opt.mode = 0) :
    let s := ops.foldl stepA (openDB opt0 []).1
    let s' := (openDB opt s.files).1
    (openDB opt s.files).2 = .ok () ∧ s'.files = s.files ∧
    s'.lists = s.lists ∧ s'.sets = s.sets ∧ s'.zsets = s.zsets ∧ s'.kv = normKV s.kv ∧
    (∀ id, id ∈ s'.committed ↔ id ∈ s.committed) := by
  intro s s'
  have hinv : AllInv s := allInv_ops ops _ (allInv_init opt0) hok
  obtain ⟨h1, h2, h3, h4, h5⟩ := open_rebuilds_all s hinv opt hm
  have hl : s'.lists = s.lists := congrArg SV.lists h3
  have hs : s'.sets = s.sets := congrArg SV.sets h3
  have hz : s'.zsets = s.zsets := congrArg SV.zsets h3
  exact ⟨h1, h4, hl, hs, hz, h2, h5⟩

/-- records for the witness below -/
def wRec (id : Nat) (b k v : Bytes) (flag ds : Nat) : Rec := { (mkRec b k v flag ds) with txid := id }

open NutsProofs.Reopen NutsProofs.ReopenAll in
/-- the hypotheses are met by a history that uses all four structures, rotates (100-byte segments) and
reopens in the middle: a put, two pushes and a pop, two set insertions and a removal, a sorted-set insertion -/
theorem C08_witness_all_structures :
    let ops := [OpA.commit [wRec 1 [97] [107] [120] flagSet dsKV, wRec 1 [108] [113] [49] flagRPush dsList],
                .commit [wRec 2 [108] [113] [50] flagRPush dsList, wRec 2 [115] [116] [121] flagSet dsSet],
                .reopen { seg := 100 },
                .commit [wRec 3 [108] [113] [] flagLPop dsList, wRec 3 [115] [116] [122] flagSet dsSet,
                         wRec 3 [115] [116] [121] flagDelete dsSet],
                .commit [{ (wRec 4 [122] [109, 124, 49] [118] flagZAdd dsZSet) with score := 1 }]]
    OpsOkA (openDB { seg := 100 } []).1 ops ∧
    ((ops.foldl stepA (openDB { seg := 100 } []).1).files.map (·.fid)).length ≥ 3 ∧
    (ops.foldl stepA (openDB { seg := 100 } []).1).lists = [([108], [([113], [[50]])])] := by
  intro ops
  refine ⟨⟨⟨by simp, 1, ?_⟩, by decide +kernel, ⟨by simp, 2, ?_⟩, by decide +kernel, rfl,
    ⟨by simp, 3, ?_⟩, by decide +kernel, ⟨by simp, 4, ?_⟩, by decide +kernel, trivial⟩, by decide +kernel, by decide +kernel⟩
  all_goals
    intro r hr
    simp only [List.mem_cons, List.mem_nil_iff, or_false] at hr
    rcases hr with rfl | rfl | rfl <;>
      first
        | exact ⟨by decide +kernel, rfl, fun hd => absurd hd (by decide +kernel)⟩
        | exact ⟨by decide +kernel, rfl, fun _ _ => ⟨[109], [49], by decide +kernel⟩⟩

/-- **regenerated tie of recovery and of the appliers.** The functions that apply a record to an index — at
`Commit` (`tx.build…Idx`) and at `Open` (`db.build…Idx`): flag dispatch, argument parsing, structure calls — the
rotation, and the scan of the data files at `Open` are on this run, line for line, the source the model's
`applyKV` / `applyList` / `applySet` / `applyZSet` / `rotate` / `replay` / `openDB` were written from
(`NutsProofs.Facts.expectedApplierStmts`, 198 lines). A replay that differs from the commit-time application
(the usual way to break "reopen preserves every result") changes these lines. -/
theorem C08_appliers_regenerated : NutsGen.F.applierStmts = NutsProofs.Facts.expectedApplierStmts :=
  NutsProofs.Facts.appliers_ok

/-- **regenerated constants.** The record flags, structure codes, status values, separators and the header size
the model replays with are the constants of the source on this run. -/
theorem C08_constants_regenerated :
    NutsProofs.Facts.lookup NutsGen.F.consts "DataZPopMinFlag" = some (Nuts.Model.DB.flagZPopMin : Nat) ∧
    NutsProofs.Facts.lookup NutsGen.F.consts "DataStructureList" = some (Nuts.Model.DB.dsList : Nat) ∧
    (NutsGen.F.sconsts.find? (·.1 == "SeparatorForZSetKey")).map (·.2) = some "|" :=
  ⟨NutsProofs.Facts.consts_ok.2.2.2.2.2.2.2.2.2.2.2.2.2.1, NutsProofs.Facts.consts_ok.2.2.2.2.2.2.2.2.2.2.2.2.2.2.2.2.2.1,
   NutsProofs.Facts.separators_ok.2.1⟩

end NutsProofs.C08
