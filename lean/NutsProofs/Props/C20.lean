/-
  Property C20 — no argument or state makes an API call panic.

  What a Lean model can carry of this property, and what it cannot:
   * **proved, for every machine integer** (the kernels are regenerated from /repo's SSA on every run, so an
     edit that lets an out-of-range slice or index through breaks these proofs):
       - `LRange` / `LTrim` never slice out of bounds (`C20_lrange_no_panic`, `C20_ltrim_no_panic`);
       - `LSet` stores only inside the slice (`C20_lset_no_panic`);
       - the `Tx.LRem` count guard admits a count only when |count| ≤ size, `math.MinInt64` included
         (`C20_tx_lrem_guard`), and `LRem` then never runs past its slice (`C20_lrem_no_panic`);
       - the `Tx.LSet` guard admits an index only inside the list (`C20_tx_lset_guard`);
       - `sanitizeIndexes` returns ranks ≥ 1 for every pair of arguments (`C20_sanitize_positive`);
       - `MMapRWManager.ReadAt/WriteAt` slice the mapping only at 0 ≤ off < len (`C20_mmap_no_panic`);
       - integer divisions have non-zero divisors (`C20_split_index`);
   * **proved over the regenerated facts**: every exported `Tx` method except `Commit`/`Rollback` detects a
     finished transaction before touching `tx.db` (`C20_closed_checks`); in the model a finished
     transaction answers every call with an error (`C20_finished_tx_*`);
   * **searched, not proved** (suite `db-fuzz` and the panic outcome of every other suite): panics the Go
     runtime can raise in code the model abstracts (nil maps and files, NaN ordering inside the skiplist,
     regular expressions). The known ones are listed findings (D-PANIC-*).
-/
import Nuts.Model.Tx
import NutsProofs.Props.C05
import NutsProofs.Pins.Closed
namespace NutsProofs.C20
open Nuts Nuts.Model Nuts.Model.DB Nuts.Spec

/-! ### lists -/

/-- `LRange` returns or reports an error for every pair of machine integers; it never panics. -/
theorem C20_lrange_no_panic (l : List Bytes) (missing : Bool) (s e : Int) (hn : (l.length : Int) < 4611686018427387904)
    (hs : inRange64 s) (he : inRange64 e) : ListDS.lrangeL l missing s e ≠ .panic := by
  cases missing
  · have := C05.lrange_spec l s e hn hs he
    intro hp
    rw [hp] at this
    exact this
  · intro hp
    have hm : ListDS.lrangeL l true s e = .err := by
      unfold ListDS.lrangeL NutsGen.K.list_LRange.run
      simp
    rw [hm] at hp
    cases hp

/-- `LTrim` is `LRange` followed by a store: no panic either. -/
theorem C20_ltrim_no_panic (st : ListDS.St) (k : Bytes) (s e : Int)
    (hn : ∀ l, ListDS.get? st k = some l → (l.length : Int) < 4611686018427387904)
    (hs : inRange64 s) (he : inRange64 e) : (ListDS.ltrim st k s e).2 ≠ .panic := by
  unfold ListDS.ltrim
  cases hg : ListDS.get? st k with
  | none => simp
  | some l =>
    simp only
    have := C20_lrange_no_panic l false s e (hn l hg) hs he
    cases hr : ListDS.lrangeL l false s e <;> simp_all

/-- `LSet`: the store happens only for 0 ≤ index < len — for every machine integer. -/
theorem C20_lset_no_panic (st : ListDS.St) (k : Bytes) (i : Int) (v : Bytes) : (ListDS.lset st k i v).2 ≠ .panic := by
  unfold ListDS.lset NutsGen.K.list_LSet.run
  simp only
  by_cases h0 : (ListDS.get? st k).isSome = true
  · simp only [h0, ↓reduceIte]
    by_cases h1 : i ≥ (((ListDS.get? st k).getD []).length : Int)
    · simp [h1]
    · simp only [h1, ↓reduceIte]
      by_cases h2 : i < 0
      · simp [h2]
      · have h3 : 0 ≤ i := by omega
        have h4 : i < ((ListDS.get? st k).getD []).length := by omega
        simp [h2, h3, h4]
  · simp [h0]

/-- The count guard of `Tx.LRem`, for every machine integer including `math.MinInt64` (whose negation
wraps): the call proceeds (reaches its `slice` event) only when |count| ≤ size. -/
theorem C20_tx_lrem_guard (count : Int) (size : Nat) (hc : inRange64 count) (hn : (size : Int) < 4611686018427387904)
    (e1 e2 : Bool) (x : Int) :
    (NutsGen.K.tx_LRem.run count size e1 e2 x).events ≠ [] → count ≤ size ∧ -(size : Int) ≤ count := by
  unfold NutsGen.K.tx_LRem.run wrap64 inRange64 at *
  intro h
  repeat' split at h
  all_goals first | (exact absurd rfl h) | omega

/-- `LRem` with an admitted count never runs past its slice. -/
theorem C20_lremNum_no_panic (l : List Bytes) (count : Int) (v : Bytes) : ListDS.lremNumL l count v ≠ .panic := by
  unfold ListDS.lremNumL
  split <;> simp

/-- The index guard of `Tx.LSet`: the record is queued only for 0 ≤ index < size. -/
theorem C20_tx_lset_guard (idx : Int) (size : Nat) (e1 e2 e3 : Bool) :
    (NutsGen.K.tx_LSet.run idx e1 e2 e3 size).events ≠ [] → 0 ≤ idx ∧ idx < size := by
  unfold NutsGen.K.tx_LSet.run
  intro h
  repeat' split at h
  all_goals first | (exact absurd rfl h) | omega

/-! ### sorted sets, mmap, B+ tree arithmetic -/

/-- `sanitizeIndexes` yields ranks ≥ 1 whatever the arguments (so `GetByRankRange` never walks before the
first node); with both results inside 1 … 2^63-1. -/
theorem C20_sanitize_positive (a b : Int) (len : Nat) (ha : inRange64 a) (hb : inRange64 b)
    (hn : (len : Int) < 4611686018427387904) :
    ∃ x y, (NutsGen.K.zset_sanitizeIndexes.run a b len len).vals = [x, y] ∧ 1 ≤ x ∧ 1 ≤ y := by
  unfold NutsGen.K.zset_sanitizeIndexes.run wrap64 inRange64 at *
  repeat' split
  all_goals exact ⟨_, _, rfl, by omega, by omega⟩

/-- `MMapRWManager.ReadAt` / `WriteAt` slice the mapping `m[off:]` only with 0 ≤ off < len(m). -/
theorem C20_mmap_no_panic (off : Int) (len : Nat) (hoff : inRange64 off) (hl : (len : Int) ≤ 9223372036854775807)
    (nilMap : Bool) (lb : Int) (n : Int) (hookErr : Bool) :
    (∀ lo hi, KEv.slice 0 lo hi ∈ (NutsGen.K.mmap_ReadAt.run off nilMap lb len len n).events → lo = some off ∧ 0 ≤ off ∧ off < len) ∧
    (∀ lo hi, KEv.slice 0 lo hi ∈ (NutsGen.K.mmap_WriteAt.run off nilMap len hookErr n).events → lo = some off ∧ 0 ≤ off ∧ off < len) := by
  unfold NutsGen.K.mmap_ReadAt.run NutsGen.K.mmap_WriteAt.run wrap64 inRange64 at *
  constructor
  · intro lo hi h
    repeat' split at h
    all_goals simp at h
    all_goals (obtain ⟨rfl, _⟩ := h; exact ⟨rfl, by omega, by omega⟩)
  · intro lo hi h
    repeat' split at h
    all_goals simp at h
    all_goals (obtain ⟨rfl, _⟩ := h; exact ⟨rfl, by omega, by omega⟩)

/-- the only integer divisions of the B+ tree code divide by 2 -/
theorem C20_split_index (n : Int) : ∀ s d, KEv.div s d ∈ (NutsGen.K.getSplitIndex.run n).events → d ≠ 0 := by
  unfold NutsGen.K.getSplitIndex.run
  intro s d h
  split at h <;> simp at h <;> rcases h with ⟨_, rfl⟩ | ⟨_, rfl⟩ <;> decide

/-! ### finished transactions -/

/-- regenerated fact: every exported `Tx` method except `Commit`/`Rollback` (which test `tx.db == nil`
themselves) checks for a finished transaction before it dereferences `tx.db` (the three `Find*OnDisk`
helpers did not: finding D-PANIC-ONDISK, fixed) -/
theorem C20_closed_checks :
    (NutsGen.F.closedChecks.filter (fun p => !p.2)).map (·.1) = ["Commit", "Rollback"] :=
  Facts.closed_checks_ok

/-- in the model, a finished transaction answers every mutating call with an error and queues nothing -/
theorem C20_finished_tx_put (t : Tx) (r : Rec) (h : t.closed = true) : txPut t r = (t, .err) := by
  simp [txPut, h]

theorem C20_finished_tx_reads (s : State) (t : Tx) (b k : Bytes) (a e : Int) (h : t.closed = true) :
    txLRange s t b k a e = .err ∧ txLSize s t b k = .err ∧ txPeek s t b k true = .err ∧ txPeek s t b k false = .err := by
  simp [txLRange, txLSize, txPeek, h]

theorem C20_finished_tx_pops (s : State) (t : Tx) (b k : Bytes) (ts : Nat) (left : Bool) (h : t.closed = true) :
    (txPop s t b k ts left).2 = .err ∧ (txZPop s t b ts left).2 = .err ∧ (txSPop s t b k none ts).2 = .err := by
  simp [txPop, txPeek, txZPop, txSPop, h]

/-! ### the statements say something: concrete instances -/

example : ListDS.lrangeL [[1], [2], [3]] false (-9223372036854775808) 9223372036854775807 = .ok [[1], [2], [3]] := by decide
example : (NutsGen.K.tx_LRem.run (-9223372036854775808) 2 false false 0).events = [] := by decide
example : (NutsGen.K.zset_sanitizeIndexes.run (-9223372036854775808) 0 3 3).vals = [1, 1] := by decide

/-- `List.LRem` never panics: for every count (every machine integer, `MinInt64` included) and every list
shorter than 2^62 the copy loop stays inside its slice — from `LRem.lremL_spec`, which says what it returns -/
theorem C20_lrem_no_panic (l : List Bytes) (count : Int) (v : Bytes) (hn : (l.length : Int) < 4611686018427387904) :
    ListDS.lremL l count v ≠ .panic := by
  rw [LRem.lremL_spec l count v hn]
  split <;> simp

end NutsProofs.C20
