/-
  C01 — Key/value reads match an ordered map with TTL (RAM index modes).
-/
import Nuts.Model.Tx
import NutsProofs.Lemmas.Assoc
import NutsProofs.Props.C04
import NutsProofs.Lemmas.BPTreeRefine
import NutsProofs.Lemmas.KVRefine
import NutsProofs.Lemmas.Hints
import NutsProofs.Lemmas.PrefixRefine
import NutsProofs.Facts
import NutsProofs.Pins.BPT
namespace NutsProofs.C01
open Nuts Nuts.Model Nuts.Model.DB NutsProofs

/-- every bucket's index is strictly ascending in `bytes.Compare` order -/
def KVSorted (s : State) : Prop := ∀ b m, aget? s.kv b = some m → Sorted m

theorem kvSorted_init : KVSorted ({} : State) := by
  intro b m h; simp [aget?] at h

theorem applyKV_sorted (s : State) (r : Rec) (fid pos : Nat) (h : KVSorted s) : KVSorted (applyKV s r fid pos) := by
  intro b m hm
  unfold applyKV at hm
  by_cases hb : b = r.bucket
  · subst hb
    simp only [aget_aput_self] at hm
    cases hm
    apply upsert_sorted
    cases hq : aget? s.kv r.bucket with
    | none => simp [Sorted]
    | some m0 => simpa using h _ _ hq
  · simp only [aget_aput_other _ _ _ _ hb] at hm
    exact h b m hm

theorem kv_congr_sorted (s s' : State) (hk : s'.kv = s.kv) (h : KVSorted s) : KVSorted s' := by
  intro b m hm; rw [hk] at hm; exact h b m hm

theorem writeRec_sorted (s : State) (r : Rec) (last : Bool) (h : KVSorted s) : KVSorted (writeRec s r last) := by
  unfold writeRec
  have h1 : KVSorted (preRotate s r) := by
    apply kv_congr_sorted s _ _ h; unfold preRotate; split <;> rfl
  simp only
  split
  · apply applyKV_sorted
    apply kv_congr_sorted (preRotate s r) _ _ h1
    cases last <;> rfl
  · apply kv_congr_sorted (preRotate s r) _ _ h1
    cases last <;> rfl

theorem commitLoop_sorted (recs : List Rec) (s : State) (h : KVSorted s) : KVSorted (commitLoop s recs).1 := by
  induction recs generalizing s with
  | nil => exact h
  | cons r rest ih =>
    simp only [commitLoop]
    split
    · exact h
    · exact ih _ (writeRec_sorted s r _ h)

theorem applyOther_kv (s : State) (r : Rec) (c : Bool) : (applyOther s r c).1.kv = s.kv := by
  unfold applyOther
  split
  · rfl
  · split
    · rfl
    · split <;> rfl

theorem buildIdxes_kv (recs : List Rec) (s : State) : (buildIdxes s recs).1.kv = s.kv := by
  induction recs generalizing s with
  | nil => rfl
  | cons r rest ih =>
    simp only [buildIdxes]
    split
    · exact applyOther_kv s r true
    · rw [ih, applyOther_kv]

/-- **Order invariant.** Whatever is committed (or half-committed), every bucket index stays strictly
ascending by key — so every scan, which walks the index in order, returns ascending keys. -/
theorem commit_sorted (s : State) (recs : List Rec) (h : KVSorted s) : KVSorted (commit s recs).1 := by
  unfold commit
  split
  · exact h
  · have h1 := commitLoop_sorted recs s h
    generalize commitLoop s recs = p at h1 ⊢
    obtain ⟨s1, fine⟩ := p
    cases fine
    · simpa using h1
    · simp only [Bool.not_true, Bool.false_eq_true, ↓reduceIte]
      split <;> exact kv_congr_sorted s1 _ (buildIdxes_kv recs s1) h1

/-- the wrapper returns a subsequence of the records it is given (mode 0: the indexed entries) -/
theorem wrapper_sublist (s : State) (hm : s.opt.mode = 0) (now : Nat) (lim : Int) (recs : List Idx)
    (acc out : List (Option Rec)) (h : wrapper s recs lim now acc = .ok out) :
    ∃ sub : List Idx, sub.Sublist recs ∧ out = acc ++ sub.map fun i => some i.r := by
  induction recs generalizing acc with
  | nil => simp [wrapper] at h; exact ⟨[], List.Sublist.refl _, by simp [h]⟩
  | cons i rest ih =>
    simp only [wrapper] at h
    split at h
    · obtain ⟨sub, h1, h2⟩ := ih acc h
      exact ⟨sub, h1.cons _, h2⟩
    · split at h
      · simp only [fetch, hm, BEq.rfl, ↓reduceIte] at h
        obtain ⟨sub, h1, h2⟩ := ih _ h
        exact ⟨i :: sub, h1.cons₂ _, by simp [h2]⟩
      · obtain ⟨sub, h1, h2⟩ := ih acc h
        exact ⟨sub, h1.cons _, h2⟩

/-- **C01 (order).** `GetAll` in key+value mode returns entries whose keys are strictly ascending. -/
theorem getAll_ascending (s : State) (hm : s.opt.mode = 0) (hs : KVSorted s) (b : Bytes) (now : Nat)
    (out : List (Option Rec)) (h : getAll s b now = .ok out) :
    ∃ sub : List (Bytes × Idx), Sorted sub ∧ out = sub.map fun p => some p.2.r := by
  unfold getAll bucketIdx at h
  cases hq : aget? s.kv b with
  | none => simp [hq] at h
  | some m =>
    simp only [hq] at h
    split at h
    · cases h
    · have hw : ∃ o, wrapper s (m.map (·.2)) (-1) now = .ok o ∧ out = o := by
        generalize wrapper s (m.map (·.2)) (-1) now = w at h
        cases w with
        | ok o =>
          refine ⟨o, rfl, ?_⟩
          cases o with
          | nil => simp [nonEmptyOrErr] at h
          | cons x xs => simp [nonEmptyOrErr] at h; exact h.symm
        | err => simp [nonEmptyOrErr] at h
        | panic => simp [nonEmptyOrErr] at h
      obtain ⟨o, ho, rfl⟩ := hw
      obtain ⟨sub, h1, h2⟩ := wrapper_sublist s hm now (-1) _ [] out ho
      obtain ⟨sub', hs', rfl⟩ := List.sublist_map_iff.mp h1
      refine ⟨sub', ?_, by simp [h2]⟩
      exact List.Pairwise.sublist hs' (hs b m hq)

/-- **C01 (last write wins).** After a successful single-record commit of `Put(b, k, v)` the index of
bucket `b` maps `k` to exactly that record, and every other key of the bucket keeps its record. -/
theorem put_then_lookup (s : State) (r : Rec) (hfit : ¬ r.size > s.opt.seg) (hkv : r.ds = dsKV) :
    ((aget? (commit s [r]).1.kv r.bucket).bind (aget? · r.key)).map (·.r) = some { r with status := 1 } ∧
    ∀ k', k' ≠ r.key → (aget? (commit s [r]).1.kv r.bucket).bind (aget? · k') = (aget? s.kv r.bucket).bind (aget? · k') := by
  have hds : ({ r with status := 1 } : Rec).ds == dsKV := by simp [hkv]
  have hc : (commit s [r]).1 = writeRec s r true := by
    simp [commit, commitLoop, hfit, buildIdxes, applyOther, hkv, dsKV, dsSet, dsZSet, dsList, Outcome.isPanic]
  rw [hc]
  unfold writeRec
  simp only [markLast, ↓reduceIte, hds]
  unfold applyKV
  simp only [aget_aput_self, Option.bind_some]
  constructor
  · simp [aget_upsert_self]
  · intro k' hk'
    rw [aget_upsert_other _ _ _ _ hk']
    have : (noteCommitted (appendRec (preRotate s r) { r with status := 1 }) r.txid).kv = s.kv := by
      unfold noteCommitted appendRec preRotate; split <;> rfl
    simp only [this]
    cases aget? s.kv r.bucket <;> simp [aget?]

example : KVSorted (commit {} [mkRec [97] [98] [1] flagSet dsKV, mkRec [97] [97] [2] flagSet dsKV]).1 :=
  commit_sorted _ _ kvSorted_init

/-! ### the index really is a B+ tree

The DB model keeps each bucket's index as a sorted association list (`upsert`, `aget?`). The code keeps it
as a B+ tree of order 8 (bptree.go); `Nuts.Model.BPTree` is that tree, insertion with the Go split rules
included, and the `bpt-ds` suite compares it with `BPTree.Insert/Find/…` node for node. The theorems below
discharge the abstraction: for every sequence of insertions the tree is well formed, its leaf chain is the
sorted list, and `Find` is the list lookup. -/

open Nuts.Model.BPTree NutsProofs.BPT in
/-- **C01 (index refinement).** After any sequence of `Insert`s into an empty B+ tree — every leaf split,
inner split and root split included — the leaf chain is exactly the `upsert` fold the DB model uses, it is
strictly ascending, and `Find` returns what `aget?` returns on it. -/
theorem C01_tree_index_refines_sorted_list (ops : List (Bytes × Idx)) (k : Bytes) :
    let t := ops.foldl (fun t p => Tree.insert t p.1 p.2) (none : Tree Idx)
    let m := ops.foldl (fun m p => upsert m p.1 p.2) ([] : Assoc Idx)
    t.toList = m ∧ Sorted m ∧ t.find k = aget? m k := by
  obtain ⟨hwf, htl⟩ := Tree.inserts_refine ops
  refine ⟨htl, ?_, ?_⟩
  · rw [← htl]; exact Tree.sorted _ hwf
  · rw [← htl]; exact Tree.find_eq_aget _ hwf k

open Nuts.Model.BPTree NutsProofs.BPT in
/-- one more `Insert` into a well-formed tree is one more `upsert` — the step form, for trees that were
not built from empty in one go (reopen rebuilds the tree in replay order) -/
theorem C01_tree_insert_step (t : Tree Idx) (h : Tree.WF t) (k : Bytes) (v : Idx) :
    (Tree.insert t k v).toList = upsert t.toList k v ∧ Tree.WF (Tree.insert t k v) :=
  Tree.insert_refines t h k v

/-- depth of a tree (1 = a single leaf) -/
def treeDepth {α} : Nuts.Model.BPTree.Node α → Nat
  | .leaf _ => 1
  | .inner c0 _ => treeDepth c0 + 1

/-- the theorems are about trees that do split: 40 ascending insertions make a tree of depth 3 -/
theorem C01_witness_tree_splits :
    ((((List.range 40).map fun i => ([i.toUInt8], i)).foldl
        (fun t p => Nuts.Model.BPTree.Tree.insert t p.1 p.2) (none : Nuts.Model.BPTree.Tree Nat)).map treeDepth) = some 3 := by
  decide +kernel

/-! ### reads refine the ordered map, for every history

`KVRefine.absKV` abstracts an index to the spec's map (tombstones dropped; value, timestamp, TTL kept). It
commutes with applying a record (`absKV_kvPut`: a put is `Spec.kvPut`, anything else `Spec.kvDel` —
`specApply_put` / `specApply_del`), so along a history the abstraction of the index is the spec's map after
the same puts and deletes; and `Get`, `GetAll`, `RangeScan` of the index under `dead` are the spec's reads
under `live` (`isExpired_eq_not_live` ties the regenerated `IsExpired` kernel, uint64 arithmetic included, to
the spec's `now < timestamp + ttl`). -/

open NutsProofs.KVRefine (OpsRecOk logOf_recOk)

open NutsProofs.Reopen NutsProofs.KVRefine in
/-- **C01 (key+value mode, every history).** Start from the empty database; commit any sequence of
key/value write transactions (any number of Put / PutWithTimestamp / Delete records each, over any buckets,
any key and value bytes, any TTL and timestamp with `timestamp + ttl < 2^64`, any segment size, so any
number of file rotations), with reopens anywhere in between. Let `spec` be the ordered map of the
specification after the same puts and deletes. Then at every clock value below `2^64`, for every bucket:
`Get(k)` returns the value `spec` holds live for `k` and fails when there is none (absent, deleted or
expired — never a stale or foreign value); `GetAll` returns exactly the live pairs in ascending key order
(an error when there are none); `RangeScan(start, end)` exactly the live pairs with `start ≤ key ≤ end`
in ascending order (an error when `start > end` or there are none). -/
theorem C01_reads_refine_ordered_map (opt0 : Opts) (ops : List Op) (hok : OpsOk (openDB opt0 []).1 ops)
    (hrec : OpsRecOk ops) (hm : (ops.foldl stepOp (openDB opt0 []).1).opt.mode = 0)
    (now : Nat) (hn : now < 2 ^ 64) (b : Bytes) :
    let s := ops.foldl stepOp (openDB opt0 []).1
    let spec : Nuts.Spec.DB.SpecDB := { kv := specOfOps ops }
    (∀ k, (DB.get s b k now).map (Option.map (·.value)) =
        match Nuts.Spec.DB.kvGet spec b k now with | some v => .ok (some v) | none => .err) ∧
    ((getAll s b now).map pairsOf =
        if Nuts.Spec.DB.liveOf spec b now = [] then .err else .ok (Nuts.Spec.DB.liveOf spec b now)) ∧
    (∀ st en, (rangeScan s b st en now).map pairsOf =
        if bcmp st en == .gt then .err
        else if ((Nuts.Spec.DB.liveOf spec b now).filter fun x => ble st x.1 && ble x.1 en) = [] then .err
        else .ok ((Nuts.Spec.DB.liveOf spec b now).filter fun x => ble st x.1 && ble x.1 en)) := by
  intro s spec
  have hinv : LogInv s := logInv_ops ops _ (logInv_init opt0) hok
  have hlog : (allRecs s.files).map (·.1) = logOf ops := by
    have h0 : (allRecs (openDB opt0 []).1.files).map (·.1) = [] := by simp [openDB, fileEnsure, allRecs]
    have := log_of_ops ops _ (logInv_init opt0) hok
    rw [h0, List.nil_append] at this
    exact this
  have hL : ∀ x ∈ allRecs s.files, RecOk x.1 := by
    intro x hx
    apply logOf_recOk ops hrec
    rw [← hlog]; exact List.mem_map.mpr ⟨x, hx, rfl⟩
  have hspec : specOfLog ((allRecs s.files).map (·.1)) = specOfOps ops := by
    rw [hlog]; exact specOfLog_logOf ops []
  have := reads_refine s hinv hm hL now hn b
  simp only [hspec] at this
  exact this

open NutsProofs.Reopen NutsProofs.KVRefine NutsProofs.Hints in
/-- **C01 (both RAM index modes, every history).** The same statement without the restriction to the
key+value mode: whatever index mode the database was opened with (`HintKeyAndRAMIdxMode` fetches every value
through its hint from the data file — `Hints.hint_reads_back`: along every history the files are packed and
every hint addresses the record it was made for), `Get`, `GetAll` and `RangeScan` are the spec's reads of the
ordered map with TTL after the same puts and deletes. -/
theorem C01_reads_refine_ordered_map_both_modes (opt0 : Opts) (ops : List Op) (hok : OpsOk (openDB opt0 []).1 ops)
    (hrec : OpsRecOk ops) (now : Nat) (hn : now < 2 ^ 64) (b : Bytes) :
    let s := ops.foldl stepOp (openDB opt0 []).1
    let spec : Nuts.Spec.DB.SpecDB := { kv := specOfOps ops }
    (∀ k, (DB.get s b k now).map (Option.map (·.value)) =
        match Nuts.Spec.DB.kvGet spec b k now with | some v => .ok (some v) | none => .err) ∧
    ((getAll s b now).map pairsOf =
        if Nuts.Spec.DB.liveOf spec b now = [] then .err else .ok (Nuts.Spec.DB.liveOf spec b now)) ∧
    (∀ st en, (rangeScan s b st en now).map pairsOf =
        if bcmp st en == .gt then .err
        else if ((Nuts.Spec.DB.liveOf spec b now).filter fun x => ble st x.1 && ble x.1 en) = [] then .err
        else .ok ((Nuts.Spec.DB.liveOf spec b now).filter fun x => ble st x.1 && ble x.1 en)) := by
  intro s spec
  have hinv : LogInv s := logInv_ops ops _ (logInv_init opt0) hok
  have hpk : Packed s := packed_ops ops _ (logInv_init opt0) (packed_init opt0) hok
  have hlog : (allRecs s.files).map (·.1) = logOf ops := by
    have h0 : (allRecs (openDB opt0 []).1.files).map (·.1) = [] := by simp [openDB, fileEnsure, allRecs]
    have := log_of_ops ops _ (logInv_init opt0) hok
    rw [h0, List.nil_append] at this
    exact this
  have hL : ∀ x ∈ allRecs (withMode0 s).files, RecOk x.1 := by
    intro x hx
    apply logOf_recOk ops hrec
    rw [← hlog]; exact List.mem_map.mpr ⟨x, hx, rfl⟩
  have hspec : specOfLog ((allRecs (withMode0 s).files).map (·.1)) = specOfOps ops := by
    show specOfLog ((allRecs s.files).map (·.1)) = _
    rw [hlog]; exact specOfLog_logOf ops []
  obtain ⟨hg, ha, hr, _⟩ := reads_mode_independent s hinv hpk
  have := reads_refine (withMode0 s) (logInv_withMode0 s hinv) rfl hL now hn b
  simp only [hspec] at this
  obtain ⟨t1, t2, t3⟩ := this
  refine ⟨?_, ?_, ?_⟩
  · intro k; rw [← value_vis, hg b k now, value_vis]; exact t1 k
  · rw [← pairs_visL, ha b now, pairs_visL]; exact t2
  · intro st en; rw [← pairs_visL, hr b st en now, pairs_visL]; exact t3 st en

open NutsProofs.Reopen NutsProofs.KVRefine NutsProofs.Hints NutsProofs.PrefixRefine in
/-- **C01 (prefix scans, both RAM index modes, every history).** `PrefixScan(prefix, 0, -1)` — no offset, no
limit — returns exactly the live pairs whose key has the prefix, in ascending key order, and
`PrefixSearchScan` those whose key also satisfies the match predicate; an error when there are none. (The
tree walk — descend to the leaf of the prefix, skip smaller keys in that leaf, follow the chain while keys
have the prefix — is the list walk by `C03_tree_prefix_scan_is_walk`; in a list sorted by `bytes.Compare` the
keys with a prefix are one block that starts at the first key not below the prefix: `walk_eq_filter`.) -/
theorem C01_prefix_scans_refine_ordered_map (opt0 : Opts) (ops : List Op) (hok : OpsOk (openDB opt0 []).1 ops)
    (hrec : OpsRecOk ops) (now : Nat) (hn : now < 2 ^ 64) (b pre : Bytes) (mt : Bytes → Bool) :
    let s := ops.foldl stepOp (openDB opt0 []).1
    let spec : Nuts.Spec.DB.SpecDB := { kv := specOfOps ops }
    let want := (Nuts.Spec.DB.liveOf spec b now).filter fun x => hasPrefix x.1 pre && mt x.1
    (prefixScan s b pre 0 (-1) now mt).map pairsOf = if want = [] then .err else .ok want := by
  intro s spec want
  have hinv : LogInv s := logInv_ops ops _ (logInv_init opt0) hok
  have hpk : Packed s := packed_ops ops _ (logInv_init opt0) (packed_init opt0) hok
  have hlog : (allRecs s.files).map (·.1) = logOf ops := by
    have h0 : (allRecs (openDB opt0 []).1.files).map (·.1) = [] := by simp [openDB, fileEnsure, allRecs]
    have := log_of_ops ops _ (logInv_init opt0) hok
    rw [h0, List.nil_append] at this
    exact this
  have hL : ∀ x ∈ allRecs (withMode0 s).files, RecOk x.1 := by
    intro x hx
    apply logOf_recOk ops hrec
    rw [← hlog]; exact List.mem_map.mpr ⟨x, hx, rfl⟩
  have hspec : specOfLog ((allRecs (withMode0 s).files).map (·.1)) = specOfOps ops := by
    show specOfLog ((allRecs s.files).map (·.1)) = _
    rw [hlog]; exact specOfLog_logOf ops []
  obtain ⟨_, _, _, hp⟩ := reads_mode_independent s hinv hpk
  have := prefix_reads_refine (withMode0 s) (logInv_withMode0 s hinv) rfl hL now hn b pre mt
  simp only [hspec] at this
  rw [← pairs_visL, hp b pre 0 (-1) now mt, pairs_visL]
  exact this

/-- a one-record transaction for the witness below: `Put(bucket a, key k, 16 bytes)` / `Delete`, id `id` -/
def wPut (id k : Nat) : List Rec := [{ (mkRec [97] [k.toUInt8] (List.replicate 16 120) flagSet dsKV) with txid := id }]
def wDel (id k : Nat) : List Rec := [{ (mkRec [97] [k.toUInt8] [] flagDelete dsKV) with txid := id }]

open NutsProofs.Reopen NutsProofs.KVRefine in
/-- the hypotheses of `C01_reads_refine_ordered_map` are met by a history with rotations (60-byte records,
100-byte segments), an overwrite, a delete and a reopen — and on it `GetAll` shows the one live pair -/
theorem C01_witness_history :
    let ops := [Op.commit (wPut 1 1), .commit (wPut 2 2), .reopen { seg := 100 }, .commit (wPut 3 1), .commit (wDel 4 2)]
    OpsOk (openDB { seg := 100 } []).1 ops ∧ OpsRecOk ops ∧ (ops.foldl stepOp (openDB { seg := 100 } []).1).opt.mode = 0 ∧
    (getAll (ops.foldl stepOp (openDB { seg := 100 } []).1) [97] 5).map pairsOf = .ok [([1], List.replicate 16 120)] := by
  refine ⟨⟨⟨by simp [wPut], 1, ?_⟩, ⟨by simp [wPut], 2, ?_⟩, ⟨by simp [wPut], 3, ?_⟩, ⟨by simp [wDel], 4, ?_⟩, trivial⟩, ?_, by decide +kernel, by decide +kernel⟩
  · intro r hr; simp only [wPut, List.mem_singleton] at hr; subst hr; decide +kernel
  · intro r hr; simp only [wPut, List.mem_singleton] at hr; subst hr; decide +kernel
  · intro r hr; simp only [wPut, List.mem_singleton] at hr; subst hr; decide +kernel
  · intro r hr; simp only [wDel, List.mem_singleton] at hr; subst hr; decide +kernel
  · intro t ht r hr
    simp only [List.mem_cons, List.mem_nil_iff, or_false, Op.commit.injEq, reduceCtorEq, false_or] at ht
    rcases ht with rfl | rfl | rfl | rfl <;>
      (first | (simp only [wPut, List.mem_singleton] at hr; subst hr; refine ⟨Or.inl rfl, by decide⟩)
             | (simp only [wDel, List.mem_singleton] at hr; subst hr; refine ⟨Or.inr rfl, by decide⟩))

/-- **regenerated tie of the split points.** The tree the refinement theorems are about splits where bptree.go
splits now: `order` and `getSplitIndex` are regenerated from the source on this run. -/
theorem C01_split_points_regenerated :
    NutsProofs.Facts.lookup NutsGen.F.consts "order" = some 8 ∧ (NutsGen.K.getSplitIndex.run 8).vals = [4] ∧
    (NutsGen.K.getSplitIndex.run 7).vals = [4] ∧ Nuts.Model.BPTree.maxKeys = 7 :=
  NutsProofs.Facts.bptree_split_points


/-- **regenerated tie of the B+ tree model.** The comparisons of `FindLeaf` / `Find` / `insertIntoLeaf`, the loop
headers, offset and limit counters and stop conditions of `findRange` / `PrefixScan` / `PrefixSearchScan`, the
capacity tests of `Insert` / `insertIntoParent` and the split indexes of `splitLeaf` / `splitParent` — the
lines `Nuts.Model.BPTree` renders — are, on this run, exactly the expected ones
(`NutsProofs.Facts.expectedBptStmts`, 86 lines of bptree.go). -/
theorem C01_tree_statements_regenerated : NutsGen.F.bptStmts = NutsProofs.Facts.expectedBptStmts :=
  NutsProofs.Facts.bpt_statements_ok

end NutsProofs.C01
