/-
  C01 — Key/value reads match an ordered map with TTL (RAM index modes).
-/
import Nuts.Model.Tx
import NutsProofs.Lemmas.Assoc
import NutsProofs.Props.C04
import NutsProofs.Lemmas.BPTreeRefine
namespace NutsProofs.C01
open Nuts Nuts.Model Nuts.Model.DB NutsProofs

/-- every bucket's index is strictly ascending in `bytes.Compare` order -/
def KVSorted (s : State) : Prop := ∀ b m, aget? s.kv b = some m → Sorted m

theorem kvSorted_init : KVSorted ({} : State) := by
  intro b m h; simp [aget?] at h

theorem applyKV_sorted (s : State) (r : Rec) (fid pos : Nat) (h : KVSorted s) : KVSorted (applyKV s r fid pos) := by
  intro b m hm
  unfold applyKV at hm
  by_cases hb : b = r.bucket
  · subst hb
    simp only [aget_aput_self] at hm
    cases hm
    apply upsert_sorted
    cases hq : aget? s.kv r.bucket with
    | none => simp [Sorted]
    | some m0 => simpa using h _ _ hq
  · simp only [aget_aput_other _ _ _ _ hb] at hm
    exact h b m hm

theorem kv_congr_sorted (s s' : State) (hk : s'.kv = s.kv) (h : KVSorted s) : KVSorted s' := by
  intro b m hm; rw [hk] at hm; exact h b m hm

theorem writeRec_sorted (s : State) (r : Rec) (last : Bool) (h : KVSorted s) : KVSorted (writeRec s r last) := by
  unfold writeRec
  have h1 : KVSorted (preRotate s r) := by
    apply kv_congr_sorted s _ _ h; unfold preRotate; split <;> rfl
  simp only
  split
  · apply applyKV_sorted
    apply kv_congr_sorted (preRotate s r) _ _ h1
    cases last <;> rfl
  · apply kv_congr_sorted (preRotate s r) _ _ h1
    cases last <;> rfl

theorem commitLoop_sorted (recs : List Rec) (s : State) (h : KVSorted s) : KVSorted (commitLoop s recs).1 := by
  induction recs generalizing s with
  | nil => exact h
  | cons r rest ih =>
    simp only [commitLoop]
    split
    · exact h
    · exact ih _ (writeRec_sorted s r _ h)

theorem applyOther_kv (s : State) (r : Rec) (c : Bool) : (applyOther s r c).1.kv = s.kv := by
  unfold applyOther
  split
  · rfl
  · split
    · rfl
    · split <;> rfl

theorem buildIdxes_kv (recs : List Rec) (s : State) : (buildIdxes s recs).1.kv = s.kv := by
  induction recs generalizing s with
  | nil => rfl
  | cons r rest ih =>
    simp only [buildIdxes]
    split
    · exact applyOther_kv s r true
    · rw [ih, applyOther_kv]

/-- **Order invariant.** Whatever is committed (or half-committed), every bucket index stays strictly
ascending by key — so every scan, which walks the index in order, returns ascending keys. -/
theorem commit_sorted (s : State) (recs : List Rec) (h : KVSorted s) : KVSorted (commit s recs).1 := by
  unfold commit
  split
  · exact h
  · have h1 := commitLoop_sorted recs s h
    generalize commitLoop s recs = p at h1 ⊢
    obtain ⟨s1, fine⟩ := p
    cases fine
    · simpa using h1
    · simp only [Bool.not_true, Bool.false_eq_true, ↓reduceIte]
      split <;> exact kv_congr_sorted s1 _ (buildIdxes_kv recs s1) h1

/-- the wrapper returns a subsequence of the records it is given (mode 0: the indexed entries) -/
theorem wrapper_sublist (s : State) (hm : s.opt.mode = 0) (now : Nat) (lim : Int) (recs : List Idx)
    (acc out : List (Option Rec)) (h : wrapper s recs lim now acc = .ok out) :
    ∃ sub : List Idx, sub.Sublist recs ∧ out = acc ++ sub.map fun i => some i.r := by
  induction recs generalizing acc with
  | nil => simp [wrapper] at h; exact ⟨[], List.Sublist.refl _, by simp [h]⟩
  | cons i rest ih =>
    simp only [wrapper] at h
    split at h
    · obtain ⟨sub, h1, h2⟩ := ih acc h
      exact ⟨sub, h1.cons _, h2⟩
    · split at h
      · simp only [fetch, hm, BEq.rfl, ↓reduceIte] at h
        obtain ⟨sub, h1, h2⟩ := ih _ h
        exact ⟨i :: sub, h1.cons₂ _, by simp [h2]⟩
      · obtain ⟨sub, h1, h2⟩ := ih acc h
        exact ⟨sub, h1.cons _, h2⟩

/-- **C01 (order).** `GetAll` in key+value mode returns entries whose keys are strictly ascending. -/
theorem getAll_ascending (s : State) (hm : s.opt.mode = 0) (hs : KVSorted s) (b : Bytes) (now : Nat)
    (out : List (Option Rec)) (h : getAll s b now = .ok out) :
    ∃ sub : List (Bytes × Idx), Sorted sub ∧ out = sub.map fun p => some p.2.r := by
  unfold getAll bucketIdx at h
  cases hq : aget? s.kv b with
  | none => simp [hq] at h
  | some m =>
    simp only [hq] at h
    split at h
    · cases h
    · have hw : ∃ o, wrapper s (m.map (·.2)) (-1) now = .ok o ∧ out = o := by
        generalize wrapper s (m.map (·.2)) (-1) now = w at h
        cases w with
        | ok o =>
          refine ⟨o, rfl, ?_⟩
          cases o with
          | nil => simp [nonEmptyOrErr] at h
          | cons x xs => simp [nonEmptyOrErr] at h; exact h.symm
        | err => simp [nonEmptyOrErr] at h
        | panic => simp [nonEmptyOrErr] at h
      obtain ⟨o, ho, rfl⟩ := hw
      obtain ⟨sub, h1, h2⟩ := wrapper_sublist s hm now (-1) _ [] out ho
      obtain ⟨sub', hs', rfl⟩ := List.sublist_map_iff.mp h1
      refine ⟨sub', ?_, by simp [h2]⟩
      exact List.Pairwise.sublist hs' (hs b m hq)

/-- **C01 (last write wins).** After a successful single-record commit of `Put(b, k, v)` the index of
bucket `b` maps `k` to exactly that record, and every other key of the bucket keeps its record. -/
theorem put_then_lookup (s : State) (r : Rec) (hfit : ¬ r.size > s.opt.seg) (hkv : r.ds = dsKV) :
    ((aget? (commit s [r]).1.kv r.bucket).bind (aget? · r.key)).map (·.r) = some { r with status := 1 } ∧
    ∀ k', k' ≠ r.key → (aget? (commit s [r]).1.kv r.bucket).bind (aget? · k') = (aget? s.kv r.bucket).bind (aget? · k') := by
  have hds : ({ r with status := 1 } : Rec).ds == dsKV := by simp [hkv]
  have hc : (commit s [r]).1 = writeRec s r true := by
    simp [commit, commitLoop, hfit, buildIdxes, applyOther, hkv, dsKV, dsSet, dsZSet, dsList, Outcome.isPanic]
  rw [hc]
  unfold writeRec
  simp only [markLast, ↓reduceIte, hds]
  unfold applyKV
  simp only [aget_aput_self, Option.bind_some]
  constructor
  · simp [aget_upsert_self]
  · intro k' hk'
    rw [aget_upsert_other _ _ _ _ hk']
    have : (noteCommitted (appendRec (preRotate s r) { r with status := 1 }) r.txid).kv = s.kv := by
      unfold noteCommitted appendRec preRotate; split <;> rfl
    simp only [this]
    cases aget? s.kv r.bucket <;> simp [aget?]

example : KVSorted (commit {} [mkRec [97] [98] [1] flagSet dsKV, mkRec [97] [97] [2] flagSet dsKV]).1 :=
  commit_sorted _ _ kvSorted_init

/-! ### the index really is a B+ tree

The DB model keeps each bucket's index as a sorted association list (`upsert`, `aget?`). The code keeps it
as a B+ tree of order 8 (bptree.go); `Nuts.Model.BPTree` is that tree, insertion with the Go split rules
included, and the `bpt-ds` suite compares it with `BPTree.Insert/Find/…` node for node. The theorems below
discharge the abstraction: for every sequence of insertions the tree is well formed, its leaf chain is the
sorted list, and `Find` is the list lookup. -/

open Nuts.Model.BPTree NutsProofs.BPT in
/-- **C01 (index refinement).** After any sequence of `Insert`s into an empty B+ tree — every leaf split,
inner split and root split included — the leaf chain is exactly the `upsert` fold the DB model uses, it is
strictly ascending, and `Find` returns what `aget?` returns on it. -/
theorem C01_tree_index_refines_sorted_list (ops : List (Bytes × Idx)) (k : Bytes) :
    let t := ops.foldl (fun t p => Tree.insert t p.1 p.2) (none : Tree Idx)
    let m := ops.foldl (fun m p => upsert m p.1 p.2) ([] : Assoc Idx)
    t.toList = m ∧ Sorted m ∧ t.find k = aget? m k := by
  obtain ⟨hwf, htl⟩ := Tree.inserts_refine ops
  refine ⟨htl, ?_, ?_⟩
  · rw [← htl]; exact Tree.sorted _ hwf
  · rw [← htl]; exact Tree.find_eq_aget _ hwf k

open Nuts.Model.BPTree NutsProofs.BPT in
/-- one more `Insert` into a well-formed tree is one more `upsert` — the step form, for trees that were
not built from empty in one go (reopen rebuilds the tree in replay order) -/
theorem C01_tree_insert_step (t : Tree Idx) (h : Tree.WF t) (k : Bytes) (v : Idx) :
    (Tree.insert t k v).toList = upsert t.toList k v ∧ Tree.WF (Tree.insert t k v) :=
  Tree.insert_refines t h k v

/-- depth of a tree (1 = a single leaf) -/
def treeDepth {α} : Nuts.Model.BPTree.Node α → Nat
  | .leaf _ => 1
  | .inner c0 _ => treeDepth c0 + 1

/-- the theorems are about trees that do split: 40 ascending insertions make a tree of depth 3 -/
theorem C01_witness_tree_splits :
    ((((List.range 40).map fun i => ([i.toUInt8], i)).foldl
        (fun t p => Nuts.Model.BPTree.Tree.insert t p.1 p.2) (none : Nuts.Model.BPTree.Tree Nat)).map treeDepth) = some 3 := by
  decide +kernel

end NutsProofs.C01
