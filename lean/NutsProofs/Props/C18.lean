/-
  Property C18 — Backup captures a consistent, openable copy.

  `DB.Backup(dir)` is `db.View(func(tx) { CopyDir(db.opt.Dir, dir) })`: a read-mode transaction whose steps
  copy the data files one after another. In the protocol model of C14 that is a read-mode program over the
  database model's state whose i-th step observes the i-th file and changes nothing.

  Proved:
    * `backup_pure`, `backup_copies_files` — the program is `ReadPure`, and run alone from a state it yields,
      position by position, that state's files;
    * `C18_backup_consistent` — under **any** schedule with any number of concurrent writers and readers, when
      the backup transaction has finished, what it copied is exactly the file set of the database state at
      the moment it acquired the read lock — no mixture of earlier and later files (from `C14_snapshot`);
    * `C18_copy_opens_like_the_original` — `Open` is a function of the files: the copy opens to exactly the
      state the original directory would open to (same index, same committed set), under any options.
  Carried by the correspondence (suite `conc … -backup`): that the real `CopyDir` copies what the model's
  files abstract, that the copy opens, and that its observation equals the spec state at the backup's
  position in the lock order. Beyond the model (partial): coherence of file reads with a shared mapping
  (MMap mode) — OS behaviour.
-/
import NutsProofs.Props.C14
import Nuts.Model.DB
import NutsProofs.Pins.Backup
namespace NutsProofs.C18
open Nuts.Model.Conc Nuts.Model.DB NutsProofs.Conc

/-- the i-th step of a backup: look at the i-th data file (`none` when the directory has fewer) -/
def copyStep (i : Nat) : State → State × Option File := fun s => (s, s.files[i]?)

/-- Backup of a directory with (at most) `n` data files -/
def backupProg (n : Nat) : TxProg State (Option File) := ⟨.r, (List.range n).map copyStep⟩

theorem backup_pure (n : Nat) : (backupProg n).ReadPure := by
  intro _ f hf s
  simp only [backupProg, List.mem_map] at hf
  obtain ⟨i, _, rfl⟩ := hf
  rfl

theorem run_copySteps (l : List Nat) (s : State) :
    run (l.map copyStep) s = (s, l.map fun i => s.files[i]?) := by
  induction l with
  | nil => rfl
  | cons i rest ih => simp [run, ih, copyStep]

/-- run alone, the backup program yields, file by file, the files of the state it runs in -/
theorem backup_copies_files (n : Nat) (s : State) :
    (run (backupProg n).steps s).2 = (List.range n).map fun i => s.files[i]? := by
  simp only [backupProg, run_copySteps]

/-- **Consistency under concurrency.** Whatever the other threads do and however they are scheduled, a
finished backup transaction has copied, position by position, exactly the data files of the one database
state it found when it acquired the read lock — never a mixture of files of different states. -/
theorem C18_backup_consistent (progs : List (TxProg State (Option File))) (st0 : State)
    (hpure : ∀ p ∈ progs, p.ReadPure) (sys : Sys State (Option File)) (hr : Reach (initSys st0 progs) sys)
    (i : Nat) (t : Thread State (Option File)) (hi : sys.threads[i]? = some t) (n : Nat)
    (hprog : t.prog = backupProg n) (hdone : t.phase = .done) :
    t.obs = (List.range n).map fun k => t.s0.files[k]? := by
  have := (C14.C14_snapshot progs st0 hpure sys hr i t hi).2 hdone
  rw [this, hprog]
  exact backup_copies_files n t.s0

/-- **The copy opens like the original**: `Open` depends on the files only. -/
theorem C18_copy_opens_like_the_original (o : Opts) (original copy : List File) (h : copy = original) :
    openDB o copy = openDB o original := by rw [h]

/-- non-vacuity: a backup of a two-file state, run alone -/
example : ((run (backupProg 2).steps { files := [{ fid := 0, recs := [] }, { fid := 1, recs := [] }] }).2.filterMap id).map (·.fid) = [0, 1] := by
  rw [backup_copies_files]; decide

/-- **regenerated premise of the theorems above.** `backupProg` models `Backup` as one read-mode transaction
whose steps copy the files. That shape is read off the source on every run: the body of `DB.Backup` is the call
of `db.View` and nothing else, and the function it passes calls `filesystem.CopyDir` only. A Backup that reads
or copies anything before taking (or after releasing) the read lock breaks this obligation. -/
theorem C18_backup_is_one_read_transaction :
    NutsGen.F.backupShape = (["DB.View"], [], ["filesystem.CopyDir"]) := NutsProofs.Facts.backup_under_read_lock

end NutsProofs.C18
