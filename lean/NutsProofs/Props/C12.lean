/-
  C12 — Failed, rolled-back and read-only transactions have no effect.
-/
import Nuts.Model.Tx
import NutsProofs.Props.C04
import NutsProofs.Facts
namespace NutsProofs.C12
open Nuts Nuts.Model Nuts.Model.DB NutsProofs NutsProofs.C04

/-- A commit that fails at its first record (entry larger than the segment) changes nothing at all. -/
theorem commit_oversize_first (s : State) (r : Rec) (rest : List Rec) (h : r.size > s.opt.seg) :
    commit s (r :: rest) = (s, .err) := by
  simp [commit, commitLoop, h]

/-- A read-only transaction cannot append a record, whatever the operation is. -/
theorem txPut_readonly (t : Tx) (r : Rec) (h : t.writable = false) : txPut t r = (t, .err) := by
  unfold txPut; split
  · rfl
  · simp [h]

/-- Neither can a finished one. -/
theorem txPut_closed (t : Tx) (r : Rec) (h : t.closed = true) : txPut t r = (t, .err) := by
  simp [txPut, h]

theorem txPutAll_readonly (t : Tx) (mk : Bytes → Rec) (vs : List Bytes) (h : t.writable = false) :
    (txPutAll t mk vs).1 = t := by
  cases vs with
  | nil => rfl
  | cons v rest => simp [txPutAll, txPut_readonly t (mk v) h]

/-- one iteration of the write loop touches the indexes only for a KV record -/
theorem writeRec_view_nonkv (s : State) (r : Rec) (last : Bool) (b : Bytes) (h : r.ds ≠ dsKV) :
    view (writeRec s r last) b = view s b := by
  have hds : ((markLast r last).ds == dsKV) = false := by
    cases last <;> simpa [markLast] using h
  unfold writeRec
  simp only [hds]
  rw [← preRotate_view s r b]
  cases last <;> rfl

theorem commitLoop_view_nonkv (recs : List Rec) (s : State) (b : Bytes) (h : ∀ r ∈ recs, r.ds ≠ dsKV) :
    view (commitLoop s recs).1 b = view s b := by
  induction recs generalizing s with
  | nil => rfl
  | cons r rest ih =>
    simp only [commitLoop]
    split
    · rfl
    · rw [ih _ (fun x hx => h x (by simp [hx])), writeRec_view_nonkv s r _ b (h r (by simp))]

/-- **C12 (in process, structure records).** When Commit fails inside its write loop and the
transaction holds list/set/sorted-set records only, no index of any bucket has changed: those records
are applied only after the loop has completed. -/
theorem C12_failed_commit_structs_no_effect (s : State) (recs : List Rec) (b : Bytes)
    (hk : ∀ r ∈ recs, r.ds ≠ dsKV) (hfail : (commit s recs).2 = .err) :
    view (commit s recs).1 b = view s b := by
  unfold commit at hfail ⊢
  split at hfail
  · cases hfail
  · rename_i hne
    simp only [hne, Bool.false_eq_true, ↓reduceIte]
    have h1 := commitLoop_view_nonkv recs s b hk
    generalize commitLoop s recs = p at h1 hfail ⊢
    obtain ⟨s1, fine⟩ := p
    cases fine
    · simpa using h1
    · simp only [Bool.not_true, Bool.false_eq_true, ↓reduceIte] at hfail
      split at hfail <;> cases hfail

/-- Witness of finding D-COMMIT-PARTIAL: `k = v0` is committed; the transaction `[put k v1, put big]`
fails at its second record, yet afterwards `Get k` no longer finds `v0` and `GetAll` returns the
uncommitted `v1`. -/
def w0 : State := (commit (openDB { seg := 100 } []).1
  [{ (mkRec [97] [107] [48] flagSet dsKV) with txid := 1 }]).1

def wFail := commit w0 [{ (mkRec [97] [107] [49] flagSet dsKV) with txid := 2 },
                        { (mkRec [97] [108] (List.replicate 100 66) flagSet dsKV) with txid := 2 }]

theorem C12_witness_partial_index :
    wFail.2 = .err ∧ get w0 [97] [107] 0 = .ok (some { (mkRec [97] [107] [48] flagSet dsKV) with txid := 1, status := 1 }) ∧
    get wFail.1 [97] [107] 0 = .err ∧
    (getAll wFail.1 [97] 0).map (fun l => l.map fun o => o.map (·.value)) = .ok [some [49]] := by
  decide

/-- regenerated facts used above: the oversize test is the first thing the loop does to a record, and
every exported Tx method except the listed ones detects a finished transaction before touching `tx.db` -/
theorem C12_size_test_first :
    NutsGen.F.commitLoop.head? = some ("return", "entrySize > tx.db.opt.SegmentSize", "return ErrKeyAndValSize") :=
  Facts.commit_size_tests.1

theorem C12_closed_checks :
    (NutsGen.F.closedChecks.filter (fun p => !p.2)).map (·.1) = Facts.closedExceptions := Facts.closed_checks_ok

end NutsProofs.C12
