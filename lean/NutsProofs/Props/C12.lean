/-
  C12 — Failed, rolled-back and read-only transactions have no effect.
-/
import Nuts.Model.Tx
import NutsProofs.Props.C04
import NutsProofs.Pins.Commit
import NutsProofs.Pins.Closed
import NutsProofs.Lemmas.ReopenAll
import NutsProofs.Pins.TxApi
import NutsProofs.Pins.TxApiList
import NutsProofs.Pins.TxApiSet
import NutsProofs.Pins.TxApiZset
namespace NutsProofs.C12
open Nuts Nuts.Model Nuts.Model.DB NutsProofs NutsProofs.C04

/-- A commit that fails at its first record (entry larger than the segment) changes nothing at all. -/
theorem commit_oversize_first (s : State) (r : Rec) (rest : List Rec) (h : r.size > s.opt.seg) :
    commit s (r :: rest) = (s, .err) := by
  simp [commit, commitLoop, h]

/-- A read-only transaction cannot append a record, whatever the operation is. -/
theorem txPut_readonly (t : Tx) (r : Rec) (h : t.writable = false) : txPut t r = (t, .err) := by
  unfold txPut; split
  · rfl
  · simp [h]

/-- Neither can a finished one. -/
theorem txPut_closed (t : Tx) (r : Rec) (h : t.closed = true) : txPut t r = (t, .err) := by
  simp [txPut, h]

theorem txPutAll_readonly (t : Tx) (mk : Bytes → Rec) (vs : List Bytes) (h : t.writable = false) :
    (txPutAll t mk vs).1 = t := by
  cases vs with
  | nil => rfl
  | cons v rest => simp [txPutAll, txPut_readonly t (mk v) h]

/-- one iteration of the write loop touches the indexes only for a KV record -/
theorem writeRec_view_nonkv (s : State) (r : Rec) (last : Bool) (b : Bytes) (h : r.ds ≠ dsKV) :
    view (writeRec s r last) b = view s b := by
  have hds : ((markLast r last).ds == dsKV) = false := by
    cases last <;> simpa [markLast] using h
  unfold writeRec
  simp only [hds]
  rw [← preRotate_view s r b]
  cases last <;> rfl

theorem commitLoop_view_nonkv (recs : List Rec) (s : State) (b : Bytes) (h : ∀ r ∈ recs, r.ds ≠ dsKV) :
    view (commitLoop s recs).1 b = view s b := by
  induction recs generalizing s with
  | nil => rfl
  | cons r rest ih =>
    simp only [commitLoop]
    split
    · rfl
    · rw [ih _ (fun x hx => h x (by simp [hx])), writeRec_view_nonkv s r _ b (h r (by simp))]

/-- **C12 (in process, structure records).** When Commit fails inside its write loop and the
transaction holds list/set/sorted-set records only, no index of any bucket has changed: those records
are applied only after the loop has completed. -/
theorem C12_failed_commit_structs_no_effect (s : State) (recs : List Rec) (b : Bytes)
    (hk : ∀ r ∈ recs, r.ds ≠ dsKV) (hfail : (commit s recs).2 = .err) :
    view (commit s recs).1 b = view s b := by
  unfold commit at hfail ⊢
  split at hfail
  · cases hfail
  · rename_i hne
    simp only [hne, Bool.false_eq_true, ↓reduceIte]
    have h1 := commitLoop_view_nonkv recs s b hk
    generalize commitLoop s recs = p at h1 hfail ⊢
    obtain ⟨s1, fine⟩ := p
    cases fine
    · simpa using h1
    · simp only [Bool.not_true, Bool.false_eq_true, ↓reduceIte] at hfail
      split at hfail <;> cases hfail

/-! ### injected write errors (the `WriteAt` of record `i` returns an error, nothing reaches the file) -/

/-- without a fault the faulting commit is the commit -/
theorem commitLoopF_none (recs : List Rec) (s : State) : commitLoopF s recs none = commitLoop s recs := by
  induction recs generalizing s with
  | nil => rfl
  | cons r rest ih =>
    simp only [commitLoopF, commitLoop]
    split
    · rfl
    · simp [ih]

theorem commitF_none (s : State) (recs : List Rec) : commitF s recs none = commit s recs := by
  simp [commitF, commit, commitLoopF_none]

theorem mem_fileEnsure_of_mem (fs : List File) (fid : Nat) (f : File) (h : f ∈ fs) : f ∈ fileEnsure fs fid := by
  unfold fileEnsure
  split
  · exact h
  · simp only [List.partition_eq_filter_filter, List.mem_append, List.mem_filter, List.mem_singleton]
    by_cases hlt : f.fid < fid
    · left; left; exact ⟨h, by simpa using hlt⟩
    · right; exact ⟨h, by simpa using hlt⟩

theorem mem_fileEnsure (fs : List File) (fid : Nat) (f : File) (h : f ∈ fileEnsure fs fid) : f ∈ fs ∨ f.recs = [] := by
  unfold fileEnsure at h
  split at h
  · left; exact h
  · simp only [List.partition_eq_filter_filter, List.mem_append, List.mem_filter, List.mem_singleton] at h
    rcases h with (⟨h, _⟩ | h) | ⟨h, _⟩
    · left; exact h
    · right; rw [h]
    · left; exact h

/-- **C12 (I/O error at the first write).** When the very first `WriteAt` of a commit fails, Commit returns
an error and the database is as before, except that the rotation which preceded the write may have
created a new, empty active file: every index of every bucket, the set of committed transaction ids and
the records of every existing data file are unchanged (so reads are unchanged in process and after reopen). -/
theorem C12_write_error_first_record (s : State) (r : Rec) (rest : List Rec) (hfit : ¬ r.size > s.opt.seg) :
    commitF s (r :: rest) (some 0) = (preRotate s r, .err) ∧
    (∀ b, view (preRotate s r) b = view s b) ∧
    (preRotate s r).committed = s.committed ∧
    (∀ f ∈ s.files, f ∈ (preRotate s r).files) ∧
    (∀ f ∈ (preRotate s r).files, f ∈ s.files ∨ f.recs = []) := by
  refine ⟨by simp [commitF, commitLoopF, hfit], fun b => preRotate_view s r b, ?_, ?_, ?_⟩
  · unfold preRotate rotate; split <;> rfl
  · intro f hf
    unfold preRotate rotate
    split
    · exact mem_fileEnsure_of_mem _ _ _ hf
    · exact hf
  · intro f hf
    unfold preRotate rotate at hf
    split at hf
    · exact mem_fileEnsure _ _ _ hf
    · left; exact hf

/-- **C12 (I/O error, structure records).** When a write fails at any position of a transaction that holds
list/set/sorted-set records only, no index of any bucket has changed. -/
theorem commitLoopF_view_nonkv (recs : List Rec) (s : State) (fa : Option Nat) (b : Bytes) (h : ∀ r ∈ recs, r.ds ≠ dsKV) :
    view (commitLoopF s recs fa).1 b = view s b := by
  induction recs generalizing s fa with
  | nil => rfl
  | cons r rest ih =>
    simp only [commitLoopF]
    split
    · rfl
    · split
      · exact preRotate_view s r b
      · rw [ih _ _ (fun x hx => h x (by simp [hx])), writeRec_view_nonkv s r _ b (h r (by simp))]

theorem C12_write_error_structs_no_effect (s : State) (recs : List Rec) (fa : Option Nat) (b : Bytes)
    (hk : ∀ r ∈ recs, r.ds ≠ dsKV) (hfail : (commitF s recs fa).2 = .err) :
    view (commitF s recs fa).1 b = view s b := by
  unfold commitF at hfail ⊢
  split at hfail
  · cases hfail
  · rename_i hne
    simp only [hne, Bool.false_eq_true, ↓reduceIte]
    have h1 := commitLoopF_view_nonkv recs s fa b hk
    generalize commitLoopF s recs fa = p at h1 hfail ⊢
    obtain ⟨s1, fine⟩ := p
    cases fine
    · simpa using h1
    · simp only [Bool.not_true, Bool.false_eq_true, ↓reduceIte] at hfail
      split at hfail <;> cases hfail

/-- the hypotheses are satisfiable: a two-record list transaction whose second write fails -/
example : (commitF (openDB { seg := 200 } []).1
    [{ (mkRec [97] [107] [48] flagRPush dsList) with txid := 7 }, { (mkRec [97] [107] [49] flagRPush dsList) with txid := 7 }] (some 1)).2 = .err := by
  decide

/-- Witness of finding D-COMMIT-PARTIAL: `k = v0` is committed; the transaction `[put k v1, put big]`
fails at its second record, yet afterwards `Get k` no longer finds `v0` and `GetAll` returns the
uncommitted `v1`. -/
def w0 : State := (commit (openDB { seg := 100 } []).1
  [{ (mkRec [97] [107] [48] flagSet dsKV) with txid := 1 }]).1

def wFail := commit w0 [{ (mkRec [97] [107] [49] flagSet dsKV) with txid := 2 },
                        { (mkRec [97] [108] (List.replicate 100 66) flagSet dsKV) with txid := 2 }]

theorem C12_witness_partial_index :
    wFail.2 = .err ∧ get w0 [97] [107] 0 = .ok (some { (mkRec [97] [107] [48] flagSet dsKV) with txid := 1, status := 1 }) ∧
    get wFail.1 [97] [107] 0 = .err ∧
    (getAll wFail.1 [97] 0).map (fun l => l.map fun o => o.map (·.value)) = .ok [some [49]] := by
  decide

/-- regenerated facts used above: the oversize test is the first thing the loop does to a record, and
every exported Tx method except the listed ones detects a finished transaction before touching `tx.db` -/
theorem C12_size_test_first :
    NutsGen.F.commitLoop.head? = some ("return", "entrySize > tx.db.opt.SegmentSize", "return ErrKeyAndValSize") :=
  Facts.commit_size_tests.1

theorem C12_closed_checks :
    (NutsGen.F.closedChecks.filter (fun p => !p.2)).map (·.1) = Facts.closedExceptions := Facts.closed_checks_ok

/-! ### a failed Commit after a reopen

In the running process a Commit that fails at its `i`-th record (`i ≥ 1`) has already written and — key/value
records — indexed the records before it (finding D-COMMIT-PARTIAL, witness above). On disk those records carry
no commit mark, so recovery ignores them: after a reopen the failed transaction has no effect in any structure. -/

open NutsProofs.Reopen NutsProofs.ReopenAll in
/-- the write loop that meets an oversized record after `pre`: it stops there, having written `pre` unmarked -/
theorem commitLoop_fail_prefix (pre : List Rec) (big : Rec) (post : List Rec) (s : State)
    (hpre : ∀ r ∈ pre, ¬ r.size > s.opt.seg) (hbig : big.size > s.opt.seg)
    (hopt : ∀ (u : State) (r : Rec) (l : Bool), (writeRec u r l).opt = u.opt) :
    commitLoop s (pre ++ big :: post) = (pre.foldl (fun s r => writeRec s r false) s, false) := by
  induction pre generalizing s with
  | nil => simp [commitLoop, hbig]
  | cons r rest ih =>
    have hr := hpre r (by simp)
    have hne : (rest ++ big :: post).isEmpty = false := by cases rest <;> rfl
    simp only [List.cons_append, commitLoop, hr, if_false, hne, List.foldl_cons]
    exact ih (writeRec s r false) (fun q hq => by rw [hopt]; exact hpre q (by simp [hq])) (by rw [hopt]; exact hbig)

theorem writeRec_opt (u : State) (r : Rec) (l : Bool) : (writeRec u r l).opt = u.opt := by
  unfold writeRec preRotate
  simp only []
  split <;> split <;> split <;> rfl

open NutsProofs.Reopen NutsProofs.ReopenAll in
/-- **C12 (a failed Commit, after reopen; all structures, key+value mode, every history).** After any history
of successfully committed transactions (any structures, reopens anywhere), a transaction with a fresh id whose
records `pre` fit but whose next record is larger than the segment size is committed: `Commit` returns an error,
and after closing and reopening in key+value mode the key/value index, the lists, the sets, the sorted sets and
the committed ids are exactly those before the transaction — whatever `pre` wrote to the files. -/
theorem C12_failed_commit_invisible_after_reopen (opt0 : Opts) (ops : List OpA) (hok : OpsOkA (openDB opt0 []).1 ops)
    (pre : List Rec) (big : Rec) (post : List Rec) (tid : Nat)
    (hpre : ∀ r ∈ pre, ¬ r.size > (ops.foldl stepA (openDB opt0 []).1).opt.seg)
    (hbig : big.size > (ops.foldl stepA (openDB opt0 []).1).opt.seg)
    (ht : ∀ r ∈ pre ++ big :: post, r.txid = tid ∧ r.status = 0)
    (hfresh : ∀ x ∈ allRecs (ops.foldl stepA (openDB opt0 []).1).files, x.1.txid ≠ tid)
    (opt : Opts) (hm : opt.mode = 0) :
    let s := ops.foldl stepA (openDB opt0 []).1
    let sf := (commit s (pre ++ big :: post)).1
    (commit s (pre ++ big :: post)).2 = .err ∧
    (openDB opt sf.files).2 = .ok () ∧ (openDB opt sf.files).1.kv = normKV s.kv ∧
    (openDB opt sf.files).1.lists = s.lists ∧ (openDB opt sf.files).1.sets = s.sets ∧
    (openDB opt sf.files).1.zsets = s.zsets ∧
    (∀ id, id ∈ (openDB opt sf.files).1.committed ↔ id ∈ s.committed) := by
  intro s sf
  have hinv : AllInv s := allInv_ops ops _ (allInv_init opt0) hok
  have hloop := commitLoop_fail_prefix pre big post s hpre hbig writeRec_opt
  have hne : (pre ++ big :: post).isEmpty = false := by cases pre <;> rfl
  have hcommit : commit s (pre ++ big :: post) = (pre.foldl (fun s r => writeRec s r false) s, .err) := by
    unfold commit
    simp only [hne, Bool.false_eq_true, if_false, hloop, Bool.not_false, if_true]
  have hsf : sf = crashAfterA s (pre ++ big :: post) pre.length := by
    show (commit s (pre ++ big :: post)).1 = _
    rw [hcommit]
    unfold crashAfterA
    simp
  obtain ⟨h1, h2, h3, h4⟩ := crash_in_commit_any s hinv (pre ++ big :: post) tid pre.length ht hfresh opt hm
  rw [← hsf] at h1 h2 h3 h4
  exact ⟨by rw [hcommit], h1, h2, congrArg SV.lists h3, congrArg SV.sets h3, congrArg SV.zsets h3, h4⟩

/-! ### A `Sync` error inside `Commit` (`commitS`; injected by the harness as `sfault`) -/

theorem writeRec_files_eq (st : State) (r : Rec) (last : Bool) :
    (writeRec st r last).files = (appendRec (preRotate st r) (markLast r last)).files := by
  unfold writeRec
  simp only []
  split <;> split <;> rfl

/-- the structure-only analogue of `commitLoopF_view_nonkv` for a failing `Sync` -/
theorem commitLoopS_view_nonkv (recs : List Rec) (s : State) (i : Nat) (b : Bytes) (h : ∀ r ∈ recs, r.ds ≠ dsKV) :
    view (commitLoopS s recs i).1 b = view s b := by
  induction recs generalizing s i with
  | nil => rfl
  | cons r rest ih =>
    simp only [commitLoopS]
    split
    · rfl
    · split
      · exact preRotate_view s r b
      · rw [ih _ _ (fun x hx => h x (by simp [hx])), writeRec_view_nonkv s r _ b (h r (by simp))]

/-- **C12 (`Sync` error, structure records).** When the `Sync` after any record of a transaction that holds
list/set/sorted-set records only fails, `Commit` returns the error and no index of any bucket has changed. -/
theorem C12_sync_error_structs_no_effect (s : State) (recs : List Rec) (i : Nat) (b : Bytes)
    (hk : ∀ r ∈ recs, r.ds ≠ dsKV) (hfail : (commitS s recs i).2 = .err) :
    view (commitS s recs i).1 b = view s b := by
  unfold commitS at hfail ⊢
  split at hfail
  · cases hfail
  · rename_i hne
    simp only [hne, Bool.false_eq_true, ↓reduceIte]
    have h1 := commitLoopS_view_nonkv recs s i b hk
    generalize commitLoopS s recs i = p at h1 hfail ⊢
    obtain ⟨s1, fine⟩ := p
    cases fine
    · simpa using h1
    · simp only [Bool.not_true, Bool.false_eq_true, ↓reduceIte] at hfail
      split at hfail <;> cases hfail

open NutsProofs.Reopen NutsProofs.ReopenAll in
/-- what a failing `Sync` after record `i` (short of the last) leaves in the files is what a crash after `i+1`
record writes leaves there -/
theorem commitLoopS_files (recs : List Rec) (s : State) (i : Nat)
    (hfit : ∀ r ∈ recs, ¬ r.size > s.opt.seg) (hi : i + 1 < recs.length) :
    (commitLoopS s recs i).1.files = (crashAfterA s recs (i + 1)).files ∧ (commitLoopS s recs i).2 = false := by
  induction recs generalizing s i with
  | nil => simp at hi
  | cons r rest ih =>
    have hr := hfit r (by simp)
    have hne : rest.isEmpty = false := by
      cases rest with
      | nil => simp at hi
      | cons _ _ => rfl
    cases i with
    | zero =>
      simp only [commitLoopS, hr, if_false, hne, Bool.not_false, Bool.and_true, beq_self_eq_true, if_true]
      refine ⟨?_, trivial⟩
      unfold crashAfterA
      simp only [List.take_succ_cons, List.take_zero, List.foldl_cons, List.foldl_nil]
      rw [writeRec_files_eq]
      unfold appendRec
      rfl
    | succ k =>
      have hk : (k + 1 == 0) = false := by simp
      simp only [commitLoopS, hr, if_false, hk, Bool.false_and, Bool.false_eq_true, hne, Nat.add_sub_cancel]
      have h := ih (writeRec s r false) k
        (fun q hq => by rw [writeRec_opt]; exact hfit q (by simp [hq]))
        (by simp only [List.length_cons] at hi; omega)
      unfold crashAfterA at h ⊢
      simpa using h

open NutsProofs.Reopen NutsProofs.ReopenAll in
/-- **C12 (a `Sync` error inside Commit, after reopen; all structures, key+value mode, every history).** After
any history of successfully committed transactions (any structures, reopens anywhere), let the `Sync` that
follows the write of record `i` of a transaction with a fresh id fail, `i` short of the last record (whose
outcome the property leaves in doubt). `Commit` returns an error, and after closing and reopening in key+value
mode the key/value index, the lists, the sets, the sorted sets and the committed ids are exactly those before
the transaction — although records `0 … i` are in the files. -/
theorem C12_sync_error_invisible_after_reopen (opt0 : Opts) (ops : List OpA) (hok : OpsOkA (openDB opt0 []).1 ops)
    (t : List Rec) (tid i : Nat)
    (hfit : ∀ r ∈ t, ¬ r.size > (ops.foldl stepA (openDB opt0 []).1).opt.seg)
    (hi : i + 1 < t.length)
    (ht : ∀ r ∈ t, r.txid = tid ∧ r.status = 0)
    (hfresh : ∀ x ∈ allRecs (ops.foldl stepA (openDB opt0 []).1).files, x.1.txid ≠ tid)
    (opt : Opts) (hm : opt.mode = 0) :
    let s := ops.foldl stepA (openDB opt0 []).1
    let sf := (commitS s t i).1
    (commitS s t i).2 = .err ∧
    (openDB opt sf.files).2 = .ok () ∧ (openDB opt sf.files).1.kv = normKV s.kv ∧
    (openDB opt sf.files).1.lists = s.lists ∧ (openDB opt sf.files).1.sets = s.sets ∧
    (openDB opt sf.files).1.zsets = s.zsets ∧
    (∀ id, id ∈ (openDB opt sf.files).1.committed ↔ id ∈ s.committed) := by
  intro s sf
  have hinv : AllInv s := allInv_ops ops _ (allInv_init opt0) hok
  obtain ⟨hfiles, hfalse⟩ := commitLoopS_files t s i hfit hi
  have hne : t.isEmpty = false := by
    cases t with
    | nil => simp at hi
    | cons _ _ => rfl
  have hcommit : commitS s t i = ((commitLoopS s t i).1, .err) := by
    unfold commitS
    simp only [hne, Bool.false_eq_true, if_false]
    generalize commitLoopS s t i = p at hfalse ⊢
    obtain ⟨s1, fine⟩ := p
    simp only at hfalse
    subst hfalse
    simp
  have hsf : sf.files = (crashAfterA s t (i + 1)).files := by
    show (commitS s t i).1.files = _
    rw [hcommit]; exact hfiles
  obtain ⟨h1, h2, h3, h4⟩ := crash_in_commit_any s hinv t tid (i + 1) ht hfresh opt hm
  rw [← hsf] at h1 h2 h3 h4
  exact ⟨by rw [hcommit], h1, h2, congrArg SV.lists h3, congrArg SV.sets h3, congrArg SV.zsets h3, h4⟩

/-- the hypotheses are met: a put and a set insertion with a fresh id after one committed put, the `Sync` after
the first record fails — `Commit` returns the error -/
example : (commitS (commit (openDB { seg := 200 } []).1 [{ (mkRec [97] [107] [48] flagSet dsKV) with txid := 1 }]).1
    [{ (mkRec [97] [108] [49] flagSet dsKV) with txid := 7 }, { (mkRec [97] [107] [49] flagSet dsSet) with txid := 7 }] 0).2 = .err := by
  decide

/-- **regenerated tie.** On this run, every call of the transactional API: what it checks before queuing and what it queues — nothing else is done before `Commit` — are the source lines `Nuts.Model.Tx` was written from (`NutsProofs.Facts.expectedTxApiCore` / `List` / `Set` / `Zset`). -/
theorem C12_tx_api_regenerated :
    NutsProofs.Facts.txApiOfCore = NutsProofs.Facts.expectedTxApiCore ∧
    NutsProofs.Facts.txApiOfList = NutsProofs.Facts.expectedTxApiList ∧
    NutsProofs.Facts.txApiOfSet = NutsProofs.Facts.expectedTxApiSet ∧
    NutsProofs.Facts.txApiOfZset = NutsProofs.Facts.expectedTxApiZset :=
  ⟨NutsProofs.Facts.tx_api_core_ok, NutsProofs.Facts.tx_api_list_ok, NutsProofs.Facts.tx_api_set_ok, NutsProofs.Facts.tx_api_zset_ok⟩

end NutsProofs.C12
