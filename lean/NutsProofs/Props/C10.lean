/-
  C10 — A process crash loses no committed transaction and exposes no partial one.

  Record level (`Lemmas/Replay.lean`): recovery replays exactly the records whose transaction has a record
  with the commit mark; records of a transaction without one are ignored wherever they lie, and a
  transaction's records all become visible exactly when its last record is in the log. Ids must be fresh:
  that was violated before the fix of D-TXID.

  History level (`Lemmas/Reopen*.lean`): along every history of key/value commits and reopens the state
  satisfies `Reopen.LogInv`, and from any such state a crash after any number of records of the next
  transaction short of the last one recovers exactly the state before that transaction; once the last record
  is written, exactly the state after it.
-/
import NutsProofs.Lemmas.Replay
import NutsProofs.Lemmas.ReopenCrash
import NutsProofs.Lemmas.ReopenAll
namespace NutsProofs.C10
open Nuts Nuts.Model Nuts.Model.DB NutsProofs

abbrev LogRec := Replay.LogRec

/-- **C10 (no partial transaction), record level.** A log followed by any records of a transaction that
has no commit marker anywhere (a crash before its last write, a failed commit) recovers exactly as the log
alone: same committed ids, same replay — provided the transaction's id is fresh. -/
theorem C10_uncommitted_suffix_invisible (s : State) (log extra : List LogRec)
    (hst : ∀ x ∈ extra, x.1.status = 0)
    (hfresh : ∀ x ∈ extra, ∀ y ∈ log, y.1.txid ≠ x.1.txid) :
    committedIds (log ++ extra) = committedIds log ∧
    replay s (log ++ extra) (committedIds (log ++ extra)) = replay s log (committedIds log) :=
  Replay.uncommitted_suffix_invisible s log extra hst hfresh

/-- **C10 (no committed transaction lost), record level.** Once the last record — the one carrying the
commit marker — is in the log, every record of the transaction is visible to recovery. -/
theorem C10_committed_all_visible (log : List LogRec) (recs : List LogRec) (id : Nat)
    (hid : ∀ x ∈ recs, x.1.txid = id) (hlast : ∃ x ∈ recs, x.1.status = 1) :
    ∀ x ∈ recs, x ∈ Replay.visible (log ++ recs) (committedIds (log ++ recs)) :=
  Replay.committed_all_visible log recs id hid hlast

/-- Witness of the fixed finding D-TXID: with a *shared* id the uncommitted record IS visible, which is why
freshness is a hypothesis (and why every transaction now gets a distinct id). -/
theorem C10_witness_shared_id :
    let committed : LogRec := ({ (mkRec [97] [107] [1] flagSet dsKV) with txid := 7, status := 1 }, 0, 0)
    let residue : LogRec := ({ (mkRec [97] [108] [2] flagSet dsKV) with txid := 7, status := 0 }, 0, 46)
    residue ∈ Replay.visible [committed, residue] (committedIds [committed, residue]) :=
  Replay.witness_shared_id

/-- the two structural facts of `Tx.Commit` (regenerated from the source on every run) that make the
record-level argument apply to the code: the commit marker is set on the last record only, before it is
written; the id enters `committedTxIds` only after that write. -/
theorem C10_commit_marker_facts :
    Facts.items "status" = [("status", "i == lastIndex", "entry.Meta.status = Committed")] ∧
    (NutsGen.F.commitLoop.findIdx? (·.1 == "write")).getD 99 < (NutsGen.F.commitLoop.findIdx? (·.1 == "committedIds")).getD 0 :=
  Replay.commit_marker_facts

open NutsProofs.Reopen in
/-- **C10 (history level: crash before the commit mark).** After any history of key/value transactions and
reopens, a transaction with a fresh id starts to commit and the process dies when `j` of its records — any
number short of the last — have reached the files (rotations included). `Open` on what is left succeeds and
rebuilds exactly the index and the committed ids the database had before the transaction; in the key+value
mode every read then returns what it returned before the transaction began. -/
theorem C10_crash_before_marker_recovers_prestate (opt0 : Opts) (ops : List Op) (hok : OpsOk (openDB opt0 []).1 ops)
    (t : List Rec) (tid : Nat) (j : Nat)
    (ht : ∀ r ∈ t, r.ds = dsKV ∧ r.txid = tid ∧ r.status = 0)
    (hfresh : ∀ x ∈ allRecs (ops.foldl stepOp (openDB opt0 []).1).files, x.1.txid ≠ tid)
    (opt : Opts) :
    let s := ops.foldl stepOp (openDB opt0 []).1
    let s' := (openDB opt (crashAfter s t j).files).1
    (openDB opt (crashAfter s t j).files).2 = .ok () ∧ s'.kv = normKV s.kv ∧ (∀ id, id ∈ s'.committed ↔ id ∈ s.committed) ∧
    (s.opt.mode = 0 → opt.mode = 0 →
      (∀ b k now, vis (DB.get s' b k now) = vis (DB.get s b k now)) ∧
      (∀ b now, visL (getAll s' b now) = visL (getAll s b now)) ∧
      (∀ b st en now, visL (rangeScan s' b st en now) = visL (rangeScan s b st en now)) ∧
      (∀ b pre off lim now mt, visL (prefixScan s' b pre off lim now mt) = visL (prefixScan s b pre off lim now mt))) := by
  intro s s'
  have hinv : LogInv s := logInv_ops ops _ (logInv_init opt0) hok
  obtain ⟨h1, h2, h3⟩ := crash_in_commit_recovers_prestate s hinv t tid j ht hfresh opt
  refine ⟨h1, h2, h3, ?_⟩
  intro hm hm'
  have hopt' : s'.opt.mode = 0 := by
    have : s'.opt = opt.core := Replay.openDB_opt opt _
    rw [this]; exact hm'
  have hr : Rebuilt s s' := Rebuilt.of_mode0 h2 hm hopt' h3
  exact ⟨fun b k now => get_rebuilt hr b k now, fun b now => getAll_rebuilt hr b now,
    fun b st en now => rangeScan_rebuilt hr b st en now,
    fun b pre off lim now mt => prefixScan_rebuilt hr b pre off lim now mt⟩

open NutsProofs.Reopen in
/-- **C10 (history level: crash after the commit mark).** Once `Commit` has written the last record, the
files are those of the state after the transaction, and `Open` rebuilds that state: nothing committed is
lost. (With `C08_reopen_preserves_kv_reads` for what the reads return.) -/
theorem C10_crash_after_marker_recovers_poststate (opt0 : Opts) (ops : List Op) (t : List Rec)
    (hok : OpsOk (openDB opt0 []).1 (ops ++ [Op.commit t])) (opt : Opts) :
    let s := (ops ++ [Op.commit t]).foldl stepOp (openDB opt0 []).1
    (openDB opt s.files).2 = .ok () ∧ (openDB opt s.files).1.kv = normKV s.kv ∧
    (∀ id, id ∈ (openDB opt s.files).1.committed ↔ id ∈ s.committed) := by
  intro s
  have hinv : LogInv s := logInv_ops _ _ (logInv_init opt0) hok
  obtain ⟨h1, h2, _, h4⟩ := open_rebuilds s hinv opt
  exact ⟨h1, h2, h4⟩

open NutsProofs.Reopen NutsProofs.ReopenAll in
/-- **C10 (history level, all structures, key+value mode).** After any history of successfully committed
transactions over key/value, list, set and sorted-set records (with reopens), a transaction with a fresh id
starts to commit and the process dies when `j` of its records — any number short of the last, of any of the
four structures — have reached the files. `Open` on what is left succeeds and rebuilds the key/value index,
the lists, the sets, the sorted sets and the committed ids of the state before the transaction: nothing of
the partial transaction is visible in any structure, nothing committed is lost. -/
theorem C10_crash_before_marker_all_structures (opt0 : Opts) (ops : List OpA) (hok : OpsOkA (openDB opt0 []).1 ops)
    (t : List Rec) (tid : Nat) (j : Nat) (ht : ∀ r ∈ t, r.txid = tid ∧ r.status = 0)
    (hfresh : ∀ x ∈ allRecs (ops.foldl stepA (openDB opt0 []).1).files, x.1.txid ≠ tid)
    (opt : Opts) (hm : opt.mode = 0) :
    let s := ops.foldl stepA (openDB opt0 []).1
    let s' := (openDB opt (crashAfterA s t j).files).1
    (openDB opt (crashAfterA s t j).files).2 = .ok () ∧ s'.kv = normKV s.kv ∧
    s'.lists = s.lists ∧ s'.sets = s.sets ∧ s'.zsets = s.zsets ∧
    (∀ id, id ∈ s'.committed ↔ id ∈ s.committed) := by
  intro s s'
  have hinv : AllInv s := allInv_ops ops _ (allInv_init opt0) hok
  obtain ⟨h1, h2, h3, h4⟩ := crash_in_commit_any s hinv t tid j ht hfresh opt hm
  exact ⟨h1, h2, congrArg SV.lists h3, congrArg SV.sets h3, congrArg SV.zsets h3, h4⟩

end NutsProofs.C10
