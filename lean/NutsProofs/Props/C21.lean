/-
  Property C21 — stored records round-trip and corruption is never served as data.

  Model: Nuts.Model.Codec (the three codecs built from the header tables that tools/extract regenerates
  from /repo's encoder and decoder statements; CRC-32 as a shift register; `ReadAt` of FileIO and MMap).

  Proved here, for **all** field values / payloads / file contexts:
    * round trip of data entries (both access modes, anywhere in a file), bucket metadata and root-index
      records — `C21_entry_roundtrip`, `C21_meta_roundtrip`, `C21_root_roundtrip`;
    * a written entry is never mistaken for the end-of-data marker — part of the round trip (keys are
      non-empty: `tx.put` rejects empty keys);
    * any alteration of exactly one byte of the checksummed part of a record that leaves the three size
      fields intact (in particular every single-bit flip in timestamp, flag, TTL, status, structure code,
      transaction id, bucket, key or value) and any alteration of the stored crc is answered by an error or
      "absent", never by a record — `C21_entry_one_byte`, `C21_entry_crc_field`, `C21_meta_one_byte`.
  Not a theorem (and why): a flip inside a size field or a truncation changes *which* bytes are
  checksummed, so whether the CRC of that other string collides depends on the bytes that follow; those
  cases are enumerated against the implementation by the `codec` suite (every bit of every generated
  record, every truncation length) and reported as tests in the evidence.
-/
import NutsProofs.Lemmas.CodecDec
import NutsProofs.Facts
import NutsProofs.Pins.Layouts
namespace NutsProofs.C21
open Nuts Nuts.Model.Codec NutsProofs.Codec NutsProofs.Crc

/-! ### the regenerated tables are well formed, and encoder and decoder agree on every field -/

theorem entryEnc_wf : EncWF NutsGen.F.entryEnc entryHeaderSize "c32" :=
  ⟨by decide, by decide, by decide, by decide⟩
theorem metaEnc_wf : EncWF NutsGen.F.metaEnc metaHeaderSize "c32" :=
  ⟨by decide, by decide, by decide, by decide⟩
theorem rootEnc_wf : EncWF NutsGen.F.rootEnc rootHeaderSize "c32" :=
  ⟨by decide, by decide, by decide, by decide⟩

/-- the decoder's field of that name (a dummy when there is none) -/
def fieldOf (D : Layout) (n : String) : Field := (D.find? (·.1 == n)).getD ("", 0, 0, 0)

/-- every field the decoder reads, the crc excepted, is a field the encoder writes, at the same bytes -/
def Agree (E D : Layout) : Prop :=
  (∀ d ∈ D, d.1 = "crc" ∨ d ∈ E) ∧ (("crc", 0, 4, 4) : Field) ∈ D ∧ D.Pairwise fun a b => a.1 ≠ b.1

theorem entry_agree : Agree NutsGen.F.entryEnc NutsGen.F.entryDec := ⟨by decide, by decide, by decide⟩
theorem meta_agree : Agree NutsGen.F.metaEnc NutsGen.F.metaDec := ⟨by decide, by decide, by decide⟩
theorem root_agree : Agree NutsGen.F.rootEnc NutsGen.F.rootDec := ⟨by decide, by decide, by decide⟩

/-! ### data entries -/

/-- the field values a Go `Entry` can hold (sizes are `uint32`, …) and what `tx.put` guarantees -/
structure EntryWF (e : Entry) : Prop where
  key_ne : e.key ≠ []
  ksz : e.key.length < 2 ^ 32
  vsz : e.value.length < 2 ^ 32
  bsz : e.bucket.length < 2 ^ 32
  ts : e.ts < 2 ^ 64
  ttl : e.ttl < 2 ^ 32
  flag : e.flag < 2 ^ 16
  status : e.status < 2 ^ 16
  ds : e.ds < 2 ^ 16
  txid : e.txid < 2 ^ 64

/-- the header of an encoded entry -/
def entryHdr (e : Entry) : Bytes := slice (encodeEntry e) 0 entryHeaderSize

theorem encodeEntry_split (e : Entry) :
    encodeEntry e = entryHdr e ++ (e.bucket ++ (e.key ++ e.value)) ∧ (entryHdr e).length = 42 := by
  have := encodeRaw_split entryEnc_wf e.raw
  simpa [Entry.raw, entryHdr, encodeEntry, entryHeaderSize] using this

/-- what the decoder sees in the header of an encoded entry -/
theorem entry_fields (e : Entry) (h : EntryWF e) :
    let v := getFields NutsGen.F.entryDec (entryHdr e)
    valOf v "keySize" = e.key.length ∧ valOf v "valueSize" = e.value.length ∧ valOf v "bucketSize" = e.bucket.length ∧
    valOf v "timestamp" = e.ts ∧ valOf v "TTL" = e.ttl ∧ valOf v "Flag" = e.flag ∧ valOf v "status" = e.status ∧
    valOf v "ds" = e.ds ∧ valOf v "txID" = e.txid ∧
    valOf v "crc" = (crc32 ((entryHdr e).drop 4 ++ (e.bucket ++ (e.key ++ e.value)))).toNat := by
  have hu := entry_agree.2.2
  have f : ∀ (n : String), fieldOf NutsGen.F.entryDec n ∈ NutsGen.F.entryDec → fieldOf NutsGen.F.entryDec n ∈ NutsGen.F.entryEnc →
      (fieldOf NutsGen.F.entryDec n).1 = n → n ≠ "c32" → ∀ w, (fieldOf NutsGen.F.entryDec n).2.2.2 = w → valOf e.raw.vals n < 256 ^ w →
      valOf (getFields NutsGen.F.entryDec (entryHdr e)) n = valOf e.raw.vals n := by
    intro n h1 h2 h3 h4 w hw h5
    have := decode_field entryEnc_wf e.raw (fieldOf NutsGen.F.entryDec n) h1 h2 (by rw [h3]; exact h4) hu (by rw [h3, hw]; exact h5)
    rw [h3] at this
    exact this
  have hcrc := decode_crc entryEnc_wf e.raw entry_agree.2.1 hu
  have hsplit := encodeEntry_split e
  refine ⟨?_, ?_, ?_, ?_, ?_, ?_, ?_, ?_, ?_, ?_⟩
  · exact f "keySize" (by decide) (by decide) (by decide) (by decide) 4 (by decide) (by simpa [Entry.raw, Entry.vals, valOf] using h.ksz)
  · exact f "valueSize" (by decide) (by decide) (by decide) (by decide) 4 (by decide) (by simpa [Entry.raw, Entry.vals, valOf] using h.vsz)
  · exact f "bucketSize" (by decide) (by decide) (by decide) (by decide) 4 (by decide) (by simpa [Entry.raw, Entry.vals, valOf] using h.bsz)
  · exact f "timestamp" (by decide) (by decide) (by decide) (by decide) 8 (by decide) (by simpa [Entry.raw, Entry.vals, valOf] using h.ts)
  · exact f "TTL" (by decide) (by decide) (by decide) (by decide) 4 (by decide) (by simpa [Entry.raw, Entry.vals, valOf] using h.ttl)
  · exact f "Flag" (by decide) (by decide) (by decide) (by decide) 2 (by decide) (by simpa [Entry.raw, Entry.vals, valOf] using h.flag)
  · exact f "status" (by decide) (by decide) (by decide) (by decide) 2 (by decide) (by simpa [Entry.raw, Entry.vals, valOf] using h.status)
  · exact f "ds" (by decide) (by decide) (by decide) (by decide) 2 (by decide) (by simpa [Entry.raw, Entry.vals, valOf] using h.ds)
  · exact f "txID" (by decide) (by decide) (by decide) (by decide) 8 (by decide) (by simpa [Entry.raw, Entry.vals, valOf] using h.txid)
  · have : (encodeEntry e).drop 4 = (entryHdr e).drop 4 ++ (e.bucket ++ (e.key ++ e.value)) := by
      conv => lhs; rw [hsplit.1]
      rw [List.drop_append_of_le_length (by rw [hsplit.2]; omega)]
    rw [← this]
    exact hcrc


theorem encodeEntry_length (e : Entry) :
    (encodeEntry e).length = 42 + (e.bucket.length + (e.key.length + e.value.length)) := by
  have := encodeEntry_split e
  rw [this.1]; simp [this.2]

/-- the three payload reads of `ReadAt` on an embedded encoded entry -/
theorem entry_reads (mm : Bool) (pre post : Bytes) (e : Entry) :
    readN mm (pre ++ encodeEntry e ++ post) pre.length entryHeaderSize = some (entryHdr e) ∧
    readN mm (pre ++ encodeEntry e ++ post) (pre.length + entryHeaderSize) e.bucket.length = some e.bucket ∧
    readN mm (pre ++ encodeEntry e ++ post) (pre.length + entryHeaderSize + e.bucket.length) e.key.length = some e.key ∧
    readN mm (pre ++ encodeEntry e ++ post) (pre.length + entryHeaderSize + e.bucket.length + e.key.length) e.value.length = some e.value := by
  have hl := encodeEntry_length e
  obtain ⟨hs, hh⟩ := encodeEntry_split e
  have key : ∀ (a n : Nat), a + n ≤ (encodeEntry e).length →
      readN mm (pre ++ encodeEntry e ++ post) (pre.length + a) n = some (slice (encodeEntry e) a (a + n)) :=
    fun a n h => readN_mid mm pre (encodeEntry e) post a n h
  refine ⟨?_, ?_, ?_, ?_⟩
  · have := key 0 42 (by omega)
    simpa [entryHdr, entryHeaderSize] using this
  · have := key 42 e.bucket.length (by omega)
    simp only [entryHeaderSize]
    rw [this]; refine congrArg some ?_
    conv => lhs; rw [hs]
    rw [← hh, show (entryHdr e).length + e.bucket.length = (entryHdr e).length + (0 + e.bucket.length) by omega]
    rw [show slice (entryHdr e ++ (e.bucket ++ (e.key ++ e.value))) (entryHdr e).length ((entryHdr e).length + (0 + e.bucket.length))
          = slice (entryHdr e ++ (e.bucket ++ (e.key ++ e.value))) ((entryHdr e).length + 0) ((entryHdr e).length + (0 + e.bucket.length)) by simp]
    rw [slice_shift]; simp [slice_zero_length]
  · have := key (42 + e.bucket.length) e.key.length (by omega)
    simp only [entryHeaderSize, Nat.add_assoc] at this ⊢
    rw [this]; refine congrArg some ?_
    conv => lhs; rw [hs]
    rw [← hh, slice_shift, show e.bucket.length + e.key.length = e.bucket.length + (0 + e.key.length) by omega]
    rw [show slice (e.bucket ++ (e.key ++ e.value)) e.bucket.length (e.bucket.length + (0 + e.key.length))
          = slice (e.bucket ++ (e.key ++ e.value)) (e.bucket.length + 0) (e.bucket.length + (0 + e.key.length)) by simp]
    rw [slice_shift]; simp [slice_zero_length]
  · have := key (42 + e.bucket.length + e.key.length) e.value.length (by omega)
    simp only [entryHeaderSize, Nat.add_assoc] at this ⊢
    rw [this]; refine congrArg some ?_
    conv => lhs; rw [hs]
    rw [← hh, slice_shift, slice_shift]
    rw [show slice (e.key ++ e.value) e.key.length (e.key.length + e.value.length)
          = slice (e.key ++ e.value) (e.key.length + 0) (e.key.length + e.value.length) by simp]
    rw [slice_shift]; simp [slice_all]

/-- **Round trip of data entries.** Whatever the field values (within their Go types), wherever the
record lies in a data file and whichever access mode reads it, `ReadAt` returns exactly the entry that
`Encode` wrote — never the end-of-data marker, never an error. -/
theorem C21_entry_roundtrip (mm : Bool) (pre post : Bytes) (e : Entry) (h : EntryWF e) :
    readEntry mm (pre ++ encodeEntry e ++ post) pre.length = .ok (some e) := by
  obtain ⟨r0, r1, r2, r3⟩ := entry_reads mm pre post e
  obtain ⟨f1, f2, f3, f4, f5, f6, f7, f8, f9, f10⟩ := entry_fields e h
  have hk : e.key.length ≠ 0 := by
    intro h0; exact h.key_ne (List.length_eq_zero_iff.mp h0)
  unfold readEntry
  simp only [r0, f1, f2, f3, f4, f5, f6, f7, f8, f9, f10, r1, r2, r3, getCrc_eq]
  simp [hk]


/-! ### corruption -/

theorem slice_join (r : Bytes) (a b c : Nat) (hab : a ≤ b) (hbc : b ≤ c) : slice r a b ++ slice r b c = slice r a c := by
  apply List.ext_getElem?
  intro i
  have hl : (slice r a b).length = min (b - a) (r.length - a) := by unfold slice; simp
  rw [List.getElem?_append, getElem?_slice, getElem?_slice, getElem?_slice, hl]
  by_cases h1 : i < b - a
  · by_cases h2 : i < r.length - a
    · have : i < min (b - a) (r.length - a) := by omega
      have h3 : i < c - a := by omega
      simp [this, h1, h3]
    · have : ¬ i < min (b - a) (r.length - a) := by omega
      have h4 : r.length ≤ a + i := by omega
      simp only [this, if_false]
      split <;> split <;> simp_all <;> omega
  · have : ¬ i < min (b - a) (r.length - a) := by omega
    simp only [this, if_false]
    by_cases h2 : i < r.length - a
    · have hm : min (b - a) (r.length - a) = b - a := by omega
      rw [hm]
      by_cases h3 : i < c - a
      · have : i - (b - a) < c - b := by omega
        simp only [this, h3, if_true]
        congr 1; omega
      · have : ¬ i - (b - a) < c - b := by omega
        simp [this, h3]
    · have h4 : r.length ≤ a + i := by omega
      split <;> split <;> simp_all <;> omega

theorem drop_slice (r : Bytes) (k n : Nat) (h : k ≤ n) : (slice r 0 n).drop k = slice r k n := by
  apply List.ext_getElem?
  intro i
  rw [List.getElem?_drop, getElem?_slice, getElem?_slice]
  by_cases hi : i < n - k
  · have : k + i < n - 0 := by omega
    simp only [hi, this, if_true, Nat.zero_add]
  · have : ¬ k + i < n - 0 := by omega
    simp only [hi, this, if_false]

/-- `ReadAt` on *arbitrary* bytes `rec` lying in a file, given the sizes its header declares: the only
way to obtain a record is a matching checksum over everything after the crc field -/
theorem readEntry_embedded (mm : Bool) (pre post rec : Bytes) (b k v : Nat)
    (hlen : rec.length = 42 + b + k + v)
    (hb : valOf (getFields NutsGen.F.entryDec (slice rec 0 42)) "bucketSize" = b)
    (hk : valOf (getFields NutsGen.F.entryDec (slice rec 0 42)) "keySize" = k)
    (hv : valOf (getFields NutsGen.F.entryDec (slice rec 0 42)) "valueSize" = v)
    (hcrc : (crc32 (rec.drop 4)).toNat ≠ leVal (slice rec 0 4)) :
    readEntry mm (pre ++ rec ++ post) pre.length = .err ∨ readEntry mm (pre ++ rec ++ post) pre.length = .ok none := by
  have key : ∀ (a n : Nat), a + n ≤ rec.length →
      readN mm (pre ++ rec ++ post) (pre.length + a) n = some (slice rec a (a + n)) :=
    fun a n h => readN_mid mm pre rec post a n h
  have r0 := key 0 42 (by omega)
  have r1 := key 42 b (by omega)
  have r2 := key (42 + b) k (by omega)
  have r3 := key (42 + b + k) v (by omega)
  have hstored : valOf (getFields NutsGen.F.entryDec (slice rec 0 42)) "crc" = leVal (slice rec 0 4) := by
    have := valOf_getFields NutsGen.F.entryDec (slice rec 0 42) ("crc", 0, 4, 4) entry_agree.2.1 entry_agree.2.2
    simp only at this
    rw [this, slice_slice _ _ _ _ (by omega)]
  have hjoin : (slice rec 0 42).drop 4 ++ [slice rec 42 (42 + b), slice rec (42 + b) (42 + b + k), slice rec (42 + b + k) (42 + b + k + v)].flatten
      = rec.drop 4 := by
    rw [drop_slice _ _ _ (by omega)]
    simp only [List.flatten_cons, List.flatten_nil, List.append_nil]
    rw [← List.append_assoc, slice_join _ _ _ _ (by omega) (by omega), ← List.append_assoc, slice_join _ _ _ _ (by omega) (by omega),
      slice_join _ _ _ _ (by omega) (by omega), ← hlen, slice_full]
  unfold readEntry
  simp only [Nat.add_zero, Nat.zero_add] at r0
  simp only [entryHeaderSize, r0, hb, hk, hv, hstored, Nat.add_assoc] at r1 r2 r3 ⊢
  split
  · right; rfl
  · simp only [r1, r2, r3, getCrc_eq]
    simp only [← Nat.add_assoc] at hjoin ⊢
    rw [hjoin]
    simp [hcrc]


/-- position `p` of the header lies inside the decoder's field `n` -/
def inField (D : Layout) (n : String) (p : Nat) : Prop := (fieldOf D n).2.1 ≤ p ∧ p < (fieldOf D n).2.2.1

instance (D : Layout) (n : String) (p : Nat) : Decidable (inField D n p) := by unfold inField; exact inferInstance

theorem slice_alter (A B : Bytes) (x y : UInt8) (lo hi : Nat) (h : hi ≤ A.length ∨ A.length < lo) :
    slice (A ++ y :: B) lo hi = slice (A ++ x :: B) lo hi := by
  apply List.ext_getElem?
  intro i
  rw [getElem?_slice, getElem?_slice]
  by_cases hi' : i < hi - lo
  · simp only [hi', if_true]
    rw [List.getElem?_append, List.getElem?_append]
    split
    · rfl
    · have : lo + i - A.length ≠ 0 := by omega
      obtain ⟨m, hm⟩ := Nat.exists_eq_succ_of_ne_zero this
      rw [hm]; simp
  · simp [hi']

theorem leVal_inj {a b : Bytes} (hl : a.length = b.length) (h : leVal a = leVal b) : a = b := by
  rw [← leBytes_leVal a, ← leBytes_leVal b, hl, h]

/-- the decoder's view of a size field only depends on that field's bytes -/
theorem size_field_alter (A B : Bytes) (x y : UInt8) (n : String)
    (hmem : fieldOf NutsGen.F.entryDec n ∈ NutsGen.F.entryDec) (hname : (fieldOf NutsGen.F.entryDec n).1 = n)
    (hhi : (fieldOf NutsGen.F.entryDec n).2.2.1 ≤ 42) (hout : ¬ inField NutsGen.F.entryDec n A.length) :
    valOf (getFields NutsGen.F.entryDec (slice (A ++ y :: B) 0 42)) n =
      valOf (getFields NutsGen.F.entryDec (slice (A ++ x :: B) 0 42)) n := by
  have h1 := valOf_getFields NutsGen.F.entryDec (slice (A ++ y :: B) 0 42) _ hmem entry_agree.2.2
  have h2 := valOf_getFields NutsGen.F.entryDec (slice (A ++ x :: B) 0 42) _ hmem entry_agree.2.2
  rw [hname] at h1 h2
  rw [h1, h2, slice_slice _ _ _ _ hhi, slice_slice _ _ _ _ hhi]
  congr 1
  apply slice_alter
  unfold inField at hout
  omega

/-- **Single-byte corruption of a data entry is never served as data.** Take any encoded entry lying
anywhere in a data file and alter exactly one byte of it (any alteration, in particular any single-bit
flip), anywhere except inside the three size fields: in the stored crc, timestamp, flag, TTL, status,
structure code, transaction id, bucket, key or value. Then `ReadAt`, in either access mode, returns an
error or "end of data" — never a record. -/
theorem C21_entry_one_byte (mm : Bool) (pre post A B : Bytes) (x y : UInt8) (e : Entry) (h : EntryWF e)
    (henc : encodeEntry e = A ++ x :: B) (hxy : x ≠ y)
    (hk : ¬ inField NutsGen.F.entryDec "keySize" A.length)
    (hv : ¬ inField NutsGen.F.entryDec "valueSize" A.length)
    (hb : ¬ inField NutsGen.F.entryDec "bucketSize" A.length) :
    readEntry mm (pre ++ (A ++ y :: B) ++ post) pre.length = .err ∨
    readEntry mm (pre ++ (A ++ y :: B) ++ post) pre.length = .ok none := by
  obtain ⟨f1, f2, f3, _, _, _, _, _, _, f10⟩ := entry_fields e h
  have hl := encodeEntry_length e
  obtain ⟨hs, hh⟩ := encodeEntry_split e
  have hhdr : entryHdr e = slice (A ++ x :: B) 0 42 := by unfold entryHdr; rw [henc]; rfl
  have hbody : (entryHdr e).drop 4 ++ (e.bucket ++ (e.key ++ e.value)) = (A ++ x :: B).drop 4 := by
    rw [← henc]
    conv => rhs; rw [hs]
    rw [List.drop_append_of_le_length (by rw [hh]; omega)]
  rw [hbody] at f10
  rw [hhdr] at f1 f2 f3 f10
  -- the stored checksum of the intact record is the checksum of the rest
  have hgood : leVal (slice (A ++ x :: B) 0 4) = (crc32 ((A ++ x :: B).drop 4)).toNat := by
    have hst := valOf_getFields NutsGen.F.entryDec (slice (A ++ x :: B) 0 42) ("crc", 0, 4, 4) entry_agree.2.1 entry_agree.2.2
    simp only at hst
    rw [slice_slice _ _ _ _ (by omega)] at hst
    rw [← hst, f10]
  apply readEntry_embedded mm pre post (A ++ y :: B) e.bucket.length e.key.length e.value.length
  · have : (A ++ y :: B).length = (A ++ x :: B).length := by simp
    rw [this, ← henc, hl]; omega
  · rw [size_field_alter A B x y "bucketSize" (by decide) (by decide) (by decide) hb, f3]
  · rw [size_field_alter A B x y "keySize" (by decide) (by decide) (by decide) hk, f1]
  · rw [size_field_alter A B x y "valueSize" (by decide) (by decide) (by decide) hv, f2]
  · by_cases hp : 4 ≤ A.length
    · -- the stored crc is intact, the checksummed string differs in one byte
      rw [slice_alter A B x y 0 4 (Or.inl hp), hgood]
      have d1 : (A ++ y :: B).drop 4 = A.drop 4 ++ y :: B := List.drop_append_of_le_length hp
      have d2 : (A ++ x :: B).drop 4 = A.drop 4 ++ x :: B := List.drop_append_of_le_length hp
      rw [d1, d2]
      intro hc
      exact crc32_one_byte (A.drop 4) B x y hxy (BitVec.eq_of_toNat_eq hc).symm
    · -- the alteration is inside the stored crc: the checksummed string is intact
      have d : (A ++ y :: B).drop 4 = (A ++ x :: B).drop 4 := by
        rw [drop_eq_slice, drop_eq_slice]
        have : (A ++ y :: B).length = (A ++ x :: B).length := by simp
        rw [this]
        exact slice_alter A B x y 4 _ (Or.inr (by omega))
      rw [d, ← hgood]
      intro hc
      have hlen4 : (slice (A ++ x :: B) 0 4).length = (slice (A ++ y :: B) 0 4).length := by
        rw [slice_length _ _ _ (by rw [← henc, hl]; omega), slice_length _ _ _ (by
          have : (A ++ y :: B).length = (A ++ x :: B).length := by simp
          rw [this, ← henc, hl]; omega)]
      have heq := leVal_inj hlen4 hc
      have := congrArg (·[A.length]?) heq
      simp only [getElem?_slice] at this
      have hlt : A.length < 4 - 0 := by omega
      simp [hlt] at this
      exact hxy this


/-! ### bucket metadata and root-index records (sparse mode) -/

theorem readN_mid0 (x post : Bytes) (a n : Nat) (h : a + n ≤ x.length) :
    readN false (x ++ post) a n = some (slice x a (a + n)) := by
  have := readN_mid false [] x post a n h
  simpa using this

def metaHdr (m : Meta) : Bytes := slice (encodeMeta m) 0 metaHeaderSize

theorem encodeMeta_split (m : Meta) :
    encodeMeta m = metaHdr m ++ (m.start ++ m.stop) ∧ (metaHdr m).length = 12 := by
  have := encodeRaw_split metaEnc_wf m.raw
  simpa [Meta.raw, metaHdr, encodeMeta, metaHeaderSize] using this

/-- **Round trip of bucket metadata**, for every key range. -/
theorem C21_meta_roundtrip (m : Meta) (post : Bytes) (hs : m.start.length < 2 ^ 32) (he : m.stop.length < 2 ^ 32) :
    readMeta (encodeMeta m ++ post) = .ok m := by
  have hu := meta_agree.2.2
  obtain ⟨hsp, hh⟩ := encodeMeta_split m
  have hl : (encodeMeta m).length = 12 + (m.start.length + m.stop.length) := by rw [hsp]; simp [hh]
  have f : ∀ (n : String), fieldOf NutsGen.F.metaDec n ∈ NutsGen.F.metaDec → fieldOf NutsGen.F.metaDec n ∈ NutsGen.F.metaEnc →
      (fieldOf NutsGen.F.metaDec n).1 = n → n ≠ "c32" → ∀ w, (fieldOf NutsGen.F.metaDec n).2.2.2 = w → valOf m.raw.vals n < 256 ^ w →
      valOf (getFields NutsGen.F.metaDec (metaHdr m)) n = valOf m.raw.vals n := by
    intro n h1 h2 h3 h4 w hw h5
    have := decode_field metaEnc_wf m.raw (fieldOf NutsGen.F.metaDec n) h1 h2 (by rw [h3]; exact h4) hu (by rw [h3, hw]; exact h5)
    rw [h3] at this
    exact this
  have v1 : valOf m.raw.vals "startSize" = m.start.length := by simp [Meta.raw, valOf]
  have v2 : valOf m.raw.vals "endSize" = m.stop.length := by simp [Meta.raw, valOf]
  have f1 := (f "startSize" (by decide) (by decide) (by decide) (by decide) 4 (by decide) (by rw [v1]; exact hs)).trans v1
  have f2 := (f "endSize" (by decide) (by decide) (by decide) (by decide) 4 (by decide) (by rw [v2]; exact he)).trans v2
  have f3 := decode_crc metaEnc_wf m.raw meta_agree.2.1 hu
  have hd : (encodeMeta m).drop 4 = (metaHdr m).drop 4 ++ (m.start ++ m.stop) := by
    conv => lhs; rw [hsp]
    rw [List.drop_append_of_le_length (by rw [hh]; omega)]
  have r0 : readN false (encodeMeta m ++ post) 0 metaHeaderSize = some (metaHdr m) := by
    have := readN_mid0 (encodeMeta m) post 0 12 (by omega)
    simpa [metaHdr, metaHeaderSize] using this
  have r1 : readN false (encodeMeta m ++ post) metaHeaderSize m.start.length = some m.start := by
    have := readN_mid0 (encodeMeta m) post 12 m.start.length (by omega)
    simp only [metaHeaderSize]
    rw [this]; refine congrArg some ?_
    conv => lhs; rw [hsp]
    rw [← hh, show (metaHdr m).length + m.start.length = (metaHdr m).length + (0 + m.start.length) by omega]
    rw [show slice (metaHdr m ++ (m.start ++ m.stop)) (metaHdr m).length ((metaHdr m).length + (0 + m.start.length))
          = slice (metaHdr m ++ (m.start ++ m.stop)) ((metaHdr m).length + 0) ((metaHdr m).length + (0 + m.start.length)) by simp]
    rw [slice_shift]; simp [slice_zero_length]
  have r2 : readN false (encodeMeta m ++ post) (metaHeaderSize + m.start.length) m.stop.length = some m.stop := by
    have := readN_mid0 (encodeMeta m) post (12 + m.start.length) m.stop.length (by omega)
    simp only [metaHeaderSize]
    rw [this]; refine congrArg some ?_
    conv => lhs; rw [hsp]
    rw [← hh, Nat.add_assoc, slice_shift]
    rw [show slice (m.start ++ m.stop) m.start.length (m.start.length + m.stop.length)
          = slice (m.start ++ m.stop) (m.start.length + 0) (m.start.length + m.stop.length) by simp]
    rw [slice_shift]; simp [slice_all]
  unfold readMeta
  simp only [encodeMeta, metaHdr] at f1 f2 f3 r0 r1 r2 hd ⊢
  simp only [r0, f1, f2, f3, r1, r2, getCrc_eq, hd]
  simp

def rootHdr (r : Root) : Bytes := slice (encodeRoot r) 0 rootHeaderSize

theorem encodeRoot_split (r : Root) :
    encodeRoot r = rootHdr r ++ (r.start ++ r.stop) ∧ (rootHdr r).length = 28 := by
  have := encodeRaw_split rootEnc_wf r.raw
  simpa [Root.raw, rootHdr, encodeRoot, rootHeaderSize] using this

/-- **Round trip of root-index records**, anywhere in a `.bptridx` file; a record with all four numeric
fields zero is the reader's end marker, so it is excluded (the library never writes one: `fID` of a
sealed segment with an empty range does not occur). -/
theorem C21_root_roundtrip (r : Root) (pre post : Bytes) (hf : r.fid < 2 ^ 64) (ho : r.rootOff < 2 ^ 64)
    (hs : r.start.length < 2 ^ 32) (he : r.stop.length < 2 ^ 32)
    (hnz : ¬ (r.rootOff = 0 ∧ r.fid = 0 ∧ r.start.length = 0 ∧ r.stop.length = 0)) :
    readRoot (pre ++ encodeRoot r ++ post) pre.length = .ok (some r) := by
  have hu := root_agree.2.2
  obtain ⟨hsp, hh⟩ := encodeRoot_split r
  have hl : (encodeRoot r).length = 28 + (r.start.length + r.stop.length) := by rw [hsp]; simp [hh]
  have f : ∀ (n : String), fieldOf NutsGen.F.rootDec n ∈ NutsGen.F.rootDec → fieldOf NutsGen.F.rootDec n ∈ NutsGen.F.rootEnc →
      (fieldOf NutsGen.F.rootDec n).1 = n → n ≠ "c32" → ∀ w, (fieldOf NutsGen.F.rootDec n).2.2.2 = w → valOf r.raw.vals n < 256 ^ w →
      valOf (getFields NutsGen.F.rootDec (rootHdr r)) n = valOf r.raw.vals n := by
    intro n h1 h2 h3 h4 w hw h5
    have := decode_field rootEnc_wf r.raw (fieldOf NutsGen.F.rootDec n) h1 h2 (by rw [h3]; exact h4) hu (by rw [h3, hw]; exact h5)
    rw [h3] at this
    exact this
  have v1 : valOf r.raw.vals "startSize" = r.start.length := by simp [Root.raw, valOf]
  have v2 : valOf r.raw.vals "endSize" = r.stop.length := by simp [Root.raw, valOf]
  have v4 : valOf r.raw.vals "fID" = r.fid := by simp [Root.raw, valOf]
  have v5 : valOf r.raw.vals "rootOff" = r.rootOff := by simp [Root.raw, valOf]
  have f1 := (f "startSize" (by decide) (by decide) (by decide) (by decide) 4 (by decide) (by rw [v1]; exact hs)).trans v1
  have f2 := (f "endSize" (by decide) (by decide) (by decide) (by decide) 4 (by decide) (by rw [v2]; exact he)).trans v2
  have f4 := (f "fID" (by decide) (by decide) (by decide) (by decide) 8 (by decide) (by rw [v4]; exact hf)).trans v4
  have f5 := (f "rootOff" (by decide) (by decide) (by decide) (by decide) 8 (by decide) (by rw [v5]; exact ho)).trans v5
  have f3 := decode_crc rootEnc_wf r.raw root_agree.2.1 hu
  have hd : (encodeRoot r).drop 4 = (rootHdr r).drop 4 ++ (r.start ++ r.stop) := by
    conv => lhs; rw [hsp]
    rw [List.drop_append_of_le_length (by rw [hh]; omega)]
  have key : ∀ (a n : Nat), a + n ≤ (encodeRoot r).length →
      readN false (pre ++ encodeRoot r ++ post) (pre.length + a) n = some (slice (encodeRoot r) a (a + n)) :=
    fun a n h => readN_mid false pre (encodeRoot r) post a n h
  have r0 : readN false (pre ++ encodeRoot r ++ post) pre.length rootHeaderSize = some (rootHdr r) := by
    have := key 0 28 (by omega)
    simpa [rootHdr, rootHeaderSize] using this
  have r1 : readN false (pre ++ encodeRoot r ++ post) (pre.length + rootHeaderSize) r.start.length = some r.start := by
    have := key 28 r.start.length (by omega)
    simp only [rootHeaderSize]
    rw [this]; refine congrArg some ?_
    conv => lhs; rw [hsp]
    rw [← hh, show (rootHdr r).length + r.start.length = (rootHdr r).length + (0 + r.start.length) by omega]
    rw [show slice (rootHdr r ++ (r.start ++ r.stop)) (rootHdr r).length ((rootHdr r).length + (0 + r.start.length))
          = slice (rootHdr r ++ (r.start ++ r.stop)) ((rootHdr r).length + 0) ((rootHdr r).length + (0 + r.start.length)) by simp]
    rw [slice_shift]; simp [slice_zero_length]
  have r2 : readN false (pre ++ encodeRoot r ++ post) (pre.length + rootHeaderSize + r.start.length) r.stop.length = some r.stop := by
    have := key (28 + r.start.length) r.stop.length (by omega)
    simp only [rootHeaderSize, Nat.add_assoc] at this ⊢
    rw [this]; refine congrArg some ?_
    conv => lhs; rw [hsp]
    rw [← hh, slice_shift]
    rw [show slice (r.start ++ r.stop) r.start.length (r.start.length + r.stop.length)
          = slice (r.start ++ r.stop) (r.start.length + 0) (r.start.length + r.stop.length) by simp]
    rw [slice_shift]; simp [slice_all]
  unfold readRoot
  simp only [encodeRoot, rootHdr] at f1 f2 f3 f4 f5 r0 r1 r2 hd ⊢
  simp only [r0, f1, f2, f3, f4, f5, r1, r2, getCrc_eq, hd]
  simp only [List.length_eq_zero_iff] at hnz
  simp [hnz]

/-! ### the hypotheses are satisfiable, and the statements say something on a concrete record -/

def sampleEntry : Entry :=
  { bucket := [98], key := [107, 124], value := [], ts := 1700000000, ttl := 0, flag := 1, status := 1, ds := 2, txid := 12345678901234567 }

example : EntryWF sampleEntry := by constructor <;> decide

/-- a one-byte alteration of the transaction id of the sample record, concretely -/
example : ∃ A B x, encodeEntry sampleEntry = A ++ x :: B ∧ A.length = 35 ∧
    ¬ inField NutsGen.F.entryDec "keySize" A.length ∧ ¬ inField NutsGen.F.entryDec "valueSize" A.length ∧
    ¬ inField NutsGen.F.entryDec "bucketSize" A.length := by
  refine ⟨(encodeEntry sampleEntry).take 35, (encodeEntry sampleEntry).drop 36, (encodeEntry sampleEntry)[35]!, ?_, ?_, ?_, ?_, ?_⟩
  · decide +kernel
  · decide +kernel
  · decide
  · decide
  · decide

/-- **regenerated tie of the codecs.** Read off entry.go / bucket_meta.go / bptree_root_idx.go on this run: encoder
and decoder agree on every header field of the three record kinds; every field's slice has the width of its
integer type, the fields are disjoint and cover the header (42 / 12 / 28 bytes); the checksum covers everything
after the crc field and then the payloads in storage order; the header size constant is the model's. -/
theorem C21_layouts_regenerated :
    (NutsProofs.Facts.fieldsOf NutsGen.F.entryEnc = NutsProofs.Facts.fieldsOf NutsGen.F.entryDec ∧
     NutsProofs.Facts.fieldsOf NutsGen.F.metaEnc = NutsProofs.Facts.fieldsOf NutsGen.F.metaDec ∧
     NutsProofs.Facts.fieldsOf NutsGen.F.rootEnc = NutsProofs.Facts.fieldsOf NutsGen.F.rootDec) ∧
    (NutsProofs.Facts.wf NutsGen.F.entryEnc 42 = true ∧ NutsProofs.Facts.wf NutsGen.F.metaEnc 12 = true ∧
     NutsProofs.Facts.wf NutsGen.F.rootEnc 28 = true) ∧
    NutsGen.F.entryCrcDec = ["buf[4:]", "e.Meta.bucket", "e.Key", "e.Value"] ∧
    NutsProofs.Facts.lookup NutsGen.F.consts "DataEntryHeaderSize" = some (Nuts.Model.DB.headerSize : Nat) :=
  ⟨NutsProofs.Facts.layouts_agree, NutsProofs.Facts.layouts_wf, NutsProofs.Facts.crc_coverage_ok.2.1,
   NutsProofs.Facts.consts_ok.2.2.2.2.2.2.2.2.2.2.2.2.2.2.2.2.2.2.1⟩

end NutsProofs.C21
