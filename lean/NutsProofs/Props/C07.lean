/-
  C07 — Sorted sets order members by (score, key).

  Two layers, both proved for every input:

  * the node list (`Nuts.Model.ZSetA`, what the database model uses): `Put` / `Remove` keep it strictly
    ordered by (score, key) with distinct keys; the head is the minimum (`Lemmas/ZSetOrder.lean`);
  * the skiplist itself (`Nuts.Model.Skiplist`: towers, one span per level, every search loop of
    ds/zset/sortedset.go, the span arithmetic of `insertNode` and `deleteNode`, level growth and shrinking):
    for every sequence of `Put`, `Remove`, `PopMin`, `PopMax`, every level layout and every level the random
    generator may draw (1 … 32), the members of the skiplist in level-0 order are exactly the node list after
    the same operations, each operation returns what the list operation returns, and every stored span of every
    tower is the distance to the next tower that has that level — the fact the rank queries rest on
    (`C07_skiplist_refines_sorted_list`; `Lemmas/Skiplist*.lean`).

  The model of the skiplist is tied to the code by suite `zset-ds`: after every operation the levels, spans,
  forward and backward pointers, tail and length of the real structure are compared with the model's.
-/
import Nuts.Model.ZSetA
import NutsProofs.Lemmas.ZSetOrder
import NutsProofs.Lemmas.SkiplistRank
import NutsProofs.Lemmas.Isolation
import NutsProofs.Pins.Zset
import NutsProofs.Pins.TxApi
import NutsProofs.Pins.TxApiZset
namespace NutsProofs.C07
open Nuts Nuts.Model Nuts.Model.ZSetA NutsProofs NutsProofs.ZOrd

/-! ### the node list -/

/-- **Put** keeps the node list strictly ordered by (score, key) -/
theorem C07_put_sorted (s : St) (k : Bytes) (sc : Int) (v : Bytes) (h : ZOrd.Sorted s) : ZOrd.Sorted (put s k sc v) :=
  put_sorted s k sc v h

theorem C07_remove_sorted (s : St) (k : Bytes) (h : ZOrd.Sorted s) : ZOrd.Sorted (remove s k) := remove_sorted s k h

/-- inserting a node whose key is new keeps the list strictly ordered -/
theorem C07_insert_sorted (s : St) (n : Node) (h : ZOrd.Sorted s) (hk : ∀ x ∈ s, x.key ≠ n.key) :
    ZOrd.Sorted (insertSorted s n) := insertSorted_sorted s n h hk

/-- in a sorted list the minimum is the head -/
theorem C07_head_is_min (x : Node) (xs : St) (h : ZOrd.Sorted (x :: xs)) : ∀ y ∈ xs, Lt x y := head_is_min x xs h

/-- ties on the score are ordered by key: `a` before `b` at equal scores -/
theorem C07_witness_ties : (put (put [] [98] 1 []) [97] 1 []).map (·.key) = [[97], [98]] := by decide

/-! ### the skiplist -/

open Nuts.Model.Skiplist NutsProofs.SkipL

/-- the mutating operations of ds/zset; `lvl` is the level `randomLevel()` drew for the node a `Put` creates
(ignored when it creates none) -/
inductive ZOp where
  | put (k : Bytes) (score : Int) (v : Bytes) (lvl : Nat)
  | rem (k : Bytes)
  | popMin
  | popMax
  | remRange (a b : Int)

def stepSL (s : SL) : ZOp → SL
  | .put k sc v lvl => Skiplist.put s k sc v lvl
  | .rem k => (Skiplist.remove s k).1
  | .popMin => (Skiplist.popMin s).1
  | .popMax => (Skiplist.popMax s).1
  | .remRange a b => (Skiplist.getByRankRange s a b true).1

def stepZ (z : St) : ZOp → St
  | .put k sc v _ => ZSetA.put z k sc v
  | .rem k => ZSetA.remove z k
  | .popMin => (ZSetA.popMin z).2
  | .popMax => (ZSetA.popMax z).2
  | .remRange a b => (ZSetA.getByRankRange z a b true).2

/-- what an operation returns -/
def outSL (s : SL) : ZOp → List Node
  | .put _ _ _ _ => []
  | .rem k => (Skiplist.remove s k).2.toList
  | .popMin => (Skiplist.popMin s).2.toList
  | .popMax => (Skiplist.popMax s).2.toList
  | .remRange a b => (Skiplist.getByRankRange s a b true).2

def outZ (z : St) : ZOp → List Node
  | .put _ _ _ _ => []
  | .rem k => (ZSetA.find? z k).toList
  | .popMin => (ZSetA.popMin z).1.toList
  | .popMax => (ZSetA.popMax z).1.toList
  | .remRange a b => (ZSetA.getByRankRange z a b true).1

/-- an operation is admissible on a set of `len` members: `randomLevel()` returns a value between 1 and
`SkipListMaxLevel`; the regenerated `sanitizeIndexes` yields ranks ≥ 1 (it does for all 64-bit arguments and
fewer than 2^62 members: `sanitize_pos`, `C20_sanitize_positive`) -/
def OpOk (len : Nat) : ZOp → Prop
  | .put _ _ _ lvl => 1 ≤ lvl ∧ lvl ≤ maxLevel
  | .remRange a b => 1 ≤ (ZSetA.sanitize len a b).1 ∧ 1 ≤ (ZSetA.sanitize len a b).2
  | _ => True

def OpsOk : St → List ZOp → Prop
  | _, [] => True
  | z, op :: rest => OpOk z.length op ∧ OpsOk (stepZ z op) rest

theorem length_eq {s : SL} (h : OInv s) : s.length.toNat = (nodes s).length := by
  obtain ⟨hd, ts, eall, _⟩ := h.inv.hdr
  have : s.all.length = (nodes s).length + 1 := by simp [nodes, eall]
  rw [h.inv.len]; omega

theorem step_refines (s : SL) (h : OInv s) (op : ZOp) (hl : OpOk (nodes s).length op) :
    OInv (stepSL s op) ∧ nodes (stepSL s op) = stepZ (nodes s) op ∧ outSL s op = outZ (nodes s) op := by
  cases op with
  | put k sc v lvl =>
    obtain ⟨a, b⟩ := put_refines h k sc v lvl hl.1 hl.2
    exact ⟨a, b, rfl⟩
  | rem k =>
    obtain ⟨a, b, c⟩ := remove_refines h k
    exact ⟨a, b, by simp only [outSL, outZ, c]⟩
  | popMin =>
    obtain ⟨a, b, c⟩ := popMin_refines h
    exact ⟨a, b, by simp only [outSL, outZ, c]⟩
  | popMax =>
    obtain ⟨a, b, c⟩ := popMax_refines h
    exact ⟨a, b, by simp only [outSL, outZ, c]⟩
  | remRange a b =>
    have hl' : 1 ≤ (ZSetA.sanitize s.length.toNat a b).1 ∧ 1 ≤ (ZSetA.sanitize s.length.toNat a b).2 := by
      rw [length_eq h]; exact hl
    exact getByRankRange_rm_refines h a b hl'

theorem history_refines : ∀ (ops : List ZOp) (s : SL) (z : St), OInv s → nodes s = z → OpsOk z ops →
    OInv (ops.foldl stepSL s) ∧ nodes (ops.foldl stepSL s) = ops.foldl stepZ z := by
  intro ops
  induction ops with
  | nil => intro s z h e _; exact ⟨h, e⟩
  | cons op rest ih =>
    intro s z h e hl
    subst e
    obtain ⟨a, b, _⟩ := step_refines s h op hl.1
    simp only [List.foldl_cons]
    exact ih _ _ a b hl.2

/-- **C07, the skiplist.** For every sequence of `Put`, `Remove`, `PopMin`, `PopMax` and
`GetByRankRange(…, remove)` from the empty sorted set, whatever levels the random generator draws: the members
of the skiplist in level-0 order are the node list after the same operations (ordered by score then key, keys
distinct), the structure is well-formed — header of 32 levels, `1 ≤ level ≤ 32`, `length` = number of members,
every member has between 1 and `level` levels — and **every stored span of every tower is the distance to the
next tower that has that level** (to the end of the list when there is none). -/
theorem C07_skiplist_refines_sorted_list (ops : List ZOp) (hl : OpsOk [] ops) :
    nodes (ops.foldl stepSL Skiplist.empty) = ops.foldl stepZ [] ∧
    ZOrd.Sorted (nodes (ops.foldl stepSL Skiplist.empty)) ∧
    ((nodes (ops.foldl stepSL Skiplist.empty)).map (·.key)).Nodup ∧
    Inv (ops.foldl stepSL Skiplist.empty) := by
  obtain ⟨a, b⟩ := history_refines ops Skiplist.empty [] oinv_empty rfl hl
  exact ⟨b, a.sorted, a.keys, a.inv⟩

/-- … every mutating operation returns what the list operation returns (the removed node, the popped minimum
or maximum, the removed rank range in order; nothing when there is none) … -/
theorem C07_skiplist_results (ops : List ZOp) (hl : OpsOk [] ops) (op : ZOp)
    (ho : OpOk (ops.foldl stepZ []).length op) :
    outSL (ops.foldl stepSL Skiplist.empty) op = outZ (ops.foldl stepZ []) op := by
  obtain ⟨a, b⟩ := history_refines ops Skiplist.empty [] oinv_empty rfl hl
  rw [← b] at ho ⊢
  exact (step_refines _ a op ho).2.2

/-- … and **every query answers from the skiplist what the list answers**, for every argument: `GetByKey`,
`FindRank` (1-based index, 0 when absent), `FindRevRank`, `GetByRankRange` without removal (negative and
reversed ranks included), `GetByScoreRange` (both directions, exclusive bounds, limit), `PeekMin`, `PeekMax`. -/
theorem C07_skiplist_queries (ops : List ZOp) (hl : OpsOk [] ops) :
    let s := ops.foldl stepSL Skiplist.empty
    let z := ops.foldl stepZ []
    (∀ k, Skiplist.find? s k = ZSetA.find? z k) ∧
    (∀ k, Skiplist.findRank s k = ((ZSetA.rankOf z k : Nat) : Int)) ∧
    (∀ k, Skiplist.findRevRank s k = if z.isEmpty || ZSetA.rankOf z k == 0 then 0 else (z.length : Int) - (ZSetA.rankOf z k : Nat) + 1) ∧
    (∀ a b, 1 ≤ (ZSetA.sanitize z.length a b).1 ∧ 1 ≤ (ZSetA.sanitize z.length a b).2 →
      (Skiplist.getByRankRange s a b false).1 = s ∧
      (Skiplist.getByRankRange s a b false).2 = (ZSetA.getByRankRange z a b false).1) ∧
    (∀ a b limit exA exB, Skiplist.getByScoreRange s a b limit exA exB = ZSetA.getByScoreRange z a b limit exA exB) ∧
    Skiplist.peekMin s = z.head? ∧ Skiplist.peekMax s = z.getLast? := by
  intro s z
  obtain ⟨a, b⟩ := history_refines ops Skiplist.empty [] oinv_empty rfl hl
  have hb : nodes s = z := b
  refine ⟨?_, ?_, ?_, ?_, ?_, ?_, ?_⟩
  · intro k; rw [← hb]; exact find_eq s k
  · intro k; rw [← hb]; exact findRank_refines a k
  · intro k
    unfold Skiplist.findRevRank
    rw [find_eq, findRank_refines a k, hb]
    have hlen : s.length = (z.length : Int) := by
      have h1 : s.length.toNat = (nodes s).length := length_eq a
      rw [hb] at h1
      have h2 : s.length = ((s.all.length - 1 : Nat) : Int) := a.inv.len
      omega
    rw [hlen]
    cases hz : z with
    | nil => simp [ZSetA.rankOf]
    | cons x xs =>
      simp only [List.length_cons, List.isEmpty_cons, Bool.false_or]
      have hne : ¬ (((xs.length + 1 : Nat) : Int) = 0) := by omega
      rw [if_neg hne]
      cases hf : ZSetA.find? (x :: xs) k with
      | none =>
        have : ZSetA.rankOf (x :: xs) k = 0 := by
          unfold ZSetA.rankOf
          have hfresh := find_none_fresh hf
          have : (x :: xs).findIdx? (fun y => decide (y.key = k)) = none := by
            rw [List.findIdx?_eq_none_iff]
            intro y hy
            simpa using hfresh y hy
          rw [this]
        simp [this]
      | some n =>
        have : ZSetA.rankOf (x :: xs) k ≠ 0 := by
          unfold ZSetA.rankOf
          cases hi : (x :: xs).findIdx? (fun y => decide (y.key = k)) with
          | some i => simp
          | none =>
            exfalso
            rw [List.findIdx?_eq_none_iff] at hi
            obtain ⟨hk, j, hj⟩ := find_some_idx hf
            have := hi n (List.mem_of_getElem? hj)
            simp [hk] at this
        simp [this]
  · intro x y hpos
    have hpos' : 1 ≤ (ZSetA.sanitize s.length.toNat x y).1 ∧ 1 ≤ (ZSetA.sanitize s.length.toNat x y).2 := by
      rw [length_eq a, hb]; exact hpos
    rw [← hb]
    exact getByRankRange_ro_refines a x y hpos'
  · intro x y l e1 e2; rw [← hb]; exact getByScoreRange_refines a x y l e1 e2
  · rw [← hb]; exact peekMin_refines a.inv
  · rw [← hb]; exact peekMax_refines s

/-- **regenerated tie of the skiplist model.** The statements of ds/zset/sortedset.go that compute with spans,
`rank[]` and `traversed`, the conditions of its search loops and its score tests — the lines
`Nuts.Model.Skiplist` renders as functions — are, on this run, exactly the expected ones
(`NutsProofs.Facts.expectedSpanStmts`): a change to the arithmetic or to a comparison breaks this obligation
whether or not a generated history reaches it. -/
theorem C07_span_arithmetic_regenerated : NutsGen.F.spanStmts = NutsProofs.Facts.expectedSpanStmts :=
  NutsProofs.Facts.span_arithmetic_ok

open Nuts.Model.DB NutsProofs.Reopen NutsProofs.ReopenAll NutsProofs.Isolation in
/-- **C07, sorted sets through transactions, every history.** After any history of successfully committed
transactions over all four structures, with reopens (key+value mode), the sorted set of bucket `b` is what the
committed sorted-set records of that bucket produce, applied in commit order to the empty set: `ZAdd` =
`ZSetA.put`, `ZRem` = `remove`, `ZRemRangeByRank` = `getByRankRange … true`, `ZPopMax` / `ZPopMin` = the pops —
the list operations the skiplist is proved to refine above — whatever other buckets and structures did in
between. -/
theorem C07_zsets_after_every_history (opt0 : Opts) (ops : List OpA) (hok : OpsOkA (openDB opt0 []).1 ops) (b : Bytes) :
    let s := ops.foldl stepA (openDB opt0 []).1
    (aget? s.zsets b).getD [] =
      ((((allRecs s.files).map (·.1)).filter fun r => r.bucket == b).filter fun r => r.ds == dsZSet).foldl
        (fun z r => (applyZSet z r false).1) [] := by
  intro s
  exact (structures_of_own_records s (allInv_ops ops _ (allInv_init opt0) hok) b).2

/-- the history of the witness below -/
def wOps : List ZOp := [.put [98] 1 [1] 1, .put [97] 1 [2] 3, .put [99] 0 [3] 2, .put [98] 5 [4] 2, .rem [97], .remRange (-1) 5, .popMin]

/-- non-vacuity: a history with towers of 1, 3 and 2 levels, a tie on the score, a re-scored member, a removal,
a rank-range removal with a negative rank and a pop; the members and the spans the model computes (header
first) -/
theorem C07_witness_skiplist :
    OpsOk [] wOps ∧
    (nodes ((wOps.take 5).foldl stepSL Skiplist.empty)).map (·.key) = [[99], [98]] ∧
    (nodes (wOps.foldl stepSL Skiplist.empty)).map (·.key) = [] ∧
    (nodes ((wOps.take 4).foldl stepSL Skiplist.empty)).map (·.key) = [[99], [97], [98]] ∧
    (((wOps.take 4).foldl stepSL Skiplist.empty).all.map (·.spans.take 3)) = [[1, 1, 2], [1, 1], [1, 1, 1], [0, 0]] := by
  refine ⟨?_, by decide +kernel, by decide +kernel, by decide +kernel, by decide +kernel⟩
  refine ⟨⟨by decide, by decide⟩, ⟨by decide, by decide⟩, ⟨by decide, by decide⟩, ⟨by decide, by decide⟩, trivial, ?_, trivial, trivial⟩
  constructor <;> decide +kernel

/-- **regenerated tie.** On this run, the sorted-set calls of the transactional API (which record each queues, the
score encoding in the key, the checks against the committed sorted set, the arguments handed to the skiplist
for the rank and score ranges) and `tx.put` are the source lines `Nuts.Model.Tx` was written from
(`NutsProofs.Facts.expectedTxApiCore`, `expectedTxApiZset`). -/
theorem C07_tx_api_regenerated :
    NutsProofs.Facts.txApiOfCore = NutsProofs.Facts.expectedTxApiCore ∧
    NutsProofs.Facts.txApiOfZset = NutsProofs.Facts.expectedTxApiZset :=
  ⟨NutsProofs.Facts.tx_api_core_ok, NutsProofs.Facts.tx_api_zset_ok⟩

end NutsProofs.C07
